import CuqiVerif.Proofs.C16

/-!
# C16 — property theorems

All theorems are about the definitions of `Model/C16.lean` that the driver executes.  The model is
generic in the scalar type; here `K` is any linearly ordered field (`ℚ` — the driver's instance —
and `ℝ` included).  For the Krylov solvers the vector types are arbitrary `K`-modules `V`, `W`
whose operations are handed to the model in a lawful record (`VOps.Lawful`); `A`, `Aᵀ`, `P⁻¹`,
`P⁻ᵀ` are arbitrary linear maps (the invariants need no adjointness).  The projection / proximal
theorems are about the executable array functions `proximalL1`, `projectBox`, `projectNonnegative`.
-/
open Finset

set_option linter.unusedSectionVars false
set_option linter.unusedVariables false

namespace CuqiVerif.C16

variable {K : Type} [Field K] [LinearOrder K] [IsStrictOrderedRing K]

/-! ## 1. CGLS -/
section CG
variable {V W : Type} [AddCommGroup V] [Module K V] [AddCommGroup W] [Module K W]
variable {oV : VOps K V} {oW : VOps K W} (A : V →ₗ[K] W) (At : W →ₗ[K] V) (b : W) (shift tol eps : K)

/-- **Residual invariant (any start, any shift, any iteration count):** in the state CGLS ends
    with, `r = b − A x`, `s = Aᵀ r − shift·x` and `γ = ‖s‖²` — the recurred residuals are the true
    residuals of the returned `x`. -/
theorem cgls_residual_inv (hV : oV.Lawful) (hW : oW.Lawful) (x0 : V) (maxit : ℕ) 
    (st : CGState K V W) (hst : st = cgls oV oW A At b shift tol eps x0 maxit) :
    st.r = b - A st.x ∧ st.s = At (b - A st.x) - shift • st.x ∧ st.gamma = oV.nrm2 st.s := by
  subst hst
  obtain ⟨h1, h2, h3, _⟩ := cgls_inv A At b shift tol eps hV hW x0 maxit
  exact ⟨h1, by rw [← h1]; exact h2, h3⟩

example : (cgls (VOps.ofModule ℚ ℚ (· * ·)) (VOps.ofModule ℚ ℚ (· * ·)) (fun x => 2 * x) (fun x => 2 * x)
    (6 : ℚ) 0 (1/1000) (1/2^52) 0 5).x = 3 := by decide +kernel

/-- **Stopping is sound (from any start):** if CGLS stops by its convergence flag (`tol ≥ 0`), the
    returned `x` satisfies the shifted normal equations to the stated relative tolerance,
    `‖Aᵀ(b − A x) − shift·x‖² ≤ tol²·‖s₀‖²`, or else the second clause `‖x‖·tol ≥ 1` fired. -/
theorem cgls_stop_sound (hV : oV.Lawful) (hW : oW.Lawful) (htol : 0 ≤ tol) (x0 : V) (maxit : ℕ) 
    (st : CGState K V W) (hst : st = cgls oV oW A At b shift tol eps x0 maxit) :
    st.flag = true →
      oV.nrm2 (At (b - A st.x) - shift • st.x)
          ≤ oV.nrm2 (At (b - A x0) - shift • x0) * tol ^ 2
        ∨ 1 ≤ oV.nrm2 st.x * tol ^ 2 := by
  subst hst; intro hflag
  obtain ⟨h1, h2, h3, h4⟩ := cgls_inv A At b shift tol eps hV hW x0 maxit
  have hf := (cgFlag_true_iff _ _ _ _ htol).1 (h4 hflag)
  rw [h3, h2] at hf
  rw [← h1]; exact hf

/-- **Either converged or out of iterations:** `k ≤ maxit`, and if the flag is not set then exactly
    `maxit` iterations were made. -/
theorem cgls_stop_complete (fwd : V → W) (adj : W → V) (x0 : V) (maxit : ℕ) 
    (st : CGState K V W) (hst : st = cgls oV oW fwd adj b shift tol eps x0 maxit) :
    st.k ≤ maxit ∧ (st.flag = false → st.k = maxit) := by
  subst hst
  have := cglsLoop_count (oV := oV) (oW := oW) fwd adj shift tol eps
    (cglsInit oV oW fwd adj b shift x0).gamma maxit (cglsInit oV oW fwd adj b shift x0)
  simpa [cgls, cglsInit] using this

/-- **Exact solution at `tol = 0`:** with a definite `dot`, a set flag at `tol = 0` means
    `(AᵀA + shift·I) x = Aᵀ b` exactly. -/
theorem cgls_exact_of_tol_zero (hV : oV.Lawful) (hW : oW.Lawful)
    (hpos : ∀ v, 0 ≤ oV.dot v v) (hdef : ∀ v, oV.dot v v = 0 → v = 0) (x0 : V) (maxit : ℕ) 
    (st : CGState K V W) (hst : st = cgls oV oW A At b shift 0 eps x0 maxit) :
    st.flag = true → At (A st.x) + shift • st.x = At b := by
  intro hflag
  have h := cgls_stop_sound A At b shift 0 eps hV hW le_rfl x0 maxit st hst hflag
  simp only [ne_eq, OfNat.ofNat_ne_zero, not_false_eq_true, zero_pow, mul_zero] at h
  rcases h with h | h
  · have hz := hdef _ (le_antisymm h (hpos _))
    rw [map_sub] at hz
    have : At b = At (A st.x) + shift • st.x := by
      rw [← sub_eq_zero]; rw [← hz]; abel
    exact this.symm
  · exact absurd h (by norm_num)

/-- **Matrix form = function form:** if the forward/adjoint callables compute `A·` and `Aᵀ·`, the
    function-handle branch of CGLS yields the identical final state (same `x`, same `k`). -/
theorem cgls_matrix_eq_function {m n : ℕ} (oV : VOps K (Vector K n)) (oW : VOps K (Vector K m))
    (M : Mat K m n) (F : Vector K n → Vector K m) (G : Vector K m → Vector K n)
    (hF : ∀ x, F x = mulVec M x) (hG : ∀ r, G r = mulVecT M r)
    (b : Vector K m) (shift tol eps : K) (x0 : Vector K n) (maxit : ℕ) :
    cgls oV oW F G b shift tol eps x0 maxit = cgls oV oW (mulVec M) (mulVecT M) b shift tol eps x0 maxit := by
  have e1 : F = mulVec M := funext hF
  have e2 : G = mulVecT M := funext hG
  subst e1 e2; rfl

end CG

/-! ## 2. PCGLS -/
section PCG
variable {V W : Type} [AddCommGroup V] [Module K V] [AddCommGroup W] [Module K W]
variable {oV : VOps K V} {oW : VOps K W} (A : V →ₗ[K] W) (At : W →ₗ[K] V) (b : W) (tol eps : K)
  (Pi PiT : V →ₗ[K] V)

/-- **PCGLS ignores its `shift` argument** (code-faithful: `self._shift` is never read). -/
theorem pcgls_ignores_shift (fwd : V → W) (adj : W → V) (pinv pinvT : V → V) (shift : K) (x0 : V) (maxit : ℕ) :
    pcgls oV oW fwd adj b tol eps pinv pinvT shift x0 maxit
      = pcgls oV oW fwd adj b tol eps pinv pinvT 0 x0 maxit := rfl

/-- **PCGLS residual invariant:** `r = b − A x` and `s = P⁻ᵀ Aᵀ (b − A x)` — the gradient of the
    *unshifted* least-squares problem in the preconditioned variable, whatever `shift` was passed. -/
theorem pcgls_residual_inv (hV : oV.Lawful) (hW : oW.Lawful) (shift : K) (x0 : V) (maxit : ℕ) 
    (st : CGState K V W) (hst : st = pcgls oV oW A At b tol eps Pi PiT shift x0 maxit) :
    st.r = b - A st.x ∧ st.s = PiT (At (b - A st.x)) ∧ st.gamma = oV.nrm2 st.s := by
  subst hst
  obtain ⟨h1, h2, h3, _⟩ := pcgls_inv A At b tol eps Pi PiT hV hW shift x0 maxit
  exact ⟨h1, by rw [← h1]; exact h2, h3⟩

/-- **PCGLS stopping is sound for the unshifted problem only:** a set flag gives
    `‖P⁻ᵀAᵀ(b − A x)‖² ≤ tol²·‖P⁻ᵀAᵀ(b − A x₀)‖²` (or `‖x‖·tol ≥ 1`).  No statement about
    `(AᵀA + shift·I)x = Aᵀb` is provable: see `pcgls_shift_counterexample`. -/
theorem pcgls_stop_sound_partial (hV : oV.Lawful) (hW : oW.Lawful) (htol : 0 ≤ tol) (shift : K) (x0 : V) (maxit : ℕ) 
    (st : CGState K V W) (hst : st = pcgls oV oW A At b tol eps Pi PiT shift x0 maxit) :
    st.flag = true →
      oV.nrm2 (PiT (At (b - A st.x))) ≤ oV.nrm2 (PiT (At (b - A x0))) * tol ^ 2
        ∨ 1 ≤ oV.nrm2 st.x * tol ^ 2 := by
  subst hst; intro hflag
  obtain ⟨h1, h2, h3, h4⟩ := pcgls_inv A At b tol eps Pi PiT hV hW shift x0 maxit
  have hf := (cgFlag_true_iff _ _ _ _ htol).1 (h4 hflag)
  rw [h3, h2] at hf
  rw [← h1]; exact hf

/-- **Negation witness for the shifted statement:** `A = P = 1`, `b = 1`, `shift = 1` on `ℚ`: PCGLS
    converges (flag set) to `x = 1`, the solution of `x = b`, while `(AᵀA + shift)x = Aᵀb` needs `x = 1/2`. -/
theorem pcgls_shift_counterexample :
    let st := pcgls (VOps.ofModule ℚ ℚ (· * ·)) (VOps.ofModule ℚ ℚ (· * ·)) (id : ℚ → ℚ) id (1 : ℚ) (1/1000) (1/2^52) id id 1 0 5
    st.flag = true ∧ st.x = 1 ∧ st.x + 1 * st.x ≠ 1 := by decide +kernel

/-- correspondence between a PCGLS state and a CGLS state on the operator `A P⁻¹` -/
def PCRel (Pi : V →ₗ[K] V) (st st' : CGState K V W) : Prop :=
  st.x = Pi st'.x ∧ st.r = st'.r ∧ st.s = st'.s ∧ st.p = st'.p ∧ st.gamma = st'.gamma ∧ st.k = st'.k

/-- **PCGLS is CGLS on `A P⁻¹`:** started at `x₀ = P⁻¹ y₀`, after any number `j` of loop bodies the
    PCGLS state equals the (unshifted) CGLS state for the operator `A P⁻¹` / adjoint `P⁻ᵀ Aᵀ` started
    at `y₀`, with `x = P⁻¹ y` (residual, gradient, direction, `γ`, `k` identical). -/
theorem pcgls_eq_cgls_on_APinv (hV : oV.Lawful) (hW : oW.Lawful) (gamma0 : K) (x0 y0 : V)
    (hx : x0 = Pi y0) (j : ℕ) :
    PCRel Pi ((pcglsStep oV oW A At tol eps Pi PiT gamma0)^[j] (pcglsInit oV oW A At b PiT x0))
      ((cglsStep oV oW (A ∘ₗ Pi) (PiT ∘ₗ At) 0 tol eps gamma0)^[j] (cglsInit oV oW (A ∘ₗ Pi) (PiT ∘ₗ At) b 0 y0)) := by
  induction j with
  | zero =>
    simp only [Function.iterate_zero, id_eq]
    unfold PCRel pcglsInit cglsInit
    simp [hx, hV.sub, hV.smul, hW.sub]
  | succ j ih =>
    rw [Function.iterate_succ_apply', Function.iterate_succ_apply']
    obtain ⟨h1, h2, h3, h4, h5, h6⟩ := ih
    unfold PCRel pcglsStep cglsStep
    simp only [hV.sub, hV.smul, hV.add, hW.sub, hW.smul, LinearMap.comp_apply, zero_mul, add_zero,
      zero_smul, sub_zero, h1, h2, h3, h4, h5, h6, map_add, map_smul]
    exact ⟨trivial, trivial, trivial, trivial, trivial, trivial⟩

end PCG

/-! ## 3. Projections and soft-thresholding (the executable array functions) -/
section Prox

/-- **`ProximalL1` is the proximal map of `γ‖·‖₁`:** for `γ ≥ 0` its value `p` minimises
    `½‖z − x‖² + γ‖z‖₁` over all `z`, with the quadratic growth `½‖z − p‖²` (hence uniquely). -/
theorem soft_threshold_is_prox {n : ℕ} (x z : Vector K n) (γ : K) (hγ : 0 ≤ γ) :
    (∑ i : Fin n, (((proximalL1 x γ)[i] - x[i]) ^ 2 / 2 + γ * |(proximalL1 x γ)[i]|))
        + ∑ i : Fin n, (z[i] - (proximalL1 x γ)[i]) ^ 2 / 2
      ≤ ∑ i : Fin n, ((z[i] - x[i]) ^ 2 / 2 + γ * |z[i]|) := by
  rw [← Finset.sum_add_distrib]
  apply Finset.sum_le_sum
  intro i _
  have e : (proximalL1 x γ)[i] = softThr γ x[i] := by simp [proximalL1]
  rw [e]; exact softThr_strong γ x[i] z[i] hγ

example : proximalL1 (#v[(3 : ℚ), -1/4, -2]) (1/2) = #v[5/2, 0, -3/2] := by decide +kernel

/-- **Uniqueness:** any `z` whose objective value does not exceed that of `ProximalL1(x, γ)` equals it. -/
theorem soft_threshold_unique {n : ℕ} (x z : Vector K n) (γ : K) (hγ : 0 ≤ γ)
    (hz : ∑ i : Fin n, ((z[i] - x[i]) ^ 2 / 2 + γ * |z[i]|)
        ≤ ∑ i : Fin n, (((proximalL1 x γ)[i] - x[i]) ^ 2 / 2 + γ * |(proximalL1 x γ)[i]|)) :
    z = proximalL1 x γ := by
  have h := soft_threshold_is_prox x z γ hγ
  have h0 : ∑ i : Fin n, (z[i] - (proximalL1 x γ)[i]) ^ 2 / 2 ≤ 0 := by linarith
  have h1 : ∀ i ∈ (Finset.univ : Finset (Fin n)), 0 ≤ (z[i] - (proximalL1 x γ)[i]) ^ 2 / 2 :=
    fun i _ => by positivity
  have h2 := (Finset.sum_eq_zero_iff_of_nonneg h1).1 (le_antisymm h0 (Finset.sum_nonneg h1))
  apply Vector.ext
  intro i hi
  have := h2 ⟨i, hi⟩ (Finset.mem_univ _)
  have h3 : (z[i] - (proximalL1 x γ)[i]) ^ 2 = 0 := by
    have : (z[(⟨i, hi⟩ : Fin n)] - (proximalL1 x γ)[(⟨i, hi⟩ : Fin n)]) ^ 2 / 2 = 0 := this
    simpa using this
  exact sub_eq_zero.1 (pow_eq_zero_iff (two_ne_zero)).1 h3

/-- **`ProjectBox` is the Euclidean projection onto the box** `l ≤ z ≤ u` (for `l ≤ u`
    coordinatewise): its value lies in the box and is at least as close to `x` as any point of the
    box, with the Pythagorean gap `‖z − p‖²` (hence uniquely). -/
theorem box_is_projection {n : ℕ} (x l u z : Vector K n) (hlu : ∀ i : Fin n, l[i] ≤ u[i])
    (hz : ∀ i : Fin n, l[i] ≤ z[i] ∧ z[i] ≤ u[i]) :
    (∀ i : Fin n, l[i] ≤ (projectBox x (some l) (some u))[i] ∧ (projectBox x (some l) (some u))[i] ≤ u[i]) ∧
    (∑ i : Fin n, ((projectBox x (some l) (some u))[i] - x[i]) ^ 2)
        + ∑ i : Fin n, (z[i] - (projectBox x (some l) (some u))[i]) ^ 2
      ≤ ∑ i : Fin n, (z[i] - x[i]) ^ 2 := by
  have e : ∀ i : Fin n, (projectBox x (some l) (some u))[i] = projBox1 x[i] l[i] u[i] := by
    intro i; simp [projectBox]
  refine ⟨fun i => by rw [e]; exact projBox1_mem _ _ _ (hlu i), ?_⟩
  rw [← Finset.sum_add_distrib]
  apply Finset.sum_le_sum
  intro i _
  rw [e]; exact projBox1_strong _ _ _ _ (hlu i) (hz i).1 (hz i).2

/-- **Default bounds:** `ProjectBox(x)` with `lower = upper = None` projects onto `[0,1]ⁿ`. -/
theorem box_default_bounds {n : ℕ} (x : Vector K n) :
    projectBox x none none = projectBox x (some (Vector.replicate n 0)) (some (Vector.replicate n 1)) := rfl

example : projectBox (#v[(3 : ℚ), -1/4, 1/2]) none none = #v[1, 0, 1/2] := by decide +kernel

/-- **`ProjectNonnegative` is the Euclidean projection onto the non-negative orthant.** -/
theorem nonneg_is_projection {n : ℕ} (x z : Vector K n) (hz : ∀ i : Fin n, 0 ≤ z[i]) :
    (∀ i : Fin n, 0 ≤ (projectNonnegative x)[i]) ∧
    (∑ i : Fin n, ((projectNonnegative x)[i] - x[i]) ^ 2)
        + ∑ i : Fin n, (z[i] - (projectNonnegative x)[i]) ^ 2
      ≤ ∑ i : Fin n, (z[i] - x[i]) ^ 2 := by
  have e : ∀ i : Fin n, (projectNonnegative x)[i] = projNonneg1 x[i] := by
    intro i; simp [projectNonnegative]
  refine ⟨fun i => by rw [e]; exact (projNonneg1_strong _ 0 le_rfl).1, ?_⟩
  rw [← Finset.sum_add_distrib]
  apply Finset.sum_le_sum
  intro i _
  rw [e]; exact (projNonneg1_strong _ _ (hz i)).2

example : projectNonnegative (#v[(3 : ℚ), -1/4, 0]) = #v[3, 0, 0] := by decide +kernel

end Prox

end CuqiVerif.C16
