import CuqiVerif.Proofs.C16

/-!
# C16 — property theorems

All theorems are about the definitions of `Model/C16.lean` that the driver executes.  The model is
generic in the scalar type; here `K` is any linearly ordered field (`ℚ` — the driver's instance —
and `ℝ` included).  For the Krylov solvers the vector types are arbitrary `K`-modules `V`, `W`
whose operations are handed to the model in a lawful record (`VOps.Lawful`); `A`, `Aᵀ`, `P⁻¹`,
`P⁻ᵀ` are arbitrary linear maps (the invariants need no adjointness).  The projection / proximal
theorems are about the executable array functions `proximalL1`, `projectBox`, `projectNonnegative`.
-/
open Finset

set_option linter.unusedSectionVars false
set_option linter.unusedVariables false

namespace CuqiVerif.C16

variable {K : Type} [Field K] [LinearOrder K] [IsStrictOrderedRing K]

/-! ## 1. CGLS -/
section CG
variable {V W : Type} [AddCommGroup V] [Module K V] [AddCommGroup W] [Module K W]
variable {oV : VOps K V} {oW : VOps K W} (A : V →ₗ[K] W) (At : W →ₗ[K] V) (b : W) (shift tol eps : K)

/-- **Residual invariant (any start, any shift, any iteration count):** in the state CGLS ends
    with, `r = b − A x`, `s = Aᵀ r − shift·x` and `γ = ‖s‖²` — the recurred residuals are the true
    residuals of the returned `x`. -/
theorem cgls_residual_inv (hV : oV.Lawful) (hW : oW.Lawful) (x0 : V) (maxit : ℕ) 
    (st : CGState K V W) (hst : st = cgls oV oW A At b shift tol eps x0 maxit) :
    st.r = b - A st.x ∧ st.s = At (b - A st.x) - shift • st.x ∧ st.gamma = oV.nrm2 st.s := by
  subst hst
  obtain ⟨h1, h2, h3, _⟩ := cgls_inv A At b shift tol eps hV hW x0 maxit
  exact ⟨h1, by rw [← h1]; exact h2, h3⟩

example : (cgls (VOps.ofModule ℚ ℚ (· * ·)) (VOps.ofModule ℚ ℚ (· * ·)) (fun x => 2 * x) (fun x => 2 * x)
    (6 : ℚ) 0 (1/1000) (1/2^52) 0 5).x = 3 := by decide +kernel

/-- **Stopping is sound (from any start):** if CGLS stops by its convergence flag (`tol ≥ 0`), the
    returned `x` satisfies the shifted normal equations to the stated relative tolerance,
    `‖Aᵀ(b − A x) − shift·x‖² ≤ tol²·‖s₀‖²`, or else the second clause `‖x‖·tol ≥ 1` fired. -/
theorem cgls_stop_sound (hV : oV.Lawful) (hW : oW.Lawful) (htol : 0 ≤ tol) (x0 : V) (maxit : ℕ) 
    (st : CGState K V W) (hst : st = cgls oV oW A At b shift tol eps x0 maxit) :
    st.flag = true →
      oV.nrm2 (At (b - A st.x) - shift • st.x)
          ≤ oV.nrm2 (At (b - A x0) - shift • x0) * tol ^ 2
        ∨ 1 ≤ oV.nrm2 st.x * tol ^ 2 := by
  subst hst; intro hflag
  obtain ⟨h1, h2, h3, h4⟩ := cgls_inv A At b shift tol eps hV hW x0 maxit
  have hf := (cgFlag_true_iff _ _ _ _ htol).1 (h4 hflag)
  rw [h3, h2] at hf
  rw [← h1]; exact hf

/-- **Either converged or out of iterations:** `k ≤ maxit`, and if the flag is not set then exactly
    `maxit` iterations were made. -/
theorem cgls_stop_complete (fwd : V → W) (adj : W → V) (x0 : V) (maxit : ℕ) 
    (st : CGState K V W) (hst : st = cgls oV oW fwd adj b shift tol eps x0 maxit) :
    st.k ≤ maxit ∧ (st.flag = false → st.k = maxit) := by
  subst hst
  have := cglsLoop_count (oV := oV) (oW := oW) fwd adj shift tol eps
    (cglsInit oV oW fwd adj b shift x0).gamma maxit (cglsInit oV oW fwd adj b shift x0)
  simpa [cgls, cglsInit] using this

/-- **Exact solution at `tol = 0`:** with a definite `dot`, a set flag at `tol = 0` means
    `(AᵀA + shift·I) x = Aᵀ b` exactly. -/
theorem cgls_exact_of_tol_zero (hV : oV.Lawful) (hW : oW.Lawful)
    (hpos : ∀ v, 0 ≤ oV.dot v v) (hdef : ∀ v, oV.dot v v = 0 → v = 0) (x0 : V) (maxit : ℕ) 
    (st : CGState K V W) (hst : st = cgls oV oW A At b shift 0 eps x0 maxit) :
    st.flag = true → At (A st.x) + shift • st.x = At b := by
  intro hflag
  have h := cgls_stop_sound A At b shift 0 eps hV hW le_rfl x0 maxit st hst hflag
  simp only [ne_eq, OfNat.ofNat_ne_zero, not_false_eq_true, zero_pow, mul_zero] at h
  rcases h with h | h
  · have hz := hdef _ (le_antisymm h (hpos _))
    rw [map_sub] at hz
    have : At b = At (A st.x) + shift • st.x := by
      rw [← sub_eq_zero]; rw [← hz]; abel
    exact this.symm
  · exact absurd h (by norm_num)

/-- **Matrix form = function form:** if the forward/adjoint callables compute `A·` and `Aᵀ·`, the
    function-handle branch of CGLS yields the identical final state (same `x`, same `k`). -/
theorem cgls_matrix_eq_function {m n : ℕ} (oV : VOps K (Vector K n)) (oW : VOps K (Vector K m))
    (M : Mat K m n) (F : Vector K n → Vector K m) (G : Vector K m → Vector K n)
    (hF : ∀ x, F x = mulVec M x) (hG : ∀ r, G r = mulVecT M r)
    (b : Vector K m) (shift tol eps : K) (x0 : Vector K n) (maxit : ℕ) :
    cgls oV oW F G b shift tol eps x0 maxit = cgls oV oW (mulVec M) (mulVecT M) b shift tol eps x0 maxit := by
  have e1 : F = mulVec M := funext hF
  have e2 : G = mulVecT M := funext hG
  subst e1 e2; rfl

end CG

/-! ## 2. PCGLS -/
section PCG
variable {V W : Type} [AddCommGroup V] [Module K V] [AddCommGroup W] [Module K W]
variable {oV : VOps K V} {oW : VOps K W} (A : V →ₗ[K] W) (At : W →ₗ[K] V) (b : W) (tol eps : K)
  (Pi PiT : V →ₗ[K] V)

/-- **PCGLS ignores its `shift` argument** (code-faithful: `self._shift` is never read). -/
theorem pcgls_ignores_shift (fwd : V → W) (adj : W → V) (pinv pinvT : V → V) (shift : K) (x0 : V) (maxit : ℕ) :
    pcgls oV oW fwd adj b tol eps pinv pinvT shift x0 maxit
      = pcgls oV oW fwd adj b tol eps pinv pinvT 0 x0 maxit := rfl

/-- **PCGLS residual invariant:** `r = b − A x` and `s = P⁻ᵀ Aᵀ (b − A x)` — the gradient of the
    *unshifted* least-squares problem in the preconditioned variable, whatever `shift` was passed. -/
theorem pcgls_residual_inv (hV : oV.Lawful) (hW : oW.Lawful) (shift : K) (x0 : V) (maxit : ℕ) 
    (st : CGState K V W) (hst : st = pcgls oV oW A At b tol eps Pi PiT shift x0 maxit) :
    st.r = b - A st.x ∧ st.s = PiT (At (b - A st.x)) ∧ st.gamma = oV.nrm2 st.s := by
  subst hst
  obtain ⟨h1, h2, h3, _⟩ := pcgls_inv A At b tol eps Pi PiT hV hW shift x0 maxit
  exact ⟨h1, by rw [← h1]; exact h2, h3⟩

/-- **PCGLS stopping is sound for the unshifted problem only:** a set flag gives
    `‖P⁻ᵀAᵀ(b − A x)‖² ≤ tol²·‖P⁻ᵀAᵀ(b − A x₀)‖²` (or `‖x‖·tol ≥ 1`).  No statement about
    `(AᵀA + shift·I)x = Aᵀb` is provable: see `pcgls_shift_counterexample`. -/
theorem pcgls_stop_sound_partial (hV : oV.Lawful) (hW : oW.Lawful) (htol : 0 ≤ tol) (shift : K) (x0 : V) (maxit : ℕ) 
    (st : CGState K V W) (hst : st = pcgls oV oW A At b tol eps Pi PiT shift x0 maxit) :
    st.flag = true →
      oV.nrm2 (PiT (At (b - A st.x))) ≤ oV.nrm2 (PiT (At (b - A x0))) * tol ^ 2
        ∨ 1 ≤ oV.nrm2 st.x * tol ^ 2 := by
  subst hst; intro hflag
  obtain ⟨h1, h2, h3, h4⟩ := pcgls_inv A At b tol eps Pi PiT hV hW shift x0 maxit
  have hf := (cgFlag_true_iff _ _ _ _ htol).1 (h4 hflag)
  rw [h3, h2] at hf
  rw [← h1]; exact hf

/-- **Negation witness for the shifted statement:** `A = P = 1`, `b = 1`, `shift = 1` on `ℚ`: PCGLS
    converges (flag set) to `x = 1`, the solution of `x = b`, while `(AᵀA + shift)x = Aᵀb` needs `x = 1/2`. -/
theorem pcgls_shift_counterexample :
    let st := pcgls (VOps.ofModule ℚ ℚ (· * ·)) (VOps.ofModule ℚ ℚ (· * ·)) (id : ℚ → ℚ) id (1 : ℚ) (1/1000) (1/2^52) id id 1 0 5
    st.flag = true ∧ st.x = 1 ∧ st.x + 1 * st.x ≠ 1 := by decide +kernel

/-- correspondence between a PCGLS state and a CGLS state on the operator `A P⁻¹` -/
def PCRel (Pi : V →ₗ[K] V) (st st' : CGState K V W) : Prop :=
  st.x = Pi st'.x ∧ st.r = st'.r ∧ st.s = st'.s ∧ st.p = st'.p ∧ st.gamma = st'.gamma ∧ st.k = st'.k

lemma pcRel_step (hV : oV.Lawful) (hW : oW.Lawful) (gamma0 : K) (st st' : CGState K V W)
    (h : PCRel Pi st st') :
    PCRel Pi (pcglsStep oV oW A At tol eps Pi PiT gamma0 st)
      (cglsStep oV oW (A ∘ₗ Pi) (PiT ∘ₗ At) 0 tol eps gamma0 st') := by
  obtain ⟨h1, h2, h3, h4, h5, h6⟩ := h
  unfold PCRel pcglsStep cglsStep
  simp only [hV.sub, hV.smul, hV.add, hW.sub, hW.smul, LinearMap.coe_comp, Function.comp_apply,
    zero_mul, add_zero, zero_smul, sub_zero, h1, h2, h4, h5, h6]
  refine ⟨?_, ?_, ?_, ?_, ?_, ?_⟩ <;> first | trivial | (rw [map_add, map_smul])

/-- **PCGLS is CGLS on `A P⁻¹`:** started at `x₀ = P⁻¹ y₀`, after any number `j` of loop bodies the
    PCGLS state equals the (unshifted) CGLS state for the operator `A P⁻¹` / adjoint `P⁻ᵀ Aᵀ` started
    at `y₀`, with `x = P⁻¹ y` (residual, gradient, direction, `γ`, `k` identical). -/
theorem pcgls_eq_cgls_on_APinv (hV : oV.Lawful) (hW : oW.Lawful) (gamma0 : K) (x0 y0 : V)
    (hx : x0 = Pi y0) (j : ℕ) :
    PCRel Pi ((pcglsStep oV oW A At tol eps Pi PiT gamma0)^[j] (pcglsInit oV oW A At b PiT x0))
      ((cglsStep oV oW (A ∘ₗ Pi) (PiT ∘ₗ At) 0 tol eps gamma0)^[j] (cglsInit oV oW (A ∘ₗ Pi) (PiT ∘ₗ At) b 0 y0)) := by
  induction j with
  | zero =>
    simp only [Function.iterate_zero, id_eq]
    unfold PCRel pcglsInit cglsInit
    simp only [hx, hV.sub, hV.smul, hW.sub, LinearMap.coe_comp, Function.comp_apply, zero_smul, sub_zero]
    refine ⟨?_, ?_, ?_, ?_, ?_, ?_⟩ <;> trivial
  | succ j ih =>
    rw [Function.iterate_succ_apply', Function.iterate_succ_apply']
    exact pcRel_step A At tol eps Pi PiT hV hW gamma0 _ _ ih

end PCG

/-! ## 3. Projections and soft-thresholding (the executable array functions) -/
section Prox

/-- **`ProximalL1` is the proximal map of `γ‖·‖₁`:** for `γ ≥ 0` its value `p` minimises
    `½‖z − x‖² + γ‖z‖₁` over all `z`, with the quadratic growth `½‖z − p‖²` (hence uniquely). -/
theorem soft_threshold_is_prox {n : ℕ} (x z : Vector K n) (γ : K) (hγ : 0 ≤ γ) :
    (∑ i : Fin n, (((proximalL1 x γ)[i] - x[i]) ^ 2 / 2 + γ * |(proximalL1 x γ)[i]|))
        + ∑ i : Fin n, (z[i] - (proximalL1 x γ)[i]) ^ 2 / 2
      ≤ ∑ i : Fin n, ((z[i] - x[i]) ^ 2 / 2 + γ * |z[i]|) := by
  rw [← Finset.sum_add_distrib]
  apply Finset.sum_le_sum
  intro i _
  have e : (proximalL1 x γ)[i] = softThr γ x[i] := by simp [proximalL1]
  rw [e]; exact softThr_strong γ x[i] z[i] hγ

example : proximalL1 (#v[(3 : ℚ), -1/4, -2]) (1/2) = #v[5/2, 0, -3/2] := by decide +kernel

/-- **Uniqueness:** any `z` whose objective value does not exceed that of `ProximalL1(x, γ)` equals it. -/
theorem soft_threshold_unique {n : ℕ} (x z : Vector K n) (γ : K) (hγ : 0 ≤ γ)
    (hz : ∑ i : Fin n, ((z[i] - x[i]) ^ 2 / 2 + γ * |z[i]|)
        ≤ ∑ i : Fin n, (((proximalL1 x γ)[i] - x[i]) ^ 2 / 2 + γ * |(proximalL1 x γ)[i]|)) :
    z = proximalL1 x γ := by
  have h := soft_threshold_is_prox x z γ hγ
  have h0 : ∑ i : Fin n, (z[i] - (proximalL1 x γ)[i]) ^ 2 / 2 ≤ 0 := by linarith
  have h1 : ∀ i ∈ (Finset.univ : Finset (Fin n)), 0 ≤ (z[i] - (proximalL1 x γ)[i]) ^ 2 / 2 :=
    fun i _ => by positivity
  have h2 := (Finset.sum_eq_zero_iff_of_nonneg h1).1 (le_antisymm h0 (Finset.sum_nonneg h1))
  apply Vector.ext
  intro i hi
  have := h2 ⟨i, hi⟩ (Finset.mem_univ _)
  have h3 : (z[i] - (proximalL1 x γ)[i]) ^ 2 = 0 := by
    have : (z[(⟨i, hi⟩ : Fin n)] - (proximalL1 x γ)[(⟨i, hi⟩ : Fin n)]) ^ 2 / 2 = 0 := this
    simpa using this
  exact sub_eq_zero.1 ((pow_eq_zero_iff (two_ne_zero)).1 h3)

/-- **`ProjectBox` is the Euclidean projection onto the box** `l ≤ z ≤ u` (for `l ≤ u`
    coordinatewise): its value lies in the box and is at least as close to `x` as any point of the
    box, with the Pythagorean gap `‖z − p‖²` (hence uniquely). -/
theorem box_is_projection {n : ℕ} (x l u z : Vector K n) (hlu : ∀ i : Fin n, l[i] ≤ u[i])
    (hz : ∀ i : Fin n, l[i] ≤ z[i] ∧ z[i] ≤ u[i]) :
    (∀ i : Fin n, l[i] ≤ (projectBox x (some l) (some u))[i] ∧ (projectBox x (some l) (some u))[i] ≤ u[i]) ∧
    (∑ i : Fin n, ((projectBox x (some l) (some u))[i] - x[i]) ^ 2)
        + ∑ i : Fin n, (z[i] - (projectBox x (some l) (some u))[i]) ^ 2
      ≤ ∑ i : Fin n, (z[i] - x[i]) ^ 2 := by
  have e : ∀ i : Fin n, (projectBox x (some l) (some u))[i] = projBox1 x[i] l[i] u[i] := by
    intro i; simp [projectBox]
  refine ⟨fun i => by rw [e]; exact projBox1_mem _ _ _ (hlu i), ?_⟩
  rw [← Finset.sum_add_distrib]
  apply Finset.sum_le_sum
  intro i _
  rw [e]; exact projBox1_strong _ _ _ _ (hlu i) (hz i).1 (hz i).2

/-- **Default bounds:** `ProjectBox(x)` with `lower = upper = None` projects onto `[0,1]ⁿ`. -/
theorem box_default_bounds {n : ℕ} (x : Vector K n) :
    projectBox x none none = projectBox x (some (Vector.replicate n 0)) (some (Vector.replicate n 1)) := rfl

example : projectBox (#v[(3 : ℚ), -1/4, 1/2]) none none = #v[1, 0, 1/2] := by decide +kernel

/-- **`ProjectNonnegative` is the Euclidean projection onto the non-negative orthant.** -/
theorem nonneg_is_projection {n : ℕ} (x z : Vector K n) (hz : ∀ i : Fin n, 0 ≤ z[i]) :
    (∀ i : Fin n, 0 ≤ (projectNonnegative x)[i]) ∧
    (∑ i : Fin n, ((projectNonnegative x)[i] - x[i]) ^ 2)
        + ∑ i : Fin n, (z[i] - (projectNonnegative x)[i]) ^ 2
      ≤ ∑ i : Fin n, (z[i] - x[i]) ^ 2 := by
  have e : ∀ i : Fin n, (projectNonnegative x)[i] = projNonneg1 x[i] := by
    intro i; simp [projectNonnegative]
  refine ⟨fun i => by rw [e]; exact (projNonneg1_strong _ 0 le_rfl).1, ?_⟩
  rw [← Finset.sum_add_distrib]
  apply Finset.sum_le_sum
  intro i _
  rw [e]; exact (projNonneg1_strong _ _ (hz i)).2

example : projectNonnegative (#v[(3 : ℚ), -1/4, 0]) = #v[3, 0, 0] := by decide +kernel

end Prox

/-! ## 4. FISTA / ISTA: what the returned point is -/
section Fista
variable {V W : Type} (oV : VOps K V) (oW : VOps K W) (fwd : V → W) (adj : W → V) (b : W)
  (prox : V → K → V) (t abstol : K) (maxit : ℕ) (adaptive : Bool)

lemma fistaGo_sound (fuel : ℕ) (x : V) (k : ℕ) (hk : maxit ≤ fuel + k + 1) :
    ∃ y, (fistaGo oV oW fwd adj b prox t abstol maxit adaptive fuel x k).1
          = proxGradStep oV oW fwd adj b prox t y ∧
      ((0 ≤ abstol ∧ oV.nrm2 (oV.sub (fistaGo oV oW fwd adj b prox t abstol maxit adaptive fuel x k).1 y) ≤ abstol ^ 2)
        ∨ maxit ≤ (fistaGo oV oW fwd adj b prox t abstol maxit adaptive fuel x k).2) := by
  induction fuel generalizing x k with
  | zero => exact ⟨x, rfl, Or.inr (by simpa [fistaGo] using hk)⟩
  | succ n ih =>
    unfold fistaGo
    simp only
    split_ifs with hstop
    · refine ⟨x, rfl, ?_⟩
      rcases Bool.or_eq_true _ _ ▸ hstop with h | h
      · exact Or.inl ((fistaSmall_true_iff _ _).1 h)
      · exact Or.inr (by simpa using h)
    · exact ih _ _ (by omega)
    · exact ih _ _ (by omega)

/-- **What FISTA/ISTA returns:** the returned point is always the proximal-gradient image
    `prox_t(y − t·Aᵀ(A y − b))` of a point `y` (the last extrapolated point; for ISTA the previous
    iterate), and either `‖x_new − y‖ ≤ abstol` — an `abstol`-approximate fixed point of the
    proximal-gradient map — or the iteration budget `maxit` was used up. -/
theorem fista_stop_sound (x0 : V) :
    ∃ y, (fista oV oW fwd adj b prox t abstol maxit adaptive x0).1 = proxGradStep oV oW fwd adj b prox t y ∧
      ((0 ≤ abstol ∧ oV.nrm2 (oV.sub (fista oV oW fwd adj b prox t abstol maxit adaptive x0).1 y) ≤ abstol ^ 2)
        ∨ maxit ≤ (fista oV oW fwd adj b prox t abstol maxit adaptive x0).2) :=
  fistaGo_sound oV oW fwd adj b prox t abstol maxit adaptive (maxit - 1) x0 0 (by omega)

example : (fista (VOps.ofModule ℚ ℚ (· * ·)) (VOps.ofModule ℚ ℚ (· * ·)) (fun x => 2 * x) (fun r => 2 * r) (6 : ℚ)
    (fun v g => softThr (1 * g) v) (1/8) (1/100) 50 true 0).2 < 50 := by decide +kernel

/-- **An exact fixed point is returned as is (`abstol ≥ 0`):** started at a fixed point of the
    proximal-gradient map with a definite `dot`, FISTA returns it after one pass. -/
theorem fista_fixed_point_returned (hsub : ∀ v, oV.nrm2 (oV.sub v v) = 0) (habs : 0 ≤ abstol) (x0 : V)
    (hfix : proxGradStep oV oW fwd adj b prox t x0 = x0) :
    fista oV oW fwd adj b prox t abstol maxit adaptive x0 = (x0, 1) := by
  unfold fista
  cases h : maxit - 1 with
  | zero => simp [fistaGo, hfix]
  | succ n =>
    unfold fistaGo
    have : fistaSmall (oV.nrm2 (oV.sub (proxGradStep oV oW fwd adj b prox t x0) x0)) abstol = true := by
      rw [hfix, hsub]; exact (fistaSmall_true_iff _ _).2 ⟨habs, by positivity⟩
    rw [hfix] at this
    simp [this, hfix]

end Fista

/-! ## 5. Levenberg–Marquardt -/
section LMsec
variable {V W M : Type} (oV : VOps K V) (oW : VOps K W) (res : V → W) (jac : V → M) (jtv : M → W → V)
  (insolve : M → K → V → V) (nu0 gradtol : K)

/-- the LM loop invariant: residual, Jacobian and gradient stored in the state are those of the current `x` -/
def LMInv (st : LMState K V W M) : Prop :=
  st.r = res st.x ∧ st.J = jac st.x ∧ st.g = jtv st.J st.r ∧ st.ng2 = oV.nrm2 st.g ∧ st.f = half * oW.nrm2 st.r

lemma lmInit_inv (x0 : V) (nuInit : K) : LMInv oV oW res jac jtv (lmInit oV oW res jac jtv x0 nuInit) :=
  ⟨rfl, rfl, rfl, rfl, rfl⟩

lemma lmStep_inv (st : LMState K V W M) (h : LMInv oV oW res jac jtv st) :
    LMInv oV oW res jac jtv (lmStep oV oW res jac jtv insolve nu0 st) := by
  obtain ⟨h1, h2, h3, h4, h5⟩ := h
  unfold lmStep
  simp only
  split_ifs <;> first | exact ⟨h1, h2, rfl, rfl, h5⟩ | exact ⟨rfl, rfl, rfl, rfl, rfl⟩

lemma lmLoop_inv (ng02 : K) (fuel : ℕ) (st : LMState K V W M) (h : LMInv oV oW res jac jtv st) :
    LMInv oV oW res jac jtv (lmLoop oV oW res jac jtv insolve nu0 gradtol ng02 fuel st) ∧
    (lmCont (lmLoop oV oW res jac jtv insolve nu0 gradtol ng02 fuel st).ng2 ng02 gradtol = false ∨
      (lmLoop oV oW res jac jtv insolve nu0 gradtol ng02 fuel st).i = st.i + fuel) := by
  induction fuel generalizing st with
  | zero => exact ⟨h, Or.inr rfl⟩
  | succ n ih =>
    unfold lmLoop
    split_ifs with hc
    · have := ih _ (lmStep_inv oV oW res jac jtv insolve nu0 st h)
      refine ⟨this.1, this.2.imp id (fun e => ?_)⟩
      rw [e]
      have : (lmStep oV oW res jac jtv insolve nu0 st).i = st.i + 1 := by
        unfold lmStep; simp only; split_ifs <;> rfl
      rw [this]; omega
    · exact ⟨h, Or.inl (by simpa using hc)⟩

lemma lm_inv (x0 : V) (nuInit : K) (maxit : ℕ) :
    LMInv oV oW res jac jtv (lm oV oW res jac jtv insolve nu0 gradtol x0 nuInit maxit) ∧
    (lmCont (lm oV oW res jac jtv insolve nu0 gradtol x0 nuInit maxit).ng2 (oV.nrm2 (jtv (jac x0) (res x0))) gradtol = false ∨
      (lm oV oW res jac jtv insolve nu0 gradtol x0 nuInit maxit).i = maxit) := by
  have h := lmLoop_inv oV oW res jac jtv insolve nu0 gradtol
    (lmInit oV oW res jac jtv x0 nuInit).ng2 maxit _ (lmInit_inv oV oW res jac jtv x0 nuInit)
  refine ⟨h.1, h.2.imp id (fun e => ?_)⟩
  have e' : (lm oV oW res jac jtv insolve nu0 gradtol x0 nuInit maxit).i = 0 + maxit := e
  omega

/-- **LM gradient invariant:** in the state LM ends with, `r = A(x)`, `J = jacfun(x)`, `g = Jᵀ r` —
    the stored gradient is the gradient `J(x)ᵀ r(x)` of `½‖r(x)‖²` at the returned `x`, and
    `info["func"]`, `info["Jac"]` are the residual and Jacobian at the returned point. -/
theorem lm_gradient_inv (x0 : V) (nuInit : K) (maxit : ℕ) (st : LMState K V W M)
    (hst : st = lm oV oW res jac jtv insolve nu0 gradtol x0 nuInit maxit) :
    st.r = res st.x ∧ st.J = jac st.x ∧ st.g = jtv (jac st.x) (res st.x) ∧ st.ng2 = oV.nrm2 st.g := by
  subst hst
  obtain ⟨⟨h1, h2, h3, h4, _⟩, _⟩ := lm_inv oV oW res jac jtv insolve nu0 gradtol x0 nuInit maxit
  exact ⟨h1, h2, by rw [← h1, ← h2]; exact h3, h4⟩

/-- **LM stopping is sound:** unless all `maxit` iterations were used, the returned point is
    stationary to the relative gradient tolerance: `‖J(x)ᵀ r(x)‖² ≤ gradtol²·‖J(x₀)ᵀ r(x₀)‖²`
    (for `gradtol ≥ 0` and a non-stationary start). -/
theorem lm_stop_sound (x0 : V) (nuInit : K) (maxit : ℕ) (hg : 0 ≤ gradtol)
    (h0 : oV.nrm2 (jtv (jac x0) (res x0)) ≠ 0) (st : LMState K V W M)
    (hst : st = lm oV oW res jac jtv insolve nu0 gradtol x0 nuInit maxit) :
    oV.nrm2 (jtv (jac st.x) (res st.x)) ≤ gradtol ^ 2 * oV.nrm2 (jtv (jac x0) (res x0)) ∨ st.i = maxit := by
  subst hst
  obtain ⟨⟨h1, h2, h3, h4, _⟩, hstop⟩ := lm_inv oV oW res jac jtv insolve nu0 gradtol x0 nuInit maxit
  rcases hstop with hc | hi
  · left
    have := lmCont_false _ _ _ h0 hg hc
    rw [h4, h3, h2, h1] at this
    exact this
  · right; exact hi

example : (lm (VOps.ofModule ℚ ℚ (· * ·)) (VOps.ofModule ℚ ℚ (· * ·)) (fun x => 2 * x - 6) (fun _ => (2 : ℚ))
    (fun J r => J * r) (fun J nu g => g / (J * J + nu)) (1/1000) (1/10) 0 12 50).i < 50 := by decide +kernel

end LMsec

/-! ## 6. SciPy wrappers -/
section Wrappers
variable {X F G : Type}

/-- **`minimize` passes SciPy's result through unchanged:** solution and every `info` field are the
    corresponding fields of SciPy's `OptimizeResult`. -/
theorem wrapper_passthrough (r : SciRes X F G) :
    (wrapMinimize r).1 = r.x ∧ (wrapMinimize r).2.func = r.fn ∧ (wrapMinimize r).2.grad = r.jac ∧
    (wrapMinimize r).2.success = r.success ∧ (wrapMinimize r).2.message = r.message ∧
    (wrapMinimize r).2.nit = r.nit ∧ (wrapMinimize r).2.nfev = r.nfev :=
  ⟨rfl, rfl, rfl, rfl, rfl, rfl, rfl⟩

/-- **Fields SciPy does not report are `None`:** `info["grad"]` / `info["nit"]` are `None` exactly when
    SciPy's result has no `jac` / `nit` (derivative-free methods); the wrapper is total — every SciPy
    result is turned into a `(solution, info)` pair, the solution being SciPy's `x`. -/
theorem wrapper_missing_fields_none (r : SciRes X F G) :
    ((wrapMinimize r).2.grad = none ↔ r.jac = none) ∧ ((wrapMinimize r).2.nit = none ↔ r.nit = none) ∧
    (wrapMinimize r).1 = r.x :=
  ⟨Iff.rfl, Iff.rfl, rfl⟩

example : (wrapMinimize (⟨1, 2, none, none, 40, true, "Optimization terminated successfully."⟩ : SciRes ℚ ℚ ℚ)).2.grad = none := rfl

/-- **`maximize` is `minimize` on the negated function (and negated gradient).** -/
theorem maximize_is_minimize_neg [Neg F] [Neg G]
    (scipy : (X → F) → Option (X → G) → X → SciRes X F G) (f : X → F) (g : Option (X → G)) (x0 : X) :
    maximizeVia scipy f g x0 = minimizeVia scipy (fun x => -f x) (g.map (fun g x => -g x)) x0 := rfl

/-- **Sign flip:** if the wrapped optimiser returns a minimiser over a set `S` of whatever objective
    it is given, the point `maximize` returns maximises `func` over `S`, and `info["func"]` is
    SciPy's value of the negated objective. -/
theorem maximize_optimal {G : Type} [Neg G] (scipy : (X → K) → Option (X → G) → X → SciRes X K G) (S : Set X)
    (hmin : ∀ (h : X → K) (g : Option (X → G)) (x0 : X), ∀ z ∈ S, h (scipy h g x0).x ≤ h z)
    (f : X → K) (g : Option (X → G)) (x0 : X) :
    (∀ z ∈ S, f z ≤ f (maximizeVia scipy f g x0).1) ∧
    (maximizeVia scipy f g x0).2.func = (scipy (fun x => -f x) (g.map (fun g x => -g x)) x0).fn := by
  refine ⟨fun z hz => ?_, rfl⟩
  have := hmin (fun x => -f x) (g.map (fun g x => -g x)) x0 z hz
  simpa [maximizeVia, wrapMinimize] using this

/-- **Keywords are forwarded as given:** `minimize`/`maximize` hand SciPy the `method` they were given
    (`None` stays `None`: SciPy resolves the default from bounds *and* constraints), and every keyword
    argument unchanged and in order; `maximize` makes the same call as `minimize`. -/
theorem wrapper_forwards_call (m : Option String) (hg : Bool) (kw : List String) :
    (minimizeCall m hg kw).method = m ∧ (minimizeCall m hg kw).kwargs = kw ∧ (minimizeCall m hg kw).hasJac = hg ∧
    maximizeCall m hg kw = minimizeCall m hg kw := ⟨rfl, rfl, rfl, rfl⟩

example : (minimizeCall none true ["bounds", "constraints"]).method = none := rfl

/-- **`L_BFGS_B` status table:** success exactly for `warnflag = 0`; the message is SciPy's `task`
    for every flag other than 0 and 1. -/
theorem lbfgsb_status_table (wf : ℤ) (task : String) :
    ((lbfgsbStatus wf task).1 = 1 ↔ wf = 0) ∧ (wf ≠ 0 → wf ≠ 1 → (lbfgsbStatus wf task).2 = task) := by
  unfold lbfgsbStatus
  refine ⟨?_, fun h0 h1 => by simp [h0, h1]⟩
  split_ifs with h0 h1 <;> simp [h0]

end Wrappers

/-! ## 7. Fixed points of the proximal-gradient map are exactly the minimisers -/
section ProxMin
variable {E F : Type} [AddCommGroup E] [Module K E] [AddCommGroup F] [Module K F]
  (ipE : E → E → K) (ipF : F → F → K) (A : E →ₗ[K] F) (At : F →ₗ[K] E) (b : F)

/-- **Fixed point ⇔ minimiser.**  Let `⟪·,·⟫` be symmetric bilinear forms with non-negative squares on
    the unknowns and the data (the Euclidean dot products), `Aᵀ` the adjoint of `A`, `C` a convex set
    and `g` convex on `C` (`g = λ‖·‖₁`, `C` everything; `g = 0`, `C` a box or the non-negative
    orthant: the shipped proximal maps), `t > 0`.  Then `x` is a fixed point of the
    proximal-gradient map — `x` *is* the proximal point of `x − t·Aᵀ(A x − b)`, i.e. the minimiser of
    `½‖z − v‖² + t·g(z)` over `C` — iff `x` minimises `½‖A z − b‖² + g(z)` over `C`.
    (`soft_threshold_is_prox`, `box_is_projection`, `nonneg_is_projection` show that the shipped maps
    compute that proximal point for the Euclidean sums.) -/
theorem ista_fixed_point_iff_min (hE : IsIP ipE) (hF : IsIP ipF)
    (hadj : ∀ d w, ipF (A d) w = ipE d (At w))
    (C : Set E) (g : E → K) (hCg : ConvexData C g) (t : K) (ht : 0 < t) (x : E) (hx : x ∈ C) :
    IsProxPoint ipE C g t (x - t • lsqGrad A At b x) x
      ↔ ∀ z ∈ C, lsq ipF A b x + g x ≤ lsq ipF A b z + g z := by
  have h1 := min_iff_vi C g hCg (lsq ipF A b) x hx (fun d => ipE (lsqGrad A At b x) d)
    (fun d => ipF (A d) (A d) / 2) (fun d => by have := hF.nonneg (A d); positivity)
    (fun d θ => lsq_expand ipE ipF A At b hF hadj hE x d θ)
  have hCg' : ConvexData C (fun z => t * g z) :=
    ⟨hCg.seg, fun x hx z hz θ h0 h1 => by
      have := mul_le_mul_of_nonneg_left (hCg.conv x hx z hz θ h0 h1) ht.le
      show t * g (x + θ • (z - x)) ≤ t * g x + θ * (t * g z - t * g x)
      linarith⟩
  have h2 := min_iff_vi C (fun z => t * g z) hCg'
    (fun z => ipE (z - (x - t • lsqGrad A At b x)) (z - (x - t • lsqGrad A At b x)) / 2) x hx
    (fun d => ipE (x - (x - t • lsqGrad A At b x)) d) (fun d => ipE d d / 2)
    (fun d => by have := hE.nonneg d; positivity)
    (fun d θ => sq_expand ipE hE _ x d θ)
  unfold IsProxPoint
  rw [and_iff_right hx, h2, h1]
  have e : ∀ d, ipE (x - (x - t • lsqGrad A At b x)) d = t * ipE (lsqGrad A At b x) d := by
    intro d; rw [sub_sub_cancel, hE.smul_left]
  constructor
  · intro h z hz
    have := h z hz
    rw [e] at this
    have h3 : 0 ≤ t * (ipE (lsqGrad A At b x) (z - x) + (g z - g x)) := by linarith
    exact nonneg_of_mul_nonneg_right h3 ht
  · intro h z hz
    rw [e]
    have := mul_nonneg ht.le (h z hz)
    linarith

example : IsIP (fun a b : ℚ => a * b) :=
  ⟨fun a b c => by ring, fun t a c => by simp [mul_assoc], fun a b => by ring, fun a => mul_self_nonneg a⟩
example : ConvexData (Set.univ : Set ℚ) (fun _ => (0 : ℚ)) := ⟨fun _ _ _ _ _ _ _ => trivial, fun _ _ _ _ _ _ _ => by simp⟩

end ProxMin

end CuqiVerif.C16
