import CuqiVerif.Model.C07_psf
import CuqiVerif.Proofs.C07_psf
import CuqiVerif.Props.C07
import Mathlib.Algebra.BigOperators.Group.Finset.Basic
import Mathlib.Algebra.Field.Basic
import Mathlib.Algebra.Field.Rat
import Mathlib.Algebra.Order.Field.Rat
import Mathlib.Tactic.Ring
import Mathlib.Tactic.Linarith
import Mathlib.Tactic.NormNum

/-!
# C07 — the named PSFs of the shipped test problems (session 3)

Theorems about the executable definitions of `CuqiVerif/Model/C07_psf.lean` (the driver runs them at
`R = Rat`; ops `psf1`, `psf2`, `deconv1n`, `deconv2n`): the Gauss / Moffat / Defocus point-spread
functions that `Deconvolution1D` / `Deconvolution2D` build from the option values `PSF`, `PSF_size`,
`PSF_param`, and what they imply for the adjoint identity of the test problems' forward models.

A Gauss or Moffat PSF is `radialPSF1 s g` / `radialPSF2 s g` for a profile `g` of the squared
distance to the centre pixel (Gauss: `g t = exp(−t/(2p²))` over `ℝ`; Moffat: `moffatG (p²)`); the
theorems hold for EVERY profile, so for every `PSF_param`, and for every `dim`.
-/
open Finset

set_option linter.unusedSectionVars false
set_option linter.unusedVariables false

namespace CuqiVerif.C07

/-! ## Gauss / Moffat: centred and symmetric for odd sizes -/

section anyCarrier
variable {R : Type} [Zero R] [One R] [Add R] [Mul R] [Div R]

/-- **Odd `PSF_size`: the 1-D Gauss / Moffat PSF is reversal-symmetric**, `P[s−1−a] = P[a]` — every odd
    size, every profile `g` (every `PSF_param`), in ANY carrier (no ring law is used: the two sides
    are the same expression, so this also holds for the floating-point array the code builds). -/
theorem radialPSF1_symmetric (k : ℕ) (g : ℕ → R) (a : ℕ) (ha : a < 2 * k + 1) :
    radialPSF1 (2 * k + 1) g (2 * k + 1 - 1 - a) = radialPSF1 (2 * k + 1) g a := by
  unfold radialPSF1 normalize1
  simp only [psfSq_reverse k a ha]

example : radialPSF1 3 (moffatG (1 : ℚ)) 2 = radialPSF1 3 (moffatG (1 : ℚ)) 0 :=
  radialPSF1_symmetric 1 _ 0 (by norm_num)

/-- **Odd `PSF_size`: the 2-D Gauss / Moffat PSF is symmetric along both axes** (the hypotheses
    `hP1`, `hP2` of `deconv2d_adjoint_neumann_partial`). -/
theorem radialPSF2_symmetric (k : ℕ) (g : ℕ → R) (a b : ℕ) :
    (a < 2 * k + 1 → radialPSF2 (2 * k + 1) g (2 * k + 1 - 1 - a) b = radialPSF2 (2 * k + 1) g a b) ∧
    (b < 2 * k + 1 → radialPSF2 (2 * k + 1) g a (2 * k + 1 - 1 - b) = radialPSF2 (2 * k + 1) g a b) := by
  constructor
  · intro ha
    unfold radialPSF2 normalize2
    simp only [psfSq_reverse k a ha]
  · intro hb
    unfold radialPSF2 normalize2
    simp only [psfSq_reverse k b hb]

example : radialPSF2 3 (moffatG (1 : ℚ)) 2 1 = radialPSF2 3 (moffatG (1 : ℚ)) 0 1 :=
  (radialPSF2_symmetric 1 _ 0 1).1 (by norm_num)

/-- the centre pixel `⌊s/2⌋` (every size, odd or even) carries the profile value `g 0` — the PSF is
    centred at `center = s//2` as documented -/
theorem radialPSF_centre (s : ℕ) (g : ℕ → R) :
    radialPSF1 s g (s / 2) = g 0 / sumTo s (fun a => g (psfSq s a)) ∧
    radialPSF2 s g (s / 2) (s / 2) = g 0 / sum2 s (fun a b => g (psfSq s b + psfSq s a)) := by
  constructor
  · unfold radialPSF1 normalize1; simp only [psfSq_centre]
  · unfold radialPSF2 normalize2; simp only [psfSq_centre]

example : radialPSF1 4 (moffatG (1 : ℚ)) 2 = (moffatG (1 : ℚ)) 0 / sumTo 4 (fun a => (moffatG (1 : ℚ)) (psfSq 4 a)) :=
  (radialPSF_centre 4 _).1

end anyCarrier

section field
variable {K : Type} [Field K]

/-- **Normalisation.**  `PSF /= PSF.sum()`: the entries of a named PSF sum to 1 whenever the unnormalised
    sum is non-zero (1-D and 2-D; Gauss, Moffat and Defocus are all `normalize1`/`normalize2`). -/
theorem namedPSF_sums_to_one (s : ℕ) :
    (∀ w : ℕ → K, sumTo s w ≠ 0 → ∑ a ∈ range s, normalize1 s w a = 1) ∧
    (∀ w : ℕ → ℕ → K, sum2 s w ≠ 0 → ∑ a ∈ range s, ∑ b ∈ range s, normalize2 s w a b = 1) :=
  ⟨fun w h => normalize1_sum s w h, fun w h => normalize2_sum s w h⟩

example : ∑ a ∈ range 3, radialPSF1 3 (moffatG (1 : ℚ)) a = 1 :=
  (namedPSF_sums_to_one 3).1 _ (by norm_num [sumTo, psfSq, psfOffset, moffatG])

/-- **Deconvolution2D with a Gauss or Moffat PSF of odd `PSF_size` under periodic, zero or Neumann
    boundary conditions satisfies `⟨A x, y⟩ = ⟨x, A* y⟩`** — every image size `n`, every odd
    `PSF_size = 2k+1` (smaller or larger than the image), every profile `g` (so every `PSF_param`, and
    the Gaussian over `ℝ`), all `x, y`.  The modelled code: `np.arange` grid, `meshgrid`,
    normalisation, `np.pad` + `fftconvolve 'valid'`, `_proj_backward_2D`'s flip, `Image2D` geometries. -/
theorem deconv2d_named_adjoint (m : Ext) (hm : m = .wrap ∨ m = .constant ∨ m = .reflect) (k n : ℕ) (g : ℕ → K)
    (x y : ℕ → K) :
    ip (n * n) ((deconv2dModel m (2 * k + 1) (radialPSF2 (2 * k + 1) g) n).fwdPar x) y
      = ip (n * n) x ((deconv2dModel m (2 * k + 1) (radialPSF2 (2 * k + 1) g) n).adjPar y) := by
  rcases hm with rfl | rfl | rfl
  · exact deconv2d_adjoint_partial .wrap (Or.inl rfl) k n _ x y
  · exact deconv2d_adjoint_partial .constant (Or.inr rfl) k n _ x y
  · exact deconv2d_adjoint_neumann_partial k n _
      (fun a b ha => (radialPSF2_symmetric k g a b).1 ha)
      (fun a b hb => (radialPSF2_symmetric k g a b).2 hb) x y

example : ip 4 ((deconv2dModel .reflect 3 (radialPSF2 3 (moffatG (4 : ℚ))) 2).fwdPar (unit 1)) (unit 2)
    = ip 4 (unit 1) ((deconv2dModel .reflect 3 (radialPSF2 3 (moffatG (4 : ℚ))) 2).adjPar (unit 2)) :=
  deconv2d_named_adjoint .reflect (Or.inr (Or.inr rfl)) 1 2 _ _ _

/-- **Deconvolution1D with a Gauss or Moffat PSF of odd size, periodic or zero boundary: the stored matrix
    IS the documented convolution operator** (in general it is its transpose, `deconv1d_matrix`). -/
theorem deconv1d_named_matrix (m : Ext) (hm : m = .wrap ∨ m = .constant) (k n : ℕ) (g : ℕ → K)
    (i j : ℕ) (hi : i < n) (hj : j < n) :
    (deconv1dMatrix m (2 * k + 1) (radialPSF1 (2 * k + 1) g) n).e i j
      = (conv1 m (2 * k + 1) (radialPSF1 (2 * k + 1) g) n).e i j :=
  deconv1d_matrix_symmetric m hm k n _ (fun a ha => radialPSF1_symmetric k g a ha) i j hi hj

example : (deconv1dMatrix .wrap 3 (radialPSF1 3 (moffatG (1 : ℚ))) 4).e 0 1
    = (conv1 .wrap 3 (radialPSF1 3 (moffatG (1 : ℚ))) 4).e 0 1 :=
  deconv1d_named_matrix .wrap (Or.inl rfl) 1 4 _ 0 1 (by norm_num) (by norm_num)

end field

/-! ## the option level (`R = Rat`, exactly what the driver's `deconv2n` / `deconv1n` run) -/

/-- **`Deconvolution2D(dim, PSF="gauss"|"moffat", PSF_size odd, PSF_param, BC ∈ {periodic, zero, neumann})`:
    whenever the constructor succeeds, its model satisfies the adjoint identity** — stated about
    `deconv2dNamed`, the transcription of the option handling (BC and PSF names after `.lower()`,
    refusals) that the driver executes; any `dim`, any odd size, any parameter, any Gauss profile. -/
theorem deconv2dNamed_adjoint (bc name : String) (dim k : ℕ) (param : Option ℚ) (g : ℕ → ℚ)
    (P : ℕ → ℕ → ℚ) (M : LinModel ℚ)
    (hname : psfKind name.toLower = some .gauss ∨ psfKind name.toLower = some .moffat)
    (hbc : bc2d bc.toLower = some .wrap ∨ bc2d bc.toLower = some .constant ∨ bc2d bc.toLower = some .reflect)
    (hok : deconv2dNamed bc name dim (2 * k + 1) param g = .ok (P, M)) (x y : ℕ → ℚ) :
    ip (dim * dim) (M.fwdPar x) y = ip (dim * dim) x (M.adjPar y) := by
  unfold deconv2dNamed deconv2dNamedL at hok
  generalize bc2d bc.toLower = oB at hok hbc
  generalize psfKind name.toLower = oN at hok hname
  have hs : ¬ (2 * k + 1 = 0) := by omega
  -- the model is `deconv2dModel m (2k+1) (radialPSF2 (2k+1) g') dim` for some profile `g'`
  have key : ∃ m g', (m = Ext.wrap ∨ m = Ext.constant ∨ m = Ext.reflect) ∧
      M = deconv2dModel m (2 * k + 1) (radialPSF2 (2 * k + 1) g') dim := by
    cases param with
    | none => rcases hbc with rfl | rfl | rfl <;> rcases hname with rfl | rfl <;> simp [namedPSF2, hs] at hok
    | some p =>
      by_cases hp : p = 0
      · rcases hbc with rfl | rfl | rfl <;> rcases hname with rfl | rfl <;> simp [namedPSF2, hs, hp] at hok
      · rcases hbc with rfl | rfl | rfl <;> rcases hname with rfl | rfl <;>
          simp only [namedPSF2, hs, hp, if_false, or_self, PsfOut.ok.injEq, Prod.mk.injEq] at hok <;>
          obtain ⟨-, rfl⟩ := hok
        · exact ⟨_, _, Or.inl rfl, rfl⟩
        · exact ⟨_, _, Or.inl rfl, rfl⟩
        · exact ⟨_, _, Or.inr (Or.inl rfl), rfl⟩
        · exact ⟨_, _, Or.inr (Or.inl rfl), rfl⟩
        · exact ⟨_, _, Or.inr (Or.inr rfl), rfl⟩
        · exact ⟨_, _, Or.inr (Or.inr rfl), rfl⟩
  obtain ⟨m, g', hm, rfl⟩ := key
  exact deconv2d_named_adjoint m hm k dim g' x y

example : deconv2dNamedL "neumann" "moffat" 2 3 (some 2) (fun _ => 0)
    = .ok (radialPSF2 3 (moffatG (2 * 2)), deconv2dModel .reflect 3 (radialPSF2 3 (moffatG (2 * 2))) 2) := by
  simp [deconv2dNamedL, bc2d, psfKind, namedPSF2]

/-! ## Defocus: off-centre -/

/-- **The shipped 1-D Defocus PSF of odd size `2k+1 ≥ 3` is reversal-symmetric iff it is the uniform
    PSF** (`(k+1)² ≤ PSF_param²`, all pixels kept).  `_DefocusPSF_1D` measures the distance of the 1-BASED
    pixel index to the 0-BASED centre, so the kept window is centred at pixel `k−1`, not `k`: for every
    radius that does not cover the whole array the PSF is off-centre (known finding
    `…BC=neumann:PSF=defocus:odd`). -/
theorem defocus1_symmetric_iff (k : ℕ) (hk : 1 ≤ k) (p2 : ℚ) (h0 : 0 ≤ p2) :
    (∀ a, a < 2 * k + 1 → defocusIn1 (2 * k + 1) p2 (2 * k + 1 - 1 - a) = defocusIn1 (2 * k + 1) p2 a)
      ↔ (((k : ℚ) + 1) * ((k : ℚ) + 1)) ≤ p2 := by
  constructor
  · intro hs
    exact defocus_chain k p2 h0 hs k hk le_rfl
  · intro hp a ha
    have all : ∀ b, b < 2 * k + 1 → defocusIn1 (2 * k + 1) p2 b = true := by
      intro b hb
      rw [defocusIn1_iff]
      unfold defocusOff
      rw [half_odd]
      have h1 : ((b : ℤ) + 1 - (k : ℤ)) * ((b : ℤ) + 1 - (k : ℤ)) ≤ ((k : ℤ) + 1) * ((k : ℤ) + 1) := by
        have hb' : (b : ℤ) ≤ 2 * k := by omega
        have hb0 : (0 : ℤ) ≤ b := by omega
        nlinarith
      have h2 : ((((b : ℤ) + 1 - (k : ℤ)) * ((b : ℤ) + 1 - (k : ℤ)) : ℤ) : ℚ) ≤ ((((k : ℤ) + 1) * ((k : ℤ) + 1) : ℤ) : ℚ) := by
        exact_mod_cast h1
      refine le_trans h2 ?_
      push_cast
      exact hp
    rw [all a ha, all (2 * k + 1 - 1 - a) (by omega)]

example : ¬ ∀ a, a < 3 → defocusIn1 3 1 (3 - 1 - a) = defocusIn1 3 1 a := by
  have h := (defocus1_symmetric_iff 1 le_rfl 1 (by norm_num)).not
  simp only [Nat.cast_one] at h
  norm_num at h
  simpa using h

/-- **Negative result (known finding `Deconvolution2D:[aT]*:BC=neumann:PSF=defocus:odd`).**
    `Deconvolution2D(dim=2, PSF="defocus", PSF_size=3, PSF_param=1, BC="neumann")`: the constructor succeeds
    and the matrix of `adjoint` is not the transpose of the matrix of `forward`
    (entry (0,0): forward 0, adjoint 1). -/
theorem deconv2dNamed_defocus_counterexample :
    deconv2dNamedL "neumann" "defocus" 2 3 (some 1) (fun _ => 0)
        = .ok (defocusPSF2 3 (1 * 1), deconv2dModel .reflect 3 (defocusPSF2 3 (1 * 1)) 2) ∧
      (deconv2dModel .reflect 3 (defocusPSF2 3 (1 * 1) : ℕ → ℕ → ℚ) 2).fwdMat.e 0 0
        ≠ (deconv2dModel .reflect 3 (defocusPSF2 3 (1 * 1) : ℕ → ℕ → ℚ) 2).adjMat.e 0 0 := by
  constructor
  · have hc : defocusCount2 3 1 = 3 := by decide +kernel
    simp [deconv2dNamedL, bc2d, psfKind, namedPSF2, hc]
  · have hS : sum2 3 (fun a b => if defocusIn2 3 (1 * 1) a b then (1 : ℚ) else 0) = 3 := by
      simp [sum2, sumTo, defocusIn2, defocusOff]; norm_num
    simp only [LinModel.fwdMat, LinModel.adjMat, deconv2dModel, LMat.mul, Geom.image, imagePos, conv2, flip2,
      defocusPSF2, normalize2, hS, sumTo]
    simp [hit, extPos, defocusIn2, defocusOff]
    norm_num

end CuqiVerif.C07
