import CuqiVerif.Model.C10_weighted
import CuqiVerif.Proofs.C10_weighted
import CuqiVerif.Props.C10_weighted

/-!
# C10 — certificates instead of trusted leaf algorithms (session-3, second pass)

`unitPrecOf` (`Model/C10_weighted.lean`) no longer relies on `QMat.inverse`, `QMat.rank` and `posDef` being correct:
their answers are used only together with certificates that are re-checked exactly (`mulIsIdent`: `A·B = I`;
`ldlCheck`: `P = L·diag(d)·Lᵀ`, `d > 0`).  The theorems below show that the certificates are sufficient for
everything the C10 statements use: the computed matrix really is the inverse, a certified matrix has trivial kernel
(full rank), a certified precision has the sum-of-squares form (so the Gamma rate is `≥ β`), and whatever `unitPrecOf`
returns for a full matrix satisfies these.
-/

open Finset

namespace CuqiVerif.C10

/-- what the check `mulIsIdent` decides -/
theorem mulIsIdent_iff (n : ℕ) (A B : ℕ → ℕ → ℚ) :
    mulIsIdent n A B = true ↔
      ∀ i, i < n → ∀ j, j < n → ∑ k ∈ range n, A i k * B k j = if i = j then 1 else 0 := by
  unfold mulIsIdent
  simp only [allTo_iff, beq_iff_eq, sumTo_eq_sum]

example : mulIsIdent 2 (fun (i j : ℕ) => if i = j then (2 : ℚ) else 0) (fun (i j : ℕ) => if i = j then (1 / 2 : ℚ) else 0) = true := by
  decide +kernel

/-- **The certified inverse is the inverse:** if `A·B = I` checks, then `A (B v) = v` for every vector — for the
    covariance wiring: the precision `P = inv(C)` the model uses satisfies `C (P v) = v`. -/
theorem inverse_cert_apply (n : ℕ) (A B : ℕ → ℕ → ℚ) (h : mulIsIdent n A B = true) (v : ℕ → ℚ) (i : ℕ) (hi : i < n) :
    ∑ j ∈ range n, A i j * ∑ k ∈ range n, B j k * v k = v i := by
  rw [mulIsIdent_iff] at h
  have : ∑ j ∈ range n, A i j * ∑ k ∈ range n, B j k * v k
      = ∑ k ∈ range n, (∑ j ∈ range n, A i j * B j k) * v k := by
    simp only [Finset.mul_sum, Finset.sum_mul]
    rw [Finset.sum_comm]
    exact Finset.sum_congr rfl fun k _ => Finset.sum_congr rfl fun j _ => by ring
  rw [this]
  have h2 : ∀ k ∈ range n, (∑ j ∈ range n, A i j * B j k) * v k = if i = k then v k else 0 := by
    intro k hk
    rw [h i hi k (Finset.mem_range.1 hk)]
    split_ifs <;> simp
  rw [Finset.sum_congr rfl h2, Finset.sum_ite_eq, if_pos (Finset.mem_range.2 hi)]

example : ∑ j ∈ range 2, (fun i j => if i = j then (2 : ℚ) else 0) 1 j *
    ∑ k ∈ range 2, (fun i j => if i = j then (1 / 2 : ℚ) else 0) j k * (fun k => (k : ℚ) + 5) k = (fun k => (k : ℚ) + 5) 1 :=
  inverse_cert_apply 2 (fun (i j : ℕ) => if i = j then (2 : ℚ) else 0) (fun (i j : ℕ) => if i = j then (1 / 2 : ℚ) else 0)
    (by decide +kernel) _ 1 (by norm_num)

/-- **Full rank from the certificate:** if a left inverse `X·M = I` checks, `M` has trivial kernel on `ℚⁿ` — the
    meaning of `matrix_rank(M) = n` that `gaussFull_exact_iff` needs. -/
theorem fullRank_of_cert (n : ℕ) (X M : ℕ → ℕ → ℚ) (h : mulIsIdent n X M = true) (v : ℕ → ℚ)
    (hv : ∀ i, i < n → ∑ j ∈ range n, M i j * v j = 0) (i : ℕ) (hi : i < n) : v i = 0 := by
  have := inverse_cert_apply n X M h v i hi
  rw [← this]
  exact Finset.sum_eq_zero fun j hj => by rw [hv j (Finset.mem_range.1 hj), mul_zero]

example : (fun (_ : ℕ) => (0 : ℚ)) 1 = 0 :=
  fullRank_of_cert 2 (fun (i j : ℕ) => if i = j then (1 / 2 : ℚ) else 0) (fun (i j : ℕ) => if i = j then (2 : ℚ) else 0)
    (by decide +kernel) (fun (_ : ℕ) => (0 : ℚ)) (fun i _ => by simp) 1 (by norm_num)

/-- what the check `ldlCheck` decides -/
theorem ldlCheck_iff (n : ℕ) (P L : ℕ → ℕ → ℚ) (d : ℕ → ℚ) :
    ldlCheck n P L d = true ↔
      (∀ i, i < n → ∀ j, j < n → P i j = ∑ k ∈ range n, L i k * d k * L j k) ∧ ∀ k, k < n → 0 < d k := by
  unfold ldlCheck
  simp only [Bool.and_eq_true, allTo_iff, beq_iff_eq, sumTo_eq_sum, decide_eq_true_eq]

/-- **A certified precision is a weighted sum of squares:** `vᵀPv = Σ_k d_k (Σ_i L_{ik} v_i)²`. -/
theorem ldl_quadForm (n : ℕ) (P L : ℕ → ℕ → ℚ) (d : ℕ → ℚ) (h : ldlCheck n P L d = true) (v : ℕ → ℚ) :
    quadForm n P v = ∑ k ∈ range n, d k * (∑ i ∈ range n, L i k * v i) ^ 2 := by
  obtain ⟨hP, -⟩ := (ldlCheck_iff n P L d).1 h
  rw [quadForm_eq]
  have lhs : ∑ i ∈ range n, v i * ∑ j ∈ range n, P i j * v j
      = ∑ i ∈ range n, ∑ j ∈ range n, ∑ k ∈ range n, d k * ((L i k * v i) * (L j k * v j)) := by
    refine Finset.sum_congr rfl fun i hi => ?_
    rw [Finset.mul_sum]
    refine Finset.sum_congr rfl fun j hj => ?_
    rw [hP i (Finset.mem_range.1 hi) j (Finset.mem_range.1 hj), Finset.sum_mul, Finset.mul_sum]
    exact Finset.sum_congr rfl fun k _ => by ring
  have rhs : ∀ k, d k * (∑ i ∈ range n, L i k * v i) ^ 2
      = ∑ i ∈ range n, ∑ j ∈ range n, d k * ((L i k * v i) * (L j k * v j)) := by
    intro k
    rw [pow_two, Finset.sum_mul_sum, Finset.mul_sum]
    exact Finset.sum_congr rfl fun i _ => by rw [Finset.mul_sum]
  rw [lhs]
  simp only [rhs]
  symm
  rw [Finset.sum_comm]
  refine Finset.sum_congr rfl fun i _ => ?_
  rw [Finset.sum_comm]

/-- hence the quadratic form in the Gamma's rate is non-negative (the rate is `≥ β > 0`: a proper Gamma) -/
theorem quadForm_nonneg_of_ldl (n : ℕ) (P L : ℕ → ℕ → ℚ) (d : ℕ → ℚ) (h : ldlCheck n P L d = true) (v : ℕ → ℚ) :
    0 ≤ quadForm n P v := by
  rw [ldl_quadForm n P L d h v]
  obtain ⟨-, hd⟩ := (ldlCheck_iff n P L d).1 h
  exact Finset.sum_nonneg fun k hk => mul_nonneg (hd k (Finset.mem_range.1 hk)).le (sq_nonneg _)

example : 0 ≤ quadForm 2 (fun i j => if i = j then 2 else 1) (fun k => (k : ℚ) - 3) :=
  quadForm_nonneg_of_ldl 2 (fun (i j : ℕ) => if i = j then (2 : ℚ) else 1)
    (fun (i j : ℕ) => if i = j then (1 : ℚ) else if j < i then 1 / 2 else 0)
    (fun (k : ℕ) => if k = 0 then (2 : ℚ) else 3 / 2) (by decide +kernel) _

theorem posDefCert_nonneg (n : ℕ) (P : ℕ → ℕ → ℚ) (h : posDefCert n P = true) (v : ℕ → ℚ) :
    0 ≤ quadForm n P v := by
  unfold posDefCert at h
  exact quadForm_nonneg_of_ldl n P _ _ h v

example : posDefCert 3 (fun i j => if i = j then 2 else if i + 1 = j ∨ j + 1 = i then -1 else 0) = true := by
  decide +kernel

/-- entries of the list matrix built from a function -/
lemma matFn_matOfFn (n : ℕ) (P : ℕ → ℕ → ℚ) (i j : ℕ) (hi : i < n) (hj : j < n) :
    matFn (matOfFn n P) i j = P i j := by
  simp [matFn, matOfFn, QMat.entry, QMat.ofFn, List.getD_eq_getElem?_getD, hi, hj]

lemma quadForm_congr (n : ℕ) (P Q : ℕ → ℕ → ℚ) (v : ℕ → ℚ) (h : ∀ i, i < n → ∀ j, j < n → P i j = Q i j) :
    quadForm n P v = quadForm n Q v := by
  rw [quadForm_eq, quadForm_eq]
  refine Finset.sum_congr rfl fun i hi => ?_
  congr 1
  exact Finset.sum_congr rfl fun j hj => by rw [h i (Finset.mem_range.1 hi) j (Finset.mem_range.1 hj)]

/-- `unitPrecOf` produces a full unit precision only through branch 4, `fullPrecOf` -/
theorem unitPrecOf_full_imp (w : Wiring) (n : ℕ) (pv : PVal) (S : QMat.Mat) (r : ℕ)
    (h : unitPrecOf w n pv = .ok (.full S r)) : ∃ M, pv = .matrix M ∧ fullPrecOf w n M = .ok (.full S r) := by
  unfold unitPrecOf at h
  cases pv with
  | scalar c => simp only at h; split_ifs at h <;> simp at h
  | vector v => simp only at h; split_ifs at h <;> simp at h
  | matrix M =>
    refine ⟨M, rfl, ?_⟩
    simp only at h
    split_ifs at h <;> first | exact h | simp at h

example : unitPrecOf .prec 2 (.matrix [[2, 1], [1, 2]]) = .ok (.full [[2, 1], [1, 2]] 2) := by decide +kernel

/-- **Whatever the full-matrix branch returns is certified:** the quadratic form the sampler and the density use is
    non-negative for every residual, in both wirings, every matrix, every dimension — so with `β > 0` the Gamma drawn
    from is a proper distribution and the law-level theorems (hypothesis `0 ≤ Q.target`) apply to it. -/
theorem fullPrecOf_nonneg (w : Wiring) (n : ℕ) (M S : QMat.Mat) (r : ℕ)
    (h : fullPrecOf w n M = .ok (.full S r)) (ax b : List ℚ) :
    0 ≤ (gaussQuadU n (.full S r) ax b).target := by
  show 0 ≤ quadForm n (matFn S) (dev ax b)
  unfold fullPrecOf at h
  cases w with
  | prec =>
    simp only at h
    split_ifs at h with h6
    simp only [Except.ok.injEq, UnitPrec.full.injEq] at h
    rw [← h.1, quadForm_congr n _ (lowerSym (matFn M)) _ (fun i hi j hj => matFn_matOfFn n _ i j hi hj)]
    simp only [Bool.and_eq_true] at h6
    exact posDefCert_nonneg n _ h6.2 _
  | cov =>
    simp only at h
    split at h
    · simp at h
    · rename_i Pinv _
      split_ifs at h with h6 h7
      simp only [Except.ok.injEq, UnitPrec.full.injEq] at h
      rw [← h.1, quadForm_congr n _ (lowerSym (matFn Pinv)) _ (fun i hi j hj => matFn_matOfFn n _ i j hi hj)]
      simp only [Bool.and_eq_true] at h7
      exact posDefCert_nonneg n _ h7.2 _

theorem unitPrecOf_full_nonneg (w : Wiring) (n : ℕ) (pv : PVal) (S : QMat.Mat) (r : ℕ)
    (h : unitPrecOf w n pv = .ok (.full S r)) (ax b : List ℚ) :
    0 ≤ (gaussQuadU n (.full S r) ax b).target := by
  obtain ⟨M, -, hM⟩ := unitPrecOf_full_imp w n pv S r h
  exact fullPrecOf_nonneg w n M S r hM ax b

example : 0 ≤ (gaussQuadU 2 (.full [[2, 1], [1, 2]] 2) [0, 0] [1, 3]).target :=
  unitPrecOf_full_nonneg .prec 2 (.matrix [[2, 1], [1, 2]]) _ 2 (by decide +kernel) _ _

/-- **… and the covariance wiring returns the certified inverse:** if the full branch accepts a covariance `C`, a matrix
    `X` with `C·X = I` (checked) was found, and the precision used is its lower triangle mirrored. -/
theorem fullPrecOf_cov_inverse (n : ℕ) (M S : QMat.Mat) (r : ℕ)
    (h : fullPrecOf .cov n M = .ok (.full S r)) :
    ∃ X : QMat.Mat, mulIsIdent n (matFn M) (matFn X) = true ∧ S = matOfFn n (lowerSym (matFn X)) := by
  unfold fullPrecOf at h
  simp only at h
  split at h
  · simp at h
  · rename_i Pinv _
    split_ifs at h with h6 h7
    simp only [Except.ok.injEq, UnitPrec.full.injEq] at h
    refine ⟨Pinv, ?_, h.1.symm⟩
    simpa using h6

example : ∃ X : QMat.Mat, mulIsIdent 2 (matFn [[2, 1], [1, 2]]) (matFn X) = true :=
  ⟨[[2 / 3, -1 / 3], [-1 / 3, 2 / 3]], by decide +kernel⟩

/-- the reported rank is the dimension whenever the full-rank certificate checks -/
theorem reportedRank_of_cert (n : ℕ) (M : QMat.Mat) (h : fullRankCert n M = true) : reportedRank n M = n := by
  unfold reportedRank; rw [if_pos h]

/-- **Exactness for certified full matrices, end to end:** if the full branch accepts a matrix and the full-rank
    certificate checks (an exact two-sided inverse), the Gamma drawn from is proportional to the posterior. -/
theorem gaussFull_exact_of_cert (w : Wiring) (n : ℕ) (M S : QMat.Mat) (r : ℕ) (ax b : List ℚ) (α β : ℚ)
    (h : fullPrecOf w n M = .ok (.full S r)) (hc : fullRankCert n M = true) (hb : b.length = n) :
    (outcome false (gaussQuadU n (.full S r) ax b) b α β).exact = true := by
  rw [gaussFull_exact_iff n S r ax b α β hb]
  unfold fullPrecOf at h
  cases w with
  | prec =>
    simp only at h
    split_ifs at h with h6
    simp only [Except.ok.injEq, UnitPrec.full.injEq] at h
    rw [← h.2, reportedRank_of_cert n M hc]
  | cov =>
    simp only at h
    split at h
    · simp at h
    · split_ifs at h with h6 h7
      simp only [Except.ok.injEq, UnitPrec.full.injEq] at h
      rw [← h.2, reportedRank_of_cert n M hc]

example : (outcome false (gaussQuadU 2 (.full [[2, 1], [1, 2]] 2) [0, 0] [1, 3]) [1, 3] 2 3).exact = true :=
  gaussFull_exact_of_cert .prec 2 [[2, 1], [1, 2]] _ 2 _ _ 2 3 (by decide +kernel) (by decide +kernel) rfl

end CuqiVerif.C10
