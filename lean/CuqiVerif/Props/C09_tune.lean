import CuqiVerif.Model.C09_tune
import CuqiVerif.Proofs.C09
import CuqiVerif.Props.C09
import Mathlib.Data.List.Range
import Mathlib.Data.Nat.ModEq
import Mathlib.Tactic.NormNum

/-!
# C09 — warm-up: the tuning calls sit between the sweep and its storage and touch nothing else

Theorems about the executable definitions of `Model/C09_tune.lean` (`warmupN`, `warmupLoop`,
`warmupIter`, `tuneAll`, `tuneInterval` — the ones the driver runs for `W<tune_freq>!<Nb>` calls),
for every list of block names, every sampler assignment / step counts, every stream of transitions,
every `Nb` and every `tune_freq`.

* `warmup_values_eq_sample` — as far as block values, targets, samplers' points, caches, stored tuples
  and the event log go, `warmup(Nb, tune_freq)` IS `sample(Nb)`: every theorem of `Props/C09.lean`
  about `sampleN` (`sweep_targets`, `stored_is_post_sweep`, `continue_eq_uninterrupted`, …) holds for
  warm-up phases and for any interleaving of warm-up and sampling calls
  (`warmup_then_sample_eq_uninterrupted`).
* `warmup_tune_log` — the complete list of tuning calls; `tune_round_placement` — a round is made
  after all transitions of its sweep and before that sweep is stored, one call per sampler in
  `par_names` order; `tune_update_counts_consecutive`, `tune_round_count` — rounds are numbered
  0, 1, 2, … and there are `Nb / tune_interval` of them; `tuneInterval_pos`.
-/
namespace CuqiVerif.C09

set_option linter.unusedSectionVars false

variable {N V : Type} [DecidableEq N]

/-- the tuning calls made in iteration `i` (0-based, counted from the start of the call) -/
def tuneRound (ds : Nat → Draw V) (I idx : Nat) (g : HG N V) (i : Nat) : List (TuneEv N) :=
  if (idx + i + 1) % I = 0 then tuneAll (sweep ds (sampleN ds i g)) I ((idx + i) / I) else []

lemma warmupLoop_eq (ds : Nat → Draw V) (I : Nat) :
    ∀ (k idx : Nat) (g : HG N V) (log : List (TuneEv N)),
      warmupLoop ds I k idx (g, log)
        = (sampleN ds k g, log ++ (List.range k).flatMap (tuneRound ds I idx g)) := by
  intro k
  induction k with
  | zero => intro idx g log; simp [warmupLoop, sampleN]
  | succ k ih =>
    intro idx g log
    rw [warmupLoop]
    simp only [warmupIter]
    rw [ih]
    refine Prod.ext rfl ?_
    have e0 : (if (idx + 1) % I = 0 then tuneAll (sweep ds g) I (idx / I) else [])
        = tuneRound ds I idx g 0 := by simp [tuneRound, sampleN]
    have e1 : ∀ i, tuneRound ds I (idx + 1) (store (sweep ds g)) i = tuneRound ds I idx g (i + 1) := by
      intro i
      have h1 : idx + 1 + i + 1 = idx + (i + 1) + 1 := by omega
      have h2 : idx + 1 + i = idx + (i + 1) := by omega
      simp only [tuneRound, sampleN, h2]
    show (log ++ _) ++ _ = _
    rw [List.range_succ_eq_map, List.flatMap_cons, List.flatMap_map, List.append_assoc, e0]
    congr 2
    apply List.flatMap_congr
    intro i _
    exact e1 i

/-- **warmup_values_eq_sample** — the state after `warmup(Nb, tune_freq)` (current values, every
    sampler's point / target / cached evaluation / `_acc` length, stored tuples, position in the
    stream of transitions, event log) is exactly the state after `sample(Nb)`: the tuning calls are
    the only difference between the two loops. -/
theorem warmup_values_eq_sample (ds : Nat → Draw V) (tuneFreq : Rat) (Nb : Nat) (g : HG N V) :
    (warmupN ds tuneFreq Nb g).1 = sampleN ds Nb g := by
  unfold warmupN
  rw [warmupLoop_eq]

example : (warmupN (fun i => (⟨i + 5, true⟩ : Draw Nat)) (1 / 2) 4
      (construct [0, 1] (fun _ => none) (fun _ => 1) (fun _ => (false, false, false)))).1.stored
    = [[(0, 5), (1, 6)], [(0, 7), (1, 8)], [(0, 9), (1, 10)], [(0, 11), (1, 12)]] := by decide +kernel

/-- **warmup_then_sample_eq_uninterrupted** — a warm-up of `a` sweeps followed by `sample(b)` leaves
    the state of one `sample(a + b)` on the same stream of transitions: sampling resumes from the last
    warm-up values, whatever the tuning frequency. -/
theorem warmup_then_sample_eq_uninterrupted (ds : Nat → Draw V) (tuneFreq : Rat) (a b : Nat) (g : HG N V) :
    sampleN ds b (warmupN ds tuneFreq a g).1 = sampleN ds (a + b) g := by
  rw [warmup_values_eq_sample, ← sampleN_add]

/-- **warmup_tune_log** — all tuning calls of `warmup(Nb, tune_freq)`, in order: iteration `i`
    (0-based) makes a round iff `(i + 1) % tune_interval = 0`; the round is `tuneAll` on the state
    reached after the sweep of that iteration (before it is stored), with `skip_len = tune_interval`
    and `update_count = i // tune_interval`. -/
theorem warmup_tune_log (ds : Nat → Draw V) (tuneFreq : Rat) (Nb : Nat) (g : HG N V) :
    (warmupN ds tuneFreq Nb g).2
      = (List.range Nb).flatMap (fun i =>
          if (i + 1) % tuneInterval tuneFreq Nb = 0
          then tuneAll (sweep ds (sampleN ds i g)) (tuneInterval tuneFreq Nb) (i / tuneInterval tuneFreq Nb)
          else []) := by
  unfold warmupN
  rw [warmupLoop_eq]
  simp only [List.nil_append]
  apply List.flatMap_congr
  intro i _
  simp [tuneRound]

/-- `warmup(4, 0.5)` on two blocks: `tune_interval = 2`, rounds after the 2nd and the 4th sweep -/
example : (warmupN (fun i => (⟨i + 5, true⟩ : Draw Nat)) (1 / 2) 4
      (construct [0, 1] (fun _ => none) (fun _ => 1) (fun _ => (false, false, false)))).2
    = [⟨1, 4, 0, 2, 0⟩, ⟨1, 4, 1, 2, 0⟩, ⟨3, 8, 0, 2, 1⟩, ⟨3, 8, 1, 2, 1⟩] := by decide +kernel

/-- **tune_round_placement** — the round of iteration `i`: one call per block, in `par_names`
    order, each with `skip_len = I` and the same `update_count`; it is made when `i` tuples of this call
    are stored (the sweep of iteration `i` is not yet stored) and all transitions of that sweep have
    been made (`pos` is the stream position after `i + 1` sweeps): between `self.step()` and
    `self._store_samples()`, never inside a block update. -/
theorem tune_round_placement (ds : Nat → Draw V) (g : HG N V) (I u i : Nat) :
    (tuneAll (sweep ds (sampleN ds i g)) I u).map (·.name) = g.names ∧
      ∀ t ∈ tuneAll (sweep ds (sampleN ds i g)) I u,
        t.nStored = g.stored.length + i ∧ t.pos = (sampleN ds (i + 1) g).pos ∧
        t.skipLen = I ∧ t.updateCount = u := by
  constructor
  · simp only [tuneAll, List.map_map, Function.comp_def, sweep_eq_sweepL, sweepL_names, sampleN_names, List.map_id']
  · intro t ht
    simp only [tuneAll, List.mem_map] at ht
    obtain ⟨n, _, rfl⟩ := ht
    refine ⟨?_, ?_, rfl, rfl⟩
    · have h1 : (sweep ds (sampleN ds i g)).stored = (sampleN ds i g).stored := by
        rw [sweep_eq_sweepL]
        generalize (sampleN ds i g) = h
        generalize h.names = l
        induction l generalizing h with
        | nil => rfl
        | cons a r ih => rw [sweepL, List.foldl_cons]; exact (ih _).trans rfl
      simp only [h1, stored_is_post_sweep, List.length_append, List.length_map, List.length_range]
    · rw [sampleN_succ']
      rfl

example (ds : Nat → Draw Nat) :=
  tune_round_placement ds (construct [0, 1, 2] (fun _ => some 2) (fun _ => (1 : Nat)) (fun _ => (false, true, true))) 2 0 1

/-- **tune_update_counts_consecutive** — whenever a round is made (`(i + 1) % I = 0`, `I ≥ 1`) its
    `update_count = i // I` is one less than the number `(i + 1) // I` of rounds made so far (this one
    included): the rounds of a warm-up call are numbered 0, 1, 2, … without gaps or repetitions. -/
theorem tune_update_counts_consecutive (I i : Nat) (hI : 1 ≤ I) (h : (i + 1) % I = 0) :
    i / I + 1 = (i + 1) / I := by
  obtain ⟨q, hq⟩ := Nat.dvd_of_mod_eq_zero h
  cases q with
  | zero => simp at hq
  | succ q =>
    have hi : i = I * q + (I - 1) := by
      have : I * (q + 1) = I * q + I := Nat.mul_succ I q
      omega
    rw [hq, Nat.mul_div_cancel_left _ (by omega : 0 < I), hi, Nat.mul_add_div (by omega : 0 < I),
      Nat.div_eq_of_lt (by omega : I - 1 < I)]

example : (5 : Nat) / 3 + 1 = (5 + 1) / 3 := tune_update_counts_consecutive 3 5 (by decide) (by decide)

/-- **tune_round_count** — `warmup(Nb)` makes `Nb // tune_interval` rounds: the number of iterations
    `i < Nb` with `(i + 1) % I = 0`. -/
theorem tune_round_count (I Nb : Nat) (_hI : 1 ≤ I) :
    (List.range Nb).countP (fun i => decide ((i + 1) % I = 0)) = Nb / I := by
  induction Nb with
  | zero => simp
  | succ n ih =>
    rw [List.range_succ, List.countP_append, ih, Nat.succ_div]
    congr 1
    by_cases hd : I ∣ n + 1
    · simp [hd, Nat.mod_eq_zero_of_dvd hd]
    · have : (n + 1) % I ≠ 0 := fun h => hd (Nat.dvd_of_mod_eq_zero h)
      simp [hd, this]

example : (List.range 7).countP (fun i => decide ((i + 1) % 3 = 0)) = 7 / 3 := tune_round_count 3 7 (by decide)

lemma tuneInterval_pos' (tuneFreq : Rat) (Nb : Nat) : 1 ≤ tuneInterval tuneFreq Nb := le_max_right _ _

lemma tune_log_length_aux (ds : Nat → Draw V) (g : HG N V) (I Nb : Nat) :
    ((List.range Nb).flatMap (fun i =>
        if (i + 1) % I = 0 then tuneAll (sweep ds (sampleN ds i g)) I (i / I) else [])).length
      = (List.range Nb).countP (fun i => decide ((i + 1) % I = 0)) * g.names.length := by
  induction Nb with
  | zero => simp
  | succ n ih =>
    rw [List.range_succ, List.flatMap_append, List.length_append, ih, List.countP_append, Nat.add_mul]
    congr 1
    by_cases h : (n + 1) % I = 0
    · simp [h, tuneAll, sweep_eq_sweepL]
    · simp [h]

/-- … so the tuning log of a warm-up call has `(Nb // tune_interval) · (number of blocks)` entries -/
theorem warmup_tune_log_length (ds : Nat → Draw V) (tuneFreq : Rat) (Nb : Nat) (g : HG N V) :
    (warmupN ds tuneFreq Nb g).2.length = (Nb / tuneInterval tuneFreq Nb) * g.names.length := by
  rw [warmup_tune_log, tune_log_length_aux, tune_round_count (tuneInterval tuneFreq Nb) Nb (tuneInterval_pos' tuneFreq Nb)]

/-- **tuneInterval_pos** — `tune_interval ≥ 1` for every `tune_freq` (zero, negative, above one) and
    every `Nb`: the modulus of the loop is never zero. -/
theorem tuneInterval_pos (tuneFreq : Rat) (Nb : Nat) : 1 ≤ tuneInterval tuneFreq Nb := le_max_right _ _

/-- the float arithmetic matters: for the float `0.7` (exactly `3152519739159347 / 2^52`) the exact
    product with 10 is just below 7, its binary64 rounding is 7.0, and `int(0.7 * 10) = 7` -/
example : tuneInterval (3152519739159347 / 4503599627370496) 10 = 7 := by decide +kernel
example : ((3152519739159347 / 4503599627370496 : Rat) * 10).floor = 6 := by decide +kernel
/-- the default `tune_freq = 0.1` (the float `3602879701896397 / 2^55`) and `Nb = 30`: 3; zero,
    negative and large frequencies -/
example : tuneInterval (3602879701896397 / 36028797018963968) 30 = 3 := by decide +kernel
example : tuneInterval 0 5 = 1 ∧ tuneInterval (-1 / 2) 5 = 1 ∧ tuneInterval 2 5 = 10 := by decide +kernel

end CuqiVerif.C09
