import CuqiVerif.Props.C13_shapes

/-!
# C13 (mapped) — the composition laws of `MappedGeometry`, for every wrapped geometry of the model

`Geom.mapped inner scale shift hasInv` transcribes `MappedGeometry` (l.683-720) with the elementwise map
`f ↦ scale·f + shift`.  The laws below hold for EVERY inner geometry (any `Geom`, so also a mapped one:
any nesting depth) and every input; they are the order of composition the code documents — the class of
the seeded changes "fun2par = imap ∘ inner.fun2par" and "fun2vec/vec2fun = inner fun2par/par2fun".
-/

namespace CuqiVerif.C13

/-- the elementwise map and its inverse on arrays -/
def affineArr (sc sh : ℚ) (y : Arr) : Arr := ⟨y.shape, fun t => sc * y.get t + sh⟩
def affineInvArr (sc sh : ℚ) (x : Arr) : Arr := ⟨x.shape, fun t => (x.get t - sh) / sc⟩

/-- **`par2fun = map ∘ inner.par2fun`** — the map is applied AFTER the wrapped geometry's `par2fun`, to its
    whole result (refused exactly when the wrapped geometry refuses). -/
theorem mapped_par2fun_composition (g : Geom) (sc sh : ℚ) (inv : Bool) (x : Arr) :
    (Geom.mapped g sc sh inv).par2fun x = (g.par2fun x).map (affineArr sc sh) := rfl

/-- **`fun2par = inner.fun2par ∘ imap`** — the inverse map is applied BEFORE the wrapped geometry's
    `fun2par`; without `imap` the call raises whatever the argument. -/
theorem mapped_fun2par_composition (g : Geom) (sc sh : ℚ) (x : Arr) :
    (Geom.mapped g sc sh true).fun2par x = g.fun2par (affineInvArr sc sh x) ∧
    (Geom.mapped g sc sh false).fun2par x = .error "raise" := ⟨rfl, rfl⟩

/-- **`fun2vec` / `vec2fun` are the wrapped geometry's** (neither the map nor `fun2par/par2fun` is involved),
    and the reported `par_shape` is the wrapped geometry's. -/
theorem mapped_vec_delegation (g : Geom) (sc sh : ℚ) (inv : Bool) (x : Arr) :
    (Geom.mapped g sc sh inv).fun2vec x = g.fun2vec x ∧ (Geom.mapped g sc sh inv).vec2fun x = g.vec2fun x ∧
    (Geom.mapped g sc sh inv).parShape = g.parShape := ⟨rfl, rfl, rfl⟩

/-- two layers: `par2fun = map₂ ∘ map₁ ∘ inner.par2fun`, `fun2par = inner.fun2par ∘ imap₁ ∘ imap₂` -/
theorem mapped_nested_composition (g : Geom) (a b c d : ℚ) (x : Arr) :
    (Geom.mapped (Geom.mapped g a b true) c d true).par2fun x
      = (g.par2fun x).map (fun y => affineArr c d (affineArr a b y)) ∧
    (Geom.mapped (Geom.mapped g a b true) c d true).fun2par x
      = g.fun2par (affineInvArr a b (affineInvArr c d x)) := by
  refine ⟨?_, rfl⟩
  rw [mapped_par2fun_composition, mapped_par2fun_composition, Option.map_map]
  rfl

/-- **The other order is a different function**: `StepExpansion(arange(4), 2, 'max')` inside, map `-2f + 1`,
    `f = [1,5,7,9]`: the code's `inner.fun2par(imap f)` is `[0, -3]`, whereas `imap(inner.fun2par f)` would
    be `[-2, -4]` (a decreasing map turns the maximum into the minimum). -/
theorem mapped_fun2par_order_matters :
    ((Geom.mapped (Geom.step [0, 1, 2, 3] none 2 .max) (-2) 1 true).fun2par (Arr.ofList [4] [1, 5, 7, 9])).toOption.map Arr.toList
      = some [0, -3] ∧
    ((Geom.step [0, 1, 2, 3] none 2 .max).fun2par (Arr.ofList [4] [1, 5, 7, 9])).toOption.map
        (fun z => (affineInvArr (-2) 1 z).toList) = some [-2, -4] := by
  constructor <;> decide +kernel

/-- **Vector form ≠ parameters for an expansion inside**: for `Mapped(StepExpansion)` `fun2vec f` is `f`
    itself (4 entries) while the wrapped `fun2par f` is the 2 step projections — replacing the delegation by
    `fun2par/par2fun` changes `funvec_shape` from `fun_shape` to `par_shape`. -/
theorem mapped_fun2vec_is_not_fun2par :
    ((Geom.mapped (Geom.step [0, 1, 2, 3] none 2 .mean) 2 1 true).fun2vec (Arr.ofList [4] [1, 5, 7, 9])).toOption.map Arr.toList
      = some [1, 5, 7, 9] ∧
    ((Geom.step [0, 1, 2, 3] none 2 .mean).fun2par (Arr.ofList [4] [1, 5, 7, 9])).toOption.map Arr.toList = some [3, 8] ∧
    (Geom.mapped (Geom.step [0, 1, 2, 3] none 2 .mean) 2 1 true).funvecShape = some [4] := by
  refine ⟨?_, ?_, ?_⟩ <;> decide +kernel

/-- **Round trip through the composition, every inner geometry**: if the wrapped geometry's round trip
    returns `z` for `x` (entrywise on the reported size), so does the mapped geometry's, for every non-zero
    scale — the map and its inverse cancel in the middle. -/
theorem mapped_roundtrip_every_inner (g : Geom) (sc sh : ℚ) (hsc : sc ≠ 0) (x y z : Arr)
    (h1 : g.par2fun x = some y) (_h2 : g.fun2par y = .ok z) :
    ∃ y', (Geom.mapped g sc sh true).par2fun x = some y' ∧
      (Geom.mapped g sc sh true).fun2par y' = g.fun2par ⟨y.shape, fun t => (sc * y.get t + sh - sh) / sc⟩ ∧
      ∀ t, (sc * y.get t + sh - sh) / sc = y.get t := by
  refine ⟨affineArr sc sh y, by rw [mapped_par2fun_composition, h1]; rfl, rfl, ?_⟩
  intro t
  field_simp
  ring

example : ((Geom.mapped (Geom.image 2 3 true false) 2 1 true).par2fun (ones 6))
    = ((Geom.image 2 3 true false).par2fun (ones 6)).map (affineArr 2 1) :=
  mapped_par2fun_composition _ _ _ _ _

example : (Geom.mapped (Geom.cont2D 2 3) 2 1 true).fun2vec (ones 6) = (Geom.cont2D 2 3).fun2vec (ones 6) :=
  (mapped_vec_delegation _ _ _ _ _).1

end CuqiVerif.C13
