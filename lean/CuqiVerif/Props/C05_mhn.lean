import CuqiVerif.Model.C05_mhn
import CuqiVerif.Proofs.C05_mhn
import Mathlib.Data.List.Basic
/-
  C05 — theorems about the executable whole-sampler model of `ModifiedHalfNormal` (`Model/C05_mhn.lean`):
  the rejection loops and the `N`-draw comprehension as functions of the generator stream (all stream lengths,
  all `N`, every comparison structure `Arith` — IEEE doubles as run by the driver, or the reals), the dispatch
  with its three `ValueError` guards, and the indexing of sequence-valued parameters by the draw number.
-/
namespace CuqiVerif.C05
namespace MhnRun

variable {τ υ χ σ ε : Type}

/-! ### the rejection loop returns the FIRST accepted pair -/

/-- `while True` loop of the three MHN samplers: it returns `x` and leaves `rest` unread **iff** the stream is
    `pre ++ (t, u) :: rest` where every pair of `pre` was rejected, `(t, u)` is accepted and `x` is the point of `t`.
    Any stream length.  (Each pair is one `rng.gamma/normal` call followed by one `rng.uniform()` call: the loop
    consumes exactly `2 (|pre| + 1)` generator calls.) -/
theorem rejLoop_some_iff (point : τ → χ) (accept : τ → υ → Bool) (s : List (τ × υ)) (x : χ) (rest : List (τ × υ)) :
    rejLoop point accept s = some (x, rest) ↔
      ∃ pre t u, s = pre ++ (t, u) :: rest ∧ (∀ p ∈ pre, accept p.1 p.2 = false) ∧ accept t u = true ∧ x = point t :=
  rejLoop_some_iff' point accept s x rest

example : rejLoop (fun t : ℕ => t + 100) (fun t u => t == u) [(1, 2), (3, 3), (4, 4)] = some (103, [(4, 4)]) := by decide

/-- the loop runs past the end of the given prefix **iff** every pair in it is rejected -/
theorem rejLoop_none_iff (point : τ → χ) (accept : τ → υ → Bool) (s : List (τ × υ)) :
    rejLoop point accept s = none ↔ ∀ p ∈ s, accept p.1 p.2 = false := by
  induction s with
  | nil => simp [rejLoop]
  | cons p s ih =>
    obtain ⟨t, u⟩ := p
    by_cases h : accept t u = true
    · simp [rejLoop, h]
    · have h' : accept t u = false := by simpa using h
      simp [rejLoop, h', ih]

example : rejLoop (fun t : ℕ => t) (fun t u => t == u) [(1, 2), (3, 4)] = none := by decide

/-- **The draw is a function of the part of the generator stream it reads**: whatever follows in the stream does not
    change the returned point, and is left unread for the next draw. -/
theorem rejLoop_append (point : τ → χ) (accept : τ → υ → Bool) (s s' : List (τ × υ)) (x : χ) (rest : List (τ × υ))
    (h : rejLoop point accept s = some (x, rest)) :
    rejLoop point accept (s ++ s') = some (x, rest ++ s') := by
  induction s with
  | nil => simp [rejLoop] at h
  | cons p s ih =>
    obtain ⟨t, u⟩ := p
    by_cases ha : accept t u = true
    · simp only [rejLoop, ha, if_true, Option.some.injEq, Prod.mk.injEq] at h
      simp [rejLoop, ha, h.1, h.2]
    · have h' : accept t u = false := by simpa using ha
      simp only [rejLoop, h'] at h
      simpa [rejLoop, h'] using ih h

example : rejLoop (fun t : ℕ => t) (fun t u => t == u) ([(1, 2), (3, 3)] ++ [(7, 7)]) = some (3, [] ++ [(7, 7)]) := by decide

/-! ### `N` draws -/

/-- `_sample(N)` returns exactly `N` values (one scalar per draw) whenever it returns -/
theorem drawsFrom_length (draw : ℕ → List σ → Except ε (χ × List σ)) (i n : ℕ) (s s' : List σ) (xs : List χ)
    (h : drawsFrom draw i n s = .ok (xs, s')) : xs.length = n :=
  drawsFrom_length' draw i n s s' xs h

/-- `n + m` draws = `n` draws, then `m` more (numbered from `i + n`) reading the stream where the first `n` stopped;
    an exception in either part is the exception of the whole. -/
theorem drawsFrom_add (draw : ℕ → List σ → Except ε (χ × List σ)) (i n m : ℕ) (s : List σ) :
    drawsFrom draw i (n + m) s =
      match drawsFrom draw i n s with
      | .error e => .error e
      | .ok (xs, s') =>
        match drawsFrom draw (i + n) m s' with
        | .error e => .error e
        | .ok (ys, s'') => .ok (xs ++ ys, s'') :=
  drawsFrom_add' draw i n m s

/-- if every single draw only depends on the part of the stream it reads, so do `n` draws -/
theorem drawsFrom_append (draw : ℕ → List σ → Except ε (χ × List σ))
    (hdraw : ∀ i s x r s', draw i s = .ok (x, r) → draw i (s ++ s') = .ok (x, r ++ s'))
    (i n : ℕ) (s s' r : List σ) (xs : List χ) (h : drawsFrom draw i n s = .ok (xs, r)) :
    drawsFrom draw i n (s ++ s') = .ok (xs, r ++ s') :=
  drawsFrom_append' draw hdraw i n s s' r xs h

/-! ### the MHN sampler -/

/-- `β` and `γ` never reach the sampler (the getters return `_alpha`): the parameters of every draw are those of
    `ModifiedHalfNormal(a, b', c')` for any other `b'`, `c'` (known finding `MHN:sample:getter:beta-gamma-ignored`) -/
theorem paramsAt_ignores_beta_gamma (a b c b' c' : PVal) (i : ℕ) : paramsAt a b c i = paramsAt a b' c' i := rfl

/-- python floats: every draw is made with `(α, α, α)` -/
theorem paramsAt_pyfloat (v : ℚ) (b c : PVal) (i : ℕ) : paramsAt (.pyfloat v) b c i = .ok (v, v, v) := rfl

/-- sequence-valued parameters: draw number `i` is made with the `i`-th ENTRY, and there is no draw `i ≥ len` -/
theorem paramsAt_seq (vs : List ℚ) (b c : PVal) (i : ℕ) :
    paramsAt (.seq vs) b c i = match vs[i]? with | some x => .ok (x, x, x) | none => .error .indexError := by
  unfold paramsAt
  simp only [PVal.indexable, PVal.index, if_true]
  cases vs[i]? <;> rfl

example : paramsAt (.seq [2, 3, 4]) (.pyfloat 1) (.pyfloat 1) 1 = .ok (3, 3, 3) := by decide

/-- `_MHN_sample` never raises: its three `ValueError` guards are unreachable through `_MHN_sample` (hence through
    `sample`), for every comparison structure in which `a < b` excludes `b <= a` (true of the reals and of IEEE doubles). -/
theorem mhnDispatch_never_raises (A : Arith) (hA : ∀ a b, A.lt a b = true → A.le b a = false)
    (α β γ : RExpr) (m : MArg) : ∃ L, mhnDispatch A α β γ m = .ok L := by
  unfold mhnDispatch
  by_cases h1 : A.le γ 0 = true
  · have h2 : A.lt 0 γ = false := by
      by_contra hc
      have := hA 0 γ (by simpa using hc)
      rw [this] at h1; exact Bool.false_ne_true h1
    simp [h1, negativeGamma, h2]
  · have h1' : A.le γ 0 = false := by simpa using h1
    by_cases h3 : A.lt 1 α = true
    · have h4 := hA 1 α h3
      simp only [h1', h3, positiveGamma1, h4, if_true, Bool.false_eq_true, if_false]
      by_cases h5 : A.lt (Mhn.K1 α β γ) (Mhn.K2 α β γ) = true <;> simp [h5]
    · have h3' : A.lt 1 α = false := by simpa using h3
      simp [h1', h3']

example : ∀ a b, floatArithLike.lt a b = true → floatArithLike.le b a = false := floatArithLike_law

/-- the guards do fire when the sub-samplers are called directly with parameters outside their domain -/
theorem positiveGamma1_guards (A : Arith) (α β γ : RExpr) :
    (A.le γ 0 = true → positiveGamma1 A α β γ = .error .gammaNotPositive) ∧
    (A.le γ 0 = false → A.le α 1 = true → positiveGamma1 A α β γ = .error .alphaNotGreater1) ∧
    (∀ m, A.lt 0 γ = true → negativeGamma A α β γ m = .error .gammaNotNegative) := by
  refine ⟨fun h => by simp [positiveGamma1, h], fun h1 h2 => by simp [positiveGamma1, h1, h2], fun m h => by simp [negativeGamma, h]⟩

/-- what a returned draw is: the point of an ACCEPTED iteration (`[X > 0 and] log U < bound`), all earlier iterations
    of the same draw having been rejected; the unread rest of the stream is handed on. -/
theorem Loop.run_ok_iff (A : Arith) (L : Loop) (s : List (ℚ × ℚ)) (x : RExpr) (rest : List (ℚ × ℚ)) :
    L.run A s = .ok (x, rest) ↔
      ∃ pre t u, s = pre ++ (t, u) :: rest ∧ (∀ p ∈ pre, L.accept A p.1 p.2 = false) ∧ L.accept A t u = true
        ∧ x = L.point (RExpr.const t) := by
  unfold Loop.run
  rw [← rejLoop_some_iff' (fun t => L.point (RExpr.const t)) (L.accept A) s x rest]
  cases h : rejLoop (fun t => L.point (RExpr.const t)) (L.accept A) s with
  | none => simp
  | some r => simp

/-- one draw of `_sample` depends only on the part of the stream it reads -/
theorem sampleDraw_append (A : Arith) (a b c : PVal) (i : ℕ) (s s' r : List (ℚ × ℚ)) (x : RExpr)
    (h : sampleDraw A a b c i s = .ok (x, r)) : sampleDraw A a b c i (s ++ s') = .ok (x, r ++ s') :=
  sampleDraw_append' A a b c i s s' r x h

/-- **Determinism in the generator stream.**  `sample(N, rng)` is a function of the part of the stream it reads: the
    same prefix gives the same `N` draws whatever follows, and what follows is left for later calls. -/
theorem sampleN_append (A : Arith) (a b c : PVal) (N : ℕ) (s s' r : List (ℚ × ℚ)) (xs : List RExpr)
    (h : sampleN A a b c N s = .ok (xs, r)) : sampleN A a b c N (s ++ s') = .ok (xs, r ++ s') :=
  drawsFrom_append' _ (fun i s x r s' h => sampleDraw_append' A a b c i s s' r x h) 0 N s s' r xs h

/-- `_sample(N)` returns `N` scalars — whatever the dimension of the distribution -/
theorem sampleN_length (A : Arith) (a b c : PVal) (N : ℕ) (s r : List (ℚ × ℚ)) (xs : List RExpr)
    (h : sampleN A a b c N s = .ok (xs, r)) : xs.length = N :=
  drawsFrom_length' _ 0 N s r xs h

/-- scalar (python float) parameters: `N + M` draws are `N` draws followed by `M` draws of a fresh call reading the
    stream where the first call stopped (what the sequential-consumption oracle checks on the code). -/
theorem sampleN_add_pyfloat (A : Arith) (v : ℚ) (b c : PVal) (N M : ℕ) (s : List (ℚ × ℚ)) :
    sampleN A (.pyfloat v) b c (N + M) s =
      match sampleN A (.pyfloat v) b c N s with
      | .error e => .error e
      | .ok (xs, s') =>
        match sampleN A (.pyfloat v) b c M s' with
        | .error e => .error e
        | .ok (ys, s'') => .ok (xs ++ ys, s'') :=
  sampleN_add_pyfloat' A v b c N M s

/-- numpy scalars (`np.float64`) have `__getitem__` but cannot be indexed: every request raises `IndexError` -/
theorem sampleN_npscalar_raises (A : Arith) (v : ℚ) (b c : PVal) (N : ℕ) (s : List (ℚ × ℚ)) :
    sampleN A (.npscalar v) b c (N + 1) s = .error .indexError := by
  simp [sampleN, drawsFrom, sampleDraw, paramsAt, PVal.indexable, PVal.index]

/-- sequence-valued parameters: a request of more draws than entries always raises (`IndexError` at draw `len`,
    unless an earlier draw already ran out of stream) -/
theorem sampleN_seq_raises_past_length (A : Arith) (vs : List ℚ) (b c : PVal) (N : ℕ) (hN : vs.length < N)
    (s : List (ℚ × ℚ)) : ∃ e, sampleN A (.seq vs) b c N s = .error e :=
  sampleN_seq_raises' A vs b c N hN s

/-- **Witness of the finding `MHN:sample:indexed-params:*`** for `ModifiedHalfNormal([2,3,4], …)` (dimension 3):
    draw 1 is made with the parameters of component 1 alone, a request of 2 draws returns 2 scalars (not 2 columns of
    3 entries), and a request of 4 draws raises. -/
theorem sampleN_indexed_counterexample (b c : PVal) :
    paramsAt (.seq [2, 3, 4]) b c 1 = .ok (3, 3, 3) ∧
    (∀ A s xs r, sampleN A (.seq [2, 3, 4]) b c 2 s = .ok (xs, r) → xs.length = 2 ∧ xs.length ≠ 3 * 2) ∧
    (∀ A s, ∃ e, sampleN A (.seq [2, 3, 4]) b c 4 s = .error e) := by
  refine ⟨by rw [paramsAt_seq]; rfl, fun A s xs r h => ?_, fun A s => sampleN_seq_raises' A _ b c 4 (by decide) s⟩
  have := drawsFrom_length' _ 0 2 s r xs h
  omega

end MhnRun
end CuqiVerif.C05
