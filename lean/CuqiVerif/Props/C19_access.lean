import CuqiVerif.Proofs.C19_access

/-!
# C19 — the code around the core (session 3): constructor / flag validation, `_sub_samples`,
# `_select_random_indices`, the plotting glue, integer variable indices, `compute_rhat` argument
# forms and broadcasting

Every statement is about the executable definitions of `Model/C19_access.lean` (and `Model/C19.lean`)
that the driver runs, for every number of samples, dimension, index list and rational sample value.

1. flags: `init_spec`, `flagsOk_invariant` (every history of burnthin / conversions / sub-sampling /
   validated `is_vec` assignment keeps "parameters are in vector form"), `setIsPar_breaks_invariant`
   (the unvalidated `is_par` attribute does not), `subSamples_refuses_of_not_flagsOk`.
2. sub-sampling: `subSamples_list` (closed form, negative indices wrap), `subSamples_refuses_iff`,
   `subSamples_num_eq_list`, `subSamples_all_is_identity`, `burnthin_eq_subSamples`,
   `selectIndices_spec`, `subSamples_selected_is_sublist`.
3. plotting glue: `plot_refuses_user_is_par`, `plotStat_parameters_or_funvals`,
   `plotStat_vector_form_is_stat_of_funvals`, `plotArg_vector_form_is_funvals_of_selection`.
4. diagnostics: `toArvizI_wrap`, `toArvizI_refuses`, `broadcastsTo_two_axes`,
   `rhatInputB_eq_rhatInput`, `rhatInputA_forms`, `rhat_each_variable_all_forms`,
   `rhatInputB_broadcast_counterexample`, `converted_geometryDim`, `ess_rhat_after_parameters`.
-/

namespace CuqiVerif.C19
open List

/-! ## 1. constructor and representation flags -/

/-- **The constructor refuses exactly `is_par ∧ ¬ is_vec`** (`ValueError` from the `is_vec` setter) and
    otherwise stores what it is given. -/
theorem init_spec (cols : List (List ℚ)) (shape : List ℕ) (geom : Geometry) (ip iv : Bool) :
    Samples.init cols shape geom ip iv =
      if ip = true ∧ iv = false then .error "ValueError"
      else .ok { cols := cols, shape := shape, geom := geom, isPar := ip, isVec := iv } := by
  unfold Samples.init; cases ip <;> cases iv <;> rfl

example : Samples.init [[1, 2]] [2] exGeom true false = .error "ValueError" ∧
    ∃ s, Samples.init [[1, 2]] [2] exGeom false false = .ok s ∧ s.flagsOk = true := ⟨rfl, _, rfl, rfl⟩

/-- the calls that can be made on a Samples object without touching the unvalidated attributes -/
inductive AOp
  | bt (b t : ℤ) | fv | vec | par | sub (i : SubIdx) | setVec (v : Bool)

def AOp.run (s : Samples) : AOp → Except String Samples
  | .bt b t => s.burnthin b t
  | .fv => s.funvals
  | .vec => s.vector
  | .par => s.parameters
  | .sub i => s.subSamples i
  | .setVec v => s.setIsVec v

/-- a history: the calls in order, each on the result of the previous one; the first exception ends it -/
def runOps : Samples → List AOp → Except String Samples
  | s, [] => .ok s
  | s, o :: os => match o.run s with
    | .error e => .error e
    | .ok s' => runOps s' os

lemma init_flagsOk {cols shape geom ip iv s} (h : Samples.init cols shape geom ip iv = .ok s) :
    s.flagsOk = true := by
  rw [init_spec] at h
  split at h
  · cases h
  · rename_i hc
    cases h
    cases ip <;> cases iv <;> simp_all [Samples.flagsOk]

lemma AOp.run_flagsOk (s s' : Samples) (o : AOp) (h0 : s.flagsOk = true) (h : o.run s = .ok s') :
    s'.flagsOk = true := by
  cases o with
  | bt b t =>
    simp only [AOp.run, Samples.burnthin] at h
    split at h
    · cases h
    · split at h
      · cases h
      · cases h; exact h0
  | fv =>
    simp only [AOp.run, Samples.funvals] at h
    split at h
    · cases h; exact h0
    · cases hm : mapE (if s.isPar = true then s.geom.par2fun else s.geom.vec2fun) s.cols with
      | error e => simp [hm, bind, Except.bind] at h
      | ok cs =>
        simp only [hm, bind, Except.bind, pure, Except.pure] at h
        cases h; simp [Samples.flagsOk]
  | vec =>
    simp only [AOp.run, Samples.vector] at h
    split at h
    · cases h; exact h0
    · cases hm : mapE s.geom.fun2vec s.cols with
      | error e => simp [hm, bind, Except.bind] at h
      | ok cs =>
        simp only [hm, bind, Except.bind, pure, Except.pure] at h
        cases h; simp [Samples.flagsOk]
  | par =>
    simp only [AOp.run, Samples.parameters] at h
    split at h
    · cases h; exact h0
    · generalize (if (!s.isVec) = true then s.geom.fun2par else fun v => do
          let f ← s.geom.vec2fun v; s.geom.fun2par f) = conv at h
      cases hm : mapE conv s.cols with
      | error e => simp [hm, bind, Except.bind] at h
      | ok cs =>
        simp only [hm, bind, Except.bind, pure, Except.pure] at h
        cases h; simp [Samples.flagsOk]
  | sub i =>
    simp only [AOp.run, Samples.subSamples] at h
    cases i with
    | num k =>
      simp only at h
      split at h
      · cases h
      · exact init_flagsOk h
    | list ks =>
      simp only at h
      split at h
      · cases h
      · exact init_flagsOk h
  | setVec v =>
    simp only [AOp.run, Samples.setIsVec] at h
    split at h
    · cases h
    · rename_i hc
      cases h
      cases hp : s.isPar <;> cases v <;> simp_all [Samples.flagsOk]

/-- **flagsOk_invariant** — "parameters are in vector form" holds for the object the constructor
    returns (`init_spec`) and after *every* history of `burnthin`, `funvals`, `vector`, `parameters`,
    `_sub_samples` and validated `is_vec` assignments (all arguments, all lengths). -/
theorem flagsOk_invariant (ops : List AOp) (s s' : Samples) (h0 : s.flagsOk = true)
    (h : runOps s ops = .ok s') : s'.flagsOk = true := by
  induction ops generalizing s with
  | nil => simp only [runOps] at h; cases h; exact h0
  | cons o os ih =>
    simp only [runOps] at h
    cases ho : o.run s with
    | error e => rw [ho] at h; cases h
    | ok s₁ =>
      rw [ho] at h
      exact ih s₁ (AOp.run_flagsOk s s₁ o h0 ho) h

example : ∃ s', runOps exS [.sub (.list [-1, 0, 2]), .bt 1 1, .fv, .setVec true] = .ok s' ∧ s'.flagsOk = true :=
  ⟨_, rfl, rfl⟩

/-- **The `is_par` attribute is not validated**: assigning `is_par = True` to function values that
    are not in vector form leaves an object the constructor would have refused; `burnthin` (a shallow
    copy) carries it along, while `_sub_samples` (which goes through the constructor) refuses it. -/
theorem setIsPar_breaks_invariant :
    ∃ s : Samples, s.flagsOk = true ∧ (s.setIsPar true).flagsOk = false ∧
      (∃ r, (s.setIsPar true).burnthin 0 1 = .ok r ∧ r.flagsOk = false) ∧
      (s.setIsPar true).subSamples (.num 0) = .error "ValueError" :=
  ⟨{ exS with isPar := false, isVec := false }, rfl, rfl, ⟨_, rfl, rfl⟩, rfl⟩

/-- in a state the constructor would refuse, `_sub_samples` raises for every index argument -/
theorem subSamples_refuses_of_not_flagsOk (s : Samples) (h : s.flagsOk = false) (i : SubIdx) :
    s.subSamples i = .error "ValueError" ∨ s.subSamples i = .error "IndexError" := by
  have hp : s.isPar = true := by cases hp : s.isPar <;> simp_all [Samples.flagsOk]
  have hv : s.isVec = false := by cases hv : s.isVec <;> simp_all [Samples.flagsOk]
  cases i with
  | num k =>
    simp only [Samples.subSamples]
    split
    · right; rfl
    · left; simp [Samples.init, hp, hv]
  | list ks =>
    simp only [Samples.subSamples]
    split
    · right; rfl
    · left; simp [Samples.init, hp, hv]

example : ({ exS with isVec := false } : Samples).flagsOk = false := rfl

/-! ## 2. `_sub_samples`, `_select_random_indices` -/

/-- **subSamples_list** — `_sub_samples([k₀, k₁, …])` with every `kⱼ ∈ [−Ns, Ns)`: a new object with
    sample `j` = stored sample `kⱼ mod Ns` (negative indices count from the end; repetitions and
    any order allowed), geometry, flags and coordinate shape kept. -/
theorem subSamples_list (s : Samples) (ks : List ℤ) (hf : s.flagsOk = true)
    (hr : ∀ k ∈ ks, -(s.Ns : ℤ) ≤ k ∧ k < s.Ns) :
    s.subSamples (.list ks) =
      .ok { s with cols := ks.map (fun k => s.cols.getD (k % (s.Ns : ℤ)).toNat []) } := by
  simp only [Samples.subSamples, mapM_normIndex_of_inRange s.Ns ks hr, init_spec]
  have : ¬ (s.isPar = true ∧ s.isVec = false) := by
    cases hp : s.isPar <;> cases hv : s.isVec <;> simp_all [Samples.flagsOk]
  rw [if_neg this, List.map_map]
  rfl

example : ∃ r, exS.subSamples (.list [-1, 0, 0, 3]) = .ok r ∧
    r.cols = [[4, 14], [0, 10], [0, 10], [3, 13]] :=
  ⟨_, subSamples_list exS _ rfl (by decide), by decide⟩

/-- **subSamples_refuses_iff** — on an object the constructor accepts, `_sub_samples(list)` raises
    exactly when some index lies outside `[−Ns, Ns)`, and then it is an `IndexError`. -/
theorem subSamples_refuses_iff (s : Samples) (ks : List ℤ) (hf : s.flagsOk = true) :
    ((∃ e, s.subSamples (.list ks) = .error e) ↔ ∃ k ∈ ks, k < -(s.Ns : ℤ) ∨ (s.Ns : ℤ) ≤ k) ∧
    (∀ e, s.subSamples (.list ks) = .error e → e = "IndexError") := by
  by_cases hex : ∃ k ∈ ks, k < -(s.Ns : ℤ) ∨ (s.Ns : ℤ) ≤ k
  · have : s.subSamples (.list ks) = .error "IndexError" := by
      simp only [Samples.subSamples, mapM_normIndex_of_outOfRange s.Ns ks hex]
    rw [this]
    exact ⟨⟨fun _ => hex, fun _ => ⟨_, rfl⟩⟩, fun e he => (Except.error.inj he).symm⟩
  · have hr : ∀ k ∈ ks, -(s.Ns : ℤ) ≤ k ∧ k < s.Ns := by
      intro k hk
      by_contra hc
      exact hex ⟨k, hk, by omega⟩
    rw [subSamples_list s ks hf hr]
    refine ⟨⟨?_, fun h => absurd h hex⟩, ?_⟩
    · rintro ⟨e, he⟩; cases he
    · intro e he; cases he

example : exS.subSamples (.list [0, 5]) = .error "IndexError" := by
  obtain ⟨e, he⟩ := (subSamples_refuses_iff exS [0, 5] rfl).1.mpr ⟨5, by simp, by decide⟩
  rw [he, (subSamples_refuses_iff exS [0, 5] rfl).2 e he]

/-- **A single number is the one-element list** (`[..., np.newaxis]` restores the sample axis). -/
theorem subSamples_num_eq_list (s : Samples) (k : ℤ) :
    s.subSamples (.num k) = s.subSamples (.list [k]) := by
  simp only [Samples.subSamples, List.mapM_cons, List.mapM_nil]
  cases normIndex s.Ns k <;> rfl

/-- **Selecting every index in order returns an equal object** (what `plot()` does when `Ns ≤ 5`). -/
theorem subSamples_all_is_identity (s : Samples) (hf : s.flagsOk = true) :
    s.subSamples (.list ((List.range s.Ns).map (fun (i : ℕ) => (i : ℤ)))) = .ok s := by
  rw [subSamples_list s _ hf (by
    intro k hk
    obtain ⟨i, hi, rfl⟩ := List.mem_map.mp hk
    rw [List.mem_range] at hi
    omega)]
  congr 1
  cases s with
  | mk cols shape geom isPar isVec =>
    simp only [Samples.mk.injEq, and_true, Samples.Ns]
    rw [List.map_map]
    apply List.ext_getElem
    · simp
    · intro i h1 h2
      simp only [List.length_map, List.length_range] at h1
      simp [wrap_natCast cols.length i h1, List.getElem?_eq_getElem h1]

/-- **burnthin is sub-sampling at the indices `b, b+t, b+2t, …`**: for `0 ≤ b < Ns`, `t ≥ 1`
    `burnthin(b, t)` returns the same object as `_sub_samples([b, b+t, …])` with
    `⌈(Ns−b)/t⌉` indices. -/
theorem burnthin_eq_subSamples (s : Samples) (b t : ℕ) (ht : 1 ≤ t) (hb : b < s.Ns)
    (hf : s.flagsOk = true) :
    s.burnthin b t =
      s.subSamples (.list ((List.range ((s.Ns - b + t - 1) / t)).map (fun (i : ℕ) => ((b + i * t : ℕ) : ℤ)))) := by
  have hr : ∀ k ∈ (List.range ((s.Ns - b + t - 1) / t)).map (fun (i : ℕ) => ((b + i * t : ℕ) : ℤ)),
      -(s.Ns : ℤ) ≤ k ∧ k < s.Ns := by
    intro k hk
    obtain ⟨i, hi, rfl⟩ := List.mem_map.mp hk
    rw [List.mem_range] at hi
    have := (lt_ceilDiv_iff _ _ _ ht).mp hi
    omega
  rw [burnthin_ok s b t ht hb, subSamples_list s _ hf hr]
  congr 2
  rw [natSlice_eq_map_range _ _ _ ht [], List.map_map]
  apply List.map_congr_left
  intro i hi
  rw [List.mem_range] at hi
  have := (lt_ceilDiv_iff _ _ _ ht).mp hi
  simp only [Function.comp, Samples.Ns] at *
  rw [wrap_natCast _ _ (by omega)]

example : exS.burnthin 1 2 = exS.subSamples (.list [1, 3]) :=
  burnthin_eq_subSamples exS 1 2 (by norm_num) (by decide) rfl

/-- **selectIndices_spec** — `_select_random_indices(number, total)`: all indices `0 … total−1` when
    `total ≤ number`; otherwise, for any draw `np.random.choice(total, number, replace=False)` may
    return (`number` distinct indices below `total`), the result is strictly increasing, below
    `total`, has `number` entries and is a rearrangement of the draw. -/
theorem selectIndices_spec (number total : ℕ) (draw : List ℕ) :
    (total ≤ number → selectIndices number total draw = List.range total) ∧
    (number < total → validDraw number total draw = true →
      (selectIndices number total draw).Pairwise (· < ·) ∧
      (∀ i ∈ selectIndices number total draw, i < total) ∧
      (selectIndices number total draw).length = number ∧
      (selectIndices number total draw).Perm draw) := by
  refine ⟨fun h => by simp [selectIndices, h], fun h hv => ?_⟩
  have hne : ¬ total ≤ number := by omega
  simp only [selectIndices, if_neg hne]
  simp only [validDraw, Bool.and_eq_true, decide_eq_true_eq, List.all_eq_true] at hv
  obtain ⟨⟨hlen, hlt⟩, hcnt⟩ := hv
  have hperm := List.mergeSort_perm draw (fun a b => decide (a ≤ b))
  have hnd : draw.Nodup := List.nodup_iff_count_le_one.mpr (fun a => by
    by_cases ha : a ∈ draw
    · exact le_of_eq (hcnt a ha)
    · rw [List.count_eq_zero_of_not_mem ha]; omega)
  have hsorted := List.pairwise_mergeSort (le := fun a b : ℕ => decide (a ≤ b))
    (by intro a b c hab hbc; simp only [decide_eq_true_eq] at *; exact le_trans hab hbc)
    (by intro a b; simp only [Bool.or_eq_true, decide_eq_true_eq]; exact le_total a b) draw
  refine ⟨?_, fun i hi => hlt i (hperm.mem_iff.mp hi), by rw [hperm.length_eq, hlen], hperm⟩
  have hnd' : (draw.mergeSort (fun a b => decide (a ≤ b))).Nodup := hperm.nodup_iff.mpr hnd
  exact (hsorted.and hnd').imp (by
    intro a b hab
    simp only [decide_eq_true_eq] at hab
    exact lt_of_le_of_ne hab.1 hab.2)

example : validDraw 5 7 [6, 2, 0, 3, 1] = true ∧ (selectIndices 5 7 [6, 2, 0, 3, 1]).Pairwise (· < ·) :=
  ⟨by decide, ((selectIndices_spec 5 7 [6, 2, 0, 3, 1]).2 (by norm_num) (by decide)).1⟩

/-- **subSamples_selected_is_sublist** — sub-sampling at a strictly increasing list of valid indices
    (what `plot()` does with `_select_random_indices`) returns stored samples in chain order
    without repetition: the result's samples are a sublist of the stored ones; flags, geometry and
    shape are kept. -/
theorem subSamples_selected_is_sublist (s : Samples) (is : List ℕ) (hf : s.flagsOk = true)
    (hp : is.Pairwise (· < ·)) (hlt : ∀ i ∈ is, i < s.Ns) :
    ∃ r, s.subSamples (.list (is.map (fun (i : ℕ) => (i : ℤ)))) = .ok r ∧ r.cols.Sublist s.cols ∧
      r.cols.length = is.length ∧ r.geom = s.geom ∧ r.isPar = s.isPar ∧ r.isVec = s.isVec ∧
      r.shape = s.shape := by
  have hr : ∀ k ∈ is.map (fun (i : ℕ) => (i : ℤ)), -(s.Ns : ℤ) ≤ k ∧ k < s.Ns := by
    intro k hk
    obtain ⟨i, hi, rfl⟩ := List.mem_map.mp hk
    have := hlt i hi
    omega
  refine ⟨_, subSamples_list s _ hf hr, ?_, by simp, rfl, rfl, rfl, rfl⟩
  have : (is.map (fun (i : ℕ) => (i : ℤ))).map (fun k => s.cols.getD (k % (s.Ns : ℤ)).toNat [])
      = is.map (fun i => s.cols.getD i []) := by
    rw [List.map_map]
    apply List.map_congr_left
    intro i hi
    simp only [Function.comp]
    rw [wrap_natCast _ _ (hlt i hi)]
  simp only [this]
  exact map_getD_sublist s.cols [] is hp hlt

example : ∃ r, exS.subSamples (.list [0, 2, 3]) = .ok r ∧ r.cols.Sublist exS.cols :=
  let ⟨r, h1, h2, _⟩ := subSamples_selected_is_sublist exS [0, 2, 3] rfl (by decide) (by decide)
  ⟨r, h1, h2⟩

/-! ## 3. the plotting glue: what reaches `geometry.plot` -/

lemma processIsParKwarg_of_mem {kw : List String} (h : "is_par" ∈ kw) :
    Samples.processIsParKwarg kw = .error "ValueError" := by
  simp [Samples.processIsParKwarg, h]

lemma processIsParKwarg_of_not_mem {kw : List String} (h : "is_par" ∉ kw) :
    Samples.processIsParKwarg kw = .ok () := by
  simp [Samples.processIsParKwarg, h]

/-- **A user-supplied `is_par` keyword is refused by every plotting entry point** (`ValueError`,
    before anything is computed). -/
theorem plot_refuses_user_is_par (s : Samples) (f : List ℚ → ℚ) (p : ℚ) (idx : Option SubIdx)
    (draw : List ℕ) (kw : List String) (h : "is_par" ∈ kw) :
    s.plotStat f kw = .error "ValueError" ∧ s.plotCiWidth p kw = .error "ValueError" ∧
    s.plotArg idx draw kw = .error "ValueError" := by
  simp only [Samples.plotStat, Samples.plotCiWidth, Samples.plotArg, processIsParKwarg_of_mem h,
    bind, Except.bind, and_self]

example : exS.plotStat mean ["color", "is_par"] = .error "ValueError" :=
  (plot_refuses_user_is_par exS mean 95 none [] _ (by simp)).1

/-- **Statistics plots of parameters and of (non-vector) function values** hand the per-coordinate
    statistic itself to `geometry.plot`, together with the object's `is_par` flag. -/
theorem plotStat_parameters_or_funvals (s : Samples) (f : List ℚ → ℚ) (kw : List String)
    (hk : "is_par" ∉ kw) (h : s.isPar = true ∨ s.isVec = false) :
    s.plotStat f kw = .ok (s.stat f, s.isPar) := by
  have hc : (!s.isPar && s.isVec) = false := by rcases h with h | h <;> simp [h]
  simp only [Samples.plotStat, processIsParKwarg_of_not_mem hk, Samples.convertToFunvalsIfNeeded, hc,
    bind, Except.bind, pure, Except.pure, Bool.false_eq_true, if_false]

example : exS.plotStat mean [] = .ok ([2, 12], true) := by
  rw [plotStat_parameters_or_funvals exS mean [] (by simp) (Or.inl rfl)]
  decide +kernel

/-- the function values of vector-form samples under a re-indexing `vec2fun` -/
lemma funvals_gather (s : Samples) (idx : List ℕ) (hp : s.isPar = false) (hv : s.isVec = true)
    (hg : s.geom.vec2fun = (Conv.gather (idx.map some)).apply) :
    s.funvals = .ok { cols := s.cols.map (fun c => idx.map (fun i => c.getD i 0)),
                      shape := s.geom.funShape, geom := s.geom, isPar := false,
                      isVec := decide (s.geom.funShape.length + 1 ≤ 2) } := by
  have hm : mapE (Conv.gather (idx.map some)).apply s.cols
      = .ok (s.cols.map (fun c => idx.map (fun i => c.getD i 0))) := by
    rw [mapE_ok_iff_map]
    simp [Conv.apply, List.map_map, Function.comp_def]
  simp [Samples.funvals, hp, hv, hg, hm, bind, Except.bind, pure, Except.pure]

/-- **plotStat_vector_form_is_stat_of_funvals** — "statistics of function-value samples are those of
    the converted samples" at the plotting glue: for vector-form function values under a geometry
    whose `vec2fun` re-indexes the entries (reshape / ravel in C or Fortran order — every geometry
    shipped in `cuqi.geometry`), what `plot_mean / plot_median / plot_variance / …` hand to
    `geometry.plot` (the statistic of the stored vectors, converted by `vec2fun`) *is* the
    per-coordinate statistic of `S.funvals` — for every statistic `f`, every size. -/
theorem plotStat_vector_form_is_stat_of_funvals (s : Samples) (f : List ℚ → ℚ) (kw : List String)
    (idx : List ℕ) (hk : "is_par" ∉ kw) (hp : s.isPar = false) (hv : s.isVec = true)
    (hg : s.geom.vec2fun = (Conv.gather (idx.map some)).apply)
    (hidx : ∀ i ∈ idx, i < s.dim) (hshape : s.geom.funShape.foldl (· * ·) 1 = idx.length) :
    ∃ fv, s.funvals = .ok fv ∧ s.plotStat f kw = .ok (fv.stat f, false) := by
  refine ⟨_, funvals_gather s idx hp hv hg, ?_⟩
  have hconv : ∀ v : List ℚ, s.convertToFunvalsIfNeeded v = .ok (idx.map (fun i => v.getD i 0)) := by
    intro v
    simp [Samples.convertToFunvalsIfNeeded, hp, hv, hg, Conv.apply, List.map_map, Function.comp_def]
  simp only [Samples.plotStat, processIsParKwarg_of_not_mem hk, hconv, bind, Except.bind, pure,
    Except.pure, hp]
  congr 2
  simp only [Samples.stat, Samples.dim, hshape]
  apply List.ext_getElem
  · simp
  · intro k h1 h2
    simp only [List.length_map] at h1
    have hik : idx[k] < s.dim := hidx _ (List.getElem_mem h1)
    have hik' : idx[k] < List.foldl (· * ·) 1 s.shape := hik
    simp only [List.getElem_map, List.getElem_range, Samples.chain, List.map_map,
      List.getD_eq_getElem?_getD, List.getElem?_map, List.getElem?_range hik', Option.map_some,
      Option.getD_some]
    congr 1
    apply List.map_congr_left
    intro c _
    simp [List.getElem?_eq_getElem h1]

/-- vector-form function values under an `Image2D((1,2), order="F")`-like geometry: `vec2fun` swaps the two entries -/
def exVecS : Samples :=
  { cols := [[0, 10], [1, 11], [2, 12]], shape := [2],
    geom := { tag := "exF", parDim := 2, funShape := [2], funvecDim := 2, varNames := ["v0", "v1"],
              par2fun := .ok, fun2par := .ok, fun2vec := .ok, vec2fun := (Conv.gather ([1, 0].map some)).apply },
    isPar := false, isVec := true }

example : ∃ fv, exVecS.funvals = .ok fv ∧ exVecS.plotStat mean [] = .ok (fv.stat mean, false) :=
  plotStat_vector_form_is_stat_of_funvals exVecS mean [] [1, 0] (by simp) rfl rfl rfl (by decide) rfl

/-- **plotArg_vector_form_is_funvals_of_selection** — `plot(sample_indices)` on vector-form function
    values hands `geometry.plot` the function values (`vec2fun`, sample by sample) of exactly the
    selected stored samples, in the order asked for (negative indices from the end), with
    `is_par=False`; the call raises iff the selection or a conversion does. -/
theorem plotArg_vector_form_is_funvals_of_selection (s : Samples) (ks : List ℤ) (draw : List ℕ)
    (kw : List String) (hk : "is_par" ∉ kw) (hp : s.isPar = false) (hv : s.isVec = true)
    (hr : ∀ k ∈ ks, -(s.Ns : ℤ) ≤ k ∧ k < s.Ns) :
    s.plotArg (some (.list ks)) draw kw =
      (mapE s.geom.vec2fun (ks.map (fun k => s.cols.getD (k % (s.Ns : ℤ)).toNat []))).map
        (fun cs => (cs, false)) := by
  have hf : s.flagsOk = true := by simp [Samples.flagsOk, hp]
  simp only [Samples.plotArg, processIsParKwarg_of_not_mem hk, subSamples_list s ks hf hr, hp, hv,
    Samples.funvals, bind, Except.bind, pure, Except.pure, Bool.false_eq_true, if_false]
  cases mapE s.geom.vec2fun (ks.map (fun k => s.cols.getD (k % (s.Ns : ℤ)).toNat [])) <;> rfl

example : ({ exS with isPar := false } : Samples).plotArg (some (.list [-1, 0])) [] []
    = .ok ([[4, 14], [0, 10]], false) := by
  rw [plotArg_vector_form_is_funvals_of_selection _ _ _ _ (by simp) rfl rfl (by decide)]
  rfl

/-! ## 4. diagnostics: integer variable indices, `compute_rhat` argument forms and broadcasting -/

/-- **toArvizI_wrap** — `to_arviz_inferencedata([k₀, k₁, …])` with python integers in `[−dim, dim)` on
    an object with as many variable names as rows: the same dictionary as with the wrapped
    indices `kⱼ mod dim` (so `-1` is the last variable *with the last variable's chain*). -/
theorem toArvizI_wrap (s : Samples) (ks : List ℤ) (hn : s.geom.varNames.length = s.dim)
    (hr : ∀ k ∈ ks, -(s.dim : ℤ) ≤ k ∧ k < s.dim) :
    s.toArvizI (some ks) = s.toArviz (some (ks.map (fun k => (k % (s.dim : ℤ)).toNat))) := by
  unfold Samples.toArvizI Samples.toArviz
  cases hv : s.isVec
  · rfl
  · simp only [Bool.not_true, Bool.false_eq_true, if_false, hn, mapM_normIndex_of_inRange s.dim ks hr,
      Option.getD_some]
    have h1 : (ks.map (fun k => (k % (s.dim : ℤ)).toNat)).any (fun i => decide (i ≥ s.dim)) = false := by
      rw [List.any_eq_false]
      intro i hi
      obtain ⟨k, hk, rfl⟩ := List.mem_map.mp hi
      have := wrap_lt s.dim k (hr k hk).1 (hr k hk).2
      simp; omega
    simp [h1]

example : exS.toArvizI (some [-1, 0]) = .ok [("v1", [10, 11, 12, 13, 14]), ("v0", [0, 1, 2, 3, 4])] := by
  rw [toArvizI_wrap exS _ rfl (by decide)]; decide

/-- **toArvizI_refuses** — an index outside `[−#names, #names)` or outside `[−rows, rows)` ⇒
    `IndexError` (vector-form samples). -/
theorem toArvizI_refuses (s : Samples) (ks : List ℤ) (hv : s.isVec = true)
    (h : (∃ k ∈ ks, k < -(s.geom.varNames.length : ℤ) ∨ (s.geom.varNames.length : ℤ) ≤ k) ∨
         (∃ k ∈ ks, k < -(s.dim : ℤ) ∨ (s.dim : ℤ) ≤ k)) :
    s.toArvizI (some ks) = .error "IndexError" := by
  unfold Samples.toArvizI
  simp only [hv, Bool.not_true, Bool.false_eq_true, if_false]
  rcases h with h | h
  · rw [mapM_normIndex_of_outOfRange _ ks h]
  · rw [mapM_normIndex_of_outOfRange s.dim ks h]
    cases ks.mapM (normIndex s.geom.varNames.length) <;> rfl

example : exS.toArvizI (some [2]) = .error "IndexError" :=
  toArvizI_refuses exS [2] rfl (Or.inr ⟨2, by simp, by decide⟩)

/-- **numpy assignment broadcasting of a 2-D chain array** `(r, n)` into the slot `(d, N)`: accepted
    iff `r ∈ {d, 1}` and `n ∈ {N, 1}`. -/
theorem broadcastsTo_two_axes (r n d N : ℕ) :
    broadcastsTo [r, n] d N = true ↔ (r = d ∨ r = 1) ∧ (n = N ∨ n = 1) := by
  have hs : stripLeadingOnes [r, n] = [r, n] := by
    unfold stripLeadingOnes
    split
    · rename_i rest heq
      have : rest = [n] := (List.cons.inj heq).2.symm
      subst this
      simp [(List.cons.inj heq).1]
    · rfl
  simp [broadcastsTo, hs]

example : broadcastsTo [3, 1] 3 4 = true ∧ broadcastsTo [3, 2] 3 4 = false := by decide

/-- **rhatInputB_eq_rhatInput** — for chains of the same coordinate shape and the same number of
    draws as `self` (the situation the property speaks about) numpy's broadcasting is the identity:
    the refined model of `compute_rhat` agrees with `rhatInput`, refusals included.  Hence every
    theorem about `rhatInput` (`rhatInput_each_variable…`) holds for `rhatInputB`. -/
theorem rhatInputB_eq_rhatInput (s : Samples) (chains : List Samples)
    (hch : ∀ c ∈ chains, c.shape = s.shape ∧ c.Ns = s.Ns) :
    s.rhatInputB chains = s.rhatInput chains := by
  unfold Samples.rhatInputB Samples.rhatInput
  split
  · rfl
  · split
    · rfl
    · rename_i _ hsh
      have hsh1 : s.shape.length = 1 := by simpa using hsh
      obtain ⟨r, hr⟩ : ∃ r, s.shape = [r] := by
        match hs : s.shape, hsh1 with
        | [r], _ => exact ⟨r, rfl⟩
      have hdim : s.dim = r := by simp [Samples.dim, hr]
      have h3 : chains.any (fun c => c.shape != s.shape || c.Ns != s.Ns) = false := by
        rw [List.any_eq_false]; intro c hc; simp [(hch c hc).1, (hch c hc).2]
      have h4 : chains.any (fun c => !broadcastsTo c.fullShape s.dim s.Ns) = false := by
        rw [List.any_eq_false]
        intro c hc
        have : broadcastsTo c.fullShape s.dim s.Ns = true := by
          rw [Samples.fullShape, (hch c hc).1, (hch c hc).2, hr, hdim]
          exact (broadcastsTo_two_axes r s.Ns r s.Ns).mpr ⟨Or.inl rfl, Or.inl rfl⟩
        simp [this]
      simp only [h3, h4, Bool.false_eq_true, if_false]
      have hrows : (List.range s.dim).map (fun k => s.chain k :: chains.map (fun c => c.bchain s.dim s.Ns k))
          = (List.range s.dim).map (fun k => s.chain k :: chains.map (fun c => c.chain k)) := by
        apply List.map_congr_left
        intro k _
        congr 1
        apply List.map_congr_left
        intro c hc
        have hcd : c.dim = s.dim := by simp [Samples.dim, (hch c hc).1]
        have hcn : c.cols.length = s.Ns := (hch c hc).2
        simp only [Samples.bchain, Samples.chain, (hch c hc).2, hcd, if_true]
        apply List.ext_getElem
        · simp [hcn]
        · intro i h1 h2
          simp only [List.length_map] at h2
          simp [List.getElem?_eq_getElem h2]
      rw [hrows]

/-- **rhatInputA_forms** — a single `Samples` argument is the one-element list; anything that is not
    a list (tuple, generator, dict, `None`) ⇒ `TypeError`. -/
theorem rhatInputA_forms (s c : Samples) (cs : List Samples) :
    s.rhatInputA (.single c) = s.rhatInputA (.list [c]) ∧
    s.rhatInputA (.list cs) = s.rhatInputB cs ∧
    s.rhatInputA .other = .error "TypeError" := ⟨rfl, rfl, rfl⟩

/-- **R-hat for every accepted argument form, numpy broadcasting included** (no `_partial`): for a
    geometry with default variable names and `par_dim` rows, chains of the same geometry, shape and
    number of draws — passed as a list or as a single object — item `k` handed to `arviz.rhat` is
    (name `k`, the chains of coordinate `k`, `self` first), entry `k` of the result is written
    from item `k`. -/
theorem rhat_each_variable_all_forms (s : Samples) (chains : List Samples) (name : String)
    (hgeom : ∀ c ∈ chains, c.geom.tag = s.geom.tag) (hsh : s.shape.length = 1)
    (hch : ∀ c ∈ chains, c.shape = s.shape ∧ c.Ns = s.Ns)
    (hnames : s.geom.varNames = defaultNames name s.geom.parDim)
    (hd : s.geometryDim = s.dim) (hlen : s.dim ≤ s.geom.parDim) :
    s.rhatInputA (.list chains) = .ok
      ((List.range s.dim).map (fun k => (s.geom.varNames.getD k "", s.chain k :: chains.map (fun c => c.chain k))),
       (List.range s.dim).map some) ∧
    (∀ c, chains = [c] → s.rhatInputA (.single c) = s.rhatInputA (.list chains)) := by
  refine ⟨?_, fun c hc => by rw [hc]; rfl⟩
  show s.rhatInputB chains = _
  rw [rhatInputB_eq_rhatInput s chains hch]
  exact rhatInput_each_variable s chains name hgeom hsh hch hnames hd hlen

example : ∃ d, exS.rhatInputA (.single exS) = .ok (d, [some 0, some 1]) := by
  have h := rhat_each_variable_all_forms exS [exS] "v" (by simp) (by decide) (by simp) rfl (by decide) (by decide)
  exact ⟨_, (h.2 exS rfl).trans h.1⟩

/-- a chain holding ONE draw of two variables, same geometry as `exS` -/
def exOneDraw : Samples := { exS with cols := [[7, 8]] }

/-- **Observation pinned as a theorem (outside the property's domain: the chains of an R-hat must
    have equally many draws)**: `compute_rhat` does not compare the numbers of draws; a chain with a
    single draw is broadcast by numpy, arviz receives that draw repeated `Ns` times — not a stored
    chain. -/
theorem rhatInputB_broadcast_counterexample :
    exS.rhatInputB [exOneDraw] = .ok
      ([("v0", [[0, 1, 2, 3, 4], [7, 7, 7, 7, 7]]), ("v1", [[10, 11, 12, 13, 14], [8, 8, 8, 8, 8]])],
       [some 0, some 1]) ∧ exS.rhatInput [exOneDraw] = .error "ValueError" := by
  constructor <;> decide

/-- **converted_geometryDim** — the objects `vector` and `parameters` create have as many rows as their
    `_geometry_dim` (the hypothesis `geometryDim = dim` of the ESS / R-hat theorems), are in vector
    form and keep the geometry. -/
theorem converted_geometryDim (s r : Samples) :
    (s.isPar = false → s.isVec = false → s.vector = .ok r →
      r.geometryDim = r.dim ∧ r.isVec = true ∧ r.isPar = false ∧ r.geom = s.geom ∧ r.shape.length = 1) ∧
    (s.isPar = false → s.parameters = .ok r →
      r.geometryDim = r.dim ∧ r.isVec = true ∧ r.isPar = true ∧ r.geom = s.geom ∧ r.shape.length = 1 ∧
      r.dim = r.geom.parDim) := by
  constructor
  · intro hp hv h
    simp only [Samples.vector, hp, hv, Bool.or_self, Bool.false_eq_true, if_false] at h
    cases hm : mapE s.geom.fun2vec s.cols with
    | error e => simp [hm, bind, Except.bind] at h
    | ok cs =>
      simp only [hm, bind, Except.bind, pure, Except.pure] at h
      cases h
      simp [Samples.geometryDim, Samples.dim]
  · intro hp h
    simp only [Samples.parameters, hp, Bool.false_eq_true, if_false] at h
    generalize (if (!s.isVec) = true then s.geom.fun2par else fun v => do
        let f ← s.geom.vec2fun v; s.geom.fun2par f) = conv at h
    cases hm : mapE conv s.cols with
    | error e => simp [hm, bind, Except.bind] at h
    | ok cs =>
      simp only [hm, bind, Except.bind, pure, Except.pure] at h
      cases h
      simp [Samples.geometryDim, Samples.dim]

/-- **ess_rhat_after_parameters** — function-value samples converted back by `parameters` (any
    geometry with default variable names, any `fun2par`): `compute_ess` and `compute_rhat` (chains
    obtained the same way, equally many draws) hand every variable's chain(s) to arviz under its own
    name, in order.  No hypothesis on the converted object is left. -/
theorem ess_rhat_after_parameters (s r : Samples) (chains : List Samples) (name : String)
    (hp : s.isPar = false) (h : s.parameters = .ok r)
    (hnames : s.geom.varNames = defaultNames name s.geom.parDim)
    (hgeom : ∀ c ∈ chains, c.geom.tag = s.geom.tag)
    (hch : ∀ c ∈ chains, c.shape = r.shape ∧ c.Ns = r.Ns) :
    r.essInput = .ok ((List.range r.dim).map (fun k => (r.geom.varNames.getD k "", r.chain k))) ∧
    r.rhatInputA (.list chains) = .ok
      ((List.range r.dim).map (fun k => (r.geom.varNames.getD k "", r.chain k :: chains.map (fun c => c.chain k))),
       (List.range r.dim).map some) := by
  obtain ⟨hd, hv, hrp, hg, hsh, hdim⟩ := (converted_geometryDim s r).2 hp h
  have hn : r.geom.varNames = defaultNames name r.geom.parDim := by rw [hg]; exact hnames
  have hgeom' : ∀ c ∈ chains, c.geom.tag = r.geom.tag := by rw [hg]; exact hgeom
  have := ess_rhat_parameters_default_names r chains name hrp hv hdim hn hgeom' hsh hch
  refine ⟨this.1, ?_⟩
  show r.rhatInputB chains = _
  rw [rhatInputB_eq_rhatInput r chains hch]
  exact this.2

example : ∃ r, ({ exS with isPar := false } : Samples).parameters = .ok r ∧
    r.cols = [[-1/2, 9/2], [0, 5], [1/2, 11/2], [1, 6], [3/2, 13/2]] :=
  ⟨_, rfl, by norm_num [exS, exGeom]⟩

end CuqiVerif.C19
