import CuqiVerif.Model.C06
import CuqiVerif.Proofs.C06
import Mathlib.Algebra.Order.Field.Basic
import Mathlib.Tactic.Positivity
import Mathlib.Tactic.NormNum
import Mathlib.Tactic.IntervalCases

/-!
# C06 — property theorems

Vocabulary (all executable definitions of `Model/C06.lean`, here over an arbitrary field `K`; the
driver runs `K = ℚ`):  `Mfwd P` / `Madj P` are the two actions `M(·,1)` / `M(·,2)` of the stacked
operator `LinearRTO` hands to CGLS, `bTilde P` its right-hand side, `Mmat` the matrix of the
(dead) matrix branch; `gram N M = MᵀM`, `mulVec`, `tmulVec`, `mul`, `tr`, `dot`, `quad` the
obvious operations on the leading block of the given sizes.  `IsInv n H C` is the certificate the
driver checks on the inverse it uses, `NormalEq N n M y x` says `MᵀM x = Mᵀ y` — what "the inner
solver has converged" means (`cgls_residual_invariant`, `cgls_converged_normalEq`).
-/
open Finset Matrix

set_option linter.unusedSectionVars false
set_option linter.unusedVariables false

namespace CuqiVerif.C06

variable {K : Type} [Field K]

/-! ## 1. one converged step is an affine function of the normal draw -/

/-- **rto_affine.**  If the step's result `x` solves the normal equations for the perturbed
    right-hand side `b̃ + e` and `C` is the (certified) inverse of `MᵀM`, then
    `x = m + B e` with offset `m = C Mᵀ b̃` and linear part `B = C Mᵀ` — for every size, every `e`. -/
theorem rto_affine (N n : ℕ) (M C : Mat K) (b e x : Vec K)
    (hC : IsInv n (gram N M) C) (hx : NormalEq N n M (fun i => b i + e i) x) :
    ∀ j, j < n → x j = mulVec n C (tmulVec N M b) j + mulVec N (mul n C (tr M)) e j := by
  rw [toV_ext_iff, toV_add, toV_mulVec n n, toV_tmulVec, toV_mulVec n N, toM_mul n n N, toM_tr]
  rw [isInv_iff, toM_gram] at hC
  rw [normalEq_iff] at hx
  exact mat_affine _ _ _ _ _ hC.2 hx

/-- **rto_cov.**  The linear part reproduces the covariance: `B Bᵀ = (MᵀM)⁻¹`. -/
theorem rto_cov (N n : ℕ) (M C : Mat K) (hC : IsInv n (gram N M) C) :
    ∀ i j, i < n → j < n → mul N (mul n C (tr M)) (tr (mul n C (tr M))) i j = C i j := by
  rw [toM_ext_iff, toM_mul n N n, toM_tr n N, toM_mul n n N, toM_tr]
  rw [isInv_iff, toM_gram] at hC
  exact mat_cov _ _ hC.1 hC.2

/-- **step_independent_of_state.**  Two converged results for the same perturbed right-hand side —
    from whatever current states the solver was started — coincide: the current state does not
    enter the draw. -/
theorem step_independent_of_state (N n : ℕ) (M C : Mat K) (y x x' : Vec K)
    (hC : IsInv n (gram N M) C) (hx : NormalEq N n M y x) (hx' : NormalEq N n M y x') :
    ∀ j, j < n → x j = x' j := by
  rw [toV_ext_iff]
  rw [isInv_iff, toM_gram] at hC
  rw [normalEq_iff] at hx hx'
  exact mat_unique _ _ _ _ _ hC.2 hx hx'

/-- **lsq_complete_square.**  With `m` the solution of the unperturbed normal equations,
    `|M x − b̃|² = (x−m)ᵀ (MᵀM) (x−m) + |M m − b̃|²` for every `x`. -/
theorem lsq_complete_square (N n : ℕ) (M : Mat K) (b m x : Vec K) (hm : NormalEq N n M b m) :
    sumTo N (fun i => (mulVec n M x i - b i) ^ 2)
      = quad n (gram N M) (fun j => x j - m j) + sumTo N (fun i => (mulVec n M m i - b i) ^ 2) := by
  have sq : ∀ v : Vec K, sumTo N (fun i => (v i) ^ 2) = toV N v ⬝ᵥ toV N v := by
    intro v; rw [← dot_eq]; exact sumTo_congr _ _ _ fun i _ => by ring
  rw [sq (fun i => mulVec n M x i - b i), sq (fun i => mulVec n M m i - b i)]
  unfold quad
  rw [dot_eq, toV_mulVec n n, toM_gram, toV_sub, toV_sub, toV_sub, toV_mulVec, toV_mulVec]
  rw [normalEq_iff] at hm
  exact mat_complete_square _ _ _ _ hm

example : NormalEq 2 1 (fun i _ => if i = 0 then (1 : ℚ) else 2) (fun i => if i = 0 then 1 else 2) (fun _ => 1) := by
  intro j hj
  obtain rfl : j = 0 := by omega
  norm_num [mulVec, gram, tmulVec, sumTo]

example : IsInv 1 (gram 2 (fun i _ => if i = 0 then (1 : ℚ) else 2)) (fun _ _ => 1 / 5) := by
  intro i j hi hj
  obtain rfl : i = 0 := by omega
  obtain rfl : j = 0 := by omega
  norm_num [mul, gram, ident, sumTo]

/-! ## 2. the stacked operator -/

/-- **M_adjoint.**  Flag 2 is the exact adjoint of flag 1 for the stacked operator of any number of
    likelihoods, provided each model's `adjoint` is the adjoint of its `forward` (C07):
    `⟨M(x,1), y⟩ = ⟨x, M(y,2)⟩` for all `x`, `y` — including the per-likelihood slicing of `y` by
    the running index. -/
theorem M_adjoint (P : Problem K)
    (hadj : ∀ l ∈ P.liks, ∀ u v : Vec K, dot l.m (l.fwd u) v = dot P.n u (l.adj v)) (x y : Vec K) :
    dot (rowsM P) (Mfwd P x) y = dot P.n x (Madj P y) :=
  adjoint_stack P hadj x y

/-- **M_adjoint, matrix-backed models.**  For models backed by matrices the function branch acts as
    the stacked matrix `vstack(Lᵢ Aᵢ, L₂)` of the matrix branch, and flag 2 as its exact transpose. -/
theorem M_adjoint_matrix (n : ℕ) (ls : List (MatLik K)) (pr : Prior K) (x y : Vec K) :
    (∀ i, Mfwd (problemOf n ls pr) x i = mulVec n (Mmat ls pr) x i) ∧
    (∀ j, j < n → Madj (problemOf n ls pr) y j = tmulVec (rowsM (problemOf n ls pr)) (Mmat ls pr) y j) :=
  ⟨Mfwd_eq_mulVec n ls pr x, fun j hj => Madj_eq_tmulVec n ls pr y j hj⟩

/-- a concrete two-likelihood problem (used as non-vacuity witness) -/
def exLs : List (MatLik ℚ) :=
  [{ m := 2, L := fun i j => if i = j then 2 else 0, A := fun i j => (i + 2 * j : ℕ), d := fun i => (i : ℕ) },
   { m := 1, L := fun _ _ => 1 / 2, A := fun _ j => (j : ℕ) + 1, d := fun _ => 3 }]
def exPr : Prior ℚ := gaussPrior 2 (fun i j => if i = j then 1 / 2 else 0) 1 (fun _ => 1)

example : rowsM (problemOf 2 exLs exPr) = 5 := by decide
example : Mfwd (problemOf 2 exLs exPr) (fun j => (j : ℕ) + 1) 1 = 14 := by
  norm_num [Mfwd, problemOf, exLs, exPr, MatLik.toLik, gaussPrior, hcat, mulVec, sumTo]

/-! ## 3. the least-squares objective is `−2 log posterior`; `m`, `(MᵀM)⁻¹` are the posterior moments -/

/-- `−2 log` of the un-normalised posterior density with likelihood precisions `Lam l`, prior
    precision `Pm` and prior mean `mu`:  `Σ (Aᵢx−dᵢ)ᵀ Λᵢ (Aᵢx−dᵢ) + (x−μ)ᵀ P (x−μ)`. -/
def neg2logpost (n : ℕ) (liks : List (Lik K)) (Lam : Lik K → Mat K) (Pm : Mat K) (mu : Vec K) (x : Vec K) : K :=
  (liks.map fun l => quad l.m (Lam l) (fun i => l.fwd x i - l.d i)).sum + quad n Pm (fun j => x j - mu j)

lemma quad_congr (n : ℕ) (P P' : Mat K) (v : Vec K) (h : ∀ i j, i < n → j < n → P i j = P' i j) :
    quad n P v = quad n P' v := by
  unfold quad
  refine dot_congr _ _ _ _ _ (fun _ _ => rfl) fun i hi => ?_
  exact sumTo_congr _ _ _ fun j hj => by rw [h i j hi hj]

/-- **rto_objective_is_posterior.**  For any number of likelihoods: if every factor is a square
    root of its precision (`LᵢᵀLᵢ = Λᵢ`, `L₂ᵀL₂ = P` — the relation the harness certifies on the
    factors the implementation hands over) and `sqrtprecTimesMean = L₂ μ`, then the least-squares
    objective of the stacked system is exactly `−2 log posterior`. -/
theorem rto_objective_is_posterior (P : Problem K) (Lam : Lik K → Mat K) (Pm : Mat K) (mu : Vec K)
    (hL : ∀ l ∈ P.liks, ∀ i j, i < l.m → j < l.m → Lam l i j = gram l.m l.L i j)
    (hP : ∀ i j, i < P.n → j < P.n → Pm i j = gram P.prior.p P.prior.L2 i j)
    (hmu : ∀ i, i < P.prior.p → P.prior.L2mu i = mulVec P.n P.prior.L2 mu i) (x : Vec K) :
    sumTo (rowsM P) (fun i => (Mfwd P x i - bTilde P i) ^ 2) = neg2logpost P.n P.liks Lam Pm mu x := by
  rw [rowsM_eq, Mfwd_eq, bTilde_eq, resid_sq_aux]
  unfold neg2logpost
  congr 1
  · -- likelihood blocks
    have : ∀ l ∈ P.liks, likSq x l = quad l.m (Lam l) (fun i => l.fwd x i - l.d i) := by
      intro l hl
      rw [quad_congr _ _ _ _ (hL l hl), ← sq_mulVec_eq_quad]
      exact sumTo_congr _ _ _ fun i _ => by rw [mulVec_sub_right]
    exact congrArg List.sum (List.map_congr_left this)
  · rw [quad_congr _ _ _ _ hP, ← sq_mulVec_eq_quad_rect]
    exact sumTo_congr _ _ _ fun i hi => by rw [mulVec_sub_right, hmu i hi]

/-- **posterior_complete_square.**  Matrix-backed models, any number of likelihoods: with `m` the
    offset of the draw (`MᵀM m = Mᵀ b̃`),
    `−2 log posterior(x) = (x−m)ᵀ (MᵀM) (x−m) − 2 log posterior(m)` for every `x`:
    the posterior is the Gaussian with mean `m` and precision `MᵀM`; together with `rto_affine`
    and `rto_cov` a converged step `m + B e`, `e ~ N(0, I)`, is an exact posterior draw. -/
theorem posterior_complete_square (n : ℕ) (ls : List (MatLik K)) (pr : Prior K)
    (Lam : Lik K → Mat K) (Pm : Mat K) (mu : Vec K)
    (hL : ∀ l ∈ (problemOf n ls pr).liks, ∀ i j, i < l.m → j < l.m → Lam l i j = gram l.m l.L i j)
    (hP : ∀ i j, i < n → j < n → Pm i j = gram pr.p pr.L2 i j)
    (hmu : ∀ i, i < pr.p → pr.L2mu i = mulVec n pr.L2 mu i)
    (m : Vec K) (hm : NormalEq (rowsM (problemOf n ls pr)) n (Mmat ls pr) (bTilde (problemOf n ls pr)) m)
    (x : Vec K) :
    neg2logpost n (problemOf n ls pr).liks Lam Pm mu x
      = quad n (gram (rowsM (problemOf n ls pr)) (Mmat ls pr)) (fun j => x j - m j)
        + neg2logpost n (problemOf n ls pr).liks Lam Pm mu m := by
  have h : ∀ x : Vec K, sumTo (rowsM (problemOf n ls pr))
        (fun i => (Mfwd (problemOf n ls pr) x i - bTilde (problemOf n ls pr) i) ^ 2)
      = neg2logpost n (problemOf n ls pr).liks Lam Pm mu x :=
    rto_objective_is_posterior (problemOf n ls pr) Lam Pm mu hL hP hmu
  rw [← h x, ← h m]
  simp only [Mfwd_eq_mulVec]
  exact lsq_complete_square _ _ _ _ _ _ hm

/-- **posterior_mean_is_mode.**  Over an ordered field the offset `m` maximises the posterior
    density (minimises `−2 log posterior`). -/
theorem posterior_mean_is_mode {F : Type} [Field F] [LinearOrder F] [IsStrictOrderedRing F]
    (n : ℕ) (ls : List (MatLik F)) (pr : Prior F)
    (Lam : Lik F → Mat F) (Pm : Mat F) (mu : Vec F)
    (hL : ∀ l ∈ (problemOf n ls pr).liks, ∀ i j, i < l.m → j < l.m → Lam l i j = gram l.m l.L i j)
    (hP : ∀ i j, i < n → j < n → Pm i j = gram pr.p pr.L2 i j)
    (hmu : ∀ i, i < pr.p → pr.L2mu i = mulVec n pr.L2 mu i)
    (m : Vec F) (hm : NormalEq (rowsM (problemOf n ls pr)) n (Mmat ls pr) (bTilde (problemOf n ls pr)) m)
    (x : Vec F) :
    neg2logpost n (problemOf n ls pr).liks Lam Pm mu m ≤ neg2logpost n (problemOf n ls pr).liks Lam Pm mu x := by
  rw [posterior_complete_square n ls pr Lam Pm mu hL hP hmu m hm x]
  have : 0 ≤ quad n (gram (rowsM (problemOf n ls pr)) (Mmat ls pr)) (fun j => x j - m j) := by
    rw [← sq_mulVec_eq_quad_rect, sumTo_eq_sum]
    exact Finset.sum_nonneg fun i _ => sq_nonneg _
  linarith

/-! ## 4. input forms -/

/-- **tuple_form_eq_posterior_form.**  The legacy 5-tuple `(data, model, L_sqrtprec, P_mean,
    P_sqrtprec)` is the one-likelihood posterior form with `sqrtprec`-specified Gaussians. -/
theorem tuple_form_eq_posterior_form (n m : ℕ) (d : Vec K) (A L : Mat K) (ml : ℕ) (mu : Vec K) (L2 : Mat K) :
    problemOf n (ofTuple n m d A L ml mu L2).1 (ofTuple n m d A L ml mu L2).2
      = { n := n, liks := [MatLik.toLik n { m := m, L := L, A := A, d := d }],
          prior := gaussPrior n L2 ml mu } := rfl

/-- **gaussPrior_timesMean.**  `Gaussian.sqrtprecTimesMean` is `L₂ μ` for the mean the prior stands
    for (a length-1 mean is broadcast) — the hypothesis `hmu` of the theorems above. -/
theorem gaussPrior_timesMean (n : ℕ) (L2 : Mat K) (ml : ℕ) (mean : Vec K) (i : ℕ) :
    (gaussPrior n L2 ml mean).L2mu i = mulVec n (gaussPrior n L2 ml mean).L2 (gaussMean ml mean) i := by
  unfold gaussPrior gaussSqrtprecTimesMean gaussMean
  rfl

/-- **specMat_code_eq_doc.**  What the code takes a specification to mean is the documented
    matrix for every kind and shape except a full `sqrtcov` matrix … -/
theorem specMat_code_eq_doc (n : ℕ) (k : Kind) (sh : Shape K)
    (h : k ≠ .sqrtcov ∨ (∀ A, sh ≠ .matrix A)) : specMat true n k sh = specMat false n k sh := by
  cases sh with
  | scalar c => rfl
  | vector v => rfl
  | matrix A =>
    cases k with
    | sqrtcov => rcases h with h | h; exact absurd rfl h; exact absurd rfl (h A)
    | cov => rfl
    | prec => rfl
    | sqrtprec => rfl

/-- … and for a full `sqrtcov` matrix that is symmetric (entries inside the shape). -/
theorem specMat_sqrtcov_symmetric (n : ℕ) (A : Mat K) (hs : ∀ i j, A i j = A j i) (i j : ℕ) :
    specMat true n .sqrtcov (.matrix A) i j = specMat false n .sqrtcov (.matrix A) i j := by
  show sumTo n (fun l => A i l * A j l) = sumTo n (fun l => A l i * A l j)
  refine sumTo_congr _ _ _ fun l _ => ?_
  rw [hs i l, hs j l]

/-- **Negative result (known finding `*sqrtcov-full-nonsym*`).**  For the non-symmetric
    `sqrtcov = [[1,2],[0,1]]` the code's covariance `S Sᵀ` has `(0,0)` entry 5, the documented
    `Sᵀ S` has 1. -/
theorem sqrtcov_code_ne_doc_counterexample :
    specMat true 2 .sqrtcov (.matrix (fun i j => if i = 0 ∧ j = 1 then (2 : ℚ) else if i = j then 1 else 0)) 0 0 = 5 ∧
    specMat false 2 .sqrtcov (.matrix (fun i j => if i = 0 ∧ j = 1 then (2 : ℚ) else if i = j then 1 else 0)) 0 0 = 1 := by
  constructor <;> norm_num [specMat, mul, tr, sumTo]

/-! ## 5. UGLA -/

/-- **ugla_step_is_local_gaussian_partial.**  Under the hypothesis the code forces — the location
    is annihilated by the difference operator (`D·location = 0`: zero location, or a constant one
    with Neumann/periodic boundary) — the least-squares objective UGLA solves at the state `x_k` is
    `−2 log` of the documented local Gaussian approximation
    `N(A x; d, Λ⁻¹) · N(x; location, (scale⁻¹ Dᵀ W(x_k) D)⁻¹)`, where `s² = 1/scale` and the documented
    weights are the squares of the code's leaf weights.  With `rto_affine`/`rto_cov` (applied to
    `Ugla.Mmat`) the converged step is then an exact draw from that approximation. -/
theorem ugla_step_is_local_gaussian_partial (U : Ugla K) (invScale : K) (wdoc : Vec K)
    (hs : U.s * U.s = invScale) (hw : ∀ i, i < U.p → wdoc i = U.w i * U.w i)
    (hloc : ∀ i, i < U.p → mulVec U.n U.D U.loc i = 0) (x : Vec K) :
    sumTo U.rows (fun i => (U.Mfwd x i - U.bTilde i) ^ 2) = U.docObjective invScale wdoc x := by
  unfold Ugla.rows Ugla.docObjective
  rw [sumTo_add, sumTo_add]
  simp only [sumTo, add_zero]
  congr 1
  · rw [dot]
    refine sumTo_congr _ _ _ fun i hi => ?_
    simp only [Ugla.Mfwd, Ugla.bTilde, hcat, hi, if_true, mulVec_sub_right]
    ring
  · rw [← sumTo_mul_left]
    refine sumTo_congr _ _ _ fun i hi => ?_
    have h1 : U.Mfwd x (U.lik.m + i) = U.s * mulVec U.n U.L2 x i := by
      simp [Ugla.Mfwd, hcat, hi]
    have h2 : U.bTilde (U.lik.m + i) = mulVec U.n U.L2 U.loc i := by
      simp [Ugla.bTilde, hcat, hi]
    have h3 : ∀ v : Vec K, mulVec U.n U.L2 v i = U.w i * mulVec U.n U.D v i := by
      intro v
      simp only [mulVec, Ugla.L2, ← sumTo_mul_left]
      exact sumTo_congr _ _ _ fun j _ => by ring
    rw [h1, h2, h3, h3, mulVec_sub_right, hloc i hi, hw i hi, ← hs]
    ring

/-- the instance of the negative result: `A = L = I₂`, `d = 0`, zero-boundary differences,
    `location = (3/4, 3/4)`, `scale = 1`, `β = 1`, state `x_k = 0` (so the code's weights are 1) -/
def exUgla : Ugla ℚ :=
  { n := 2, lik := { m := 2, L := fun i j => if i = j then 1 else 0, A := fun i j => if i = j then 1 else 0, d := fun _ => 0 },
    p := 3, D := fun i j => if i = j then 1 else if i = j + 1 then -1 else 0,
    loc := fun _ => 3 / 4, s := 1, w := fun _ => 1 }

/-- documented weights at `D(x_k − location) = (−3/4, 0, 3/4)`: `1/√(t² + 1)` -/
def exWdoc : Vec ℚ := fun i => if i = 1 then 1 else 4 / 5

example : ∀ i, i < 3 → exWdoc i * exWdoc i * ((mulVec 2 exUgla.D (fun j => 0 - exUgla.loc j) i) ^ 2 + 1) = 1 := by
  intro i hi
  interval_cases i <;> norm_num [exWdoc, exUgla, mulVec, sumTo]

/-- **Negative result (known finding `ugla:*:Dloc!=0:*`).**  With a location that the difference
    operator does not annihilate, the objective UGLA solves does not differ from `−2 log` of the
    documented local approximation by a constant: between `x = 0` and `x = location` the former
    changes by `0`, the latter by `−9/40`.  (Here `scale = 1`: the defect is the evaluation of the
    weights at `D x_k` instead of `D (x_k − location)`.) -/
theorem ugla_location_counterexample :
    (sumTo exUgla.rows (fun i => (exUgla.Mfwd (fun _ => 0) i - exUgla.bTilde i) ^ 2)
      - sumTo exUgla.rows (fun i => (exUgla.Mfwd exUgla.loc i - exUgla.bTilde i) ^ 2) = 0) ∧
    (exUgla.docObjective 1 exWdoc (fun _ => 0) - exUgla.docObjective 1 exWdoc exUgla.loc = -9 / 40) := by
  constructor <;>
  norm_num [exUgla, exWdoc, Ugla.rows, Ugla.Mfwd, Ugla.bTilde, Ugla.L2, Ugla.docObjective, hcat, mulVec, dot, sumTo]

/-- the second half of the defect: with `scale ≠ 1` the prior block of the right-hand side
    (`L₂·location`, no `√(1/scale)`) is not `s·L₂·location`: entry 0 of the instance with `s = 2` -/
theorem ugla_scale_counterexample :
    ({ exUgla with s := 2 } : Ugla ℚ).bTilde 2 = 3 / 4 ∧
    ({ exUgla with s := 2 } : Ugla ℚ).Mfwd exUgla.loc 2 = 3 / 2 := by
  constructor <;> norm_num [exUgla, Ugla.Mfwd, Ugla.bTilde, Ugla.L2, hcat, mulVec, sumTo]

/-! ## 6. explicit moments: `rto_mean` -/

/-- **rto_mean.**  For any number of matrix-backed likelihoods the normal equations of the stacked
    system are the posterior-mean equations: `MᵀM = Σ Aᵢᵀ(LᵢᵀLᵢ)Aᵢ + L₂ᵀL₂` (written
    `Σ (LᵢAᵢ)ᵀ(LᵢAᵢ) + L₂ᵀL₂`) and `Mᵀb̃ = Σ (LᵢAᵢ)ᵀ Lᵢdᵢ + L₂ᵀ(L₂μ)`; hence the offset
    `m = (MᵀM)⁻¹Mᵀb̃` of `rto_affine` is `(Σ AᵢᵀΛᵢAᵢ + P)⁻¹(Σ AᵢᵀΛᵢdᵢ + Pμ)`. -/
theorem rto_mean (n : ℕ) (ls : List (MatLik K)) (pr : Prior K) (i j : ℕ) :
    gram (rowsM (problemOf n ls pr)) (Mmat ls pr) i j
        = (ls.map fun l => gram l.m (mul l.m l.L l.A) i j).sum + gram pr.p pr.L2 i j ∧
    tmulVec (rowsM (problemOf n ls pr)) (Mmat ls pr) (bTilde (problemOf n ls pr)) j
        = (ls.map fun l => tmulVec l.m (mul l.m l.L l.A) (mulVec l.m l.L l.d) j).sum
          + tmulVec pr.p pr.L2 pr.L2mu j := by
  rw [rowsM_problemOf]
  exact ⟨gram_Mmat ls pr i j, tmulVec_Mmat_bTilde n ls pr j⟩

example : gram (rowsM (problemOf 2 exLs exPr)) (Mmat exLs exPr) 0 1 = 25 / 2 := by
  rw [(rto_mean 2 exLs exPr 0 1).1]
  norm_num [exLs, exPr, gaussPrior, gram, mul, sumTo]

/-! ## 7. the inner solver -/

/-- **tabulation is transparent:** inside the tabulated range the entries are unchanged (the
    driver and `cglsIter` tabulate intermediate vectors/matrices for speed only). -/
theorem tab_apply (m n : ℕ) (v : Vec K) (A : Mat K) :
    (∀ i, i < n → tabV n v i = v i) ∧ (∀ i j, i < m → j < n → tabM m n A i j = A i j) :=
  ⟨fun i hi => ofArr_tabArr n v i hi, fun i j hi hj => ofRows_tabRows m n A i j hi hj⟩

section cgls
variable [LT K] [LE K] [DecidableEq K] [DecidableLT K] [DecidableLE K]

/-- **cgls_residual_invariant.**  Whatever `maxit`, `tol`, the starting point and the branch taken
    at a zero curvature: the state `CGLS.solve` ends in satisfies `r = b − M x`, `s = Mᵀ r`,
    `gamma = ‖s‖²` — for an operator given by its two actions `fwd = M·`, `adj = Mᵀ·`. -/
theorem cgls_residual_invariant (N n : ℕ) (M : Mat K) (fwd adj : Vec K → Vec K)
    (hf : ∀ v i, i < N → fwd v i = mulVec n M v i) (ha : ∀ v j, j < n → adj v j = tmulVec N M v j)
    (b x0 : Vec K) (maxit : ℕ) (tol2 eps : K) :
    CglsInv N n M b (cgls fwd adj N n b x0 maxit tol2 eps) := by
  unfold cgls
  exact cglsLoop_inv N n M fwd adj hf ha b _ tol2 eps maxit _ (cglsInit_inv N n M fwd adj hf ha b x0)

/-- the stacked operator of matrix-backed likelihoods meets the hypotheses of the CGLS theorems -/
theorem rtoStep_operator (n : ℕ) (ls : List (MatLik K)) (pr : Prior K) :
    (∀ v i, i < rowsM (problemOf n ls pr) → Mfwd (problemOf n ls pr) v i = mulVec n (Mmat ls pr) v i) ∧
    (∀ v j, j < n → Madj (problemOf n ls pr) v j = tmulVec (rowsM (problemOf n ls pr)) (Mmat ls pr) v j) :=
  ⟨fun v i _ => Mfwd_eq_mulVec n ls pr v i, fun v j hj => Madj_eq_tmulVec n ls pr v j hj⟩

end cgls

/-- **cgls_converged_normalEq.**  Over an ordered field: if `CGLS.solve` stops with `‖s‖² = 0`
    ("run to convergence"), the returned point solves the normal equations `MᵀM x = Mᵀ b` —
    the hypothesis of `rto_affine`, `step_independent_of_state`, whatever the starting point. -/
theorem cgls_converged_normalEq {F : Type} [Field F] [LinearOrder F] [IsStrictOrderedRing F]
    (N n : ℕ) (M : Mat F) (fwd adj : Vec F → Vec F)
    (hf : ∀ v i, i < N → fwd v i = mulVec n M v i) (ha : ∀ v j, j < n → adj v j = tmulVec N M v j)
    (b x0 : Vec F) (maxit : ℕ) (tol2 eps : F)
    (hconv : (cgls fwd adj N n b x0 maxit tol2 eps).gamma = 0) :
    NormalEq N n M b (cgls fwd adj N n b x0 maxit tol2 eps).x := by
  obtain ⟨hr, hs, hg⟩ := cgls_residual_invariant N n M fwd adj hf ha b x0 maxit tol2 eps
  set st := cgls fwd adj N n b x0 maxit tol2 eps
  rw [hconv] at hg
  have hs0 : ∀ j, j < n → st.s j = 0 := by
    intro j hj
    have hsum : ∑ k ∈ range n, st.s k * st.s k = 0 := by
      rw [← sumTo_eq_sum]; exact hg.symm
    have := (Finset.sum_eq_zero_iff_of_nonneg (fun k _ => mul_self_nonneg (st.s k))).mp hsum j (mem_range.mpr hj)
    exact mul_self_eq_zero.mp this
  intro j hj
  have h1 := hs j hj
  rw [hs0 j hj, tmulVec_congr N M st.r (fun i => b i - mulVec n M st.x i) hr, tmulVec_sub_right,
    tmulVec_mulVec_gram] at h1
  exact (sub_eq_zero.mp h1.symm).symm

example : (cgls (mulVec 1 (fun i _ => if i = 0 then (1 : ℚ) else 2)) (tmulVec 2 (fun i _ => if i = 0 then (1 : ℚ) else 2))
    2 1 (fun i => if i = 0 then 1 else 2) (fun _ => 7) 3 0 (1 / 2 ^ 52)).gamma = 0 := by
  norm_num [cgls, cglsLoop, cglsIter, cglsInit, ofArr, tabArr, dot, mulVec, tmulVec, sumTo]

end CuqiVerif.C06
