import CuqiVerif.Model.C06_loop
import CuqiVerif.Props.C06_law

/-!
# C06 — the sampling loops: every stored sample is the exact draw of its own normal vector (session 3)

About `rtoChain`, `legacySample`, `expSample` of `Model/C06_loop.lean` (the loops of legacy
`LinearRTO._sample(N, Nb)` and of the experimental `warmup(Nb)` / `sample(Ns)`), which the driver
runs (`loop` op) and the harness ties to `sampler.sample(...)`.  All histories: any number of
steps, any draws, any initial point.

`m = C Mᵀ b̃`, `B = C Mᵀ` with `M = opMat P` the matrix of the stacked operator and `C` the
certified inverse of `MᵀM` are the offset and linear part of `rto_inner_solver_exact`.
The last section writes out the law of a whole chain prefix (the item "the i.i.d. law of the whole
chain is not written out" of docs/C06.md): the first `k` states, for every `k`, are independent
and each is distributed as `N(m, (MᵀM)⁻¹)` — the posterior.
-/
open MeasureTheory ProbabilityTheory Matrix CuqiVerif.C05

set_option linter.unusedSectionVars false
set_option linter.unusedVariables false

namespace CuqiVerif.C06

section loops
variable {F : Type} [Field F] [LinearOrder F] [IsStrictOrderedRing F]

/-- `rtoChain` stores one state per draw -/
theorem rtoChain_length (P : Problem F) (maxit : ℕ) (tol2 eps : F) (es : List (Vec F)) :
    ∀ cur, (rtoChain P maxit tol2 eps cur es).length = es.length := by
  induction es with
  | nil => intro cur; rfl
  | cons e es ih => intro cur; simp only [rtoChain, List.length_cons, ih]

/-- **rtoChain_state_is_own_draw.**  Consecutive steps of one sampler (each started where the
    previous one ended), inner solver run to convergence (`tol = 0`, `maxit ≥ n`, exact
    arithmetic): the `t`-th state is `m + B e_t` — the posterior draw of the `t`-th normal vector
    alone, independent of the initial point and of all earlier draws.  Any number of steps. -/
theorem rtoChain_state_is_own_draw (P : Problem F)
    (hadj : ∀ l ∈ P.liks, ∀ u v : Vec F, dot l.m (l.fwd u) v = dot P.n u (l.adj v))
    (C : Mat F) (hC : IsInv P.n (gram (rowsM P) (opMat P)) C)
    (maxit : ℕ) (hn : P.n ≤ maxit) (eps : F) (es : List (Vec F)) :
    ∀ (cur : Vec F) (t : ℕ) (e x : Vec F), es[t]? = some e →
      (rtoChain P maxit 0 eps cur es)[t]? = some x →
      ∀ j, j < P.n → x j = mulVec P.n C (tmulVec (rowsM P) (opMat P) (bTilde P)) j
          + mulVec (rowsM P) (mul P.n C (tr (opMat P))) e j := by
  induction es with
  | nil => intro cur t e x he; simp at he
  | cons e0 es ih =>
    intro cur t e x he hx j hj
    cases t with
    | zero =>
      simp only [List.getElem?_cons_zero, Option.some.injEq] at he
      simp only [rtoChain, List.getElem?_cons_zero, Option.some.injEq] at hx
      subst he hx
      rw [ofArr_tabArr _ _ j hj]
      exact (rto_inner_solver_exact P hadj C hC e0 cur maxit hn eps).2.1 j hj
    | succ t =>
      simp only [List.getElem?_cons_succ] at he
      simp only [rtoChain, List.getElem?_cons_succ] at hx
      exact ih _ t e x he hx j hj

/-- **legacySample_entries.**  What legacy `LinearRTO.sample(N, Nb)` returns (`N + Nb ≥ 1`, enough
    draws): `N` columns; column `s` is the exact draw `m + B e_{s+Nb−1}` of the `(s+Nb)`-th normal
    vector — except column 0 when `Nb = 0`, which is the initial point `x0` itself (the legacy
    convention: without burn-in the first returned "sample" is not a draw). -/
theorem legacySample_entries (P : Problem F)
    (hadj : ∀ l ∈ P.liks, ∀ u v : Vec F, dot l.m (l.fwd u) v = dot P.n u (l.adj v))
    (C : Mat F) (hC : IsInv P.n (gram (rowsM P) (opMat P)) C)
    (maxit : ℕ) (hn : P.n ≤ maxit) (eps : F) (x0 : Vec F) (N Nb : ℕ) (hN : 1 ≤ N + Nb)
    (draws : List (Vec F)) (hd : N + Nb - 1 ≤ draws.length) :
    ∃ l, legacySample P maxit 0 eps x0 N Nb draws = some l ∧ l.length = N ∧
      (Nb = 0 → l[0]? = some x0) ∧
      ∀ (s : ℕ) (e x : Vec F), 1 ≤ s + Nb → s < N → draws[s + Nb - 1]? = some e → l[s]? = some x →
        ∀ j, j < P.n → x j = mulVec P.n C (tmulVec (rowsM P) (opMat P) (bTilde P)) j
          + mulVec (rowsM P) (mul P.n C (tr (opMat P))) e j := by
  refine ⟨_, by unfold legacySample; rw [if_neg (by omega)], ?_, ?_, ?_⟩
  · simp only [List.length_drop, List.length_cons, rtoChain_length, List.length_take]
    omega
  · intro hNb
    subst hNb
    simp
  · intro s e x hs hsN he hx j hj
    rw [List.getElem?_drop] at hx
    obtain ⟨t, ht⟩ : ∃ t, Nb + s = t + 1 := ⟨Nb + s - 1, by omega⟩
    rw [ht, List.getElem?_cons_succ] at hx
    have ht' : s + Nb - 1 = t := by omega
    rw [ht'] at he
    refine rtoChain_state_is_own_draw P hadj C hC maxit hn eps _ x0 t e x ?_ hx j hj
    rw [List.getElem?_take]
    rw [if_pos (by omega)]
    exact he

lemma rtoChain_append (P : Problem F) (maxit : ℕ) (tol2 eps : F) (a b : List (Vec F)) :
    ∀ cur, rtoChain P maxit tol2 eps cur (a ++ b)
      = rtoChain P maxit tol2 eps cur a
        ++ rtoChain P maxit tol2 eps ((rtoChain P maxit tol2 eps cur a).getLastD cur) b := by
  induction a with
  | nil => intro cur; rfl
  | cons e a ih =>
    intro cur
    simp only [List.cons_append, rtoChain, ih]
    congr 2
    cases h : rtoChain P maxit tol2 eps (ofArr (tabArr P.n (rtoStep P e cur maxit tol2 eps).x)) a with
    | nil => rfl
    | cons y ys => simp [List.getLastD]

/-- **expSample_entries.**  What the experimental `LinearRTO(...).warmup(Nb).sample(Ns).get_samples()`
    holds: the states of ONE chain over the first `Nb + Ns` draws (the sample phase continues where
    the warm-up ended), `Nb + Ns` of them, and the `t`-th is the exact draw `m + B e_t` of the
    `t`-th normal vector, whatever `initial_point`. -/
theorem expSample_entries (P : Problem F)
    (hadj : ∀ l ∈ P.liks, ∀ u v : Vec F, dot l.m (l.fwd u) v = dot P.n u (l.adj v))
    (C : Mat F) (hC : IsInv P.n (gram (rowsM P) (opMat P)) C)
    (maxit : ℕ) (hn : P.n ≤ maxit) (eps : F) (x0 : Vec F) (Nb Ns : ℕ)
    (draws : List (Vec F)) (hd : Nb + Ns ≤ draws.length) :
    expSample P maxit 0 eps x0 Nb Ns draws = rtoChain P maxit 0 eps x0 (draws.take (Nb + Ns)) ∧
    (expSample P maxit 0 eps x0 Nb Ns draws).length = Nb + Ns ∧
    ∀ (t : ℕ) (e x : Vec F), t < Nb + Ns → draws[t]? = some e →
      (expSample P maxit 0 eps x0 Nb Ns draws)[t]? = some x →
      ∀ j, j < P.n → x j = mulVec P.n C (tmulVec (rowsM P) (opMat P) (bTilde P)) j
          + mulVec (rowsM P) (mul P.n C (tr (opMat P))) e j := by
  have heq : expSample P maxit 0 eps x0 Nb Ns draws = rtoChain P maxit 0 eps x0 (draws.take (Nb + Ns)) := by
    have : draws.take (Nb + Ns) = draws.take Nb ++ (draws.drop Nb).take Ns := by
      rw [List.take_add]
    rw [this, rtoChain_append]
    simp [expSample, expRun, expInit]
  refine ⟨heq, ?_, ?_⟩
  · rw [heq, rtoChain_length, List.length_take]; omega
  · intro t e x ht he hx j hj
    rw [heq] at hx
    refine rtoChain_state_is_own_draw P hadj C hC maxit hn eps _ x0 t e x ?_ hx j hj
    rw [List.getElem?_take, if_pos ht]
    exact he

end loops

/-- instance of the three theorems: the two-likelihood problem `exLs`/`exPr` (5 rows, 2 unknowns,
    function handles) of `Props/C06_law.lean`, three draws, initial point `(5, −7)` -/
example := legacySample_entries (problemOf 2 exLs exPr) exLs_adjoint _ exLs_isInv 2 (le_refl _) (1 / 2 ^ 52)
  (fun i => if i = 0 then 5 else -7) 2 1 (by norm_num) [fun _ => 1, fun i => i, fun _ => -2] (by simp)
example := expSample_entries (problemOf 2 exLs exPr) exLs_adjoint _ exLs_isInv 2 (le_refl _) (1 / 2 ^ 52)
  (fun i => if i = 0 then 5 else -7) 1 2 [fun _ => 1, fun i => i, fun _ => -2] (by simp)

/-! ## the law of a chain prefix -/

/-- the states of a chain driven by the draws `e 0, e 1, …`, each step started at the previous state -/
def chainStates {N : ℕ} (step : Vec ℝ → (Fin N → ℝ) → Vec ℝ) (x₀ : Vec ℝ) (e : ℕ → Fin N → ℝ) : ℕ → Vec ℝ
  | 0 => step x₀ (e 0)
  | t + 1 => step (chainStates step x₀ e t) (e (t + 1))

/-- **rto_chain_iid.**  `step cur e` any map returning a solution of the normal equations of the
    stacked system for `b̃ + e` (what the converged sampler step returns: `rto_inner_solver_exact`),
    `C` the certified inverse of `MᵀM`.  For every `k` and every initial point, with independent
    standard normal draws `e₀, …, e_{k−1}` the first `k` states of the chain are **independent and
    identically distributed with law `N(m, (MᵀM)⁻¹)`**: the joint law is the `k`-fold product
    measure.  (`k = 2` is `rto_successive_draws_independent`.) -/
theorem rto_chain_iid (N n : ℕ) (M C : Mat ℝ) (b : Vec ℝ) (hC : IsInv n (gram N M) C)
    (step : Vec ℝ → (Fin N → ℝ) → Vec ℝ)
    (hstep : ∀ cur e, NormalEq N n M (fun i => b i + ofFin e i) (step cur e)) (x₀ : Vec ℝ) (k : ℕ) :
    (Measure.pi (fun _ : Fin k => stdNormalVec (Fin N))).map
        (fun (e : Fin k → Fin N → ℝ) (t : Fin k) =>
          toV n (chainStates step x₀ (fun s => if h : s < k then e ⟨s, h⟩ else 0) t))
      = Measure.pi (fun _ : Fin k => gaussPrec (toV n (mulVec n C (tmulVec N M b))) (toM n n (gram N M))) := by
  have haff : ∀ cur e, toV n (step cur e)
      = toM n n C *ᵥ ((toM N n M)ᵀ *ᵥ toV N b) + (toM n n C * (toM N n M)ᵀ) *ᵥ e := fun cur e =>
    congrFun (model_step_affine N n M C b hC (step cur) (hstep cur)) e
  obtain ⟨hlaw, hprob⟩ := rto_draw_law_density N n M C b hC (step x₀) (hstep x₀)
  rw [model_step_affine N n M C b hC (step x₀) (hstep x₀)] at hlaw
  have hfun : (fun (e : Fin k → Fin N → ℝ) (t : Fin k) =>
        toV n (chainStates step x₀ (fun s => if h : s < k then e ⟨s, h⟩ else 0) t))
      = fun e t => (fun v : Fin N → ℝ =>
          toM n n C *ᵥ ((toM N n M)ᵀ *ᵥ toV N b) + (toM n n C * (toM N n M)ᵀ) *ᵥ v) (e t) := by
    funext e t
    obtain ⟨t, ht⟩ := t
    cases t with
    | zero => simp only [chainStates, haff, ht, dite_true]
    | succ t => simp only [chainStates, haff, ht, dite_true]
  rw [hfun]
  have : ∀ _ : Fin k, SigmaFinite ((stdNormalVec (Fin N)).map (fun v : Fin N → ℝ =>
      toM n n C *ᵥ ((toM N n M)ᵀ *ᵥ toV N b) + (toM n n C * (toM N n M)ᵀ) *ᵥ v)) := fun _ => by
    rw [hlaw]; infer_instance
  rw [Measure.pi_map_pi (fun _ => (measurable_rect_affine _ _).aemeasurable)]
  simp only [hlaw]

example := rto_chain_iid 2 1 exM exC (fun i => i) exC_isInv
  (fun _ e => mulVec 1 exC (tmulVec 2 exM (fun i => (fun i : ℕ => (i : ℝ)) i + ofFin e i)))
  (fun _ e => exStep_spec 2 1 exM exC _ exC_isInv e) (fun _ => 7) 5

end CuqiVerif.C06
