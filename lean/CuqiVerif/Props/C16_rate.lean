import CuqiVerif.Props.C16_precond
import CuqiVerif.Proofs.C16_rate
import Mathlib.Analysis.Real.Sqrt

/-!
# C16 — rate theorems: the accelerated `O(1/k²)` rate, and what `FISTA.solve` really iterates

Setting as in `Props/C16_precond.lean` §3: `ProxGradSetting oV oW A At C g prox t` (lawful records,
`IsIP` dots, adjoint, `g` convex on the convex set `C`, `prox · t` the proximal map of `t·g + ι_C`),
`F = ½‖A·−b‖² + g`, `T = proxGradStep …` (the model's own step), `‖A d‖² ≤ L‖d‖²`, `t·L ≤ 1`.
`K` is any linearly ordered field (ℚ — the driver — and ℝ).

**Finding that shapes this file.**  `FISTA.solve` (`cuqi/solver/_solver.py` l.635-652) and hence
`Model/C16.lean` (`fistaGo`, `fistaExtrap`) extrapolate with
`x_new + ((k-1)/(k+2))·(x_new − x_old)` where `x_old` is the point at which the gradient step was taken
(the previous *extrapolated* point `y_k`), not the previous proximal point `x_{k-1}` of Beck–Teboulle.
So the code's iteration is `y_{k+1} = y_k + (1+β_k)(T y_k − y_k)`, an over-relaxed proximal-gradient
(Krasnosel'skiĭ–Mann) iteration with relaxation `1+β_k ∈ [1,2)`, not an accelerated method:

* `fista_adaptive_is_relaxed_proxgrad` — that description of what `fista … true` returns, proved;
* `fista_code_rate_counterexample` — the Beck–Teboulle bound `F(x_k) − F(x⋆) ≤ 2L‖x₀−x⋆‖²/(k+1)²` is
  **false** for the model's (and the code's) iteration: a 2×2 instance with `t = 1/L = 1/λmax(AᵀA)`,
  60 iterations, run by the kernel;
* `fista_bt_weighted_telescoping`, `fista_bt_rate`, `fista_bt_rate_sqrt_sequence` — the full
  `O(1/k²)` theorem, proved for the iteration that differs from the model's only in the point
  subtracted in the extrapolation (`btIter`, built from the model's `proxGradStep`/`fistaExtrap`);
* `fista_code_not_order_k2` — no bound `c·L‖x₀−x⋆‖²/(k+1)²` holds for the model's iteration, whatever
  the constant `c` (a family of one-dimensional instances, any ordered field);
* `fista_repaired_rate` — the loop with the one-line repair (`fistaBT`: extrapolate against the previous
  proximal point) returns, under the unchanged stopping rule, a point with the accelerated bound;
* `proxgrad_fundamental_inequality`, `fista_code_weighted_sum`, `fista_code_best_iterate_rate` — what
  *is* true of the code's iteration: Fejér monotonicity in the `I − tAᵀA` form and an `O(1/k)` bound
  for the best (and the weighted average) of the first `k` proximal points;
* `ista_rate_quotient`, `fista_bt_l1_rate_array`, `fista_code_l1_best_iterate_array` — quotient form of
  the ISTA rate and the statements in array vocabulary.
-/

set_option linter.unusedSectionVars false
set_option linter.unusedVariables false
set_option linter.unnecessarySeqFocus false

namespace CuqiVerif.C16

open Finset

section Defs
variable {K V W : Type} [Field K] [LinearOrder K] [IsStrictOrderedRing K]

/-- the momentum factor `(k-1)/(k+2)` of `fistaExtrap` at the loop counter `k = j+1`, i.e. `j/(j+3)` -/
def codeBeta (j : ℕ) : K := (((j + 1 - 1 : ℕ) : K)) / (((j + 1 + 2 : ℕ) : K))

/-- **Beck–Teboulle FISTA assembled from the model's pieces**: state `(x_k, y_k)`, `x_0 = y_0 = x0`,
    `x_{k+1} = proxGradStep y_k`, `y_{k+1} = x_{k+1} + β_k (x_{k+1} − x_k)` (record operations).
    With `β = codeBeta` the last component is `fistaExtrap oV (k+1) x_{k+1} x_k` — the model's
    `fistaGo` calls `fistaExtrap oV (k+1) x_{k+1} y_k` instead. -/
def btIter (oV : VOps K V) (oW : VOps K W) (fwd : V → W) (adj : W → V) (b : W) (prox : V → K → V) (t : K)
    (β : ℕ → K) (x0 : V) : ℕ → V × V
  | 0 => (x0, x0)
  | k + 1 =>
    let s := btIter oV oW fwd adj b prox t β x0 k
    let xn := proxGradStep oV oW fwd adj b prox t s.2
    (xn, oV.add xn (oV.smul (β k) (oV.sub xn s.1)))

/-- with the code's factor the extrapolation of `btIter` is the model's `fistaExtrap` applied to the
    previous proximal point -/
lemma btIter_codeBeta (oV : VOps K V) (oW : VOps K W) (fwd : V → W) (adj : W → V) (b : W)
    (prox : V → K → V) (t : K) (x0 : V) (k : ℕ) :
    (btIter oV oW fwd adj b prox t codeBeta x0 (k + 1)).2
      = fistaExtrap oV (k + 1) (btIter oV oW fwd adj b prox t codeBeta x0 (k + 1)).1
          (btIter oV oW fwd adj b prox t codeBeta x0 k).1 := rfl

/-- **the repaired loop**: `FISTA.solve` with the one change that `x_new − x_old` in the extrapolation
    is taken against the previous *proximal* point (`xprev`), everything else — stopping rule, counter,
    `fistaExtrap`, `maxit` handling — exactly as `fistaGo … adaptive = true` -/
def fistaGoBT (oV : VOps K V) (oW : VOps K W) (fwd : V → W) (adj : W → V) (b : W) (prox : V → K → V)
    (t abstol : K) (maxit : ℕ) : ℕ → V → V → ℕ → V × ℕ
  | 0, y, _, k => (proxGradStep oV oW fwd adj b prox t y, k + 1)
  | fuel + 1, y, xprev, k =>
    let k' := k + 1
    let xnew := proxGradStep oV oW fwd adj b prox t y
    if fistaSmall (oV.nrm2 (oV.sub xnew y)) abstol || decide (maxit ≤ k') then (xnew, k')
    else fistaGoBT oV oW fwd adj b prox t abstol maxit fuel (fistaExtrap oV k' xnew xprev) xnew k'

/-- the repaired `FISTA(A, b, x0, proximal, maxit, stepsize, abstol, adaptive=True).solve()` -/
def fistaBT (oV : VOps K V) (oW : VOps K W) (fwd : V → W) (adj : W → V) (b : W) (prox : V → K → V)
    (t abstol : K) (maxit : ℕ) (x0 : V) : V × ℕ :=
  fistaGoBT oV oW fwd adj b prox t abstol maxit (maxit - 1) x0 x0 0

lemma fistaGoBT_iter (oV : VOps K V) (oW : VOps K W) (fwd : V → W) (adj : W → V) (b : W)
    (prox : V → K → V) (t abstol : K) (maxit : ℕ) (x0 : V) (fuel k : ℕ) :
    ∃ j, j ≤ fuel ∧
      fistaGoBT oV oW fwd adj b prox t abstol maxit fuel
          (btIter oV oW fwd adj b prox t codeBeta x0 k).2 (btIter oV oW fwd adj b prox t codeBeta x0 k).1 k
        = ((btIter oV oW fwd adj b prox t codeBeta x0 (k + j + 1)).1, k + j + 1) := by
  induction fuel generalizing k with
  | zero => exact ⟨0, le_rfl, rfl⟩
  | succ n ih =>
    unfold fistaGoBT
    simp only
    split_ifs with hstop
    · exact ⟨0, Nat.zero_le _, rfl⟩
    · obtain ⟨j, hj, e⟩ := ih (k + 1)
      refine ⟨j + 1, by omega, ?_⟩
      have e1 : k + (j + 1) + 1 = k + 1 + j + 1 := by omega
      rw [e1, ← e]
      rfl

lemma codeBeta_eq (j : ℕ) : (codeBeta j : K) = (j : K) / ((j : K) + 3) := by
  unfold codeBeta
  rw [Nat.add_sub_cancel]
  push_cast; ring_nf

lemma codeBeta_nonneg (j : ℕ) : (0 : K) ≤ codeBeta j := by
  rw [codeBeta_eq]; positivity

lemma codeBeta_le_one (j : ℕ) : (codeBeta j : K) ≤ 1 := by
  rw [codeBeta_eq]
  have h : (0 : K) < (j : K) + 3 := by positivity
  rw [div_le_one h]; linarith

end Defs

variable {K : Type} [Field K] [LinearOrder K] [IsStrictOrderedRing K]

section Rate
variable {V W : Type} [AddCommGroup V] [Module K V] [AddCommGroup W] [Module K W]
variable {oV : VOps K V} {oW : VOps K W} {A : V →ₗ[K] W} {At : W →ₗ[K] V}
  {C : Set V} {g : V → K} {prox : V → K → V} {t : K} (b : W)

/-! ## 1. The fundamental inequality of one proximal-gradient step -/

/-- **Fundamental proximal-gradient inequality (sharp form)** for the model's step `T = proxGradStep`:
    for every `y` (also outside `C`) and every `z ∈ C`
    `2t·(F(T y) − F(z)) ≤ ‖z−y‖²_M − ‖T y−y‖²_M − ‖z−T y‖²`, `‖v‖²_M = ‖v‖² − t‖A v‖²`.
    No hypothesis on the step size; for `t·L ≤ 1` the `M`-form is non-negative and this implies the
    Beck–Teboulle Lemma 2.3 form `ista_three_point`.  It is the only fact about `prox` and `g` that
    the rate theorems below use. -/
theorem proxgrad_fundamental_inequality (H : ProxGradSetting oV oW A At C g prox t) (y z : V) (hz : z ∈ C) :
    let T := proxGradStep oV oW A At b prox t
    let F := fun z : V => lsq oW.dot A b z + g z
    let M := fun v : V => oV.dot v v - t * oW.dot (A v) (A v)
    2 * t * (F (T y) - F z) ≤ M (z - y) - M (T y - y) - oV.dot (z - T y) (z - T y) := by
  intro T F M
  exact proxgrad_three_point_sharp b H.ipV H.ipW H.adj H.convex H.tpos hz (proxGradStep_isProx b H y)

/-! ## 2. Beck–Teboulle: weighted telescoping and the `O(1/k²)` rate -/

/-- **The `τ_k`-weighted telescoping lemma of Beck–Teboulle** for `btIter` (proximal-gradient step of
    the model, momentum `β_k` applied to the difference of consecutive *proximal* points): if
    `τ_0 = 1 ≤ τ_k`, `β_k·τ_{k+1} = τ_k − 1` and `τ_{k+1}² − τ_{k+1} ≤ τ_k²`, then for every minimiser
    `z⋆` of `F` over `C` and every `k`
    `2t·τ_k²·(F(x_{k+1}) − F(z⋆)) + ‖τ_k x_{k+1} − (τ_k−1) x_k − z⋆‖² ≤ ‖x₀ − z⋆‖²`. -/
theorem fista_bt_weighted_telescoping (H : ProxGradSetting oV oW A At C g prox t) (L : K)
    (hL : ∀ d, oW.dot (A d) (A d) ≤ L * oV.dot d d) (htL : t * L ≤ 1)
    (β τ : ℕ → K) (hτ0 : τ 0 = 1) (hτ1 : ∀ k, 1 ≤ τ k) (hβ : ∀ k, β k * τ (k + 1) = τ k - 1)
    (hτ : ∀ k, τ (k + 1) ^ 2 - τ (k + 1) ≤ τ k ^ 2)
    (x0 zs : V) (hzs : zs ∈ C) (hmin : ∀ z ∈ C, lsq oW.dot A b zs + g zs ≤ lsq oW.dot A b z + g z)
    (k : ℕ) :
    let X := fun k => (btIter oV oW A At b prox t β x0 k).1
    let F := fun z : V => lsq oW.dot A b z + g z
    2 * t * (τ k ^ 2 * (F (X (k + 1)) - F zs))
      + oV.dot (τ k • X (k + 1) - (τ k - 1) • X k - zs) (τ k • X (k + 1) - (τ k - 1) • X k - zs)
      ≤ oV.dot (x0 - zs) (x0 - zs) := by
  intro X F
  exact bt_rate_core b H.ipV H.ipW H.adj H.convex H.tpos hL htL X
    (fun k => (btIter oV oW A At b prox t β x0 k).2) β τ
    (fun k => proxGradStep_isProx b H _) rfl
    (fun k => by
      show oV.add _ (oV.smul (β k) (oV.sub _ _)) = _
      rw [H.lawV.add, H.lawV.smul, H.lawV.sub]; rfl)
    hτ0 hτ1 hβ hτ zs hzs hmin k

/-- **`O(1/k²)` rate of Beck–Teboulle FISTA with the momentum factor of the code** (`(k−1)/(k+2)`,
    i.e. `τ_k = (k+2)/2`), constant step `t ≤ 1/L`: for every minimiser `z⋆` of `F` over `C`, every
    start `x₀` and every `n ≥ 1`
    `F(x_n) − F(z⋆) ≤ 2‖x₀ − z⋆‖² / (t·(n+1)²)`, which for `t = 1/L` is `2L‖x₀ − z⋆‖²/(n+1)²`.
    The iteration is `btIter … codeBeta`: the model's `proxGradStep` and `fistaExtrap` with the
    *previous proximal point* as second argument.  For the model's own loop (`fistaExtrap` applied to
    the previous extrapolated point) the statement is false: `fista_code_rate_counterexample`. -/
theorem fista_bt_rate (H : ProxGradSetting oV oW A At C g prox t) (L : K)
    (hL : ∀ d, oW.dot (A d) (A d) ≤ L * oV.dot d d) (htL : t * L ≤ 1)
    (x0 zs : V) (hzs : zs ∈ C) (hmin : ∀ z ∈ C, lsq oW.dot A b zs + g zs ≤ lsq oW.dot A b z + g z)
    (n : ℕ) (hn : 1 ≤ n) :
    let X := fun k => (btIter oV oW A At b prox t codeBeta x0 k).1
    let F := fun z : V => lsq oW.dot A b z + g z
    F (X n) - F zs ≤ 2 * oV.dot (x0 - zs) (x0 - zs) / (t * ((n : K) + 1) ^ 2) ∧
      (t * L = 1 → F (X n) - F zs ≤ 2 * L * oV.dot (x0 - zs) (x0 - zs) / ((n : K) + 1) ^ 2) := by
  intro X F
  obtain ⟨k, rfl⟩ := Nat.exists_eq_add_of_le' hn
  have ht := H.tpos
  have hk0 : (0 : K) ≤ (k : K) := Nat.cast_nonneg k
  have key := fista_bt_weighted_telescoping b H L hL htL codeBeta (fun k => ((k : K) + 2) / 2)
    (by norm_num) (fun k => by have : (0 : K) ≤ (k : K) := Nat.cast_nonneg k; linarith)
    (fun k => by
      rw [codeBeta_eq]
      have h : ((k : K) + 3) ≠ 0 := by positivity
      push_cast; field_simp; ring)
    (fun k => by push_cast; nlinarith)
    x0 zs hzs hmin k
  have hu := H.ipV.nonneg ((((k : K) + 2) / 2) • X (k + 1) - (((k : K) + 2) / 2 - 1) • X k - zs)
  have h1 : t * ((k : K) + 2) ^ 2 / 2 * (F (X (k + 1)) - F zs) ≤ oV.dot (x0 - zs) (x0 - zs) := by
    have e : 2 * t * ((((k : K) + 2) / 2) ^ 2 * (F (X (k + 1)) - F zs))
        = t * ((k : K) + 2) ^ 2 / 2 * (F (X (k + 1)) - F zs) := by ring
    simp only at key
    linarith
  have hc : ((k + 1 : ℕ) : K) + 1 = (k : K) + 2 := by push_cast; ring
  have hpos : (0 : K) < t * ((k : K) + 2) ^ 2 := by positivity
  have hmain : F (X (k + 1)) - F zs ≤ 2 * oV.dot (x0 - zs) (x0 - zs) / (t * ((k : K) + 2) ^ 2) := by
    rw [le_div_iff₀ hpos]; linarith
  rw [hc]
  refine ⟨hmain, fun htL1 => ?_⟩
  have hLt : L = 1 / t := by field_simp; linarith
  have e : 2 * L * oV.dot (x0 - zs) (x0 - zs) / ((k : K) + 2) ^ 2
      = 2 * oV.dot (x0 - zs) (x0 - zs) / (t * ((k : K) + 2) ^ 2) := by
    rw [hLt]; field_simp
  rw [e]; exact hmain

/-- **The repaired solver returns a point with the accelerated guarantee.**  `fistaBT` is the model's
    loop with the extrapolation taken against the previous proximal point (in the Python source:
    keep `x_prev = x_new` of the previous pass and use `x_new + ((k-1)/(k+2))*(x_new - x_prev)`).
    Whatever `abstol`, `maxit`: it returns `(x_k, k)` with `k ≥ 1` its own counter, `x_k` the `k`-th
    Beck–Teboulle iterate, `x_k ∈ C`, and for every minimiser `z⋆` of `F` over `C`
    `F(x_k) − F(z⋆) ≤ 2‖x₀ − z⋆‖²/(t·(k+1)²)`. -/
theorem fista_repaired_rate (H : ProxGradSetting oV oW A At C g prox t) (L : K)
    (hL : ∀ d, oW.dot (A d) (A d) ≤ L * oV.dot d d) (htL : t * L ≤ 1) (abstol : K) (maxit : ℕ)
    (x0 zs : V) (hzs : zs ∈ C) (hmin : ∀ z ∈ C, lsq oW.dot A b zs + g zs ≤ lsq oW.dot A b z + g z) :
    let X := fun k => (btIter oV oW A At b prox t codeBeta x0 k).1
    let F := fun z : V => lsq oW.dot A b z + g z
    let r := fistaBT oV oW A At b prox t abstol maxit x0
    1 ≤ r.2 ∧ r.1 = X r.2 ∧ r.1 ∈ C ∧
      F r.1 - F zs ≤ 2 * oV.dot (x0 - zs) (x0 - zs) / (t * ((r.2 : K) + 1) ^ 2) := by
  intro X F r
  obtain ⟨j, -, e⟩ := fistaGoBT_iter oV oW A At b prox t abstol maxit x0 (maxit - 1) 0
  have hr : r = (X (0 + j + 1), 0 + j + 1) := e
  rw [hr]
  have e0 : 0 + j + 1 = j + 1 := by omega
  rw [e0]
  refine ⟨by omega, rfl, (proxGradStep_isProx b H _).1, ?_⟩
  exact (fista_bt_rate b H L hL htL x0 zs hzs hmin (j + 1) (by omega)).1

/-! ## 3. What `FISTA.solve(adaptive=True)` iterates -/

/-- **The code's FISTA is an over-relaxed proximal-gradient iteration.**  `fista … true x0` returns
    `(T (Y_j), j+1)` for the points `Y_0 = x0`, `Y_{j+1} = fistaExtrap (j+1) (T Y_j) (Y_j)` (`fistaY`);
    it returns with `j+1 < maxit` only if the stopping test fired; and in module notation
    `Y_{j+1} = Y_j + (1 + β_j)·(T Y_j − Y_j)`, `β_j = j/(j+3) ∈ [0,1)`: the momentum is applied to the
    displacement of the current step, not to the difference of consecutive proximal points. -/
theorem fista_adaptive_is_relaxed_proxgrad (H : ProxGradSetting oV oW A At C g prox t)
    (abstol : K) (maxit : ℕ) (x0 : V) :
    let T := proxGradStep oV oW A At b prox t
    let Y := fistaY oV oW A At b prox t x0
    let r := fista oV oW A At b prox t abstol maxit true x0
    (∃ j, r = (T (Y j), j + 1) ∧ j ≤ maxit - 1 ∧
        (j + 1 < maxit → fistaSmall (oV.nrm2 (oV.sub (T (Y j)) (Y j))) abstol = true)) ∧
      ∀ j, Y (j + 1) = Y j + ((1 : K) + codeBeta j) • (T (Y j) - Y j) := by
  intro T Y r
  constructor
  · obtain ⟨j, hj, e, hs⟩ := fistaGo_adaptive oV oW A At b prox t abstol maxit (maxit - 1) x0 0
    refine ⟨j, ?_, hj, fun hlt => ?_⟩
    · show fistaGo oV oW A At b prox t abstol maxit true (maxit - 1) x0 0 = _
      rw [e]; congr 1; omega
    · rcases hs (by omega) with h | h
      · exact h
      · omega
  · intro j
    show fistaExtrap oV (0 + j + 1) (T (Y j)) (Y j) = _
    have e : 0 + j + 1 = j + 1 := by omega
    rw [e]
    show oV.add (T (Y j)) (oV.smul (codeBeta j) (oV.sub (T (Y j)) (Y j))) = _
    rw [H.lawV.add, H.lawV.smul, H.lawV.sub]
    module

/-- **Fejér-type bound for the code's iteration** (`t·L ≤ 1`): with `Y = fistaY` (above), for every
    `z ∈ C` and every `n`
    `‖z − Y_n‖²_M + Σ_{j<n} (1+β_j)·2t·(F(T Y_j) − F(z)) ≤ ‖z − x₀‖²` and `‖z − Y_n‖²_M ≥ 0`
    (`‖v‖²_M = ‖v‖² − t‖A v‖²`).  So the weighted sum of the objective errors of the proximal points
    the code computes is bounded — an ergodic `O(1/n)` statement (weights `1+β_j ∈ [1,2)`) — and the
    `M`-distance of the extrapolated points to every minimiser never increases. -/
theorem fista_code_weighted_sum (H : ProxGradSetting oV oW A At C g prox t) (L : K)
    (hL : ∀ d, oW.dot (A d) (A d) ≤ L * oV.dot d d) (htL : t * L ≤ 1) (x0 z : V) (hz : z ∈ C) (n : ℕ) :
    let T := proxGradStep oV oW A At b prox t
    let Y := fistaY oV oW A At b prox t x0
    let F := fun z : V => lsq oW.dot A b z + g z
    let M := fun v : V => oV.dot v v - t * oW.dot (A v) (A v)
    M (z - Y n) + ∑ j ∈ range n, ((1 : K) + codeBeta j) * (2 * t * (F (T (Y j)) - F z))
      ≤ oV.dot (z - x0) (z - x0) ∧ 0 ≤ M (z - Y n) := by
  intro T Y F M
  have hY : ∀ j, Y (j + 1) = T (Y j) + (codeBeta j : K) • (T (Y j) - Y j) := by
    intro j
    have e : Y (j + 1) = Y j + ((1 : K) + codeBeta j) • (T (Y j) - Y j) :=
      (fista_adaptive_is_relaxed_proxgrad b H 0 0 x0).2 j
    rw [e]
    module
  refine ⟨relax_sum b H.ipV H.ipW H.adj H.convex H.tpos hL htL (fun j => T (Y j)) Y codeBeta
    (fun j => proxGradStep_isProx b H _) hY (fun j => codeBeta_nonneg (K := K) j) (fun j => codeBeta_le_one (K := K) j) z hz n, ?_⟩
  exact (ipM_isIP (A := A) H.ipV H.ipW H.tpos.le hL htL).nonneg (z - Y n)

/-- **`O(1/n)` for the best of the first `n` proximal points of the code's FISTA:** for every `z ∈ C`
    (a minimiser in particular), every start and every `n ≥ 1` there is `j < n` with
    `2t·n·(F(T Y_j) − F(z)) ≤ ‖z − x₀‖²` — the bound `ista_rate` gives for ISTA's last iterate.  (The
    point `FISTA.solve` returns is `T Y_j` for the last `j`, `fista_adaptive_is_relaxed_proxgrad`; that
    the last one obeys the bound is not claimed.) -/
theorem fista_code_best_iterate_rate (H : ProxGradSetting oV oW A At C g prox t) (L : K)
    (hL : ∀ d, oW.dot (A d) (A d) ≤ L * oV.dot d d) (htL : t * L ≤ 1) (x0 z : V) (hz : z ∈ C)
    (n : ℕ) (hn : 1 ≤ n) :
    let T := proxGradStep oV oW A At b prox t
    let Y := fistaY oV oW A At b prox t x0
    let F := fun z : V => lsq oW.dot A b z + g z
    ∃ j, j < n ∧ 2 * t * (n : K) * (F (T (Y j)) - F z) ≤ oV.dot (z - x0) (z - x0) := by
  intro T Y F
  obtain ⟨hsum, hM⟩ := fista_code_weighted_sum b H L hL htL x0 z hz n
  simp only at hsum hM
  have hne : (range n).Nonempty := ⟨0, mem_range.2 (by omega)⟩
  obtain ⟨j, hj, hjmin⟩ := exists_min_image (range n) (fun j => F (T (Y j)) - F z) hne
  refine ⟨j, mem_range.1 hj, ?_⟩
  have ht := H.tpos
  have hR : 0 ≤ oV.dot (z - x0) (z - x0) := H.ipV.nonneg _
  rcases le_or_gt (F (T (Y j)) - F z) 0 with hneg | hpos
  · have : 2 * t * (n : K) * (F (T (Y j)) - F z) ≤ 0 :=
      mul_nonpos_of_nonneg_of_nonpos (by positivity) hneg
    linarith
  · have hterm : ∀ i ∈ range n, 2 * t * (F (T (Y j)) - F z)
        ≤ ((1 : K) + codeBeta i) * (2 * t * (F (T (Y i)) - F z)) := by
      intro i hi
      have h1 := hjmin i hi
      have h2 : (0 : K) ≤ codeBeta i := codeBeta_nonneg i
      have h3 : 2 * t * (F (T (Y j)) - F z) ≤ 2 * t * (F (T (Y i)) - F z) :=
        mul_le_mul_of_nonneg_left h1 (by linarith)
      have h4 : 0 ≤ 2 * t * (F (T (Y i)) - F z) := by
        have : 0 < F (T (Y i)) - F z := lt_of_lt_of_le hpos h1
        positivity
      nlinarith
    have hs := Finset.sum_le_sum hterm
    rw [Finset.sum_const, card_range, nsmul_eq_mul] at hs
    have e : 2 * t * (n : K) * (F (T (Y j)) - F z) = (n : K) * (2 * t * (F (T (Y j)) - F z)) := by ring
    rw [e]; linarith

end Rate

/-! ## 4. The Beck–Teboulle `t`-sequence over `ℝ` -/
section Sqrt
variable {V W : Type} [AddCommGroup V] [Module ℝ V] [AddCommGroup W] [Module ℝ W]
variable {oV : VOps ℝ V} {oW : VOps ℝ W} {A : V →ₗ[ℝ] W} {At : W →ₗ[ℝ] V}
  {C : Set V} {g : V → ℝ} {prox : V → ℝ → V} {t : ℝ} (b : W)

/-- Beck–Teboulle's `t_1 = 1`, `t_{k+1} = (1 + √(1 + 4 t_k²))/2` (index shifted by one) -/
noncomputable def btTau : ℕ → ℝ
  | 0 => 1
  | k + 1 => (1 + Real.sqrt (1 + 4 * btTau k ^ 2)) / 2

lemma btTau_rec (k : ℕ) : btTau (k + 1) ^ 2 - btTau (k + 1) = btTau k ^ 2 := by
  have h : (0 : ℝ) ≤ 1 + 4 * btTau k ^ 2 := by positivity
  have hs := Real.sq_sqrt h
  show ((1 + Real.sqrt (1 + 4 * btTau k ^ 2)) / 2) ^ 2 - (1 + Real.sqrt (1 + 4 * btTau k ^ 2)) / 2 = _
  nlinarith

lemma btTau_lower (k : ℕ) : ((k : ℝ) + 2) / 2 ≤ btTau k := by
  induction k with
  | zero => norm_num [btTau]
  | succ k ih =>
    have hk : (0 : ℝ) ≤ (k : ℝ) := Nat.cast_nonneg k
    have hτ : 0 ≤ btTau k := by linarith
    have h2 : 2 * btTau k ≤ Real.sqrt (1 + 4 * btTau k ^ 2) :=
      Real.le_sqrt_of_sq_le (by nlinarith)
    show _ ≤ (1 + Real.sqrt (1 + 4 * btTau k ^ 2)) / 2
    push_cast; linarith

/-- **`O(1/k²)` rate with Beck–Teboulle's own `t`-sequence** (`K = ℝ`): momentum
    `β_k = (t_k − 1)/t_{k+1}`, `t_{k+1} = (1+√(1+4t_k²))/2`: for every minimiser `z⋆` over `C` and `n ≥ 1`
    `F(x_n) − F(z⋆) ≤ 2‖x₀ − z⋆‖²/(t·(n+1)²)` (`= 2L‖x₀−z⋆‖²/(n+1)²` at `t = 1/L`) — Theorem 4.4 of
    Beck & Teboulle (2009) for the model's proximal-gradient step. -/
theorem fista_bt_rate_sqrt_sequence (H : ProxGradSetting oV oW A At C g prox t) (L : ℝ)
    (hL : ∀ d, oW.dot (A d) (A d) ≤ L * oV.dot d d) (htL : t * L ≤ 1)
    (x0 zs : V) (hzs : zs ∈ C) (hmin : ∀ z ∈ C, lsq oW.dot A b zs + g zs ≤ lsq oW.dot A b z + g z)
    (n : ℕ) (hn : 1 ≤ n) :
    let X := fun k => (btIter oV oW A At b prox t (fun k => (btTau k - 1) / btTau (k + 1)) x0 k).1
    let F := fun z : V => lsq oW.dot A b z + g z
    F (X n) - F zs ≤ 2 * oV.dot (x0 - zs) (x0 - zs) / (t * ((n : ℝ) + 1) ^ 2) := by
  intro X F
  obtain ⟨k, rfl⟩ := Nat.exists_eq_add_of_le' hn
  have ht := H.tpos
  have hk0 : (0 : ℝ) ≤ (k : ℝ) := Nat.cast_nonneg k
  have hτ1 : ∀ k, 1 ≤ btTau k := fun k => by
    have := btTau_lower k
    have : (0 : ℝ) ≤ (k : ℝ) := Nat.cast_nonneg k
    linarith
  have key := fista_bt_weighted_telescoping b H L hL htL (fun k => (btTau k - 1) / btTau (k + 1)) btTau
    rfl hτ1
    (fun k => by
      have h : btTau (k + 1) ≠ 0 := by have := hτ1 (k + 1); positivity
      field_simp)
    (fun k => (btTau_rec k).le) x0 zs hzs hmin k
  simp only at key
  have hu := H.ipV.nonneg (btTau k • X (k + 1) - (btTau k - 1) • X k - zs)
  have hv : 0 ≤ F (X (k + 1)) - F zs := by
    have := hmin (X (k + 1)) (proxGradStep_isProx b H _).1
    show 0 ≤ (lsq oW.dot A b (X (k + 1)) + g (X (k + 1))) - (lsq oW.dot A b zs + g zs)
    linarith
  have hlow := btTau_lower k
  have hsq : (((k : ℝ) + 2) / 2) ^ 2 ≤ btTau k ^ 2 := by
    apply pow_le_pow_left₀ (by positivity) hlow
  have h1 : 2 * t * ((((k : ℝ) + 2) / 2) ^ 2 * (F (X (k + 1)) - F zs)) ≤ oV.dot (x0 - zs) (x0 - zs) := by
    have := mul_le_mul_of_nonneg_right hsq hv
    have := mul_le_mul_of_nonneg_left this (by linarith : (0 : ℝ) ≤ 2 * t)
    linarith
  have hc : ((k + 1 : ℕ) : ℝ) + 1 = (k : ℝ) + 2 := by push_cast; ring
  have hpos : (0 : ℝ) < t * ((k : ℝ) + 2) ^ 2 := by positivity
  rw [hc, le_div_iff₀ hpos]
  nlinarith

end Sqrt

/-! ## 4b. ISTA in quotient form, and the rates in array vocabulary -/
section Quotient
variable {V W : Type} [AddCommGroup V] [Module K V] [AddCommGroup W] [Module K W]
variable {oV : VOps K V} {oW : VOps K W} {A : V →ₗ[K] W} {At : W →ₗ[K] V}
  {C : Set V} {g : V → K} {prox : V → K → V} {t : K} (b : W)

/-- **`O(1/k)` rate of ISTA, quotient form** (corollary of `ista_rate`; ISTA = `fista … false`, whose
    returned point is `T^[k] x₀` by `ista_returned_not_worse`): for `k ≥ 1` and every `z ∈ C`
    `F(x_k) − F(z) ≤ ‖z − x₀‖²/(2t·k)`, which at `t = 1/L` is `L‖z − x₀‖²/(2k)`. -/
theorem ista_rate_quotient (H : ProxGradSetting oV oW A At C g prox t) (L : K)
    (hL : ∀ d, oW.dot (A d) (A d) ≤ L * oV.dot d d) (htL : t * L ≤ 1) (x0 z : V) (hz : z ∈ C)
    (k : ℕ) (hk : 1 ≤ k) :
    let T := proxGradStep oV oW A At b prox t
    let F := fun z : V => lsq oW.dot A b z + g z
    F (T^[k] x0) - F z ≤ oV.dot (z - x0) (z - x0) / (2 * t * (k : K)) ∧
      (t * L = 1 → F (T^[k] x0) - F z ≤ L * oV.dot (z - x0) (z - x0) / (2 * (k : K))) := by
  intro T F
  have h := ista_rate b H L hL htL x0 z hz k
  simp only at h
  have ht := H.tpos
  have hkK : (0 : K) < (k : K) := by exact_mod_cast hk
  have hpos : (0 : K) < 2 * t * (k : K) := by positivity
  have hmain : F (T^[k] x0) - F z ≤ oV.dot (z - x0) (z - x0) / (2 * t * (k : K)) := by
    rw [le_div_iff₀ hpos]; linarith
  refine ⟨hmain, fun h1 => ?_⟩
  have hLt : L = 1 / t := by field_simp; linarith
  have e : L * oV.dot (z - x0) (z - x0) / (2 * (k : K)) = oV.dot (z - x0) (z - x0) / (2 * t * (k : K)) := by
    rw [hLt]; field_simp
  rw [e]; exact hmain

variable {m n : ℕ} (M : Mat K m n) (bv : Vector K m)

/-- **Beck–Teboulle rate on arrays, `λ‖·‖₁`:** for the Beck–Teboulle iteration built from the driver's
    callables (`mulVec M`, `mulVecT M`, `ProximalL1(·, λ·t)`, momentum `(k−1)/(k+2)` on consecutive
    proximal points) and every minimiser `z⋆` of `F(z) = ½‖M z − b‖² + λ‖z‖₁`:
    `F(x_k) − F(z⋆) ≤ 2‖x₀ − z⋆‖²/(t (k+1)²)`, `k ≥ 1`, `t·L ≤ 1`.  (Same statement for the two
    projections: `fista_bt_rate` at `nonnegSetting` / `boxSetting`.) -/
theorem fista_bt_l1_rate_array (lam t L : K) (hlam : 0 ≤ lam) (ht : 0 < t)
    (hL : ∀ d : Vector K n, vdot (mulVec M d) (mulVec M d) ≤ L * vdot d d) (htL : t * L ≤ 1)
    (x0 zs : Vector K n)
    (hmin : ∀ z : Vector K n, lsqArr M bv zs + lam * l1norm zs ≤ lsqArr M bv z + lam * l1norm z)
    (k : ℕ) (hk : 1 ≤ k) :
    let prox := fun (v : Vector K n) (g : K) => proximalL1 v (lam * g)
    let X := fun k => (btIter (vecOps n) (vecOps m) (mulVec M) (mulVecT M) bv prox t codeBeta x0 k).1
    let F := fun z : Vector K n => lsqArr M bv z + lam * l1norm z
    F (X k) - F zs
      ≤ 2 * vdot ((vecOps n).sub x0 zs) ((vecOps n).sub x0 zs) / (t * ((k : K) + 1) ^ 2) := by
  intro prox X F
  exact (fista_bt_rate bv (l1Setting M lam t hlam ht) L hL htL x0 zs trivial (fun z _ => hmin z) k hk).1

/-- **The code's FISTA on arrays, `λ‖·‖₁`: best-iterate `O(1/k)`.**  `Y = fistaY …` are the points at
    which `fista (vecOps n) (vecOps m) (mulVec M) (mulVecT M) b prox t … true x0` evaluates the
    proximal-gradient map `T`; for every `z` and `k ≥ 1` some `j < k` has
    `2t·k·(F(T Y_j) − F(z)) ≤ ‖z − x₀‖²`. -/
theorem fista_code_l1_best_iterate_array (lam t L : K) (hlam : 0 ≤ lam) (ht : 0 < t)
    (hL : ∀ d : Vector K n, vdot (mulVec M d) (mulVec M d) ≤ L * vdot d d) (htL : t * L ≤ 1)
    (x0 z : Vector K n) (k : ℕ) (hk : 1 ≤ k) :
    let prox := fun (v : Vector K n) (g : K) => proximalL1 v (lam * g)
    let T := proxGradStep (vecOps n) (vecOps m) (mulVec M) (mulVecT M) bv prox t
    let Y := fistaY (vecOps n) (vecOps m) (mulVec M) (mulVecT M) bv prox t x0
    let F := fun z : Vector K n => lsqArr M bv z + lam * l1norm z
    ∃ j, j < k ∧ 2 * t * (k : K) * (F (T (Y j)) - F z)
      ≤ vdot ((vecOps n).sub z x0) ((vecOps n).sub z x0) := by
  intro prox T Y F
  exact fista_code_best_iterate_rate bv (l1Setting M lam t hlam ht) L hL htL x0 z trivial k hk

end Quotient

/-! ## 5. The Beck–Teboulle bound fails for the iteration the code runs -/
section Counterexample

/-- `A = diag(16, 1)`: `λmax(AᵀA) = 256` -/
def D16 : Mat ℚ 2 2 := #v[#v[16, 0], #v[0, 1]]

lemma d16_L (d : Vector ℚ 2) : vdot (mulVec D16 d) (mulVec D16 d) ≤ 256 * vdot d d := by
  have e : vdot (mulVec D16 d) (mulVec D16 d) = ((16 : ℚ) * d[0]) * ((16 : ℚ) * d[0]) + d[1] * d[1] := by
    simp [mulVec, vdot, D16]
  have e' : vdot d d = d[0] * d[0] + d[1] * d[1] := by simp [vdot]
  rw [e, e']; nlinarith [mul_self_nonneg d[1]]

/-- the run of the model's FISTA (`adaptive = true`) on `½‖D16 z‖²` over the non-negative orthant,
    `t = 1/256 = 1/λmax(AᵀA)`, `abstol = 0`, 60 iterations, from `(0, 1)` -/
def ceRun : Vector ℚ 2 × ℕ :=
  fista (vecOps 2) (vecOps 2) (mulVec D16) (mulVecT D16) #v[0, 0]
    (fun v _ => projectNonnegative v) (1 / 256 : ℚ) 0 60 true #v[0, 1]

/-- **The `O(1/k²)` bound of Beck–Teboulle is false for `FISTA.solve(adaptive=True)` as written.**
    Instance: `A = diag(16,1)`, `b = 0`, `ProjectNonnegative`, constant step `t = 1/L`,
    `L = 256 = λmax(AᵀA)`, start `(0,1)`, minimiser `z⋆ = 0`.  Every hypothesis of `fista_bt_rate` holds
    (first five conjuncts), the model's loop returns after exactly `k = 60` passes, and
    `F(x_k) − F(z⋆) > 2·L·‖x₀ − z⋆‖²/(k+1)²` (`0.2120… > 0.1375…`; the same run of
    `cuqi.solver.FISTA` in floating point gives the same value).  Cause:
    `fista_adaptive_is_relaxed_proxgrad`.  The bound does hold for `btIter` on this instance
    (`fista_bt_rate`). -/
theorem fista_code_rate_counterexample :
    ProxGradSetting (vecOps 2) (vecOps 2) (mulVecL D16) (mulVecTL D16) (nonnegSet 2) (fun _ => (0 : ℚ))
        (fun v _ => projectNonnegative v) (1 / 256 : ℚ) ∧
      (∀ d : Vector ℚ 2, vdot (mulVec D16 d) (mulVec D16 d) ≤ 256 * vdot d d) ∧
      (1 / 256 : ℚ) * 256 = 1 ∧
      (#v[0, 0] : Vector ℚ 2) ∈ nonnegSet 2 ∧
      (∀ z ∈ nonnegSet (K := ℚ) 2, lsqArr D16 #v[0, 0] #v[0, 0] + 0 ≤ lsqArr D16 #v[0, 0] z + 0) ∧
      ceRun.2 = 60 ∧
      2 * 256 * vdot ((vecOps 2).sub (#v[0, 1] : Vector ℚ 2) #v[0, 0]) ((vecOps 2).sub #v[0, 1] #v[0, 0])
          / ((60 : ℚ) + 1) ^ 2
        < lsqArr D16 #v[0, 0] ceRun.1 - lsqArr D16 #v[0, 0] #v[0, 0] := by
  refine ⟨nonnegSetting D16 (1 / 256) (by norm_num), d16_L, by norm_num, ?_, ?_, by decide +kernel,
    by decide +kernel⟩
  · intro i; fin_cases i <;> simp
  · intro z _
    have h0 : lsqArr D16 #v[0, 0] (#v[0, 0] : Vector ℚ 2) = 0 := by decide +kernel
    have h1 : 0 ≤ lsqArr D16 #v[0, 0] z := by
      unfold lsqArr
      exact div_nonneg ((vdot_isIP 2).nonneg _) (by norm_num)
    rw [h0]; linarith

end Counterexample

/-! ## 5b. No bound of the form `c·L‖x₀−x⋆‖²/(k+1)²` holds for the code's iteration, whatever `c` -/
section NoRate

/-- scalars as a module over themselves: `V = W = K`, `dot = ·*·` -/
abbrev sOps (K : Type) [Field K] : VOps K K := VOps.ofModule K K (· * ·)

/-- `F(z) = ½ z²` (`A = id`, `b = 0`, `g = 0`, `prox = identity`), any step `ε > 0` -/
lemma scalarSetting (ε : K) (hε : 0 < ε) :
    ProxGradSetting (sOps K) (sOps K) (LinearMap.id : K →ₗ[K] K) LinearMap.id Set.univ (fun _ => 0)
      (fun v _ => v) ε where
  lawV := VOps.ofModule_lawful K K _
  lawW := VOps.ofModule_lawful K K _
  ipV := ⟨fun a b c => by simp [VOps.ofModule]; ring, fun t a c => by simp [VOps.ofModule]; ring,
    fun a b => by simp [VOps.ofModule]; ring, fun a => by simp [VOps.ofModule]; exact mul_self_nonneg a⟩
  ipW := ⟨fun a b c => by simp [VOps.ofModule]; ring, fun t a c => by simp [VOps.ofModule]; ring,
    fun a b => by simp [VOps.ofModule]; ring, fun a => by simp [VOps.ofModule]; exact mul_self_nonneg a⟩
  defn v h := by simpa [VOps.ofModule] using h
  adj v w := by simp [VOps.ofModule]
  convex := ⟨fun _ _ _ _ _ _ _ => trivial, fun _ _ _ _ _ _ _ => by simp⟩
  tpos := hε
  isProx v := ⟨trivial, fun z _ => by
    show (v - v) * (v - v) / 2 + ε * 0 ≤ (z - v) * (z - v) / 2 + ε * 0
    have := mul_self_nonneg (z - v); simp; positivity⟩

lemma scalar_T (ε y : K) :
    proxGradStep (sOps K) (sOps K) (LinearMap.id : K →ₗ[K] K) (LinearMap.id : K →ₗ[K] K) 0
      (fun v _ => v) ε y = (1 - ε) * y := by
  simp [proxGradStep, VOps.ofModule]; ring

lemma scalar_Y (ε : K) (hε : 0 < ε) (j : ℕ) :
    fistaY (sOps K) (sOps K) (LinearMap.id : K →ₗ[K] K) (LinearMap.id : K →ₗ[K] K) 0 (fun v _ => v) ε 1 (j + 1)
      = (1 - (1 + codeBeta j) * ε)
        * fistaY (sOps K) (sOps K) (LinearMap.id : K →ₗ[K] K) (LinearMap.id : K →ₗ[K] K) 0 (fun v _ => v) ε 1 j := by
  have h := (fista_adaptive_is_relaxed_proxgrad (0 : K) (scalarSetting ε hε) 0 0 1).2 j
  rw [h, scalar_T, smul_eq_mul]; ring

lemma scalar_Y_bounds (ε : K) (hε : 0 < ε) (hε2 : ε ≤ 1 / 2) (j : ℕ) :
    let Y := fistaY (sOps K) (sOps K) (LinearMap.id : K →ₗ[K] K) (LinearMap.id : K →ₗ[K] K) 0 (fun v _ => v) ε 1
    0 ≤ Y j ∧ Y j ≤ 1 ∧ 1 - 2 * ε * (j : K) ≤ Y j := by
  intro Y
  induction j with
  | zero =>
    have e : Y 0 = 1 := rfl
    rw [e]; simp
  | succ j ih =>
    obtain ⟨h0, h1, h2⟩ := ih
    have e : Y (j + 1) = (1 - (1 + codeBeta j) * ε) * Y j := scalar_Y ε hε j
    have hb0 : (0 : K) ≤ codeBeta j := codeBeta_nonneg j
    have hb1 : (codeBeta j : K) ≤ 1 := codeBeta_le_one j
    have hc1 : (1 + codeBeta j) * ε ≤ 2 * ε := by nlinarith
    have hc0 : 0 ≤ (1 + codeBeta j) * ε := by positivity
    have hc : 0 ≤ 1 - (1 + codeBeta j) * ε := by linarith
    rw [e]
    refine ⟨mul_nonneg hc h0, ?_, ?_⟩
    · nlinarith
    · push_cast
      nlinarith

/-- **The code's FISTA is not `O(1/k²)` uniformly in the problem, with any constant.**  For every
    natural `N ≥ 1` take `F(z) = ½z²` on `K` (`A = id`, `b = 0`, no regulariser), step `t = 1/(256N)`
    (`L = 256N ≥ 1 = λmax(AᵀA)`, `t·L = 1`), start `1`, minimiser `0`, and run the model's `fista`
    with `adaptive = true`, `maxit = 64N`, never-firing tolerance: it returns after `k = 64N` passes
    and `F(x_k) − F(0) > N·L·‖x₀ − 0‖²/(k+1)²`.  (Beck–Teboulle's constant is `2`; `fista_bt_rate` shows
    the bound with `2` for `btIter` on the same instances, which satisfy all its hypotheses —
    `scalarSetting`.)  The cause is the over-relaxation form of the extrapolation
    (`fista_adaptive_is_relaxed_proxgrad`): on a direction with curvature `a ≪ L` the iterate contracts
    by `1 − (1+β_k)a/L ≥ 1 − 2a/L` per pass, as gradient descent with a doubled step does. -/
theorem fista_code_not_order_k2 (N : ℕ) (hN : 1 ≤ N) :
    let t : K := 1 / (256 * (N : K))
    let L : K := 256 * (N : K)
    let r := fista (sOps K) (sOps K) (LinearMap.id : K →ₗ[K] K) (LinearMap.id : K →ₗ[K] K) 0
      (fun v _ => v) t (-1) (64 * N) true 1
    let F := fun z : K => lsq (sOps K).dot (LinearMap.id : K →ₗ[K] K) 0 z + 0
    t * L = 1 ∧ (∀ d : K, (sOps K).dot d d ≤ L * (sOps K).dot d d) ∧ (∀ z : K, F 0 ≤ F z) ∧
      r.2 = 64 * N ∧
      (N : K) * L * (sOps K).dot (1 - 0) (1 - 0) / (((64 * N : ℕ) : K) + 1) ^ 2 < F r.1 - F 0 := by
  intro t L r F
  have hNK : (1 : K) ≤ (N : K) := by exact_mod_cast hN
  have hNpos : (0 : K) < (N : K) := by linarith
  have ht : 0 < t := by positivity
  have ht2 : t ≤ 1 / 2 := by
    show 1 / (256 * (N : K)) ≤ 1 / 2
    apply div_le_div_of_nonneg_left <;> first | positivity | nlinarith
  have hF : ∀ z : K, F z = z * z / 2 := by
    intro z; simp [F, lsq, VOps.ofModule]
  have H := scalarSetting t ht
  -- what the loop returns
  obtain ⟨⟨j, hr, hj, hstop⟩, -⟩ := fista_adaptive_is_relaxed_proxgrad (0 : K) H (-1) (64 * N) 1
  have hjeq : j + 1 = 64 * N := by
    by_contra hne
    have hlt : j + 1 < 64 * N := by omega
    have := hstop hlt
    simp [fistaSmall] at this
  have hr' : r = ((1 - t) * fistaY (sOps K) (sOps K) (LinearMap.id : K →ₗ[K] K) (LinearMap.id : K →ₗ[K] K) 0
      (fun v _ => v) t 1 j, j + 1) := by
    rw [← scalar_T]; exact hr
  obtain ⟨hY0, hY1, hYl⟩ := scalar_Y_bounds t ht ht2 j
  set y := fistaY (sOps K) (sOps K) (LinearMap.id : K →ₗ[K] K) (LinearMap.id : K →ₗ[K] K) 0
      (fun v _ => v) t 1 j with hy
  have htN : t * (256 * (N : K)) = 1 := by
    show 1 / (256 * (N : K)) * (256 * (N : K)) = 1
    field_simp
  have hjK : (j : K) + 1 = 64 * (N : K) := by exact_mod_cast hjeq
  have hyhalf : 1 / 2 ≤ y := by
    have : 2 * t * (j : K) ≤ 1 / 2 := by
      have : 2 * t * (j : K) = 2 * t * (64 * (N : K)) - 2 * t := by rw [← hjK]; ring
      nlinarith
    linarith
  have hx : 3 / 8 ≤ (1 - t) * y := by
    have : (3 : K) / 4 ≤ 1 - t := by
      have : t ≤ 1 / 256 := by
        show 1 / (256 * (N : K)) ≤ 1 / 256
        apply div_le_div_of_nonneg_left <;> first | positivity | nlinarith
      linarith
    nlinarith
  refine ⟨htN, fun d => ?_, fun z => ?_, ?_, ?_⟩
  · have hd : 0 ≤ (sOps K).dot d d := by simp [VOps.ofModule]; exact mul_self_nonneg d
    have : (1 : K) ≤ L := by show (1 : K) ≤ 256 * (N : K); linarith
    nlinarith
  · rw [hF, hF]; have := mul_self_nonneg z; simp; positivity
  · rw [hr']; exact hjeq
  · rw [hF, hF, hr']
    have hdot : (sOps K).dot (1 - 0) (1 - 0) = 1 := by simp [VOps.ofModule]
    rw [hdot]
    have hcast : (((64 * N : ℕ) : K)) = 64 * (N : K) := by push_cast; ring
    rw [hcast]
    have hden : (0 : K) < (64 * (N : K) + 1) ^ 2 := by positivity
    have hlt : (N : K) * L * 1 / (64 * (N : K) + 1) ^ 2 < 1 / 16 := by
      rw [div_lt_iff₀ hden]
      show (N : K) * (256 * (N : K)) * 1 < 1 / 16 * (64 * (N : K) + 1) ^ 2
      nlinarith
    have hsq : 9 / 64 ≤ (1 - t) * y * ((1 - t) * y) := by nlinarith
    simp only [zero_mul, zero_div, sub_zero]
    linarith

end NoRate

/-! ## 6. Instances: every theorem above at a concrete non-trivial problem -/
section Examples

/-- `M32 = [[1,1],[0,1],[1,0]]`, `b = (2,1,3)`, non-negativity constraint, `t = 1/4`, `L = 3` -/
lemma H32 : ProxGradSetting (vecOps 2) (vecOps 3) (mulVecL M32) (mulVecTL M32) (nonnegSet 2)
    (fun _ => (0 : ℚ)) (fun v _ => projectNonnegative v) (1 / 4 : ℚ) :=
  nonnegSetting M32 (1 / 4) (by norm_num)

/-- the minimiser `(7/3, 1/3)` of `½‖M32 z − b‖²` over the orthant -/
def z32 : Vector ℚ 2 := #v[7 / 3, 1 / 3]

lemma z32_mem : z32 ∈ nonnegSet (K := ℚ) 2 := by
  intro i; fin_cases i <;> simp [z32] <;> norm_num

lemma z32_min : ∀ z ∈ nonnegSet (K := ℚ) 2,
    lsq (vecOps 3).dot (mulVecL M32) (#v[2, 1, 3] : Vector ℚ 3) z32 + 0
      ≤ lsq (vecOps 3).dot (mulVecL M32) (#v[2, 1, 3] : Vector ℚ 3) z + 0 :=
  (ista_step_fixed_iff_min (#v[2, 1, 3] : Vector ℚ 3) H32 z32 z32_mem).1 (by decide +kernel)

example := proxgrad_fundamental_inequality (#v[2, 1, 3] : Vector ℚ 3) H32 #v[5, -7] z32 z32_mem
/-- general weights: `β = 0`, `τ = 1` is ISTA; the code's factor with `τ_k = (k+2)/2` is `fista_bt_rate` -/
example := fista_bt_weighted_telescoping (#v[2, 1, 3] : Vector ℚ 3) H32 3 m32_L (by norm_num)
  (fun _ => 0) (fun _ => 1) rfl (fun _ => le_rfl) (fun _ => by norm_num) (fun _ => by norm_num)
  #v[5, -7] z32 z32_mem z32_min 7
example := fista_bt_rate (#v[2, 1, 3] : Vector ℚ 3) H32 3 m32_L (by norm_num) #v[5, -7] z32 z32_mem z32_min 10
  (by norm_num)
/-- on the instance of the counterexample the Beck–Teboulle iteration does obey the bound -/
example := (fista_bt_rate (#v[0, 0] : Vector ℚ 2) fista_code_rate_counterexample.1 256 d16_L (by norm_num)
  #v[0, 1] #v[0, 0] fista_code_rate_counterexample.2.2.2.1 fista_code_rate_counterexample.2.2.2.2.1 60
  (by norm_num)).2 (by norm_num)
example := fista_repaired_rate (#v[2, 1, 3] : Vector ℚ 3) H32 3 m32_L (by norm_num) (1 / 100) 20 #v[5, -7] z32
  z32_mem z32_min
/-- the repaired loop on the instance of the counterexample: 60 passes, error below the bound -/
example : (fistaBT (vecOps 2) (vecOps 2) (mulVec D16) (mulVecT D16) #v[0, 0]
      (fun v _ => projectNonnegative v) (1 / 256 : ℚ) 0 60 #v[0, 1]).2 = 60 ∧
    lsqArr D16 #v[0, 0] (fistaBT (vecOps 2) (vecOps 2) (mulVec D16) (mulVecT D16) #v[0, 0]
      (fun v _ => projectNonnegative v) (1 / 256 : ℚ) 0 60 #v[0, 1]).1 < 1 / 100 := by decide +kernel
example := fista_adaptive_is_relaxed_proxgrad (#v[2, 1, 3] : Vector ℚ 3) H32 (1 / 100) 20 #v[5, -7]
example := fista_code_weighted_sum (#v[2, 1, 3] : Vector ℚ 3) H32 3 m32_L (by norm_num) #v[5, -7] z32 z32_mem 10
example := fista_code_best_iterate_rate (#v[2, 1, 3] : Vector ℚ 3) H32 3 m32_L (by norm_num) #v[5, -7] z32
  z32_mem 10 (by norm_num)

example := ista_rate_quotient (#v[2, 1, 3] : Vector ℚ 3) H32 3 m32_L (by norm_num) #v[5, -7] z32 z32_mem 10
  (by norm_num)
/-- `λ = ½`: the minimiser of `½‖M32 z − b‖² + ½‖z‖₁` is `(13/6, 1/6)` (fixed point, run by the kernel) -/
example := fista_bt_l1_rate_array M32 #v[2, 1, 3] (1 / 2) (1 / 4) 3 (by norm_num) (by norm_num) m32_L (by norm_num)
  #v[5, -7] #v[13 / 6, 1 / 6]
  (fun z => by
    have h := (ista_step_fixed_iff_min (#v[2, 1, 3] : Vector ℚ 3)
      (l1Setting M32 (1 / 2) (1 / 4) (by norm_num) (by norm_num)) #v[13 / 6, 1 / 6] trivial).1
      (by decide +kernel) z trivial
    exact h) 10 (by norm_num)
example := fista_code_l1_best_iterate_array M32 #v[2, 1, 3] (1 / 2) (1 / 4) 3 (by norm_num) (by norm_num) m32_L
  (by norm_num) #v[5, -7] #v[1, 1] 10 (by norm_num)
example := fista_code_not_order_k2 (K := ℚ) 3 (by norm_num)

/-- the first extrapolation at which the two iterations differ is the third gradient point:
    `y_2` coincide, `y_3` do not (same instance) -/
example : (btIter (vecOps 2) (vecOps 3) (mulVec M32) (mulVecT M32) #v[2, 1, 3]
      (fun v _ => projectNonnegative v) (1 / 4 : ℚ) codeBeta #v[5, 7] 2).2
    = fistaY (vecOps 2) (vecOps 3) (mulVec M32) (mulVecT M32) #v[2, 1, 3]
      (fun v _ => projectNonnegative v) (1 / 4 : ℚ) #v[5, 7] 2 := by decide +kernel
example : (btIter (vecOps 2) (vecOps 3) (mulVec M32) (mulVecT M32) #v[2, 1, 3]
      (fun v _ => projectNonnegative v) (1 / 4 : ℚ) codeBeta #v[5, 7] 3).2
    ≠ fistaY (vecOps 2) (vecOps 3) (mulVec M32) (mulVecT M32) #v[2, 1, 3]
      (fun v _ => projectNonnegative v) (1 / 4 : ℚ) #v[5, 7] 3 := by decide +kernel

end Examples

/-! `ℝ` instance for the `√`-sequence theorem: scalars as a module over themselves, `A = id`, `g = 0` -/
section RealExample

lemma Hreal : ProxGradSetting (sOps ℝ) (sOps ℝ) (LinearMap.id : ℝ →ₗ[ℝ] ℝ) LinearMap.id Set.univ
    (fun _ => 0) (fun v _ => v) (1 / 2) := scalarSetting (1 / 2) (by norm_num)

example := fista_bt_rate_sqrt_sequence (5 : ℝ) Hreal 1 (fun d => by show d * d ≤ 1 * (d * d); linarith)
  (by norm_num) (-3) 5 trivial
  (fun z _ => by
    show lsq _ _ _ _ + 0 ≤ lsq _ _ _ _ + 0
    unfold lsq
    show ((5 : ℝ) - 5) * (5 - 5) / 2 + 0 ≤ (z - 5) * (z - 5) / 2 + 0
    have := mul_self_nonneg (z - 5); simp; positivity) 12 (by norm_num)

end RealExample

end CuqiVerif.C16
