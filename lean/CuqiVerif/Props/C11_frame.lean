import CuqiVerif.Props.C11
import CuqiVerif.Proofs.C11_frame

/-!
# C11 — frame theorems for the operational heap model

All theorems are about the executable heap semantics of `Model/C11.lean` — the SAME definitions
the driver runs: a state `St` is a heap (`Array Obj`, address ↦ class tag + attribute ↦
value-or-reference) plus the write log; the deriving operations of the library (`St.run op`:
conditioning = shallow copy + re-binding, `to_likelihood`, model application, joint reduction
with `_constant` accumulation, evaluation, the Gibbs constructors' `target()` and re-conditioning
stream) are heap transformers built from `St.alloc` and `St.write` only.

`Props/C11.lean` proves that *non-exempt* attributes of old objects are stable and that the log
is fresh-or-exempt.  It says nothing about the exempt attributes (benign caches, array content)
and does not use that the log is *complete*.  This file closes that gap:

* the **write set** an operation reports (`writeSet s op`, the log segment it adds — the list
  whose filters `escapes` / `benignEscapes` the driver prints and the tie compares with the
  traced `__setattr__` events) is complete: an old object whose address is not in it has the
  *same class and the same full attribute map* afterwards (frame);
* every reported write goes to an address allocated by the sequence or is one of the FOUR
  in-place writes of the code (`Fld.inplace`: `_Gaussian.mean`, `_Gaussian.cov`,
  `_gaussian._name`, and the content of an ndarray `_constant` — the known finding), each of
  which is a row of the AST-derived table `Generated/C11WriteSets.lean`;
* under the exact side condition of the finding (no `_constant` refers to an array object below
  the watermark) the in-place array write never reaches an object below the watermark, for
  sequences of any length;
* results are fresh and allocated addresses; attributes shared by reference are read-only.

Helper lemmas (the walk over all operations for the event-level relation `FStep`, and the
simulation `FStep.toStep` onto the relation of `Props/C11.lean`) are in `Proofs/C11_frame.lean`.
-/
namespace CuqiVerif.C11

/-! ## definitions (executable, core Lean only) -/

/-- the write set the model reports for one operation: the log segment the operation adds
    (newest first) -/
def writeSet (s : St) (op : Op) : List (Nat × Fld) := added s (s.run op).1

/-- the write sets of the operations of a sequence, newest first -/
def writeSets (s : St) : List Op → List (Nat × Fld)
  | [] => []
  | op :: ops => writeSets (s.run op).1 ops ++ writeSet s op

/-- the side condition of the known finding, decidable form: no object of the heap holds an
    ndarray as `_constant` (true of every user-constructed density: a `_constant` becomes an
    array only through `_add_constants_to_density`) -/
def St.scalarConsts (s : St) : Bool :=
  (List.range s.size).all (fun a => match s.get a .const with | .ref _ => false | _ => true)

/-- decidable form of "no object of the heap holds `c` as its shared Gaussian (`_Gaussian`), its
    inner Gaussian (`_gaussian`) or its array-typed `_constant`" -/
def St.unheld (s : St) (c : Nat) : Bool :=
  (List.range s.size).all (fun d => [Fld.cacheG, Fld.gauss, Fld.const].all (fun hf => s.get d hf != .ref c))

/-- the benign caches the code re-synchronises in place on a *held* object -/
def Fld.resynced : Fld → Bool
  | .cmean | .ccov | .syncName => true
  | _ => false

/-- the row of the AST-derived write table that an in-place write of the heap model transcribes -/
def tableRow : Fld → Option Gen.W
  | .cmean => some ⟨"Lognormal", "_normal", .selfField, "self._Gaussian", "mean", "assign"⟩
  | .ccov => some ⟨"Lognormal", "_normal", .selfField, "self._Gaussian", "cov", "assign"⟩
  | .syncName => some ⟨"RegularizedGaussian", "gaussian", .selfField, "self._gaussian", "_name", "assign"⟩
  | .cval => some ⟨"JointDistribution", "_add_constants_to_density", .param, "<param>", "_constant", "aug"⟩
  | _ => none

/-- the row (class, method, attribute) of the AST-derived write table that a write of attribute
    `f` on a FRESH object transcribes (`<dynamic>` = the `setattr` loop of `Distribution._condition`,
    which also re-binds the property `_normal` of a Lognormal and `likelihood` / `prior` of a Posterior) -/
def tableRowFresh : Fld → Option (String × String × String)
  | .orig => some ("Density", "_make_copy", "_original_density")
  | .slot _ | .cacheG | .lik | .prior => some ("Distribution", "_condition", "<dynamic>")
  | .gauss => some ("RegularizedGaussian", "_condition", "_gaussian")
  | .distr => some ("Likelihood", "_condition", "distribution")
  | .dens => some ("JointDistribution", "_condition", "_densities")
  | .const => some ("JointDistribution", "_add_constants_to_density", "_constant")
  | .args => some ("Model", "forward", "_non_default_args")
  | _ => none

def rowInTable (r : String × String × String) : Bool :=
  Gen.writes.any (fun x => x.cls == r.1 && x.meth == r.2.1 && x.field == r.2.2 && allowed x)

/-! ## bridging lemmas -/

lemma writable_row (f : Fld) (h : f.writable = true) :
    f.inplace = true ∨ ∃ r, tableRowFresh f = some r ∧ rowInTable r = true := by
  cases f <;> first | exact Or.inl rfl | exact Or.inr ⟨_, rfl, by decide⟩ | cases h


lemma run_log (s : St) (op : Op) : (s.run op).1.log = writeSet s op ++ s.log := by
  obtain ⟨add, hl, _⟩ := (run_fstep (Nat.le_refl s.size) op).seg
  unfold writeSet
  rw [added_eq hl]; exact hl

lemma runAll_log (s : St) (ops : List Op) : (s.runAll ops).log = writeSets s ops ++ s.log := by
  induction ops generalizing s with
  | nil => simp [writeSets, St.runAll]
  | cons op ops ih =>
    unfold St.runAll writeSets
    rw [ih, run_log, List.append_assoc]

lemma runAll_spec {n : Nat} (s : St) (hn : n ≤ s.size) (ops : List Op) :
    (∀ a f, a < s.size → (a, f) ∉ writeSets s ops → (s.runAll ops).get a f = s.get a f) ∧
    (∀ w, w ∈ writeSets s ops → (n ≤ w.1 ∨ w.2.inplace = true) ∧ w.2.writable = true) ∧
    (∀ P, Held n P s → ∀ w, w ∈ writeSets s ops → n ≤ w.1 ∨
       ∃ hf c, holder w.2 = some hf ∧ ownerOk w.2 c = true ∧ P hf c w.1) := by
  have h := runAll_fstep ops s hn
  obtain ⟨add, hl, hg, hc, ha⟩ := h.seg
  have e : writeSets s ops = add := by
    rw [← added_eq (runAll_log s ops), added_eq hl]
  rw [e]
  exact ⟨hg, hc, ha⟩

lemma runAll_arr {n : Nat} (s : St) (hn : n ≤ s.size) (ops : List Op) (harr : ArrFresh n s)
    (w : Nat × Fld) (hw : w ∈ writeSets s ops) (hc : w.2 = .cval) : n ≤ w.1 := by
  rcases (runAll_spec s hn ops).2.2 _ (held_of_arrFresh harr) w hw with h | ⟨hf, _, e, _, hne⟩
  · exact h
  · rw [hc] at e
    simp only [holder, Option.some.injEq] at e
    exact absurd e.symm hne

lemma unheld_spec {s : St} {c : Nat} (h : s.unheld c = true) :
    ∀ hf d, hf.isHolder = true → s.get d hf ≠ .ref c := by
  intro hf d hh hg
  have hd : d < s.size := lt_of_get_ref hg
  unfold St.unheld at h
  rw [List.all_eq_true] at h
  have h1 := h d (List.mem_range.2 hd)
  rw [List.all_eq_true] at h1
  have h2 : hf ∈ [Fld.cacheG, Fld.gauss, Fld.const] := by
    cases hf <;> first | (simp; done) | cases hh
  have h3 := h1 hf h2
  rw [hg] at h3
  simp at h3

lemma scalarConsts_arrFresh {s : St} (h : s.scalarConsts = true) (n : Nat) : ArrFresh n s := by
  intro a c hc
  have ha : a < s.size := lt_of_get_ref hc
  unfold St.scalarConsts at h
  rw [List.all_eq_true] at h
  have := h a (List.mem_range.2 ha)
  rw [hc] at this
  exact absurd this (by simp)

lemma resynced_of_inplace {f : Fld} (h : f.inplace = true) (hc : f ≠ .cval) : f.resynced = true := by
  cases f <;> first | rfl | exact absurd rfl hc | cases h

lemma resynced_benign {f : Fld} (h : f.resynced = true) : f.benign = true := by
  cases f <;> first | rfl | cases h

/-! ## 1. the reported write sets are complete: the frame theorem on full attribute maps -/

/-- **op_frame_heap.**  One operation on any heap, receiver and arguments.  The log grows by
    exactly the reported write set; every object that existed before keeps its class; and every
    attribute — benign caches and array content included — of every such object is unchanged
    unless the pair (address, attribute) is in the reported write set.  For the code: whatever
    `cond` / `logd` / `gradient` / `sample` / `to_likelihood` / `model(dist)` / `JointDistribution(…)`
    changes on a pre-existing object, it changes through a write the model logs — and the logged
    writes are what the tie compares with the traced attribute writes of the running code. -/
theorem op_frame_heap (s : St) (op : Op) :
    (s.run op).1.log = writeSet s op ++ s.log ∧
    ∀ a, a < s.size → (s.run op).1.cls a = s.cls a ∧
      ∀ f, (a, f) ∉ writeSet s op → (s.run op).1.get a f = s.get a f := by
  have h := run_fstep (Nat.le_refl s.size) op
  obtain ⟨add, hl, hg, _, _⟩ := h.seg
  have e : writeSet s op = add := by unfold writeSet; exact added_eq hl
  rw [e]
  exact ⟨hl, fun a ha => ⟨h.cls a ha, fun f hf => hg a f ha hf⟩⟩

-- conditioning `exDist` on `v3 = 5`: the reported write set is two writes to the NEW object 1
example : writeSet exDist (.cond 0 [(3, 5)]) = [(1, .slot 0), (1, .orig)] := by decide

/-- **sequence_frame_heap** (frame).  For every sequence of deriving / evaluating operations, of
    any length, on arbitrary addresses (originals and anything derived from them): every address
    allocated before the sequence that is not the target of a write in the write sets the model
    reports for the operations of the sequence holds *the same object* afterwards — same class
    tag, same full attribute map. -/
theorem sequence_frame_heap (s : St) (ops : List Op) (a : Nat) (ha : a < s.size)
    (hw : a ∉ (writeSets s ops).map Prod.fst) : (s.runAll ops).obj a = s.obj a := by
  have h := runAll_fstep ops s (Nat.le_refl s.size)
  apply obj_eq_of _ _ _ (h.cls a ha)
  intro f
  apply (runAll_spec s (Nat.le_refl s.size) ops).1 a f ha
  intro hm
  exact hw (List.mem_map.2 ⟨(a, f), hm, rfl⟩)

/-- … and attribute-wise: an attribute of a pre-existing object changes only if that very
    (address, attribute) pair is reported; the log of the sequence is the concatenation of the
    per-operation write sets. -/
theorem sequence_writes_logged (s : St) (ops : List Op) :
    (s.runAll ops).log = writeSets s ops ++ s.log ∧
    ∀ a f, a < s.size → (a, f) ∉ writeSets s ops → (s.runAll ops).get a f = s.get a f :=
  ⟨runAll_log s ops, (runAll_spec s (Nat.le_refl s.size) ops).1⟩

/-- a Lognormal (object 1) with its shared Gaussian cache (object 0, stale values 9, 9) -/
def exLognormal : St :=
  ⟨#[Obj.ofList .cache [(.cmean, .num 9), (.ccov, .num 9)],
     Obj.ofList .lognormal [(.name, .num 0), (.slot 0, .num 1), (.slot 1, .num 2), (.cacheG, .ref 0)]], []⟩

-- `gradient` then `sample` then `()`: the only old object written is the shared Gaussian (object 0),
-- so the Lognormal itself (object 1) is literally the same object afterwards
example : (writeSets exLognormal [.grad 1, .sample 1, .cond 1 []]).filter (fun w => w.1 < 2)
    = [(0, .ccov), (0, .cmean)] := by decide
example : (exLognormal.runAll [.grad 1, .sample 1, .cond 1 []]).obj 1 = exLognormal.obj 1 :=
  sequence_frame_heap _ _ 1 (by decide) (by decide)

/-! ## 2. what the reported writes can be -/

/-- **write_sets_fresh_or_inplace.**  Every write reported for any sequence of operations targets
    an address allocated by the sequence itself (fresh), or is one of the four in-place writes of
    the code: `Lognormal._normal` re-synchronising `mean` / `cov` of its shared Gaussian,
    `RegularizedGaussian.gaussian` pushing `_name` onto its inner Gaussian, and
    `density._constant += …` adding into an ndarray.  In particular `_mutable_vars`,
    `_variable_name`, `_Gaussian` and every ordinary attribute of a pre-existing object are never
    written (sharper than the `exempt` classification of `sequence_frame_partial`). -/
theorem write_sets_fresh_or_inplace (s : St) (ops : List Op) (w : Nat × Fld) (hw : w ∈ writeSets s ops) :
    s.size ≤ w.1 ∨ w.2.inplace = true :=
  ((runAll_spec s (Nat.le_refl s.size) ops).2.1 w hw).1

example : ∀ w ∈ writeSets exLognormal [.grad 1, .sample 1, .cond 1 []], 2 ≤ w.1 ∨ w.2.inplace = true :=
  fun w hw => write_sets_fresh_or_inplace _ _ w hw

/-- **Consequence on attribute maps**: for any sequence, every attribute other than those four of
    every pre-existing object is unchanged (benign caches `_mutable_vars`, `_variable_name`,
    `_Gaussian` included, which `sequence_frame_partial` leaves open). -/
theorem sequence_frame_all_but_inplace (s : St) (ops : List Op) (a : Nat) (f : Fld) (ha : a < s.size)
    (hf : f.inplace = false) : (s.runAll ops).get a f = s.get a f := by
  apply (runAll_spec s (Nat.le_refl s.size) ops).1 a f ha
  intro hm
  rcases ((runAll_spec s (Nat.le_refl s.size) ops).2.1 _ hm).1 with h | h
  · exact absurd h (by simp only; omega)
  · rw [hf] at h; exact absurd h (by decide)

example : (exLognormal.runAll [.grad 1, .sample 1, .cond 1 []]).get 1 .cacheG = .ref 0 := by
  rw [sequence_frame_all_but_inplace _ _ 1 .cacheG (by decide) rfl]; decide

/-- **inplace_targets_are_held** (the precise write set).  For every sequence of operations, a
    reported write to an address that existed before the sequence is not only one of the four
    in-place writes: its target is an object that, in the heap *before* the sequence, some object
    `d` of the right class holds through the corresponding attribute — `mean` / `cov` are written
    only on what some *Lognormal* holds as `_Gaussian`, `_name` only on what some
    *RegularizedGaussian* holds as `_gaussian`, array content only on what some object holds as
    `_constant`.  These are literally the non-fresh rows of the table
    (`Lognormal._normal: self._Gaussian.mean/cov = …`, `RegularizedGaussian.gaussian:
    self._gaussian._name = …`, `_add_constants_to_density: density._constant += …`); copies only
    ever share what an object of their own class held. -/
theorem inplace_targets_are_held (s : St) (ops : List Op) (w : Nat × Fld) (hw : w ∈ writeSets s ops) :
    s.size ≤ w.1 ∨
    ∃ hf d, holder w.2 = some hf ∧ s.get d hf = .ref w.1 ∧ ownerOk w.2 (s.cls d) = true := by
  have hP : Held s.size (fun hf c g => ∃ d, s.get d hf = .ref g ∧ s.cls d = c) s :=
    fun hf a g _ hg => Or.inr ⟨a, hg, rfl⟩
  rcases (runAll_spec s (Nat.le_refl s.size) ops).2.2 _ hP w hw with h | ⟨hf, c, e, hok, d, hd, hc⟩
  · exact Or.inl h
  · exact Or.inr ⟨hf, d, e, hd, by rw [hc]; exact hok⟩

example : ∀ w ∈ writeSets exLognormal [.grad 1, .sample 1, .cond 1 []],
    2 ≤ w.1 ∨ ∃ hf d, holder w.2 = some hf ∧ exLognormal.get d hf = .ref w.1 ∧
      ownerOk w.2 (exLognormal.cls d) = true :=
  fun w hw => inplace_targets_are_held _ _ w hw

/-- **unheld_objects_untouched** (frame, at full strength for everything that is not an internal
    helper object).  An object that no object of the initial heap holds as `_Gaussian`,
    `_gaussian` or array `_constant` — every distribution, likelihood, posterior, joint, model,
    geometry a user constructs — is *never written at all*, by any sequence of operations of any
    length on any receivers: it holds literally the same object (class and full attribute map,
    all benign caches included) afterwards.  (This is about the object itself; what it *reaches*
    through `_Gaussian` / `_gaussian` / `_constant` can be written in place — benign
    re-synchronisations, and the array `+=` excluded by `originals_never_altered_partial`.) -/
theorem unheld_objects_untouched (s : St) (ops : List Op) (c : Nat) (hc : c < s.size)
    (hun : ∀ hf d, hf.isHolder = true → s.get d hf ≠ .ref c) :
    c ∉ (writeSets s ops).map Prod.fst ∧ (s.runAll ops).obj c = s.obj c := by
  have hnot : c ∉ (writeSets s ops).map Prod.fst := by
    intro hm
    obtain ⟨w, hw, hwc⟩ := List.mem_map.1 hm
    rcases inplace_targets_are_held s ops w hw with h | ⟨hf, d, e, hd, _⟩
    · omega
    · rw [hwc] at hd
      exact hun hf d (holder_isHolder e) hd
  exact ⟨hnot, sequence_frame_heap s ops c hc hnot⟩

-- WHATEVER is done, in any order and any number of times, the Lognormal (object 1) stays literally
-- the same object; only the Gaussian it holds as `_Gaussian` (object 0) is ever re-synchronised
example (ops : List Op) : (exLognormal.runAll ops).obj 1 = exLognormal.obj 1 :=
  (unheld_objects_untouched exLognormal ops 1 (by decide) (unheld_spec (by decide))).2
example : exLognormal.unheld 0 = false := by decide

/-! ## 3. full strength under the exact side condition of the known finding -/

/-
  FULL-STRENGTH STATEMENT (not provable — it is FALSE for the model, which is faithful to the code;
  refuted by `originals_never_altered_counterexample` below and by `reduce_inplace_counterexample`
  of `Props/C11.lean`; known finding `alter-constant:ndarray-inplace`):

    theorem originals_never_altered (s : St) (ops : List Op) :
        (∀ w, w ∈ writeSets s ops → s.size ≤ w.1 ∨ w.2.resynced = true) ∧
        (∀ a f, a < s.size → f.benign = false → (s.runAll ops).get a f = s.get a f)

  What is missing in the `_partial` version is exactly the hypothesis `ArrFresh n s`: no `_constant`
  refers to an array object below the watermark.  With it the statement is proved for every
  watermark, every heap and every sequence; without it the only additional writes are
  `(cell, _constant[...])` with `cell` held as `_constant` by some object (`inplace_targets_are_held`).
-/

/-- **originals_never_altered_partial** (the full-strength frame statement, under exactly the side
    condition the write table's `_constant +=` row leaves open).  Let `n` be a watermark
    (`n ≤ s.size`; the objects below `n` are "the originals") such that no `_constant` anywhere in
    the heap refers to an array object below `n` (`ArrFresh n s`: array constants arise only from
    `_add_constants_to_density`, i.e. on *derived* densities, whose arrays are allocated later).
    Then for every sequence of operations of any length, on originals and derived objects alike:
    every reported write below `n` is a re-synchronisation of a benign cache (`mean` / `cov` of a
    Lognormal's shared Gaussian, `_name` of a RegularizedGaussian's inner Gaussian); hence EVERY
    non-benign attribute of every original — array content included — and the value of its
    `_constant` are unchanged, and the side condition is preserved.
    So the in-place `_constant +=` (known finding) can alter densities produced by a joint
    reduction, never a user-constructed original. -/
theorem originals_never_altered_partial (n : Nat) (s : St) (hn : n ≤ s.size) (harr : ArrFresh n s) (ops : List Op) :
    (∀ w, w ∈ writeSets s ops → n ≤ w.1 ∨ w.2.resynced = true) ∧
    (∀ a f, a < n → f.benign = false → (s.runAll ops).get a f = s.get a f) ∧
    (∀ a, a < n → (∀ c, s.get a .const = .ref c → c < n) → constContent (s.runAll ops) a = constContent s a) ∧
    ArrFresh n (s.runAll ops) := by
  have hspec := runAll_spec s hn ops
  have hcl : ∀ w, w ∈ writeSets s ops → n ≤ w.1 ∨ w.2.resynced = true := by
    intro w hw
    rcases (hspec.2.1 w hw).1 with h | h
    · exact Or.inl h
    · by_cases hc : w.2 = .cval
      · exact Or.inl (runAll_arr s hn ops harr w hw hc)
      · exact Or.inr (resynced_of_inplace h hc)
  have hget : ∀ a f, a < n → f.benign = false → (s.runAll ops).get a f = s.get a f := by
    intro a f ha hf
    apply hspec.1 a f (Nat.lt_of_lt_of_le ha hn)
    intro hm
    rcases hcl _ hm with h | h
    · exact absurd h (by simp only; omega)
    · rw [resynced_benign h] at hf; exact absurd hf (by decide)
  refine ⟨hcl, hget, ?_, (runAll_fstep ops s hn).arr harr⟩
  intro a ha hcell
  unfold constContent
  rw [hget a .const ha rfl]
  split
  · next cell hc => exact hget cell .cval (hcell cell hc) rfl
  · rfl

/-- **full_fingerprint_preserved_partial.**  Under the same side condition, for every watermark
    `n ≤ s.size`: the observable object graph (`fp`) of every object AND the value of the
    `_constant` of every original, array content included (which `fp`, hence
    `fingerprint_preserved_partial`, does not read), are unchanged by any sequence of operations. -/
theorem full_fingerprint_preserved_partial (n : Nat) (s : St) (hn : n ≤ s.size) (harr : ArrFresh n s)
    (ops : List Op) (fuel a : Nat) :
    fp n fuel (s.runAll ops) a = fp n fuel s a ∧
    (a < n → (∀ c, s.get a .const = .ref c → c < n) → constContent (s.runAll ops) a = constContent s a) :=
  ⟨(runAll_fstep ops s hn).toStep.fp_eq fuel a,
   fun ha hc => (originals_never_altered_partial n s hn harr ops).2.2.1 a ha hc⟩

/-- the decidable form: a heap in which no object has an array-typed `_constant` (every heap of
    user-constructed densities) satisfies the side condition for every watermark -/
theorem scalar_constants_suffice (s : St) (h : s.scalarConsts = true) (n : Nat) : ArrFresh n s :=
  scalarConsts_arrFresh h n

-- the joint of `exJoint` (a distribution, an evaluated density, their joint): conditioned twice
-- and evaluated; all three originals keep every non-benign attribute
example : exJoint.scalarConsts = true := by decide
example (fuel a : Nat) : fp 3 fuel (exJoint.runAll [.cond 2 [], .cond 2 []]) a = fp 3 fuel exJoint a :=
  (full_fingerprint_preserved_partial 3 exJoint (by decide) (scalar_constants_suffice _ (by decide) 3) _ fuel a).1
example (f : Fld) (hf : f.benign = false) :
    (exJoint.runAll [.cond 2 [], .cond 2 [], .logd 0 [(0, 3)]]).get 0 f = exJoint.get 0 f :=
  (originals_never_altered_partial 3 exJoint (by decide) (scalar_constants_suffice _ (by decide) 3) _).2.1 0 f (by decide) hf

/-- **The side condition is sharp**: `exArrConst` (a reduced density whose `_constant` is the
    array object 1, below the watermark 4) violates `ArrFresh`, and one conditioning of a new
    joint containing it writes the content of that pre-existing array (5 becomes 12) — the known
    finding `alter-constant:ndarray-inplace`, reproduced by the model. -/
theorem originals_never_altered_counterexample :
    ¬ ArrFresh 4 exArrConst ∧ exArrConst.scalarConsts = false ∧
    (1, Fld.cval) ∈ writeSet exArrConst (.cond 3 []) ∧
    exArrConst.get 1 .cval = .num 5 ∧ (exArrConst.run (.cond 3 [])).1.get 1 .cval = .num 12 := by
  refine ⟨fun h => ?_, by decide, by decide, by decide, by decide⟩
  have := h 0 1 (by decide)
  omega

/-- **Gibbs** (sampler construction stores `target()`, then the re-conditioning stream of any
    number of sweeps): every non-benign attribute of every object that existed before the sampler
    was built — array content included — is unchanged, provided no `_constant` refers to an array
    below the watermark when the sampler is built. -/
theorem gibbs_never_alters_originals_partial (s : St) (harr : ArrFresh s.size s) (t0 t : Nat) (pars : List Nat)
    (vals : Nat → Nat → Int) (sweeps : Nat) (a : Nat) (f : Fld) (ha : a < s.size) (hf : f.benign = false) :
    (s.runAll (.cond t0 [] :: gibbsOps t pars vals sweeps)).get a f = s.get a f :=
  (originals_never_altered_partial s.size s (Nat.le_refl _) harr _).2.1 a f ha hf

example (sweeps : Nat) (f : Fld) (hf : f.benign = false) :
    (exJoint.runAll (.cond 2 [] :: gibbsOps 3 [0] (fun k _ => k) sweeps)).get 0 f = exJoint.get 0 f :=
  gibbs_never_alters_originals_partial exJoint (scalar_constants_suffice _ (by decide) _) 2 3 [0] _ sweeps 0 f (by decide) hf

/-! ## 4. results are fresh, allocated addresses -/

/-- **run_result_fresh** (freshness).  Whenever an operation returns an object, its address is
    allocated in the resulting heap, and it did not exist before the operation — with the single
    exception the code has: `EvaluatedDensity._condition` returns `self`. -/
theorem run_result_fresh (s : St) (op : Op) (r : Nat) (hr : (s.run op).2 = .obj r) :
    r < (s.run op).1.size ∧ (s.size ≤ r ∨ ∃ kw, op = .cond r kw ∧ s.cls r = .eval) :=
  run_res s op r hr

example : (exDist.run (.cond 0 [(3, 5)])).2 = .obj 1 ∧ exDist.size = 1 ∧ (exDist.run (.cond 0 [(3, 5)])).1.size = 2 := by
  decide
-- the exception is real: conditioning the evaluated density of `exJoint` returns the object itself
example : (exJoint.run (.cond 1 [])).2 = .obj 1 ∧ exJoint.cls 1 = .eval := by decide

/-- a fresh result is an object the operation allocated: nothing reported about it existed
    before, and every object that existed before is distinct from it -/
theorem fresh_result_distinct (s : St) (op : Op) (r : Nat) (hr : (s.run op).2 = .obj r)
    (hne : s.cls r ≠ .eval) (a : Nat) (ha : a < s.size) : a ≠ r := by
  rcases (run_res s op r hr).2 with h | ⟨_, _, h⟩
  · omega
  · exact absurd h hne

-- the pre-existing object 0 is not the fresh result 1 of conditioning it
example : (0 : Nat) ≠ 1 := fresh_result_distinct exDist (.cond 0 [(3, 5)]) 1 (by decide) (by decide) 0 (by decide)

/-! ## 5. shallow copies share, and what is shared is read-only -/

/-- **makeCopy_shallow** (`Density._make_copy` = `copy(self)` + `_original_density = self`): the
    copy is a new address with the class and *every attribute value* of the original — references
    included, i.e. referenced objects are shared, not duplicated — except `_original_density`,
    which refers to the original; the original and every other old object are literally
    unchanged. -/
theorem makeCopy_shallow (s : St) (a : Nat) :
    (s.makeCopy a).2 = s.size ∧ (s.makeCopy a).1.size = s.size + 1 ∧
    (s.makeCopy a).1.cls (s.makeCopy a).2 = s.cls a ∧
    (∀ f, f ≠ .orig → (s.makeCopy a).1.get (s.makeCopy a).2 f = s.get a f) ∧
    (a < s.size → (s.makeCopy a).1.get (s.makeCopy a).2 .orig = .ref a) ∧
    (∀ a', a' < s.size → (s.makeCopy a).1.obj a' = s.obj a') := by
  refine ⟨rfl, makeCopy_size s a, makeCopy_cls s a, fun f hf => makeCopy_get s a f hf, ?_, ?_⟩
  · intro _
    unfold St.makeCopy
    exact write_get_same _ _ _ _ (by rw [alloc_addr, alloc_size]; omega)
  · intro a' ha'
    have h := makeCopy_fstep (Nat.le_refl s.size) a
    obtain ⟨add, hl, hg, hc, _⟩ := h.seg
    apply obj_eq_of _ _ _ (h.cls a' ha')
    intro f
    have hl' : (s.makeCopy a).1.log = [((s.alloc (s.obj a)).2, Fld.orig)] ++ s.log := rfl
    have e : add = [((s.alloc (s.obj a)).2, Fld.orig)] := by rw [← added_eq hl, added_eq hl']
    apply hg a' f ha'
    rw [e, alloc_addr]
    simp only [List.mem_singleton, Prod.mk.injEq, not_and]
    intro h1; omega

-- the copy of the Lognormal shares the Gaussian cache object 0 with its original
example : (exLognormal.makeCopy 1).1.get 2 .cacheG = .ref 0 ∧ exLognormal.get 1 .cacheG = .ref 0 := by decide

/-- a distribution and its geometry object (object 0), and a conditioned copy sharing it -/
def exGeom : St :=
  ⟨#[Obj.ofList .geom [(.name, .num 42)],
     Obj.ofList .dist [(.name, .num 0), (.geom, .ref 0), (.slot 0, .fn 1 [3] []), (.slot 1, .num 2)]], []⟩

/-- **condition_is_copy_plus_rebinding** (`Distribution._condition`, also for a Lognormal).  The
    conditioned copy — the object allocated at the next address `s.size`, which is the result
    whenever every keyword names a conditioning variable — carries, for every attribute other
    than `_original_density`, the mutable variables (`slot j`) and a Lognormal's `_Gaussian`,
    exactly the value its original had before the call: geometry, name, family, `_constant`, … are
    *the same values and the same references* (shared, not duplicated). -/
theorem condition_is_copy_plus_rebinding (s : St) (a : Nat) (kw : Kw) :
    (∀ f, (∀ j, f ≠ .slot j) → f ≠ .orig → f ≠ .cacheG → f.inplace = false →
        (s.condDist a kw).1.get s.size f = s.get a f) ∧
    ((kw.filter (fun p => !((s.condVars a).contains p.1))).isEmpty = true →
        (s.condDist a kw).2 = .obj s.size) := by
  constructor
  · intro f hs h1 h2 h3
    apply condDist_copy_get s a kw f hs _ _ h1 h2
    · intro e; rw [e] at h3; exact absurd h3 (by decide)
    · intro e; rw [e] at h3; exact absurd h3 (by decide)
  · intro h
    unfold St.condDist
    dsimp only
    rw [if_pos h]
    rfl

example : (exGeom.condDist 1 [(3, 5)]).2 = .obj 2 ∧ (exGeom.condDist 1 [(3, 5)]).1.get 2 .geom = exGeom.get 1 .geom :=
  ⟨(condition_is_copy_plus_rebinding exGeom 1 [(3, 5)]).2 (by decide),
   (condition_is_copy_plus_rebinding exGeom 1 [(3, 5)]).1 .geom (by nofun) (by nofun) (by nofun) rfl⟩

/-- **derived_is_copy_plus_rebinding** — the same for the other deriving operations of the library.
    In each case the object allocated first (address `s.size`) is a shallow copy of the receiver
    that differs from it only in the attributes the method re-binds:
    * `Model.forward(dist)` — `_non_default_args`;
    * `Likelihood._condition` — `distribution`;
    * `RegularizedGaussian._condition` — `_original_density`, `_gaussian`;
    * `Posterior()` — `_original_density`, `likelihood`, `prior`;
    * `JointDistribution._condition` — `_densities` (and `_constant`, which
      `_add_constants_to_density` re-binds when the joint reduces to a single density).
    All other attributes (not among the four in-place fields) hold the receiver's values — the
    same references: geometry, data, models, names … are shared with the receiver. -/
theorem derived_is_copy_plus_rebinding (s : St) (f : Fld) (hi : f.inplace = false) :
    (∀ m d r, (s.applyModel m d).2 = .obj r → f ≠ .args →
        r = s.size ∧ (s.applyModel m d).1.get s.size f = s.get m f) ∧
    (∀ a d data kw, s.get a .distr = .ref d → s.get a .data = .num data → f ≠ .distr →
        (s.condLik a kw).1.get s.size f = s.get a f) ∧
    (∀ a g kw, s.get a .gauss = .ref g → f ≠ .orig → f ≠ .gauss →
        (s.condReg a kw).1.get s.size f = s.get a f) ∧
    (∀ a l p, s.get a .lik = .ref l → s.get a .prior = .ref p → f ≠ .orig → f ≠ .lik → f ≠ .prior →
        (s.condPost a []).1.get s.size f = s.get a f) ∧
    (∀ a ds kw, s.get a .dens = .refs ds → f ≠ .dens → f ≠ .const →
        (s.condJoint a kw).1.get s.size f = s.get a f) :=
  ⟨fun m d r hr hf => applyModel_copy_get s m d r hr f hf,
   fun a d data kw hd hdat hf => condLik_copy_get s a d data kw hd hdat f hf hi,
   fun a g kw hg h1 h2 => condReg_copy_get s a g kw hg f h1 h2 hi,
   fun a l p hl hp h1 h2 h3 => condPost_copy_get s a l p hl hp f h1 h2 h3 hi,
   fun a ds kw hd h1 h2 => condJoint_copy_get s a ds kw hd f h1 h2 hi⟩

/-- a likelihood (object 2: data 7, distribution 1 with geometry 0) and a model (object 3) -/
def exLik : St :=
  ⟨#[Obj.ofList .geom [(.name, .num 42)],
     Obj.ofList .dist [(.name, .num 0), (.geom, .ref 0), (.slot 0, .fn 1 [3, 4] []), (.slot 1, .num 2)],
     Obj.ofList .lik [(.distr, .ref 1), (.data, .num 7), (.geom, .ref 0)],
     Obj.ofList .model [(.geom, .ref 0), (.args, .ids [9])]], []⟩

-- conditioning the likelihood on one of its two parameters: the new likelihood (object 4) has the
-- same data and geometry reference; applying the model to the distribution: the new model shares the geometry
example : (exLik.condLik 2 [(3, 5)]).2 = .obj 4 ∧ (exLik.condLik 2 [(3, 5)]).1.get 4 .geom = .ref 0 ∧
    (exLik.condLik 2 [(3, 5)]).1.get 4 .data = .num 7 := by
  have h := (derived_is_copy_plus_rebinding exLik .geom rfl).2.1 2 1 7 [(3, 5)] (by decide) (by decide) (by nofun)
  have h' := (derived_is_copy_plus_rebinding exLik .data rfl).2.1 2 1 7 [(3, 5)] (by decide) (by decide) (by nofun)
  exact ⟨by decide, h, h'⟩

/-- **shared_attrs_readonly** (sharing is read-only).  Let two objects `a`, `b` of a heap (e.g. an
    original and its conditioned copy) both refer, through attributes `f` and `g`, to the same
    object `c`.  Then for every later sequence of operations, of any length, on any objects:
    every reported write to the shared object `c` is one of the in-place re-synchronisations /
    the array `+=`; every other attribute of `c` is unchanged; `a` and `b` still refer to `c`
    (when `f`, `g` are not themselves one of those four fields); and if no `_constant` refers to an
    array object below the heap size, no non-benign attribute of `c` is ever written. -/
theorem shared_attrs_readonly (s : St) (a b c : Nat) (f g : Fld)
    (hfa : s.get a f = .ref c) (hgb : s.get b g = .ref c) (hc : c < s.size)
    (hf : f.inplace = false) (hg : g.inplace = false) (ops : List Op) :
    (∀ w, w ∈ writeSets s ops → w.1 = c → w.2.inplace = true) ∧
    (∀ f', f'.inplace = false → (s.runAll ops).get c f' = s.get c f') ∧
    (s.runAll ops).get a f = .ref c ∧ (s.runAll ops).get b g = .ref c ∧
    (ArrFresh s.size s → (∀ w, w ∈ writeSets s ops → w.1 = c → w.2.resynced = true) ∧
       ∀ f', f'.benign = false → (s.runAll ops).get c f' = s.get c f') := by
  refine ⟨?_, fun f' hf' => sequence_frame_all_but_inplace s ops c f' hc hf', ?_, ?_, ?_⟩
  · intro w hw hwc
    rcases write_sets_fresh_or_inplace s ops w hw with h | h
    · omega
    · exact h
  · rw [sequence_frame_all_but_inplace s ops a f (lt_of_get_ref hfa) hf]; exact hfa
  · rw [sequence_frame_all_but_inplace s ops b g (lt_of_get_ref hgb) hg]; exact hgb
  · intro harr
    have h := originals_never_altered_partial s.size s (Nat.le_refl _) harr ops
    refine ⟨?_, fun f' hf' => h.2.1 c f' hc hf'⟩
    intro w hw hwc
    rcases h.1 w hw with h1 | h1
    · omega
    · exact h1

-- after conditioning the Lognormal, original (1) and copy (3) … the copy's `_Gaussian` is a NEW
-- conditioned copy (object 2) of the shared cache; original 1 still refers to cache 0, which was
-- only re-synchronised
example : let s1 := (exLognormal.run (.cond 1 [])).1
    s1.get 1 .cacheG = .ref 0 ∧ s1.get 2 .cacheG = .ref 3 ∧ s1.get 3 .orig = .ref 0 := by decide

example : let s1 := (exGeom.run (.cond 1 [(3, 5)])).1
    s1.get 1 .geom = .ref 0 ∧ s1.get 2 .geom = .ref 0 ∧
    ∀ ops f', f'.inplace = false → (s1.runAll ops).get 0 f' = s1.get 0 f' := by
  refine ⟨by decide, by decide, fun ops f' hf' => ?_⟩
  exact (shared_attrs_readonly _ 1 2 0 .geom .geom (by decide) (by decide) (by decide) rfl rfl ops).2.1 f' hf'

/-- **shared_unheld_never_written** (sharing is read-only, full strength).  If the object `c`
    shared by `a` and `b` is not one of the held helper objects (it is a geometry, a distribution
    shared by a likelihood, a density in a joint's list, a model, …), then no operation of any
    later sequence writes to it at all, and `a` and `b` keep sharing it. -/
theorem shared_unheld_never_written (s : St) (a b c : Nat) (f g : Fld)
    (hfa : s.get a f = .ref c) (hgb : s.get b g = .ref c) (hc : c < s.size)
    (hf : f.inplace = false) (hg : g.inplace = false) (hun : s.unheld c = true) (ops : List Op) :
    c ∉ (writeSets s ops).map Prod.fst ∧ (s.runAll ops).obj c = s.obj c ∧
    (s.runAll ops).get a f = .ref c ∧ (s.runAll ops).get b g = .ref c := by
  have h1 := unheld_objects_untouched s ops c hc (unheld_spec hun)
  have h2 := shared_attrs_readonly s a b c f g hfa hgb hc hf hg ops
  exact ⟨h1.1, h1.2, h2.2.2.1, h2.2.2.2.1⟩

-- the geometry shared by `exGeom`'s distribution and its conditioned copy is never written, whatever follows
example (ops : List Op) : let s1 := (exGeom.run (.cond 1 [(3, 5)])).1
    (s1.runAll ops).obj 0 = s1.obj 0 ∧ (s1.runAll ops).get 1 .geom = .ref 0 ∧ (s1.runAll ops).get 2 .geom = .ref 0 := by
  have h := shared_unheld_never_written (exGeom.run (.cond 1 [(3, 5)])).1 1 2 0 .geom .geom
    (by decide) (by decide) (by decide) rfl rfl (by decide) ops
  exact ⟨h.2.1, h.2.2.1, h.2.2.2⟩

/-! ## 6. simulation: the heap model refines the write-set model the tie validates -/

/-- **escapes_eq_write_sets** (simulation lemma, executable side).  What the driver prints per
    operation / per Gibbs stream and the harness compares with the traced attribute writes of the
    running code — `escapes` (non-benign writes below the watermark) and `benignEscapes` — are
    exactly the corresponding filters of the write sets the theorems above speak about. -/
theorem escapes_eq_write_sets (n : Nat) (s : St) (ops : List Op) :
    escapes n (s.runAll ops) s.log.length
      = ((writeSets s ops).filter (fun w => w.1 < n && !w.2.benign)).reverse ∧
    benignEscapes n (s.runAll ops) s.log.length
      = ((writeSets s ops).filter (fun w => w.1 < n && w.2.benign)).reverse := by
  have e : (s.runAll ops).log.take ((s.runAll ops).log.length - s.log.length) = writeSets s ops :=
    added_eq (runAll_log s ops)
  unfold escapes benignEscapes
  rw [e]
  exact ⟨rfl, rfl⟩

example : escapes 4 (exArrConst.runAll [.cond 3 []]) exArrConst.log.length = [(1, .cval)] := by decide

/-- **escapes_only_array_content.**  The list of escaping non-benign writes the driver reports
    (and the tie requires to coincide *exactly* with the traced non-benign writes to old objects)
    can only ever contain in-place additions into an array-typed `_constant`; under the side
    condition of section 3 it is empty. -/
theorem escapes_only_array_content (s : St) (ops : List Op) :
    (∀ w, w ∈ escapes s.size (s.runAll ops) s.log.length → w.2 = .cval) ∧
    (ArrFresh s.size s → escapes s.size (s.runAll ops) s.log.length = []) := by
  rw [(escapes_eq_write_sets s.size s ops).1]
  have hmem : ∀ w, w ∈ ((writeSets s ops).filter (fun w => w.1 < s.size && !w.2.benign)).reverse →
      w ∈ writeSets s ops ∧ w.1 < s.size ∧ w.2.benign = false := by
    intro w hw
    rw [List.mem_reverse, List.mem_filter] at hw
    simp only [Bool.and_eq_true, decide_eq_true_eq, Bool.not_eq_true'] at hw
    exact ⟨hw.1, hw.2.1, hw.2.2⟩
  constructor
  · intro w hw
    obtain ⟨h1, h2, h3⟩ := hmem w hw
    rcases write_sets_fresh_or_inplace s ops w h1 with h | h
    · omega
    · apply Classical.byContradiction
      intro hc
      rw [resynced_benign (resynced_of_inplace h hc)] at h3
      exact absurd h3 (by decide)
  · intro harr
    apply List.eq_nil_iff_forall_not_mem.2
    intro w hw
    obtain ⟨h1, h2, h3⟩ := hmem w hw
    rcases (originals_never_altered_partial s.size s (Nat.le_refl _) harr ops).1 w h1 with h | h
    · omega
    · rw [resynced_benign h] at h3; exact absurd h3 (by decide)

-- two conditionings of the joint of `exJoint` (scalar constants): nothing escapes
example : escapes exJoint.size (exJoint.runAll [.cond 2 [], .cond 2 []]) exJoint.log.length = [] :=
  (escapes_only_array_content exJoint _).2 (scalar_constants_suffice _ (by decide) _)

/-- **inplace_writes_in_table** (simulation lemma, table side).  Each of the four in-place writes
    of the heap model is the transcription of a row of the AST-derived write table of the
    *current* source, a row that `writes_ok` accepts for a reason other than "receiver is fresh":
    a benign cache of a held object, or the `_constant +=` of `_add_constants_to_density`. -/
theorem inplace_writes_in_table (f : Fld) (h : f.inplace = true) :
    ∃ w, tableRow f = some w ∧ w ∈ Gen.writes ∧ allowed w = true ∧ w.recv ≠ .fresh := by
  cases f <;> first | exact ⟨_, rfl, by decide, by decide, by decide⟩ | cases h

example : ∃ w, tableRow .cval = some w ∧ w ∈ Gen.writes ∧ allowed w = true ∧ w.recv ≠ .fresh :=
  inplace_writes_in_table .cval rfl

/-- the class of the heap model that transcribes a class name of the source -/
def clsOfName : String → Cls
  | "Lognormal" => .lognormal
  | "RegularizedGaussian" => .reggauss
  | _ => .dist

/-- **table_rows_match_holders.**  The side conditions of `inplace_targets_are_held` are exactly
    the ones the table rows carry: for the three benign re-synchronisations the row's receiver
    text is `self.<holder attribute>` and the row's class is the owner class the model demands;
    the array `+=` row is the parameter-receiver `_constant` row. -/
theorem table_rows_match_holders :
    [Fld.cmean, .ccov, .syncName].all (fun f =>
      match tableRow f, holder f with
      | some w, some hf => w.recvText == "self." ++ hf.toString && ownerOk f (clsOfName w.cls)
      | _, _ => false) = true ∧
    (match tableRow .cval, holder .cval with
      | some w, some hf => w.field == hf.toString && w.recv == .param && w.kind == "aug"
      | _, _ => false) = true := by
  decide

/-- **written_fields_in_table** (simulation lemma, table side, all writes).  Every write reported
    for any sequence of operations — on fresh and on old objects alike — is to one of the fourteen
    attributes `Fld.writable`; each of them is either one of the four in-place writes (previous
    theorem) or the transcription of a row of the table of the current source that `writes_ok`
    accepts.  All other attributes the model knows (`_name`, the family, `_geometry`, `data`,
    `value`, `_mutable_vars`, `_variable_name`, the array flag) are never written by any operation
    on any object: they are fixed when the object is allocated (copied). -/
theorem written_fields_in_table (s : St) (ops : List Op) (w : Nat × Fld) (hw : w ∈ writeSets s ops) :
    w.2.writable = true ∧
    (w.2.inplace = true ∨ ∃ r, tableRowFresh w.2 = some r ∧ rowInTable r = true) := by
  have h := ((runAll_spec s (Nat.le_refl s.size) ops).2.1 w hw).2
  exact ⟨h, writable_row w.2 h⟩

example : (writeSets exJoint [.cond 2 []]).map Prod.snd = [.const, .dens, .dens, .orig, .dens] := by decide

/-- **table_inplace_rows_covered** (converse).  Every row of the table whose receiver is not
    fresh (outside the Gibbs samplers' own state) is the transcription of one of the model's four
    in-place writes, or one of the three benign caches that only the oracle handles (lazily
    inferred geometry, its `_variable_name`, `_mutable_vars`) and that the model never writes. -/
theorem table_inplace_rows_covered :
    (Gen.writes.filter (fun w => w.recv != .fresh && !(w.cls == "Gibbs" || w.cls == "HybridGibbs"))).all
      (fun w => [Fld.cmean, .ccov, .syncName, .cval].any (fun f => tableRow f == some w)
        || (w.cls == "Distribution" && (w.meth == "geometry" || w.meth == "get_mutable_variables"))) = true := by
  decide

/-- **heap_refines_write_set_model.**  The relation through which `Props/C11.lean` reasons
    (per watermark `n`: heap grows, classes stable, non-exempt attributes below `n` stable, log
    fresh-or-exempt) is implied, operation by operation and for whole sequences, by the
    event-level account of this file: log = reported write set, reported writes fresh or in
    place, in-place fields exempt.  (Re-derives `sequence_frame_partial` from the new model.) -/
theorem heap_refines_write_set_model (n : Nat) (s : St) (hn : n ≤ s.size) (ops : List Op) :
    (∀ a f, a < n → f.exempt = false → (s.runAll ops).get a f = s.get a f) ∧
    (∀ a, a < s.size → (s.runAll ops).cls a = s.cls a) ∧
    (∀ w, w ∈ (s.runAll ops).log → w ∈ s.log ∨ n ≤ w.1 ∨ w.2.exempt = true) ∧
    (∀ f : Fld, f.inplace = true → f.exempt = true) := by
  have h := (runAll_fstep ops s hn).toStep
  exact ⟨h.get, h.cls, h.log, inplace_exempt⟩

example : ∀ w ∈ (exArrConst.runAll [.cond 3 []]).log, w ∈ exArrConst.log ∨ 4 ≤ w.1 ∨ w.2.exempt = true :=
  (heap_refines_write_set_model 4 exArrConst (by decide) _).2.2.1

/-! ## 7. the operations as event traces (allocate at the next address / logged write) -/

/-- **replay_frame** — the generic operational heap semantics of which every modelled operation
    is an instance (`run_is_event_trace`): running ANY list of primitive events (`Ev.alloc o`:
    allocate `o` at the next address; `Ev.write a f v`: logged attribute write) extends the log by
    the written pairs, grows the heap by the number of allocations (so allocations receive the
    fresh consecutive addresses `s.size, s.size+1, …`), keeps every old class tag, and leaves
    every attribute of every old object unchanged unless that pair is written. -/
theorem replay_frame (s : St) (evs : List Ev) :
    (s.replay evs).log = evWrites evs ++ s.log ∧ (s.replay evs).size = s.size + evAllocs evs ∧
    ∀ a, a < s.size → (s.replay evs).cls a = s.cls a ∧
      ∀ f, (a, f) ∉ evWrites evs → (s.replay evs).get a f = s.get a f :=
  ⟨replay_log evs s, replay_size evs s, fun a ha => ⟨replay_cls evs s a ha, fun f hf => replay_get evs s a f ha hf⟩⟩

example : (exDist.replay [.alloc (exDist.obj 0), .write 1 .orig (.ref 0)]).log = [(1, .orig)] :=
  (replay_frame exDist _).1

/-- **run_is_event_trace.**  Every operation of the library, as modelled — on any heap, receiver
    and arguments — is a heap transformer of that kind: its final heap is the replay of a finite
    list of allocation / write events from the initial heap, the reported write set is the list
    of pairs those events write, and the heap grows by exactly the allocations. -/
theorem run_is_event_trace (s : St) (op : Op) :
    ∃ evs : List Ev, (s.run op).1 = s.replay evs ∧ writeSet s op = evWrites evs ∧
      (s.run op).1.size = s.size + evAllocs evs := by
  obtain ⟨evs, he⟩ := (run_fstep (Nat.le_refl s.size) op).trace
  refine ⟨evs, he, ?_, ?_⟩
  · unfold writeSet; rw [he]; exact added_eq (replay_log evs s)
  · rw [he]; exact replay_size evs s

/-- … and so is every sequence of operations. -/
theorem runAll_is_event_trace (s : St) (ops : List Op) :
    ∃ evs : List Ev, s.runAll ops = s.replay evs ∧ writeSets s ops = evWrites evs ∧
      (s.runAll ops).size = s.size + evAllocs evs := by
  obtain ⟨evs, he⟩ := (runAll_fstep ops s (Nat.le_refl s.size)).trace
  refine ⟨evs, he, ?_, ?_⟩
  · rw [← added_eq (runAll_log s ops), he]; exact added_eq (replay_log evs s)
  · rw [he]; exact replay_size evs s

-- conditioning `exDist` on `v3 = 5` IS: copy object 0 to address 1, set its `_original_density`, re-bind its slot 0
example : (exDist.run (.cond 0 [(3, 5)])).1
    = exDist.replay [.alloc (exDist.obj 0), .write 1 .orig (.ref 0), .write 1 (.slot 0) (.num (applyFn 1 [(3, 5)]))] := by
  rfl

/-! ## 8. derived objects among themselves -/

/-- **siblings_frame_heap.**  Everything existing after a first batch of operations (every
    conditioned copy, likelihood, posterior made so far) holds the same object — class and full
    attribute map — after any further batch, unless its address is the target of a write reported
    for the second batch. -/
theorem siblings_frame_heap (s : St) (ops1 ops2 : List Op) (b : Nat) (hb : b < (s.runAll ops1).size)
    (hw : b ∉ (writeSets (s.runAll ops1) ops2).map Prod.fst) :
    (s.runAll (ops1 ++ ops2)).obj b = (s.runAll ops1).obj b := by
  rw [runAll_append]
  exact sequence_frame_heap (s.runAll ops1) ops2 b hb hw

example : (exDist.runAll ([.cond 0 [(3, 5)]] ++ [.cond 0 [(3, 6)], .grad 1, .sample 1])).obj 1
    = (exDist.runAll [.cond 0 [(3, 5)]]).obj 1 :=
  siblings_frame_heap exDist _ _ 1 (by decide) (by decide)

/-- **derived_unheld_untouched.**  The same for derived objects: whatever exists after a first batch
    of operations and is not held there as `_Gaussian` / `_gaussian` / array `_constant` — every
    conditioned copy, likelihood, posterior, reduced density, new joint, new model — is never
    written by any second batch (on it, on its siblings, on the originals). -/
theorem derived_unheld_untouched (s : St) (ops1 ops2 : List Op) (b : Nat) (hb : b < (s.runAll ops1).size)
    (hun : (s.runAll ops1).unheld b = true) :
    (s.runAll (ops1 ++ ops2)).obj b = (s.runAll ops1).obj b := by
  rw [runAll_append]
  exact (unheld_objects_untouched (s.runAll ops1) ops2 b hb (unheld_spec hun)).2

-- the conditioned copy (object 1) of `exDist` is literally unchanged by WHATEVER follows
example (ops2 : List Op) : (exDist.runAll ([.cond 0 [(3, 5)]] ++ ops2)).obj 1 = (exDist.runAll [.cond 0 [(3, 5)]]).obj 1 :=
  derived_unheld_untouched exDist _ ops2 1 (by decide) (by decide)

/-- **derived_results_distinct.**  Two objects returned by two different operations of a program
    are different addresses (siblings never alias), unless the later one is an evaluated density
    returned by its own `_condition`. -/
theorem derived_results_distinct (s : St) (op1 op2 : Op) (ops : List Op) (r1 r2 : Nat)
    (h1 : (s.run op1).2 = .obj r1) (h2 : (((s.run op1).1.runAll ops).run op2).2 = .obj r2)
    (hne : ((s.run op1).1.runAll ops).cls r2 ≠ .eval) : r1 ≠ r2 := by
  have hb := (run_res s op1 r1 h1).1
  have hs := (runAll_fstep ops (s.run op1).1 (Nat.le_refl _)).size
  rcases (run_res _ op2 r2 h2).2 with h | ⟨_, _, h⟩
  · omega
  · exact absurd h hne

example : (exDist.run (.cond 0 [(3, 5)])).2 = .obj 1 ∧ (((exDist.run (.cond 0 [(3, 5)])).1.runAll []).run (.cond 0 [(3, 6)])).2 = .obj 2 := by
  decide
example : (1 : Nat) ≠ 2 :=
  derived_results_distinct exDist (.cond 0 [(3, 5)]) (.cond 0 [(3, 6)]) [] 1 2 (by decide) (by decide) (by decide)

end CuqiVerif.C11
