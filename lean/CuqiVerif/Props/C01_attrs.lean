import CuqiVerif.Model.C01_attrs
import CuqiVerif.Proofs.C01_attrs
import Mathlib.Data.List.Basic
import Mathlib.Data.List.Nodup
import Mathlib.Tactic.Tauto

/-!
# C01 — attribute level (`Model/C01_attrs.lean`)

Theorems about the executable transcription of `Distribution._condition`'s loop over the mutable
variables, `get_conditioning_variables` / `get_indirect_variables`, and
`Distribution._parse_args_add_to_kwargs` — the definitions the `attr` lines of `Driver/C01.lean` run.

* `aparseDist_eq_parseDist` — the accumulating argument parser of the code is the closed form
  `parseDist` used by `Model/C01.lean` (and all theorems of `Props/C01*.lean`) whenever the
  conditioning variables are pairwise distinct and none is `_main_parameter`.
* `condAttr_callable_wins` — whenever a callable mutable variable receives at least one of its
  arguments, the new value of the variable is what the callable says (its result, or the partially
  applied callable), never the raw keyword value — also when an argument is called like the
  variable itself (`std=lambda std: 0.1+std`).
* `condAttr_direct` — a mutable variable that is `None` takes the keyword value given under its own name.
* `condAttr_untouched` — a mutable variable none of whose names occurs among the keywords keeps its value.
* `acond_refuses_nonconditioning_attribute` — a keyword naming a mutable variable that is not a
  conditioning variable is refused (ValueError), whatever else is passed.
* `indirectVars_filter`, `remArgs_canon` — binding arguments removes exactly those names from the
  conditioning variables and keeps the order of the others (so positional conditioning after a
  partial conditioning addresses the remaining variables in their original order).
* `acond_collision_counterexample` — the known finding `attr:collision-other:*` on the model:
  `y ~ Gaussian(mean=lambda x: x, cov=lambda mean: mean)`; fixing `mean` destroys the callable in
  `mean`, the conditioning variable `x` disappears although it was never given.
* `acond_self_named_example` — the same call on `Normal(0, std=lambda std: …)` is right.

Refinement of the abstract model (second pass): `toFactor`, `AOK` (side conditions: the two harmful
collision kinds excluded, self-named arguments allowed), `bindD env d₀` (Proofs) = the distribution after `env`.
* `acondVars_bind_eq_free` — `get_conditioning_variables()` of `bindD env d₀` = `free (toFactor d₀) env`.
* `condAttr_refines_bind`, `condAttrs_refine_bind` — one `_condition` call moves every mutable variable from
  `bindD env d₀` to `bindD (bindEnv env cv kw) d₀`: the loop computes exactly the environment update of `condDist`.
* `condAttr_processed_iff` — which keywords count as processed.

* `acond_refines_condDist` — **the refinement as one theorem** (third pass): for every `AOK`/`MainOK` distribution, environment,
  positional arguments and keywords (distinct keys, refusal of `acond_refuses_nonconditioning_attribute` not firing)
  `ARel d₀ (acond (bindD env d₀) args kw) (condDist (toFactor d₀) env d₀.c args kw)`; all branches, silent fall-through unreachable,
  `avals` defined when no conditioning variable is left (`avals_defined`).  Corollaries `acond_error_iff`, `acond_eval_value`,
  `acond_dist_state` transfer errors / values / conditioning variables from the abstract model (about which
  `Props/C01.lean`, `Props/C01_full.lean` prove `condition_logd`) to attribute-level objects.
-/
namespace CuqiVerif.C01

variable {V K : Type}

/-! ## the argument parser -/

private lemma aparse_eq (ks : List Name) (hnd : ks.Nodup) (args : List V) (kw : Kw V)
    (hlen : args.length ≤ ks.length) :
    aparse ks args kw =
      if (ks.zip args).any (fun kv => (kwKeys kw).contains kv.1) = true then .error .value
      else .ok (kw ++ ks.zip args) := by
  induction ks generalizing args kw with
  | nil =>
    cases args with
    | nil => simp [aparse]
    | cons a as => simp at hlen
  | cons k ks ih =>
    cases args with
    | nil => simp [aparse]
    | cons a as =>
      have hk : k ∉ ks := (List.nodup_cons.1 hnd).1
      have hnd' : ks.Nodup := (List.nodup_cons.1 hnd).2
      have hlen' : as.length ≤ ks.length := by simpa using hlen
      have hkeys : (ks.zip as).any (fun kv => (kwKeys (kw ++ [(k, a)])).contains kv.1)
          = (ks.zip as).any (fun kv => (kwKeys kw).contains kv.1) := by
        rw [Bool.eq_iff_iff]
        simp only [List.any_eq_true]
        constructor
        · rintro ⟨kv, hkv, h⟩
          have hne : kv.1 ≠ k := fun e => hk (e ▸ (List.of_mem_zip hkv).1)
          exact ⟨kv, hkv, by simpa [kwKeys, hne] using h⟩
        · rintro ⟨kv, hkv, h⟩
          exact ⟨kv, hkv, by simp only [kwKeys, List.contains_iff_mem, List.map_append, List.mem_append] at h ⊢; exact Or.inl h⟩
      show (if (kwKeys kw).contains k = true then _ else aparse ks as (kw ++ [(k, a)])) = _
      rw [ih hnd' as (kw ++ [(k, a)]) hlen', hkeys]
      simp only [List.zip_cons_cons, List.any_cons, Bool.or_eq_true]
      by_cases hc : (kwKeys kw).contains k = true
      · rw [if_pos hc, if_pos (Or.inl hc)]
      · rw [if_neg hc]
        by_cases hany : (ks.zip as).any (fun kv => (kwKeys kw).contains kv.1) = true
        · rw [if_pos hany, if_pos (Or.inr hany)]
        · rw [if_neg hany, if_neg (by tauto)]
          simp [List.append_assoc]

/-- **The parser of the code is the closed form of the model.**  `Distribution._parse_args_add_to_kwargs`
    adds the positional values one by one and checks each key against the keywords collected so far;
    for pairwise distinct conditioning variables different from `_main_parameter` this is `parseDist`
    (check against the caller's keywords, then append all pairs). -/
theorem aparseDist_eq_parseDist (cv : List Name) (hnd : (cv ++ [mainKey]).Nodup) (args : List V) (kw : Kw V) :
    aparseDist cv args kw = parseDist cv args kw := by
  unfold aparseDist parseDist
  by_cases hl : args.length > cv.length + 1
  · simp [hl]
  · simp only [hl, if_false]
    have hlen : args.length ≤ (cv ++ [mainKey]).length := by simp; omega
    rw [aparse_eq (cv ++ [mainKey]) hnd args kw hlen]

example : aparseDist ["s", "t"] [(1 : Nat), 2, 3] [("u", 0)] = parseDist ["s", "t"] [1, 2, 3] [("u", 0)] :=
  aparseDist_eq_parseDist _ (by decide) _ _

/-! ## one mutable variable -/

/-- **The callable decides.**  If a callable mutable variable receives at least one of its
    remaining arguments, its new value is the callable's result (all arguments now known) or the
    callable with more arguments bound — never the raw value of a keyword, even when a keyword
    carries the variable's own name (`std=lambda std: 0.1 + std` conditioned on `std`). -/
theorem condAttr_callable_wins (kw : Kw V) (key : Name) (id : Nat) (sig : List Name) (bound : Kw V)
    (h : (kw.filter (fun kv => (remArgs sig bound).contains kv.1)).length > 0) :
    let va := kw.filter (fun kv => (remArgs sig bound).contains kv.1)
    (condAttr kw key (.fn id sig bound)).1 = .val (.app id (sig.filterMap (kwGet (bound ++ va)))) ∨
    (condAttr kw key (.fn id sig bound)).1 = .fn id sig (canon sig (kwGet (bound ++ va))) := by
  intro va
  by_cases h1 : (va.length == (remArgs sig bound).length) = true
  · left
    show (if (va.length == (remArgs sig bound).length) = true then _ else _ : Attr V × List Name).1 = _
    rw [if_pos h1]
  · right
    show (if (va.length == (remArgs sig bound).length) = true then _ else _ : Attr V × List Name).1 = _
    rw [if_neg h1, if_pos h]

example : (condAttr [("std", (7 : Nat))] "std" (.fn 0 ["std"] [])).1 = .val (.app 0 [7]) := by decide

/-- a mutable variable that is `None` takes the value of the keyword carrying its name and
    records the keyword as processed -/
theorem condAttr_direct (kw : Kw V) (key : Name) (v : V) (h : kwGet kw key = some v) :
    condAttr kw key (.none : Attr V) = (.val (.given v), [key]) := by
  simp [condAttr, h]

/-- a mutable variable keeps its value when the keywords mention neither its name nor (for a
    callable with arguments still open) any of its arguments -/
theorem condAttr_untouched (kw : Kw V) (key : Name) (a : Attr V) (hkey : kwGet kw key = none)
    (hargs : ∀ kv ∈ kw, kv.1 ∉ a.args) (hopen : a.args ≠ [] ∨ ∀ id sig b, a ≠ .fn id sig b) :
    condAttr kw key a = (a, []) := by
  cases a with
  | val x => simp [condAttr, hkey]
  | none => simp [condAttr, hkey]
  | fn id sig bound =>
    have hva : kw.filter (fun kv => (remArgs sig bound).contains kv.1) = [] := by
      apply List.filter_eq_nil_iff.2
      intro kv hkv
      have := hargs kv hkv
      simpa [Attr.args] using this
    have hne : remArgs sig bound ≠ [] := by
      rcases hopen with h | h
      · simpa [Attr.args] using h
      · exact absurd rfl (h id sig bound)
    have hlen : (remArgs sig bound).length ≠ 0 := by
      intro h0; exact hne (List.length_eq_zero_iff.1 h0)
    have hva' : kw.filter (fun kv => decide (kv.1 ∈ remArgs sig bound)) = [] := by simpa using hva
    have hlen' : ¬ (0 = (remArgs sig bound).length) := fun h0 => hlen h0.symm
    simp [condAttr, hkey, hva', kwKeys, hlen']

example : condAttr [("t", (1 : Nat))] "cov" (.fn 0 ["s"] []) = (.fn 0 ["s"] [], []) := by decide

/-! ## the whole distribution -/

section
variable [Add K] [Zero K]

omit [Zero K] in
/-- **A keyword naming a mutable variable that is not a conditioning variable is refused**
    (`The mutable variable "cov" is not a conditioning variable of this distribution.`), whatever
    else is passed — in particular together with the distribution's own name. -/
theorem acond_refuses_nonconditioning_attribute (d : ADist V K) (kw : Kw V) (k : Name)
    (hk : k ∈ kwKeys kw) (hm : k ∈ d.attrs.map (·.1)) (hc : k ∉ acondVars d.attrs) :
    acond d [] kw = .error .value := by
  unfold acond
  have hp : aparseDist (acondVars d.attrs) ([] : List V) kw = .ok kw := by
    simp [aparseDist, aparse]
  have : (kwKeys kw).any (fun k => (d.attrs.map (·.1)).contains k && !(acondVars d.attrs).contains k) = true := by
    apply List.any_eq_true.2
    exact ⟨k, hk, by simp [hm, hc]⟩
  simp only [hp]
  rw [if_pos this]

example : acond ({ name := "y", attrs := [("mean", .none), ("cov", .val (.const 0))], pdf := fun _ _ => (0 : Nat), c := 0 } : ADist Nat Nat)
    [] [("cov", 3), ("y", 1)] = .error .value := by
  apply acond_refuses_nonconditioning_attribute _ _ "cov" <;> decide

end

/-! ## order of the conditioning variables -/

/-- **Binding arguments keeps the order of the others.**  If every mutable variable keeps, of its
    open arguments, exactly those satisfying `p` (the names not bound by a conditioning call), then
    `get_indirect_variables` of the new distribution is `get_indirect_variables` of the old one
    filtered by `p` — same order, duplicates between callables still listed once. -/
theorem indirectVars_filter (p : Name → Bool) (as bs : Attrs V)
    (h : List.Forall₂ (fun a b => b.2.args = a.2.args.filter p) as bs) :
    indirectVars bs = (indirectVars as).filter p := indirectVars_filter' p as bs h

/-- after binding, the open arguments of a callable are the signature names the binding does not know -/
theorem remArgs_canon (sig : List Name) (g : Name → Option V) :
    remArgs sig (canon sig g) = sig.filter (fun n => (g n).isNone) := remArgs_canon' sig g

example : indirectVars ([("mean", .fn 0 ["x", "s"] [("s", 2)]), ("cov", .fn 1 ["s", "t"] [("s", 2)])] : Attrs Nat)
    = (indirectVars ([("mean", .fn 0 ["x", "s"] []), ("cov", .fn 1 ["s", "t"] [])] : Attrs Nat)).filter (· != "s") := by
  decide

/-! ## refinement of the abstract model (`Model/C01.lean`) -/

section
variable [Zero K]

/-- the abstract factor a fresh attribute-level distribution stands for: conditioning variables in
    the code's order, log-density = family `logpdf` of the attribute values obtained by giving the
    environment to the mutable variables -/
def toFactor (d : ADist V K) : Factor V K :=
  { name := d.name, params := acondVars d.attrs, dim := 0,
    f := fun ρ => match ρ d.name, avals (bindAttrs ρ d.attrs) with
      | some x, some vs => d.pdf vs x
      | _, _ => 0 }

end

/-- side conditions on a fresh distribution (as given to the constructor): distinct mutable
    variables, callables not yet partially applied and with pairwise distinct arguments, and the
    two kinds of name collision excluded — an argument may be called like a mutable variable only
    if it is the variable the callable sits in (`std=lambda std: …` is allowed); the
    distribution's own name is neither a mutable variable nor a conditioning variable -/
structure AOK (d : ADist V K) : Prop where
  keys_nodup : (d.attrs.map (·.1)).Nodup
  fresh : ∀ ka ∈ d.attrs, ∀ id sig b, ka.2 = .fn id sig b → b = [] ∧ sig.Nodup
  nocoll : ∀ ka ∈ d.attrs, ∀ n ∈ ka.2.args, ∀ kb ∈ d.attrs, n = kb.1 → kb = ka
  name_ok : d.name ∉ d.attrs.map (·.1) ∧ d.name ∉ acondVars d.attrs

/-- **`get_conditioning_variables()` of the conditioned distribution = `free` of the abstract model.**
    After the environment `env` has been given to a fresh distribution `d₀`, the code's
    conditioning variables are exactly the abstract model's `free (toFactor d₀) env`: the original
    ones `env` does not know, in the original order (any number of variables, shared arguments,
    self-named arguments). -/
theorem acondVars_bind_eq_free [Zero K] (d₀ : ADist V K) (h : AOK d₀) (env : Name → Option V) :
    acondVars (bindD env d₀).attrs = free (toFactor d₀) env := by
  unfold free toFactor bindD
  exact acondVars_bind env d₀.attrs (fun ka hka id sig b hb => (h.fresh ka hka id sig b hb).1)

/-- **One conditioning round on one mutable variable refines `bindEnv`.**  For a mutable variable
    in the state reached by giving `env` to the fresh variable `a`, the loop body of
    `Distribution._condition` with keywords `kw` produces the state reached by giving it
    `env` completed by `kw` — provided a keyword carrying the variable's own name is only passed
    while the variable is `None` or is an open argument of its own callable (no collision of the
    "other" kind; the code refuses the remaining cases, `acond_refuses_nonconditioning_attribute`). -/
theorem condAttr_refines_bind (env env' : Name → Option V) (kw : Kw V) (key : Name) (a : Attr V)
    (hkw : (kwKeys kw).Nodup)
    (hfresh : ∀ id sig b, a = .fn id sig b → sig.Nodup)
    (henv' : ∀ n ∈ a.reads key, env' n = match env n with | some v => some v | none => kwGet kw n)
    (hdirect : kwGet kw key ≠ none → env key = none ∧ (a = .none ∨ ∃ id sig b, a = .fn id sig b ∧ key ∈ sig)) :
    (condAttr kw key (bindAttr env key a)).1 = bindAttr env' key a :=
  condAttr_bind env env' kw key a hkw hfresh henv' hdirect

example : (condAttr [("s", (2 : Nat))] "cov" (bindAttr (fun n => if n = "t" then some 3 else none) "cov" (.fn 0 ["s", "t"] []))).1
    = bindAttr (fun n => if n = "t" then some 3 else if n = "s" then some 2 else none) "cov" (.fn 0 ["s", "t"] []) := by decide

/-- **One `Distribution._condition` call moves all mutable variables from `bindD env d₀` to
    `bindD (bindEnv env cv kw) d₀`** — the attribute-level loop computes exactly the environment
    update of the abstract `condDist` (`bindEnv env (free F env) kw`), for every collision-free
    fresh distribution, every environment and all keywords on which the code's refusal "mutable
    variable … is not a conditioning variable" does not fire. -/
theorem condAttrs_refine_bind (d₀ : ADist V K) (h : AOK d₀) (env : Name → Option V) (kw : Kw V)
    (hkw : (kwKeys kw).Nodup)
    (hkeys : ∀ k ∈ kwKeys kw, k ∈ d₀.attrs.map (·.1) → k ∈ acondVars (bindAttrs env d₀.attrs)) :
    (bindAttrs env d₀.attrs).map (fun ka => (ka.1, (condAttr kw ka.1 ka.2).1))
      = bindAttrs (bindEnv env (acondVars (bindAttrs env d₀.attrs)) kw) d₀.attrs := by
  have hfr : ∀ ka ∈ d₀.attrs, ∀ id sig b, ka.2 = .fn id sig b → b = [] :=
    fun ka hka id sig b hb => (h.fresh ka hka id sig b hb).1
  have hcvmem : ∀ n, n ∈ acondVars (bindAttrs env d₀.attrs) ↔ n ∈ acondVars d₀.attrs ∧ env n = none := by
    intro n
    rw [acondVars_bind env d₀.attrs hfr, List.mem_filter]
    cases env n <;> simp
  unfold bindAttrs
  rw [List.map_map]
  apply List.map_congr_left
  intro ka hka
  obtain ⟨key, a⟩ := ka
  simp only [Function.comp]
  congr 1
  have hreads : ∀ n ∈ a.reads key, n ∈ acondVars d₀.attrs := by
    intro n hn
    unfold acondVars
    cases a with
    | val x => simp [Attr.reads] at hn
    | none =>
      simp only [Attr.reads, List.mem_singleton] at hn
      subst hn
      exact List.mem_append_left _ ((mem_noneVars _ _).2 hka)
    | fn id sig b =>
      have hb := hfr _ hka id sig b rfl
      subst hb
      refine List.mem_append_right _ ((mem_indirectVars _ _).2 ⟨_, hka, ?_⟩)
      simpa [Attr.args, Attr.reads, remArgs, kwKeys] using hn
  apply condAttr_bind env _ kw key a hkw (fun id sig b hb => (h.fresh _ hka id sig b hb).2)
  · intro n hn
    have hm := hreads n hn
    show (if (acondVars (bindAttrs env d₀.attrs)).contains n then kwGet kw n else env n) = _
    cases he : env n with
    | some v =>
      have : ¬ n ∈ acondVars (bindAttrs env d₀.attrs) := fun hc => by simpa [he] using ((hcvmem n).1 hc).2
      simp [this, he]
    | none =>
      have : n ∈ acondVars (bindAttrs env d₀.attrs) := (hcvmem n).2 ⟨hm, he⟩
      simp [this]
  · intro hne
    have hin : key ∈ kwKeys kw := (kwGet_isSome_iff kw key).1 (by cases hh : kwGet kw key <;> simp_all)
    have hkm : key ∈ d₀.attrs.map (·.1) := List.mem_map.2 ⟨_, hka, rfl⟩
    obtain ⟨hc, he⟩ := (hcvmem key).1 (hkeys key hin hkm)
    refine ⟨he, ?_⟩
    unfold acondVars at hc
    rcases List.mem_append.1 hc with hn | hi
    · left
      have := List.inj_on_of_nodup_map h.keys_nodup hka ((mem_noneVars _ _).1 hn) rfl
      exact (Prod.mk.inj this).2
    · right
      obtain ⟨kb, hkb, hargs⟩ := (mem_indirectVars _ _).1 hi
      have hEq : ((key, a) : Name × Attr V) = kb := h.nocoll kb hkb key hargs (key, a) hka rfl
      subst hEq
      cases a with
      | val x => simp [Attr.args] at hargs
      | none => simp [Attr.args] at hargs
      | fn id sig b =>
        have hb := hfr _ hka id sig b rfl
        subst hb
        exact ⟨id, sig, [], rfl, by simpa [Attr.args, remArgs, kwKeys] using hargs⟩

/-- **Which keywords a round of the loop marks as processed**: the variable's own name if it is a
    keyword, and the keywords that are open arguments of its callable — so a keyword is left
    "unused" exactly when it is neither a mutable variable's name nor an open argument. -/
theorem condAttr_processed_iff (kw : Kw V) (key : Name) (a : Attr V) (k : Name) :
    k ∈ (condAttr kw key a).2 ↔ (k = key ∧ k ∈ kwKeys kw) ∨ (k ∈ kwKeys kw ∧ k ∈ a.args) :=
  mem_condAttr_processed kw key a k


/-! ### result-level refinement: `acond` vs `condDist` -/

/-- `_main_parameter` is not a name of the distribution's vocabulary -/
structure MainOK (d : ADist V K) : Prop where
  attr : mainKey ∉ d.attrs.map (·.1)
  cv : mainKey ∉ acondVars d.attrs
  name : mainKey ≠ d.name

lemma acondVars_nodup (d : ADist V K) (h : AOK d) : (acondVars d.attrs).Nodup := by
  unfold acondVars
  rw [List.nodup_append]
  refine ⟨?_, dedupInto_nodup [] _ List.nodup_nil, ?_⟩
  · unfold noneVars
    exact (List.Sublist.map _ List.filter_sublist).nodup h.keys_nodup
  · intro a ha b hb hab
    subst hab
    obtain ⟨kb, hkb, hargs⟩ := (mem_indirectVars _ _).1 hb
    have := h.nocoll kb hkb a hargs (a, .none) ((mem_noneVars _ _).1 ha) rfl
    subst this
    simp [Attr.args] at hargs

lemma reads_mem_acondVars (d₀ : ADist V K) (h : AOK d₀) (ka : Name × Attr V) (hka : ka ∈ d₀.attrs) :
    ∀ n ∈ ka.2.reads ka.1, n ∈ acondVars d₀.attrs := by
  obtain ⟨key, a⟩ := ka
  intro n hn
  unfold acondVars
  cases a with
  | val x => simp [Attr.reads] at hn
  | none =>
    simp only [Attr.reads, List.mem_singleton] at hn
    subst hn
    exact List.mem_append_left _ ((mem_noneVars _ _).2 hka)
  | fn id sig b =>
    have hb := (h.fresh _ hka id sig b rfl).1
    subst hb
    refine List.mem_append_right _ ((mem_indirectVars _ _).2 ⟨_, hka, ?_⟩)
    simpa [Attr.args, Attr.reads, remArgs, kwKeys] using hn

section
variable [Add K] [Zero K]

/-- correspondence of results: same exception; a distribution / likelihood in the state `bindD env' d₀`
    with the abstract density carrying the environment `env'`; evaluated densities with the same value -/
inductive ARel (d₀ : ADist V K) : Except Err (ARes V K) → Except Err (Dens V K) → Prop
  | err (e : Err) : ARel d₀ (.error e) (.error e)
  | dist (env : Name → Option V) : ARel d₀ (.ok (.dist (bindD env d₀))) (.ok (.dist (toFactor d₀) env d₀.c))
  | lik (env : Name → Option V) (x : V) : ARel d₀ (.ok (.lik (bindD env d₀) x)) (.ok (.lik (toFactor d₀) env x d₀.c))
  | eval (v : K) : ARel d₀ (.ok (.eval d₀.name v)) (.ok (.eval (some d₀.name) v 0))

lemma atoLik_rel (d₀ : ADist V K) (h : AOK d₀) (env : Name → Option V) (x : V) :
    ARel d₀ (atoLik (bindD env d₀) x) (.ok (toLik (toFactor d₀) env d₀.c x)) := by
  have hfr : ∀ ka ∈ d₀.attrs, ∀ id sig b, ka.2 = .fn id sig b → b = [] :=
    fun ka hka id sig b hb => (h.fresh ka hka id sig b hb).1
  have hcv := acondVars_bind_eq_free d₀ h env
  unfold atoLik toLik
  rw [← hcv]
  by_cases he : (acondVars (bindD env d₀).attrs).isEmpty = true
  · rw [if_pos he, if_pos he]
    have hnil : acondVars (bindAttrs env d₀.attrs) = [] := List.isEmpty_iff.1 he
    obtain ⟨vs, hvs⟩ := avals_defined env d₀.attrs hfr hnil
    have hlog : alogpdf (bindD env d₀) x = .ok (d₀.pdf vs x) := by
      simp [alogpdf, bindD, hvs]
    have hb : bindAttrs (envWith env d₀.name x) d₀.attrs = bindAttrs env d₀.attrs := by
      apply bindAttrs_congr
      intro ka hka n hn
      have hm := reads_mem_acondVars d₀ h ka hka n hn
      have hne : n ≠ d₀.name := fun e => h.name_ok.2 (e ▸ hm)
      simp [envWith, hne]
    have hf : (toFactor d₀).f (envWith env d₀.name x) = d₀.pdf vs x := by
      simp [toFactor, envWith, hb, hvs]
    rw [hlog]
    show ARel d₀ (.ok (.eval d₀.name (d₀.pdf vs x + d₀.c)))
      (.ok (.eval (some d₀.name) ((toFactor d₀).f (envWith env d₀.name x) + d₀.c) 0))
    rw [hf]
    exact ARel.eval _
  · rw [if_neg he, if_neg he]
    exact ARel.lik env x

end

section
variable [Add K] [Zero K]

/-- **`Distribution._condition` at attribute level refines the abstract `condDist`.**  For every
    collision-free fresh distribution `d₀` (`AOK`, `MainOK`), every environment `env` already given
    to it, all positional arguments and all keywords with distinct keys on which the code's refusal
    "mutable variable … is not a conditioning variable" does not fire, the attribute-level call on
    `bindD env d₀` and the abstract call on `.dist (toFactor d₀) env c` return corresponding results:
    the same exception class, or a distribution / likelihood whose mutable variables are in the
    state `bindD env' d₀` for the *same* new environment `env'` (and the same data), or an evaluated
    density with the same value.  All branches of the code are covered: the parser, the loop,
    `_main_parameter`, unused keywords → own name, the keyword error check (its silent
    fall-through is unreachable).  Since the result is again of the form `bindD env' d₀`, the
    theorem applies to every further call: any history of conditioning calls at attribute level is
    simulated step by step by the abstract model, about which `Props/C01*.lean` prove `condition_logd`. -/
theorem acond_refines_condDist (d₀ : ADist V K) (h : AOK d₀) (hm : MainOK d₀) (env : Name → Option V)
    (args : List V) (kw : Kw V) (hkw : (kwKeys kw).Nodup)
    (hmut : ∀ k ∈ kwKeys kw, k ∈ d₀.attrs.map (·.1) → k ∈ acondVars (bindD env d₀).attrs) :
    ARel d₀ (acond (bindD env d₀) args kw) (condDist (toFactor d₀) env d₀.c args kw) := by
  have hfr : ∀ ka ∈ d₀.attrs, ∀ id sig b, ka.2 = .fn id sig b → b = [] :=
    fun ka hka id sig b hb => (h.fresh ka hka id sig b hb).1
  have hcvfree := acondVars_bind_eq_free d₀ h env
  have hcvmem : ∀ n, n ∈ acondVars (bindAttrs env d₀.attrs) ↔ n ∈ acondVars d₀.attrs ∧ env n = none := by
    intro n
    rw [acondVars_bind env d₀.attrs hfr, List.mem_filter]
    cases env n <;> simp
  have hcvnd : (acondVars (bindAttrs env d₀.attrs) ++ [mainKey]).Nodup := by
    rw [acondVars_bind env d₀.attrs hfr, List.nodup_append]
    refine ⟨(acondVars_nodup d₀ h).filter _, by simp, ?_⟩
    intro a ha b hb
    simp only [List.mem_singleton] at hb
    subst hb
    rintro rfl
    exact hm.cv (List.mem_filter.1 ha).1
  have hparse : aparseDist (acondVars (bindD env d₀).attrs) args kw = parseDist (free (toFactor d₀) env) args kw := by
    rw [← hcvfree]; exact aparseDist_eq_parseDist _ hcvnd _ _
  unfold acond condDist
  simp only [hparse]
  cases hp : parseDist (free (toFactor d₀) env) args kw with
  | error e => exact ARel.err e
  | ok kw' =>
    simp only []
    obtain ⟨hkw'eq, hposdis⟩ := parseDist_ok _ _ _ _ hp
    have hcv : free (toFactor d₀) env = acondVars (bindAttrs env d₀.attrs) := hcvfree.symm
    have hattrs : (bindD env d₀).attrs = bindAttrs env d₀.attrs := rfl
    have hmv : List.map (fun x => x.1) (bindAttrs env d₀.attrs) = d₀.attrs.map (·.1) := by
      simp [bindAttrs, List.map_map, Function.comp]
    have e1 : (bindD env d₀).name = d₀.name := rfl
    have e2 : (toFactor d₀).name = d₀.name := rfl
    have e3 : (bindD env d₀).pdf = d₀.pdf := rfl
    have e4 : (bindD env d₀).c = d₀.c := rfl
    simp only [e1, e2, e3, e4, hattrs, hcv]
    have hkw'nd : (kwKeys kw').Nodup := by
      rw [hkw'eq, kwKeys_append, List.nodup_append]
      refine ⟨hkw, kwKeys_zip_nodup _ _ (hcv ▸ hcvnd), ?_⟩
      intro a ha b hb hab
      subst hab
      exact hposdis a hb ha
    have hmut' : ∀ k ∈ kwKeys kw', k ∈ d₀.attrs.map (·.1) → k ∈ acondVars (bindAttrs env d₀.attrs) := by
      intro k hk hkmv
      rw [hkw'eq, kwKeys_append] at hk
      rcases List.mem_append.1 hk with hk | hk
      · exact hmut k hk hkmv
      · have := kwKeys_zip_subset _ _ k hk
        rw [hcv] at this
        rcases List.mem_append.1 this with h1 | h1
        · exact h1
        · simp only [List.mem_singleton] at h1
          subst h1
          exact absurd hkmv hm.attr
    have hnew : List.map (fun kr => (kr.1, kr.2.1)) (List.map (fun ka => (ka.1, condAttr kw' ka.1 ka.2)) (bindAttrs env d₀.attrs))
        = bindAttrs (bindEnv env (acondVars (bindAttrs env d₀.attrs)) kw') d₀.attrs := by
      rw [List.map_map]
      exact condAttrs_refine_bind d₀ h env kw' hkw'nd hmut'
    have hproc : ∀ k ∈ kwKeys kw',
        (k ∈ List.flatMap (fun kr => kr.2.2) (List.map (fun ka => (ka.1, condAttr kw' ka.1 ka.2)) (bindAttrs env d₀.attrs))
          ↔ k ∈ acondVars (bindAttrs env d₀.attrs)) :=
      fun k hk => processed_iff (bindAttrs env d₀.attrs) kw' k hk (fun hk2 => hmut' k hk (hmv ▸ hk2))
    have hchk : ¬ ((kwKeys kw').any fun k =>
        (List.map (fun x => x.1) (bindAttrs env d₀.attrs)).contains k && !(acondVars (bindAttrs env d₀.attrs)).contains k) = true := by
      intro hany
      obtain ⟨k, hk, hc⟩ := List.any_eq_true.1 hany
      simp only [Bool.and_eq_true, Bool.not_eq_eq_eq_not, Bool.not_true, List.contains_eq_mem, decide_eq_true_eq,
        decide_eq_false_iff_not] at hc
      exact hc.2 (hmut' k hk (hmv ▸ hc.1))
    have hempty : (List.filter (fun k => !(List.flatMap (fun kr => kr.2.2)
          (List.map (fun ka => (ka.1, condAttr kw' ka.1 ka.2)) (bindAttrs env d₀.attrs))).contains k) (kwKeys kw')).isEmpty
        = (List.filter (fun kv => !(acondVars (bindAttrs env d₀.attrs)).contains kv.1) kw').isEmpty := by
      rw [Bool.eq_iff_iff, List.isEmpty_iff, List.isEmpty_iff, List.filter_eq_nil_iff, List.filter_eq_nil_iff]
      constructor
      · intro hh kv hkv
        have hk : kv.1 ∈ kwKeys kw' := List.mem_map.2 ⟨kv, hkv, rfl⟩
        have := hh kv.1 hk
        simp only [Bool.not_eq_eq_eq_not, Bool.not_true, List.contains_eq_mem, decide_eq_false_iff_not, not_not] at this ⊢
        exact (hproc _ hk).1 this
      · intro hh k hk
        obtain ⟨kv, hkv, rfl⟩ := List.mem_map.1 hk
        have := hh kv hkv
        simp only [Bool.not_eq_eq_eq_not, Bool.not_true, List.contains_eq_mem, decide_eq_false_iff_not, not_not] at this ⊢
        exact (hproc _ hk).2 this
    rw [if_neg hchk, hnew, hempty]
    have hstruct : ∀ env', ({ name := d₀.name, attrs := bindAttrs env' d₀.attrs, pdf := d₀.pdf, c := d₀.c } : ADist V K) = bindD env' d₀ :=
      fun _ => rfl
    simp only [hstruct]
    cases hmk : kwGet kw' mainKey with
    | some x => exact atoLik_rel d₀ h _ x
    | none =>
      simp only []
      by_cases hE : (List.filter (fun kv => !(acondVars (bindAttrs env d₀.attrs)).contains kv.1) kw').isEmpty = true
      · rw [if_pos hE, if_pos hE]
        exact ARel.dist _
      · rw [if_neg hE, if_neg hE]
        cases hnm : kwGet kw' d₀.name with
        | some x => exact atoLik_rel d₀ h _ x
        | none =>
          simp only []
          have hany : ((kwKeys kw').any fun k =>
              !(List.map (fun x => x.1) (bindAttrs env d₀.attrs) ++ acondVars (bindAttrs env d₀.attrs) ++ [d₀.name]).contains k) = true := by
            have hne : List.filter (fun kv => !(acondVars (bindAttrs env d₀.attrs)).contains kv.1) kw' ≠ [] := by
              intro hnil; exact hE (by rw [hnil]; rfl)
            obtain ⟨kv, hkv⟩ := List.exists_mem_of_ne_nil _ hne
            obtain ⟨hkvm, hkvc⟩ := List.mem_filter.1 hkv
            have hk : kv.1 ∈ kwKeys kw' := List.mem_map.2 ⟨kv, hkvm, rfl⟩
            have hncv : kv.1 ∉ acondVars (bindAttrs env d₀.attrs) := by simpa using hkvc
            have hnmv : kv.1 ∉ List.map (fun x => x.1) (bindAttrs env d₀.attrs) := fun hin => hncv (hmut' _ hk (hmv ▸ hin))
            have hnname : kv.1 ≠ d₀.name := fun e => (kwGet_eq_none_iff kw' d₀.name).1 hnm (e ▸ hk)
            apply List.any_eq_true.2
            refine ⟨kv.1, hk, ?_⟩
            simp [hncv, hnmv, hnname]
          rw [if_pos hany]
          exact ARel.err _

/-- `y ~ Gaussian(mean=None, cov=lambda s, t: …)` and `x ~ Normal(0, std=lambda std: …)` satisfy the side conditions -/
def okD : ADist Nat Nat :=
  { name := "y", attrs := [("mean", .none), ("cov", .fn 0 ["s", "t"] []), ("std", .fn 1 ["std"] [])], pdf := fun _ _ => 0, c := 0 }

example : AOK okD ∧ MainOK okD := by
  refine ⟨⟨by decide, ?_, ?_, by decide⟩, ⟨by decide, by decide, by decide⟩⟩
  · intro ka hka id sig b hb
    simp only [okD, List.mem_cons, List.not_mem_nil, or_false] at hka
    rcases hka with rfl | rfl | rfl <;> simp at hb
    · obtain ⟨_, rfl, rfl⟩ := hb; exact ⟨rfl, by decide⟩
    · obtain ⟨_, rfl, rfl⟩ := hb; exact ⟨rfl, by decide⟩
  · intro ka hka n hn kb hkb hnk
    simp only [okD, List.mem_cons, List.not_mem_nil, or_false] at hka hkb
    rcases hka with rfl | rfl | rfl <;> rcases hkb with rfl | rfl | rfl <;>
      simp [Attr.args, remArgs, kwKeys] at hn hnk ⊢ <;> (try subst hnk) <;> simp_all


/-- **Transfer, errors**: the attribute-level call raises exactly when the abstract one does, with the same class. -/
theorem acond_error_iff (d₀ : ADist V K) (h : AOK d₀) (hm : MainOK d₀) (env : Name → Option V)
    (args : List V) (kw : Kw V) (hkw : (kwKeys kw).Nodup)
    (hmut : ∀ k ∈ kwKeys kw, k ∈ d₀.attrs.map (·.1) → k ∈ acondVars (bindD env d₀).attrs) (e : Err) :
    acond (bindD env d₀) args kw = .error e ↔ condDist (toFactor d₀) env d₀.c args kw = .error e := by
  have hr := acond_refines_condDist d₀ h hm env args kw hkw hmut
  generalize acond (bindD env d₀) args kw = x at hr
  generalize condDist (toFactor d₀) env d₀.c args kw = y at hr
  cases hr <;> simp

/-- **Transfer, values**: when the abstract call returns an evaluated density (the variable and all
    its conditioning variables fixed), the attribute-level call returns an evaluated density with the
    same value — the number that `condition_logd` of `Props/C01_full.lean` sums into the joint log-density. -/
theorem acond_eval_value (d₀ : ADist V K) (h : AOK d₀) (hm : MainOK d₀) (env : Name → Option V)
    (args : List V) (kw : Kw V) (hkw : (kwKeys kw).Nodup)
    (hmut : ∀ k ∈ kwKeys kw, k ∈ d₀.attrs.map (·.1) → k ∈ acondVars (bindD env d₀).attrs)
    (n : Option Name) (v c' : K) (habs : condDist (toFactor d₀) env d₀.c args kw = .ok (.eval n v c')) :
    acond (bindD env d₀) args kw = .ok (.eval d₀.name v) := by
  have hr := acond_refines_condDist d₀ h hm env args kw hkw hmut
  rw [habs] at hr
  generalize acond (bindD env d₀) args kw = x at hr
  cases hr
  rfl

/-- **Transfer, conditioning variables**: when the abstract call returns a distribution with
    environment `env'`, the attribute-level call returns the distribution `bindD env' d₀`, whose
    `get_conditioning_variables()` are `free (toFactor d₀) env'`. -/
theorem acond_dist_state (d₀ : ADist V K) (h : AOK d₀) (hm : MainOK d₀) (env : Name → Option V)
    (args : List V) (kw : Kw V) (hkw : (kwKeys kw).Nodup)
    (hmut : ∀ k ∈ kwKeys kw, k ∈ d₀.attrs.map (·.1) → k ∈ acondVars (bindD env d₀).attrs)
    (F : Factor V K) (env' : Name → Option V) (c' : K)
    (habs : condDist (toFactor d₀) env d₀.c args kw = .ok (.dist F env' c')) :
    acond (bindD env d₀) args kw = .ok (.dist (bindD env' d₀)) ∧
      acondVars (bindD env' d₀).attrs = free (toFactor d₀) env' := by
  have hr := acond_refines_condDist d₀ h hm env args kw hkw hmut
  rw [habs] at hr
  generalize acond (bindD env d₀) args kw = x at hr
  cases hr
  exact ⟨rfl, acondVars_bind_eq_free d₀ h env'⟩

end

/-! ## name collisions -/

/-- `y ~ Gaussian(mean=lambda x: x, cov=lambda mean: mean)` -/
def collideD : ADist Nat Nat :=
  { name := "y", attrs := [("mean", .fn 0 ["x"] []), ("cov", .fn 1 ["mean"] [])], pdf := fun _ _ => 0, c := 0 }

/-- **Known finding `attr:collision-other:*` on the model.**  The distribution has the conditioning
    variables `x` and `mean`; fixing `mean` (an argument of the callable in `cov`) overwrites the
    callable stored in the mutable variable `mean` with the raw value: the result has no
    conditioning variable left although `x` was never given. -/
theorem acond_collision_counterexample :
    acondVars collideD.attrs = ["x", "mean"] ∧
    ∃ d', acond collideD [] [("mean", 2)] = .ok (.dist d') ∧
      d'.attrs = [("mean", .val (.given 2)), ("cov", .val (.app 1 [2]))] ∧ acondVars d'.attrs = [] := by
  refine ⟨by decide, ⟨_, rfl, by decide, by decide⟩⟩

/-- `x ~ Normal(0, std=lambda std: 0.1 + std)`: an argument called like the mutable variable it
    sits in is handled correctly — the attribute becomes the callable's result -/
theorem acond_self_named_example :
    ∃ d', acond ({ name := "x", attrs := [("mean", .val (.const 0)), ("std", .fn 0 ["std"] [])], pdf := fun _ _ => 0, c := 0 } : ADist Nat Nat)
        [] [("std", 7)] = .ok (.dist d') ∧
      d'.attrs = [("mean", .val (.const 0)), ("std", .val (.app 0 [7]))] := by
  exact ⟨_, rfl, by decide⟩

end CuqiVerif.C01
