import CuqiVerif.Model.C01_attrs
import Mathlib.Data.List.Basic
import Mathlib.Tactic.Tauto

/-!
# C01 — attribute level (`Model/C01_attrs.lean`)

Theorems about the executable transcription of `Distribution._condition`'s loop over the mutable
variables, `get_conditioning_variables` / `get_indirect_variables`, and
`Distribution._parse_args_add_to_kwargs` — the definitions the `attr` lines of `Driver/C01.lean` run.

* `aparseDist_eq_parseDist` — the accumulating argument parser of the code is the closed form
  `parseDist` used by `Model/C01.lean` (and all theorems of `Props/C01*.lean`) whenever the
  conditioning variables are pairwise distinct and none is `_main_parameter`.
* `condAttr_callable_wins` — whenever a callable mutable variable receives at least one of its
  arguments, the new value of the variable is what the callable says (its result, or the partially
  applied callable), never the raw keyword value — also when an argument is called like the
  variable itself (`std=lambda std: 0.1+std`).
* `condAttr_direct` — a mutable variable that is `None` takes the keyword value given under its own name.
* `condAttr_untouched` — a mutable variable none of whose names occurs among the keywords keeps its value.
* `acond_refuses_nonconditioning_attribute` — a keyword naming a mutable variable that is not a
  conditioning variable is refused (ValueError), whatever else is passed.
* `indirectVars_filter`, `remArgs_canon` — binding arguments removes exactly those names from the
  conditioning variables and keeps the order of the others (so positional conditioning after a
  partial conditioning addresses the remaining variables in their original order).
* `acond_collision_counterexample` — the known finding `attr:collision-other:*` on the model:
  `y ~ Gaussian(mean=lambda x: x, cov=lambda mean: mean)`; fixing `mean` destroys the callable in
  `mean`, the conditioning variable `x` disappears although it was never given.
* `acond_self_named_example` — the same call on `Normal(0, std=lambda std: …)` is right.

Not delivered (full statement kept here): `acond_refines_condDist` —
for every distribution `d₀` without name collisions and every environment `env`,
`acond (bind env d₀) args kw` and `condDist (toFactor d₀) env d₀.c args kw` return corresponding
results (same error class / distribution with environment `bindEnv …` / likelihood with the same
data / evaluated density with the same value).  The lemmas above are its per-variable ingredients;
the correspondence is validated on every run by the attribute-level tie stream instead.
-/
namespace CuqiVerif.C01

variable {V K : Type}

/-! ## the argument parser -/

private lemma aparse_eq (ks : List Name) (hnd : ks.Nodup) (args : List V) (kw : Kw V)
    (hlen : args.length ≤ ks.length) :
    aparse ks args kw =
      if (ks.zip args).any (fun kv => (kwKeys kw).contains kv.1) = true then .error .value
      else .ok (kw ++ ks.zip args) := by
  induction ks generalizing args kw with
  | nil =>
    cases args with
    | nil => simp [aparse]
    | cons a as => simp at hlen
  | cons k ks ih =>
    cases args with
    | nil => simp [aparse]
    | cons a as =>
      have hk : k ∉ ks := (List.nodup_cons.1 hnd).1
      have hnd' : ks.Nodup := (List.nodup_cons.1 hnd).2
      have hlen' : as.length ≤ ks.length := by simpa using hlen
      have hkeys : (ks.zip as).any (fun kv => (kwKeys (kw ++ [(k, a)])).contains kv.1)
          = (ks.zip as).any (fun kv => (kwKeys kw).contains kv.1) := by
        rw [Bool.eq_iff_iff]
        simp only [List.any_eq_true]
        constructor
        · rintro ⟨kv, hkv, h⟩
          have hne : kv.1 ≠ k := fun e => hk (e ▸ (List.of_mem_zip hkv).1)
          exact ⟨kv, hkv, by simpa [kwKeys, hne] using h⟩
        · rintro ⟨kv, hkv, h⟩
          exact ⟨kv, hkv, by simp only [kwKeys, List.contains_iff_mem, List.map_append, List.mem_append] at h ⊢; exact Or.inl h⟩
      show (if (kwKeys kw).contains k = true then _ else aparse ks as (kw ++ [(k, a)])) = _
      rw [ih hnd' as (kw ++ [(k, a)]) hlen', hkeys]
      simp only [List.zip_cons_cons, List.any_cons, Bool.or_eq_true]
      by_cases hc : (kwKeys kw).contains k = true
      · rw [if_pos hc, if_pos (Or.inl hc)]
      · rw [if_neg hc]
        by_cases hany : (ks.zip as).any (fun kv => (kwKeys kw).contains kv.1) = true
        · rw [if_pos hany, if_pos (Or.inr hany)]
        · rw [if_neg hany, if_neg (by tauto)]
          simp [List.append_assoc]

/-- **The parser of the code is the closed form of the model.**  `Distribution._parse_args_add_to_kwargs`
    adds the positional values one by one and checks each key against the keywords collected so far;
    for pairwise distinct conditioning variables different from `_main_parameter` this is `parseDist`
    (check against the caller's keywords, then append all pairs). -/
theorem aparseDist_eq_parseDist (cv : List Name) (hnd : (cv ++ [mainKey]).Nodup) (args : List V) (kw : Kw V) :
    aparseDist cv args kw = parseDist cv args kw := by
  unfold aparseDist parseDist
  by_cases hl : args.length > cv.length + 1
  · simp [hl]
  · simp only [hl, if_false]
    have hlen : args.length ≤ (cv ++ [mainKey]).length := by simp; omega
    rw [aparse_eq (cv ++ [mainKey]) hnd args kw hlen]

example : aparseDist ["s", "t"] [(1 : Nat), 2, 3] [("u", 0)] = parseDist ["s", "t"] [1, 2, 3] [("u", 0)] :=
  aparseDist_eq_parseDist _ (by decide) _ _

/-! ## one mutable variable -/

/-- **The callable decides.**  If a callable mutable variable receives at least one of its
    remaining arguments, its new value is the callable's result (all arguments now known) or the
    callable with more arguments bound — never the raw value of a keyword, even when a keyword
    carries the variable's own name (`std=lambda std: 0.1 + std` conditioned on `std`). -/
theorem condAttr_callable_wins (kw : Kw V) (key : Name) (id : Nat) (sig : List Name) (bound : Kw V)
    (h : (kw.filter (fun kv => (remArgs sig bound).contains kv.1)).length > 0) :
    let va := kw.filter (fun kv => (remArgs sig bound).contains kv.1)
    (condAttr kw key (.fn id sig bound)).1 = .val (.app id (sig.filterMap (kwGet (bound ++ va)))) ∨
    (condAttr kw key (.fn id sig bound)).1 = .fn id sig (canon sig (kwGet (bound ++ va))) := by
  intro va
  by_cases h1 : (va.length == (remArgs sig bound).length) = true
  · left
    show (if (va.length == (remArgs sig bound).length) = true then _ else _ : Attr V × List Name).1 = _
    rw [if_pos h1]
  · right
    show (if (va.length == (remArgs sig bound).length) = true then _ else _ : Attr V × List Name).1 = _
    rw [if_neg h1, if_pos h]

example : (condAttr [("std", (7 : Nat))] "std" (.fn 0 ["std"] [])).1 = .val (.app 0 [7]) := by decide

/-- a mutable variable that is `None` takes the value of the keyword carrying its name and
    records the keyword as processed -/
theorem condAttr_direct (kw : Kw V) (key : Name) (v : V) (h : kwGet kw key = some v) :
    condAttr kw key (.none : Attr V) = (.val (.given v), [key]) := by
  simp [condAttr, h]

/-- a mutable variable keeps its value when the keywords mention neither its name nor (for a
    callable with arguments still open) any of its arguments -/
theorem condAttr_untouched (kw : Kw V) (key : Name) (a : Attr V) (hkey : kwGet kw key = none)
    (hargs : ∀ kv ∈ kw, kv.1 ∉ a.args) (hopen : a.args ≠ [] ∨ ∀ id sig b, a ≠ .fn id sig b) :
    condAttr kw key a = (a, []) := by
  cases a with
  | val x => simp [condAttr, hkey]
  | none => simp [condAttr, hkey]
  | fn id sig bound =>
    have hva : kw.filter (fun kv => (remArgs sig bound).contains kv.1) = [] := by
      apply List.filter_eq_nil_iff.2
      intro kv hkv
      have := hargs kv hkv
      simpa [Attr.args] using this
    have hne : remArgs sig bound ≠ [] := by
      rcases hopen with h | h
      · simpa [Attr.args] using h
      · exact absurd rfl (h id sig bound)
    have hlen : (remArgs sig bound).length ≠ 0 := by
      intro h0; exact hne (List.length_eq_zero_iff.1 h0)
    have hva' : kw.filter (fun kv => decide (kv.1 ∈ remArgs sig bound)) = [] := by simpa using hva
    have hlen' : ¬ (0 = (remArgs sig bound).length) := fun h0 => hlen h0.symm
    simp [condAttr, hkey, hva', kwKeys, hlen']

example : condAttr [("t", (1 : Nat))] "cov" (.fn 0 ["s"] []) = (.fn 0 ["s"] [], []) := by decide

/-! ## the whole distribution -/

section
variable [Add K] [Zero K]

omit [Zero K] in
/-- **A keyword naming a mutable variable that is not a conditioning variable is refused**
    (`The mutable variable "cov" is not a conditioning variable of this distribution.`), whatever
    else is passed — in particular together with the distribution's own name. -/
theorem acond_refuses_nonconditioning_attribute (d : ADist V K) (kw : Kw V) (k : Name)
    (hk : k ∈ kwKeys kw) (hm : k ∈ d.attrs.map (·.1)) (hc : k ∉ acondVars d.attrs) :
    acond d [] kw = .error .value := by
  unfold acond
  have hp : aparseDist (acondVars d.attrs) ([] : List V) kw = .ok kw := by
    simp [aparseDist, aparse]
  have : (kwKeys kw).any (fun k => (d.attrs.map (·.1)).contains k && !(acondVars d.attrs).contains k) = true := by
    apply List.any_eq_true.2
    exact ⟨k, hk, by simp [hm, hc]⟩
  simp only [hp]
  rw [if_pos this]

example : acond ({ name := "y", attrs := [("mean", .none), ("cov", .val (.const 0))], pdf := fun _ _ => (0 : Nat), c := 0 } : ADist Nat Nat)
    [] [("cov", 3), ("y", 1)] = .error .value := by
  apply acond_refuses_nonconditioning_attribute _ _ "cov" <;> decide

end

/-! ## order of the conditioning variables -/

private lemma dedupInto_filter (p : Name → Bool) (acc l : List Name) :
    (dedupInto acc l).filter p = dedupInto (acc.filter p) (l.filter p) := by
  induction l generalizing acc with
  | nil => simp [dedupInto]
  | cons k ks ih =>
    by_cases hp : p k = true
    · by_cases hc : k ∈ acc
      · have hc' : k ∈ acc.filter p := List.mem_filter.2 ⟨hc, hp⟩
        simp [dedupInto, hc, hc', hp, ih]
      · have hc' : k ∉ acc.filter p := fun h => hc (List.mem_filter.1 h).1
        simp [dedupInto, hc, hc', hp, ih, List.filter_append]
    · by_cases hc : k ∈ acc
      · simp [dedupInto, hc, hp, ih]
      · simp [dedupInto, hc, hp, ih, List.filter_append]

/-- **Binding arguments keeps the order of the others.**  If every mutable variable keeps, of its
    open arguments, exactly those satisfying `p` (the names not bound by a conditioning call), then
    `get_indirect_variables` of the new distribution is `get_indirect_variables` of the old one
    filtered by `p` — same order, duplicates between callables still listed once. -/
theorem indirectVars_filter (p : Name → Bool) (as bs : Attrs V)
    (h : List.Forall₂ (fun a b => b.2.args = a.2.args.filter p) as bs) :
    indirectVars bs = (indirectVars as).filter p := by
  unfold indirectVars
  rw [dedupInto_filter]
  congr 1
  induction h with
  | nil => rfl
  | cons hab _ ih => simp [List.flatMap_cons, List.filter_append, hab, ih]

/-- after binding, the open arguments of a callable are the signature names the binding does not know -/
theorem remArgs_canon (sig : List Name) (g : Name → Option V) :
    remArgs sig (canon sig g) = sig.filter (fun n => (g n).isNone) := by
  unfold remArgs
  apply List.filter_congr
  intro n hn
  have : n ∈ kwKeys (canon sig g) ↔ (g n).isSome := by
    simp only [kwKeys, canon, List.mem_map, List.mem_filterMap, Option.map_eq_some_iff]
    constructor
    · rintro ⟨⟨k, v⟩, ⟨m, _, w, hw, heq⟩, rfl⟩
      simp only [Prod.mk.injEq] at heq
      obtain ⟨rfl, rfl⟩ := heq
      simp [hw]
    · intro hs
      obtain ⟨v, hv⟩ := Option.isSome_iff_exists.1 hs
      exact ⟨(n, v), ⟨n, hn, v, hv, rfl⟩, rfl⟩
  cases hg : g n with
  | none => simp [hg] at this; simp [this]
  | some v => simp [hg] at this; simp [this]

example : indirectVars ([("mean", .fn 0 ["x", "s"] [("s", 2)]), ("cov", .fn 1 ["s", "t"] [("s", 2)])] : Attrs Nat)
    = (indirectVars ([("mean", .fn 0 ["x", "s"] []), ("cov", .fn 1 ["s", "t"] [])] : Attrs Nat)).filter (· != "s") := by
  decide

/-! ## name collisions -/

/-- `y ~ Gaussian(mean=lambda x: x, cov=lambda mean: mean)` -/
def collideD : ADist Nat Nat :=
  { name := "y", attrs := [("mean", .fn 0 ["x"] []), ("cov", .fn 1 ["mean"] [])], pdf := fun _ _ => 0, c := 0 }

/-- **Known finding `attr:collision-other:*` on the model.**  The distribution has the conditioning
    variables `x` and `mean`; fixing `mean` (an argument of the callable in `cov`) overwrites the
    callable stored in the mutable variable `mean` with the raw value: the result has no
    conditioning variable left although `x` was never given. -/
theorem acond_collision_counterexample :
    acondVars collideD.attrs = ["x", "mean"] ∧
    ∃ d', acond collideD [] [("mean", 2)] = .ok (.dist d') ∧
      d'.attrs = [("mean", .val (.given 2)), ("cov", .val (.app 1 [2]))] ∧ acondVars d'.attrs = [] := by
  refine ⟨by decide, ⟨_, rfl, by decide, by decide⟩⟩

/-- `x ~ Normal(0, std=lambda std: 0.1 + std)`: an argument called like the mutable variable it
    sits in is handled correctly — the attribute becomes the callable's result -/
theorem acond_self_named_example :
    ∃ d', acond ({ name := "x", attrs := [("mean", .val (.const 0)), ("std", .fn 0 ["std"] [])], pdf := fun _ _ => 0, c := 0 } : ADist Nat Nat)
        [] [("std", 7)] = .ok (.dist d') ∧
      d'.attrs = [("mean", .val (.const 0)), ("std", .val (.app 0 [7]))] := by
  exact ⟨_, rfl, by decide⟩

end CuqiVerif.C01
