import CuqiVerif.Props.C05
import CuqiVerif.Proofs.C05_law
import Mathlib.Probability.Distributions.Gaussian.Multivariate
import Mathlib.Probability.Distributions.Gamma
import Mathlib.Probability.Distributions.Cauchy

/-!
# C05 — law theorems: the push-forward of the generator's law is `exp (logpdf)` of the same object

`Props/C05.lean` proves that a draw is the affine function `mean + B ξ` of what the generator returned
(`gaussSample_eq`, `gaussPerturb_solves`: `R (B ξ) = ξ`), that `B Bᵀ = (RᵀR)⁻¹`
(`gauss_cov_eq_inv_precision`), and that the closed-form `logpdf`s are the documented densities of the
generator calls (`*_plumbing_eq_density`).  What was left in the trusted base was the step from "affine
function of a standard normal vector" to "is distributed according to `exp(logpdf)`".  This file closes it
with Mathlib's measure theory:

* Part 1 (dimension 1): `ξ ~ N(0,1)` ⇒ `m + ξ/r ~ N(m, 1/r²)`, with density `exp` of the model's
  `gauss1Logpdf` / `normalLogpdf` (`RExpr`s of `Model/C05.lean`), and the tie to the executable
  `diagSqrtprec`/`diagPrecision`.
* Part 2 (diagonal, any dimension): independent components `N(mᵢ, 1/rᵢ²)`.
* Part 3 (any square `B`, any dimension): the law of `m + B ξ` is Mathlib's `multivariateGaussian m (B Bᵀ)`;
  mean, covariance, law of every linear functional, characteristic function; for `R B = 1` its density
  w.r.t. Lebesgue measure is `exp (Gaussian.logpdf)`; rectangular `B` (GMRF Neumann) through linear
  functionals; GMRF zero BC with `GMRF.logpdf`.
  Lognormal: the componentwise exponential of that draw has density `Lognormal.pdf`.
* Part 4: scale–location push-forwards behind the Normal / Cauchy / Laplace / Uniform / Gamma plumbing, and
  numpy's inverse-cdf Laplace generator from the uniform variate.

All measures live on `ι → ℝ` (any finite index type `ι`; `Fin n` is the instance the code uses);
`stdNormalVec ι` is the law of `rng.randn(n)` / `rng.standard_normal(n)` (independent `N(0,1)` components —
this, i.e. the law of numpy's generator, is the only thing that remains assumed).
The matrices are generic real matrices: the rational model of `Model/C05.lean` (`gaussSample`, `fwdXs`,
`QMat.solve`) is the instance obtained by casting ℚ → ℝ, through the relation `R *ᵥ p = ξ` which
`gaussPerturb_solves` / `fwdXs_solves` establish for every value the model produces.
-/
namespace CuqiVerif.C05
open MeasureTheory ProbabilityTheory Matrix WithLp Real CuqiVerif RExpr
open scoped ENNReal RealInnerProductSpace NNReal

/-! ## Part 1 — dimension 1 -/

/-- **Gaussian, dim 1, stored `sqrtprec = r`: the draw `mean + ξ/r` is `N(mean, 1/r²)`** for a standard
normal `ξ` (what `solve(R, e)` is for a 1×1 `R`).  Any non-zero `r`, either sign. -/
theorem gauss1_draw_law (m r : ℝ) (hr : r ≠ 0) :
    (gaussianReal 0 1).map (fun ξ => m + ξ / r) = gaussianReal m (Real.toNNReal (1 / r ^ 2)) := by
  have hcomp : (fun ξ : ℝ => m + ξ / r) = (fun y => m + y) ∘ (fun ξ => ξ / r) := rfl
  rw [hcomp, ← Measure.map_map (measurable_const_add m) (f := fun ξ : ℝ => ξ / r) (by fun_prop),
    gaussianReal_map_div_const, gaussianReal_map_const_add]
  congr 1
  · simp
  · apply NNReal.eq
    rw [Real.coe_toNNReal _ (by positivity)]
    simp

/-- **… and that law has the density `exp (Gaussian.logpdf)`** — `gauss1Logpdf` is the model's transcription of
`Gaussian.logpdf` in dimension 1 (`Model/C05.lean`); the equality is an equality of measures on `ℝ`, so every
event has the probability the object's own density assigns to it. -/
theorem gauss1_draw_law_density (m r : ℝ) (hr : r ≠ 0) :
    (gaussianReal 0 1).map (fun ξ => m + ξ / r)
      = (volume : Measure ℝ).withDensity (fun x => ENNReal.ofReal
          (Real.exp (eval (env4 x m r 0) (gauss1Logpdf (var 0) (var 1) (var 2))))) := by
  have hv : Real.toNNReal (1 / r ^ 2) ≠ 0 := by
    rw [Ne, Real.toNNReal_eq_zero, not_le]; positivity
  have habs : ∀ x, eval (env4 x m r 0) (gauss1Logpdf (var 0) (var 1) (var 2))
      = eval (env4 x m |r| 0) (gauss1Logpdf (var 0) (var 1) (var 2)) := by
    intro x; simp [gauss1Logpdf, mul_pow]
  rw [gauss1_draw_law m r hr, gaussianReal_of_var_ne_zero m hv, gaussianPDF_def]
  congr 1
  ext x
  rw [habs, gauss1_plumbing_eq_density x m |r| (abs_pos.mpr hr), sq_abs]

example := gauss1_draw_law_density 1 (-2) (by norm_num)

/-- **Tie to the executable model**: for every scalar / vector / diagonal parameterisation (`cov`, `prec`,
`sqrtcov`, `sqrtprec`) whose stored value `diagSqrtprec f v = some r` the model computes, the draw
`mean + ξ/r` is normal with variance `1 / diagPrecision f v`, the reciprocal of the precision the same
parameter contributes to `logpdf` (`diagSqrtprec_sq`). -/
theorem gauss_form_draw_law (f : Form) (v r : ℚ) (h : diagSqrtprec f v = some r) (hr : r ≠ 0) (m : ℝ) :
    (gaussianReal 0 1).map (fun ξ => m + ξ / (r : ℝ))
      = gaussianReal m (Real.toNNReal (1 / ((diagPrecision f v : ℚ) : ℝ))) := by
  rw [gauss1_draw_law m r (by exact_mod_cast hr), ← diagSqrtprec_sq f v r h]
  push_cast
  rw [sq]

example : diagSqrtprec .cov (1/4) = some 2 := by decide +kernel
example := gauss_form_draw_law .cov (1/4) 2 (by decide +kernel) (by norm_num) 3

/-- **Normal: `rng.normal(mean, std)` = `mean + std·ξ` is `N(mean, std²)`** (numpy's legacy generator computes
`loc + scale * gauss()`). -/
theorem normal_draw_law (m s : ℝ) :
    (gaussianReal 0 1).map (fun ξ => m + s * ξ) = gaussianReal m (Real.toNNReal (s ^ 2)) := by
  have hcomp : (fun ξ : ℝ => m + s * ξ) = (fun y => m + y) ∘ (fun ξ => s * ξ) := rfl
  rw [hcomp, ← Measure.map_map (measurable_const_add m) (measurable_const_mul s),
    gaussianReal_map_const_mul, gaussianReal_map_const_add]
  congr 1
  · simp
  · apply NNReal.eq
    rw [Real.coe_toNNReal _ (by positivity)]
    simp

/-- **… with density `exp (Normal.logpdf)`** (`normalLogpdf` of the model). -/
theorem normal_draw_law_density (m s : ℝ) (hs : 0 < s) :
    (gaussianReal 0 1).map (fun ξ => m + s * ξ)
      = (volume : Measure ℝ).withDensity (fun x => ENNReal.ofReal
          (Real.exp (eval (env4 x m s 0) (normalLogpdf (var 0) (var 1) (var 2))))) := by
  have hv : Real.toNNReal (s ^ 2) ≠ 0 := by
    rw [Ne, Real.toNNReal_eq_zero, not_le]; positivity
  rw [normal_draw_law m s, gaussianReal_of_var_ne_zero m hv, gaussianPDF_def]
  congr 1
  ext x
  rw [normal_plumbing_eq_density x m s hs]

example := normal_draw_law_density 1 2 (by norm_num)

section GaussND
variable {ι : Type*} [Fintype ι] [DecidableEq ι]

/-! ## Part 2 — diagonal `sqrtprec`, any dimension -/

/-- **Diagonal `sqrtprec = diag(r)`: the components of the draw are independent `N(mᵢ, 1/rᵢ²)`** — the law of
`m + diag(1/r) ξ` is the product measure.  (Scalar and vector `cov`/`prec`/`sqrtcov`/`sqrtprec` all store a
diagonal `sqrtprec`, see `diagFormSqrtprec`.) -/
theorem gauss_diag_draw_law (m r : ι → ℝ) (hr : ∀ i, r i ≠ 0) :
    gaussDrawLaw m (Matrix.diagonal fun i => (r i)⁻¹)
      = Measure.pi (fun i => gaussianReal (m i) (Real.toNNReal (1 / r i ^ 2))) := by
  have hf : (fun ξ : ι → ℝ => m + (Matrix.diagonal fun i => (r i)⁻¹) *ᵥ ξ)
      = fun ξ i => (fun i z => m i + z / r i) i (ξ i) := by
    ext ξ i; simp [mulVec_diagonal, div_eq_inv_mul]
  have : ∀ i, SigmaFinite ((gaussianReal 0 1).map ((fun i z => m i + z / r i) i)) := fun i => by
    rw [gauss1_draw_law (m i) (r i) (hr i)]; infer_instance
  rw [gaussDrawLaw, stdNormalVec, hf]
  refine (Measure.pi_map_pi (μ := fun _ : ι => gaussianReal 0 1) (f := fun i z => m i + z / r i)
    (fun i => by fun_prop)).trans ?_
  congr 1
  ext1 i
  exact gauss1_draw_law (m i) (r i) (hr i)

example := gauss_diag_draw_law (ι := Fin 3) ![1, 2, 3] ![2, -1, 1/4] (by
  intro i; fin_cases i <;> norm_num)

/-! ## Part 3 — any square `B`, any dimension -/

/-- **The law of `mean + B ξ` is the multivariate Gaussian with mean `mean` and covariance `B Bᵀ`**
(Mathlib's `multivariateGaussian`, read through the identification `toLp 2 : (ι → ℝ) → EuclideanSpace ℝ ι`).
Every square `B`: no symmetry, triangularity or invertibility is needed. -/
theorem gauss_draw_law_eq_multivariateGaussian (m : ι → ℝ) (B : Matrix ι ι ℝ) :
    (gaussDrawLaw m B).map (toLp 2) = multivariateGaussian (toLp 2 m) (B * Bᵀ) :=
  gaussDrawLaw_map_toLp m B

/-- **Every linear functional of the draw is normal**: `t·x ~ N(t·mean, tᵀ(B Bᵀ)t)`.  (By Cramér–Wold this
characterises the law `N(mean, B Bᵀ)`.) -/
theorem gauss_draw_linear_functional (m : ι → ℝ) (B : Matrix ι ι ℝ) (t : ι → ℝ) :
    (gaussDrawLaw m B).map (fun x => t ⬝ᵥ x)
      = gaussianReal (t ⬝ᵥ m) (Real.toNNReal (t ⬝ᵥ (B * Bᵀ) *ᵥ t)) := by
  rw [gaussDrawLaw_eq_map_ofLp, Measure.map_map (by fun_prop) (by fun_prop)]
  have h := mvg_map_inner (toLp 2 m) (posSemidef_mul_transpose B) (toLp 2 t)
  rw [← dot_eq_inner] at h
  rw [← h]
  congr 1
  ext x
  simp [dot_eq_inner]

/-- **The mean of the draw is `mean`** (componentwise). -/
theorem gauss_draw_mean (m : ι → ℝ) (B : Matrix ι ι ℝ) (i : ι) :
    ∫ x, x i ∂(gaussDrawLaw m B) = m i := by
  have h := gauss_draw_linear_functional m B (Pi.single i 1)
  have h2 : ∫ y, y ∂((gaussDrawLaw m B).map (fun x => Pi.single i 1 ⬝ᵥ x)) = m i := by
    rw [h, integral_id_gaussianReal]; simp
  rw [integral_map (by fun_prop) (by fun_prop)] at h2
  simpa using h2

/-- **The covariance of the draw is `B Bᵀ`**: `cov(s·x, t·x) = sᵀ (B Bᵀ) t` for all `s`, `t`. -/
theorem gauss_draw_cov (m : ι → ℝ) (B : Matrix ι ι ℝ) (s t : ι → ℝ) :
    cov[fun x => s ⬝ᵥ x, fun x => t ⬝ᵥ x; gaussDrawLaw m B] = s ⬝ᵥ (B * Bᵀ) *ᵥ t := by
  rw [gaussDrawLaw_eq_map_ofLp, covariance_map (by fun_prop) (by fun_prop) (by fun_prop)]
  have hs : (fun x : ι → ℝ => s ⬝ᵥ x) ∘ ofLp = fun u : EuclideanSpace ℝ ι => ⟪toLp 2 s, u⟫ := by
    ext u; simp [dot_eq_inner]
  have ht : (fun x : ι → ℝ => t ⬝ᵥ x) ∘ ofLp = fun u : EuclideanSpace ℝ ι => ⟪toLp 2 t, u⟫ := by
    ext u; simp [dot_eq_inner]
  rw [hs, ht, ← covarianceBilin_apply_eq_cov IsGaussian.memLp_two_id,
    covarianceBilin_multivariateGaussian (posSemidef_mul_transpose B)]

/-- entrywise: `cov(xᵢ, xⱼ) = (B Bᵀ)ᵢⱼ` -/
theorem gauss_draw_cov_entry (m : ι → ℝ) (B : Matrix ι ι ℝ) (i j : ι) :
    cov[fun x => x i, fun x => x j; gaussDrawLaw m B] = (B * Bᵀ) i j := by
  have h := gauss_draw_cov m B (Pi.single i 1) (Pi.single j 1)
  simpa using h

/-- **With the sampler's `B` (`R B = 1`) the covariance of the draw is the inverse of the precision `RᵀR` of
`logpdf`**: `gauss_draw_cov` combined with `gauss_cov_eq_inv_precision`. -/
theorem gauss_draw_cov_eq_inv_precision (m : ι → ℝ) (R B : Matrix ι ι ℝ) (h : R * B = 1) (s t : ι → ℝ) :
    cov[fun x => s ⬝ᵥ x, fun x => t ⬝ᵥ x; gaussDrawLaw m B] = s ⬝ᵥ (Rᵀ * R)⁻¹ *ᵥ t := by
  rw [gauss_draw_cov, Matrix.inv_eq_right_inv (gauss_cov_eq_inv_precision R B h).2]

example := gauss_draw_cov_eq_inv_precision ![1, 2] _ _ rb2_inst ![1, 0] ![0, 1]
example := gauss_draw_linear_functional (ι := Fin 2) ![1, 2] !![1, 0; -1, 1] ![1, 1]
example := gauss_draw_cov_entry (ι := Fin 2) ![1, 2] !![1, 0; -1, 1] 0 1

/-- **Characteristic function of the draw**: `E exp(i t·x) = exp(i t·mean − ½ tᵀ(B Bᵀ)t)`. -/
theorem gauss_draw_charFun (m : ι → ℝ) (B : Matrix ι ι ℝ) (t : ι → ℝ) :
    ∫ x, Complex.exp (((t ⬝ᵥ x : ℝ) : ℂ) * Complex.I) ∂(gaussDrawLaw m B)
      = Complex.exp (((t ⬝ᵥ m : ℝ) : ℂ) * Complex.I - ((t ⬝ᵥ (B * Bᵀ) *ᵥ t : ℝ) : ℂ) / 2) := by
  have h := charFun_multivariateGaussian (μ := toLp 2 m) (posSemidef_mul_transpose B) (toLp 2 t)
  rw [charFun_apply, ← dot_eq_inner] at h
  rw [gaussDrawLaw_eq_map_ofLp, integral_map (by fun_prop) (by fun_prop), ← h]
  refine integral_congr_ae (ae_of_all _ fun x => ?_)
  have : t ⬝ᵥ x.ofLp = ⟪x, toLp 2 t⟫ := by rw [real_inner_comm, dot_eq_inner]
  simp only [this]

/-- **The draw `mean + B ξ` with `R B = 1` has density `exp (Gaussian.logpdf)` w.r.t. Lebesgue measure**, where
`gaussLogpdf logdet mean R x = -½(n log 2π + logdet) − ½‖R(x − mean)‖²` is `Gaussian.logpdf` as coded and
`logdet` is the log-determinant of the covariance, `−log det(RᵀR)` (the value the constructors store; that
they store it is property C04's matter).  Equality of measures: every event has under the sampler exactly the
probability the object's own density gives it.  Every invertible `R`: triangular, full, non-symmetric. -/
theorem gauss_draw_law_density (m : ι → ℝ) (R B : Matrix ι ι ℝ) (h : R * B = 1)
    (logdet : ℝ) (hlog : logdet = -Real.log ((Rᵀ * R).det)) :
    gaussDrawLaw m B
      = (volume : Measure (ι → ℝ)).withDensity
          (fun x => ENNReal.ofReal (Real.exp (gaussLogpdf logdet m R x))) := by
  have hdet : R.det ≠ 0 := by
    have : R.det * B.det = 1 := by rw [← det_mul, h, det_one]
    exact left_ne_zero_of_mul_eq_one this
  have hBR : ∀ ξ : ι → ℝ, R *ᵥ (m + B *ᵥ ξ - m) = ξ := by
    intro ξ; rw [add_sub_cancel_left, mulVec_mulVec, h, one_mulVec]
  have hmeas : Measurable (fun z : ι → ℝ => ENNReal.ofReal (∏ i, gaussianPDFReal 0 1 (z i))) := by
    refine ENNReal.measurable_ofReal.comp (Finset.measurable_prod _ fun i _ => ?_)
    exact (measurable_gaussianPDFReal 0 1).comp (measurable_pi_apply i)
  rw [gaussDrawLaw, stdNormalVec_eq_withDensity,
    map_withDensity_of_map_eq_smul volume volume _ (fun y => R *ᵥ (y - m)) (measurable_affine m B)
      (measurable_affine_inv m R) hBR _ (volume_map_affine m R B h) _ hmeas]
  congr 1
  ext x
  rw [exp_gaussLogpdf logdet m R x hdet hlog, ENNReal.ofReal_mul (abs_nonneg _)]

/-- non-vacuity: the lower-triangular, non-symmetric square root of `gauss_cov_eq_inv_precision`'s example -/
example := gauss_draw_law_density (ι := Fin 2) ![1, 2] !![1, 0; 1, 1] !![1, 0; -1, 1] rb2_inst _ rfl

/-- **The sampler as coded**: whatever `solve` computes, as long as it returns a solution of `R p = ξ` (what
`gaussPerturb_solves` / `fwdXs_solves` prove for `spsolve` / `solve` / `solve_triangular(lower=True)` in the
model), the draw `mean + solve(R, ξ)` with `ξ = rng.randn(n)` is distributed according to `exp (logpdf)` of the
same Gaussian object.  (Solvability for every `ξ` forces `R` invertible.) -/
theorem gauss_sample_law_eq_exp_logpdf (m : ι → ℝ) (R : Matrix ι ι ℝ) (solve : (ι → ℝ) → (ι → ℝ))
    (hsolve : ∀ ξ, R *ᵥ solve ξ = ξ) (logdet : ℝ) (hlog : logdet = -Real.log ((Rᵀ * R).det)) :
    (stdNormalVec ι).map (fun ξ => m + solve ξ)
      = (volume : Measure (ι → ℝ)).withDensity
          (fun x => ENNReal.ofReal (Real.exp (gaussLogpdf logdet m R x))) := by
  have hu : IsUnit R := Matrix.mulVec_surjective_iff_isUnit.mp fun ξ => ⟨solve ξ, hsolve ξ⟩
  have hdet : IsUnit R.det := (Matrix.isUnit_iff_isUnit_det R).mp hu
  have hs : ∀ ξ, solve ξ = R⁻¹ *ᵥ ξ := by
    intro ξ
    have := congrArg (R⁻¹ *ᵥ ·) (hsolve ξ)
    simpa [mulVec_mulVec, Matrix.nonsing_inv_mul R hdet] using this
  rw [← gauss_draw_law_density m R R⁻¹ (Matrix.mul_nonsing_inv R hdet) logdet hlog, gaussDrawLaw]
  simp only [hs]

example := gauss_sample_law_eq_exp_logpdf (ι := Fin 2) ![1, 2] !![1, 0; 1, 1]
  (fun ξ => (!![1, 0; -1, 1] : Matrix (Fin 2) (Fin 2) ℝ) *ᵥ ξ)
  (by intro ξ; rw [mulVec_mulVec, rb2_inst, one_mulVec]) _ rfl

/-- **Probabilities of events**: `P(draw ∈ A) = ∫_A exp (logpdf x) dx` for every measurable `A`. -/
theorem gauss_draw_prob_eq_integral (m : ι → ℝ) (R B : Matrix ι ι ℝ) (h : R * B = 1)
    (logdet : ℝ) (hlog : logdet = -Real.log ((Rᵀ * R).det)) (A : Set (ι → ℝ)) (hA : MeasurableSet A) :
    gaussDrawLaw m B A = ENNReal.ofReal (∫ x in A, Real.exp (gaussLogpdf logdet m R x)) := by
  have hI : Integrable (fun x => Real.exp (gaussLogpdf logdet m R x)) (volume : Measure (ι → ℝ)) := by
    refine integrable_of_withDensity_prob volume _
      (Real.continuous_exp.comp (continuous_gaussLogpdf logdet m R)) (fun x => (Real.exp_pos _).le) ?_
    rw [← gauss_draw_law_density m R B h logdet hlog]
    infer_instance
  rw [gauss_draw_law_density m R B h logdet hlog, withDensity_apply _ hA,
    ofReal_integral_eq_lintegral_ofReal hI.integrableOn (ae_of_all _ fun x => (Real.exp_pos _).le)]

example := gauss_draw_prob_eq_integral ![1, 2] _ _ rb2_inst _ rfl (Set.Iic ![0, 0]) measurableSet_Iic

/-- **`exp (Gaussian.logpdf)` is the textbook multivariate normal density with covariance `Σ = B Bᵀ`**:
`(2π)^(-n/2) det(Σ)^(-1/2) exp(-½ (x−m)ᵀ Σ⁻¹ (x−m))`. -/
theorem gauss_density_cov_form (m : ι → ℝ) (R B : Matrix ι ι ℝ) (h : R * B = 1)
    (logdet : ℝ) (hlog : logdet = -Real.log ((Rᵀ * R).det)) (x : ι → ℝ) :
    Real.exp (gaussLogpdf logdet m R x)
      = (2 * π) ^ (-(Fintype.card ι : ℝ) / 2) * ((B * Bᵀ).det) ^ (-(1 / 2 : ℝ))
          * Real.exp (-(1 / 2) * ((x - m) ⬝ᵥ (B * Bᵀ)⁻¹ *ᵥ (x - m))) := by
  have hdetm : R.det * B.det = 1 := by rw [← det_mul, h, det_one]
  have hR : R.det ≠ 0 := left_ne_zero_of_mul_eq_one hdetm
  have hinv : (B * Bᵀ)⁻¹ = Rᵀ * R := Matrix.inv_eq_left_inv (gauss_cov_eq_inv_precision R B h).2
  have hquad : (x - m) ⬝ᵥ (Rᵀ * R) *ᵥ (x - m) = ∑ i, (R *ᵥ (x - m)) i ^ 2 := by
    rw [← mulVec_mulVec, dotProduct_mulVec, vecMul_transpose, dotProduct]
    exact Finset.sum_congr rfl fun i _ => (sq _).symm
  have hB : B.det = (R.det)⁻¹ := eq_inv_of_mul_eq_one_right hdetm
  have hdetc : ((B * Bᵀ).det) ^ (-(1 / 2 : ℝ)) = |R.det| := by
    rw [det_mul, det_transpose, ← sq, Real.rpow_neg (sq_nonneg _), ← Real.sqrt_eq_rpow,
      Real.sqrt_sq_eq_abs, hB, abs_inv, inv_inv]
  have h1 : (Rᵀ * R).det = |R.det| ^ 2 := by
    rw [det_mul, det_transpose, sq_abs]; ring
  have hpos : 0 < |R.det| := abs_pos.mpr hR
  rw [hinv, hquad, hdetc, Real.rpow_def_of_pos (by positivity), ← Real.exp_log hpos, ← Real.exp_add,
    ← Real.exp_add]
  congr 1
  rw [gaussLogpdf, hlog, h1, Real.log_pow]
  push_cast
  ring

example := gauss_density_cov_form ![1, 2] _ _ rb2_inst _ rfl ![3, 4]

end GaussND

/-- **Lognormal: `np.exp(normal._sample(N, rng))` is distributed according to `Lognormal.pdf`.**  The draw is the
componentwise exponential of the Gaussian draw `mean + B ξ` (`R B = 1`); its law has the density
`lognormalPdf` = `Lognormal.pdf` as coded (`0` if any `xᵢ ≤ 0`, else `normal.pdf(log x)·∏ 1/xᵢ`), any dimension
(n-dimensional change of variables with Jacobian `∏ exp yᵢ`). -/
theorem lognormal_draw_law_density {ι : Type*} [Fintype ι] [DecidableEq ι]
    (m : ι → ℝ) (R B : Matrix ι ι ℝ) (h : R * B = 1)
    (logdet : ℝ) (hlog : logdet = -Real.log ((Rᵀ * R).det)) :
    (gaussDrawLaw m B).map vexp
      = (volume : Measure (ι → ℝ)).withDensity (fun x => ENNReal.ofReal (lognormalPdf logdet m R x)) := by
  rw [gauss_draw_law_density m R B h logdet hlog, map_vexp_withDensity]
  congr 1
  ext x
  unfold lognormalPdf
  by_cases hx : ∀ i, 0 < x i
  · rw [Set.indicator_of_mem (show x ∈ {x : ι → ℝ | ∀ i, 0 < x i} from hx), if_pos hx,
      ENNReal.ofReal_mul (Real.exp_pos _).le]
    simp only [one_div]
  · rw [Set.indicator_of_notMem (show x ∉ {x : ι → ℝ | ∀ i, 0 < x i} from hx), if_neg hx,
      ENNReal.ofReal_zero]

example := lognormal_draw_law_density (ι := Fin 2) ![1, 2] !![2, 0; 1, 1] !![1 / 2, 0; -1 / 2, 1]
  (by ext i j; fin_cases i <;> fin_cases j <;> norm_num [Matrix.mul_apply, Fin.sum_univ_two]) _ rfl

/-- **Rectangular `B` (GMRF Neumann: `ξ` has as many entries as the difference operator has rows)**: every
linear functional of `mean + B ξ` is `N(t·mean, tᵀ(B Bᵀ)t)` — by Cramér–Wold the draw is `N(mean, B Bᵀ)`, and
`gmrf_neumann_cov` identifies `B Bᵀ` for the coded `B = c (P + √eps I)⁻¹ Dᵀ`. -/
theorem gauss_rect_draw_linear_functional {ι κ : Type*} [Fintype ι] [Fintype κ] [DecidableEq κ]
    (m : ι → ℝ) (B : Matrix ι κ ℝ) (t : ι → ℝ) :
    ((stdNormalVec κ).map (fun ξ => m + B *ᵥ ξ)).map (fun x => t ⬝ᵥ x)
      = gaussianReal (t ⬝ᵥ m) (Real.toNNReal (t ⬝ᵥ (B * Bᵀ) *ᵥ t)) := by
  have hstd : gaussDrawLaw (0 : κ → ℝ) (1 : Matrix κ κ ℝ) = stdNormalVec κ := by
    rw [gaussDrawLaw]
    have : (fun ξ : κ → ℝ => (0 : κ → ℝ) + (1 : Matrix κ κ ℝ) *ᵥ ξ) = id := by ext ξ; simp
    rw [this, Measure.map_id]
  have hmeasB : Measurable (fun ξ : κ → ℝ => m + B *ᵥ ξ) :=
    (continuous_const.add (Continuous.matrix_mulVec continuous_const continuous_id)).measurable
  have hlin := gauss_draw_linear_functional (0 : κ → ℝ) (1 : Matrix κ κ ℝ) (t ᵥ* B)
  rw [hstd] at hlin
  have hcomp : (fun x : ι → ℝ => t ⬝ᵥ x) ∘ (fun ξ : κ → ℝ => m + B *ᵥ ξ)
      = (fun y : ℝ => t ⬝ᵥ m + y) ∘ (fun ξ : κ → ℝ => (t ᵥ* B) ⬝ᵥ ξ) := by
    ext ξ; simp [dotProduct_add, dotProduct_mulVec]
  rw [Measure.map_map (by fun_prop) hmeasB, hcomp,
    ← Measure.map_map (measurable_const_add _) (by fun_prop), hlin, gaussianReal_map_const_add]
  congr 1
  · simp
  · congr 1
    have hrhs : t ⬝ᵥ (B * Bᵀ) *ᵥ t = (t ᵥ* B) ⬝ᵥ (t ᵥ* B) := by
      rw [← mulVec_mulVec, dotProduct_mulVec, mulVec_transpose]
    rw [hrhs]
    simp

example := gauss_rect_draw_linear_functional (ι := Fin 2) (κ := Fin 3) ![1, 2] !![1, 0, 2; 0, 1, -1] ![1, 1]

/-- **… hence the law of `mean + B ξ` is the multivariate Gaussian `N(mean, B Bᵀ)` for rectangular `B` too**
(uniqueness of the characteristic function). -/
theorem gauss_rect_draw_law_eq_multivariateGaussian {ι κ : Type*} [Fintype ι] [DecidableEq ι]
    [Fintype κ] [DecidableEq κ] (m : ι → ℝ) (B : Matrix ι κ ℝ) :
    ((stdNormalVec κ).map (fun ξ => m + B *ᵥ ξ)).map (toLp 2)
      = multivariateGaussian (toLp 2 m) (B * Bᵀ) := by
  have hmeasB : Measurable (fun ξ : κ → ℝ => m + B *ᵥ ξ) :=
    (continuous_const.add (Continuous.matrix_mulVec continuous_const continuous_id)).measurable
  have hpsd : (B * Bᵀ).PosSemidef := by
    simpa using Matrix.posSemidef_self_mul_conjTranspose B
  have hp1 : IsProbabilityMeasure ((stdNormalVec κ).map (fun ξ => m + B *ᵥ ξ)) :=
    Measure.isProbabilityMeasure_map hmeasB.aemeasurable
  have hp2 : IsProbabilityMeasure (((stdNormalVec κ).map (fun ξ => m + B *ᵥ ξ)).map (toLp 2)) :=
    Measure.isProbabilityMeasure_map (by fun_prop)
  apply Measure.ext_of_charFun
  ext u
  obtain ⟨t, rfl⟩ : ∃ t : ι → ℝ, toLp 2 t = u := ⟨u.ofLp, rfl⟩
  rw [charFun_eq_charFunDual_toDualMap, charFun_eq_charFunDual_toDualMap,
    charFunDual_eq_charFun_map_one, charFunDual_eq_charFun_map_one]
  congr 1
  have h1 := gauss_rect_draw_linear_functional m B t
  have h2 := mvg_map_inner (toLp 2 m) hpsd (toLp 2 t)
  rw [← dot_eq_inner] at h2
  rw [Measure.map_map (by fun_prop) (by fun_prop)]
  have : (⇑(InnerProductSpace.toDualMap ℝ (EuclideanSpace ℝ ι) (toLp 2 t)) ∘ toLp 2)
      = fun x : ι → ℝ => t ⬝ᵥ x := by
    ext x; simp [dot_eq_inner]
  rw [this, h1]
  exact h2.symm

/-- **GMRF, Neumann boundary condition**: the draw `mean + c·(P + √eps I)⁻¹ Dᵀ ξ` (`Mi` the inverse computed by
the two sparse solves, `neumann_two_solves`; `ξ` has one entry per row of `D`) is Gaussian with mean `mean` and
covariance `c²·Mi (DᵀD) Miᵀ` — the matrix whose distance to the pseudo-inverse of `prec·P` `gmrf_neumann_cov`
and `neumann_eig_bound` quantify. -/
theorem gmrf_neumann_draw_law {ι κ : Type*} [Fintype ι] [DecidableEq ι] [Fintype κ] [DecidableEq κ]
    (m : ι → ℝ) (D : Matrix κ ι ℝ) (Mi : Matrix ι ι ℝ) (c : ℝ) :
    ((stdNormalVec κ).map (fun ξ => m + (c • (Mi * Dᵀ)) *ᵥ ξ)).map (toLp 2)
      = multivariateGaussian (toLp 2 m) ((c * c) • (Mi * (Dᵀ * D) * Miᵀ)) := by
  rw [gauss_rect_draw_law_eq_multivariateGaussian]
  congr 1
  rw [transpose_smul, Matrix.smul_mul, Matrix.mul_smul, smul_smul, transpose_mul, transpose_transpose]
  simp only [Matrix.mul_assoc]

example := gmrf_neumann_draw_law (ι := Fin 2) (κ := Fin 1) ![1, 2] !![-1, 1] !![1, 2; 2, 5] (1 / 2)

section GMRF
variable {ι : Type*} [Fintype ι] [DecidableEq ι]

/-- **GMRF, zero boundary condition**: the draw `mean + c·spsolve(U, ξ)` (`U B = 1`, `c = 1/√prec`, i.e.
`c²·prec = 1`; `U = chol.T` with `UᵀU = P` certified by the tie) has density `exp (GMRF.logpdf)`, where
`gmrfLogpdf logdetP prec mean P x = ½(n(log prec − log 2π) + logdetP) − ½ prec (x−mean)ᵀP(x−mean)` is
`GMRF.logpdf` as coded and `logdetP = log det P`. -/
theorem gmrf_zero_draw_law_density (m : ι → ℝ) (U B : Matrix ι ι ℝ) (c δ : ℝ) (hUB : U * B = 1)
    (hc : 0 < c) (hcδ : c * c * δ = 1) (logdetP : ℝ) (hlog : logdetP = Real.log ((Uᵀ * U).det)) :
    gaussDrawLaw m (c • B)
      = (volume : Measure (ι → ℝ)).withDensity
          (fun x => ENNReal.ofReal (Real.exp (gmrfLogpdf logdetP δ m (Uᵀ * U) x))) := by
  have hδ : δ = (c⁻¹) ^ 2 := by field_simp; nlinarith
  have hδpos : 0 < δ := by rw [hδ]; positivity
  have hR : (c⁻¹ • U) * (c • B) = 1 := by
    rw [Matrix.smul_mul, Matrix.mul_smul, hUB, smul_smul, inv_mul_cancel₀ hc.ne', one_smul]
  have hdetU : U.det ≠ 0 := by
    have : U.det * B.det = 1 := by rw [← det_mul, hUB, det_one]
    exact left_ne_zero_of_mul_eq_one this
  have hdetP : (Uᵀ * U).det = U.det ^ 2 := by rw [det_mul, det_transpose, sq]
  have hRR : ((c⁻¹ • U)ᵀ * (c⁻¹ • U)) = δ • (Uᵀ * U) := by
    rw [transpose_smul, Matrix.smul_mul, Matrix.mul_smul, smul_smul, hδ, sq]
  rw [gauss_draw_law_density m (c⁻¹ • U) (c • B) hR _ rfl]
  congr 1
  ext x
  congr 2
  have hquad : ∑ i, ((c⁻¹ • U) *ᵥ (x - m)) i ^ 2 = δ * ((x - m) ⬝ᵥ (Uᵀ * U) *ᵥ (x - m)) := by
    rw [← mulVec_mulVec, dotProduct_mulVec, vecMul_transpose, dotProduct, hδ, Finset.mul_sum]
    refine Finset.sum_congr rfl fun i _ => ?_
    rw [smul_mulVec, Pi.smul_apply, smul_eq_mul]; ring
  rw [gaussLogpdf, gmrfLogpdf, hquad, hRR, det_smul, hlog, hdetP,
    Real.log_mul (pow_pos hδpos _).ne' (pow_ne_zero _ hdetU), Real.log_pow]
  ring

/-- non-vacuity: `prec = 4`, `c = 1/2`, upper-triangular `U` -/
example := gmrf_zero_draw_law_density (ι := Fin 2) ![0, 0] !![1, -1; 0, 1] !![1, 1; 0, 1] (1 / 2) 4
  (by ext i j; fin_cases i <;> fin_cases j <;> simp [Matrix.mul_apply, Fin.sum_univ_two])
  (by norm_num) (by norm_num) _ rfl

end GMRF

/-! ## Part 4 — scale–location push-forwards behind the univariate plumbing -/

/-- **Cauchy: `location + scale · C`, `C` standard Cauchy, is Cauchy(`location`, `scale`)**
(`sps.cauchy.rvs(loc, scale)` draws `loc + scale * standard_cauchy()`). -/
theorem cauchy_draw_law (l s : ℝ) (hs : 0 < s) :
    (cauchyMeasure 0 1).map (fun z => l + s * z) = cauchyMeasure l (Real.toNNReal s) := by
  have hv : Real.toNNReal s ≠ 0 := by rw [Ne, Real.toNNReal_eq_zero, not_le]; exact hs
  rw [cauchyMeasure_of_scale_ne_zero 0 one_ne_zero, cauchyMeasure_of_scale_ne_zero l hv,
    map_scale_loc_withDensity l s hs.ne' _ (measurable_cauchyPDF 0 1)]
  congr 1
  ext x
  rw [cauchyPDF_def, cauchyPDF_def, ← ENNReal.ofReal_mul (by positivity)]
  congr 1
  simp only [cauchyPDFReal, NNReal.coe_one, Real.coe_toNNReal _ hs.le, abs_of_pos hs]
  have h1 : (x - l) ^ 2 + s ^ 2 ≠ 0 := by positivity
  field_simp
  ring

/-- **… with density `exp (Cauchy.logpdf)`** (`cauchyLogpdf` of the model). -/
theorem cauchy_draw_law_density (l s : ℝ) (hs : 0 < s) :
    (cauchyMeasure 0 1).map (fun z => l + s * z)
      = (volume : Measure ℝ).withDensity (fun x => ENNReal.ofReal
          (Real.exp (eval (env4 x l s 0) (cauchyLogpdf (var 0) (var 1) (var 2))))) := by
  have hv : Real.toNNReal s ≠ 0 := by rw [Ne, Real.toNNReal_eq_zero, not_le]; exact hs
  rw [cauchy_draw_law l s hs, cauchyMeasure_of_scale_ne_zero l hv]
  congr 1
  ext x
  rw [cauchyPDF_def, cauchy_plumbing_eq_density x l s hs]

example := cauchy_draw_law 1 2 (by norm_num)
example := cauchy_draw_law_density 1 2 (by norm_num)

/-- **Laplace: `location + scale · Z`, `Z` standard Laplace (density `exp(-|z|)/2`), has density
`exp (Laplace.logpdf)`** (`laplaceLogpdf` of the model; `rng.laplace(loc, scale)`). -/
theorem laplace_draw_law_density (l b : ℝ) (hb : 0 < b) :
    laplaceStd.map (fun z => l + b * z)
      = (volume : Measure ℝ).withDensity (fun x => ENNReal.ofReal
          (Real.exp (eval (env4 x l b 0) (laplaceLogpdf (var 0) (var 1) (var 2))))) := by
  have hmeas : Measurable (fun z : ℝ => ENNReal.ofReal (1 / 2 * Real.exp (-|z|))) := by fun_prop
  rw [laplaceStd, map_scale_loc_withDensity l b hb.ne' _ hmeas]
  congr 1
  ext x
  rw [laplace_plumbing_eq_density x l b hb, ← ENNReal.ofReal_mul (by positivity)]
  congr 1
  rw [abs_div, abs_of_pos hb, neg_div]
  field_simp

example := laplace_draw_law_density 1 2 (by norm_num)


/-- **numpy's Laplace generator is inverse-cdf sampling, and it is correct**: `laplaceQuantile U` with
`U` uniform on `[0,1)` — `U >= 0.5 ? -log(2 - U - U) : log(U + U)`, the body of numpy's `random_laplace` for
`loc = 0`, `scale = 1` — has the standard Laplace law (density `exp(-|z|)/2`). -/
theorem laplace_inverse_cdf_law :
    ((volume : Measure ℝ).restrict (Set.Ico 0 1)).map laplaceQuantile = laplaceStd :=
  inverse_cdf_law laplaceCdf (fun x => 1 / 2 * Real.exp (-|x|)) laplaceQuantile laplaceCdf_hasDerivAt
    (fun x => by positivity) measurable_laplaceQuantile laplaceQuantile_cdf laplaceCdf_mem
    laplaceCdf_quantile

/-- the standard Laplace density integrates to one -/
theorem laplaceStd_isProbabilityMeasure : IsProbabilityMeasure laplaceStd := by
  rw [← laplace_inverse_cdf_law]
  have : IsProbabilityMeasure ((volume : Measure ℝ).restrict (Set.Ico 0 1)) :=
    ⟨by simp⟩
  exact Measure.isProbabilityMeasure_map measurable_laplaceQuantile.aemeasurable

/-- **`rng.laplace(location, scale)` from the uniform variate to the reported density**: numpy computes
`loc - scale*log(2 - U - U)` for `U >= 0.5` and `loc + scale*log(U + U)` otherwise, i.e.
`loc + scale·laplaceQuantile U`; its law has density `exp (Laplace.logpdf)`. -/
theorem laplace_sample_law_density (l b : ℝ) (hb : 0 < b) :
    ((volume : Measure ℝ).restrict (Set.Ico 0 1)).map (fun u => l + b * laplaceQuantile u)
      = (volume : Measure ℝ).withDensity (fun x => ENNReal.ofReal
          (Real.exp (eval (env4 x l b 0) (laplaceLogpdf (var 0) (var 1) (var 2))))) := by
  rw [← laplace_draw_law_density l b hb, ← laplace_inverse_cdf_law,
    Measure.map_map (by fun_prop) measurable_laplaceQuantile]
  rfl

example := laplace_sample_law_density 1 2 (by norm_num)

/-- **Uniform: `low + (high − low)·U`, `U` uniform on `[0,1)` (`rng.uniform(low, high)`), has density
`exp (Uniform.logpdf)` on `[low, high)` and `0` outside.** -/
theorem uniform_draw_law_density (lo hi : ℝ) (h : lo < hi) :
    ((volume : Measure ℝ).restrict (Set.Ico 0 1)).map (fun u => lo + (hi - lo) * u)
      = (volume : Measure ℝ).withDensity (fun x => (Set.Ico lo hi).indicator (fun _ => ENNReal.ofReal
          (Real.exp (eval (env4 0 lo hi 0) (uniformLogpdf (var 1) (var 2))))) x) := by
  have hpos : 0 < hi - lo := sub_pos.mpr h
  rw [← withDensity_indicator_one measurableSet_Ico,
    map_scale_loc_withDensity lo (hi - lo) hpos.ne' _ (measurable_one.indicator measurableSet_Ico)]
  congr 1
  ext x
  rw [uniform_plumbing_eq_density lo hi h, abs_of_pos hpos]
  have hiff : (x - lo) / (hi - lo) ∈ Set.Ico (0:ℝ) 1 ↔ x ∈ Set.Ico lo hi := by
    simp only [Set.mem_Ico]
    rw [div_lt_one hpos, le_div_iff₀ hpos]
    constructor <;> rintro ⟨h1, h2⟩ <;> constructor <;> linarith
  by_cases hx : x ∈ Set.Ico lo hi
  · rw [Set.indicator_of_mem hx, Set.indicator_of_mem (hiff.mpr hx)]
    simp
  · rw [Set.indicator_of_notMem hx, Set.indicator_of_notMem (fun hc => hx (hiff.mp hc))]
    simp

example := uniform_draw_law_density 1 3 (by norm_num)

/-- **Gamma: `scale · G` with `G ~ Gamma(shape, rate 1)` and `scale = 1/rate` (what
`rng.gamma(shape, scale=1/rate)` draws) is `Gamma(shape, rate)`** (Mathlib's `gammaMeasure shape rate`, whose
density `gamma_plumbing_eq_density` identifies with numpy's documented one). -/
theorem gamma_draw_law (k r : ℝ) (hr : 0 < r) :
    (gammaMeasure k 1).map (fun z => (1 / r) * z) = gammaMeasure k r := by
  have hmeas : Measurable (gammaPDF k 1) := (measurable_gammaPDFReal k 1).ennreal_ofReal
  have h0 : (fun z : ℝ => (1 / r) * z) = (fun z => 0 + (1 / r) * z) := by ext; ring
  rw [gammaMeasure, gammaMeasure, h0,
    map_scale_loc_withDensity 0 (1 / r) (one_div_ne_zero hr.ne') _ hmeas]
  congr 1
  ext x
  rw [gammaPDF, gammaPDF, ← ENNReal.ofReal_mul (by positivity)]
  congr 1
  have hrx : (x - 0) / (1 / r) = r * x := by rw [sub_zero]; field_simp
  rw [hrx, abs_of_pos (one_div_pos.mpr hr), one_div, inv_inv]
  unfold gammaPDFReal
  by_cases hx : 0 ≤ x
  · rw [if_pos hx, if_pos (mul_nonneg hr.le hx), Real.mul_rpow hr.le hx, Real.rpow_sub_one hr.ne',
      Real.one_rpow]
    field_simp
  · rw [if_neg hx, if_neg (fun hc => hx (nonneg_of_mul_nonneg_right hc hr))]
    simp

example := gamma_draw_law 2 4 (by norm_num)

end CuqiVerif.C05
