import CuqiVerif.Model.C16_glue
import CuqiVerif.Props.C16
import Mathlib.Data.Rat.Floor
import Mathlib.Tactic.Linarith
import Mathlib.Tactic.NormNum

/-!
# C16 — glue theorems (session-3 extension)

About the definitions of `Model/C16_glue.lean` that the driver executes (ops `pyint`, `cglspy`, `fistapy`,
`lmpy`, `pcsolve`, `lmexp`, `dtype`, `lbinfo`, `lbcall`, `lscall`, `lsinfo`, `rewrap`): what the constructors make
of `maxit`, which branch `PCGLS` takes and when it raises, what the wrappers `L_BFGS_B` and `LS` hand to SciPy and
copy back, the re-wrapping as `CUQIarray`, the dtype of the CG iterate, the non-callable branch of `LM`.
`K` is any linearly ordered field (the driver: ℚ); `maxit` is a Python number (`PyNum`, exact rational value).
-/

set_option linter.unusedSectionVars false
set_option linter.unusedVariables false

namespace CuqiVerif.C16

/-! ## 1. `int(maxit)` -/

/-- **Python `int()` truncates toward zero:** for `q ≥ 0` it is the floor (`int(q) ≤ q < int(q)+1`, `int(q) ≥ 0`),
    for `q < 0` the ceiling (`int(q)−1 < q ≤ int(q)`, `int(q) ≤ 0`); integers are fixed. -/
theorem pyTrunc_spec (q : ℚ) :
    (0 ≤ q → 0 ≤ pyTrunc q ∧ (pyTrunc q : ℚ) ≤ q ∧ q < pyTrunc q + 1) ∧
    (q < 0 → pyTrunc q ≤ 0 ∧ q ≤ (pyTrunc q : ℚ) ∧ (pyTrunc q : ℚ) - 1 < q) ∧
    (∀ z : ℤ, pyTrunc (z : ℚ) = z) := by
  have hfl : ∀ r : ℚ, Rat.floor r = ⌊r⌋ := fun _ => rfl
  refine ⟨fun h => ?_, fun h => ?_, fun z => ?_⟩
  · have : ¬ q < 0 := not_lt.2 h
    simp only [pyTrunc, this, if_false, hfl]
    exact ⟨Int.floor_nonneg.2 h, Int.floor_le q, Int.lt_floor_add_one q⟩
  · simp only [pyTrunc, h, if_true, hfl]
    have h1 := Int.floor_le (-q)
    have h2 := Int.lt_floor_add_one (-q)
    have h3 : 0 ≤ ⌊-q⌋ := Int.floor_nonneg.2 (by linarith)
    refine ⟨by omega, ?_, ?_⟩ <;> push_cast <;> linarith
  · by_cases hz : (z : ℚ) < 0
    · simp only [pyTrunc, hz, if_true, hfl]
      rw [← Int.cast_neg, Int.floor_intCast]; simp
    · simp only [pyTrunc, hz, if_false, hfl, Int.floor_intCast]

example : pyTrunc (27 / 10) = 2 ∧ pyTrunc (-27 / 10) = -2 ∧ pyTrunc (9 / 10) = 0 := by decide +kernel

/-- `int(maxit)` raises exactly for the non-finite floats (`nan`: `ValueError`, `±inf`: `OverflowError`). -/
theorem pyInt_error_iff (p : PyNum) :
    (∃ e, pyInt p = .error e) ↔ (p = .nan ∨ p = .posInf ∨ p = .negInf) := by
  cases p <;> simp [pyInt]

lemma budget_pyTrunc_le (q : ℚ) (n : ℕ) (h : q < n + 1) : budget (pyTrunc q) ≤ n := by
  obtain ⟨h1, h2, _⟩ := pyTrunc_spec q
  unfold budget
  by_cases hq : 0 ≤ q
  · obtain ⟨a, b, c⟩ := h1 hq
    have : (pyTrunc q : ℚ) < n + 1 := lt_of_le_of_lt b h
    have : pyTrunc q < n + 1 := by exact_mod_cast this
    omega
  · obtain ⟨a, _, _⟩ := h2 (not_le.1 hq)
    omega

variable {K : Type} [Field K] [LinearOrder K] [IsStrictOrderedRing K]

section CG
variable {V W : Type} (oV : VOps K V) (oW : VOps K W) (fwd : V → W) (adj : W → V) (b : W) (shift tol eps : K)

lemma cgls_k_le (x0 : V) (n : ℕ) : (cgls oV oW fwd adj b shift tol eps x0 n).k ≤ n := by
  have := (cglsLoop_count (oV := oV) (oW := oW) fwd adj shift tol eps
    (cglsInit oV oW fwd adj b shift x0).gamma n (cglsInit oV oW fwd adj b shift x0)).1
  simpa [cgls, cglsInit] using this

/-- **CGLS and the `maxit` it is given:** the constructor raises iff `maxit` is not finite; otherwise `solve()`
    returns `(x, k)` of the model recurrence run with the budget `max(int(maxit), 0)`: `k ≤ int(maxit)` when that
    is non-negative, and any `maxit < 1` (negative numbers, `0.9`, `False`) returns the start vector with `k = 0`. -/
theorem cgls_ctor_maxit (x0 : V) (q : ℚ) :
    ∃ x k, cglsSolve oV oW fwd adj b shift tol eps x0 (.fin q) = .ok (x, k) ∧
      k ≤ budget (pyTrunc q) ∧ (∀ n : ℕ, q < n + 1 → k ≤ n) ∧ (q < 1 → x = x0 ∧ k = 0) := by
  refine ⟨_, _, rfl, ?_, ?_, ?_⟩
  · exact cgls_k_le oV oW fwd adj b shift tol eps x0 _
  · intro n hn
    exact le_trans (cgls_k_le oV oW fwd adj b shift tol eps x0 _) (budget_pyTrunc_le q n hn)
  · intro h1
    have hb : budget (pyTrunc q) = 0 := Nat.le_zero.1 (budget_pyTrunc_le q 0 (by simpa using h1))
    simp only [hb]
    exact ⟨rfl, rfl⟩

example : cglsSolve (VOps.ofModule ℚ ℚ (· * ·)) (VOps.ofModule ℚ ℚ (· * ·)) (fun x => 2 * x) (fun x => 2 * x)
    (6 : ℚ) 0 (1/1000) (1/2^52) 5 (.fin (9/10)) = .ok (5, 0) := by decide +kernel

/-- a non-finite `maxit` never reaches `solve()`: all four constructors raise -/
theorem solvers_reject_nonfinite_maxit (x0 : V) (prox : V → K → V) (t abstol : K) (ad : Bool) (p : PyNum)
    (hp : p = .nan ∨ p = .posInf ∨ p = .negInf) :
    (∃ e, cglsSolve oV oW fwd adj b shift tol eps x0 p = .error e) ∧
    (∃ e, fistaSolve oV oW fwd adj b prox t abstol ad x0 p = .error e) ∧
    (∀ dim mdi hc pinv pinvT, ∃ e, pcglsSolve oV oW fwd adj b dim mdi hc pinv pinvT shift tol eps x0 p = .error (.ctor e)) := by
  rcases hp with rfl | rfl | rfl <;>
    exact ⟨⟨_, rfl⟩, ⟨_, rfl⟩, fun _ _ _ _ _ => ⟨_, rfl⟩⟩

/-- **FISTA always makes one pass:** for every `maxit < 2` (including `0`, negative numbers, `1.9`) `solve()` returns
    the proximal-gradient step of the start vector with `k = 1` — the `while True` body runs before `k >= maxit` is looked at. -/
theorem fista_ctor_maxit_lt_two (prox : V → K → V) (t abstol : K) (ad : Bool) (x0 : V) (q : ℚ) (hq : q < 2) :
    fistaSolve oV oW fwd adj b prox t abstol ad x0 (.fin q) = .ok (proxGradStep oV oW fwd adj b prox t x0, 1) := by
  have hb : budget (pyTrunc q) ≤ 1 := budget_pyTrunc_le q 1 (by norm_num; linarith)
  simp only [fistaSolve, pyInt, Except.map, fista]
  have : budget (pyTrunc q) - 1 = 0 := by omega
  rw [this]
  rfl

example : fistaSolve (VOps.ofModule ℚ ℚ (· * ·)) (VOps.ofModule ℚ ℚ (· * ·)) (fun x => 2 * x) (fun x => 2 * x) (6 : ℚ)
    (fun v _ => projNonneg1 v) (1/4) (1/1000) true 0 (.fin (-3)) = .ok (3, 1) := by decide +kernel

/-! ## 2. PCGLS dispatch -/

/-- `PCGLS` inverts `P` explicitly iff `len(x0) < config.MAX_DIM_INV`; otherwise CHOLMOD if importable, else `spsolve`. -/
theorem pcgls_dispatch (dim mdi : ℤ) (hc : Bool) :
    (pinvBranch dim mdi hc = .explicitInv ↔ dim < mdi) ∧
    (pinvBranch dim mdi hc = .cholmod ↔ mdi ≤ dim ∧ hc = true) ∧
    (pinvBranch dim mdi hc = .spsolve ↔ mdi ≤ dim ∧ hc = false) := by
  unfold pinvBranch
  by_cases h : dim < mdi <;> cases hc <;> simp [h] <;> omega

/-- **Witness of the known finding `PCGLS:*:cholmod:raises`:** with CHOLMOD importable and `len(x0) ≥ MAX_DIM_INV`
    `solve()` raises for every problem, every finite `maxit` (the factor never reaches `self._P`). -/
theorem pcgls_cholmod_branch_raises (dim mdi : ℤ) (h : mdi ≤ dim) (pinv pinvT : V → V) (x0 : V) (q : ℚ) :
    pcglsSolve oV oW fwd adj b dim mdi true pinv pinvT shift tol eps x0 (.fin q) = .error .cholmodAttr := by
  have hb : pinvBranch dim mdi true = .cholmod := ((pcgls_dispatch dim mdi true).2.1).2 ⟨h, rfl⟩
  simp [pcglsSolve, pyInt, hb]

/-- **Witness of the known finding `PCGLS:*:dim1:raises`:** a one-dimensional unknown on the explicit-inverse branch
    (`1 < MAX_DIM_INV`, the default is 2000) raises as soon as one loop pass is allowed (`maxit ≥ 1`). -/
theorem pcgls_dim1_raises (mdi : ℤ) (h : 1 < mdi) (hc : Bool) (pinv pinvT : V → V) (x0 : V) (q : ℚ) (hq : 1 ≤ q) :
    pcglsSolve oV oW fwd adj b 1 mdi hc pinv pinvT shift tol eps x0 (.fin q) = .error .inv1x1 := by
  have hb : pinvBranch 1 mdi hc = .explicitInv := ((pcgls_dispatch 1 mdi hc).1).2 h
  have h1 : 1 ≤ pyTrunc q := by
    obtain ⟨_, _, c⟩ := (pyTrunc_spec q).1 (by linarith)
    have h0 : (0 : ℚ) < (pyTrunc q : ℚ) := by linarith
    have : 0 < pyTrunc q := by exact_mod_cast h0
    omega
  simp [pcglsSolve, pyInt, hb, h1]

/-- **Whenever `PCGLS.solve()` returns, it returns the model recurrence:** the result is `(x, k)` of `pcgls` with the
    budget `max(int(maxit), 0)` whichever branch applied `P⁻¹` — so every PCGLS theorem (`pcgls_residual_inv`,
    `pcgls_finite_termination`, `pcgls_run_to_convergence_exact`, …) speaks about it, and the result does not depend
    on `MAX_DIM_INV` / `has_cholmod`.  It returns iff the branch is `spsolve`, or explicit with `dim ≠ 1` or `int(maxit) < 1`. -/
theorem pcgls_solve_returns (dim mdi : ℤ) (hc : Bool) (pinv pinvT : V → V) (x0 : V) (q : ℚ) :
    let st := pcgls oV oW fwd adj b tol eps pinv pinvT shift x0 (budget (pyTrunc q))
    (∀ r, pcglsSolve oV oW fwd adj b dim mdi hc pinv pinvT shift tol eps x0 (.fin q) = .ok r → r = (st.x, st.k)) ∧
    ((∃ r, pcglsSolve oV oW fwd adj b dim mdi hc pinv pinvT shift tol eps x0 (.fin q) = .ok r) ↔
      (pinvBranch dim mdi hc = .spsolve ∨ (pinvBranch dim mdi hc = .explicitInv ∧ ¬ (dim = 1 ∧ 1 ≤ pyTrunc q)))) := by
  intro st
  unfold pcglsSolve
  simp only [pyInt]
  cases hb : pinvBranch dim mdi hc
  · by_cases hd : dim = 1 ∧ 1 ≤ pyTrunc q
    · simp [hd]
    · simp only [hd, if_false]
      refine ⟨fun r hr => ?_, ?_⟩
      · cases hr; rfl
      · simp
  · simp
  · refine ⟨fun r hr => ?_, ?_⟩
    · cases hr; rfl
    · simp

example : pcglsSolve (VOps.ofModule ℚ ℚ (· * ·)) (VOps.ofModule ℚ ℚ (· * ·)) (fun x => 3 * x) (fun x => 3 * x) (6 : ℚ)
    1 2000 false (fun v => v / 2) (fun v => v / 2) 0 (1/1000) (1/2^52) 0 (.fin 5) = .error .inv1x1 := by decide +kernel
example : (pcglsSolve (VOps.ofModule ℚ ℚ (· * ·)) (VOps.ofModule ℚ ℚ (· * ·)) (fun x => 3 * x) (fun x => 3 * x) (6 : ℚ)
    1 1 false (fun v => v / 2) (fun v => v / 2) 0 (1/1000) (1/2^52) 0 (.fin 5)) = .ok (2, 1) := by decide +kernel

end CG

/-! ## 3. LM -/
section LMsec
variable {V W M : Type} (oV : VOps K V) (oW : VOps K W)

/-- **LM and `maxit < 1`:** no pass is made; `solve()` returns the start vector with `info = {func: A(x0), Jac: jacfun(x0), nfev: 0}`. -/
theorem lm_ctor_maxit_lt_one (res : V → W) (jac : V → M) (jtv : M → W → V) (insolve : M → K → V → V) (nu0 gradtol : K)
    (x0 : V) (nuInit : K) (q : ℚ) (hq : q < 1) :
    lmSolve oV oW res jac jtv insolve nu0 gradtol x0 nuInit (.fin q) = .ok (x0, res x0, jac x0, 0) := by
  have hb : budget (pyTrunc q) = 0 := Nat.le_zero.1 (budget_pyTrunc_le q 0 (by simpa using hq))
  simp only [lmSolve, pyInt, Except.map, hb]
  rfl

/-- **The non-callable branch of `LM`** (`A`, `jacfun` matrices; `J = jacfun @ x` is then a vector and `g = J·r` a
    scalar): `solve()` returns — the start vector, unchanged, with `nfev = 0` — exactly when the loop is not entered,
    i.e. `g = 0` or `gradtol ≥ 1` or `int(maxit) < 1`; in every other case the first pass raises.  The branch can never
    perform an iteration. -/
theorem lm_explicit_branch (A Jf : V → W) (gradtol : K) (x0 : V) (q : ℚ) :
    let g := oW.dot (Jf x0) (A x0)
    ((g = 0 ∨ 1 ≤ gradtol ∨ pyTrunc q < 1) →
        lmSolveExplicit oW A Jf gradtol x0 (.fin q) = .ok (x0, A x0, Jf x0, 0)) ∧
    (¬ (g = 0 ∨ 1 ≤ gradtol ∨ pyTrunc q < 1) →
        lmSolveExplicit oW A Jf gradtol x0 (.fin q) = .error .explicitBranch) := by
  intro g
  have key : (lmCont (g * g) (g * g) gradtol && decide (0 < pyTrunc q)) = true ↔
      ¬ (g = 0 ∨ 1 ≤ gradtol ∨ pyTrunc q < 1) := by
    simp only [Bool.and_eq_true, decide_eq_true_eq, not_or, not_le, not_lt]
    unfold lmCont
    by_cases hg : g = 0
    · simp [hg]
    · have hgg : g * g ≠ 0 := mul_ne_zero hg hg
      have hpos : 0 < g * g := lt_of_le_of_ne (mul_self_nonneg g) (Ne.symm hgg)
      simp only [hgg, if_false, hg, not_false_eq_true, true_and]
      by_cases hn : gradtol < 0
      · simp only [hn, if_true, true_and]
        constructor
        · intro h; exact ⟨by linarith, by omega⟩
        · intro h; omega
      · simp only [hn, if_false, decide_eq_true_eq]
        have hn' : 0 ≤ gradtol := not_lt.1 hn
        constructor
        · rintro ⟨h1, h2⟩
          refine ⟨?_, by omega⟩
          by_contra hc
          have hc' : 1 ≤ gradtol := not_lt.1 hc
          have : g * g ≤ gradtol * gradtol * (g * g) := by
            have : 1 ≤ gradtol * gradtol := by nlinarith
            nlinarith
          linarith
        · rintro ⟨h1, h2⟩
          refine ⟨?_, by omega⟩
          have : gradtol * gradtol < 1 := by nlinarith
          nlinarith
  constructor
  · intro h
    have hf : (lmCont (g * g) (g * g) gradtol && decide (0 < pyTrunc q)) = false := by
      rcases hb : (lmCont (g * g) (g * g) gradtol && decide (0 < pyTrunc q)) with _ | _
      · rfl
      · exact absurd h (key.1 hb)
    simp only [lmSolveExplicit, pyInt]
    rw [show oW.dot (Jf x0) (A x0) = g from rfl, hf]
    rfl
  · intro h
    have ht := key.2 h
    simp only [lmSolveExplicit, pyInt]
    rw [show oW.dot (Jf x0) (A x0) = g from rfl, ht]
    rfl

example : lmSolveExplicit (VOps.ofModule ℚ ℚ (· * ·)) (fun x : ℚ => 2 * x) (fun x => 2 * x) (1/100 : ℚ) 1 (.fin 5)
    = .error .explicitBranch := by decide +kernel
example : lmSolveExplicit (VOps.ofModule ℚ ℚ (· * ·)) (fun x : ℚ => 2 * x) (fun x => 2 * x) (1/100 : ℚ) 0 (.fin 5)
    = .ok (0, 0, 0, 0) := by decide +kernel

end LMsec

/-! ## 4. dtype of the CG iterate -/

/-- **The iterate of CGLS/PCGLS is never narrower than double:** `np.result_type(dt, float64)` is `float64`,
    `longdouble` or `complex128` for every start-vector dtype, is idempotent, and maps the dtypes of the repaired
    defect (`bool`, integers, `float16`, `float32`) to `float64`. -/
theorem cg_iterate_at_least_double (d : DType) :
    (promoteF64 d).atLeastDouble = true ∧ promoteF64 (promoteF64 d) = promoteF64 d ∧
    (d ∈ [DType.bool, .int8, .uint8, .int16, .uint16, .int32, .uint32, .int64, .uint64, .float16, .float32, .float64] →
      promoteF64 d = .float64) := by
  cases d <;> decide

example : promoteF64 .float32 = .float64 ∧ promoteF64 .complex64 = .complex128 := by decide

/-! ## 5. `L_BFGS_B` -/
section LB
variable {X F G : Type}

/-- **`L_BFGS_B` returns `fmin_l_bfgs_b`'s result unchanged:** `x`, `f`, `d['grad']`, `d['nit']`, `d['funcalls']` are
    copied as they are; `success = 1` iff `warnflag = 0`; the message is SciPy's `task` for every warnflag other than 0 and 1. -/
theorem lbfgsb_passthrough (r : FminRes X F G) :
    (wrapLbfgsb r).1 = r.x ∧ (wrapLbfgsb r).2.func = r.f ∧ (wrapLbfgsb r).2.grad = r.grad ∧
    (wrapLbfgsb r).2.nit = r.nit ∧ (wrapLbfgsb r).2.nfev = r.funcalls ∧
    ((wrapLbfgsb r).2.success = 1 ↔ r.warnflag = 0) ∧ ((wrapLbfgsb r).2.success = 0 ↔ r.warnflag ≠ 0) ∧
    (r.warnflag ≠ 0 → r.warnflag ≠ 1 → (wrapLbfgsb r).2.message = r.task) := by
  refine ⟨rfl, rfl, rfl, rfl, rfl, ?_, ?_, ?_⟩
  · unfold wrapLbfgsb lbfgsbStatus
    by_cases h0 : r.warnflag = 0
    · simp [h0]
    · by_cases h1 : r.warnflag = 1 <;> simp [h0, h1]
  · unfold wrapLbfgsb lbfgsbStatus
    by_cases h0 : r.warnflag = 0
    · simp [h0]
    · by_cases h1 : r.warnflag = 1 <;> simp [h0, h1]
  · intro h0 h1
    simp [wrapLbfgsb, lbfgsbStatus, h0, h1]

example : (wrapLbfgsb ({ x := 1, f := 2, grad := 3, task := "ABNORMAL", funcalls := 5, nit := 4, warnflag := 2 } : FminRes ℕ ℕ ℕ)).2
    = { success := 0, message := "ABNORMAL", func := 2, grad := 3, nit := 4, nfev := 5 } := by decide

/-- `L_BFGS_B` hands SciPy the gradient iff one was given, `approx_grad = 1` iff none was, and every keyword as given. -/
theorem lbfgsb_forwards_call (hg : Bool) (kw : List String) :
    (lbfgsbCall hg kw).hasFprime = hg ∧ ((lbfgsbCall hg kw).approxGrad = 1 ↔ hg = false) ∧
    ((lbfgsbCall hg kw).approxGrad = 0 ↔ hg = true) ∧ (lbfgsbCall hg kw).kwargs = kw := by
  cases hg <;> simp [lbfgsbCall, lbfgsbApproxGrad]

end LB

/-! ## 6. `LS` -/
section LSsec
variable {T X F J : Type}

/-- **`LS` hands SciPy its arguments unchanged:** `jac = jacfun`, `method`, `loss`, `xtol = tol`, `max_nfev = int(maxit)`. -/
theorem ls_forwards_call (jac : JacArg) (method loss : String) (tol : T) (q : ℚ) :
    lsCall jac method loss tol (.fin q) =
      .ok { jac := jac, method := method, loss := loss, xtol := tol, maxNfev := pyTrunc q } := rfl

/-- **`LS` returns SciPy's result unchanged** (`x`, `fun`, `jac`, `nfev`, `success`, `message`) whenever SciPy accepts
    the call, i.e. iff `maxit` is finite and `jacfun` is callable or one of SciPy's three strings. -/
theorem ls_passthrough (scipy : LSCall T → LsqRes X F J) (jac : JacArg) (method loss : String) (tol : T) (q : ℚ)
    (hj : scipyJacOk jac = true) :
    let c : LSCall T := { jac := jac, method := method, loss := loss, xtol := tol, maxNfev := pyTrunc q }
    lsSolve scipy jac method loss tol (.fin q) =
      .ok ((scipy c).x, { success := (scipy c).success, message := (scipy c).message, func := (scipy c).fn,
                          jac := (scipy c).jac, nfev := (scipy c).nfev }) := by
  simp [lsSolve, lsCall, pyInt, Except.map, hj, wrapLS]

/-- **Witness of the known finding `LS:jacfun-none:raises`:** with the documented default `jacfun=None` the wrapper
    never returns SciPy's result — whatever the function, start, method, loss, tolerance and `maxit` — because `None`
    is handed to SciPy as `jac`, which SciPy rejects; the all-defaults call is `jac=None, 'trf', 'linear', 1e-6, 10000`. -/
theorem ls_default_jac_rejected (scipy : LSCall T → LsqRes X F J) (method loss : String) (tol : T) (p : PyNum) :
    (∀ r, lsSolve scipy .none method loss tol p ≠ .ok r) ∧
    (∀ q : ℚ, lsSolve scipy .none method loss tol (.fin q) = .error .scipyRejectsJac) ∧
    lsDefaultCall = .ok { jac := .none, method := "trf", loss := "linear", xtol := 1 / 1000000, maxNfev := 10000 } := by
  refine ⟨fun r => ?_, fun q => ?_, by decide +kernel⟩
  · cases p <;> simp [lsSolve, lsCall, pyInt, Except.map, scipyJacOk]
  · simp [lsSolve, lsCall, pyInt, Except.map, scipyJacOk]

example : scipyJacOk .callable = true ∧ scipyJacOk (.str "3-point") = true ∧ scipyJacOk (.str "bogus") = false := by decide

end LSsec

/-! ## 7. re-wrapping as `CUQIarray` -/

/-- **Re-wrapping never touches the values:** whatever the wrapper and the type of `x0`, the values handed back are
    SciPy's `x`; `minimize`/`maximize`/`LS` give a `CUQIarray` with the geometry of `x0` iff `x0` is a `CUQIarray`;
    `L_BFGS_B` hands SciPy's array back as it is. -/
theorem rewrap_keeps_values {X Geo : Type} (w : String) (g : Option Geo) (x : X) :
    (wrapperSolution w g x).values = x ∧
    (wrapperRewraps w = true → ∀ geo, g = some geo → wrapperSolution w g x = .cuqi x geo) ∧
    (g = none → wrapperSolution w g x = .plain x) ∧
    (wrapperSolution "L_BFGS_B" g x = .plain x) := by
  refine ⟨?_, ?_, ?_, ?_⟩
  · unfold wrapperSolution rewrap
    split <;> [split; skip] <;> rfl
  · intro hw geo hg; subst hg; simp [wrapperSolution, hw, rewrap]
  · intro hg; subst hg; unfold wrapperSolution rewrap; split <;> rfl
  · have : wrapperRewraps "L_BFGS_B" = false := by decide
    simp [wrapperSolution, this]

example : wrapperSolution "minimize" (some 7) (1 : ℕ) = Sol.cuqi 1 7 ∧ wrapperSolution "LS" (none : Option ℕ) (1 : ℕ) = .plain 1 := by
  decide

/-! ## 8. `maxit` re-assigned after construction -/

/-- **`solver.maxit = q` bypasses `int()`:** the loop `while k < maxit` then allows exactly the naturals below `q`
    (`⌈q⌉` passes for `q > 0`, none for `q ≤ 0`), which is the constructor's budget `max(int q, 0)` or one more — one
    more exactly when `q > 0` is not an integer (`2.5`: 3 passes instead of 2). -/
theorem budgetAssigned_spec (q : ℚ) :
    ∃ n, budgetAssigned (.fin q) = some n ∧ (∀ k : ℕ, k < n ↔ (k : ℚ) < q) ∧
      budget (pyTrunc q) ≤ n ∧ n ≤ budget (pyTrunc q) + 1 ∧
      (n = budget (pyTrunc q) ↔ (q ≤ 0 ∨ ∃ z : ℤ, (z : ℚ) = q)) := by
  have hcl : ∀ r : ℚ, pyCeil r = ⌈r⌉ := fun r => by
    show -(Rat.floor (-r)) = ⌈r⌉
    rw [show Rat.floor (-r) = ⌊-r⌋ from rfl, Int.floor_neg, neg_neg]
  have hfl : ∀ r : ℚ, Rat.floor r = ⌊r⌋ := fun _ => rfl
  refine ⟨⌈q⌉.toNat, by simp [budgetAssigned, hcl], ?_, ?_⟩
  · intro k
    rw [Int.lt_toNat, Int.lt_ceil]; simp
  · by_cases hq : q ≤ 0
    · have h1 : ⌈q⌉ ≤ 0 := Int.ceil_le.2 (by simpa using hq)
      have h2 : budget (pyTrunc q) = 0 := by
        rcases hq.lt_or_eq with hlt | heq
        · have := ((pyTrunc_spec q).2.1 hlt).1
          unfold budget; omega
        · subst heq; decide
      have h3 : ⌈q⌉.toNat = 0 := by omega
      rw [h2, h3]
      exact ⟨le_rfl, by omega, by simp [hq]⟩
    · have hpos : 0 < q := not_le.1 hq
      have ht : pyTrunc q = ⌊q⌋ := by
        simp [pyTrunc, not_lt.2 hpos.le, hfl]
      have hf0 : 0 ≤ ⌊q⌋ := Int.floor_nonneg.2 hpos.le
      have hfc : ⌊q⌋ ≤ ⌈q⌉ := Int.floor_le_ceil q
      have hc1 : ⌈q⌉ ≤ ⌊q⌋ + 1 := Int.ceil_le_floor_add_one q
      unfold budget
      rw [ht]
      refine ⟨by omega, by omega, ?_⟩
      constructor
      · intro h
        right
        have : ⌈q⌉ = ⌊q⌋ := by omega
        exact ⟨⌊q⌋, le_antisymm (Int.floor_le q) (by rw [← this]; exact Int.le_ceil q)⟩
      · rintro (h | ⟨z, hz⟩)
        · exact absurd h hq
        · subst hz; simp

example : budgetAssigned (.fin (5 / 2)) = some 3 ∧ budget (pyTrunc (5 / 2)) = 2 := by decide +kernel

/-- **CGLS with a re-assigned `maxit`:** for a finite `q` it returns `(x, k)` of the model recurrence with `k ≤ ⌈q⌉` passes
    (none for `q ≤ 0`); `nan` and `-inf` allow no pass (the start vector comes back); `+inf` leaves only the flag to stop the
    loop (not modelled: `none`).  For FISTA `nan` leaves only `abstol` to stop the loop. -/
theorem cgls_assigned_maxit {K V W : Type} [Field K] [LinearOrder K] [IsStrictOrderedRing K]
    (oV : VOps K V) (oW : VOps K W) (fwd : V → W) (adj : W → V) (b : W) (shift tol eps : K) (x0 : V) :
    (∀ q : ℚ, ∃ x k, cglsAssigned oV oW fwd adj b shift tol eps x0 (.fin q) = some (x, k) ∧ (k : ℤ) ≤ max ⌈q⌉ 0 ∧
        (q ≤ 0 → x = x0 ∧ k = 0)) ∧
    cglsAssigned oV oW fwd adj b shift tol eps x0 .nan = some (x0, 0) ∧
    cglsAssigned oV oW fwd adj b shift tol eps x0 .negInf = some (x0, 0) ∧
    cglsAssigned oV oW fwd adj b shift tol eps x0 .posInf = none ∧
    (∀ prox t abstol ad, fistaAssigned oV oW fwd adj b prox t abstol ad x0 .nan = none) := by
  have hcl : ∀ r : ℚ, pyCeil r = ⌈r⌉ := fun r => by
    show -(Rat.floor (-r)) = ⌈r⌉
    rw [show Rat.floor (-r) = ⌊-r⌋ from rfl, Int.floor_neg, neg_neg]
  refine ⟨fun q => ⟨_, _, rfl, ?_, fun hq => ?_⟩, rfl, rfl, rfl, fun _ _ _ _ => rfl⟩
  · have := cgls_k_le oV oW fwd adj b shift tol eps x0 ((pyCeil q).toNat)
    rw [hcl] at this ⊢
    omega
  · have h1 : ⌈q⌉ ≤ 0 := Int.ceil_le.2 (by simpa using hq)
    have h3 : (pyCeil q).toNat = 0 := by rw [hcl]; omega
    simp only [h3]
    exact ⟨rfl, rfl⟩

end CuqiVerif.C16
