import CuqiVerif.Model.C09
import Mathlib.Tactic.Ring

namespace CuqiVerif.C09

variable {N V : Type} [DecidableEq N]

/-- a block update leaves the values of all other blocks untouched -/
theorem blockUpdate_cur_other (ds : Nat → Draw V) (g : HG N V) (n m : N) (h : m ≠ n) :
    (blockUpdate ds g n).cur m = g.cur m := by
  simp [blockUpdate, upd, h]

end CuqiVerif.C09
