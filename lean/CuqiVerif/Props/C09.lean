import CuqiVerif.Model.C09
import CuqiVerif.Proofs.C09
import Mathlib.Data.List.Nodup
import Mathlib.Data.List.Count
import Mathlib.Data.Fintype.Pi
import Mathlib.Algebra.BigOperators.Group.Finset.Basic
import Mathlib.Algebra.BigOperators.Ring.Finset
import Mathlib.Algebra.BigOperators.Group.Finset.Sigma
import Mathlib.Algebra.Field.Basic
import Mathlib.Algebra.Order.BigOperators.Group.Finset
import Mathlib.Algebra.Order.Field.Rat
import Mathlib.Tactic.NormNum

/-!
# C09 — Gibbs sweeps draw each block from its conditional given the current other blocks

All theorems of the first two sections are about the executable definitions of
`CuqiVerif/Model/C09.lean` (the ones `Driver/C09.lean` runs), for every list of names, every
value type, every assignment of sampler kinds and step counts and every stream of transitions.
The last section is the measure-level statement on a finite product space.
-/
namespace CuqiVerif.C09

set_option linter.unusedSectionVars false

variable {N V : Type} [DecidableEq N]

/-! ## HybridGibbs -/

/-- **Where in the log the update of block `n` sits**: the events of one sweep are those of the
    blocks before `n`, then the events of `n` computed from the state reached after those blocks,
    then the rest. -/
theorem sweep_log_block (ds : Nat → Draw V) (g : HG N V) (pre post : List N) (n : N)
    (hn : g.names = pre ++ n :: post) :
    (sweep ds g).log = g.log ++ sweepEvs ds pre g ++ blockEvs ds (sweepL ds pre g) n
        ++ sweepEvs ds post (sweepL ds (pre ++ [n]) g) := by
  rw [sweep_eq_sweepL, sweepL_log, hn]
  have : pre ++ n :: post = pre ++ ([n] ++ post) := by simp
  rw [this, sweepEvs_append, sweepEvs_append]
  simp [sweepEvs, sweepL_append, List.append_assoc]

/-- **sweep_targets** — the target handed to block `n` (the conditioning dictionary recorded in its
    `visit` event, see `blockEvs`) fixes every other block `m` at its value *after* this sweep if `m`
    comes before `n` in `par_names` (already updated), and at its value *before* this sweep if it
    comes after `n`. -/
theorem sweep_targets (ds : Nat → Draw V) (g : HG N V) (pre post : List N) (n : N)
    (hn : g.names = pre ++ n :: post) (hnd : g.names.Nodup) :
    others g.names (sweepL ds pre g).cur n
      = (g.names.filter (fun m => m != n)).map
          (fun m => (m, if m ∈ pre then (sweep ds g).cur m else g.cur m)) := by
  unfold others
  apply List.map_congr_left
  intro m _
  by_cases hp : m ∈ pre
  · simp only [hp, if_true]
    rw [sweep_eq_sweepL, hn, sweepL_append]
    have hdis : m ∉ n :: post := by
      rw [hn] at hnd
      exact fun h => (List.disjoint_of_nodup_append hnd) hp h
    rw [sweepL_cur_of_not_mem _ _ _ _ hdis]
  · simp only [hp, if_false]
    rw [sweepL_cur_of_not_mem ds pre g m hp]

example : others [0, 1, 2] (sweepL (fun i => ⟨i + 5, true⟩) [0]
      (construct [0, 1, 2] (fun _ => none) (fun _ => (1 : Nat)) (fun _ => (false, false, false)))).cur 1
    = [(0, 5), (2, 1)] := by decide

/-- the hypotheses of `sweep_targets` are satisfiable (three blocks, the middle one) -/
example (ds : Nat → Draw Nat) :=
  sweep_targets ds (construct [0, 1, 2] (fun _ => some 2) (fun _ => (1 : Nat)) (fun _ => (false, true, true)))
    [0] [2] 1 rfl (by decide)

/-- **sweep_visits_all** — one sweep begins the update of every block exactly once, in `par_names`
    order (no hypothesis on the names). -/
theorem sweep_visits_all (ds : Nat → Draw V) (g : HG N V) :
    visits (sweep ds g).log = visits g.log ++ g.names := by
  rw [sweep_eq_sweepL, sweepL_log, visits_append, visits_sweepEvs]

/-- **block_steps_eq_config** — in one sweep the sampler of block `n` makes exactly
    `num_sampling_steps[n]` transitions … -/
theorem block_steps_eq_config (ds : Nat → Draw V) (g : HG N V) (n : N) (hn : n ∈ g.names)
    (hnd : g.names.Nodup) :
    stepCount n (sweep ds g).log = stepCount n g.log + g.nsteps n := by
  rw [sweep_eq_sweepL, sweepL_log, stepCount_append, stepCount_sweepEvs,
    List.count_eq_one_of_mem hnd hn, Nat.one_mul]

example (ds : Nat → Draw Nat) :=
  block_steps_eq_config ds (construct [0, 1, 2] (fun _ => some 2) (fun _ => (1 : Nat)) (fun _ => (false, true, true)))
    1 (by decide) (by decide)

/-- … they are fed by consecutive draws: the block's new value is the point reached from the
    prologue state by the draws `pos₀ + Σ_{m before n} steps m, …` -/
theorem block_result_is_iterated_kernel (ds : Nat → Draw V) (g : HG N V) (pre : List N) (n : N) :
    let g1 := sweepL ds pre g
    (sweepL ds (pre ++ [n]) g).cur n
        = (stepEnd ds (g.nsteps n) (g.pos + (pre.map g.nsteps).sum) (startSmp g1 n)).currentPoint := by
  simp [sweepL_append, blockUpdate_cur, upd, sweepL_pos]

/-- the whole sweep consumes `Σ steps` draws -/
theorem sweep_draws (ds : Nat → Draw V) (g : HG N V) :
    (sweep ds g).pos = g.pos + (g.names.map g.nsteps).sum := by
  rw [sweep_eq_sweepL, sweepL_pos]

/-- the constructor leaves every sampler at its block's initial value -/
theorem sync_construct (names : List N) (nsteps : N → Option Int) (init : N → V)
    (flags : N → Bool × Bool × Bool) : Sync (construct names nsteps init flags) := by
  intro m; simp [construct, Smp.initialize]

/-- **block_starts_at_current** — at every block update of every sweep of every call sequence the
    sampler starts (after the save / `reinitialize` / restore dance, NUTS path included) from the
    block's current value: the value stored by the previous update of that block, or the initial
    point. -/
theorem block_starts_at_current (ds : Nat → Draw V) (names : List N) (nsteps : N → Option Int)
    (init : N → V) (flags : N → Bool × Bool × Bool) (calls : List Nat) (pre : List N) (n : N) :
    let g := calls.foldl (fun g c => sampleN ds c g) (construct names nsteps init flags)
    (startSmp (sweepL ds pre g) n).currentPoint = (sweepL ds pre g).cur n := by
  intro g
  have hs : Sync g := by
    have : ∀ (cs : List Nat) (g0 : HG N V), Sync g0 → Sync (cs.foldl (fun g c => sampleN ds c g) g0) := by
      intro cs
      induction cs with
      | nil => intro g0 h; exact h
      | cons c cs ih => intro g0 h; exact ih _ (sync_sampleN ds c g0 h)
    exact this calls _ (sync_construct names nsteps init flags)
  rw [startSmp, prologue_point]
  exact sync_sweepL ds pre g hs n

/-- the handed target really is the one recorded: after the prologue the sampler's target is the
    joint conditioned on the current other blocks -/
theorem block_target_is_set (g : HG N V) (n : N) :
    (startSmp g n).target = others g.names g.cur n := prologue_target _ _

/-- **stored_is_post_sweep** — `k` sweeps append `k` tuples, the `j`-th being the tuple of block
    values after the `j`-th sweep. -/
theorem stored_is_post_sweep (ds : Nat → Draw V) (k : Nat) (g : HG N V) :
    (sampleN ds k g).stored
      = g.stored ++ (List.range k).map (fun j => tuple g.names (sampleN ds (j + 1) g).cur) := by
  induction k with
  | zero => simp [sampleN]
  | succ k ih =>
    rw [List.range_succ, List.map_append, ← List.append_assoc, ← ih]
    simp [store, sweep_eq_sweepL, sampleN_succ']

/-- **continue_eq_uninterrupted** — two calls of `a` and `b` sweeps are one call of `a + b` sweeps
    (same stream of transitions): the second call resumes from the last stored values. -/
theorem continue_eq_uninterrupted (ds : Nat → Draw V) (a b : Nat) (g : HG N V) :
    sampleN ds (a + b) g = sampleN ds b (sampleN ds a g) := sampleN_add ds a b g

/-- after any run the current values are the last stored tuple -/
theorem current_is_last_stored (ds : Nat → Draw V) (k : Nat) (g : HG N V) :
    (sampleN ds (k + 1) g).stored.getLast? = some (tuple g.names (sampleN ds (k + 1) g).cur) := by
  rw [sampleN_succ']
  simp [store, sweep_eq_sweepL]

/-! ### the cached target evaluation -/

section cache
variable [DecidableEq V]

/-- **cache_fresh (NUTS)** — after the prologue the cached log-density/gradient of a NUTS block
    is that of the handed target at the current point. -/
theorem cache_fresh_nuts (s : Smp N V) (tgt : List (N × V)) (h : s.isNuts = true) :
    (s.prologue tgt).CacheFresh = true := by
  unfold Smp.prologue Smp.CacheFresh
  by_cases hc : s.hasCache <;> simp [h, hc, Smp.initialize]

/-- **cache_fresh (samplers without a cached evaluation)**: Conjugate, ConjugateApprox, Direct,
    LinearRTO, RegularizedLinearRTO, UGLA. -/
theorem cache_fresh_plain (s : Smp N V) (tgt : List (N × V)) (h : s.hasCache = false)
    (h' : s.cacheInState = false) : (s.prologue tgt).CacheFresh = true := by
  unfold Smp.prologue Smp.CacheFresh
  by_cases hn : s.isNuts <;> simp [h, h', hn, Smp.initialize]

/-- a sampler that would recompute instead of restoring its cache starts from an evaluation at its
    *initial* point: fresh only if it sits there -/
theorem cache_recomputed_at_initial_point (s : Smp N V) (tgt : List (N × V)) (hn : s.isNuts = false)
    (h : s.hasCache = true) (h' : s.cacheInState = false) :
    (s.prologue tgt).cache = some ⟨tgt, s.initialPoint⟩ := by
  unfold Smp.prologue
  simp [h, h', hn, Smp.initialize]

/-- **cache_fresh_partial / hybrid_gibbs_stale_cache** — for MH, CWMH, ULA, MALA, PCN (cache in
    `_STATE_KEYS`, restored by `set_state`): if the sampler's cache was fresh for its previous
    target, it is fresh for the handed target **iff the handed target is the previous one**
    (no other block has moved since this block's last update).  The `←` direction is what can be
    proved of the code; the `→` direction is the defect. -/
theorem cache_fresh_restored_iff (s : Smp N V) (tgt : List (N × V)) (hn : s.isNuts = false)
    (h : s.hasCache = true) (h' : s.cacheInState = true)
    (hf : s.cache = some ⟨s.target, s.currentPoint⟩) :
    (s.prologue tgt).CacheFresh = true ↔ s.target = tgt := by
  unfold Smp.prologue Smp.CacheFresh
  simp [h, h', hn, hf, Smp.initialize]

/-- the hypotheses of `cache_fresh_restored_iff` hold for every freshly constructed MH-like sampler -/
example : True ∧ ((((construct [0, 1] (fun _ => none) (fun _ => (1 : Nat)) (fun _ => (false, true, true))).smp 1).prologue
      [(0, 7)]).CacheFresh = true ↔ [(0, 1)] = [(0, 7)]) :=
  ⟨trivial, cache_fresh_restored_iff _ _ rfl rfl rfl rfl⟩

/-- an accepted transition leaves a fresh cache (for the target the block was handed) -/
theorem step_accept_cache_fresh (s : Smp N V) (d : Draw V) (h : d.acc = true) :
    (s.step d).CacheFresh = true := by
  unfold Smp.step Smp.CacheFresh
  by_cases hc : s.hasCache <;> simp [h, hc]

/-- a rejected transition keeps cache, target and point -/
theorem step_reject_cache (s : Smp N V) (d : Draw V) (h : d.acc = false) :
    (s.step d).CacheFresh = s.CacheFresh := by
  unfold Smp.step Smp.CacheFresh
  simp [h]

/-- freshly constructed samplers have a fresh cache -/
theorem construct_cache_fresh (names : List N) (nsteps : N → Option Int) (init : N → V)
    (flags : N → Bool × Bool × Bool) (n : N) :
    ((construct names nsteps init flags).smp n).CacheFresh = true := by
  unfold Smp.CacheFresh
  by_cases hc : (flags n).2.1 <;> simp [construct, Smp.initialize, hc]

end cache

/-- two blocks; block 0 exact (no cache), block 1 an MH-like sampler; every draw accepted -/
def exG : HG Nat Nat :=
  construct [0, 1] (fun _ => none) (fun _ => 1) (fun n => if n = 1 then (false, true, true) else (false, false, false))
def exDs : Nat → Draw Nat := fun i => ⟨i + 5, true⟩

/-- **hybrid_gibbs_stale_cache_counterexample** — already in the first sweep, after block 0 moved
    from 1 to 5, the MH-like block 1 starts with the evaluation of the target conditioned on
    block 0 = 1 while it is handed the target conditioned on block 0 = 5.  With the NUTS path
    (`exGn`) the same situation gives a fresh cache. -/
theorem hybrid_gibbs_stale_cache_counterexample :
    (startSmp (blockUpdate exDs exG 0) 1).cache = some ⟨[(0, 1)], 1⟩
    ∧ (startSmp (blockUpdate exDs exG 0) 1).target = [(0, 5)]
    ∧ (startSmp (blockUpdate exDs exG 0) 1).CacheFresh = false := by decide

example : (startSmp (blockUpdate exDs
    (construct [0, 1] (fun _ => none) (fun _ => 1) (fun n => if n = 1 then (true, true, true) else (false, false, false))) 0) 1).CacheFresh = true := by decide

/-! ## legacy Gibbs -/

/-- **legacy: one transition from the current value** — the `x0`-then-`sample(2)` hack returns
    exactly the first transition from `x0`. -/
theorem legacy_kernel_one_transition (x0 d : V) : legacyKernel x0 d = d := rfl

/-- **legacy block event** — block `n` gets a fresh sampler on the joint conditioned on the current
    other blocks, started at the block's current value, advanced once (draw number `pos`). -/
theorem legacy_block (ds : Nat → V) (names : List N) (cur : N → V) (pos : Nat) (log : List (LEv N V)) (n : N) :
    lblock ds names (cur, pos, log) n
      = (upd cur n (ds pos), pos + 1, log ++ [LEv.step n (others names cur n) (cur n) (ds pos)]) := rfl

/-- **legacy_sweep_targets** — same statement as `sweep_targets` for legacy `Gibbs.step`. -/
theorem legacy_sweep_targets (ds : Nat → V) (names pre post : List N) (n : N)
    (st : (N → V) × Nat × List (LEv N V)) (hn : names = pre ++ n :: post) (hnd : names.Nodup) :
    others names (lsweepL ds names pre st).1 n
      = (names.filter (fun m => m != n)).map
          (fun m => (m, if m ∈ pre then (lsweep ds names st).1 m else st.1 m)) := by
  subst hn
  unfold others
  apply List.map_congr_left
  intro m _
  by_cases hp : m ∈ pre
  · simp only [hp, if_true]
    have hdis : m ∉ n :: post := fun h => (List.disjoint_of_nodup_append hnd) hp h
    have : lsweep ds (pre ++ n :: post) st
        = lsweepL ds (pre ++ n :: post) (n :: post) (lsweepL ds (pre ++ n :: post) pre st) := by
      rw [lsweep_eq_lsweepL]
      exact lsweepL_append ds _ pre (n :: post) st
    rw [this, lsweepL_cur_of_not_mem _ _ _ _ _ hdis]
  · simp only [hp, if_false]
    rw [lsweepL_cur_of_not_mem ds _ pre st m hp]

/-- **legacy_visits_all** — one legacy sweep advances every block exactly once, in order, each by
    one draw. -/
theorem legacy_visits_all (ds : Nat → V) (names : List N) (st : (N → V) × Nat × List (LEv N V)) :
    lvisits (lsweep ds names st).2.2 = lvisits st.2.2 ++ names
    ∧ (lsweep ds names st).2.1 = st.2.1 + names.length := by
  rw [lsweep_eq_lsweepL]
  exact ⟨lsweepL_visits ds names names st, lsweepL_pos ds names names st⟩

/-- **legacy_stored_is_post_sweep** — the loop `for i in range(at, at+k)` over freshly allocated
    (zero) columns overwrites exactly those columns with the post-sweep tuples, in order; columns
    stored by earlier calls are kept. -/
theorem legacy_stored_is_post_sweep (ds : Nat → V) (names : List N) (w : Bool) (k : Nat)
    (A : List (N → V)) (z : N → V) (st : (N → V) × Nat × List (LEv N V)) :
    (lloop ds names w k A.length (A ++ List.replicate k z) st).1 = A ++ (lrun ds names w k A.length st).1
    ∧ (lloop ds names w k A.length (A ++ List.replicate k z) st).2 = (lrun ds names w k A.length st).2 :=
  lloop_eq ds names w k A z st

/-- the `j`-th column produced by `k` sweeps is the tuple of values after `j + 1` sweeps -/
theorem legacy_column (ds : Nat → V) (names : List N) (w : Bool) (k i j : Nat)
    (st : (N → V) × Nat × List (LEv N V)) (hj : j < k) :
    (lrun ds names w k i st).1[j]? = some (lrun ds names w (j + 1) i st).2.1 :=
  lrun_get ds names w k i j st hj

/-- **legacy_warmup_then_sample** — the first call `sample(Ns, Nb)`: starts from the densities'
    `init_point`s (else ones), stores the `Nb` post-sweep tuples of the warm-up in `samples_warmup`,
    then continues from the values the warm-up ended with and stores the `Ns` post-sweep tuples of
    the sampling phase in `samples` (what is returned). -/
theorem legacy_warmup_then_sample (ds : Nat → V) (g : LG N V) (Ns Nb : Nat)
    (hw : g.warm = none) (hs : g.samples = none) :
    lsample ds g Ns Nb =
      let w := lrun ds g.names true Nb 0 (linit0 g, g.pos, g.log)
      let r := lrun ds g.names false Ns 0 w.2
      .ok { g with samples := some r.1, warm := some w.1, pos := r.2.2.1, log := r.2.2.2 } :=
  lsample_fresh ds g Ns Nb hw hs

/-- a second warm-up is refused (`ValueError`), whatever was run before -/
theorem legacy_second_warmup_refused (ds : Nat → V) (g : LG N V) (Ns Nb : Nat) (c : N → V)
    (hi : linit g = .ok c) (hw : g.warm.isSome = true) (hNb : Nb ≠ 0) :
    lsample ds g Ns Nb = .error .valueError := by
  simp [lsample, hi, hw, hNb]

/-- **legacy_continue_eq_uninterrupted_partial** — `sample(a)` followed by `sample(b)` is `sample(a+b)`
    (no warm-up in either; same stream), *provided the first call stored at least one column*
    (`a ≥ 1`; for `a = 0` see the counterexample below). -/
theorem legacy_continue_eq_uninterrupted_partial (ds : Nat → V) (g : LG N V) (a b : Nat) (ha : 1 ≤ a)
    (hw : g.warm = none) (hs : g.samples = none) :
    (lsample ds g a 0).bind (fun g' => lsample ds g' b 0) = lsample ds g (a + b) 0 :=
  lsample_continue ds g a b ha hw hs

example (ds : Nat → Nat) :=
  legacy_continue_eq_uninterrupted_partial ds
    (lconstruct [0, 1] (fun _ => none) (fun _ => 1) (fun _ => 0) : LG Nat Nat) 2 3 (by decide) rfl rfl

/-- **legacy_continue_after_warmup_only_counterexample** — `sample(0, 2)` then `sample(1)` raises
    `IndexError` although two warm-up tuples are stored. -/
theorem legacy_continue_after_warmup_only_counterexample :
    (match lsample (fun i => i + 5) (lconstruct [0, 1] (fun _ => none) (fun _ => 1) (fun _ => 0) : LG Nat Nat) 0 2 with
     | .ok g' => (g'.warm.map List.length, g'.samples.map List.length,
                  match lsample (fun i => i + 5) g' 1 0 with | .error e => some e | .ok _ => none)
     | .error _ => (none, none, none)) = (some 2, some 0, some LErr.indexError) := by decide

/-! ## invariance on a finite product space -/

section invariance
open Finset

variable {ι : Type} [DecidableEq ι] [Fintype ι] {α : ι → Type} [∀ i, Fintype (α i)] [∀ i, DecidableEq (α i)]
variable {R : Type} [CommSemiring R]

/-- the (unnormalised) weight `π` is invariant under the transition matrix `K` -/
def Invariant {X : Type} [Fintype X] (π : X → R) (K : X → X → R) : Prop := ∀ y, ∑ x, π x * K x y = π y

/-- composition of transition matrices (first `K`, then `L`) -/
def kcomp {X : Type} [Fintype X] (K L : X → X → R) : X → X → R := fun x z => ∑ y, K x y * L y z

/-- identity transition -/
def kid {X : Type} [DecidableEq X] : X → X → R := fun x y => if x = y then 1 else 0

/-- `m` transitions of `K` -/
def kpow {X : Type} [Fintype X] [DecidableEq X] (K : X → X → R) : Nat → X → X → R
  | 0 => kid
  | m + 1 => kcomp K (kpow K m)

theorem Invariant.comp {X : Type} [Fintype X] {π : X → R} {K L : X → X → R}
    (hK : Invariant π K) (hL : Invariant π L) : Invariant π (kcomp K L) := by
  intro z
  unfold kcomp
  calc ∑ x, π x * ∑ y, K x y * L y z
      = ∑ x, ∑ y, π x * K x y * L y z := by
        apply Finset.sum_congr rfl; intro x _; rw [Finset.mul_sum]
        apply Finset.sum_congr rfl; intro y _; rw [mul_assoc]
    _ = ∑ y, ∑ x, π x * K x y * L y z := Finset.sum_comm
    _ = ∑ y, π y * L y z := by
        apply Finset.sum_congr rfl; intro y _; rw [← Finset.sum_mul, hK y]
    _ = π z := hL z

theorem Invariant.id {X : Type} [Fintype X] [DecidableEq X] (π : X → R) : Invariant π (kid (R := R)) := by
  intro y; simp [kid]

theorem Invariant.pow {X : Type} [Fintype X] [DecidableEq X] {π : X → R} {K : X → X → R}
    (hK : Invariant π K) (m : Nat) : Invariant π (kpow K m) := by
  induction m with
  | zero => exact Invariant.id π
  | succ m ih => exact hK.comp ih

/-- The transition of the whole state induced by a block kernel: only coordinate `i` moves, from
    `x i` to `y i`, with the probability `k c (x i) (y i)` the block sampler assigns when handed the
    context `c = y` (which agrees with `x` on all other coordinates — the "most recent values of
    the other blocks"). -/
def blockKernel (i : ι) (k : (∀ j, α j) → α i → α i → R) : (∀ j, α j) → (∀ j, α j) → R :=
  fun x y => if (∀ j, j ≠ i → x j = y j) then k y (x i) (y i) else 0

/-- the block kernel `k` is invariant for the full conditional of `π` it is handed: for every
    context `c`, `a ↦ π (c with block i := a)` is invariant under `k c` -/
def CondInvariant (π : (∀ j, α j) → R) (i : ι) (k : (∀ j, α j) → α i → α i → R) : Prop :=
  ∀ (c : ∀ j, α j) (b : α i), ∑ a, π (Function.update c i a) * k c a b = π (Function.update c i b)

theorem sum_block (f : (∀ j, α j) → R) (y : ∀ j, α j) (i : ι) :
    ∑ x, (if ∀ j, j ≠ i → x j = y j then f x else 0) = ∑ a, f (Function.update y i a) := by
  rw [← Finset.sum_filter]
  have : Finset.filter (fun x : ∀ j, α j => ∀ j, j ≠ i → x j = y j) Finset.univ
      = Finset.image (fun a => Function.update y i a) Finset.univ := by
    ext x
    simp only [Finset.mem_filter, Finset.mem_univ, true_and, Finset.mem_image]
    constructor
    · intro h
      refine ⟨x i, ?_⟩
      funext j
      by_cases hj : j = i
      · subst hj; simp
      · simp [Function.update_of_ne hj, h j hj]
    · rintro ⟨a, rfl⟩ j hj
      simp [Function.update_of_ne hj]
  rw [this, Finset.sum_image]
  intro a _ b _ h
  simpa using congrFun h i

/-- **block update leaves the joint invariant** -/
theorem blockKernel_invariant (π : (∀ j, α j) → R) (i : ι) (k : (∀ j, α j) → α i → α i → R)
    (hk : CondInvariant π i k) : Invariant π (blockKernel i k) := by
  intro y
  unfold blockKernel
  have : ∀ x : ∀ j, α j, π x * (if ∀ j, j ≠ i → x j = y j then k y (x i) (y i) else 0)
      = if ∀ j, j ≠ i → x j = y j then π x * k y (x i) (y i) else 0 := by
    intro x; split <;> simp
  simp only [this]
  rw [sum_block (fun x => π x * k y (x i) (y i)) y i]
  simpa using hk y (y i)

/-- the sweep kernel: for each block of the list in turn, `steps i` transitions of its block kernel -/
def sweepKernel (ks : ∀ i, (∀ j, α j) → α i → α i → R) (steps : ι → Nat) : List ι → (∀ j, α j) → (∀ j, α j) → R
  | [] => kid
  | i :: l => kcomp (kpow (blockKernel i (ks i)) (steps i)) (sweepKernel ks steps l)

/-- **gibbs_invariant_fintype** — on a finite product space, for every weight `π`, every list of
    blocks (any order, repetitions allowed) and every per-block number of transitions: if every
    block kernel is invariant for the full conditional it is handed, the sweep leaves `π`
    invariant; so does any number of sweeps. -/
theorem gibbs_invariant_fintype (π : (∀ j, α j) → R) (ks : ∀ i, (∀ j, α j) → α i → α i → R)
    (steps : ι → Nat) (l : List ι) (hk : ∀ i ∈ l, CondInvariant π i (ks i)) :
    Invariant π (sweepKernel ks steps l) := by
  induction l with
  | nil => exact Invariant.id π
  | cons i l ih =>
    exact ((blockKernel_invariant π i (ks i) (hk i (by simp))).pow (steps i)).comp
      (ih (fun j hj => hk j (by simp [hj])))

theorem gibbs_run_invariant (π : (∀ j, α j) → R) (ks : ∀ i, (∀ j, α j) → α i → α i → R)
    (steps : ι → Nat) (l : List ι) (hk : ∀ i ∈ l, CondInvariant π i (ks i)) (nsweeps : Nat) :
    Invariant π (kpow (sweepKernel ks steps l) nsweeps) :=
  (gibbs_invariant_fintype π ks steps l hk).pow nsweeps

/-- an exact block sampler (draws from the normalised full conditional, whatever the start) is
    `CondInvariant`: non-vacuity of the hypothesis, over a field -/
theorem exact_sampler_condInvariant {F : Type} [Field F] (π : (∀ j, α j) → F) (i : ι)
    (hpos : ∀ c : ∀ j, α j, ∑ a, π (Function.update c i a) ≠ 0) :
    CondInvariant π i (fun c _ b => π (Function.update c i b) / ∑ a, π (Function.update c i a)) := by
  intro c b
  rw [← Finset.sum_mul, mul_div_assoc', mul_comm, mul_div_assoc, div_self (hpos c), mul_one]

/-- a concrete instance: two binary blocks, correlated weight, exact block samplers, two
    transitions per block — all hypotheses of `gibbs_invariant_fintype` hold -/
example :
    let π : (Bool → Bool) → ℚ := fun x => if x true = x false then 2 else 1
    Invariant π (sweepKernel (α := fun _ => Bool)
      (fun i c _ b => π (Function.update c i b) / ∑ a, π (Function.update c i a)) (fun _ => 2) [true, false]) := by
  intro π
  have hpos : ∀ x, (0 : ℚ) < π x := by intro x; simp only [π]; split <;> norm_num
  exact gibbs_invariant_fintype π _ _ _ (fun i _ => exact_sampler_condInvariant π i
    (fun c => (Finset.sum_pos (fun a _ => hpos _) Finset.univ_nonempty).ne'))

end invariance

end CuqiVerif.C09
