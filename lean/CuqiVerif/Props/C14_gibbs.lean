import CuqiVerif.Model.C14
import CuqiVerif.Model.C14_gibbs
import CuqiVerif.Proofs.C14
import CuqiVerif.Proofs.C14_gibbs
import CuqiVerif.Props.C14

/-!
# C14 — theorems about the inside of `HybridGibbs` (`Model/C14_gibbs.lean`)

`Props/C14.lean` proves continuity and record keeping of the Gibbs samplers for an *opaque* sweep.
Here the sweep is the transcription of `HybridGibbs.step` over block samplers of the stateful
interface, and the theorems say what the per-block protocol
`get_state / get_history / reinitialize / set_state / set_history / _pre_warmup / _pre_sample / step`
does to a block, that a sweep touches only the block and the `current_samples` entry of the parameter
it is at, and that `sample`, `warmup` record exactly the states after the sweeps.  All statements are
for every list of blocks (any sampler classes), every object, every stream, every `n`, `m`.
-/
namespace CuqiVerif.C14

/-! ## 1. the per-block re-initialisation protocol -/

/-- **A block keeps its chain across the re-initialisation in `HybridGibbs.step`** (every class
    but NUTS): after `state = get_state(); hist = get_history(); reinitialize(); set_state(state);
    set_history(hist)` the sampler holds, on every state key, exactly the values it held before; its
    `_samples`/`_acc` are the lists it had before; it is initialised; and every attribute that is
    *not* a state key has the value `initialize()` gives it for the new conditional target
    (`init` applied to the object with the state keys cleared) — nothing else of the old object
    survives.  `set_state` on the dictionary `get_state` produced never raises. -/
theorem block_refresh_restores {D A : Type} (b : Block D A) (hn : b.nutsLike = false) (r : Run D A) :
    AgreeOn b.spec.stateKeys (blockRefresh b r).obj r.obj ∧
    (∀ k, k ∉ b.spec.stateKeys →
      (blockRefresh b r).obj.get k = (b.spec.init (r.obj.clear b.spec.stateKeys)).get k) ∧
    (blockRefresh b r).samples = r.samples ∧ (blockRefresh b r).acc = r.acc ∧
    (blockRefresh b r).initialized = true ∧
    (setState b.spec.stateKeys (getState b.spec.stateKeys r.obj) (reinitialize b.spec r).obj).isSome = true := by
  obtain ⟨o', h1, h2, h3⟩ := setState_getState b.spec.stateKeys r.obj (reinitialize b.spec r).obj
  have hobj : (blockRefresh b r).obj = o' := by
    simp [blockRefresh, hn, h1, setHistory]
  refine ⟨?_, ?_, ?_, ?_, ?_, ?_⟩
  · rw [hobj]; exact h2
  · intro k hk; rw [hobj, h3 k hk]; rfl
  · simp [blockRefresh, hn, setHistory, getHistory]
  · simp [blockRefresh, hn, setHistory, getHistory]
  · simp [blockRefresh, hn, setHistory, reinitialize, initializeRun]
  · rw [h1]; rfl

/-- the hypotheses are satisfiable: the block class run by the driver, after a tuning round -/
example :
    let b : Block Int Int := { spec := toyBlockSpec, nutsLike := false, nsteps := 2, dim := 1 }
    let o : Obj := ((((Obj.empty.set "initial_point" (.ints [1])).set "initial_scale" (.int 2)).set "target" (.ints [3, 4])).set
      "current_point" (.ints [9])).set "scale" (.int 7)
    let r : Run Int Int := { obj := o, initialized := true, samples := [], acc := [1, 0], events := [], tunes := [], stream := [] }
    ((blockRefresh b r).obj.get "scale", (blockRefresh b r).obj.get "shift", (blockRefresh b r).acc) = (.int 7, .int 2, [1, 0]) := by
  decide

/-- **The NUTS branch** (`sampler.initial_point = sampler.current_point; sampler.reinitialize()`):
    the block is exactly a freshly initialised sampler whose initial point is the current point —
    empty `_samples`, the initial acceptance record, and every other state key re-derived by
    `initialize()`; nothing is carried over but the point. -/
theorem block_refresh_nuts {D A : Type} (b : Block D A) (hn : b.nutsLike = true) (r : Run D A) :
    let o0 := (r.obj.set "initial_point" (point r.obj)).clear b.spec.stateKeys
    (blockRefresh b r).obj = b.spec.init o0 ∧ (blockRefresh b r).samples = [] ∧
    (blockRefresh b r).acc = b.spec.initAcc o0 ∧ (blockRefresh b r).initialized = true := by
  simp [blockRefresh, hn, reinitialize, initializeRun]

/-- … and the point itself is kept whenever `initialize` starts the chain at `initial_point` and
    `initial_point` is configuration (not a state key) — true of every class of the interface
    (`Sampler.initialize`: `self.current_point = self.initial_point`). -/
theorem block_refresh_nuts_point {D A : Type} (b : Block D A) (hn : b.nutsLike = true) (r : Run D A)
    (hinit : ∀ o, point (b.spec.init o) = o.get "initial_point")
    (hcfg : "initial_point" ∉ b.spec.stateKeys) :
    point (blockRefresh b r).obj = point r.obj := by
  rw [(block_refresh_nuts b hn r).1, hinit, get_clear]
  simp [hcfg, get_set]

example : ∀ o, point (toyBlockSpec.init o) = o.get "initial_point" := by
  intro o; simp [toyBlockSpec, point, get_set]

/-- **What the NUTS branch loses** (the code prints "NUTS sampler is not fully stateful in
    HybridGibbs"): a tuned state key (`scale = 7`) and the acceptance history survive the protocol
    in an ordinary block and are reset to their initial values in a NUTS-like block. -/
theorem block_refresh_nuts_resets_witness :
    let o : Obj := ((((Obj.empty.set "initial_point" (.ints [1])).set "initial_scale" (.int 2)).set "target" (.ints [3, 4])).set
      "current_point" (.ints [9])).set "scale" (.int 7)
    let r : Run Int Int := { obj := o, initialized := true, samples := [], acc := [1, 0, 1], events := [], tunes := [], stream := [] }
    let keep := blockRefresh { spec := toyBlockSpec, nutsLike := false, nsteps := 1, dim := 1 } r
    let lose := blockRefresh { spec := toyBlockSpec, nutsLike := true, nsteps := 1, dim := 1 } r
    (keep.obj.get "scale", keep.acc, point keep.obj) = (.int 7, [1, 0, 1], .ints [9]) ∧
    (lose.obj.get "scale", lose.acc, point lose.obj) = (.int 2, [1], .ints [9]) := by
  decide

/-! ## 2. one block step, one sweep -/

/-- **The steps inside a Gibbs sweep are recorded in the block's `_acc`, never in its `_samples`,
    and fire no callback**: after the `num_sampling_steps` transitions of a block its acceptance
    records are the old ones followed by those of the consecutive transitions of the sampler
    object, its `_samples`, callback log and initialised flag are untouched. -/
theorem block_steps_records {D A : Type} (sp : Spec D A) (k : Nat) (r : Run D A) (ds : List D) :
    (blockSteps sp k r ds).1.acc = r.acc ++ (transitions sp.step k r.obj ds).map Prod.snd ∧
    (blockSteps sp k r ds).1.samples = r.samples ∧ (blockSteps sp k r ds).1.events = r.events ∧
    (blockSteps sp k r ds).1.initialized = r.initialized :=
  ⟨blockSteps_transitions sp k r ds, (blockSteps_frame sp k r ds).1, (blockSteps_frame sp k r ds).2.2.1,
   (blockSteps_frame sp k r ds).2.1⟩

/-- **A block step touches only its own parameter**: the body of the loop of `HybridGibbs.step` for
    parameter `i` leaves every other block sampler and every other entry of `current_samples` as
    they were, and the number of parameters unchanged. -/
theorem hgBlock_frame {D A : Type} (b : Block D A) (i : Nat) (s : HGS D A) (ds : List D) (j : Nat) (hj : j ≠ i) :
    (hgBlock b i s ds).1.cur[j]? = s.cur[j]? ∧ (hgBlock b i s ds).1.runs[j]? = s.runs[j]? ∧
    (hgBlock b i s ds).1.cur.length = s.cur.length ∧ (hgBlock b i s ds).1.runs.length = s.runs.length := by
  unfold hgBlock
  cases hr : s.runs[i]? with
  | none => simp
  | some r =>
    have hij : i ≠ j := fun h => hj h.symm
    simp [hij]

/-- **The new current sample of a parameter is the point its block sampler holds after the
    steps**, and the conditional target the block was (re)initialised with is the joint conditioned
    on the *current* values of all other parameters at that moment (those already updated in this
    sweep included): the `target` attribute seen by `initialize()` is `condParams s.cur i`. -/
theorem hgBlock_current {D A : Type} (b : Block D A) (i : Nat) (s : HGS D A) (ds : List D) (r : Run D A)
    (hr : s.runs[i]? = some r) (hi : i < s.cur.length) :
    let r1 := preBoth b.spec (blockRefresh b (setTarget s.cur i r))
    (hgBlock b i s ds).1.cur[i]? = some (point (blockSteps b.spec b.nsteps r1 ds).1.obj) ∧
    (hgBlock b i s ds).1.runs[i]? = some (blockSteps b.spec b.nsteps r1 ds).1 ∧
    (hgBlock b i s ds).2 = (blockSteps b.spec b.nsteps r1 ds).2 ∧
    (setTarget s.cur i r).obj.get "target" = condParams s.cur i := by
  obtain ⟨hlen, he⟩ := List.getElem?_eq_some_iff.mp hr
  subst he
  simp [hgBlock, hi, hlen, setTarget, get_set]

/-- a sweep never changes the number of parameters / block samplers -/
theorem hgSweep_lengths {D A : Type} (bs : List (Block D A)) (s : HGS D A) (ds : List D) :
    (hgSweep bs s ds).1.cur.length = s.cur.length ∧ (hgSweep bs s ds).1.runs.length = s.runs.length ∧
    (hgSweep bs s ds).2.1 = (hgSweep bs s ds).1.cur :=
  ⟨(hgSweepFrom_cur_length bs 0 s ds).1, (hgSweepFrom_cur_length bs 0 s ds).2, rfl⟩

/-! ## 3. `sample`, `warmup`: continuity and faithful recording for the concrete sweep -/

/-- **Continuity of `HybridGibbs.sample`** with the sweep spelled out: `sample(n+m)` and
    `sample(n); sample(m)` leave the same block samplers (attributes, `_acc`), the same
    `current_samples`, the same stored chain and the same random stream. -/
theorem hybrid_sample_append {D A : Type} (bs : List (Block D A)) (n m : Nat)
    (st : HGS D A × List (List Val) × List D) :
    hgSample bs (n + m) st = hgSample bs m (hgSample bs n st) :=
  gibbs_sample_append (hgSweep bs) n m st

/-- **Faithful recording**: the stored chain after `sample(n)` is the old chain, untouched,
    followed by `current_samples` as it was after each of the `n` sweeps, in order — exactly `n`
    more entries; the stored entries do not feed back into the sweeps. -/
theorem hybrid_records {D A : Type} (bs : List (Block D A)) (n : Nat) (s : HGS D A)
    (rec : List (List Val)) (ds : List D) :
    (hgSample bs n (s, rec, ds)).2.1 = rec ++ sweepTrace (hgSweep bs) n s ds ∧
    (hgSample bs n (s, rec, ds)).2.1.length = rec.length + n ∧
    rec <+: (hgSample bs n (s, rec, ds)).2.1 ∧
    (∀ rec', (hgSample bs n (s, rec', ds)).1 = (hgSample bs n (s, rec, ds)).1) := by
  have h := iterStore_trace (hgSweep bs) n s rec ds
  refine ⟨h, ?_, ?_, ?_⟩
  · show (iterStore (hgSweep bs) n (s, rec, ds)).2.1.length = _
    rw [h, List.length_append, sweepTrace_length]
  · show rec <+: (iterStore (hgSweep bs) n (s, rec, ds)).2.1
    rw [h]; exact List.prefix_append _ _
  · intro rec'; exact (iterStore_state (hgSweep bs) n s rec' rec ds).1

/-- the last stored entry is the object's `current_samples` (for `n ≥ 1`) -/
theorem hybrid_last_is_current {D A : Type} (bs : List (Block D A)) (n : Nat) :
    ∀ (s : HGS D A) (rec : List (List Val)) (ds : List D),
      (hgSample bs (n + 1) (s, rec, ds)).2.1.getLast? = some (hgSample bs (n + 1) (s, rec, ds)).1.cur := by
  induction n with
  | zero => intro s rec ds; simp [hgSample, iterStore, hgSweep]
  | succ k ih =>
    intro s rec ds
    have := ih (hgSweep bs s ds).1 (rec ++ [(hgSweep bs s ds).2.1]) (hgSweep bs s ds).2.2
    simpa [hgSample, iterStore] using this

/-- **Warm-up records like sampling**: `warmup(Nb)` stores exactly `Nb` more entries after the
    old ones (whatever the tuning does), generic in the sweep and the tuning function. -/
theorem gibbs_warm_records {S P D : Type} (sweep : S → List D → S × P × List D) (tune : S → Nat → Nat → S)
    (ti k : Nat) : ∀ (idx : Nat) (st : S × List P × List D × List (Nat × Nat × Nat)),
      (gibbsWarmLoop sweep tune ti k idx st).2.1.length = st.2.1.length + k ∧
      st.2.1 <+: (gibbsWarmLoop sweep tune ti k idx st).2.1 ∧
      st.2.2.2 <+: (gibbsWarmLoop sweep tune ti k idx st).2.2.2 := by
  induction k with
  | zero => intro idx st; simp [gibbsWarmLoop]
  | succ j ih =>
    intro idx st
    obtain ⟨s, rec, ds, tl⟩ := st
    simp only [gibbsWarmLoop]
    obtain ⟨h1, h2, h3⟩ := ih (idx + 1)
      (if (idx + 1) % ti = 0 then tune (sweep s ds).1 ti (idx / ti) else (sweep s ds).1, rec ++ [(sweep s ds).2.1], (sweep s ds).2.2,
        if (idx + 1) % ti = 0 then tl ++ [(rec.length, ti, idx / ti)] else tl)
    refine ⟨?_, ?_, ?_⟩
    · rw [h1]; simp; omega
    · exact List.IsPrefix.trans (by simp) h2
    · refine List.IsPrefix.trans ?_ h3
      split <;> simp

/-- **A warm-up that never reaches a tuning point is a sampling run**: if no `idx` of the call hits
    the tuning interval (`Nb < tune_interval`), `warmup(Nb)` leaves object, chain and stream exactly as
    `sample(Nb)` does. -/
theorem gibbs_warm_no_tune {S P D : Type} (sweep : S → List D → S × P × List D) (tune : S → Nat → Nat → S)
    (ti k : Nat) : ∀ (idx : Nat) (s : S) (rec : List P) (ds : List D) (tl : List (Nat × Nat × Nat)),
      idx + k < ti →
      gibbsWarmLoop sweep tune ti k idx (s, rec, ds, tl) =
        ((iterStore sweep k (s, rec, ds)).1, (iterStore sweep k (s, rec, ds)).2.1, (iterStore sweep k (s, rec, ds)).2.2, tl) := by
  induction k with
  | zero => intro idx s rec ds tl _; simp [gibbsWarmLoop, iterStore]
  | succ j ih =>
    intro idx s rec ds tl h
    have hne : ¬ ((idx + 1) % ti = 0) := by
      have : (idx + 1) % ti = idx + 1 := Nat.mod_eq_of_lt (by omega)
      omega
    simp only [gibbsWarmLoop, iterStore, hne, if_false]
    exact ih (idx + 1) _ _ _ _ (by omega)

/-- `HybridGibbs.warmup` on the concrete sweep: exact length, earlier entries and earlier tuning
    calls untouched. -/
theorem hybrid_warm_records {D A : Type} (bs : List (Block D A)) (nb : Nat) (tf : Rat)
    (st : HGS D A × List (List Val) × List D × List (Nat × Nat × Nat)) :
    (hgWarmup bs nb tf st).2.1.length = st.2.1.length + nb ∧ st.2.1 <+: (hgWarmup bs nb tf st).2.1 :=
  ⟨(gibbs_warm_records (hgSweep bs) (hgTune bs) (tuneInterval tf nb) nb 0 st).1,
   (gibbs_warm_records (hgSweep bs) (hgTune bs) (tuneInterval tf nb) nb 0 st).2.1⟩

/-- non-vacuity of the whole construction: two toy blocks, one NUTS-like, constructed, warmed up and sampled -/
example :
    let bs : List (Block Int Int) := [{ spec := toyBlockSpec, nutsLike := false, nsteps := 2, dim := 2 },
                                      { spec := toyBlockSpec, nutsLike := true, nsteps := 1, dim := 1 }]
    let mk (x0 : Val) (sc : Int) : Run Int Int := Run.fresh ((Obj.empty.set "initial_point" x0).set "initial_scale" (.int sc)) []
    (hgInit bs [mk (.ints [1, -2]) 2, mk .none 1]).map
      (fun s0 => ((hgSample bs 2 ((hgWarmup bs 2 (1/2) (s0, [], [2, 3, 0, 4, 1, 1, 6, -3, 2, 2, 0, 5, 4], [])).1, [], [4, 4, 2, -1, 0, 3, 2])).2.1)) =
      some [[.ints [86, 83], .ints [14]], [.ints [104, 101], .ints [14]]] := by
  decide +kernel

/-! ## 4. the constructor -/

/-- **`HybridGibbs.__init__` refuses samplers that are already initialised** (`initialize()` raises
    `ValueError("Sampler is already initialized.")`), and otherwise every block sampler comes out
    initialised, with one block sampler per (block, sampler) pair. -/
theorem hgInit_spec {D A : Type} (bs : List (Block D A)) (rs : List (Run D A)) :
    (∀ s, hgInit bs rs = some s → (∀ r ∈ s.runs, r.initialized = true) ∧ s.runs.length = min bs.length rs.length) ∧
    (hgInit bs rs = Option.none → ∃ r ∈ rs, r.initialized = true) := by
  constructor
  · intro s hs
    unfold hgInit at hs
    simp only [] at hs
    split at hs
    · cases hs
    · cases hs
      constructor
      · intro r hr
        simp only [List.mem_iff_getElem, List.getElem_zipWith] at hr
        obtain ⟨n, _, rfl⟩ := hr
        simp [preBoth, initializeRun]
      · simp [withIdx_length]
  · intro hn
    unfold hgInit at hn
    simp only [] at hn
    split at hn
    · rename_i hany
      obtain ⟨r2, hr2, hinit⟩ := List.any_eq_true.mp hany
      obtain ⟨ir, hir, rfl⟩ := List.mem_map.mp hr2
      have hmem := withIdx_mem _ 0 ir hir
      simp only [List.mem_iff_getElem, List.getElem_zipWith] at hmem
      obtain ⟨n, hn', he⟩ := hmem
      simp only [List.length_zipWith] at hn'
      refine ⟨rs[n]'(by omega), List.getElem_mem _, ?_⟩
      have : ir.2.initialized = (rs[n]'(by omega)).initialized := by
        rw [← he]; split <;> rfl
      rw [← this]
      simpa [setTarget] using hinit
    · cases hn

/-! ## 5. legacy `Gibbs.sample(Ns, Nb)` in full -/

/-- what a successful call computes, in closed form: the warm-up array is the first `Nb` sweep
    results from the starting state `c0`, the sample array is the old one followed by the next
    `Ns` sweep results, the returned chain is the whole sample array. -/
theorem gibbsLegacyFull_ok {P D : Type} (sweep : P → List D → P × List D) (init : P) (ns nb : Nat)
    (st : GLState P D) (c0 : P) (h0 : glInitial init st = some c0) (hw : ¬ (st.warm.isSome ∧ nb ≠ 0)) :
    gibbsLegacyFull sweep init ns nb st =
      .ok ({ samples := some (st.samples.getD [] ++ glTrace sweep ns (glEnd sweep nb c0 st.stream).1 (glEnd sweep nb c0 st.stream).2),
             warm := some (glTrace sweep nb c0 st.stream),
             stream := (glEnd sweep (nb + ns) c0 st.stream).2 },
           st.samples.getD [] ++ glTrace sweep ns (glEnd sweep nb c0 st.stream).1 (glEnd sweep nb c0 st.stream).2) := by
  unfold gibbsLegacyFull
  simp only [h0, hw, if_false, gll_eq, List.nil_append, glTrace_last, glEnd_add]

/-- **Exact length, burn-in discarded, consecutive states** (first call on a new sampler):
    `sample(Ns, Nb)` returns exactly the last `Ns` of the `Nb + Ns` consecutive sweep results from
    the initial point, in order; the first `Nb` are the warm-up array. -/
theorem gibbsLegacyFull_burnin_is_drop {P D : Type} (sweep : P → List D → P × List D) (init : P) (ns nb : Nat)
    (ds : List D) :
    ∃ st', gibbsLegacyFull sweep init ns nb { samples := Option.none, warm := Option.none, stream := ds } =
        .ok (st', (glTrace sweep (nb + ns) init ds).drop nb) ∧
      ((glTrace sweep (nb + ns) init ds).drop nb).length = ns ∧
      st'.warm = some ((glTrace sweep (nb + ns) init ds).take nb) ∧
      st'.stream = (glEnd sweep (nb + ns) init ds).2 := by
  have h := gibbsLegacyFull_ok sweep init ns nb { samples := Option.none, warm := Option.none, stream := ds } init rfl (by simp)
  have hlen : (glTrace sweep nb init ds).length = nb := glTrace_length sweep nb init ds
  refine ⟨{ samples := some (glTrace sweep ns (glEnd sweep nb init ds).1 (glEnd sweep nb init ds).2),
            warm := some (glTrace sweep nb init ds), stream := (glEnd sweep (nb + ns) init ds).2 }, ?_, ?_, ?_, ?_⟩
  · rw [h, glTrace_add, List.drop_left' hlen]; simp
  · rw [List.length_drop, glTrace_length]; omega
  · simp [glTrace_add, List.take_left' hlen]
  · rfl

/-- **Exact length on every call**: a successful `sample(Ns, Nb)` returns the previously recorded
    chain, untouched, followed by exactly `Ns` new states — the warm-up states are never part of it. -/
theorem gibbsLegacyFull_length {P D : Type} (sweep : P → List D → P × List D) (init : P) (ns nb : Nat)
    (st st' : GLState P D) (chain : List P) (h : gibbsLegacyFull sweep init ns nb st = .ok (st', chain)) :
    chain.length = (st.samples.getD []).length + ns ∧ st.samples.getD [] <+: chain ∧ st'.samples = some chain ∧
    st'.warm.isSome = true := by
  cases h0 : glInitial init st with
  | none => simp [gibbsLegacyFull, h0] at h
  | some c0 =>
    by_cases hw : st.warm.isSome ∧ nb ≠ 0
    · simp [gibbsLegacyFull, h0, hw] at h
    · rw [gibbsLegacyFull_ok sweep init ns nb st c0 h0 hw] at h
      simp only [Except.ok.injEq, Prod.mk.injEq] at h
      obtain ⟨hs, hc⟩ := h
      subst hs; subst hc
      simp [glTrace_length]

/-- **Continuity with warm-up**: `sample(n+1, Nb); sample(m)` returns the chain `sample(n+1+m, Nb)`
    returns and leaves the same sample array and random stream — for every split position `≥ 1`,
    every burn-in, from every state in which the first call succeeds. -/
theorem gibbsLegacyFull_append {P D : Type} (sweep : P → List D → P × List D) (init : P) (n m nb : Nat)
    (st st1 : GLState P D) (ch1 : List P) (h : gibbsLegacyFull sweep init (n + 1) nb st = .ok (st1, ch1)) :
    ∃ st2 st' ch, gibbsLegacyFull sweep init m 0 st1 = .ok (st2, ch) ∧
      gibbsLegacyFull sweep init (n + 1 + m) nb st = .ok (st', ch) ∧
      st'.samples = st2.samples ∧ st'.stream = st2.stream := by
  cases h0 : glInitial init st with
  | none => simp [gibbsLegacyFull, h0] at h
  | some c0 =>
    by_cases hw : st.warm.isSome ∧ nb ≠ 0
    · simp [gibbsLegacyFull, h0, hw] at h
    · rw [gibbsLegacyFull_ok sweep init (n + 1) nb st c0 h0 hw] at h
      simp only [Except.ok.injEq, Prod.mk.injEq] at h
      obtain ⟨hs, _⟩ := h
      subst hs
      -- the second call starts from the last stored state
      have hinit2 : glInitial init
          { samples := some (st.samples.getD [] ++ glTrace sweep (n + 1) (glEnd sweep nb c0 st.stream).1 (glEnd sweep nb c0 st.stream).2),
            warm := some (glTrace sweep nb c0 st.stream), stream := (glEnd sweep (nb + (n + 1)) c0 st.stream).2 } =
          some (glEnd sweep (n + 1) (glEnd sweep nb c0 st.stream).1 (glEnd sweep nb c0 st.stream).2).1 := by
        simp only [glInitial]
        rw [List.getLast?_append, glTrace_last_succ]
        rfl
      have e2 : nb + (n + 1 + m) = (nb + (n + 1)) + m := by omega
      have hS : (glEnd sweep (nb + (n + 1)) c0 st.stream) =
          glEnd sweep (n + 1) (glEnd sweep nb c0 st.stream).1 (glEnd sweep nb c0 st.stream).2 := glEnd_add sweep nb (n + 1) c0 st.stream
      refine ⟨{ samples := some (st.samples.getD [] ++ glTrace sweep (n + 1 + m) (glEnd sweep nb c0 st.stream).1 (glEnd sweep nb c0 st.stream).2),
                warm := some [], stream := (glEnd sweep (nb + (n + 1 + m)) c0 st.stream).2 },
              { samples := some (st.samples.getD [] ++ glTrace sweep (n + 1 + m) (glEnd sweep nb c0 st.stream).1 (glEnd sweep nb c0 st.stream).2),
                warm := some (glTrace sweep nb c0 st.stream), stream := (glEnd sweep (nb + (n + 1 + m)) c0 st.stream).2 },
              st.samples.getD [] ++ glTrace sweep (n + 1 + m) (glEnd sweep nb c0 st.stream).1 (glEnd sweep nb c0 st.stream).2,
              ?_, ?_, rfl, rfl⟩
      · rw [gibbsLegacyFull_ok sweep init m 0 _ _ hinit2 (by simp)]
        have z1 : ∀ (c : P) (ds : List D), glEnd sweep 0 c ds = (c, ds) := fun _ _ => rfl
        have z2 : ∀ (c : P) (ds : List D), glTrace sweep 0 c ds = [] := fun _ _ => rfl
        simp only [Option.getD_some, z1, z2, Nat.zero_add]
        rw [glTrace_add sweep (n + 1) m, e2, glEnd_add sweep (nb + (n + 1)) m, hS, List.append_assoc]
      · exact gibbsLegacyFull_ok sweep init (n + 1 + m) nb st c0 h0 hw

/-- **A second warm-up is refused**: once a call has succeeded (the attribute `samples_warmup`
    exists) every later `sample(Ns, Nb)` with `Nb ≠ 0` raises `ValueError` — and, like the
    `IndexError` of an empty sample array, before anything is allocated: the model returns the
    error without a new state, the object is as before. -/
theorem gibbsLegacyFull_second_warmup_refused {P D : Type} (sweep : P → List D → P × List D) (init : P)
    (ns nb : Nat) (st : GLState P D) (c0 : P) (h0 : glInitial init st = some c0)
    (hw : st.warm.isSome = true) (hnb : nb ≠ 0) :
    gibbsLegacyFull sweep init ns nb st = .error .value := by
  simp [gibbsLegacyFull, h0, hw, hnb]

/-- the case `Nb = 0` on an object without warm-up array is the model of `Model/C14.lean`
    (`gibbsLegacySample`), so the theorems and the tie of that model carry over -/
theorem gibbsLegacyFull_nb0 {P D : Type} (sweep : P → List D → P × List D) (init : P) (n : Nat)
    (alloc : Bool) (rec : List P) (ds : List D) (hrec : alloc = false → rec = []) :
    gibbsLegacySample sweep init n (alloc, rec, ds) =
      match gibbsLegacyFull sweep init n 0 { samples := if alloc then some rec else Option.none, warm := Option.none, stream := ds } with
      | .ok (st', ch) => some (true, ch, st'.stream)
      | .error _ => Option.none := by
  cases alloc with
  | false =>
    simp [gibbsLegacySample, gibbsLegacyFull, glInitial, gibbsLegacyLoop, gll_eq, hrec rfl]
  | true =>
    cases hl : rec.getLast? with
    | none => simp [gibbsLegacySample, gibbsLegacyFull, glInitial, hl]
    | some c => simp [gibbsLegacySample, gibbsLegacyFull, glInitial, hl, gibbsLegacyLoop, gll_eq]

/-- concrete run (the sweep reads the next state off the stream, as the driver's does):
    `sample(2, 2); sample(1); sample(1, 1)` -/
example :
    let sweep : Int → List Int → Int × List Int := fun s ds => match ds with | d :: r => (d, r) | [] => (s, [])
    ∃ st1 st2, gibbsLegacyFull sweep 0 2 2 { samples := Option.none, warm := Option.none, stream := [1, 2, 3, 4, 5, 6] } = .ok (st1, [3, 4]) ∧
      gibbsLegacyFull sweep 0 1 0 st1 = .ok (st2, [3, 4, 5]) ∧ st1.warm = some [1, 2] ∧ st2.warm = some [] ∧
      gibbsLegacyFull sweep 0 1 1 st2 = .error .value :=
  ⟨_, _, rfl, rfl, rfl, rfl, rfl⟩

end CuqiVerif.C14
