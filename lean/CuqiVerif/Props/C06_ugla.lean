import CuqiVerif.Model.C06_ugla
import CuqiVerif.Props.C06
import Mathlib.Tactic.Linarith
import Mathlib.Tactic.Ring
import Mathlib.Tactic.LinearCombination

/-!
# C06 — UGLA: the code's weights are the documented ones when `D·location = 0` (session 3)

`ugla_step_is_local_gaussian_partial` (Props/C06.lean) assumes `wdoc = w²` ("the documented weights
are the squares of the code's leaf weights").  Here that hypothesis is derived from the defining
relations of the two weight vectors: the code's `w = sqrt(1/sqrt((D x_k)² + β))` (`w ≥ 0`,
`Ugla.weightResidual = 0` — the quantity the driver evaluates exactly on the implementation's weights)
and the documented `wdoc = 1/sqrt((D (x_k − location))² + β)` (`wdoc > 0`, `wdoc²·(…) = 1`).
-/
set_option linter.unusedSectionVars false
set_option linter.unusedVariables false

namespace CuqiVerif.C06

variable {F : Type} [Field F] [LinearOrder F] [IsStrictOrderedRing F]

/-- **ugla_weights_are_documented.**  If `D·location = 0`, the weights `Lk_fun(x_k)` uses (evaluated at
    `D x_k`) are the square roots of the documented weights (evaluated at `D (x_k − location)`):
    `wdocᵢ = wᵢ²` for every row of `D`, every state, every `β`. -/
theorem ugla_weights_are_documented (U : Ugla F) (beta : F) (xk wdoc : Vec F)
    (hw0 : ∀ i, i < U.p → 0 ≤ U.w i) (hw : ∀ i, i < U.p → U.weightResidual beta xk i = 0)
    (hd0 : ∀ i, i < U.p → 0 < wdoc i)
    (hd : ∀ i, i < U.p → wdoc i * wdoc i *
      (mulVec U.n U.D (fun j => xk j - U.loc j) i * mulVec U.n U.D (fun j => xk j - U.loc j) i + beta) = 1)
    (hloc : ∀ i, i < U.p → mulVec U.n U.D U.loc i = 0) :
    ∀ i, i < U.p → wdoc i = U.w i * U.w i := by
  intro i hi
  have ht : mulVec U.n U.D (fun j => xk j - U.loc j) i = mulVec U.n U.D xk i := by
    rw [mulVec_sub_right, hloc i hi, sub_zero]
  have h1 := hd i hi
  rw [ht] at h1
  have h2 := hw i hi
  simp only [Ugla.weightResidual] at h2
  set a := mulVec U.n U.D xk i * mulVec U.n U.D xk i + beta with ha
  set v := U.w i * U.w i with hv
  have hv0 : 0 ≤ v := mul_nonneg (hw0 i hi) (hw0 i hi)
  have h2' : v * v * a = 1 := by linear_combination h2
  have hane : a ≠ 0 := by
    intro h0; rw [h0, mul_zero] at h1; exact zero_ne_one h1
  have hsq : wdoc i * wdoc i = v * v := by
    have : (wdoc i * wdoc i - v * v) * a = 0 := by linear_combination h1 - h2'
    rcases mul_eq_zero.mp this with h | h
    · linarith
    · exact absurd h hane
  have hfac : (wdoc i - v) * (wdoc i + v) = 0 := by linear_combination hsq
  rcases mul_eq_zero.mp hfac with h | h
  · linarith
  · have := hd0 i hi; linarith

/-- **ugla_step_is_local_gaussian_of_weights.**  `ugla_step_is_local_gaussian_partial` with its weight
    hypothesis discharged: under `D·location = 0` and `s² = 1/scale`, for the weights defined by the state
    `x_k` as the code computes them, UGLA's least-squares objective is `−2 log` of the documented local
    Gaussian approximation at `x_k`. -/
theorem ugla_step_is_local_gaussian_of_weights (U : Ugla F) (invScale beta : F) (xk wdoc : Vec F)
    (hs : U.s * U.s = invScale)
    (hw0 : ∀ i, i < U.p → 0 ≤ U.w i) (hw : ∀ i, i < U.p → U.weightResidual beta xk i = 0)
    (hd0 : ∀ i, i < U.p → 0 < wdoc i)
    (hd : ∀ i, i < U.p → wdoc i * wdoc i *
      (mulVec U.n U.D (fun j => xk j - U.loc j) i * mulVec U.n U.D (fun j => xk j - U.loc j) i + beta) = 1)
    (hloc : ∀ i, i < U.p → mulVec U.n U.D U.loc i = 0) (x : Vec F) :
    sumTo U.rows (fun i => (U.Mfwd x i - U.bTilde i) ^ 2) = U.docObjective invScale wdoc x :=
  ugla_step_is_local_gaussian_partial U invScale wdoc hs
    (ugla_weights_are_documented U beta xk wdoc hw0 hw hd0 hd hloc) hloc x

/-- the hypotheses are satisfiable: one difference row `D = (1, −1)`, state `x_k = (5/4, 1)`, `β = 0`, constant
    location `(2, 2)` (so `D·location = 0`): `(D x_k)² = 1/16`, `w = 2` (`w⁴/16 = 1`), `wdoc = 4 = w²`. -/
def exUw : Ugla ℚ :=
  { n := 2, lik := { m := 0, L := fun _ _ => 0, A := fun _ _ => 0, d := fun _ => 0 }, p := 1,
    D := fun _ j => if j = 0 then 1 else -1, loc := fun _ => 2, s := 1, w := fun _ => 2 }

example : ∀ i, i < 1 → (fun _ : ℕ => (4 : ℚ)) i = (2 : ℚ) * 2 :=
  ugla_weights_are_documented exUw 0 (fun j => if j = 0 then 5/4 else 1) (fun _ => 4)
    (fun _ _ => by norm_num [exUw]) (fun i hi => by norm_num [exUw, Ugla.weightResidual, mulVec, sumTo])
    (fun _ _ => by norm_num) (fun i hi => by norm_num [exUw, mulVec, sumTo]) (fun i hi => by norm_num [exUw, mulVec, sumTo])

end CuqiVerif.C06
