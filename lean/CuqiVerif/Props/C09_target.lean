import CuqiVerif.Model.C09_target
import CuqiVerif.Proofs.C09_target
import CuqiVerif.Props.C09
import CuqiVerif.Props.C01_full
import Mathlib.Data.List.GetD

/-!
# C09 — the object handed to a block sampler IS the joint conditioned on the current other blocks

`Props/C09.lean` proves which *keyword dictionary* the target of block `n` is built from
(`sweep_targets`: new values of the blocks before `n`, old values of the blocks after it).  This file
composes that with the executable model of `JointDistribution.__call__` / `_reduce_to_single_density`
(`Model/C01.lean`) through `Model/C09_target.lean` (`gibbsTarget`, `parNames`, `handed`, `handedAll`,
`sweepHanded` — the definitions the driver op `tg` runs): for **every well-formed model graph** `Fs`
(any number of variables, any dependence structure, uninterpreted factor log-densities with values in
any additive commutative monoid), every data assignment `σ₀` leaving at least two variables free, every
tuple of current values and every block `n`, the object a block sampler receives

* is built without an exception, has `n` as its only parameter, and is a `Distribution`, a `Posterior`
  or a `MultipleLikelihoodPosterior` according to the number of children of `n` in the graph;
* evaluates at every `v` — called positionally as the samplers do, or by keyword — to the **joint
  log-density at (data, the current values of all other blocks, block `n` := `v`)**, constants
  included.  As a function of `v` that is the (unnormalised) full conditional of block `n` given the
  most recent values of all other blocks: the first sentence of the property.

Hypothesis `C01.WF Fs`: unique names, every conditioning variable has a prior, no factor conditions on
itself, locality of the leaf log-densities.  Axioms ⊆ propext, Classical.choice, Quot.sound.
-/
namespace CuqiVerif.C09
open CuqiVerif.C01

set_option linter.unusedSectionVars false

variable {V K : Type} [AddCommMonoid K]

/-! ## the constructors: `self.target = target()`, `self.par_names` -/

/-- **gibbs_target_is_joint** — both constructors (`self.target = target()` applied to the user's
    `JointDistribution(*densities)(**data)`) hold, for every well-formed graph with at least two
    variables left free by the data, a plain `JointDistribution` over the conditioned densities;
    nothing raises; and `par_names` — the order in which every sweep visits the blocks — is the list
    of the variables the data leave free, in the order the user listed the densities. -/
theorem gibbs_target_is_joint (Fs : List (Factor V K)) (hw : WF Fs) (σ₀ : Kw V)
    (h2 : 2 ≤ (freeNames Fs σ₀).length) :
    gibbsTarget Fs σ₀ = .ok (.joint .plain (Fs.map (st σ₀))) ∧
      parNames (Obj.joint .plain (Fs.map (st σ₀))) = freeNames Fs σ₀ := by
  have hfresh : Fs.map fresh = Fs.map (st ([] : Kw V)) := by
    apply List.map_congr_left; intro F _; exact (st_fresh F).symm
  constructor
  · unfold gibbsTarget mkJoint
    rw [hfresh, jointCheck_st Fs hw []]
    simp only [Obj.cond]
    rw [condition_steps Fs hw.fok, List.nil_append, reduce_joint_of_two Fs σ₀ .plain h2]
    simp only
    rw [condition_steps Fs hw.fok, List.append_nil, reduce_joint_of_two Fs σ₀ .plain h2]
  · simp only [parNames, Obj.paramNames, jointNames_st, freeNames]

/-- the hypotheses are satisfiable: the docstring model, data `y`, three variables left free -/
example := gibbs_target_is_joint docFs docFs_wf [("y", [3, 1])] (by decide)

/-- **multi_block_target_accepted** — with at least two variables left free neither constructor objects to
    the class of the target: `validate_targets` passes (`isinstance(target, JointDistribution)`), every
    `self.target.get_density(n)` of `_get_initial_points` / `get_samples` exists — whether or not the block
    samplers were given initial points. -/
theorem multi_block_target_accepted (Fs : List (Factor V K)) (hw : WF Fs) (σ₀ : Kw V)
    (h2 : 2 ≤ (freeNames Fs σ₀).length) (given : Bool) :
    ∃ P, gibbsTarget Fs σ₀ = .ok P ∧ hybridTargetVerdict P given = none ∧ legacyTargetVerdict P = none :=
  ⟨_, (gibbs_target_is_joint Fs hw σ₀ h2).1, rfl, rfl⟩

example (given : Bool) := multi_block_target_accepted docFs docFs_wf [("y", [3, 1])] (by decide) given

/-- what the constructors make of a target, as one value (for the single-block corners below) -/
def verdicts (r : Except Err (Obj V K)) : Option (String × Option CErr × Option CErr × Option CErr) :=
  match r with
  | .ok P => some (P.kind, hybridTargetVerdict P false, hybridTargetVerdict P true, legacyTargetVerdict P)
  | .error _ => none

lemma reduce_flavor_indep (ds : List (Dens V K)) (fl : Flavor) (o : Obj V K)
    (h : reduce .plain ds = .ok o) (hk : o.kind ≠ "JointDistribution") : reduce fl ds = .ok o := by
  simp only [reduce] at h ⊢
  rcases hd : ds.filter Dens.isDist with _ | ⟨P, _ | ⟨P2, r⟩⟩ <;>
    rcases hl : ds.filter Dens.isLik with _ | ⟨L, _ | ⟨L2, r2⟩⟩ <;>
    simp only [hd, hl, List.length_nil, List.length_cons, gt_iff_lt] at h ⊢
  all_goals (norm_num at h ⊢)
  all_goals first
    | exact h
    | (cases h; simp [Obj.kind] at hk)
    | (split_ifs at h ⊢ <;> first | exact h | (cases h; simp [Obj.kind] at hk))
    | (cases P <;> simp at h ⊢ <;> exact h)

/-- the class `_reduce_to_single_density` returns for one free variable with `c` children -/
def classOfChildren (c : Nat) : String :=
  if c = 0 then "Distribution" else if c = 1 then "Posterior" else "MultipleLikelihoodPosterior"

/-- **single_block_target_class** — the single-block corner for EVERY well-formed graph: when the data leave
    exactly one variable `n` free, the object both constructors store (`target()` applied to the user's
    conditioned joint) is a `Distribution` / `Posterior` / `MultipleLikelihoodPosterior` according to the
    number of children of `n` (0 / 1 / ≥ 2), nothing raises while it is built, and it is an instance of
    `JointDistribution` iff `n` has at least two children. -/
theorem single_block_target_class (Fs : List (Factor V K)) (hw : WF Fs) (σ₀ : Kw V) (n : Name)
    (h1 : freeNames Fs σ₀ = [n]) :
    ∃ P, gibbsTarget Fs σ₀ = .ok P ∧ P.kind = classOfChildren (childrenOf Fs n).length ∧
      isJointInstance P = decide (2 ≤ (childrenOf Fs n).length) := by
  have hfresh : Fs.map fresh = Fs.map (st ([] : Kw V)) := by
    apply List.map_congr_left; intro F _; exact (st_fresh F).symm
  obtain ⟨o, ho, hr, hk, _⟩ := reduce_rep Fs hw σ₀ .plain (by decide)
  have hnd : (Fs.filter (fun F => (st σ₀ F).isDist)).length = 1 := by
    have := length_dists Fs σ₀
    rw [filter_isDist_map, List.length_map, h1] at this
    simpa using this
  have hkind : o.kind = classOfChildren (childrenOf Fs n).length := by
    rw [hk rfl, hnd, filter_isLik_of_one_free Fs hw σ₀ n h1]
    simp [branchKind, classOfChildren]
  have hstep : ∃ P, o.cond [] [] = .ok P ∧ P.kind = o.kind ∧ isJointInstance P = isJointInstance o := by
    cases hr with
    | joint fl hfl =>
      refine ⟨_, ?_, rfl, rfl⟩
      simp only [Obj.cond]
      rw [condition_steps Fs hw.fok, List.append_nil]
      exact reduce_flavor_indep _ fl _ ho (by
        rw [hkind]; unfold classOfChildren; split_ifs <;> decide)
    | post G H nm hD hL =>
      exact ⟨_, by simp [Obj.cond, condPost, parseDist, kwGet], rfl, rfl⟩
    | dist G hD hL =>
      refine ⟨.single (.dist G (bindEnv (penv G σ₀) (free G (penv G σ₀)) []) (0 + sumEvals 0 (Fs.map (st σ₀)))), ?_, rfl, rfl⟩
      simp [Obj.cond, condDens, condDist, parseDist, kwGet]
    | eval nm v c hv hall =>
      exfalso
      have : (Obj.single (Dens.eval nm v c) : Obj V K).kind = "EvaluatedDensity" := rfl
      rw [this] at hkind
      unfold classOfChildren at hkind
      split_ifs at hkind <;> exact absurd hkind (by decide)
  obtain ⟨P, hP, hPk, hPj⟩ := hstep
  refine ⟨P, ?_, by rw [hPk, hkind], ?_⟩
  · unfold gibbsTarget mkJoint
    rw [hfresh, jointCheck_st Fs hw []]
    simp only [Obj.cond]
    rw [condition_steps Fs hw.fok, List.nil_append, ho]
    exact hP
  · rw [hPj]
    cases o with
    | joint fl ds =>
      cases fl <;> simp only [Obj.kind, classOfChildren] at hkind <;> simp only [isJointInstance] <;>
        split_ifs at hkind <;> first | (exact absurd hkind (by decide)) | (simp; omega)
    | post L P c nm =>
      simp only [Obj.kind, classOfChildren] at hkind
      simp only [isJointInstance]
      split_ifs at hkind <;> first | (exact absurd hkind (by decide)) | (simp; omega)
    | single d =>
      cases d <;> simp only [Obj.kind, classOfChildren] at hkind <;> simp only [isJointInstance] <;>
        split_ifs at hkind <;> first | (exact absurd hkind (by decide)) | (simp; omega)
    | none =>
      simp only [Obj.kind, classOfChildren] at hkind
      split_ifs at hkind <;> exact absurd hkind (by decide)

/-- **single_block_verdicts** — hence `HybridGibbs.__init__` accepts a single-block target iff the block has
    at least two (observed) children — a `MultipleLikelihoodPosterior`, which is a joint —, and otherwise
    raises `AttributeError` (some sampler without initial point: `self.target.get_density`) or `ValueError`
    (`validate_targets`); legacy `Gibbs` raises `AttributeError` at its first `sample` in the same cases. -/
theorem single_block_verdicts (Fs : List (Factor V K)) (hw : WF Fs) (σ₀ : Kw V) (n : Name)
    (h1 : freeNames Fs σ₀ = [n]) (given : Bool) :
    ∃ P, gibbsTarget Fs σ₀ = .ok P ∧
      hybridTargetVerdict P given = (if 2 ≤ (childrenOf Fs n).length then none
        else if given then some .valueError else some .attributeError) ∧
      legacyTargetVerdict P = (if 2 ≤ (childrenOf Fs n).length then none else some .attributeError) := by
  obtain ⟨P, hP, _, hj⟩ := single_block_target_class Fs hw σ₀ n h1
  refine ⟨P, hP, ?_, ?_⟩
  · unfold hybridTargetVerdict; rw [hj]
    by_cases h : 2 ≤ (childrenOf Fs n).length <;> simp [h]
  · unfold legacyTargetVerdict; rw [hj]
    by_cases h : 2 ≤ (childrenOf Fs n).length <;> simp [h]

example (given : Bool) := single_block_verdicts mlpFs mlpFs_wf [("y1", [1]), ("y2", [2])] "x" (by decide) given

/-- the three classes on the two-data-set model `x`, `y1 | x`, `y2 | x`: both data sets observed →
    `MultipleLikelihoodPosterior`, accepted; one child → `Posterior`, no child → `Distribution`, refused -/
example :
    verdicts (gibbsTarget mlpFs [("y1", [1]), ("y2", [2])])
      = some ("MultipleLikelihoodPosterior", none, none, none) ∧
    verdicts (gibbsTarget (mlpFs.take 2) [("y1", [1])])
      = some ("Posterior", some .attributeError, some .valueError, some .attributeError) ∧
    verdicts (gibbsTarget (mlpFs.take 1) ([] : Kw (List Int)))
      = some ("Distribution", some .attributeError, some .valueError, some .attributeError) := by
  refine ⟨by decide, by decide, by decide⟩

/-- `get_samples` wraps the sweeps of block `x` of the docstring model in a geometry of dimension 2, those
    of `z` and `s` in one of dimension 1 -/
example : (["x", "z", "s"].map (samplesGeometryDim (Obj.joint .plain (docFs.map (st [("y", [3, 1])])))))
    = [some 2, some 1, some 1] := by decide

/-! ## one block -/

/-- **handed_target_is_conditional** — the object `self.target(**{m: current[m] for m ≠ n})` that
    `HybridGibbs._set_target` assigns to `samplers[n].target` and legacy `Gibbs.step` passes to the
    sampler class: it is built without an exception; `n` is its only parameter; it is a `Distribution`,
    a `Posterior` or a `MultipleLikelihoodPosterior` (never a joint, a lone likelihood or `None`); and
    its `logd` at every point `v`, called with the point as positional argument (what every sampler
    does) or as keyword `n = v`, is the joint log-density `total Fs` at the complete assignment
    *data ∪ current tuple with block `n` replaced by `v`* — not merely proportional to it: every
    constant contributed by the fixed variables is carried along. -/
theorem handed_target_is_conditional [Stackable V] (Fs : List (Factor V K)) (hw : WF Fs) (σ₀ : Kw V)
    (cur : Name → V) (n : Name) (hn : n ∈ freeNames Fs σ₀) :
    ∃ o, handed (Obj.joint .plain (Fs.map (st σ₀))) cur n = .ok o ∧
      o.paramNames = [n] ∧
      (o.kind = "Distribution" ∨ o.kind = "Posterior" ∨ o.kind = "MultipleLikelihoodPosterior") ∧
      ∀ v : V,
        o.logd [v] [] = .ok (total Fs (σ₀ ++ tuple (freeNames Fs σ₀) (upd cur n v))) ∧
        o.logd [] [(n, v)] = .ok (total Fs (σ₀ ++ tuple (freeNames Fs σ₀) (upd cur n v))) := by
  have hpn : parNames (Obj.joint .plain (Fs.map (st σ₀)) : Obj V K) = freeNames Fs σ₀ := by
    simp only [parNames, Obj.paramNames, jointNames_st, freeNames]
  obtain ⟨o, ho, hr, hk, _⟩ :=
    reduce_rep Fs hw (σ₀ ++ others (freeNames Fs σ₀) cur n) .plain (by decide)
  have hnames : o.paramNames = [n] := by
    rw [rep_paramNames Fs hw _ o hr, jointNames_st]
    exact freeNames_handed Fs hw σ₀ cur n hn
  refine ⟨o, ?_, hnames, ?_, ?_⟩
  · unfold handed
    rw [hpn]
    simp only [Obj.cond]
    rw [condition_steps Fs hw.fok, ho]
  · have hk' := hk rfl
    have hnd : (Fs.filter (fun F => (st (σ₀ ++ others (freeNames Fs σ₀) cur n) F).isDist)).length = 1 := by
      have := length_dists Fs (σ₀ ++ others (freeNames Fs σ₀) cur n)
      rw [filter_isDist_map, List.length_map, freeNames_handed Fs hw σ₀ cur n hn] at this
      simpa using this
    rw [hk', hnd]
    unfold branchKind
    simp only [if_true]
    split_ifs <;> simp
  · intro v
    constructor
    · have h := rep_logd_ok Fs hw _ o hr [v] []
        (by rw [hnames]; exact (not_refused_one n [v] []).2 (Or.inl ⟨v, rfl, rfl⟩))
      rw [h, hnames]
      simp only [List.nil_append, List.zip_cons_cons, List.zip_nil_right]
      rw [total_handed Fs hw σ₀ cur n v hn]
    · have h := rep_logd_ok Fs hw _ o hr [] [(n, v)]
        (by rw [hnames]; exact (not_refused_one n [] [(n, v)]).2 (Or.inr ⟨rfl, by simp [setEq, kwKeys]⟩))
      rw [h, hnames]
      simp only [List.zip_nil_right, List.append_nil]
      rw [total_handed Fs hw σ₀ cur n v hn]

/-- the hypotheses are satisfiable: the hierarchical model of the `JointDistribution` docstring with
    one more hyper-parameter (`y | x, s`, `x | z`, `z`, `s`; data `y`), block `z` -/
example (cur : Name → List Int) :=
  handed_target_is_conditional docFs docFs_wf [("y", [3, 1])] cur "z" (by decide)

/-- … and the value in a concrete state: the target handed to block `x` while `z = [5]`, `s = [2]`,
    evaluated at `[1, 0]`, is the joint log-density `-22` of `C01`'s worked example -/
example :
    (match handed (Obj.joint .plain (docFs.map (st [("y", [3, 1])])))
        (fun m => if m = "z" then [5] else if m = "s" then [2] else [7, 7]) "x" with
      | .ok o => (match o.logd [[1, 0]] [] with | .ok r => r | .error _ => 0)
      | .error _ => 0) = -22 := by decide

/-- **handed_target_class** — which class the block sampler sees is decided by the model graph alone,
    not by the data or the current values: with `c` = number of factors that have `n` among their
    conditioning variables (the children of `n`, observed ones included), the handed object is a
    `Distribution` (`c = 0`: the conditional of a childless block is its own prior given its parents),
    a `Posterior` (`c = 1`) or a `MultipleLikelihoodPosterior` (`c ≥ 2`). -/
theorem handed_target_class (Fs : List (Factor V K)) (hw : WF Fs) (σ₀ : Kw V)
    (cur : Name → V) (n : Name) (hn : n ∈ freeNames Fs σ₀) :
    ∃ o, handed (Obj.joint .plain (Fs.map (st σ₀))) cur n = .ok o ∧
      o.kind = (if (childrenOf Fs n).length = 0 then "Distribution"
                else if (childrenOf Fs n).length = 1 then "Posterior"
                else "MultipleLikelihoodPosterior") := by
  have hpn : parNames (Obj.joint .plain (Fs.map (st σ₀)) : Obj V K) = freeNames Fs σ₀ := by
    simp only [parNames, Obj.paramNames, jointNames_st, freeNames]
  obtain ⟨o, ho, _, hk, _⟩ :=
    reduce_rep Fs hw (σ₀ ++ others (freeNames Fs σ₀) cur n) .plain (by decide)
  refine ⟨o, ?_, ?_⟩
  · unfold handed
    rw [hpn]
    simp only [Obj.cond]
    rw [condition_steps Fs hw.fok, ho]
  · have hnd : (Fs.filter (fun F => (st (σ₀ ++ others (freeNames Fs σ₀) cur n) F).isDist)).length = 1 := by
      have := length_dists Fs (σ₀ ++ others (freeNames Fs σ₀) cur n)
      rw [filter_isDist_map, List.length_map, freeNames_handed Fs hw σ₀ cur n hn] at this
      simpa using this
    rw [hk rfl, hnd, filter_isLik_of_one_free Fs hw _ n (freeNames_handed Fs hw σ₀ cur n hn)]
    simp [branchKind]

/-- in the docstring model block `z` has the single child `x`: a `Posterior` -/
example : (match handed (Obj.joint .plain (docFs.map (st [("y", [3, 1])])))
      (fun _ => ([1] : List Int)) "z" with | .ok o => o.kind | .error _ => "error") = "Posterior" := by
  decide

/-- two data sets over one parameter plus a second free variable `w | x` (childless): block `x` has
    three children and receives a `MultipleLikelihoodPosterior`, block `w` a plain `Distribution` -/
example :
    let Fs : List (Factor (List Int) Int) := mlpFs ++ [⟨"w", ["x"], 1, fun _ => 0⟩]
    let P : Obj (List Int) Int := .joint .plain (Fs.map (st [("y1", [1]), ("y2", [2])]))
    (handedAll P (fun _ => [0])).map (fun p => (p.1, match p.2 with | .ok o => o.kind | .error _ => "error"))
      = [("x", "MultipleLikelihoodPosterior"), ("w", "Distribution")] := by
  decide

/-! ## along a sweep -/

/-- **sweep_block_is_drawn_from_conditional** (HybridGibbs) — compose `sweep_targets` with
    `handed_target_is_conditional`: in every sweep of the scheduling model over the free variables of
    a well-formed graph, the target the sampler of block `n` holds while it is advanced — built from
    the values current when the update of `n` starts — evaluates at every `v` to the joint log-density
    at: the data, the values **after this sweep** of the blocks before `n`, the values **before this
    sweep** of the blocks after `n`, and `v` for `n`.  For every graph, every list of draws, every
    sampler assignment and step counts. -/
theorem sweep_block_is_drawn_from_conditional [Stackable V] (Fs : List (Factor V K)) (hw : WF Fs)
    (σ₀ : Kw V) (ds : Nat → Draw V) (g : HG Name V) (pre post : List Name) (n : Name)
    (hg : g.names = freeNames Fs σ₀) (hn : g.names = pre ++ n :: post) :
    ∃ o, handed (Obj.joint .plain (Fs.map (st σ₀))) (sweepL ds pre g).cur n = .ok o ∧
      o.paramNames = [n] ∧
      ∀ v : V, o.logd [v] [] = .ok (total Fs (σ₀ ++ tuple g.names
        (fun m => if m = n then v else if m ∈ pre then (sweep ds g).cur m else g.cur m))) := by
  have hmem : n ∈ freeNames Fs σ₀ := by rw [← hg, hn]; simp
  have hnd : g.names.Nodup := by rw [hg]; exact freeNames_nodup Fs hw σ₀
  obtain ⟨o, ho, hp, _, hl⟩ := handed_target_is_conditional Fs hw σ₀ (sweepL ds pre g).cur n hmem
  refine ⟨o, ho, hp, fun v => ?_⟩
  rw [(hl v).1, ← hg]
  congr 3
  unfold tuple
  apply List.map_congr_left
  intro m hm
  congr 1
  unfold upd
  by_cases hmn : m = n
  · simp [hmn]
  · simp only [hmn, if_false]
    by_cases hpre : m ∈ pre
    · simp only [hpre, if_true]
      rw [sweep_eq_sweepL, hn, sweepL_append]
      have hdis : m ∉ n :: post := by
        rw [hn] at hnd
        exact fun h => (List.disjoint_of_nodup_append hnd) hpre h
      rw [sweepL_cur_of_not_mem _ _ _ _ hdis]
    · simp only [hpre, if_false]
      rw [sweepL_cur_of_not_mem ds pre g m hpre]

/-- the hypotheses are satisfiable: the docstring model (blocks `x`, `z`, `s` in density order), the
    middle block, any stream of draws and any sampler kinds / step counts -/
example (ds : Nat → Draw (List Int)) (nsteps : Name → Option Int) (init : Name → List Int)
    (flags : Name → Bool × Bool × Bool) :=
  sweep_block_is_drawn_from_conditional docFs docFs_wf [("y", [3, 1])] ds
    (construct ["x", "z", "s"] nsteps init flags) ["x"] ["s"] "z"
    (by show ["x", "z", "s"] = freeNames docFs [("y", [3, 1])]; decide) rfl

/-- **run_block_is_drawn_from_conditional** — the same along a whole run: in sweep number `j + 1` of
    `sample(k)` (or, by `warmup_values_eq_sample`, of a warm-up) the target of block `n` evaluates to the
    joint log-density at the data, the values stored after sweep `j + 1` for the blocks before `n`, the
    values stored after sweep `j` (the previous stored tuple; the initial points for `j = 0`) for the blocks
    after `n`, and the point — the chain of stored tuples is a Gibbs chain on the joint target. -/
theorem run_block_is_drawn_from_conditional [Stackable V] (Fs : List (Factor V K)) (hw : WF Fs)
    (σ₀ : Kw V) (ds : Nat → Draw V) (g : HG Name V) (j : Nat) (pre post : List Name) (n : Name)
    (hg : g.names = freeNames Fs σ₀) (hn : g.names = pre ++ n :: post) :
    ∃ o, handed (Obj.joint .plain (Fs.map (st σ₀))) (sweepL ds pre (sampleN ds j g)).cur n = .ok o ∧
      o.paramNames = [n] ∧
      ∀ v : V, o.logd [v] [] = .ok (total Fs (σ₀ ++ tuple g.names
        (fun m => if m = n then v else if m ∈ pre then (sampleN ds (j + 1) g).cur m
                  else (sampleN ds j g).cur m))) := by
  have h := sweep_block_is_drawn_from_conditional Fs hw σ₀ ds (sampleN ds j g) pre post n
    (by rw [sampleN_names]; exact hg) (by rw [sampleN_names]; exact hn)
  rw [sampleN_names] at h
  have hs : (sweep ds (sampleN ds j g)).cur = (sampleN ds (j + 1) g).cur := by
    rw [sampleN_succ']; rfl
  rw [hs] at h
  exact h

example (ds : Nat → Draw (List Int)) (nsteps : Name → Option Int) (init : Name → List Int)
    (flags : Name → Bool × Bool × Bool) :=
  run_block_is_drawn_from_conditional docFs docFs_wf [("y", [3, 1])] ds
    (construct ["x", "z", "s"] nsteps init flags) 4 ["x"] ["s"] "z"
    (by show ["x", "z", "s"] = freeNames docFs [("y", [3, 1])]; decide) rfl

/-- **legacy_block_is_drawn_from_conditional** — the same for legacy `Gibbs.step` (`lsweep`): the
    target of the fresh sampler built for block `n` evaluates to the joint log-density at the data,
    the new values of the blocks before `n`, the old values of those after it, and the point. -/
theorem legacy_block_is_drawn_from_conditional [Stackable V] (Fs : List (Factor V K)) (hw : WF Fs)
    (σ₀ : Kw V) (ds : Nat → V) (names pre post : List Name) (n : Name)
    (st₀ : (Name → V) × Nat × List (LEv Name V))
    (hg : names = freeNames Fs σ₀) (hn : names = pre ++ n :: post) :
    ∃ o, handed (Obj.joint .plain (Fs.map (st σ₀))) (lsweepL ds names pre st₀).1 n = .ok o ∧
      o.paramNames = [n] ∧
      ∀ v : V, o.logd [v] [] = .ok (total Fs (σ₀ ++ tuple names
        (fun m => if m = n then v else if m ∈ pre then (lsweep ds names st₀).1 m else st₀.1 m))) := by
  have hmem : n ∈ freeNames Fs σ₀ := by rw [← hg, hn]; simp
  have hnd : names.Nodup := by rw [hg]; exact freeNames_nodup Fs hw σ₀
  obtain ⟨o, ho, hp, _, hl⟩ := handed_target_is_conditional Fs hw σ₀ (lsweepL ds names pre st₀).1 n hmem
  refine ⟨o, ho, hp, fun v => ?_⟩
  rw [(hl v).1, ← hg]
  congr 3
  unfold tuple
  apply List.map_congr_left
  intro m hm
  congr 1
  unfold upd
  by_cases hmn : m = n
  · simp [hmn]
  · simp only [hmn, if_false]
    by_cases hpre : m ∈ pre
    · simp only [hpre, if_true]
      have hdis : m ∉ n :: post := by
        rw [hn] at hnd
        exact fun h => (List.disjoint_of_nodup_append hnd) hpre h
      have : lsweep ds names st₀ = lsweepL ds names (n :: post) (lsweepL ds names pre st₀) := by
        rw [lsweep_eq_lsweepL]
        conv_lhs => rw [hn]
        rw [hn]
        exact lsweepL_append ds _ pre (n :: post) st₀
      rw [this, lsweepL_cur_of_not_mem _ _ _ _ _ hdis]
    · simp only [hpre, if_false]
      rw [lsweepL_cur_of_not_mem ds _ pre st₀ m hpre]

example (ds : Nat → List Int) (st₀ : (Name → List Int) × Nat × List (LEv Name (List Int))) :=
  legacy_block_is_drawn_from_conditional docFs docFs_wf [("y", [3, 1])] ds ["x", "z", "s"] ["x", "z"] [] "s" st₀
    (by decide) rfl

/-- **sweepHanded_eq** — the executable list of targets handed along a sweep (`sweepHanded`, the fold
    next to `blockUpdate`) is, block by block, `handed` at the state reached after the blocks before:
    the objects of the two theorems above are the ones the model computes. -/
theorem sweepHanded_eq (P : Obj V K) (ds : Nat → Draw V) (g : HG Name V) :
    sweepHanded P ds g
      = (List.range g.names.length).map (fun i =>
          (g.names.getD i "", handed P (sweepL ds (g.names.take i) g).cur (g.names.getD i ""))) := by
  unfold sweepHanded
  have key : ∀ (l : List Name) (acc : HG Name V × List (Name × Except Err (Obj V K))),
      (l.foldl (fun (acc : HG Name V × List (Name × Except Err (Obj V K))) n =>
        (blockUpdate ds acc.1 n, acc.2 ++ [(n, handed P acc.1.cur n)])) acc)
      = (sweepL ds l acc.1, acc.2 ++ (List.range l.length).map (fun i =>
          (l.getD i "", handed P (sweepL ds (l.take i) acc.1).cur (l.getD i "")))) := by
    intro l
    induction l with
    | nil => intro acc; simp [sweepL]
    | cons a r ih =>
      intro acc
      rw [List.foldl_cons, ih]
      simp only [sweepL, List.foldl_cons, List.length_cons, List.range_succ_eq_map, List.map_cons,
        List.map_map, List.append_assoc, List.singleton_append]
      congr 2
  rw [key]
  simp

/-- **sweepHanded_all_conditionals** — every entry of the executable list of objects handed along a sweep
    (`sweepHanded`, what the driver's model computes next to `blockUpdate`) is built without exception, is
    listed under its block in `par_names` order, and has that block as its only parameter: no block of a
    sweep is ever handed a joint, another block's conditional or an error. -/
theorem sweepHanded_all_conditionals [Stackable V] (Fs : List (Factor V K)) (hw : WF Fs) (σ₀ : Kw V)
    (ds : Nat → Draw V) (g : HG Name V) (hg : g.names = freeNames Fs σ₀) :
    (sweepHanded (Obj.joint .plain (Fs.map (st σ₀))) ds g).map (·.1) = g.names ∧
    ∀ p ∈ sweepHanded (Obj.joint .plain (Fs.map (st σ₀))) ds g,
      ∃ o, p.2 = .ok o ∧ o.paramNames = [p.1] := by
  rw [sweepHanded_eq]
  constructor
  · apply List.ext_getElem
    · simp
    · intro i h1 h2
      simp only [List.getElem_map, List.getElem_range]
      rw [List.getD_eq_getElem _ _ h2]
  · intro p hp
    simp only [List.mem_map, List.mem_range] at hp
    obtain ⟨i, hi, rfl⟩ := hp
    have hmem : g.names.getD i "" ∈ freeNames Fs σ₀ := by
      rw [← hg, List.getD_eq_getElem _ _ hi]; exact List.getElem_mem _
    obtain ⟨o, ho, hp, _, _⟩ := handed_target_is_conditional Fs hw σ₀ (sweepL ds (g.names.take i) g).cur _ hmem
    exact ⟨o, ho, hp⟩

example (ds : Nat → Draw (List Int)) (nsteps : Name → Option Int) (init : Name → List Int)
    (flags : Name → Bool × Bool × Bool) :=
  sweepHanded_all_conditionals docFs docFs_wf [("y", [3, 1])] ds (construct ["x", "z", "s"] nsteps init flags)
    (by show ["x", "z", "s"] = freeNames docFs [("y", [3, 1])]; decide)

end CuqiVerif.C09
