import CuqiVerif.Proofs.C11_geom

/-!
# C11 — the lazily inferred default geometry (`Model/C11_geom.lean`)

`Distribution.geometry` is the one evaluation in the anchored code that re-binds an attribute of
the object it is applied to (`self.geometry = inferred_dim` when no dimension was given).  The
theorems are about the executable definitions the driver runs (`geo` protocol): `s.run op` is one
of condition / `.dim` / gradient / sample / logd / model(dist) on any address of any heap `s`
whose geometry references are inside the heap (`WF`), `s.runAll ops` any sequence of any length.

What is proved: geometry objects are immutable in their dimension and distributions in their
parameters (so sharing the geometry object between a copy and its original is harmless); the only
re-binding is of the receiver's own undetermined default geometry to the dimension inferred from
its own parameters; what `dist.dim` reports for an existing object never depends on the history;
with explicit geometries the getter is a no-op (the assumption of `Model/C11.lean`); for fully
specified objects the lazy inference is invisible.  What is FALSE (faithful to the code, proposed
known finding `lazy-geometry:premature-inference`): for a still conditional object the inference
uses only part of the parameters, the re-bound geometry is inherited by later copies, and these
report / refuse a different dimension (`premature_inference_counterexample`); the exact side
condition is `condDim_history_independent_partial`.
-/
namespace CuqiVerif.C11.Geo

/-- a Gamma `d ~ Gamma(shape = f(v5), rate = 1.0)` built without a geometry (object 0, geometry 0 undetermined) and a
    model with a 4-dimensional domain -/
def exLazy : St :=
  { nD := 1, dist := fun _ => ⟨.gamma, 7, 0, [.fn [5] 0, .val 1]⟩, nG := 1, geo := fun _ => ⟨none, none⟩,
    nM := 1, mdl := fun _ => ⟨4, []⟩, log := [] }

lemma exLazy_wf : WF exLazy := by
  intro a ha
  show (0 : Nat) < 1
  decide

/-- **geometry_dims_immutable.**  No operation sequence changes the dimension of a geometry object that exists:
    `_DefaultGeometry1D` / user geometries are never updated in place, whoever shares them (a conditioned copy shares
    the geometry OBJECT of its original). -/
theorem geometry_dims_immutable (s : St) (hw : WF s) (ops : List Op) (g : Nat) (hg : g < s.nG) :
    ((s.runAll ops).geo g).dim = (s.geo g).dim :=
  (runAll_frame hw ops).gdim g hg

example : ((exLazy.runAll [.dim 0, .cond 0 [(5, 4)], .dim 1]).geo 0).dim = none :=
  geometry_dims_immutable exLazy exLazy_wf _ 0 (by decide)

/-- **parameters_immutable.**  No operation sequence changes the mutable variables, the family or the name of an
    existing distribution (conditioning writes the copy), nor any existing model. -/
theorem parameters_immutable (s : St) (hw : WF s) (ops : List Op) :
    (∀ a, a < s.nD → ((s.runAll ops).dist a).slots = (s.dist a).slots ∧ ((s.runAll ops).dist a).fam = (s.dist a).fam
        ∧ ((s.runAll ops).dist a).name = (s.dist a).name) ∧
    (∀ m, m < s.nM → (s.runAll ops).mdl m = s.mdl m) :=
  ⟨(runAll_frame hw ops).pars, (runAll_frame hw ops).mdl⟩

example : ((exLazy.runAll [.cond 0 [(5, 4)], .dim 1, .dim 0]).dist 0).slots = [.fn [5] 0, .val 1] :=
  ((parameters_immutable exLazy exLazy_wf _).1 0 (by decide)).1

/-- **rebinding_only_undetermined.**  After any sequence, the `_geometry` of an existing distribution is the object
    it was, or — only if that object's dimension was undetermined and a dimension can be inferred from the
    distribution's own parameters — a geometry allocated during the sequence whose dimension is exactly that inferred
    dimension.  (The write `self.geometry = inferred_dim` is the only non-fresh, non-cache attribute write of the write
    table; this is its complete description.) -/
theorem rebinding_only_undetermined (s : St) (hw : WF s) (ops : List Op) (a : Nat) (ha : a < s.nD) :
    ((s.runAll ops).dist a).geo = (s.dist a).geo ∨
    ((s.geo (s.dist a).geo).dim = none ∧ inferred (s.dist a).slots ≠ none ∧ s.nG ≤ ((s.runAll ops).dist a).geo ∧
      ((s.runAll ops).geo ((s.runAll ops).dist a).geo).dim = inferred (s.dist a).slots) :=
  (runAll_frame hw ops).geo a ha

example : ((exLazy.runAll [.dim 0]).dist 0).geo = 1 ∧ ((exLazy.runAll [.dim 0]).geo 1).dim = some 1 := by decide

/-- **only_the_receiver.**  An existing distribution to which no operation of the sequence is applied is literally
    unchanged (family, name, parameters AND the geometry it is bound to), whatever is done to its copies, its
    original, its siblings or anything else: the getter re-binds `self` only. -/
theorem only_the_receiver (s : St) (hw : WF s) (ops : List Op) (a : Nat) (ha : a < s.nD) (h : ∀ op ∈ ops, op.recv ≠ a) :
    (s.runAll ops).dist a = s.dist a :=
  runAll_other hw ops a ha h

example : (exLazy.runAll [.cond 0 [(5, 4)], .dim 1, .sample 1, .grad 1]).dist 0 = exLazy.dist 0 := by decide

/-- **conditioning_never_rebinds.**  `dist(**kw)` and `dist.logd(...)` of a conditional distribution leave every
    existing distribution — the receiver included — literally unchanged (the evaluation happens on the copy). -/
theorem conditioning_never_rebinds (s : St) (a : Nat) (kw : Kw) (b : Nat) (hb : b < s.nD) :
    (s.run (.cond a kw)).1.dist b = s.dist b := by
  unfold St.run
  split
  · exact condOp_old s a kw b hb
  · rfl

example : (exLazy.run (.cond 0 [(5, 4)])).2 = .objD 1 ∧ (exLazy.run (.cond 0 [(5, 4)])).1.dist 0 = exLazy.dist 0 := by decide

/-- **dim_history_independent.**  What `dist.dim` reports (a dimension, `TypeError` or `ValueError`) for an existing
    distribution is the same after any sequence of operations as before it: the value is a function of the object's
    own immutable parameters and of the dimension of the geometry it was given (`dimFn`), and the lazily bound geometry
    carries exactly the dimension that would be inferred again.  In this sense the cache is benign for the object itself. -/
theorem dim_history_independent (s : St) (hw : WF s) (ops : List Op) (a : Nat) (ha : a < s.nD) :
    ((s.runAll ops).dimOp a).2 = (s.dimOp a).2 := by
  rw [dimOp_res, dimOp_res]
  exact (runAll_frame hw ops).dimFn_eq hw a ha

example : ((exLazy.runAll [.dim 0, .grad 0, .apply 0 0]).dimOp 0).2 = .dim 1 ∧ (exLazy.dimOp 0).2 = .dim 1 := by decide

/-- the getter is idempotent in its result (instance of `dim_history_independent`) -/
theorem getter_idempotent (s : St) (hw : WF s) (a : Nat) (ha : a < s.nD) :
    ((s.dimOp a).1.dimOp a).2 = (s.dimOp a).2 := by
  have h := dim_history_independent s hw [.dim a] a ha
  simp only [St.runAll, St.run, Op.recv, ha, if_true] at h
  exact h

/-- **condDim_history_independent (`_partial`).**  FULL STATEMENT (false for the code, see the counterexample below):
    `∀ s ops a kw, (s.runAll ops).condDim a kw = s.condDim a kw` — the dimension reported by a copy `a(**kw)` made after
    any sequence is the one reported by the same copy made before it.
    PROVED under the side condition the proof forces, which is exact: the geometry of `a` is determined (the user passed
    `geometry=`, or it was inferred earlier) or nothing can be inferred from the parameters `a` has now. -/
theorem condDim_history_independent_partial (s : St) (hw : WF s) (ops : List Op) (a : Nat) (ha : a < s.nD) (kw : Kw)
    (hside : s.determined a = true ∨ inferred (s.dist a).slots = none) :
    (s.runAll ops).condDim a kw = s.condDim a kw := by
  have hf := runAll_frame hw ops
  rw [condDim_eq hf.wf a (Nat.lt_of_lt_of_le ha hf.nD), condDim_eq hw a ha, (hf.pars a ha).1]
  rcases hf.geo a ha with k | ⟨u, i, _, _⟩
  · rw [k, hf.gdim _ (hw a ha)]
  · rcases hside with hd | hi
    · unfold St.determined at hd
      rw [u] at hd
      exact absurd hd (by decide)
    · exact absurd hi i

/-- a distribution with BOTH parameters callable, no geometry: nothing can be inferred, the side condition holds -/
def exNothing : St :=
  { nD := 1, dist := fun _ => ⟨.normal, 7, 0, [.fn [5] 0, .fn [6] 0]⟩, nG := 1, geo := fun _ => ⟨none, none⟩,
    nM := 0, mdl := fun _ => ⟨0, []⟩, log := [] }

example : exNothing.determined 0 = true ∨ inferred (exNothing.dist 0).slots = none := Or.inr (by decide)
example : (exNothing.runAll [.dim 0, .grad 0]).condDim 0 [(5, 4), (6, 1)] = .dim 4 := by decide

/-- the same with a Cauchy (its `gradient` reads the geometry before refusing conditional distributions) -/
def exLazyCauchy : St := { exLazy with dist := fun _ => ⟨.cauchy, 7, 0, [.fn [5] 0, .val 1]⟩ }

/-- **premature_inference_counterexample** — the negation of the full statement, faithful to the code (reproduced on
    the real library: `d = Gamma(lambda a: a, 1.0)`; `d(a=np.ones(4)).dim == 4`, but after `d.dim` — or a refused
    `Beta/Cauchy/InverseGamma.gradient`, or `model(d)` — the same conditioning raises `TypeError`): the dimension 1
    inferred from the scalar rate alone is bound to the still conditional original and inherited by its copies. -/
theorem premature_inference_counterexample :
    exLazy.condDim 0 [(5, 4)] = .dim 4 ∧
    (exLazy.runAll [.dim 0]).condDim 0 [(5, 4)] = .err .typeError ∧
    (exLazy.runAll [.apply 0 0]).condDim 0 [(5, 4)] = .err .typeError ∧
    (exLazyCauchy.gradOp 0).2 = .err .notImplemented ∧
    (exLazyCauchy.runAll [.grad 0]).condDim 0 [(5, 4)] = .err .typeError := by
  decide

/-- **fully_specified_benign.**  For a distribution all of whose parameters are values (what `sample` demands, what
    every conjugate / Gibbs target is) the lazy inference is invisible: after any sequence every copy `a(**kw)` reports
    the dimension it would have reported before — no side condition. -/
theorem fully_specified_benign (s : St) (hw : WF s) (ops : List Op) (a : Nat) (ha : a < s.nD) (kw : Kw)
    (hv : (s.dist a).slots.all MV.isVal = true) :
    (s.runAll ops).condDim a kw = s.condDim a kw := by
  have hf := runAll_frame hw ops
  rw [condDim_eq hf.wf a (Nat.lt_of_lt_of_le ha hf.nD), condDim_eq hw a ha, (hf.pars a ha).1, map_condSlot_vals kw _ hv]
  have h := hf.dimFn_eq hw a ha
  rw [(hf.pars a ha).1] at h
  exact h

/-- a fully specified Gamma without geometry: rate vector of length 3 -/
def exFull : St :=
  { nD := 1, dist := fun _ => ⟨.gamma, 7, 0, [.val 1, .val 3]⟩, nG := 1, geo := fun _ => ⟨none, none⟩,
    nM := 0, mdl := fun _ => ⟨0, []⟩, log := [] }

example : (exFull.dist 0).slots.all MV.isVal = true := by decide
example : (exFull.runAll [.sample 0, .dim 0]).condDim 0 [] = .dim 3 ∧ exFull.condDim 0 [] = .dim 3 := by decide

/-- **sample_rebinds_only_final.**  `sample` reads the geometry only after its refusal of conditional distributions:
    if it changed its receiver at all, the receiver has no conditioning variables. -/
theorem sample_rebinds_only_final (s : St) (a : Nat) (h : (s.sampleOp a).1.dist a ≠ s.dist a) : isCond (s.dist a) = false := by
  unfold St.sampleOp at h
  split at h
  · exact absurd rfl h
  · next hc => simpa using hc

/-- **explicit_geometry_frame.**  If every geometry in the heap is determined (every distribution was given a
    geometry or a dimension — the assumption under which `Model/C11.lean` leaves the getter out), then for every
    sequence of operations every existing distribution is literally unchanged, and the invariant is preserved: the
    getter is a no-op up to the label `_variable_name`. -/
theorem explicit_geometry_frame (s : St) (hw : WF s) (hall : s.allDetermined) (ops : List Op) :
    (s.runAll ops).allDetermined ∧ ∀ a, a < s.nD → (s.runAll ops).dist a = s.dist a := by
  have hf := runAll_frame hw ops
  constructor
  · intro g hg
    by_cases hlt : g < s.nG
    · rw [hf.gdim g hlt]; exact hall g hlt
    · exact hf.newG g (by omega) hg
  · intro a ha
    obtain ⟨p1, p2, p3⟩ := hf.pars a ha
    rcases hf.geo a ha with k | ⟨u, _, _, _⟩
    · cases hd : (s.runAll ops).dist a with
      | mk f n g sl =>
        cases hd0 : s.dist a with
        | mk f0 n0 g0 sl0 =>
          rw [hd, hd0] at p1 p2 p3 k
          simp only at p1 p2 p3 k
          rw [p1, p2, p3, k]
    · exact absurd u (hall _ (hw a ha))

/-- a Gamma with callable shape and an explicit geometry of dimension 4 -/
def exExplicit : St :=
  { nD := 1, dist := fun _ => ⟨.gamma, 7, 0, [.fn [5] 0, .val 1]⟩, nG := 1, geo := fun _ => ⟨some 4, none⟩,
    nM := 1, mdl := fun _ => ⟨4, []⟩, log := [] }

example : exExplicit.allDetermined := by
  intro g hg
  show (some 4 : Option Nat) ≠ none
  simp
example : (exExplicit.runAll [.dim 0, .apply 0 0, .grad 0]).condDim 0 [(5, 4)] = .dim 4 := by decide

/-- **explicit_geometry_writes_are_labels** (bridge to the heap model of `Model/C11.lean`).  The heap model leaves the
    geometry getter out and declares a geometry's `_variable_name` a benign cache (`Fld.vname`).  This is conservative:
    if every geometry is determined, then for every sequence of operations of the getter model EVERY logged attribute
    write is a `_variable_name` label — no `_geometry` is ever re-bound — so adding the getter to the heap model's
    operations adds writes to a benign field only, which all its frame theorems already allow. -/
theorem explicit_geometry_writes_are_labels (s : St) (hw : WF s) (hall : s.allDetermined) (ops : List Op) :
    ∃ l, (s.runAll ops).log = l ++ s.log ∧ ∀ w ∈ l, ∃ g, w = Wr.geoVname g :=
  runAll_lab hw hall ops

example : (exExplicit.runAll [.dim 0, .apply 0 0, .grad 0]).log = [.geoVname 0, .geoVname 0] := by decide

end CuqiVerif.C11.Geo
