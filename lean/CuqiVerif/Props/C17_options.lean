import CuqiVerif.Model.C17_options
import Mathlib.Logic.Basic
import Mathlib.Tactic.Common

/-!
# C17 — which option combinations `Deconvolution1D` accepts (`Model/C17_options.lean`)
-/

set_option linter.unusedVariables false
set_option linter.unusedSimpArgs false

namespace CuqiVerif.C17
open CuqiVerif.C07

/-- the documented conditions on the forward-model options -/
def ForwardDocumented (o : D1Opts) : Prop :=
  if o.legacy then
    o.bc = "periodic" ∧ o.psfSize = none ∧ o.dim % 2 = 0 ∧
      (match o.psf with
       | .array nd len => nd = 1 ∧ len = o.dim
       | .str s => s.toLower ∈ legacyPsfNames
       | .other => False)
  else
    (bc1d o.bc.toLower).isSome ∧
      (match o.psf with
       | .array nd _ => nd = 1
       | .str s => (psfName s.toLower).isSome ∧ ¬ (psfName s.toLower = some .defocus ∧ o.psfParamZero = true)
       | .other => False)

def PhantomDocumented (o : D1Opts) : Prop :=
  match o.phantom with
  | .array nd len => nd = 1 ∧ len = o.dim
  | .str s => s.toLower ∈ phantomNames ∧ o.phantomRefused = false
  | .other => False

/-- **deconv1d_constructed_iff.**  `Deconvolution1D(…)` raises nothing in its option handling exactly
    when: (non-legacy) the boundary condition is one of the five documented names in any letter case and
    the PSF is a 1-D array or one of `gauss/moffat/defocus` (any case; not `defocus` with
    `PSF_param = 0` — known finding); (legacy) `BC` is literally `"periodic"`, no `PSF_size`, even `dim`,
    PSF a 1-D array of length `dim` or one of `gauss/sinc/prolate/vonmises`; the phantom is a 1-D array of
    length `dim` or a documented name whose generator does not refuse; the noise type is
    `gaussian`/`scaledgaussian` in any case.  All option records, no exceptions. -/
theorem deconv1d_constructed_iff (o : D1Opts) :
    deconv1dRefusal o = none ↔ ForwardDocumented o ∧ PhantomDocumented o ∧ (noiseType o.noise.toLower).isSome := by
  have hf : forwardRefusal o = none ↔ ForwardDocumented o := by
    unfold forwardRefusal ForwardDocumented
    by_cases hl : o.legacy = true
    · simp only [hl, if_true]
      by_cases h1 : o.bc = "periodic"
      · by_cases h2 : o.psfSize = none
        · by_cases h3 : o.dim % 2 = 0
          · cases hp : o.psf with
            | array nd len => by_cases a : nd = 1 <;> by_cases b : len = o.dim <;> simp [h1, h2, h3, hp, a, b]
            | str s => by_cases a : legacyPsfNames.contains s.toLower = true <;> simp_all
            | other => simp [h1, h2, h3, hp]
          · simp [h1, h2, h3]
        · have : o.psfSize.isSome = true := by cases h : o.psfSize <;> simp_all
          simp [h1, h2, this]
      · simp [h1]
    · have hl' : o.legacy = false := by cases h : o.legacy <;> simp_all
      simp only [hl', Bool.false_eq_true, if_false]
      by_cases h1 : (bc1d o.bc.toLower).isNone = true
      · have : (bc1d o.bc.toLower).isSome = false := by cases h : bc1d o.bc.toLower <;> simp_all
        simp [h1, this]
      · have h1' : (bc1d o.bc.toLower).isSome = true := by cases h : bc1d o.bc.toLower <;> simp_all
        cases hp : o.psf with
        | array nd len => by_cases a : nd = 1 <;> simp [h1, h1', hp, a]
        | str s =>
          cases hn : psfName s.toLower with
          | none => simp [h1, h1', hp, hn]
          | some nm =>
            cases nm <;> cases hz : o.psfParamZero <;> simp [h1, h1', hp, hn, hz]
        | other => simp [h1, h1', hp]
  have hp : phantomRefusal o = none ↔ PhantomDocumented o := by
    unfold phantomRefusal PhantomDocumented
    cases hph : o.phantom with
    | array nd len => by_cases a : nd = 1 <;> by_cases b : len = o.dim <;> simp [a, b]
    | str s => by_cases a : phantomNames.contains s.toLower = true <;> cases hr : o.phantomRefused <;> simp_all
    | other => simp
  unfold deconv1dRefusal
  rw [← hf, ← hp]
  cases h1 : forwardRefusal o with
  | some e => simp
  | none =>
    cases h2 : phantomRefusal o with
    | some e => simp
    | none =>
      cases h3 : noiseType o.noise.toLower <;> simp

example : deconv1dRefusal ⟨6, false, "Zero", none, .array 1 3, false, .str "Sinc", false, "Gaussian"⟩ = none := by decide +kernel

/-- **Witness (observation).**  The two forms treat the spelling of the boundary condition differently:
    `BC="Periodic"` is accepted by the non-legacy form (`.lower()`) and refused by `use_legacy=True`
    (literal comparison) — same options otherwise. -/
theorem legacy_bc_case_sensitive_counterexample :
    deconv1dRefusal ⟨6, false, "Periodic", none, .str "gauss", false, .str "sinc", false, "gaussian"⟩ = none ∧
    deconv1dRefusal ⟨6, true, "Periodic", none, .str "gauss", false, .str "sinc", false, "gaussian"⟩ = some "ValueError" := by
  constructor <;> decide +kernel

/-- **deconv2d_constructed_iff.**  `Deconvolution2D(…)` raises nothing in its option handling exactly
    when: `BC` is one of `neumann/zero/nearest/mirror/periodic` in any letter case; the PSF is a square
    2-D array or one of `gauss/moffat/defocus` (any case; not `defocus` with `PSF_param = 0` — known
    finding); the phantom is an image (`ndim ≤ 2`, any size), a vector whose length is a perfect square,
    or a name found in the `cuqi.data` library; the noise type is `gaussian`/`scaledgaussian` in any case.
    Every option record. -/
theorem deconv2d_constructed_iff (o : D2Opts) :
    deconv2dRefusal o = none ↔
      (bc2d o.bc.toLower).isSome ∧
      (match o.psf with
       | .square => True
       | .nonsquare => False
       | .str s => (psfName s.toLower).isSome ∧ ¬ (psfName s.toLower = some .defocus ∧ o.psfParamZero = true)
       | .other => False) ∧
      (match o.phantom with
       | .image nd => nd ≤ 2
       | .vector len => isSquareNat len = true
       | .str _ inLib => inLib = true
       | .other => False) ∧
      (noiseType o.noise.toLower).isSome := by
  unfold deconv2dRefusal
  cases hb : bc2d o.bc.toLower with
  | none => simp
  | some m =>
    simp only [Option.isNone_some, Bool.false_eq_true, if_false, Option.isSome_some, true_and]
    cases hn : noiseType o.noise.toLower <;> cases hp : o.psf
    all_goals first
      | (cases hph : o.phantom <;> simp <;> (try split_ifs) <;> (try simp_all) <;> (try omega); done)
      | (rename_i s
         rcases hs : psfName s.toLower with _ | nm
         · cases hph : o.phantom <;> simp [hs] <;> (try split_ifs) <;> (try simp_all) <;> (try omega)
         · cases nm <;> cases hz : o.psfParamZero <;> cases hph : o.phantom <;> simp [hs, hz] <;> (try split_ifs) <;> (try simp_all) <;> (try omega))

example : deconv2dRefusal ⟨"Neumann", .str "Moffat", false, .vector 9, "scaledGaussian"⟩ = none := by decide +kernel

/-- **Witness (observation).**  The boundary-condition vocabularies of the two deconvolution problems
    differ: `'reflect'` is a documented 1-D name refused by `Deconvolution2D`, `'neumann'` the other way round. -/
theorem bc_vocabularies_differ_counterexample :
    bc1d "reflect" ≠ none ∧ bc2d "reflect" = none ∧ bc2d "neumann" ≠ none ∧ bc1d "neumann" = none := by
  refine ⟨?_, ?_, ?_, ?_⟩ <;> decide +kernel

end CuqiVerif.C17
