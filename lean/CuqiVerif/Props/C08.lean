import CuqiVerif.Model.C08
import Mathlib.Tactic.Ring

namespace CuqiVerif.C08

/-- placeholder while the theorems are being developed -/
theorem takeSecond_zero_left (u : Rat) (n2 : Nat) (h : u ≤ 1) (hn : 0 < n2) : takeSecond u 0 n2 = true := by
  unfold takeSecond
  simp only [Nat.zero_add, decide_eq_true_eq]
  have : max 1 n2 = n2 := by omega
  rw [this]
  have h2 : (0:Rat) < (n2 : Rat) := by exact_mod_cast hn
  nlinarith

end CuqiVerif.C08
