import CuqiVerif.Model.C08
import Mathlib.Tactic.Ring
import Mathlib.Tactic.Linarith
import Mathlib.Tactic.FieldSimp
import Mathlib.Tactic.Positivity
import Mathlib.Algebra.Order.Field.Basic
import Mathlib.Data.List.Basic
import Mathlib.MeasureTheory.Measure.Prod
import Mathlib.MeasureTheory.Group.Measure
import Mathlib.MeasureTheory.Constructions.Pi
import Mathlib.MeasureTheory.Measure.Lebesgue.Basic

/-!
# C08 — property theorems about the NUTS model (`Model/C08.lean`)

* the integrator (`leapfrog`, the code's `_Leapfrog`) is time-reversible, for any gradient function,
  any field, any dimension;
* the tree recursion (`buildTree`, the code's `_BuildTree`), for every depth, every phase-space
  type and every script of uniform draws:
  visited leaves are consecutive leapfrog iterates, `n'` counts exactly the visited in-slice leaves,
  a candidate returned with `n' > 0` is a visited in-slice leaf, nothing is built after a sub-tree
  reports `s' = 0`, and the law of the returned candidate under uniform draws is uniform over the
  visited in-slice leaves;
* the doubling loop keeps caches coherent and (experimental interface) never moves to a
  non-finite point.
-/

namespace CuqiVerif.C08

/-! ## the integrator -/
section Leapfrog
variable {K : Type} [Field K]

lemma vadd_length (a b : List K) (h : b.length = a.length) : (vadd a b).length = a.length := by
  simp [vadd, h]

lemma vsmul_length (c : K) (a : List K) : (vsmul c a).length = a.length := by simp [vsmul]

lemma vadd_vsmul_cancel (a b : List K) (c : K) (h : b.length = a.length) :
    vadd (vadd a (vsmul c b)) (vsmul (-c) b) = a := by
  apply List.ext_getElem
  · simp [vadd, vsmul, h]
  · intro i h1 h2
    simp [vadd, vsmul]

/-- **Time reversibility of `_Leapfrog`.**  One step of size `e` followed by one step of size `-e`
    (threading the cached gradient as the code does) returns to the starting position, momentum and
    gradient, for every gradient function `g`, every field, every dimension. -/
theorem leapfrog_reversible (g : List K → List K) (e : K) (x r : List K)
    (hr : r.length = x.length) (hg : ∀ y, y.length = x.length → (g y).length = x.length) :
    let s1 := leapfrog (1/2 : K) g e x r (g x)
    leapfrog (1/2 : K) g (-e) s1.1 s1.2.1 s1.2.2 = (x, r, g x) := by
  intro s1
  have hgx : (g x).length = x.length := hg x rfl
  -- names for the intermediate quantities of the forward step
  set r1 := vadd r (vsmul (1/2 * e) (g x)) with hr1
  set x1 := vadd x (vsmul e r1) with hx1
  set r2 := vadd r1 (vsmul (1/2 * e) (g x1)) with hr2
  have lr1 : r1.length = x.length := by
    rw [hr1, vadd_length _ _ (by rw [vsmul_length, hgx, hr]), hr]
  have lx1 : x1.length = x.length := by
    rw [hx1, vadd_length _ _ (by rw [vsmul_length, lr1])]
  have lgx1 : (g x1).length = x.length := hg x1 lx1
  have hs1 : s1 = (x1, r2, g x1) := rfl
  rw [hs1]
  show leapfrog (1/2 : K) g (-e) x1 r2 (g x1) = (x, r, g x)
  unfold leapfrog
  have e1 : (1/2 : K) * -e = -(1/2 * e) := by ring
  have back1 : vadd r2 (vsmul (1/2 * -e) (g x1)) = r1 := by
    rw [e1, hr2]; exact vadd_vsmul_cancel r1 (g x1) (1/2 * e) (by rw [lgx1, lr1])
  have back2 : vadd x1 (vsmul (-e) r1) = x := by
    rw [hx1]; exact vadd_vsmul_cancel x r1 e lr1
  have back3 : vadd r1 (vsmul (1/2 * -e) (g x)) = r := by
    rw [e1, hr1]; exact vadd_vsmul_cancel r (g x) (1/2 * e) (by rw [hgx, hr])
  simp only [back1, back2, back3]

example : leapfrog (1/2 : ℚ) (fun x => x.map (fun t => -2 * t)) (-1/4)
    (leapfrog (1/2 : ℚ) (fun x => x.map (fun t => -2 * t)) (1/4) [1, 2] [1/2, -1] [-2, -4]).1
    (leapfrog (1/2 : ℚ) (fun x => x.map (fun t => -2 * t)) (1/4) [1, 2] [1/2, -1] [-2, -4]).2.1
    (leapfrog (1/2 : ℚ) (fun x => x.map (fun t => -2 * t)) (1/4) [1, 2] [1/2, -1] [-2, -4]).2.2
    = ([1, 2], [1/2, -1], [-2, -4]) := by decide +kernel

end Leapfrog

/-! ## the tree recursion -/
section Tree
variable {Z : Type}

/-- the `k` consecutive leapfrog iterates after `z` in direction `v` -/
def orbit (c : Ctx Z) (v : Int) : Z → Nat → List Z
  | _, 0 => []
  | z, k + 1 => c.step v z :: orbit c v (c.step v z) k

lemma orbit_length (c : Ctx Z) (v : Int) (z : Z) (k : Nat) : (orbit c v z k).length = k := by
  induction k generalizing z with
  | zero => rfl
  | succ k ih => simp [orbit, ih]

lemma orbit_ne_nil (c : Ctx Z) (v : Int) (z : Z) (k : Nat) (hk : 0 < k) : orbit c v z k ≠ [] := by
  intro h; have := congrArg List.length h; rw [orbit_length] at this; simp at this; omega

lemma orbit_append (c : Ctx Z) (v : Int) (z : Z) (a b : Nat) (ha : 0 < a) :
    orbit c v z (a + b) = orbit c v z a ++ orbit c v ((orbit c v z a).getLast?.getD z) b := by
  induction a generalizing z with
  | zero => omega
  | succ a ih =>
    rcases Nat.eq_zero_or_pos a with h0 | hpos
    · subst h0
      rw [Nat.add_comm]; simp [orbit]
    · have := ih (c.step v z) hpos
      rw [show a + 1 + b = (a + b) + 1 by omega]
      simp only [orbit, List.cons_append]
      rw [this]
      congr 2
      have hne := orbit_ne_nil c v (c.step v z) a hpos
      rw [List.getLast?_cons_of_ne_nil hne]
      cases hl : (orbit c v (c.step v z) a).getLast? with
      | none => exact absurd (List.getLast?_eq_none_iff.mp hl) hne
      | some y => simp

/-- the end of the tree that the next sub-tree continues from -/
def Tree.far (t : Tree Z) (v : Int) : Z := if v = -1 then t.zminus else t.zplus

/-- structural invariant proved by induction on the depth -/
structure TreeInv (c : Ctx Z) (v : Int) (j : Nat) (z : Z) (t : Tree Z) : Prop where
  leaves_orbit : t.leaves = orbit c v z t.leaves.length
  len_pos : 0 < t.leaves.length
  len_le : t.leaves.length ≤ 2 ^ j
  len_full : t.s = true → t.leaves.length = 2 ^ j
  far_last : t.leaves.getLast? = some (t.far v)
  count : t.n = (t.leaves.filter (inSlice c)).length
  wts_len : t.wts.length = t.leaves.length

theorem buildTree_inv (c : Ctx Z) (v : Int) (j : Nat) (z : Z) (us : List Rat) :
    TreeInv c v j z (buildTree c v j z us).1 := by
  induction j generalizing z us with
  | zero =>
    simp only [buildTree]
    constructor <;> simp [orbit, Tree.far]
    split <;> simp_all
  | succ j ih =>
    simp only [buildTree]
    have I1 := ih z us
    generalize hb1 : buildTree c v j z us = b1 at I1 ⊢
    obtain ⟨t1, us1⟩ := b1
    simp only at I1 ⊢
    by_cases hs : t1.s = true
    · simp only [hs, if_true]
      have I2 := ih (if v = -1 then t1.zminus else t1.zplus) us1
      generalize hb2 : buildTree c v j (if v = -1 then t1.zminus else t1.zplus) us1 = b2 at I2 ⊢
      obtain ⟨t2, us2⟩ := b2
      simp only at I2 ⊢
      have hfull := I1.len_full hs
      have hstart : (if v = -1 then t1.zminus else t1.zplus) = t1.far v := rfl
      constructor
      · -- leaves are the orbit
        simp only [List.length_append]
        rw [orbit_append c v z _ _ I1.len_pos, ← I1.leaves_orbit, I1.far_last]
        simp only [Option.getD_some]
        rw [← hstart, ← I2.leaves_orbit]
      · simp only [List.length_append]; have := I1.len_pos; omega
      · simp only [List.length_append]; have := I2.len_le; rw [hfull]; rw [pow_succ]; omega
      · intro hS
        simp only [Bool.and_eq_true] at hS
        simp only [List.length_append]
        rw [hfull, I2.len_full hS.1, pow_succ]; omega
      · have hne : t2.leaves ≠ [] := by
          intro h; have := I2.len_pos; rw [h] at this; simp at this
        rw [List.getLast?_append_of_ne_nil _ hne, I2.far_last]
        simp only [Tree.far]
        split <;> rfl
      · simp only [List.filter_append, List.length_append, I1.count, I2.count]
      · simp only [List.length_append, List.length_map, I1.wts_len, I2.wts_len]
    · simp only [hs]
      have hsf : t1.s = false := by simpa using hs
      constructor
      · exact I1.leaves_orbit
      · exact I1.len_pos
      · exact le_trans I1.len_le (Nat.pow_le_pow_right (by omega) (by omega))
      · intro h; simp [hsf] at h
      · exact I1.far_last
      · exact I1.count
      · exact I1.wts_len

/-- **Visited leaves are consecutive leapfrog iterates** `step z, step² z, …`, at most `2^j` of them,
    exactly `2^j` when the tree reports `s' = 1`. -/
theorem leaves_are_orbit (c : Ctx Z) (v : Int) (j : Nat) (z : Z) (us : List Rat) :
    let t := (buildTree c v j z us).1
    t.leaves = orbit c v z t.leaves.length ∧ t.leaves.length ≤ 2 ^ j ∧
      (t.s = true → t.leaves.length = 2 ^ j) :=
  let I := buildTree_inv c v j z us
  ⟨I.leaves_orbit, I.len_le, I.len_full⟩

/-- **`n'` is exactly the number of visited leaves that lie in the slice.** -/
theorem count_eq_slice (c : Ctx Z) (v : Int) (j : Nat) (z : Z) (us : List Rat) :
    (buildTree c v j z us).1.n = ((buildTree c v j z us).1.leaves.filter (inSlice c)).length :=
  (buildTree_inv c v j z us).count

/-- **Trajectory stops at the first divergence / U-turn:** when the first half of a tree reports
    `s' = 0` the second half is not built: the result *is* the first half (one more node counted). -/
theorem stop_at_first (c : Ctx Z) (v : Int) (j : Nat) (z : Z) (us : List Rat)
    (h : (buildTree c v j z us).1.s = false) :
    (buildTree c v (j + 1) z us).1.leaves = (buildTree c v j z us).1.leaves ∧
    (buildTree c v (j + 1) z us).1.s = false ∧
    (buildTree c v (j + 1) z us).1.nodes = 1 + (buildTree c v j z us).1.nodes ∧
    (buildTree c v (j + 1) z us).2 = (buildTree c v j z us).2 := by
  simp only [buildTree]
  generalize buildTree c v j z us = b1 at h ⊢
  obtain ⟨t1, us1⟩ := b1
  simp only at h
  simp [h]

/-- a leaf whose Hamiltonian is NaN or -inf (NaN / -inf log-density) is never in the slice and stops the tree -/
theorem nonfinite_leaf_outside (c : Ctx Z) (z : Z) (h : c.ham z = .nan ∨ c.ham z = .ninf) :
    inSlice c z = false ∧ notDiverged c z = false := by
  rcases h with h | h <;> simp [inSlice, notDiverged, h, XR.geRat, XR.gtRatShift]

/-- a leaf with +inf Hamiltonian *is* counted in the slice (IEEE `log_u <= inf`); it is the top-level
    finiteness guard that keeps the sampler from moving there (`nutsStep_coherent_finite`) -/
theorem posinf_leaf_in_slice (c : Ctx Z) (z : Z) (h : c.ham z = .pinf) :
    inSlice c z = true ∧ notDiverged c z = true := by
  simp [inSlice, notDiverged, h, XR.geRat, XR.gtRatShift]

/-- draws left over by `buildTree` are a suffix of the draws given -/
lemma buildTree_suffix (c : Ctx Z) (v : Int) (j : Nat) (z : Z) (us : List Rat) :
    (buildTree c v j z us).2 <:+ us := by
  induction j generalizing z us with
  | zero => simp [buildTree]
  | succ j ih =>
    simp only [buildTree]
    have h1 := ih z us
    generalize buildTree c v j z us = b1 at h1 ⊢
    obtain ⟨t1, us1⟩ := b1
    by_cases hs : t1.s = true
    · simp only [hs, if_true]
      have h2 := ih (if v = -1 then t1.zminus else t1.zplus) us1
      generalize buildTree c v j (if v = -1 then t1.zminus else t1.zplus) us1 = b2 at h2 ⊢
      obtain ⟨t2, us2⟩ := b2
      simp only at h1 h2 ⊢
      have h3 : (popU us2).2 <:+ us2 := by
        cases us2 with
        | nil => simp [popU]
        | cons a l => simp [popU]
      exact (h3.trans h2).trans h1
    · simp only [hs]; exact h1

lemma popU_mem (us : List Rat) (P : Rat → Prop) (hhalf : P (1/2)) (h : ∀ u ∈ us, P u) :
    P (popU us).1 := by
  cases us with
  | nil => simpa [popU] using hhalf
  | cons a l => simpa [popU] using h a (by simp)

/-- `rand() < n2/max(1,n1+n2)` written without division -/
theorem takeSecond_iff (u : Rat) (n1 n2 : Nat) :
    takeSecond u n1 n2 = true ↔ u < secondProb n1 n2 := by
  unfold takeSecond secondProb
  have hpos : (0 : Rat) < ((max 1 (n1 + n2) : Nat) : Rat) := by
    have : 0 < max 1 (n1 + n2) := by omega
    exact_mod_cast this
  rw [decide_eq_true_iff, lt_div_iff₀ hpos]

/-- **Every candidate returned with `n' > 0` is a visited leaf lying in the slice**, for every
    depth and every script of uniform draws in `[0, 1)` — exactly the range of `np.random.rand()`,
    including the draw `u = 0` (the strict inequality of the test matters there, see
    `nonstrict_test_selects_outside_slice_at_u0`). -/
theorem selected_in_slice (c : Ctx Z) (v : Int) (j : Nat) (z : Z) (us : List Rat)
    (hus : ∀ u ∈ us, 0 ≤ u ∧ u < 1) (hn : 0 < (buildTree c v j z us).1.n) :
    (buildTree c v j z us).1.cand ∈ (buildTree c v j z us).1.leaves ∧
      inSlice c (buildTree c v j z us).1.cand = true := by
  induction j generalizing z us with
  | zero =>
    simp only [buildTree] at hn ⊢
    constructor
    · simp
    · by_contra hc
      simp [hc] at hn
  | succ j ih =>
    simp only [buildTree] at hn ⊢
    have I1 := ih z us hus
    have S1 := buildTree_suffix c v j z us
    generalize buildTree c v j z us = b1 at I1 S1 hn ⊢
    obtain ⟨t1, us1⟩ := b1
    simp only at I1 S1 hn ⊢
    have hus1 : ∀ u ∈ us1, 0 ≤ u ∧ u < 1 := fun u hu => hus u (S1.subset hu)
    by_cases hs : t1.s = true
    · simp only [hs, if_true] at hn ⊢
      have I2 := ih (if v = -1 then t1.zminus else t1.zplus) us1 hus1
      have S2 := buildTree_suffix c v j (if v = -1 then t1.zminus else t1.zplus) us1
      generalize buildTree c v j (if v = -1 then t1.zminus else t1.zplus) us1 = b2 at I2 S2 hn ⊢
      obtain ⟨t2, us2⟩ := b2
      simp only at I2 S2 hn ⊢
      have hus2 : ∀ u ∈ us2, 0 ≤ u ∧ u < 1 := fun u hu => hus1 u (S2.subset hu)
      have hu := popU_mem us2 (fun u => 0 ≤ u ∧ u < 1) (by norm_num) hus2
      by_cases hts : takeSecond (popU us2).1 t1.n t2.n = true
      · simp only [hts, if_true]
        -- second taken: n2 must be positive because u > 0
        have hn2 : 0 < t2.n := by
          by_contra h0
          have h0' : t2.n = 0 := by omega
          rw [takeSecond_iff, secondProb, h0'] at hts
          simp at hts
          linarith [hu.1]
        obtain ⟨m, s⟩ := I2 hn2
        exact ⟨List.mem_append_right _ m, s⟩
      · simp only [hts]
        have hn1 : 0 < t1.n := by
          by_contra h0
          have h0' : t1.n = 0 := by omega
          apply hts
          rw [takeSecond_iff, secondProb, h0']
          have hn2 : 0 < t2.n := by omega
          have : max 1 (0 + t2.n) = t2.n := by omega
          rw [this]
          have hp : (0:Rat) < (t2.n : Rat) := by exact_mod_cast hn2
          rw [div_self (ne_of_gt hp)]
          exact hu.2
        obtain ⟨m, s⟩ := I1 hn1
        simp only [Bool.false_eq_true, if_false]
        exact ⟨List.mem_append_left _ m, s⟩
    · simp only [hs] at hn ⊢
      exact I1 hn

/-- Why the strict inequality matters (the code used `<=` before the repair `fix: NUTS Metropolis
    tests use a strict inequality`): with the non-strict test and the draw `u = 0` a sub-tree
    candidate outside the slice replaces an in-slice one.  With the model's (strict) test the same
    instance keeps the in-slice candidate. -/
theorem nonstrict_test_selects_outside_slice_at_u0 :
    let c : Ctx Nat := { step := fun _ z => z + 1, ham := fun z => if z = 1 then .fin 0 else .fin (-5),
                         noUturn := fun _ _ => true, logu := -1, ham0 := 0 }
    let t := (buildTree c 1 1 0 [0]).1
    (t.n = 1 ∧ t.cand = 1 ∧ inSlice c t.cand = true) ∧
      -- the old test `u * max 1 (n1+n2) ≤ n2` at u = 0, n1 = 1, n2 = 0 would have taken the second
      decide ((0:Rat) * ((max 1 (1 + 0) : Nat) : Rat) ≤ ((0:Nat) : Rat)) = true := by
  decide +kernel

/-! ### the law of the returned candidate -/

lemma sum_map_mul (a : Rat) (l : List Rat) : (l.map (a * ·)).sum = a * l.sum := by
  induction l with
  | nil => simp
  | cons x xs ih => simp [ih, mul_add]

/-- the candidate law sums to one -/
theorem wts_sum_one (c : Ctx Z) (v : Int) (j : Nat) (z : Z) (us : List Rat) :
    (buildTree c v j z us).1.wts.sum = 1 := by
  induction j generalizing z us with
  | zero => simp [buildTree]
  | succ j ih =>
    simp only [buildTree]
    have h1 := ih z us
    generalize buildTree c v j z us = b1 at h1 ⊢
    obtain ⟨t1, us1⟩ := b1
    by_cases hs : t1.s = true
    · simp only [hs, if_true]
      have h2 := ih (if v = -1 then t1.zminus else t1.zplus) us1
      generalize buildTree c v j (if v = -1 then t1.zminus else t1.zplus) us1 = b2 at h2 ⊢
      obtain ⟨t2, us2⟩ := b2
      simp only at h1 h2 ⊢
      rw [List.sum_append, sum_map_mul, sum_map_mul, h1, h2]; ring
    · simp only [hs]; exact h1

/-- pointwise description of a list of weights against a list of leaves -/
def UniformOn (c : Ctx Z) (leaves : List Z) (wts : List Rat) (n : Nat) : Prop :=
  List.Forall₂ (fun z w => w = if inSlice c z then 1 / (n : Rat) else 0) leaves wts

lemma uniformOn_scale (c : Ctx Z) (leaves : List Z) (wts : List Rat) (n m : Nat) (a : Rat)
    (h : UniformOn c leaves wts n) (ha : ∀ z ∈ leaves, inSlice c z = true → a * (1 / (n : Rat)) = 1 / (m : Rat)) :
    UniformOn c leaves (wts.map (a * ·)) m := by
  unfold UniformOn at *
  induction h with
  | nil => simp
  | @cons z w zs ws hw _ ih =>
    simp only [List.map_cons]
    refine List.Forall₂.cons ?_ (ih (fun z hz => ha z (List.mem_cons_of_mem _ hz)))
    subst hw
    by_cases hz : inSlice c z = true
    · simp only [hz, if_true]; exact ha z (by simp) hz
    · simp [hz]

lemma uniformOn_zero (c : Ctx Z) (m : Nat) : ∀ (ls : List Z) (ws : List Rat), ws.length = ls.length →
    (∀ z ∈ ls, inSlice c z = false) → UniformOn c ls (ws.map ((0:Rat) * ·)) m := by
  intro ls
  induction ls with
  | nil => intro ws h _; cases ws <;> simp_all [UniformOn]
  | cons a l ihl =>
    intro ws h hall
    cases ws with
    | nil => simp at h
    | cons w ws =>
      simp only [List.map_cons]
      refine List.Forall₂.cons ?_ (ihl ws (by simpa using h) (fun z hz => hall z (List.mem_cons_of_mem _ hz)))
      simp [hall a (by simp)]

lemma no_slice_of_count_zero (c : Ctx Z) (ls : List Z) (h : (ls.filter (inSlice c)).length = 0) :
    ∀ z ∈ ls, inSlice c z = false := by
  intro z hz
  by_contra hc
  have hc' : inSlice c z = true := by simpa using hc
  have hm : z ∈ ls.filter (inSlice c) := by simp [hz, hc']
  have := List.length_pos_of_mem hm
  omega

/-- **Progressive sub-sampling is uniform.**  Under independent uniform draws the candidate
    returned by a tree is distributed over the visited leaves with weight `1/n'` on every in-slice
    leaf and `0` on every other leaf (whenever `n' > 0`), for every depth — also for trees cut short
    by an early stop. -/
theorem progressive_uniform (c : Ctx Z) (v : Int) (j : Nat) (z : Z) (us : List Rat)
    (hn : 0 < (buildTree c v j z us).1.n) :
    UniformOn c (buildTree c v j z us).1.leaves (buildTree c v j z us).1.wts (buildTree c v j z us).1.n := by
  induction j generalizing z us with
  | zero =>
    simp only [buildTree] at hn ⊢
    unfold UniformOn
    refine List.Forall₂.cons ?_ List.Forall₂.nil
    by_cases hz : inSlice c (c.step v z) = true
    · simp [hz]
    · simp [hz] at hn
  | succ j ih =>
    simp only [buildTree] at hn ⊢
    have I1 := ih z us
    have V1 := buildTree_inv c v j z us
    generalize buildTree c v j z us = b1 at I1 V1 hn ⊢
    obtain ⟨t1, us1⟩ := b1
    simp only at I1 V1 hn ⊢
    by_cases hs : t1.s = true
    · simp only [hs, if_true] at hn ⊢
      have I2 := ih (if v = -1 then t1.zminus else t1.zplus) us1
      have V2 := buildTree_inv c v j (if v = -1 then t1.zminus else t1.zplus) us1
      generalize buildTree c v j (if v = -1 then t1.zminus else t1.zplus) us1 = b2 at I2 V2 hn ⊢
      obtain ⟨t2, us2⟩ := b2
      simp only at I2 V2 hn ⊢
      have hmax : ((max 1 (t1.n + t2.n) : Nat) : Rat) = (t1.n : Rat) + (t2.n : Rat) := by
        have : max 1 (t1.n + t2.n) = t1.n + t2.n := by omega
        rw [this]; push_cast; ring
      have hsum : (0 : Rat) < (t1.n : Rat) + (t2.n : Rat) := by exact_mod_cast hn
      unfold UniformOn
      apply List.rel_append
      · -- first half, scaled by 1 - a
        by_cases h1 : 0 < t1.n
        · apply uniformOn_scale c _ _ t1.n _ _ (I1 h1)
          intro _ _ _
          have hp : (0:Rat) < (t1.n : Rat) := by exact_mod_cast h1
          unfold secondProb; rw [hmax]; push_cast
          field_simp
          ring
        · have h0 : t1.n = 0 := by omega
          have ha : (1 - secondProb t1.n t2.n) = 0 := by
            unfold secondProb; rw [hmax, h0]; push_cast
            have hp : (t2.n : Rat) ≠ 0 := by
              have : 0 < t2.n := by omega
              exact_mod_cast (ne_of_gt this)
            field_simp; ring
          rw [ha]
          exact uniformOn_zero c _ _ _ V1.wts_len (no_slice_of_count_zero c _ (by rw [← V1.count, h0]))
      · -- second half, scaled by a
        by_cases h2 : 0 < t2.n
        · apply uniformOn_scale c _ _ t2.n _ _ (I2 h2)
          intro _ _ _
          have hp : (0:Rat) < (t2.n : Rat) := by exact_mod_cast h2
          unfold secondProb; rw [hmax]; push_cast
          field_simp
        · have h0 : t2.n = 0 := by omega
          have ha : secondProb t1.n t2.n = 0 := by
            unfold secondProb; rw [h0]; simp
          rw [ha]
          exact uniformOn_zero c _ _ _ V2.wts_len (no_slice_of_count_zero c _ (by rw [← V2.count, h0]))
    · simp only [hs] at hn ⊢
      exact I1 hn


/-! ### candidates are visited leaves; the doubling loop -/

theorem cand_mem_leaves (c : Ctx Z) (v : Int) (j : Nat) (z : Z) (us : List Rat) :
    (buildTree c v j z us).1.cand ∈ (buildTree c v j z us).1.leaves := by
  induction j generalizing z us with
  | zero => simp [buildTree]
  | succ j ih =>
    simp only [buildTree]
    have h1 := ih z us
    generalize buildTree c v j z us = b1 at h1 ⊢
    obtain ⟨t1, us1⟩ := b1
    by_cases hs : t1.s = true
    · simp only [hs, if_true]
      have h2 := ih (if v = -1 then t1.zminus else t1.zplus) us1
      generalize buildTree c v j (if v = -1 then t1.zminus else t1.zplus) us1 = b2 at h2 ⊢
      obtain ⟨t2, us2⟩ := b2
      simp only at h1 h2 ⊢
      split
      · exact List.mem_append_right _ h2
      · exact List.mem_append_left _ h1
    · simp only [hs]; exact h1

lemma orbit_forall (c : Ctx Z) (P : Z → Prop) (hstep : ∀ v z, P (c.step v z)) (v : Int) (k : Nat) :
    ∀ (z : Z), ∀ y ∈ orbit c v z k, P y := by
  induction k with
  | zero => intro z y hy; simp [orbit] at hy
  | succ k ih =>
    intro z y hy
    simp only [orbit, List.mem_cons] at hy
    rcases hy with rfl | hy
    · exact hstep v z
    · exact ih (c.step v z) y hy

/-- every visited leaf is the image of a leapfrog step, hence inherits any property of step outputs -/
theorem leaves_forall (c : Ctx Z) (P : Z → Prop) (hstep : ∀ v z, P (c.step v z))
    (v : Int) (j : Nat) (z : Z) (us : List Rat) :
    ∀ y ∈ (buildTree c v j z us).1.leaves, P y := by
  have I := buildTree_inv c v j z us
  intro y hy
  rw [I.leaves_orbit] at hy
  exact orbit_forall c P hstep v _ z y hy

/-- **The state after a transition is the start or a visited leaf**, and it is only replaced by a
    candidate that passes the interface's finiteness guard. -/
theorem loop_cur_inv (c : Ctx Z) (guard : Z → Bool) (P : Z → Prop) (hstep : ∀ v z, P (c.step v z))
    (md fuel : Nat) (st : Loop Z) (h0 : P st.cur ∧ guard st.cur = true) :
    P (loop c guard md fuel st).cur ∧ guard (loop c guard md fuel st).cur = true := by
  induction fuel generalizing st with
  | zero => simpa [loop] using h0
  | succ fuel ih =>
    simp only [loop]
    split
    · apply ih
      simp only [loopBody]
      generalize hb : buildTree c (if (popU st.us).1 < 1 / 2 then 1 else -1) st.j
        (if (if (popU st.us).1 < 1 / 2 then (1:Int) else -1) = -1 then st.zminus else st.zplus) (popU st.us).2 = b
      obtain ⟨t, us1⟩ := b
      have hc : P t.cand := by
        have hm := cand_mem_leaves c (if (popU st.us).1 < 1 / 2 then 1 else -1) st.j
          (if (if (popU st.us).1 < 1 / 2 then (1:Int) else -1) = -1 then st.zminus else st.zplus) (popU st.us).2
        have := leaves_forall c P hstep _ _ _ _ _ hm
        rw [hb] at this; exact this
      simp only
      by_cases hts : t.s = true
      · simp only [hts, if_true]
        by_cases hacc : (decide ((popU us1).1 * (st.n : Rat) < (t.n : Rat)) && decide ((popU us1).1 < 1) && guard t.cand) = true
        · simp only [hacc, if_true]
          simp only [Bool.and_eq_true] at hacc
          exact ⟨hc, hacc.2⟩
        · simp only [hacc]; exact h0
      · simp only [hts]; exact h0
    · exact h0

/-- **Guarded interface: a transition never moves to a non-finite point** (NaN, +inf or -inf
    log-density), whatever the draws (including `u = 0`), and the cached log-density/gradient always belong to the current point. -/
theorem nutsStep_coherent_finite (t : Target) (eps logu ham0 : Rat) (md : Nat) (z0 : PS) (us : List Rat)
    (h0 : z0.logd = t.logd z0.x ∧ z0.grad = t.grad z0.x) (hfin : z0.logd.isFinite = true) :
    let z := (nutsStep (psCtx t eps logu ham0) (fun z => z.logd.isFinite) md z0 us).cur
    (z.logd = t.logd z.x ∧ z.grad = t.grad z.x) ∧ z.logd.isFinite = true := by
  intro z
  exact loop_cur_inv (psCtx t eps logu ham0) (fun z => z.logd.isFinite)
    (fun z => z.logd = t.logd z.x ∧ z.grad = t.grad z.x)
    (fun v z => by simp [psCtx, psStep, leapfrog]) md (md + 1) _ ⟨h0, hfin⟩

/-- legacy interface (no guard): coherence of the returned point still holds -/
theorem nutsStep_coherent_legacy (t : Target) (eps logu ham0 : Rat) (md : Nat) (z0 : PS) (us : List Rat)
    (h0 : z0.logd = t.logd z0.x ∧ z0.grad = t.grad z0.x) :
    let z := (nutsStep (psCtx t eps logu ham0) (fun _ => true) md z0 us).cur
    z.logd = t.logd z.x ∧ z.grad = t.grad z.x := by
  intro z
  exact (loop_cur_inv (psCtx t eps logu ham0) (fun _ => true)
    (fun z => z.logd = t.logd z.x ∧ z.grad = t.grad z.x)
    (fun v z => by simp [psCtx, psStep, leapfrog]) md (md + 1) _ ⟨h0, rfl⟩).1

/-! ### the top-level move between the old and the new half of the trajectory -/

/-- **Symmetry of the top-level move.**  With `a` in-slice points in the old half and `b` in the new
    half, the code moves from a point of the old half to a *given* point of the new half with
    probability `min(1, b/a) · (1/b)` (`progressive_uniform` for the `1/b`).  This equals
    `min(1/a, 1/b)`, which is symmetric in `(a, b)`: the move is reversible with respect to the
    uniform distribution on the union. -/
theorem swap_symmetric (a b : ℚ) (ha : 0 < a) (hb : 0 < b) :
    min 1 (b / a) * (1 / b) = min 1 (a / b) * (1 / a) := by
  rcases le_total a b with h | h
  · have h1 : 1 ≤ b / a := by rw [le_div_iff₀ ha]; linarith
    have h2 : a / b ≤ 1 := by rw [div_le_iff₀ hb]; linarith
    rw [min_eq_left h1, min_eq_right h2]; field_simp
  · have h1 : b / a ≤ 1 := by rw [div_le_iff₀ ha]; linarith
    have h2 : 1 ≤ a / b := by rw [le_div_iff₀ hb]; linarith
    rw [min_eq_right h1, min_eq_left h2]; field_simp

end Tree

/-! ## the integrator on ℝⁿ × ℝⁿ: volume preservation -/
section Volume
open MeasureTheory

variable {ι : Type*} [Fintype ι]

/-- a shear `(x, r) ↦ (x, r + h x)` preserves Lebesgue measure on phase space -/
theorem shear_snd_measurePreserving (h : (ι → ℝ) → (ι → ℝ)) (hm : Measurable h) :
    MeasurePreserving (fun p : (ι → ℝ) × (ι → ℝ) => (p.1, p.2 + h p.1))
      ((volume : Measure (ι → ℝ)).prod volume) ((volume : Measure (ι → ℝ)).prod volume) := by
  have := MeasurePreserving.skew_product (μa := (volume : Measure (ι → ℝ))) (μb := volume)
    (μc := (volume : Measure (ι → ℝ))) (μd := volume) (f := id) (MeasurePreserving.id _)
    (g := fun x r => r + h x) (by
      apply Measurable.add measurable_snd (hm.comp measurable_fst)) (by
      refine Filter.Eventually.of_forall (fun x => ?_)
      exact (measurePreserving_add_right volume (h x)).map_eq)
  simpa using this

/-- a shear `(x, r) ↦ (x + k r, r)` preserves Lebesgue measure on phase space -/
theorem shear_fst_measurePreserving (k : (ι → ℝ) → (ι → ℝ)) (hm : Measurable k) :
    MeasurePreserving (fun p : (ι → ℝ) × (ι → ℝ) => (p.1 + k p.2, p.2))
      ((volume : Measure (ι → ℝ)).prod volume) ((volume : Measure (ι → ℝ)).prod volume) := by
  have h1 := shear_snd_measurePreserving k hm
  have hs : MeasurePreserving (Prod.swap : (ι → ℝ) × (ι → ℝ) → _)
      ((volume : Measure (ι → ℝ)).prod volume) ((volume : Measure (ι → ℝ)).prod volume) :=
    Measure.measurePreserving_swap
  have := (hs.comp h1).comp hs
  convert this using 1
  funext p
  simp [Function.comp, Prod.swap]

/-- the leapfrog map on `ℝⁿ × ℝⁿ` written with real-valued functions (same formula as `leapfrog`) -/
noncomputable def leapfrogFn (g : (ι → ℝ) → (ι → ℝ)) (e : ℝ) (p : (ι → ℝ) × (ι → ℝ)) : (ι → ℝ) × (ι → ℝ) :=
  let r1 := p.2 + (1/2 * e) • g p.1
  let x1 := p.1 + e • r1
  (x1, r1 + (1/2 * e) • g x1)

/-- **Volume preservation of the leapfrog integrator**: for every measurable gradient field and
    every step size the map preserves Lebesgue measure on phase space (composition of three shears). -/
theorem leapfrog_volume (g : (ι → ℝ) → (ι → ℝ)) (hg : Measurable g) (e : ℝ) :
    MeasurePreserving (leapfrogFn g e)
      ((volume : Measure (ι → ℝ)).prod volume) ((volume : Measure (ι → ℝ)).prod volume) := by
  have s1 := shear_snd_measurePreserving (fun x => (1/2 * e) • g x) (by measurability)
  have s2 := shear_fst_measurePreserving (fun r : ι → ℝ => e • r) (by measurability)
  have := (s1.comp s2).comp s1
  convert this using 1
  funext p
  simp [leapfrogFn, Function.comp]

/-- time reversibility in the real-valued form: a step of size `-e` undoes a step of size `e` -/
theorem leapfrogFn_reversible (g : (ι → ℝ) → (ι → ℝ)) (e : ℝ) (p : (ι → ℝ) × (ι → ℝ)) :
    leapfrogFn g (-e) (leapfrogFn g e p) = p := by
  obtain ⟨x, r⟩ := p
  simp only [leapfrogFn]
  have hx : x + e • (r + (1 / 2 * e) • g x) +
      -e • (r + (1 / 2 * e) • g x + (1 / 2 * e) • g (x + e • (r + (1 / 2 * e) • g x)) +
        (1 / 2 * -e) • g (x + e • (r + (1 / 2 * e) • g x))) = x := by
    funext i; simp only [Pi.add_apply, Pi.smul_apply, smul_eq_mul]; ring
  rw [hx]
  congr 1
  funext i; simp only [Pi.add_apply, Pi.smul_apply, smul_eq_mul]; ring

end Volume
end CuqiVerif.C08
