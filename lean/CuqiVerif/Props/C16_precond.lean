import CuqiVerif.Props.C16_krylov
import CuqiVerif.Proofs.C16_precond
import Mathlib.Algebra.BigOperators.Field

/-!
# C16 — PCGLS finite termination, Krylov optimality, ISTA descent, LM monotonicity

Continuation of `Props/C16_krylov.lean`.  All theorems are about the definitions of `Model/C16.lean`
that the driver executes (`pcgls`, `cgls`, `fista`, `proxGradStep`, `lmStep`, `lm`, `proximalL1`,
`projectNonnegative`, `projectBox`), either directly on arrays (`vecOps n` on `Vector K n`,
`mulVec M`/`mulVecT M` — the very terms of the driver, `K = ℚ` there) or on an arbitrary `K`-module
with a lawful operation record, of which the array version is the instance `arraySetting` of
`Proofs/C16_krylov.lean` (`vecOps_lawful`, `vdot_isIP`, `vdot_definite`, `mulVec_adjoint`,
`vec_finrank`).  `K` is any linearly ordered field ("exact arithmetic").

1. **PCGLS** (`PCGLSSetting`): run to convergence it returns the exact solution of the *unshifted*
   normal equations `AᵀA x = Aᵀ b` within `n` passes, whatever `shift` was passed.
2. **Krylov optimality** of the CGLS iterates over `x₀ + span{s₀, B s₀, …, B^{k-1} s₀}`.
3. **ISTA/FISTA**: descent lemma, monotone objective, the stopping rule at `abstol = 0` accepts only
   minimisers; the three shipped regularisers as instances.
4. **LM**: the accept test and the monotone decrease of the sum of squares.
-/

set_option linter.unusedSectionVars false
set_option linter.unusedVariables false
set_option linter.unnecessarySeqFocus false

namespace CuqiVerif.C16

open Finset

variable {K : Type} [Field K] [LinearOrder K] [IsStrictOrderedRing K]

/-! ## 1. PCGLS: finite termination, and which equations are solved -/
section PCG
variable {V W : Type} [AddCommGroup V] [Module K V] [AddCommGroup W] [Module K W]
variable {oV : VOps K V} {oW : VOps K W} {A : V →ₗ[K] W} {At : W →ₗ[K] V} {P Pi PiT : V →ₗ[K] V}
variable (b : W) (tol eps : K)

/-- **What the PCGLS loop returns is an un-flagged iterate** (any callables, no hypotheses): the
    state returned by `pcgls` is `pcglsStep^[k] (pcglsInit x0)` for its own counter `k ≤ maxit`; it
    stopped before `maxit` only with the flag set, and no earlier iterate had the flag set (the
    `pcglsLoop` analogue of `cgls_returns_an_iterate`). -/
theorem pcgls_returns_an_iterate (fwd : V → W) (adj : W → V) (pinv pinvT : V → V) (shift : K)
    (x0 : V) (maxit : ℕ) (st : CGState K V W)
    (hst : st = pcgls oV oW fwd adj b tol eps pinv pinvT shift x0 maxit) :
    st.k ≤ maxit ∧
      st = pcglsIter oV oW fwd adj b tol eps pinv pinvT (pcglsInit oV oW fwd adj b pinvT x0).gamma x0 st.k ∧
      (st.k < maxit → st.flag = true) ∧
      (∀ i, i < st.k →
        (pcglsIter oV oW fwd adj b tol eps pinv pinvT (pcglsInit oV oW fwd adj b pinvT x0).gamma x0 i).flag
          = false) := by
  subst hst
  exact pcgls_eq_pcglsIter oV oW fwd adj b tol eps pinv pinvT shift x0 maxit

/-- **Finite termination of the PCGLS recurrence:** on an `n`-dimensional space, for every `k ≥ n`
    the preconditioned gradient `s_k = P⁻ᵀAᵀ(b − A x_k)` vanishes and `x_k` solves the **unshifted**
    normal equations `AᵀA x = Aᵀ b` exactly (any start vector, any invertible preconditioner). -/
theorem pcgls_residual_vanishes [Module.Finite K V] (H : PCGLSSetting oV oW A At P Pi PiT)
    (gamma0 : K) (x0 : V) (k : ℕ) (hk : Module.finrank K V ≤ k) :
    let st := pcglsIter oV oW A At b tol eps Pi PiT gamma0 x0 k
    st.s = 0 ∧ st.gamma = 0 ∧ At (A st.x) = At b :=
  pcglsIter_vanishes b tol eps H gamma0 x0 k hk

/-- **`pcgls_finite_termination` (the loop):** with `tol ≥ 0` and `maxit ≥ max n 1`, `PCGLS.solve`
    always leaves its loop through the convergence flag, after at most `max n 1` passes. -/
theorem pcgls_finite_termination [Module.Finite K V] (H : PCGLSSetting oV oW A At P Pi PiT)
    (htol : 0 ≤ tol) (shift : K) (x0 : V) (maxit : ℕ) (hn : Module.finrank K V ≤ maxit)
    (h1 : 1 ≤ maxit) (st : CGState K V W)
    (hst : st = pcgls oV oW A At b tol eps Pi PiT shift x0 maxit) :
    st.flag = true ∧ st.k ≤ max (Module.finrank K V) 1 := by
  obtain ⟨hk, e, hlt, hfalse⟩ := pcgls_returns_an_iterate b tol eps A At Pi PiT shift x0 maxit st hst
  set g0 := (pcglsInit oV oW A At b PiT x0).gamma with hg0
  have hflag : ∀ m, Module.finrank K V ≤ m → 1 ≤ m →
      (pcglsIter oV oW A At b tol eps Pi PiT g0 x0 m).flag = true := by
    intro m hm h1m
    obtain ⟨m', rfl⟩ := Nat.exists_eq_add_of_le' h1m
    have hz := (pcgls_residual_vanishes b tol eps H g0 x0 (m' + 1) hm).2.1
    rw [pcglsIter_succ] at hz ⊢
    show cgFlag (pcglsStep oV oW A At tol eps Pi PiT g0 _).gamma g0 _ tol = true
    rw [cgFlag_true_iff _ _ _ _ htol, hz]
    left
    have : 0 ≤ g0 := pcglsInit_gamma_nonneg b H x0
    positivity
  have hkle : st.k ≤ max (Module.finrank K V) 1 := by
    by_contra hgt
    rw [not_le] at hgt
    have := hfalse _ hgt
    rw [hflag _ (le_max_left _ _) (le_max_right _ _)] at this
    exact Bool.noConfusion this
  refine ⟨?_, hkle⟩
  rcases Nat.lt_or_eq_of_le hk with h | h
  · exact hlt h
  · rw [e, h]; exact hflag _ hn h1

/-- **PCGLS run to convergence returns the exact solution of the UNSHIFTED normal equations, from
    any start vector, for any invertible preconditioner and whatever `shift` was passed:** with
    `tol = 0` and `maxit ≥ n = finrank K V` the returned `x` satisfies `AᵀA x = Aᵀ b` exactly, it is
    the only solution, and at most `max n 1` passes were made. -/
theorem pcgls_run_to_convergence_exact [Module.Finite K V] (H : PCGLSSetting oV oW A At P Pi PiT)
    (shift : K) (x0 : V) (maxit : ℕ) (hn : Module.finrank K V ≤ maxit) (st : CGState K V W)
    (hst : st = pcgls oV oW A At b 0 eps Pi PiT shift x0 maxit) :
    At (A st.x) = At b ∧ (∀ y, At (A y) = At b → y = st.x) ∧ st.k ≤ max (Module.finrank K V) 1 := by
  have hsol : At (A st.x) = At b := by
    obtain ⟨hk, e, hlt, _⟩ := pcgls_returns_an_iterate b 0 eps A At Pi PiT shift x0 maxit st hst
    rcases Nat.lt_or_eq_of_le hk with h | h
    · have hs := pcgls_stop_sound_partial A At b 0 eps Pi PiT H.lawV H.lawW le_rfl shift x0 maxit st hst (hlt h)
      simp only [ne_eq, OfNat.ofNat_ne_zero, not_false_eq_true, zero_pow, mul_zero] at hs
      rcases hs with hs | hs
      · have hz := H.pinvT_inj _ (H.defn _ (le_antisymm hs (H.ipV.nonneg _)))
        rw [map_sub, sub_eq_zero] at hz
        exact hz.symm
      · exact absurd hs (by norm_num)
    · rw [e]
      exact (pcgls_residual_vanishes b 0 eps H _ x0 st.k (by omega)).2.2
  refine ⟨hsol, fun y hy => H.unique _ _ _ hsol hy, ?_⟩
  rcases Nat.eq_zero_or_pos maxit with h0 | hpos
  · have := (pcgls_returns_an_iterate b 0 eps A At Pi PiT shift x0 maxit st hst).1
    omega
  · exact (pcgls_finite_termination b 0 eps H le_rfl shift x0 maxit hn hpos st hst).2

/-- **Law-level form of the known finding "PCGLS ignores `shift`":** under the hypotheses of
    `pcgls_run_to_convergence_exact`, the point PCGLS returns solves the shifted normal equations
    `(AᵀA + shift·I) x = Aᵀ b` **iff** `shift = 0` or the returned point is `0` — for every other
    input the documented (Tikhonov) system is *not* solved; `pcgls_shift_counterexample`
    (`Props/C16.lean`) is the instance `A = P = 1, b = 1, shift = 1`. -/
theorem pcgls_solves_shifted_iff [Module.Finite K V] (H : PCGLSSetting oV oW A At P Pi PiT)
    (shift : K) (x0 : V) (maxit : ℕ) (hn : Module.finrank K V ≤ maxit) (st : CGState K V W)
    (hst : st = pcgls oV oW A At b 0 eps Pi PiT shift x0 maxit) :
    At (A st.x) + shift • st.x = At b ↔ shift = 0 ∨ st.x = 0 := by
  have hsol := (pcgls_run_to_convergence_exact b eps H shift x0 maxit hn st hst).1
  rw [hsol, add_eq_left, smul_eq_zero]

/-- an injective `A` and a two-sided inverse pair `P`, `P⁻¹` give the setting -/
lemma pcglsSetting_of_injective (hV : oV.Lawful) (hW : oW.Lawful) (ipV : IsIP oV.dot) (ipW : IsIP oW.dot)
    (defn : ∀ v, oV.dot v v = 0 → v = 0) (adj : ∀ v w, oW.dot (A v) w = oV.dot v (At w))
    (padj : ∀ v w, oV.dot (Pi v) w = oV.dot v (PiT w)) (inv : ∀ v, Pi (P v) = v) (inv' : ∀ v, P (Pi v) = v)
    (hA : ∀ v, v ≠ 0 → 0 < oW.dot (A v) (A v)) : PCGLSSetting oV oW A At P Pi PiT :=
  ⟨hV, hW, ipV, ipW, defn, adj, padj, inv, fun v hv => hA _ (fun h0 => hv (by rw [← inv' v, h0, map_zero]))⟩

end PCG

/-! ### A concrete instance: `A = P⁻¹ = [[1,1],[0,1]]` on `ℚ × ℚ` -/
section PCGExample

/-- `P (v₁, v₂) = (v₁ − v₂, v₂)`, the inverse of `A2` -/
def P2 : (ℚ × ℚ) →ₗ[ℚ] (ℚ × ℚ) := LinearMap.prod (LinearMap.fst ℚ ℚ ℚ - LinearMap.snd ℚ ℚ ℚ) (LinearMap.snd ℚ ℚ ℚ)

/-- the hypotheses of the PCGLS theorems are satisfiable (non-symmetric `A`, non-trivial preconditioner) -/
lemma pcSetting2 : PCGLSSetting (VOps.ofModule ℚ (ℚ × ℚ) dot2) (VOps.ofModule ℚ (ℚ × ℚ) dot2) A2 At2 P2 A2 At2 :=
  pcglsSetting_of_injective (VOps.ofModule_lawful _ _ _) (VOps.ofModule_lawful _ _ _) dot2_isIP dot2_isIP
    dot2_def (fun v w => by simp [VOps.ofModule, dot2, A2, At2]; ring)
    (fun v w => by simp [VOps.ofModule, dot2, A2, At2]; ring)
    (fun v => by ext <;> simp [A2, P2]) (fun v => by ext <;> simp [A2, P2])
    (fun v hv => by
      have h : dot2 (A2 v) (A2 v) ≠ 0 := fun h0 => hv (by
        have := dot2_def _ h0
        have h1 : v.1 + v.2 = 0 := by simpa [A2] using congrArg Prod.fst this
        have h2 : v.2 = 0 := by simpa [A2] using congrArg Prod.snd this
        exact Prod.ext (by simpa [h2] using h1) h2)
      exact lt_of_le_of_ne (dot2_isIP.nonneg _) (Ne.symm h))

example := pcgls_residual_vanishes (3, 1) 0 (1/2^52) pcSetting2 0 (5, -7) 2 (by simp)
example := pcgls_finite_termination (3, 1) (1/1000) (1/2^52) pcSetting2 (by norm_num) 7 (5, -7) 7 (by simp) (by norm_num) _ rfl
/-- run with `shift = 7`: the *unshifted* equations hold for the result … -/
example : let st := pcgls (VOps.ofModule ℚ (ℚ × ℚ) dot2) (VOps.ofModule ℚ (ℚ × ℚ) dot2) A2 At2 (3, 1) 0 (1/2^52) A2 At2 7 (5, -7) 2
    At2 (A2 st.x) = At2 (3, 1) :=
  (pcgls_run_to_convergence_exact (3, 1) (1/2^52) pcSetting2 7 (5, -7) 2 (by simp) _ rfl).1
/-- … executed: two passes, flag set, `x = (2, 1)` = the solution of `A x = b`, not of the shifted system -/
example : let st := pcgls (VOps.ofModule ℚ (ℚ × ℚ) dot2) (VOps.ofModule ℚ (ℚ × ℚ) dot2) A2 At2 (3, 1) 0 (1/2^52) A2 At2 7 (5, -7) 2
    st.k = 2 ∧ st.flag = true ∧ st.x = (2, 1) := by decide +kernel
example := pcgls_solves_shifted_iff (3, 1) (1/2^52) pcSetting2 7 (5, -7) 2 (by simp) _ rfl
example := pcgls_returns_an_iterate (oV := VOps.ofModule ℚ (ℚ × ℚ) dot2) (oW := VOps.ofModule ℚ (ℚ × ℚ) dot2)
  (3, 1) 0 (1/2^52) A2 At2 A2 At2 7 (5, -7) 2 _ rfl

end PCGExample

/-! ### PCGLS on arrays: the driver's term -/
section PCGArrays

/-- the array instance of the PCGLS setting: `Pim` the (certified) inverse of the preconditioner `Pm` -/
lemma pcArraySetting {m n : ℕ} (M : Mat K m n) (Pm Pim : Mat K n n)
    (hinv : ∀ v : Vector K n, mulVec Pim (mulVec Pm v) = v)
    (hrank : ∀ v : Vector K n, (∃ i : Fin n, v[i] ≠ 0) →
      0 < vdot (mulVec M (mulVec Pim v)) (mulVec M (mulVec Pim v))) :
    PCGLSSetting (vecOps n) (vecOps m) (mulVecL M) (mulVecTL M) (mulVecL Pm) (mulVecL Pim) (mulVecTL Pim) :=
  ⟨vecOps_lawful n, vecOps_lawful m, vdot_isIP n, vdot_isIP m, vdot_definite,
    fun v w => mulVec_adjoint M v w, fun v w => mulVec_adjoint Pim v w, hinv,
    fun v hv => hrank v (exists_entry_ne_zero v hv)⟩

/-- **PCGLS on arrays, run to convergence** (`pcgls (vecOps n) (vecOps m) (mulVec M) (mulVecT M) b 0
    eps (mulVec Pim) (mulVecT Pim) shift x0 maxit` is the term the driver evaluates): `Pim` an inverse
    of the preconditioner matrix `Pm`, `M·Pim` of full column rank, `maxit ≥ n`: the loop is left
    within `max n 1` passes and the returned `x` satisfies `Mᵀ(M x) = Mᵀ b` exactly — the unshifted
    normal equations, for every value of `shift` — and is their only solution. -/
theorem pcgls_run_to_convergence_exact_array {m n : ℕ} (M : Mat K m n) (Pm Pim : Mat K n n)
    (b : Vector K m) (shift eps : K)
    (hinv : ∀ v : Vector K n, mulVec Pim (mulVec Pm v) = v)
    (hrank : ∀ v : Vector K n, (∃ i : Fin n, v[i] ≠ 0) →
      0 < vdot (mulVec M (mulVec Pim v)) (mulVec M (mulVec Pim v)))
    (x0 : Vector K n) (maxit : ℕ) (hn : n ≤ maxit) (st : CGState K (Vector K n) (Vector K m))
    (hst : st = pcgls (vecOps n) (vecOps m) (mulVec M) (mulVecT M) b 0 eps (mulVec Pim) (mulVecT Pim)
      shift x0 maxit) :
    mulVecT M (mulVec M st.x) = mulVecT M b ∧
      (∀ y : Vector K n, mulVecT M (mulVec M y) = mulVecT M b → y = st.x) ∧ st.k ≤ max n 1 := by
  have H := pcArraySetting M Pm Pim hinv hrank
  have := pcgls_run_to_convergence_exact b eps H shift x0 maxit (by rw [vec_finrank]; exact hn) st hst
  rw [vec_finrank] at this
  exact this

/-- **PCGLS on arrays leaves through its flag** (`tol ≥ 0`, `maxit ≥ max n 1`) within `max n 1` passes. -/
theorem pcgls_finite_termination_array {m n : ℕ} (M : Mat K m n) (Pm Pim : Mat K n n)
    (b : Vector K m) (shift tol eps : K)
    (hinv : ∀ v : Vector K n, mulVec Pim (mulVec Pm v) = v)
    (hrank : ∀ v : Vector K n, (∃ i : Fin n, v[i] ≠ 0) →
      0 < vdot (mulVec M (mulVec Pim v)) (mulVec M (mulVec Pim v)))
    (htol : 0 ≤ tol) (x0 : Vector K n) (maxit : ℕ) (hn : n ≤ maxit) (h1 : 1 ≤ maxit)
    (st : CGState K (Vector K n) (Vector K m))
    (hst : st = pcgls (vecOps n) (vecOps m) (mulVec M) (mulVecT M) b tol eps (mulVec Pim) (mulVecT Pim)
      shift x0 maxit) :
    st.flag = true ∧ st.k ≤ max n 1 := by
  have H := pcArraySetting M Pm Pim hinv hrank
  have := pcgls_finite_termination b tol eps H htol shift x0 maxit (by rw [vec_finrank]; exact hn) h1 st hst
  rwa [vec_finrank] at this

/-- preconditioner `P = [[1,−1],[0,1]]` and its inverse `P⁻¹ = [[1,1],[0,1]]` -/
def Pm2 : Mat ℚ 2 2 := #v[#v[1, -1], #v[0, 1]]
def Pim2 : Mat ℚ 2 2 := #v[#v[1, 1], #v[0, 1]]

lemma pim2_inv (v : Vector ℚ 2) : mulVec Pim2 (mulVec Pm2 v) = v := by
  apply vecFn_injective; funext i
  fin_cases i <;> simp [vecFn, mulVec, vdot, Pim2, Pm2]

lemma m32_rank (v : Vector ℚ 2) (hv : ∃ i : Fin 2, v[i] ≠ 0) :
    0 < vdot (mulVec M32 (mulVec Pim2 v)) (mulVec M32 (mulVec Pim2 v)) := by
  have e : vdot (mulVec M32 (mulVec Pim2 v)) (mulVec M32 (mulVec Pim2 v))
      = (v[0] + 2 * v[1]) * (v[0] + 2 * v[1]) + v[1] * v[1] + (v[0] + v[1]) * (v[0] + v[1]) := by
    simp [mulVec, vdot, Pim2, M32]; ring
  rw [e]
  obtain ⟨i, hi⟩ := hv
  fin_cases i
  · have h0 : v[0] ≠ 0 := hi
    by_cases h1 : v[1] = 0
    · rw [h1]; have := mul_self_pos.2 h0; nlinarith
    · have := mul_self_pos.2 h1
      nlinarith [mul_self_nonneg (v[0] + 2 * v[1]), mul_self_nonneg (v[0] + v[1])]
  · have h1 : v[1] ≠ 0 := hi
    have := mul_self_pos.2 h1
    nlinarith [mul_self_nonneg (v[0] + 2 * v[1]), mul_self_nonneg (v[0] + v[1])]

/-- a `3 × 2` problem on arrays with a non-trivial preconditioner and `shift = 5`: the hypotheses hold
    and the theorem gives the unshifted normal equations for the result -/
example : let st := pcgls (vecOps 2) (vecOps 3) (mulVec M32) (mulVecT M32) #v[2, 1, 3] 0 (1/2^52) (mulVec Pim2) (mulVecT Pim2) 5 #v[5, -7] 2
    mulVecT M32 (mulVec M32 st.x) = mulVecT M32 #v[2, 1, 3] :=
  (pcgls_run_to_convergence_exact_array M32 Pm2 Pim2 #v[2, 1, 3] 5 (1/2^52) pim2_inv m32_rank #v[5, -7] 2 le_rfl _ rfl).1
example := pcgls_finite_termination_array M32 Pm2 Pim2 #v[2, 1, 3] 5 (1/1000) (1/2^52) pim2_inv m32_rank
  (by norm_num) #v[5, -7] 4 (by norm_num) (by norm_num) _ rfl
/-- the same run executed by the kernel: two passes, flag set -/
example : let st := pcgls (vecOps 2) (vecOps 3) (mulVec M32) (mulVecT M32) #v[2, 1, 3] 0 (1/2^52) (mulVec Pim2) (mulVecT Pim2) 5 #v[5, -7] 2
    st.k = 2 ∧ st.flag = true := by decide +kernel

end PCGArrays

/-! ## 2. Krylov optimality of the CGLS iterates

`krylov B v k = span{v, B v, …, B^{k-1} v}` (`Submodule.span` of the first `k` iterates of `B` on `v`),
`B = normalOp A At shift = AᵀA + shift·I`, `s₀ = Aᵀ(b − A x₀) − shift·x₀`.  Generic version:
`CGRec.energy_opt`, `CGRec.krylov_ortho_resid` in `Proofs/C16_precond.lean` (abstract recurrence);
the model's iterates are the instance `cglsIter_rec`. -/
section KrylovOpt
variable {V W : Type} [AddCommGroup V] [Module K V] [AddCommGroup W] [Module K W]
variable {oV : VOps K V} {oW : VOps K W} {A : V →ₗ[K] W} {At : W →ₗ[K] V} {shift : K}
variable (b : W) (tol eps : K)

lemma cglsIter_s0 (H : CGLSSetting oV oW A At shift) (gamma0 : K) (x0 : V) :
    (cglsIter oV oW A At b shift tol eps gamma0 x0 0).s = At (b - A x0) - shift • x0 :=
  (cglsIter_resid b tol eps H gamma0 x0 0).1

/-- **The iterates live in the affine Krylov space:** `x_k − x₀ ∈ span{s₀, B s₀, …, B^{k-1} s₀}`,
    and so do residual and direction one step later (`s_k, p_k ∈ K_{k+1}`). -/
theorem cgls_iterates_in_krylov (H : CGLSSetting oV oW A At shift) (gamma0 : K) (x0 : V) (k : ℕ) :
    let st := cglsIter oV oW A At b shift tol eps gamma0 x0
    let Kr := krylov (normalOp A At shift) (At (b - A x0) - shift • x0)
    (st k).x - x0 ∈ Kr k ∧ (st k).s ∈ Kr (k + 1) ∧ (st k).p ∈ Kr (k + 1) := by
  intro st Kr
  have hR := cglsIter_rec b tol eps H gamma0 x0
  have h1 := hR.x_mem_krylov k
  have h2 := hR.s_p_mem_krylov k
  simp only [cglsIter_s0 b tol eps H gamma0 x0] at h1 h2
  exact ⟨h1, h2.1, h2.2⟩

/-- **The residual `s_k` of the shifted normal equations is orthogonal to the whole Krylov space
    `K_k`** (not only to the earlier residuals and directions). -/
theorem cgls_residual_orthogonal_to_krylov (H : CGLSSetting oV oW A At shift) (gamma0 : K) (x0 : V)
    (k : ℕ) (w : V) (hw : w ∈ krylov (normalOp A At shift) (At (b - A x0) - shift • x0) k) :
    oV.dot w (cglsIter oV oW A At b shift tol eps gamma0 x0 k).s = 0 := by
  have hR := cglsIter_rec b tol eps H gamma0 x0
  rw [← cglsIter_s0 b tol eps H gamma0 x0] at hw
  exact hR.krylov_ortho_resid H.spd k hw

/-- **Krylov optimality:** let `x⋆` solve `(AᵀA + shift·I) x⋆ = Aᵀ b` and
    `E(x) = ‖A(x − x⋆)‖² + shift·‖x − x⋆‖²`.  The CGLS iterate `x_k` minimises `E` over the affine
    space `x₀ + span{s₀, B s₀, …, B^{k-1} s₀}`: for every `z` of that span,
    `E(x₀ + z) = E(x_k) + (‖A w‖² + shift‖w‖²)` with `w = x₀ + z − x_k`; hence `E(x_k) ≤ E(x₀ + z)`,
    with equality only for `x₀ + z = x_k`. -/
theorem cgls_krylov_optimal (H : CGLSSetting oV oW A At shift) (gamma0 : K) (x0 xs : V)
    (hxs : At (A xs) + shift • xs = At b) (k : ℕ) (z : V)
    (hz : z ∈ krylov (normalOp A At shift) (At (b - A x0) - shift • x0) k) :
    let xk := (cglsIter oV oW A At b shift tol eps gamma0 x0 k).x
    let E := fun x : V => oW.dot (A (x - xs)) (A (x - xs)) + shift * oV.dot (x - xs) (x - xs)
    E (x0 + z) = E xk + (oW.dot (A (x0 + z - xk)) (A (x0 + z - xk)) + shift * oV.dot (x0 + z - xk) (x0 + z - xk)) ∧
      E xk ≤ E (x0 + z) ∧ (E (x0 + z) ≤ E xk → x0 + z = xk) := by
  intro xk E
  have hR := cglsIter_rec b tol eps H gamma0 x0
  have hres : ∀ m, (cglsIter oV oW A At b shift tol eps gamma0 x0 m).s
      = normalOp A At shift (xs - (cglsIter oV oW A At b shift tol eps gamma0 x0 m).x) := by
    intro m
    rw [(cglsIter_resid b tol eps H gamma0 x0 m).2.1, map_sub, ← hxs, normalOp_apply A At shift xs]
  rw [← cglsIter_s0 b tol eps H gamma0 x0] at hz
  have hopt := hR.energy_opt H.spd xs hres k hz
  have hx0 : (cglsIter oV oW A At b shift tol eps gamma0 x0 0).x = x0 := rfl
  simp only [hx0, H.energy] at hopt
  have hE : E (x0 + z) = E xk + (oW.dot (A (x0 + z - xk)) (A (x0 + z - xk)) + shift * oV.dot (x0 + z - xk) (x0 + z - xk)) := hopt
  have hnn : 0 ≤ oW.dot (A (x0 + z - xk)) (A (x0 + z - xk)) + shift * oV.dot (x0 + z - xk) (x0 + z - xk) := by
    rw [← H.energy]; exact CGRec.energy_nonneg H.spd hR _
  refine ⟨hE, by linarith, fun hle => ?_⟩
  by_contra hne
  have hpos := H.pos (x0 + z - xk) (sub_ne_zero.2 hne)
  linarith

/-- **What `CGLS.solve` returns is Krylov-optimal** (any `tol`, any `maxit`): the returned `x` lies in
    `x₀ + K_k` for the returned counter `k`, and no point of `x₀ + K_k` has a smaller energy error. -/
theorem cgls_returned_point_krylov_optimal (H : CGLSSetting oV oW A At shift) (x0 xs : V)
    (hxs : At (A xs) + shift • xs = At b) (maxit : ℕ) (st : CGState K V W)
    (hst : st = cgls oV oW A At b shift tol eps x0 maxit) :
    let Kr := krylov (normalOp A At shift) (At (b - A x0) - shift • x0) st.k
    let E := fun x : V => oW.dot (A (x - xs)) (A (x - xs)) + shift * oV.dot (x - xs) (x - xs)
    st.x - x0 ∈ Kr ∧ ∀ z ∈ Kr, E st.x ≤ E (x0 + z) := by
  intro Kr E
  obtain ⟨_, e, _, _⟩ := cgls_returns_an_iterate b tol eps A At shift x0 maxit st hst
  constructor
  · have := (cgls_iterates_in_krylov b tol eps H (cglsInit oV oW A At b shift x0).gamma x0 st.k).1
    rw [← e] at this
    exact this
  · intro z hz
    have := (cgls_krylov_optimal b tol eps H (cglsInit oV oW A At b shift x0).gamma x0 xs hxs st.k z hz).2.1
    rw [← e] at this
    exact this

end KrylovOpt

section KrylovOptExample
/-- the Krylov theorems instantiated at `setting2` (`ℚ × ℚ`, `A = [[1,1],[0,1]]`, `shift = ½`): hypotheses
    jointly satisfiable; `z = 2·s₀ ∈ K_1` -/
example := cgls_iterates_in_krylov (3, 1) 0 (1/2^52) setting2 0 (5, -7) 1
example := cgls_residual_orthogonal_to_krylov (3, 1) 0 (1/2^52) setting2 0 (5, -7) 1
  ((2 : ℚ) • (At2 ((3, 1) - A2 (5, -7)) - (1/2 : ℚ) • (5, -7)))
  (Submodule.smul_mem _ _ (mem_krylov _ _ (i := 0) Nat.zero_lt_one))
example := cgls_krylov_optimal (3, 1) 0 (1/2^52) setting2 0 (5, -7) (14/11, 12/11)
  (by simp [A2, At2]; norm_num) 1
  ((2 : ℚ) • (At2 ((3, 1) - A2 (5, -7)) - (1/2 : ℚ) • (5, -7)))
  (Submodule.smul_mem _ _ (mem_krylov _ _ (i := 0) Nat.zero_lt_one))
example := cgls_returned_point_krylov_optimal (3, 1) (1/1000) (1/2^52) setting2 (5, -7) (14/11, 12/11)
  (by simp [A2, At2]; norm_num) 1 _ rfl
end KrylovOptExample

/-! ## 3. ISTA / FISTA: descent, monotone objective, what the stopping rule accepts -/
section ISTA
variable {V W : Type} [AddCommGroup V] [Module K V] [AddCommGroup W] [Module K W]

/-- **Setting for the proximal-gradient theorems**: lawful records, symmetric bilinear `dot`s with
    non-negative squares, `oV.dot` definite, `At` the adjoint of `A`, `C` convex and `g` convex on `C`,
    step size `t > 0`, and the callable `prox` handed to FISTA computes, for this `t`, the proximal
    point of `t·g + ι_C`: `prox v t` minimises `½‖z − v‖² + t·g(z)` over `z ∈ C`. -/
structure ProxGradSetting (oV : VOps K V) (oW : VOps K W) (A : V →ₗ[K] W) (At : W →ₗ[K] V)
    (C : Set V) (g : V → K) (prox : V → K → V) (t : K) : Prop where
  lawV : oV.Lawful
  lawW : oW.Lawful
  ipV : IsIP oV.dot
  ipW : IsIP oW.dot
  defn : ∀ v, oV.dot v v = 0 → v = 0
  adj : ∀ v w, oW.dot (A v) w = oV.dot v (At w)
  convex : ConvexData C g
  tpos : 0 < t
  isProx : ∀ v, IsProxPoint oV.dot C g t v (prox v t)

variable {oV : VOps K V} {oW : VOps K W} {A : V →ₗ[K] W} {At : W →ₗ[K] V}
  {C : Set V} {g : V → K} {prox : V → K → V} {t : K} (b : W)

/-- the model's step is `prox (x − t·Aᵀ(A x − b)) t` in module notation -/
lemma proxGradStep_eq (H : ProxGradSetting oV oW A At C g prox t) (x : V) :
    proxGradStep oV oW A At b prox t x = prox (x - t • lsqGrad A At b x) t := by
  unfold proxGradStep lsqGrad; rw [H.lawV.sub, H.lawV.smul, H.lawW.sub]

lemma proxGradStep_isProx (H : ProxGradSetting oV oW A At C g prox t) (x : V) :
    IsProxPoint oV.dot C g t (x - t • lsqGrad A At b x) (proxGradStep oV oW A At b prox t x) := by
  rw [proxGradStep_eq b H]; exact H.isProx _

/-- **Descent lemma (abstract form).**  `ipE`, `ipF` symmetric bilinear with non-negative squares,
    `At` adjoint to `A`, `g` convex on the convex set `C`, `‖A d‖² ≤ L·‖d‖²` for all `d` (`L` an upper
    bound of the largest eigenvalue of `AᵀA`), `0 < t`, `t·L ≤ 1`, `x ∈ C`, and `p` the proximal point of
    `x − t·Aᵀ(Ax − b)`.  Then `F(p) + ‖p − x‖²/(2t) ≤ F(x)` for `F = ½‖A·−b‖² + g`. -/
theorem ista_descent {E F : Type} [AddCommGroup E] [Module K E] [AddCommGroup F] [Module K F]
    (ipE : E → E → K) (ipF : F → F → K) (A : E →ₗ[K] F) (At : F →ₗ[K] E) (b : F)
    (hE : IsIP ipE) (hF : IsIP ipF) (hadj : ∀ d w, ipF (A d) w = ipE d (At w))
    (C : Set E) (g : E → K) (hCg : ConvexData C g) (t L : K) (ht : 0 < t)
    (hL : ∀ d, ipF (A d) (A d) ≤ L * ipE d d) (htL : t * L ≤ 1) (x p : E) (hx : x ∈ C)
    (hp : IsProxPoint ipE C g t (x - t • lsqGrad A At b x) p) :
    lsq ipF A b p + g p + ipE (p - x) (p - x) / (2 * t) ≤ lsq ipF A b x + g x :=
  proxgrad_descent b hE hF hadj hCg ht hL htL hx hp

/-- **Fixed point of the model's proximal-gradient map ⇔ minimiser** (`ista_fixed_point_iff_min`
    composed with uniqueness of the proximal point): for `x ∈ C`,
    `proxGradStep … x = x` iff `x` minimises `½‖A z − b‖² + g(z)` over `C`. -/
theorem ista_step_fixed_iff_min (H : ProxGradSetting oV oW A At C g prox t) (x : V) (hx : x ∈ C) :
    proxGradStep oV oW A At b prox t x = x
      ↔ ∀ z ∈ C, lsq oW.dot A b x + g x ≤ lsq oW.dot A b z + g z := by
  rw [← ista_fixed_point_iff_min oV.dot oW.dot A At b H.ipV H.ipW H.adj C g H.convex t H.tpos x hx]
  constructor
  · intro h
    have := proxGradStep_isProx b H x
    rwa [h] at this
  · intro h
    exact IsProxPoint.unique H.ipV H.defn H.convex H.tpos.le h (proxGradStep_isProx b H x)

/-- **One ISTA step never increases the objective** (`t ≤ 1/L`): the step lands in `C`, and for
    `x ∈ C`: `F(T x) + ‖T x − x‖²/(2t) ≤ F(x)`, `T = proxGradStep`. -/
theorem ista_step_descent (H : ProxGradSetting oV oW A At C g prox t) (L : K)
    (hL : ∀ d, oW.dot (A d) (A d) ≤ L * oV.dot d d) (htL : t * L ≤ 1) (x : V) :
    let T := proxGradStep oV oW A At b prox t
    T x ∈ C ∧ (x ∈ C → lsq oW.dot A b (T x) + g (T x) + oV.dot (T x - x) (T x - x) / (2 * t)
      ≤ lsq oW.dot A b x + g x) := by
  intro T
  have hp := proxGradStep_isProx b H x
  exact ⟨hp.1, fun hx => proxgrad_descent b H.ipV H.ipW H.adj H.convex H.tpos hL htL hx hp⟩

/-- **The ISTA objective is non-increasing along the iteration** `x_{k+1} = T x_k` from `x₀ ∈ C`,
    and the squared steps are summable: `Σ_{k<N} ‖x_{k+1} − x_k‖² ≤ 2t·(F(x₀) − F(x_N))` (so the
    quantity tested by the stopping rule becomes small: some `k < N` has
    `‖x_{k+1} − x_k‖² ≤ 2t·(F(x₀) − inf F)/N`). -/
theorem ista_objective_nonincreasing (H : ProxGradSetting oV oW A At C g prox t) (L : K)
    (hL : ∀ d, oW.dot (A d) (A d) ≤ L * oV.dot d d) (htL : t * L ≤ 1) (x0 : V) (hx0 : x0 ∈ C) :
    let T := proxGradStep oV oW A At b prox t
    let F := fun z : V => lsq oW.dot A b z + g z
    (∀ k, T^[k] x0 ∈ C ∧ F (T^[k + 1] x0) ≤ F (T^[k] x0)) ∧
      (∀ N, ∑ k ∈ Finset.range N, oV.dot (T^[k + 1] x0 - T^[k] x0) (T^[k + 1] x0 - T^[k] x0)
        ≤ 2 * t * (F x0 - F (T^[N] x0))) := by
  intro T F
  have hmem : ∀ k, T^[k] x0 ∈ C := by
    intro k
    cases k with
    | zero => exact hx0
    | succ k => rw [Function.iterate_succ_apply']; exact (ista_step_descent b H L hL htL _).1
  have hstep : ∀ k, F (T^[k + 1] x0) + oV.dot (T^[k + 1] x0 - T^[k] x0) (T^[k + 1] x0 - T^[k] x0) / (2 * t)
      ≤ F (T^[k] x0) := by
    intro k
    have := (ista_step_descent b H L hL htL (T^[k] x0)).2 (hmem k)
    rw [Function.iterate_succ_apply']
    exact this
  have ht := H.tpos
  refine ⟨fun k => ⟨hmem k, ?_⟩, fun N => ?_⟩
  · have h1 := hstep k
    have h2 : 0 ≤ oV.dot (T^[k + 1] x0 - T^[k] x0) (T^[k + 1] x0 - T^[k] x0) / (2 * t) :=
      div_nonneg (H.ipV.nonneg _) (by linarith)
    linarith
  · induction N with
    | zero => simp
    | succ N ih =>
      rw [Finset.sum_range_succ]
      have h1 := hstep N
      have h3 : oV.dot (T^[N + 1] x0 - T^[N] x0) (T^[N + 1] x0 - T^[N] x0)
          = 2 * t * (oV.dot (T^[N + 1] x0 - T^[N] x0) (T^[N + 1] x0 - T^[N] x0) / (2 * t)) := by
        field_simp
      have h4 := mul_le_mul_of_nonneg_left h1 (by linarith : (0 : K) ≤ 2 * t)
      linarith

/-- **Three-point inequality of the ISTA step** (`t ≤ 1/L`): for every `y` (also outside `C`) and
    every `z ∈ C`: `2t·(F(T y) − F(z)) ≤ ‖z − y‖² − ‖z − T y‖²`.  With `z = y` it is the descent
    lemma; with `z` a minimiser it says each step moves closer to every minimiser; summed it gives
    `ista_rate`. -/
theorem ista_three_point (H : ProxGradSetting oV oW A At C g prox t) (L : K)
    (hL : ∀ d, oW.dot (A d) (A d) ≤ L * oV.dot d d) (htL : t * L ≤ 1) (y z : V) (hz : z ∈ C) :
    let T := proxGradStep oV oW A At b prox t
    let F := fun z : V => lsq oW.dot A b z + g z
    2 * t * (F (T y) - F z) ≤ oV.dot (z - y) (z - y) - oV.dot (z - T y) (z - T y) := by
  intro T F
  exact proxgrad_three_point b H.ipV H.ipW H.adj H.convex H.tpos hL htL hz (proxGradStep_isProx b H y)

/-- **`O(1/k)` rate of ISTA — the objective values converge to the minimum:** for the iterates
    `x_k = T^[k] x₀` (any start, also outside `C`), every `k` and every `z ∈ C` (in particular a
    minimiser): `2t·k·(F(x_k) − F(z)) ≤ ‖z − x₀‖²`.  This is the quantitative replacement, valid in
    any ordered field, for "every limit point of the iterates is a minimiser". -/
theorem ista_rate (H : ProxGradSetting oV oW A At C g prox t) (L : K)
    (hL : ∀ d, oW.dot (A d) (A d) ≤ L * oV.dot d d) (htL : t * L ≤ 1) (x0 z : V) (hz : z ∈ C) (k : ℕ) :
    let T := proxGradStep oV oW A At b prox t
    let F := fun z : V => lsq oW.dot A b z + g z
    2 * t * (k : K) * (F (T^[k] x0) - F z) ≤ oV.dot (z - x0) (z - x0) := by
  intro T F
  have hT : T x0 ∈ C := (ista_step_descent b H L hL htL x0).1
  have hmono := (ista_objective_nonincreasing b H L hL htL (T x0) hT).1
  have hiter : ∀ j, T^[j + 1] x0 = T^[j] (T x0) := fun j => Function.iterate_succ_apply _ _ _
  -- telescoped three-point inequality
  have hsum : ∀ n, 2 * t * ∑ j ∈ Finset.range n, (F (T^[j + 1] x0) - F z)
      ≤ oV.dot (z - x0) (z - x0) - oV.dot (z - T^[n] x0) (z - T^[n] x0) := by
    intro n
    induction n with
    | zero => simp
    | succ n ih =>
      rw [Finset.sum_range_succ, mul_add]
      have h3 : 2 * t * (F (T (T^[n] x0)) - F z)
          ≤ oV.dot (z - T^[n] x0) (z - T^[n] x0) - oV.dot (z - T (T^[n] x0)) (z - T (T^[n] x0)) :=
        ista_three_point b H L hL htL (T^[n] x0) z hz
      rw [Function.iterate_succ_apply' T n x0]
      linarith
  -- monotonicity: the last value is the smallest
  have hlast : ∀ n j, j < n → F (T^[n] x0) ≤ F (T^[j + 1] x0) := by
    intro n j hj
    obtain ⟨i, rfl⟩ := Nat.exists_eq_add_of_le (Nat.succ_le_of_lt hj)
    induction i with
    | zero => exact le_rfl
    | succ i ih =>
      have h1 : j.succ + (i + 1) = (j + i) + 1 + 1 := by omega
      have h2 : j.succ + i = (j + i) + 1 := by omega
      have := (hmono (j + i)).2
      rw [← hiter, ← hiter] at this
      rw [h1]
      rw [h2] at ih
      exact le_trans this (ih (by omega))
  have hk : (k : K) * (F (T^[k] x0) - F z) ≤ ∑ j ∈ Finset.range k, (F (T^[j + 1] x0) - F z) := by
    have : ∑ _j ∈ Finset.range k, (F (T^[k] x0) - F z) ≤ ∑ j ∈ Finset.range k, (F (T^[j + 1] x0) - F z) :=
      Finset.sum_le_sum (fun j hj => by
        have := hlast k j (Finset.mem_range.1 hj)
        linarith)
    rwa [Finset.sum_const, Finset.card_range, nsmul_eq_mul] at this
  have h2t : (0 : K) ≤ 2 * t := by have := H.tpos; linarith
  have := mul_le_mul_of_nonneg_left hk h2t
  have hnn := H.ipV.nonneg (z - T^[k] x0)
  have := hsum k
  nlinarith

/-- **What ISTA (`adaptive = False`) returns is not worse than its start:** the returned point is the
    iterate `T^[k] x₀` for the returned counter `k ≥ 1`, it lies in `C`, and `F(returned) ≤ F(x₀)` for
    `x₀ ∈ C` (for any `x₀`: `F(returned) ≤ F(T x₀)`), whatever `abstol` and `maxit`. -/
theorem ista_returned_not_worse (H : ProxGradSetting oV oW A At C g prox t) (L : K)
    (hL : ∀ d, oW.dot (A d) (A d) ≤ L * oV.dot d d) (htL : t * L ≤ 1) (abstol : K) (maxit : ℕ) (x0 : V) :
    let T := proxGradStep oV oW A At b prox t
    let F := fun z : V => lsq oW.dot A b z + g z
    let r := fista oV oW A At b prox t abstol maxit false x0
    1 ≤ r.2 ∧ r.1 = T^[r.2] x0 ∧ r.1 ∈ C ∧ F r.1 ≤ F (T x0) ∧ (x0 ∈ C → F r.1 ≤ F x0) := by
  intro T F r
  obtain ⟨k, hk, e⟩ := ista_returns_iterate oV oW A At b prox t abstol maxit x0
  have e' : r = (T^[k] x0, k) := e
  obtain ⟨k', rfl⟩ := Nat.exists_eq_add_of_le' hk
  have hT : T x0 ∈ C := (ista_step_descent b H L hL htL x0).1
  have hmono := (ista_objective_nonincreasing b H L hL htL (T x0) hT).1
  have hiter : ∀ j, T^[j + 1] x0 = T^[j] (T x0) := fun j => Function.iterate_succ_apply _ _ _
  have hle : ∀ j, F (T^[j] (T x0)) ≤ F (T x0) := by
    intro j
    induction j with
    | zero => exact le_rfl
    | succ j ih => exact le_trans (hmono j).2 ih
  rw [e']
  refine ⟨hk, rfl, ?_, ?_, fun hx0 => ?_⟩
  · show T^[k' + 1] x0 ∈ C
    rw [hiter]; exact (hmono k').1
  · show F (T^[k' + 1] x0) ≤ F (T x0)
    rw [hiter]; exact hle k'
  · show F (T^[k' + 1] x0) ≤ F x0
    rw [hiter]
    exact le_trans (hle k') ((ista_objective_nonincreasing b H L hL htL x0 hx0).1 0).2

/-- **With `abstol = 0` the stopping rule accepts only minimisers** (ISTA and FISTA): if the solver
    returns before the iteration budget is used up (`k < maxit`), the returned point is an exact fixed
    point of the proximal-gradient map, hence lies in `C` and minimises `½‖A z − b‖² + g(z)` over `C`.
    (In an ordered field there is no topology: "a limit point that the rule accepts" is exactly such a
    point — `‖x_new − x_old‖ ≤ 0`.) -/
theorem fista_accepts_only_minimisers (H : ProxGradSetting oV oW A At C g prox t) (maxit : ℕ)
    (adaptive : Bool) (x0 : V) :
    let r := fista oV oW A At b prox t 0 maxit adaptive x0
    r.2 < maxit → proxGradStep oV oW A At b prox t r.1 = r.1 ∧ r.1 ∈ C ∧
      ∀ z ∈ C, lsq oW.dot A b r.1 + g r.1 ≤ lsq oW.dot A b z + g z := by
  intro r hk
  obtain ⟨y, hy, hstop⟩ := fista_stop_sound oV oW A At b prox t 0 maxit adaptive x0
  rcases hstop with ⟨_, hsmall⟩ | hmax
  · have hyr : r.1 = y := by
      have h0 : oV.nrm2 (oV.sub r.1 y) ≤ 0 := by simpa using hsmall
      have := H.defn _ (le_antisymm h0 (H.ipV.nonneg _))
      rw [H.lawV.sub] at this
      exact sub_eq_zero.1 this
    have hfix : proxGradStep oV oW A At b prox t r.1 = r.1 := by
      have : r.1 = proxGradStep oV oW A At b prox t y := hy
      rw [← hyr] at this; exact this.symm
    have hC : r.1 ∈ C := by
      have := (proxGradStep_isProx b H r.1).1
      rwa [hfix] at this
    exact ⟨hfix, hC, (ista_step_fixed_iff_min b H r.1 hC).1 hfix⟩
  · exact absurd hmax (not_le.2 hk)

end ISTA

/-! ### The three shipped regularisers on arrays

`nonnegSet n`, `boxSet l u`, `l1norm`, `lsqArr M b z = ½‖M z − b‖²` (record operations) are defined in
`Proofs/C16_precond.lean`.  The callables are the ones the driver (and `harness/props/c16.py`) hand to
`FISTA`: `fun v g => proximalL1 v (lam * g)`, `fun v _ => projectNonnegative v`,
`fun v _ => projectBox v lower upper`. -/
section ArrayRegularisers

/-- **Convexity instance 1:** the non-negative orthant is convex (`g = 0` on it). -/
theorem nonneg_orthant_convex (n : ℕ) : ConvexData (K := K) (nonnegSet (K := K) n) (fun _ => 0) :=
  nonneg_convexData n

/-- **Convexity instance 2:** every box `l ≤ z ≤ u` is convex (`g = 0` on it). -/
theorem box_convex {n : ℕ} (l u : Vector K n) : ConvexData (K := K) (boxSet l u) (fun _ => 0) :=
  box_convexData l u

/-- **Convexity instance 3:** `z ↦ λ‖z‖₁` (`λ ≥ 0`) is convex on the whole space. -/
theorem l1_convex (n : ℕ) (lam : K) (hlam : 0 ≤ lam) :
    ConvexData (K := K) (Set.univ : Set (Vector K n)) (fun z => lam * l1norm z) :=
  l1_convexData n lam hlam

/-- **`ProjectNonnegative` is the proximal map of the indicator of the orthant** for the array dot
    product `vdot` (any `t`): the `IsProxPoint` hypothesis of `ista_fixed_point_iff_min`. -/
theorem projectNonnegative_isProx_array {n : ℕ} (t : K) (v : Vector K n) :
    IsProxPoint vdot (nonnegSet n) (fun _ => (0 : K)) t v (projectNonnegative v) := by
  refine ⟨fun i => ?_, fun z hz => ?_⟩
  · have e : (projectNonnegative v)[i] = projNonneg1 v[i] := by simp [projectNonnegative]
    rw [e]; exact (projNonneg1_strong v[i] 0 le_rfl).1
  · have h := (nonneg_is_projection v z hz).2
    rw [vdot_sub_self, vdot_sub_self]
    have hnn : 0 ≤ ∑ i : Fin n, (z[i] - (projectNonnegative v)[i]) ^ 2 :=
      Finset.sum_nonneg (fun i _ => sq_nonneg _)
    linarith

/-- **`ProjectBox` (explicit or default `None` bounds) is the proximal map of the indicator of its box**,
    `l = lower or zeros`, `u = upper or ones`, `l ≤ u`. -/
theorem projectBox_isProx_array {n : ℕ} (lower upper : Option (Vector K n))
    (hlu : ∀ i : Fin n, (lower.getD (Vector.replicate n 0))[i] ≤ (upper.getD (Vector.replicate n 1))[i])
    (t : K) (v : Vector K n) :
    IsProxPoint vdot (boxSet (lower.getD (Vector.replicate n 0)) (upper.getD (Vector.replicate n 1)))
      (fun _ => (0 : K)) t v (projectBox v lower upper) := by
  set l := lower.getD (Vector.replicate n 0) with hl
  set u := upper.getD (Vector.replicate n 1) with hu
  have e : projectBox v lower upper = projectBox v (some l) (some u) := rfl
  rw [e]
  refine ⟨fun i => ?_, fun z hz => ?_⟩
  · have e' : (projectBox v (some l) (some u))[i] = projBox1 v[i] l[i] u[i] := by simp [projectBox]
    rw [e']; exact projBox1_mem _ _ _ (hlu i)
  · have h := (box_is_projection v l u z hlu hz).2
    rw [vdot_sub_self, vdot_sub_self]
    have hnn : 0 ≤ ∑ i : Fin n, (z[i] - (projectBox v (some l) (some u))[i]) ^ 2 :=
      Finset.sum_nonneg (fun i _ => sq_nonneg _)
    linarith

/-- **`ProximalL1(·, λ·t)` is the proximal map of `t·λ‖·‖₁`** (`λ, t ≥ 0`) for `vdot`. -/
theorem proximalL1_isProx_array {n : ℕ} (lam t : K) (hlam : 0 ≤ lam) (ht : 0 ≤ t) (v : Vector K n) :
    IsProxPoint vdot (Set.univ : Set (Vector K n)) (fun z => lam * l1norm z) t v (proximalL1 v (lam * t)) := by
  refine ⟨trivial, fun z _ => ?_⟩
  have h := soft_threshold_is_prox v z (lam * t) (mul_nonneg hlam ht)
  have split : ∀ w : Vector K n, ∑ i : Fin n, ((w[i] - v[i]) ^ 2 / 2 + lam * t * |w[i]|)
      = vdot (w - v) (w - v) / 2 + t * (lam * l1norm w) := by
    intro w
    rw [vdot_sub_self, Finset.sum_add_distrib, ← Finset.sum_div, ← Finset.mul_sum]
    unfold l1norm; ring
  rw [split, split] at h
  have hnn : 0 ≤ ∑ i : Fin n, (z[i] - (proximalL1 v (lam * t))[i]) ^ 2 / 2 :=
    Finset.sum_nonneg (fun i _ => by positivity)
  linarith

variable {m n : ℕ} (M : Mat K m n) (b : Vector K m)

/-- **Lawfulness instance for arrays** (re-using the ingredients of `arraySetting`): the array
    operations, `vdot`, `mulVec M`/`mulVecT M` and any callable computing a proximal point form a
    `ProxGradSetting`. -/
lemma arrayProxGradSetting (C : Set (Vector K n)) (g : Vector K n → K) (prox : Vector K n → K → Vector K n)
    (t : K) (hCg : ConvexData (K := K) C g) (ht : 0 < t) (hprox : ∀ v, IsProxPoint vdot C g t v (prox v t)) :
    ProxGradSetting (vecOps n) (vecOps m) (mulVecL M) (mulVecTL M) C g prox t :=
  ⟨vecOps_lawful n, vecOps_lawful m, vdot_isIP n, vdot_isIP m, vdot_definite,
    fun v w => mulVec_adjoint M v w, hCg, ht, hprox⟩

lemma l1Setting (lam t : K) (hlam : 0 ≤ lam) (ht : 0 < t) :
    ProxGradSetting (vecOps n) (vecOps m) (mulVecL M) (mulVecTL M) Set.univ (fun z => lam * l1norm z)
      (fun v g => proximalL1 v (lam * g)) t :=
  arrayProxGradSetting M _ _ _ t (l1_convex n lam hlam) ht (fun v => proximalL1_isProx_array lam t hlam ht.le v)

lemma nonnegSetting (t : K) (ht : 0 < t) :
    ProxGradSetting (vecOps n) (vecOps m) (mulVecL M) (mulVecTL M) (nonnegSet n) (fun _ => 0)
      (fun v _ => projectNonnegative v) t :=
  arrayProxGradSetting M _ _ _ t (nonneg_orthant_convex n) ht (fun v => projectNonnegative_isProx_array t v)

lemma boxSetting (lower upper : Option (Vector K n))
    (hlu : ∀ i : Fin n, (lower.getD (Vector.replicate n 0))[i] ≤ (upper.getD (Vector.replicate n 1))[i])
    (t : K) (ht : 0 < t) :
    ProxGradSetting (vecOps n) (vecOps m) (mulVecL M) (mulVecTL M)
      (boxSet (lower.getD (Vector.replicate n 0)) (upper.getD (Vector.replicate n 1))) (fun _ => 0)
      (fun v _ => projectBox v lower upper) t :=
  arrayProxGradSetting M _ _ _ t (box_convex _ _) ht (fun v => projectBox_isProx_array lower upper hlu t v)

/-! #### `γ‖·‖₁` -/

/-- **ISTA/FISTA with `ProximalL1` on arrays — fixed point ⇔ minimiser:** `x` is a fixed point of the
    step `x ↦ ProximalL1(x − t·Mᵀ(Mx − b), λ·t)` iff it minimises `½‖M z − b‖² + λ‖z‖₁` over all `z`. -/
theorem ista_l1_fixed_point_iff_min_array (lam t : K) (hlam : 0 ≤ lam) (ht : 0 < t) (x : Vector K n) :
    proxGradStep (vecOps n) (vecOps m) (mulVec M) (mulVecT M) b (fun v g => proximalL1 v (lam * g)) t x = x
      ↔ ∀ z : Vector K n, lsqArr M b x + lam * l1norm x ≤ lsqArr M b z + lam * l1norm z := by
  have := ista_step_fixed_iff_min b (l1Setting M lam t hlam ht) x trivial
  simp only [Set.mem_univ, forall_const] at this
  exact this

/-- **… descent:** for `t·L ≤ 1` (`‖M d‖² ≤ L‖d‖²`) one step does not increase
    `F(z) = ½‖M z − b‖² + λ‖z‖₁` (`F(T x) + ‖T x − x‖²/(2t) ≤ F(x)`), and what `FISTA(…, adaptive=False)`
    returns has `F(returned) ≤ F(x0)`. -/
theorem ista_l1_descent_array (lam t L : K) (hlam : 0 ≤ lam) (ht : 0 < t)
    (hL : ∀ d : Vector K n, vdot (mulVec M d) (mulVec M d) ≤ L * vdot d d) (htL : t * L ≤ 1)
    (abstol : K) (maxit : ℕ) (x : Vector K n) :
    let prox := fun (v : Vector K n) (g : K) => proximalL1 v (lam * g)
    let T := proxGradStep (vecOps n) (vecOps m) (mulVec M) (mulVecT M) b prox t
    let F := fun z : Vector K n => lsqArr M b z + lam * l1norm z
    F (T x) + vdot ((vecOps n).sub (T x) x) ((vecOps n).sub (T x) x) / (2 * t) ≤ F x ∧
      F (fista (vecOps n) (vecOps m) (mulVec M) (mulVecT M) b prox t abstol maxit false x).1 ≤ F x := by
  intro prox T F
  have H := l1Setting (m := m) M lam t hlam ht
  exact ⟨(ista_step_descent b H L hL htL x).2 trivial,
    (ista_returned_not_worse b H L hL htL abstol maxit x).2.2.2.2 trivial⟩

/-- **… `O(1/k)` rate:** for the ISTA iterates `x_k = T^[k] x₀` and every `z`:
    `2t·k·(F(x_k) − F(z)) ≤ ‖z − x₀‖²`, `F(z) = ½‖M z − b‖² + λ‖z‖₁` — the objective values converge to
    the minimum.  (For the two projections the same statement is `ista_rate` at `nonnegSetting` /
    `boxSetting`.) -/
theorem ista_l1_rate_array (lam t L : K) (hlam : 0 ≤ lam) (ht : 0 < t)
    (hL : ∀ d : Vector K n, vdot (mulVec M d) (mulVec M d) ≤ L * vdot d d) (htL : t * L ≤ 1)
    (x0 z : Vector K n) (k : ℕ) :
    let T := proxGradStep (vecOps n) (vecOps m) (mulVec M) (mulVecT M) b (fun v g => proximalL1 v (lam * g)) t
    let F := fun z : Vector K n => lsqArr M b z + lam * l1norm z
    2 * t * (k : K) * (F (T^[k] x0) - F z) ≤ vdot ((vecOps n).sub z x0) ((vecOps n).sub z x0) := by
  intro T F
  exact ista_rate b (l1Setting M lam t hlam ht) L hL htL x0 z trivial k

/-- **… stopping rule at `abstol = 0`:** if `FISTA`/`ISTA` returns before `maxit`, the returned point
    minimises `½‖M z − b‖² + λ‖z‖₁`. -/
theorem fista_l1_accepted_is_minimiser_array (lam t : K) (hlam : 0 ≤ lam) (ht : 0 < t) (maxit : ℕ)
    (adaptive : Bool) (x0 : Vector K n) :
    let r := fista (vecOps n) (vecOps m) (mulVec M) (mulVecT M) b (fun v g => proximalL1 v (lam * g)) t 0
      maxit adaptive x0
    r.2 < maxit → ∀ z : Vector K n, lsqArr M b r.1 + lam * l1norm r.1 ≤ lsqArr M b z + lam * l1norm z := by
  intro r hk z
  exact (fista_accepts_only_minimisers b (l1Setting M lam t hlam ht) maxit adaptive x0 hk).2.2 z trivial

/-! #### indicator of the non-negative orthant -/

/-- **`ProjectNonnegative` — fixed point ⇔ minimiser:** for `x ≥ 0`, `x` is a fixed point of
    `x ↦ max(x − t·Mᵀ(Mx − b), 0)` iff it minimises `½‖M z − b‖²` over `z ≥ 0`. -/
theorem ista_nonneg_fixed_point_iff_min_array (t : K) (ht : 0 < t) (x : Vector K n)
    (hx : ∀ i : Fin n, 0 ≤ x[i]) :
    proxGradStep (vecOps n) (vecOps m) (mulVec M) (mulVecT M) b (fun v _ => projectNonnegative v) t x = x
      ↔ ∀ z : Vector K n, (∀ i : Fin n, 0 ≤ z[i]) → lsqArr M b x ≤ lsqArr M b z := by
  have := ista_step_fixed_iff_min b (nonnegSetting M t ht) x hx
  simp only [add_zero] at this
  exact this

/-- **… descent** (`t·L ≤ 1`): the step lands in the orthant; from `x ≥ 0` it does not increase
    `½‖M z − b‖²`; what `FISTA(…, adaptive=False)` returns is `≥ 0` and not worse than `x`. -/
theorem ista_nonneg_descent_array (t L : K) (ht : 0 < t)
    (hL : ∀ d : Vector K n, vdot (mulVec M d) (mulVec M d) ≤ L * vdot d d) (htL : t * L ≤ 1)
    (abstol : K) (maxit : ℕ) (x : Vector K n) (hx : ∀ i : Fin n, 0 ≤ x[i]) :
    let prox := fun (v : Vector K n) (_ : K) => projectNonnegative v
    let T := proxGradStep (vecOps n) (vecOps m) (mulVec M) (mulVecT M) b prox t
    let r := fista (vecOps n) (vecOps m) (mulVec M) (mulVecT M) b prox t abstol maxit false x
    (∀ i : Fin n, 0 ≤ (T x)[i]) ∧
      lsqArr M b (T x) + vdot ((vecOps n).sub (T x) x) ((vecOps n).sub (T x) x) / (2 * t) ≤ lsqArr M b x ∧
      (∀ i : Fin n, 0 ≤ r.1[i]) ∧ lsqArr M b r.1 ≤ lsqArr M b x := by
  intro prox T r
  have H := nonnegSetting (m := m) M t ht
  have h1 := ista_step_descent b H L hL htL x
  have h2 := ista_returned_not_worse b H L hL htL abstol maxit x
  refine ⟨h1.1, ?_, h2.2.2.1, ?_⟩
  · have := h1.2 hx; simp only [add_zero] at this; exact this
  · have := h2.2.2.2.2 hx; simp only [add_zero] at this; exact this

/-- **… stopping rule at `abstol = 0`:** a point returned before `maxit` is `≥ 0` and minimises
    `½‖M z − b‖²` over `z ≥ 0`. -/
theorem fista_nonneg_accepted_is_minimiser_array (t : K) (ht : 0 < t) (maxit : ℕ) (adaptive : Bool)
    (x0 : Vector K n) :
    let r := fista (vecOps n) (vecOps m) (mulVec M) (mulVecT M) b (fun v _ => projectNonnegative v) t 0
      maxit adaptive x0
    r.2 < maxit → (∀ i : Fin n, 0 ≤ r.1[i]) ∧
      ∀ z : Vector K n, (∀ i : Fin n, 0 ≤ z[i]) → lsqArr M b r.1 ≤ lsqArr M b z := by
  intro r hk
  have h := fista_accepts_only_minimisers b (nonnegSetting M t ht) maxit adaptive x0 hk
  refine ⟨h.2.1, fun z hz => ?_⟩
  have := h.2.2 z hz; simp only [add_zero] at this; exact this

/-! #### indicator of a box (`lower`/`upper` given or `None` → `[0,1]ⁿ`) -/

/-- **`ProjectBox` — fixed point ⇔ minimiser:** for `x` in the box, `x` is a fixed point of
    `x ↦ clip(x − t·Mᵀ(Mx − b), l, u)` iff it minimises `½‖M z − b‖²` over the box. -/
theorem ista_box_fixed_point_iff_min_array (lower upper : Option (Vector K n))
    (hlu : ∀ i : Fin n, (lower.getD (Vector.replicate n 0))[i] ≤ (upper.getD (Vector.replicate n 1))[i])
    (t : K) (ht : 0 < t) (x : Vector K n)
    (hx : x ∈ boxSet (lower.getD (Vector.replicate n 0)) (upper.getD (Vector.replicate n 1))) :
    proxGradStep (vecOps n) (vecOps m) (mulVec M) (mulVecT M) b (fun v _ => projectBox v lower upper) t x = x
      ↔ ∀ z ∈ boxSet (lower.getD (Vector.replicate n 0)) (upper.getD (Vector.replicate n 1)),
          lsqArr M b x ≤ lsqArr M b z := by
  have := ista_step_fixed_iff_min b (boxSetting M lower upper hlu t ht) x hx
  simp only [add_zero] at this
  exact this

/-- **… descent** (`t·L ≤ 1`): the step lands in the box; from `x` in the box it does not increase
    `½‖M z − b‖²`; what `FISTA(…, adaptive=False)` returns is in the box and not worse than `x`. -/
theorem ista_box_descent_array (lower upper : Option (Vector K n))
    (hlu : ∀ i : Fin n, (lower.getD (Vector.replicate n 0))[i] ≤ (upper.getD (Vector.replicate n 1))[i])
    (t L : K) (ht : 0 < t)
    (hL : ∀ d : Vector K n, vdot (mulVec M d) (mulVec M d) ≤ L * vdot d d) (htL : t * L ≤ 1)
    (abstol : K) (maxit : ℕ) (x : Vector K n)
    (hx : x ∈ boxSet (lower.getD (Vector.replicate n 0)) (upper.getD (Vector.replicate n 1))) :
    let prox := fun (v : Vector K n) (_ : K) => projectBox v lower upper
    let T := proxGradStep (vecOps n) (vecOps m) (mulVec M) (mulVecT M) b prox t
    let r := fista (vecOps n) (vecOps m) (mulVec M) (mulVecT M) b prox t abstol maxit false x
    let B := boxSet (lower.getD (Vector.replicate n 0)) (upper.getD (Vector.replicate n 1))
    T x ∈ B ∧
      lsqArr M b (T x) + vdot ((vecOps n).sub (T x) x) ((vecOps n).sub (T x) x) / (2 * t) ≤ lsqArr M b x ∧
      r.1 ∈ B ∧ lsqArr M b r.1 ≤ lsqArr M b x := by
  intro prox T r B
  have H := boxSetting (m := m) M lower upper hlu t ht
  have h1 := ista_step_descent b H L hL htL x
  have h2 := ista_returned_not_worse b H L hL htL abstol maxit x
  refine ⟨h1.1, ?_, h2.2.2.1, ?_⟩
  · have := h1.2 hx; simp only [add_zero] at this; exact this
  · have := h2.2.2.2.2 hx; simp only [add_zero] at this; exact this

/-- **… stopping rule at `abstol = 0`:** a point returned before `maxit` lies in the box and minimises
    `½‖M z − b‖²` over it. -/
theorem fista_box_accepted_is_minimiser_array (lower upper : Option (Vector K n))
    (hlu : ∀ i : Fin n, (lower.getD (Vector.replicate n 0))[i] ≤ (upper.getD (Vector.replicate n 1))[i])
    (t : K) (ht : 0 < t) (maxit : ℕ) (adaptive : Bool) (x0 : Vector K n) :
    let r := fista (vecOps n) (vecOps m) (mulVec M) (mulVecT M) b (fun v _ => projectBox v lower upper) t 0
      maxit adaptive x0
    let B := boxSet (lower.getD (Vector.replicate n 0)) (upper.getD (Vector.replicate n 1))
    r.2 < maxit → r.1 ∈ B ∧ ∀ z ∈ B, lsqArr M b r.1 ≤ lsqArr M b z := by
  intro r B hk
  have h := fista_accepts_only_minimisers b (boxSetting M lower upper hlu t ht) maxit adaptive x0 hk
  refine ⟨h.2.1, fun z hz => ?_⟩
  have := h.2.2 z hz; simp only [add_zero] at this; exact this

end ArrayRegularisers

/-! ### Concrete instances: `M32 = [[1,1],[0,1],[1,0]]`, `b = (2,1,3)`; `MᵀM = [[2,1],[1,2]]` has largest
eigenvalue `3`, so `L = 3` and `t = 1/4 ≤ 1/L` -/
section ISTAExamples

lemma m32_L (d : Vector ℚ 2) : vdot (mulVec M32 d) (mulVec M32 d) ≤ 3 * vdot d d := by
  have e : vdot (mulVec M32 d) (mulVec M32 d) = (d[0] + d[1]) * (d[0] + d[1]) + d[1] * d[1] + d[0] * d[0] := by
    simp [mulVec, vdot, M32]; ring
  have e' : vdot d d = d[0] * d[0] + d[1] * d[1] := by simp [vdot]
  rw [e, e']; nlinarith [sq_nonneg (d[0] - d[1])]

/-- the generic theorems at the array setting with `γ‖·‖₁`, `γ = 1/2`, `t = 1/4`, `L = 3` -/
example := ista_objective_nonincreasing (#v[2, 1, 3] : Vector ℚ 3) (l1Setting M32 (1/2) (1/4) (by norm_num) (by norm_num))
  3 m32_L (by norm_num) #v[5, -7] trivial
example := ista_returned_not_worse (#v[2, 1, 3] : Vector ℚ 3) (l1Setting M32 (1/2) (1/4) (by norm_num) (by norm_num))
  3 m32_L (by norm_num) (1/100) 20 #v[5, -7]
example := ista_three_point (#v[2, 1, 3] : Vector ℚ 3) (l1Setting M32 (1/2) (1/4) (by norm_num) (by norm_num))
  3 m32_L (by norm_num) #v[5, -7] #v[1, 1] trivial
example := ista_rate (#v[2, 1, 3] : Vector ℚ 3) (nonnegSetting M32 (1/4) (by norm_num))
  3 m32_L (by norm_num) #v[5, -7] #v[1, 1] (by intro i; fin_cases i <;> simp) 10
example := ista_step_descent (#v[2, 1, 3] : Vector ℚ 3) (nonnegSetting M32 (1/4) (by norm_num)) 3 m32_L (by norm_num) #v[5, -7]
example := ista_step_fixed_iff_min (#v[2, 1, 3] : Vector ℚ 3) (boxSetting M32 none none (by intro i; fin_cases i <;> simp) (1/4) (by norm_num))
example := fista_accepts_only_minimisers (#v[2, 1, 3] : Vector ℚ 3) (l1Setting M32 100 (1/4) (by norm_num) (by norm_num)) 9 true #v[1, 1]
example := ista_descent (vdot : Vector ℚ 2 → _) (vdot : Vector ℚ 3 → _) (mulVecL M32) (mulVecTL M32) #v[2, 1, 3]
  (vdot_isIP 2) (vdot_isIP 3) (fun v w => mulVec_adjoint M32 v w) _ _ (nonneg_orthant_convex 2) (1/4) 3 (by norm_num)
  m32_L (by norm_num) #v[5, 7] _ (by intro i; fin_cases i <;> simp)
  (projectNonnegative_isProx_array (1/4) _)

/-- the array theorems instantiated (hypotheses jointly satisfiable) -/
example := ista_l1_fixed_point_iff_min_array M32 #v[2, 1, 3] (1/2) (1/4) (by norm_num) (by norm_num) #v[5, -7]
example := ista_l1_descent_array M32 #v[2, 1, 3] (1/2) (1/4) 3 (by norm_num) (by norm_num) m32_L (by norm_num) (1/100) 20 #v[5, -7]
example := ista_l1_rate_array M32 #v[2, 1, 3] (1/2) (1/4) 3 (by norm_num) (by norm_num) m32_L (by norm_num) #v[5, -7] #v[1, 1] 10
example := fista_l1_accepted_is_minimiser_array M32 #v[2, 1, 3] 100 (1/4) (by norm_num) (by norm_num) 9 true #v[1, 1]
example := ista_nonneg_fixed_point_iff_min_array M32 #v[2, 1, 3] (1/4) (by norm_num) #v[5, 7] (by intro i; fin_cases i <;> simp)
example := ista_nonneg_descent_array M32 #v[2, 1, 3] (1/4) 3 (by norm_num) m32_L (by norm_num) (1/100) 20 #v[5, 7]
  (by intro i; fin_cases i <;> simp)
example := fista_nonneg_accepted_is_minimiser_array M32 #v[2, 1, 3] (1/4) (by norm_num) 9 false #v[5, 7]
example := ista_box_fixed_point_iff_min_array M32 #v[2, 1, 3] none none (by intro i; fin_cases i <;> simp) (1/4) (by norm_num)
  #v[1/2, 1] (by intro i; fin_cases i <;> simp <;> norm_num)
example := ista_box_descent_array M32 #v[2, 1, 3] none none (by intro i; fin_cases i <;> simp) (1/4) 3 (by norm_num) m32_L
  (by norm_num) (1/100) 20 #v[1/2, 1] (by intro i; fin_cases i <;> simp <;> norm_num)
example := fista_box_accepted_is_minimiser_array M32 #v[2, 1, 3] none none (by intro i; fin_cases i <;> simp) 1 (by norm_num) 9 false #v[0, 0]

/-- the premise `k < maxit` at `abstol = 0` does occur: `γ = 100` (solution `0`), FISTA stops after 2 passes;
    default box with `t = 1` (solution the corner `(1,1)`), ISTA stops after 2 passes -/
example : (fista (vecOps 2) (vecOps 3) (mulVec M32) (mulVecT M32) #v[2, 1, 3]
    (fun v g => proximalL1 v (100 * g)) (1/4 : ℚ) 0 9 true #v[1, 1]).2 < 9 := by decide +kernel
example : fista (vecOps 2) (vecOps 3) (mulVec M32) (mulVecT M32) #v[2, 1, 3]
    (fun v _ => projectBox v none none) (1 : ℚ) 0 9 false #v[0, 0] = (#v[1, 1], 2) := by decide +kernel

end ISTAExamples

/-! ## 4. Levenberg–Marquardt: the accept test and the sum of squares -/
section LMmonotone
variable {V W M : Type}

/-- **What one LM pass does, and why an accepted step cannot go uphill** (no hypothesis on the leaf
    `insolve`; `lmTrial = x − s`, `lmDen = (xtemp − x)ᵀg`, `lmFtemp = ½‖r(xtemp)‖²`, `lmRatio` the gain
    ratio of the code): a rejected pass (`ratio < 0`) leaves `x`, `r`, `f` unchanged; an accepted pass
    moves to the trial point, and **if the trial direction is a descent direction (`den < 0`) then
    `½‖r(xtemp)‖² ≤ ½‖r(x)‖²`** — by the accept test `ratio = −2·(f − ftemp)/den ≥ 0`. -/
theorem lm_accepted_step_decreases (oV : VOps K V) (oW : VOps K W) (res : V → W) (jac : V → M)
    (jtv : M → W → V) (insolve : M → K → V → V) (nu0 : K) (st : LMState K V W M) :
    let st' := lmStep oV oW res jac jtv insolve nu0 st
    (lmRatio oV oW res insolve st < 0 → st'.x = st.x ∧ st'.f = st.f ∧ st'.r = st.r) ∧
    (¬ lmRatio oV oW res insolve st < 0 →
      st'.x = lmTrial oV insolve st ∧ st'.f = half * oW.nrm2 (res st'.x) ∧ st'.r = res st'.x ∧
        (lmDen oV insolve st < 0 → st'.f ≤ st.f)) := by
  intro st'
  obtain ⟨h1, h2⟩ := lmStep_x_f oV oW res jac jtv insolve nu0 st
  refine ⟨h1, fun h => ?_⟩
  obtain ⟨hx, hf, hr⟩ := h2 h
  refine ⟨hx, ?_, ?_, fun hden => ?_⟩
  · rw [hf, hx]; rfl
  · rw [hr, hx]
  · rw [hf]; exact lm_accept_le oV oW res insolve st hden h

variable [AddCommGroup V] [Module K V] [AddCommGroup W] [Module K W]
variable {oV : VOps K V} {oW : VOps K W} {res : V → W} {jac : V → M} {jtv : M → W → V} {jv : M → V → W}
  {insolve : M → K → V → V}

/-- **One pass of the loop body never increases the sum of squares** when the linear solve is correct
    (`LMSetting`: `(JᵀJ + ν I) s = Jᵀ r`), the damping is `≥ 0`, the state satisfies the loop invariant
    (`r = A(x)`, `J = jacfun(x)`, `g = Jᵀr`, `f = ½‖r‖²`) and the gradient is non-zero (which the loop
    condition guarantees for `gradtol ≥ 0`): the trial direction is then a descent direction
    (`den = −(‖J s‖² + ν‖s‖²) < 0`), so `‖r(x')‖² ≤ ‖r(x)‖²`; the damping stays `≥ 0`. -/
theorem lm_step_sum_of_squares_monotone (H : LMSetting oV oW res jac jtv jv insolve) (nu0 : K)
    (st : LMState K V W M) (hinv : LMInv oV oW res jac jtv st) (hnu : 0 ≤ st.nu) (hg : st.g ≠ 0) :
    let st' := lmStep oV oW res jac jtv insolve nu0 st
    lmDen oV insolve st < 0 ∧ oW.nrm2 (res st'.x) ≤ oW.nrm2 (res st.x) ∧ 0 ≤ st'.nu ∧
      LMInv oV oW res jac jtv st' := by
  intro st'
  have hden := H.den_neg st hinv hnu hg
  have hinv' := lmStep_inv oV oW res jac jtv insolve nu0 st hinv
  have hf := lmStep_f_le oV oW res jac jtv insolve nu0 st hden
  refine ⟨hden, ?_, lmStep_nu_nonneg oV oW res jac jtv insolve nu0 st hnu, hinv'⟩
  have e1 : st'.f = half * oW.nrm2 (res st'.x) := by rw [hinv'.2.2.2.2, hinv'.1]
  have e2 : st.f = half * oW.nrm2 (res st.x) := by rw [hinv.2.2.2.2, hinv.1]
  rw [e1, e2] at hf
  exact le_of_mul_le_mul_left hf half_pos'

/-- **Monotone decrease of `‖r‖²` along the LM iteration:** with a correct linear solve, initial
    damping `≥ 0` (the code uses `‖g₀‖`) and `gradtol ≥ 0`, the point `LM.solve` returns has
    `‖A(x)‖² ≤ ‖A(x0)‖²` — every pass is either rejected (nothing changes) or accepted with
    `‖r‖²` not increased — whatever `maxit`, `nu0`. -/
theorem lm_sum_of_squares_monotone (H : LMSetting oV oW res jac jtv jv insolve) (nu0 gradtol : K)
    (hgt : 0 ≤ gradtol) (x0 : V) (nuInit : K) (hnu : 0 ≤ nuInit) (maxit : ℕ) (st : LMState K V W M)
    (hst : st = lm oV oW res jac jtv insolve nu0 gradtol x0 nuInit maxit) :
    oW.nrm2 (res st.x) ≤ oW.nrm2 (res x0) := by
  subst hst
  have hinv0 := lmInit_inv oV oW res jac jtv x0 nuInit
  have hf := lmLoop_f_le (nu0 := nu0) (gradtol := gradtol) H hgt (lmInit oV oW res jac jtv x0 nuInit).ng2
    (H.ipV.nonneg _) maxit _ hinv0 hnu
  have hinv := (lm_inv oV oW res jac jtv insolve nu0 gradtol x0 nuInit maxit).1
  have e1 : (lm oV oW res jac jtv insolve nu0 gradtol x0 nuInit maxit).f
      = half * oW.nrm2 (res (lm oV oW res jac jtv insolve nu0 gradtol x0 nuInit maxit).x) := by
    rw [hinv.2.2.2.2, hinv.1]
  have e2 : (lmInit oV oW res jac jtv x0 nuInit).f = half * oW.nrm2 (res x0) := rfl
  have hf' : (lm oV oW res jac jtv insolve nu0 gradtol x0 nuInit maxit).f
      ≤ (lmInit oV oW res jac jtv x0 nuInit).f := hf
  rw [e1, e2] at hf'
  exact le_of_mul_le_mul_left hf' half_pos'

end LMmonotone

section LMExample
/-- scalar instance: `r(x) = 2x − 6`, `J = 2`, `insolve J ν g = g/(J² + ν)` — the hypotheses hold -/
lemma lmSetting1 : LMSetting (VOps.ofModule ℚ ℚ (· * ·)) (VOps.ofModule ℚ ℚ (· * ·)) (fun x : ℚ => 2 * x - 6)
    (fun _ => (2 : ℚ)) (fun J r => J * r) (fun J v => J * v) (fun J nu g => g / (J * J + nu)) :=
  ⟨VOps.ofModule_lawful _ _ _,
    ⟨fun a b c => by simp [VOps.ofModule]; ring, fun t a c => by simp [VOps.ofModule]; ring,
      fun a b => by simp [VOps.ofModule]; ring, fun a => by simp [VOps.ofModule]; exact mul_self_nonneg a⟩,
    ⟨fun a b c => by simp [VOps.ofModule]; ring, fun t a c => by simp [VOps.ofModule]; ring,
      fun a b => by simp [VOps.ofModule]; ring, fun a => by simp [VOps.ofModule]; exact mul_self_nonneg a⟩,
    fun v h => by simpa [VOps.ofModule] using h, fun v h => by simpa [VOps.ofModule] using h,
    fun J v w => by simp [VOps.ofModule]; ring,
    fun x ν hν => by
      have : (2 : ℚ) * 2 + ν ≠ 0 := by positivity
      simp only [smul_eq_mul]; field_simp⟩

example := lm_sum_of_squares_monotone lmSetting1 (1/1000) (1/10) (by norm_num) 0 12 (by norm_num) 50 _ rfl
example := lm_step_sum_of_squares_monotone lmSetting1 (1/1000)
  (lmInit (VOps.ofModule ℚ ℚ (· * ·)) (VOps.ofModule ℚ ℚ (· * ·)) (fun x : ℚ => 2 * x - 6) (fun _ => (2 : ℚ)) (fun J r => J * r) 0 12)
  (lmInit_inv _ _ _ _ _ _ _) (by norm_num [lmInit]) (by norm_num [lmInit])
example := lm_accepted_step_decreases (VOps.ofModule ℚ ℚ (· * ·)) (VOps.ofModule ℚ ℚ (· * ·)) (fun x : ℚ => 2 * x - 6)
  (fun _ => (2 : ℚ)) (fun J r => J * r) (fun J nu g => g / (J * J + nu)) (1/1000)
  (lmInit (VOps.ofModule ℚ ℚ (· * ·)) (VOps.ofModule ℚ ℚ (· * ·)) (fun x : ℚ => 2 * x - 6) (fun _ => (2 : ℚ)) (fun J r => J * r) 0 12)
/-- executed: the run of `Props/C16.lean` (start `0`, `‖r(0)‖² = 36`) ends with `‖r‖² < 1` -/
example : (VOps.ofModule ℚ ℚ (· * ·)).nrm2 ((fun x : ℚ => 2 * x - 6)
    (lm (VOps.ofModule ℚ ℚ (· * ·)) (VOps.ofModule ℚ ℚ (· * ·)) (fun x => 2 * x - 6) (fun _ => (2 : ℚ))
      (fun J r => J * r) (fun J nu g => g / (J * J + nu)) (1/1000) (1/10) 0 12 50).x) < 1 := by decide +kernel
end LMExample

end CuqiVerif.C16
