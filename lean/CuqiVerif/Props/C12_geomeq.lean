import CuqiVerif.Model.C12_geomeq
import Mathlib.Tactic.Ring

/-!
# C12 — `Geometry.__eq__` as a computation (session 3, second pass)

Statements about `geomEqD` / `geomEqWith` / `varsLoop` / `arrEquiv` of `Model/C12_geomeq.lean`, the
definitions the driver op `geq` executes: the relation that decides in `Model._2fun` / `_2par` whether a
CUQIarray's geometry counts as the model's.  It is reflexive (on geometries with distinct attribute
names whose values compare equal to themselves — no NaN), it is gated by the class, it is **not**
symmetric, and Python's reflected-operand rule makes `Continuous1D(grid) == StepExpansion(grid)` false
although every attribute of the left operand agrees.
-/

namespace CuqiVerif.C12

/-- `np.array_equiv(a, a)` for an array of rank ≤ 2 (entries compared as canonical strings: no NaN) -/
theorem arrEquiv_refl (s : List Nat) (d : List String) (p : Nat × Nat) (h : shape2 s = some p) :
    arrEquiv s d s d = some true := by
  obtain ⟨r, c⟩ := p
  simp only [arrEquiv, h]
  have h1 : dimCompat r r = true := by simp [dimCompat]
  have h2 : dimCompat c c = true := by simp [dimCompat]
  simp [h1, h2]

example : shape2 [2, 3] = some (2, 3) := rfl

/-- a value compares equal to itself in the loop of `_all_values_equal` (tuples / lists are compared
    item by item there, everything else by `np.array_equiv`) -/
def SelfEq (ve : AVal → AVal → Option Bool) : AVal → Prop
  | .seq a => seqAll ve a a = some true
  | v => ve v v = some true

lemma hasKey_of_mem (k : String) (v : AVal) (vars : List (String × AVal)) (h : (k, v) ∈ vars) :
    hasKey k vars = true := by
  simp only [hasKey, List.any_eq_true]
  exact ⟨(k, v), h, by simp⟩

lemma touchObj_of_mem (k : String) (v : AVal) (vars : List (String × AVal)) (pd : Nat) (h : (k, v) ∈ vars) :
    touchObj k vars pd = vars := by
  have hk := hasKey_of_mem k v vars h
  unfold touchObj
  by_cases h1 : k = "_variables"
  · subst h1
    simp [hk]
  · by_cases h2 : k = "_variable_name"
    · subst h2
      simp [hk]
    · simp [h1, h2]

lemma lookup_of_mem_nodup (k : String) (v : AVal) :
    ∀ vars : List (String × AVal), (vars.map Prod.fst).Nodup → (k, v) ∈ vars → vars.lookup k = some v := by
  intro vars
  induction vars with
  | nil => intro _ h; cases h
  | cons p ps ih =>
    intro hn hm
    obtain ⟨k', v'⟩ := p
    simp only [List.map_cons, List.nodup_cons] at hn
    rcases List.mem_cons.1 hm with h | h
    · cases h
      simp [List.lookup]
    · have hne : k ≠ k' := by
        rintro rfl
        exact hn.1 (List.mem_map.2 ⟨(k, v), h, rfl⟩)
      have : (k == k') = false := by simpa using hne
      simp [List.lookup, this, ih hn.2 h]

lemma varsLoop_refl (ve : AVal → AVal → Option Bool) (pd : Nat) (vars : List (String × AVal))
    (hn : (vars.map Prod.fst).Nodup) :
    ∀ rest : List (String × AVal), (∀ p ∈ rest, p ∈ vars) → (∀ p ∈ rest, SelfEq ve p.2) →
      varsLoop ve pd rest vars = some true := by
  intro rest
  induction rest with
  | nil => intros; rfl
  | cons p ps ih =>
    intro hsub hself
    obtain ⟨k, v⟩ := p
    have hm : (k, v) ∈ vars := hsub _ (List.mem_cons_self ..)
    have hs : SelfEq ve v := hself _ (List.mem_cons_self ..)
    have hrest := ih (fun q hq => hsub q (List.mem_cons_of_mem _ hq)) (fun q hq => hself q (List.mem_cons_of_mem _ hq))
    simp only [varsLoop, touchObj_of_mem k v vars pd hm, lookup_of_mem_nodup k v vars hn hm]
    cases v with
    | seq a =>
      simp only [SelfEq] at hs
      simp [hs, hrest]
    | arr s d =>
      simp only [SelfEq] at hs
      simp [hs, hrest]
    | geom m kd p' vs =>
      simp only [SelfEq] at hs
      simp [hs, hrest]

/-- **`g == g` is `True`** for every geometry object whose attribute names are distinct (they are: a
    `dict`) and whose attribute values compare equal to themselves — and comparing an object with itself
    adds no attribute to it (`_variables` / `_variable_name` are only generated on the *other* operand
    when it lacks them).  `SelfEq` holds for arrays of rank ≤ 2 without NaN (`arrEquiv_refl`), for
    tuples / lists of such, and — by this theorem again, one unit of fuel lower — for nested geometries. -/
theorem geomEq_refl (ve : AVal → AVal → Option Bool) (mro : List Nat) (kind pd : Nat)
    (vars : List (String × AVal)) (hm : mro ≠ []) (hn : (vars.map Prod.fst).Nodup)
    (hself : ∀ p ∈ vars, SelfEq ve p.2) :
    geomEqWith ve (.geom mro kind pd vars) (.geom mro kind pd vars) = some true := by
  have hc : mro.contains (mro.headD 0) = true := by
    cases mro with
    | nil => exact absurd rfl hm
    | cons a as => simp
  simp only [geomEqWith, bne_self_eq_false, Bool.false_and, Bool.false_eq_true, if_false, geomDunderEq, hc,
    Bool.true_or, Bool.not_true]
  exact varsLoop_refl ve pd vars hn vars (fun _ h => h) hself

/-- reflexivity for the flat shipped geometries (`Continuous1D/2D`, `Discrete`, `Image2D`, the default
    geometries, `KLExpansion`, `StepExpansion`, …): every attribute an array / scalar of rank ≤ 2 or a
    tuple / list of such -/
def FlatVal : AVal → Prop
  | .arr s _ => (shape2 s).isSome
  | .seq items => ∀ v ∈ items, ∃ s d, v = .arr s d ∧ (shape2 s).isSome
  | .geom .. => False

lemma seqAll_refl_flat (f : Nat) : ∀ items : List AVal, (∀ v ∈ items, ∃ s d, v = AVal.arr s d ∧ (shape2 s).isSome) →
    seqAll (valEquiv (f + 1)) items items = some true := by
  intro items
  induction items with
  | nil => intro _; rfl
  | cons v vs ih =>
    intro h
    obtain ⟨s, d, rfl, hs⟩ := h v (List.mem_cons_self ..)
    obtain ⟨p, hp⟩ := Option.isSome_iff_exists.1 hs
    have : valEquiv (f + 1) (.arr s d) (.arr s d) = some true := by
      simp [valEquiv, arrEquiv_refl s d p hp]
    simp only [seqAll, this]
    exact ih (fun w hw => h w (List.mem_cons_of_mem _ hw))

theorem geomEq_refl_flat (f : Nat) (mro : List Nat) (kind pd : Nat) (vars : List (String × AVal))
    (hm : mro ≠ []) (hn : (vars.map Prod.fst).Nodup) (hflat : ∀ p ∈ vars, FlatVal p.2) :
    geomEqD (f + 1) (.geom mro kind pd vars) (.geom mro kind pd vars) = some true := by
  refine geomEq_refl _ mro kind pd vars hm hn ?_
  intro p hp
  have := hflat p hp
  obtain ⟨k, v⟩ := p
  cases v with
  | arr s d =>
    simp only [FlatVal] at this
    obtain ⟨q, hq⟩ := Option.isSome_iff_exists.1 this
    simp [SelfEq, valEquiv, arrEquiv_refl s d q hq]
  | seq items =>
    simp only [FlatVal] at this
    simpa [SelfEq] using seqAll_refl_flat f items this
  | geom m kd p' vs => simp [FlatVal] at this

/-- `Continuous1D(arange 3)`, `_DefaultGeometry1D(3)`, `KLExpansion` and `StepExpansion` on the same grid -/
def exC1D : AVal := .geom [1, 0] 0 3 [("axis_labels", .arr [] ["None"]), ("_grid", .arr [3] ["0", "1", "2"])]
def exDefault1D : AVal := .geom [9, 1, 0] 1 3 [("axis_labels", .arr [] ["None"]), ("_grid", .arr [3] ["0", "1", "2"])]
def exKL : AVal := .geom [5, 1, 0] 0 2 [("axis_labels", .arr [] ["None"]), ("_grid", .arr [3] ["0", "1", "2"]),
  ("_num_modes", .arr [] ["2"])]
def exDiscrete4 : AVal := .geom [6, 0] 0 4 [("_variables", .seq [.arr [] ["s:v0"], .arr [] ["s:v1"], .arr [] ["s:v2"], .arr [] ["s:v3"]]),
  ("_ids", .arr [4] ["0", "1", "2", "3"])]

example : geomEqD 1 exC1D exC1D = some true :=
  geomEq_refl_flat 0 _ _ _ _ (by simp) (by decide) (by
    intro p hp
    simp only [List.mem_cons, List.not_mem_nil, or_false] at hp
    rcases hp with rfl | rfl <;> simp [FlatVal, shape2])

/-- **The class gate**: when the right operand is not an instance of the left operand's class (and the
    left operand is not a default geometry facing a `Continuous1D` / `Image2D`), `==` is `False`
    whatever the attributes are — nothing is compared and nothing is added to either object. -/
theorem geomEq_class_gate (fuel : Nat) (mro mro' : List Nat) (kind kind' pd pd' : Nat)
    (vars vars' : List (String × AVal)) (h : mro'.contains (mro.headD 0) = false)
    (hk : kind = 0 ∨ (kind = 1 ∧ mro'.contains clsContinuous1D = false) ∨ (kind = 2 ∧ mro'.contains clsImage2D = false)) :
    geomEqD fuel (.geom mro kind pd vars) (.geom mro' kind' pd' vars') = some false := by
  simp only [geomEqD, geomEqWith, h, Bool.and_false, Bool.false_eq_true, if_false, geomDunderEq, Bool.false_or]
  rcases hk with rfl | ⟨rfl, h1⟩ | ⟨rfl, h2⟩
  · simp
  · have h1' : clsContinuous1D ∉ mro' := by simpa using h1
    simp [h1']
  · have h2' : clsImage2D ∉ mro' := by simpa using h2
    simp [h2']

example : geomEqD 3 exC1D exDiscrete4 = some false :=
  geomEq_class_gate 3 _ _ _ _ _ _ _ _ (by decide) (Or.inl rfl)

/-- **`==` is not symmetric, and equal does not mean same maps** (negation of symmetry; the loose equality
    behind known finding 4): the default geometry accepts every `Continuous1D` subclass whose grid and
    labels agree — `_DefaultGeometry1D(3) == KLExpansion(arange 3)` is `True` — while
    `KLExpansion(arange 3) == _DefaultGeometry1D(3)` is `False` (class gate). -/
theorem geomEq_not_symmetric_counterexample :
    geomEqD 2 exDefault1D exKL = some true ∧ geomEqD 2 exKL exDefault1D = some false := by
  constructor <;> decide

/-- **Python's reflected-operand rule decides**: `Continuous1D(arange 3) == KLExpansion(arange 3)`
    evaluates `KLExpansion.__eq__(right, left)` first (the right operand's type is a proper subclass and
    `Geometry.__eq__` never returns `NotImplemented`), which fails the class gate: `False` — although
    `Continuous1D.__eq__(left, right)` on its own would say `True`. -/
theorem geomEq_reflected_counterexample :
    geomEqD 2 exC1D exKL = some false ∧ geomDunderEq (valEquiv 2) exC1D exKL = some true := by
  constructor <;> decide

end CuqiVerif.C12
