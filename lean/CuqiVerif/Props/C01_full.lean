import CuqiVerif.Props.C01
import CuqiVerif.Proofs.C01_full

/-!
# C01 — the composed theorems ("full" strength)

`docs/C01.md` listed as *not delivered*: `condition_logd` as one theorem **through every branch
of `_reduce_to_single_density`**, the several-steps corollary for the reduced objects, and
`logd_refuses_iff` as one iff.  This file delivers them.  Everything is about the definitions of
`CuqiVerif/Model/C01.lean` that the driver runs (`condJoint`, `reduce`, `mkPost`, `mkMLP`,
`jointCheck`, `condPost`, `condDens`, `Obj.cond`, `Obj.logd`, `Obj.setName`, …), at an arbitrary
value type `V` and an arbitrary additive commutative monoid `K` of log-density values, with
uninterpreted factor log-densities (`WF`: unique names, every parameter has a prior, locality).

Vocabulary (definitions in `Proofs/C01_full.lean`):

* `freshJoint Fs` — the freshly constructed `JointDistribution(*Fs)`.
* `Step V` — one statement of a conditioning program: `call args kw` (`obj = obj(*args, **kw)`)
  or `setName n` (`obj.name = n`); `runSteps o steps` runs a program; `runAssign o steps` is the
  keyword assignment it accumulates (the keywords of each call, then its positional arguments
  paired with the parameter names *of the object the call is applied to*).
* `RunOK o steps` — every call is admissible for the object it is applied to (`StepOK`): not too
  many positional arguments, nothing given twice; for the reduced objects moreover no
  `_main_parameter` keyword and at least one usable keyword if only keywords are passed — for
  the `Posterior` created by the reduction the usable keyword is its *own name*, which is unset:
  this is exactly the known finding `cond:Posterior:keyword:unnamed:raises`
  (`posterior_keyword_refused` below is its general form).
* `Refused names args kw` — the evaluation call is malformed: too many ∨ doubly specified ∨
  missing ∨ unknown.
-/
namespace CuqiVerif.C01

variable {V K : Type} [AddCommMonoid K]

/-! ## The reduction, branch by branch -/

/-- **Which branch of `_reduce_to_single_density` is taken, for every well-formed graph and every
    assignment.**  The conditioning call never raises; with `nd` variables left free and `nl`
    fixed variables that still depend on a free one, it returns a `JointDistribution`
    (`nd ≠ 1`), a `Distribution` carrying the constants (`nd = 1, nl = 0`), a `Posterior`
    carrying the constants (`nd = 1, nl = 1`; the "parameter names differ ⇒ stay joint" guard is
    never taken) or a `MultipleLikelihoodPosterior` (`nd = 1, nl ≥ 2`; all constructor checks
    pass).  The lone-`Likelihood` branch and the fall-through returning `None` are unreachable
    (`nd = 0 ⇒ nl = 0`: every parameter has a prior).  The object's parameter names are the free
    variables in density order. -/
theorem reduce_branches (Fs : List (Factor V K)) (hw : WF Fs) (σ : Kw V) :
    ∃ o, condJoint .plain (Fs.map fresh) [] σ = .ok o ∧
      o.kind = branchKind ((Fs.map (st σ)).filter Dens.isDist).length
                          ((Fs.map (st σ)).filter Dens.isLik).length ∧
      (((Fs.map (st σ)).filter Dens.isDist).length = 0 →
        ((Fs.map (st σ)).filter Dens.isLik).length = 0) ∧
      o.paramNames = (Fs.filter (fun F => decide (F.name ∉ kwKeys σ))).map (·.name) := by
  have hfresh : Fs.map fresh = Fs.map (st ([] : Kw V)) := by
    apply List.map_congr_left; intro F _; exact (st_fresh F).symm
  rw [hfresh, condition_steps Fs hw.fok, List.nil_append]
  obtain ⟨o, ho, hr, hk, _⟩ := reduce_rep Fs hw σ .plain (by decide)
  refine ⟨o, ho, ?_, ?_, ?_⟩
  · rw [filter_isDist_map, filter_isLik_map]
    simpa only [List.length_map] using hk rfl
  · intro h0
    have hjn : jointNames (Fs.map (st σ)) = [] := by
      rw [jointNames_eq]
      rw [filter_isDist_map, List.length_map, List.length_eq_zero_iff] at h0
      rw [h0]; rfl
    rw [filter_isLik_map, no_lik Fs hw σ hjn]; rfl
  · rw [rep_paramNames Fs hw σ o hr, jointNames_st]

/-! ## `condition_logd` through `JointDistribution.__call__`, every branch -/

/-- **`condition_logd` at full strength (one call).**  For every well-formed model graph, every
    keyword assignment `σ` (any subset of the variables, any order; unknown keywords are ignored
    by the joint) and every keyword evaluation `τ` naming exactly the variables `σ` leaves free,
    the object returned by `joint(**σ)` — **whichever branch of `_reduce_to_single_density`
    produced it** (joint / `MultipleLikelihoodPosterior` / `Posterior` + constants /
    `Distribution` + constants / constants only) — evaluates at `τ` to the joint log-density at
    the complete assignment.  This is `condition_logd_partial` without its hypothesis that the
    result stays a joint. -/
theorem condition_logd [Stackable V] (Fs : List (Factor V K)) (hw : WF Fs) (σ τ : Kw V)
    (hτ : ∀ n, n ∈ kwKeys τ ↔ n ∈ Fs.map (·.name) ∧ n ∉ kwKeys σ) :
    ∃ o, condJoint .plain (Fs.map fresh) [] σ = .ok o ∧ o.logd [] τ = .ok (total Fs (σ ++ τ)) := by
  have hfresh : Fs.map fresh = Fs.map (st ([] : Kw V)) := by
    apply List.map_congr_left; intro F _; exact (st_fresh F).symm
  rw [hfresh, condition_steps Fs hw.fok, List.nil_append]
  obtain ⟨o, ho, hr, _, _⟩ := reduce_rep Fs hw σ .plain (by decide)
  refine ⟨o, ho, ?_⟩
  have hnr : ¬ Refused o.paramNames ([] : List V) τ :=
    not_refused_kw _ τ (fun n => by rw [rep_paramNames Fs hw σ o hr, mem_jointNames]; exact hτ n)
  simpa using rep_logd_ok Fs hw σ o hr [] τ hnr

/-! ## Any number of steps, any grouping, positional or keyword -/

/-- **`condition_logd` for programs.**  Start from the fresh joint and apply any admissible
    program of conditioning calls — any number of steps, any grouping of the variables over the
    steps, positional and/or keyword arguments in every step, `posterior.name = …` statements in
    between — passing through joints, multiple-likelihood posteriors, Posteriors, single
    distributions and evaluated densities.  The program runs without an exception, and the final
    object evaluates, at any `τ` naming exactly the variables still free, to the joint
    log-density at (everything fixed along the way) ∪ `τ`. -/
theorem condition_logd_steps [Stackable V] (Fs : List (Factor V K)) (hw : WF Fs)
    (steps : List (Step V)) (hok : RunOK (freshJoint Fs) steps) (τ : Kw V)
    (hτ : ∀ n, n ∈ kwKeys τ ↔
      n ∈ Fs.map (·.name) ∧ n ∉ kwKeys (runAssign (freshJoint Fs) steps)) :
    ∃ o, runSteps (freshJoint Fs) steps = .ok o ∧
      o.logd [] τ = .ok (total Fs (runAssign (freshJoint Fs) steps ++ τ)) := by
  obtain ⟨o, ho, hr⟩ := rep_run Fs hw steps [] (freshJoint Fs) (rep_fresh Fs) hok
  rw [List.nil_append] at hr
  refine ⟨o, ho, ?_⟩
  have hnr : ¬ Refused o.paramNames ([] : List V) τ :=
    not_refused_kw _ τ (fun n => by rw [rep_paramNames Fs hw _ o hr, mem_jointNames]; exact hτ n)
  simpa using rep_logd_ok Fs hw _ o hr [] τ hnr

/-- **Evaluation by position, by keyword or mixed.**  The object reached by an admissible program
    evaluates *every* call that is not malformed — positional arguments in parameter order,
    keywords in any order, or (for joints) a mixture — to the joint log-density at the
    assignment the call amounts to. -/
theorem condition_logd_call [Stackable V] (Fs : List (Factor V K)) (hw : WF Fs)
    (steps : List (Step V)) (hok : RunOK (freshJoint Fs) steps) :
    ∃ o, runSteps (freshJoint Fs) steps = .ok o ∧
      o.paramNames = (Fs.filter (fun F =>
        decide (F.name ∉ kwKeys (runAssign (freshJoint Fs) steps)))).map (·.name) ∧
      ∀ (args : List V) (kw : Kw V), ¬ Refused o.paramNames args kw →
        o.logd args kw =
          .ok (total Fs (runAssign (freshJoint Fs) steps ++ (kw ++ o.paramNames.zip args))) := by
  obtain ⟨o, ho, hr⟩ := rep_run Fs hw steps [] (freshJoint Fs) (rep_fresh Fs) hok
  rw [List.nil_append] at hr
  exact ⟨o, ho, by rw [rep_paramNames Fs hw _ o hr, jointNames_st],
    fun args kw h => rep_logd_ok Fs hw _ o hr args kw h⟩

/-- **`logd_refuses_iff`.**  For the object reached by an admissible program (in particular the
    fresh joint: empty program), an evaluation call raises **if and only if** it is malformed:
    too many positional arguments ∨ a variable given by position and by keyword ∨ a free
    variable given neither way ∨ a keyword that is not a free variable. -/
theorem logd_refuses_iff [Stackable V] (Fs : List (Factor V K)) (hw : WF Fs)
    (steps : List (Step V)) (hok : RunOK (freshJoint Fs) steps) :
    ∃ o, runSteps (freshJoint Fs) steps = .ok o ∧
      ∀ (args : List V) (kw : Kw V),
        (∃ e, o.logd args kw = .error e) ↔
          (o.paramNames.length < args.length ∨
           (∃ n ∈ o.paramNames.take args.length, n ∈ kwKeys kw) ∨
           (∃ n ∈ o.paramNames, n ∉ kwKeys kw ∧ n ∉ o.paramNames.take args.length) ∨
           (∃ n ∈ kwKeys kw, n ∉ o.paramNames)) := by
  obtain ⟨o, ho, hr⟩ := rep_run Fs hw steps [] (freshJoint Fs) (rep_fresh Fs) hok
  refine ⟨o, ho, fun args kw => ⟨?_, fun h => rep_logd_err Fs hw _ o hr args kw h⟩⟩
  rintro ⟨e, he⟩
  by_contra hn
  have := rep_logd_ok Fs hw _ o hr args kw hn
  rw [he] at this
  cases this

/-- **Conditioning in `k` steps equals conditioning at once** — for every admissible program,
    through every kind of intermediate and final object: the object reached step by step and the
    object returned by one call with the accumulated assignment have the same parameter names,
    evaluate every well-formed call to the same number and refuse every malformed call.  (The
    two objects need not be of the same class: fixing the last variable of a reduced
    `Distribution` gives an `EvaluatedDensity`, doing it at once gives a joint of constants.) -/
theorem condition_steps_eq_once [Stackable V] (Fs : List (Factor V K)) (hw : WF Fs)
    (steps : List (Step V)) (hok : RunOK (freshJoint Fs) steps) :
    ∃ o o', runSteps (freshJoint Fs) steps = .ok o ∧
      condJoint .plain (Fs.map fresh) [] (runAssign (freshJoint Fs) steps) = .ok o' ∧
      o.paramNames = o'.paramNames ∧
      ∀ (args : List V) (kw : Kw V),
        (¬ Refused o.paramNames args kw → ∃ v, o.logd args kw = .ok v ∧ o'.logd args kw = .ok v) ∧
        (Refused o.paramNames args kw →
          (∃ e, o.logd args kw = .error e) ∧ (∃ e, o'.logd args kw = .error e)) := by
  obtain ⟨o, ho, hr⟩ := rep_run Fs hw steps [] (freshJoint Fs) (rep_fresh Fs) hok
  rw [List.nil_append] at hr
  have hfresh : Fs.map fresh = Fs.map (st ([] : Kw V)) := by
    apply List.map_congr_left; intro F _; exact (st_fresh F).symm
  obtain ⟨o', ho', hr', _, _⟩ := reduce_rep Fs hw (runAssign (freshJoint Fs) steps) .plain (by decide)
  have hpn : o.paramNames = o'.paramNames := by
    rw [rep_paramNames Fs hw _ o hr, rep_paramNames Fs hw _ o' hr']
  refine ⟨o, o', ho, ?_, hpn, fun args kw => ⟨fun h => ?_, fun h => ?_⟩⟩
  · rw [hfresh, condition_steps Fs hw.fok, List.nil_append]; exact ho'
  · refine ⟨_, rep_logd_ok Fs hw _ o hr args kw h, ?_⟩
    rw [hpn] at h ⊢
    exact rep_logd_ok Fs hw _ o' hr' args kw h
  · exact ⟨rep_logd_err Fs hw _ o hr args kw h, rep_logd_err Fs hw _ o' hr' args kw (hpn ▸ h)⟩

/-! ## The genuine exception: keyword conditioning of the unnamed Posterior -/

/-- **Known finding `cond:Posterior:keyword:unnamed:raises`, general form.**  For *every*
    well-formed graph and *every* assignment that leaves exactly one free variable and one
    likelihood, the call returns a `Posterior`, and a further conditioning call on it (at most
    one positional argument, nothing given twice, no `_main_parameter` keyword) succeeds **if and
    only if it is not a keyword-only call**: `posterior(x=value)` raises `ValueError` whatever
    the keywords are, `posterior(value)` and `posterior()` work.  So `RunOK` (which for this
    object demands exactly "not keyword-only, unless the name has been set") excludes nothing
    but the failing calls. -/
theorem posterior_keyword_refused (Fs : List (Factor V K)) (hw : WF Fs) (σ : Kw V)
    (hD : ((Fs.map (st σ)).filter Dens.isDist).length = 1)
    (hL : ((Fs.map (st σ)).filter Dens.isLik).length = 1) :
    ∃ o, condJoint .plain (Fs.map fresh) [] σ = .ok o ∧ o.kind = "Posterior" ∧
      (∀ kw : Kw V, kw ≠ [] → mainKey ∉ kwKeys kw → o.cond [] kw = .error .value) ∧
      (∀ (args : List V) (kw : Kw V), args.length ≤ 1 → mainKey ∉ kwKeys kw →
        (∀ n ∈ o.paramNames.take args.length, n ∉ kwKeys kw) →
        ((∃ o', o.cond args kw = .ok o') ↔ ¬ (args = [] ∧ kw ≠ []))) := by
  have hfresh : Fs.map fresh = Fs.map (st ([] : Kw V)) := by
    apply List.map_congr_left; intro F _; exact (st_fresh F).symm
  rw [hfresh, condition_steps Fs hw.fok, List.nil_append]
  obtain ⟨o, ho, hr, hk, hnm⟩ := reduce_rep Fs hw σ .plain (by decide)
  rw [filter_isDist_map, List.length_map] at hD
  rw [filter_isLik_map, List.length_map] at hL
  have hkind : o.kind = "Posterior" := by rw [hk rfl, hD, hL]; rfl
  refine ⟨o, ho, hkind, ?_⟩
  cases hr with
  | joint fl hfl => cases fl <;> simp [Obj.kind] at hkind
  | dist G hD' hL' => simp [Obj.kind] at hkind
  | eval nm v c hv hall => simp [Obj.kind] at hkind
  | post G H nm hD' hL' =>
    obtain rfl := hnm _ _ _ _ rfl
    have hpn := paramNames_rep_post Fs hw σ G hD'
    have hbad : ∀ kw : Kw V, kw ≠ [] → mainKey ∉ kwKeys kw →
        (Obj.post (st σ H) (st σ G) (0 + sumEvals 0 (Fs.map (st σ))) none).cond [] kw
          = .error .value := by
      intro kw hne hm
      have hne' : kw.isEmpty = false := by cases kw <;> simp_all
      simp [Obj.cond, condPost, parseDist_nil, kwGet_main_none kw hm, hne']
    refine ⟨hbad, fun args kw hlen hm hdbl => ⟨?_, fun hgood => ?_⟩⟩
    · rintro ⟨o', ho'⟩ ⟨rfl, hne⟩
      rw [hbad kw hne hm] at ho'; cases ho'
    · have hs : StepOK (Obj.post (st σ H) (st σ G) (0 + sumEvals 0 (Fs.map (st σ))) none)
          (Step.call args kw) := by
        simp only [StepOK, hpn]
        refine ⟨by simpa using hlen, by simpa [Obj.paramNames, hpn] using hdbl, hm, ?_⟩
        intro ha
        left
        by_contra hne
        exact hgood ⟨ha, hne⟩
      obtain ⟨o', ho', _⟩ := rep_step Fs hw σ _ (Rep.post G H none hD' hL') _ hs
      exact ⟨o', ho'⟩

/-! ## Non-vacuity: concrete instances (`V = List ℤ`, `K = ℤ`)

`docFs` (Props/C01) is the docstring model `y | x, s`, `x | z`, `z`, `s`; `mlpFs` below has two
data sets over one parameter.  Together they exercise every reachable branch. -/

section Examples

private def sv (ρ : Name → Option (List Int)) (n : Name) : Int := ((ρ n).getD []).sum

/-- two data sets over one parameter: `x`, `y1 | x`, `y2 | x` -/
def mlpFs : List (Factor (List Int) Int) :=
  [⟨"x", [], 1, fun ρ => -(sv ρ "x") ^ 2⟩,
   ⟨"y1", ["x"], 1, fun ρ => -(sv ρ "y1" - sv ρ "x") ^ 2⟩,
   ⟨"y2", ["x"], 1, fun ρ => -2 * (sv ρ "y2" - 3 * sv ρ "x") ^ 2⟩]

lemma mlpFs_wf : WF mlpFs := by
  refine ⟨by decide, ?_, ?_, ?_⟩
  · intro F hF p hp
    simp only [mlpFs, List.mem_cons, List.not_mem_nil, or_false] at hF
    rcases hF with rfl | rfl | rfl <;>
      simp only [mlpFs, List.map_cons, List.map_nil, List.mem_cons, List.not_mem_nil, or_false] at hp ⊢ <;> tauto
  · intro F hF
    simp only [mlpFs, List.mem_cons, List.not_mem_nil, or_false] at hF
    rcases hF with rfl | rfl | rfl <;>
      refine ⟨by decide, by decide, fun ρ ρ' hh => ?_⟩ <;> simp_all [sv]
  · intro F hF
    simp only [mlpFs, List.mem_cons, List.not_mem_nil, or_false] at hF
    rcases hF with rfl | rfl | rfl <;> decide

/-- `τ` names exactly the remaining variable (hypothesis of `condition_logd`) -/
private lemma hτ_x : ∀ n, n ∈ kwKeys ([("x", [1, 0])] : Kw (List Int)) ↔
    n ∈ docFs.map (·.name) ∧ n ∉ kwKeys ([("y", [3, 1]), ("s", [2]), ("z", [5])] : Kw (List Int)) := by
  intro n
  simp only [kwKeys, docFs, List.map_cons, List.map_nil, List.mem_cons, List.not_mem_nil, or_false]
  constructor
  · rintro rfl; decide
  · tauto

/-- `condition_logd` in the **Posterior branch**: data and both hyper-parameters fixed, `x` free -/
example : ∃ o, condJoint .plain (docFs.map fresh) [] [("y", [3, 1]), ("s", [2]), ("z", [5])] = .ok o ∧
    o.logd [] [("x", [1, 0])]
      = .ok (total docFs ([("y", [3, 1]), ("s", [2]), ("z", [5])] ++ [("x", [1, 0])])) :=
  condition_logd docFs docFs_wf _ _ hτ_x

/-- the branches, on the model (`reduce_branches` predicts exactly these classes):
    Posterior, Distribution + constants, joint, constants only -/
example : (∃ o, condJoint .plain (docFs.map fresh) [] [("y", [3, 1]), ("s", [2]), ("z", [5])] = .ok o ∧
      o.kind = "Posterior") ∧
    (∃ o, condJoint .plain (docFs.map fresh) [] [("x", [1, 0]), ("s", [2]), ("z", [5])] = .ok o ∧
      o.kind = "Distribution" ∧ o.paramNames = ["y"] ∧
      o.logd [[3, 1]] [] = .ok (-22) ∧ o.logd [] [("y", [3, 1])] = .ok (-22)) ∧
    (∃ o, condJoint .plain (docFs.map fresh) [] [("y", [3, 1])] = .ok o ∧
      o.kind = "JointDistribution" ∧ o.paramNames = ["x", "z", "s"]) ∧
    (∃ o, condJoint .plain (docFs.map fresh) []
        [("y", [3, 1]), ("s", [2]), ("z", [5]), ("x", [1, 0])] = .ok o ∧
      o.kind = "JointDistribution" ∧ o.paramNames = [] ∧ o.logd [] [] = .ok (-22)) :=
  ⟨⟨_, rfl, by decide⟩, ⟨_, rfl, by decide, by decide, by decide, by decide⟩,
   ⟨_, rfl, by decide, by decide⟩, ⟨_, rfl, by decide, by decide, by decide⟩⟩

/-- the **MultipleLikelihoodPosterior branch** (all constructor checks pass) and its value -/
example : ∃ o, condJoint .plain (mlpFs.map fresh) [] [("y1", [3]), ("y2", [4])] = .ok o ∧
    o.kind = "MultipleLikelihoodPosterior" ∧
    o.logd [] [("x", [1])] = .ok (total mlpFs ([("y1", [3]), ("y2", [4])] ++ [("x", [1])])) ∧
    total mlpFs ([("y1", [3]), ("y2", [4])] ++ [("x", [1])]) = -7 :=
  ⟨_, rfl, by decide, by decide, by decide⟩

/-- hypotheses of `reduce_branches` / `posterior_keyword_refused` are satisfiable -/
example := reduce_branches docFs docFs_wf [("y", [3, 1]), ("s", [2])]
example := reduce_branches mlpFs mlpFs_wf [("y1", [3]), ("y2", [4])]
example := posterior_keyword_refused docFs docFs_wf [("y", [3, 1]), ("s", [2]), ("z", [5])]
  (by decide) (by decide)

/-- a three-step program: keyword, keywords, then the Posterior conditioned **by position** -/
def progA : List (Step (List Int)) :=
  [.call [] [("y", [3, 1])], .call [] [("s", [2]), ("z", [5])], .call [[1, 0]] []]

lemma progA_ok : RunOK (freshJoint docFs) progA := by
  refine ⟨⟨by decide, by decide⟩, ⟨by decide, by decide⟩, ?_, trivial⟩
  exact ⟨by decide, by decide, by decide, fun h => by cases h⟩

/-- a program mixing positional and keyword arguments in the first call (`y` by position), then
    naming the Posterior and conditioning it **by keyword**, then an empty call on the result -/
def progB : List (Step (List Int)) :=
  [.call [[3, 1]] [("z", [5]), ("s", [2])], .setName "x", .call [] [("x", [1, 0])], .call [] []]

lemma progB_ok : RunOK (freshJoint docFs) progB := by
  refine ⟨⟨by decide, by decide⟩, ?_, ?_, trivial, trivial⟩
  · show _ ∈ _
    decide
  · exact ⟨by decide, by decide, by decide, fun _ => Or.inr ⟨"x", rfl, by decide, by decide⟩⟩

/-- the same program *without* the naming statement is not admissible — and indeed fails -/
def progC : List (Step (List Int)) :=
  [.call [[3, 1]] [("z", [5]), ("s", [2])], .call [] [("x", [1, 0])]]

example : ¬ RunOK (freshJoint docFs) progC ∧ isErr (runSteps (freshJoint docFs) progC) = true := by
  refine ⟨?_, by decide⟩
  rintro ⟨_, ⟨_, _, _, h⟩, _⟩
  rcases h rfl with h | ⟨n, h, _⟩
  · cases h
  · cases h

private lemma hτ_nil (σ : Kw (List Int)) (h : ∀ n ∈ docFs.map (·.name), n ∈ kwKeys σ) :
    ∀ n, n ∈ kwKeys ([] : Kw (List Int)) ↔ n ∈ docFs.map (·.name) ∧ n ∉ kwKeys σ := by
  intro n
  simp only [kwKeys, List.map_nil, List.not_mem_nil, false_iff, not_and, not_not]
  exact h n

/-- `condition_logd_steps` on both programs: they run through and end in an object whose value
    is the joint log-density `-22` at the accumulated assignment -/
example : (∃ o, runSteps (freshJoint docFs) progA = .ok o ∧
      o.logd [] [] = .ok (total docFs (runAssign (freshJoint docFs) progA ++ []))) ∧
    (∃ o, runSteps (freshJoint docFs) progB = .ok o ∧
      o.logd [] [] = .ok (total docFs (runAssign (freshJoint docFs) progB ++ []))) ∧
    runAssign (freshJoint docFs) progA = [("y", [3, 1]), ("s", [2]), ("z", [5]), ("x", [1, 0])] ∧
    runAssign (freshJoint docFs) progB = [("z", [5]), ("s", [2]), ("y", [3, 1]), ("x", [1, 0])] ∧
    total docFs (runAssign (freshJoint docFs) progA ++ []) = -22 ∧
    total docFs (runAssign (freshJoint docFs) progB ++ []) = -22 :=
  ⟨condition_logd_steps docFs docFs_wf progA progA_ok [] (hτ_nil _ (by decide)),
   condition_logd_steps docFs docFs_wf progB progB_ok [] (hτ_nil _ (by decide)),
   by decide, by decide, by decide, by decide⟩

/-- `condition_steps_eq_once`, `condition_logd_call`, `logd_refuses_iff` instantiated -/
example := condition_steps_eq_once docFs docFs_wf progB progB_ok
example := condition_logd_call docFs docFs_wf progA progA_ok
example := logd_refuses_iff docFs docFs_wf [] trivial

/-- the four kinds of malformed call on the fresh docstring joint (parameters `y, x, z, s`), and
    a well-formed mixed call -/
example :
    isErr ((freshJoint docFs).logd [[3, 1], [1, 0], [5], [2], [7]] []) = true ∧          -- too many
    isErr ((freshJoint docFs).logd [[3, 1]] [("y", [3, 1]), ("x", [1, 0]), ("z", [5]), ("s", [2])]) = true ∧ -- twice
    isErr ((freshJoint docFs).logd [[3, 1]] [("x", [1, 0]), ("z", [5])]) = true ∧        -- `s` missing
    isErr ((freshJoint docFs).logd [[3, 1]] [("x", [1, 0]), ("z", [5]), ("s", [2]), ("w", [1])]) = true ∧ -- unknown
    (freshJoint docFs).logd [[3, 1], [1, 0]] [("s", [2]), ("z", [5])] = .ok (-22) := by
  refine ⟨by decide, by decide, by decide, by decide, by decide⟩

end Examples

end CuqiVerif.C01
