import CuqiVerif.Props.C14
import CuqiVerif.Proofs.C14_kernels

/-!
# C14 — the transition kernels of MH, PCN, MALA, ULA, CWMH and NUTS inside the C14 model

`Props/C14.lean` proves checkpoint/resume (`resume_bisim`) under read/write hypotheses about
`step` that, for the library's classes, were discharged only by the AST tables and the bitwise
oracle.  Here the hypotheses are discharged **by proof** for six classes, whose `step` is built
(in `Proofs/C14_kernels.lean`) from the executable step functions that `Driver/C02.lean` and
`Driver/C08.lean` run against the implementation (`C02.mhStep`, `pcnStep`, `malaStep`, `cwStep`,
`C08.nutsStep`), reading their inputs from the attribute map and writing their outputs back.

* §0  generic: any `StepSpec` whose reads are state keys resumes exactly (object level, via
      `resume_bisim`; run level, through `save_checkpoint`/`load_checkpoint`/`sample`).
* §1–§6  per class: `reads_subset_state_X`, `resume_bisim_X`, `resume_checkpoint_X`,
      `sample_append_X`, `table_consistent_X` (the instance's read/write sets against the sets the
      AST translator extracts from the current source), `X_step_is_…` (the instance *is* the
      C02/C08 step on the decoded record).
* §7  NUTS: the `_epsilon`/`_epsilon_bar` hand-over, `tune`, and what resume means in warm-up.
-/
namespace CuqiVerif.C14

/-! ## 0. generic -/

/-- **(1) generic** — a `StepSpec` whose reads are all state keys: two sampler objects that agree
    on the state keys make the same transition (acceptance record, draws consumed) and agree on the
    state keys afterwards — whatever their other attributes are. -/
theorem stepSpec_reads_subset_state {D A : Type} (s : StepSpec D A)
    (hR : ∀ k, k ∈ s.reads → k ∈ s.stateKeys) (o o' : Obj) (ds : List D)
    (h : AgreeOn s.stateKeys o o') :
    (s.step o ds).2 = (s.step o' ds).2 ∧ AgreeOn s.stateKeys (s.step o ds).1 (s.step o' ds).1 :=
  s.step_congr s.stateKeys hR o o' ds h

/-- **(2) generic, object level** — the hypotheses `hdep`, `hframe`, `hcover` of `resume_bisim` hold
    for a `StepSpec` with `W = writes`, `C = ∅` and any `R` with `reads ⊆ R ⊆ stateKeys` that
    contains every attribute `step` may leave unassigned: after `set_state(get_state(orig))` *any*
    object (of the same configuration, which lives in the instance's parameters) makes exactly the
    transitions of `orig` from the same stream, for every number of steps. -/
theorem stepSpec_resume_bisim {D A : Type} (s : StepSpec D A) (R : List String)
    (hRR : ∀ k, k ∈ s.reads → k ∈ R) (hRS : ∀ k, k ∈ R → k ∈ s.stateKeys)
    (hW : ∀ (o : Obj) (ds : List D) k, k ∈ s.writes →
      k ∈ R ∨ ∃ v, (k, v) ∈ collect s.writes (s.kern (s.reads.map o.get) ds).1)
    (hpoint : "current_point" ∈ s.stateKeys) (orig fresh : Obj) :
    ∃ o', setState s.stateKeys (getState s.stateKeys orig) fresh = some o' ∧
      ∀ n ds, transitions s.step n o' ds = transitions s.step n orig ds :=
  resume_bisim s.step R s.writes s.stateKeys [] (s.hdep R hRR hW)
    (fun o ds k hk => s.step_frame o ds k hk) (fun k hk => Or.inl (hRS k hk)) hpoint orig fresh
    (fun k hk => by simp at hk)

/-- `sample(n+m) = sample(n); sample(m)` when the `_pre_sample` invariant holds at the start of
    this particular run (variant of `sample_append` that does not ask `_pre_sample` to establish
    the invariant from every object). -/
theorem sample_append_at {D A : Type} (sp : Spec D A) (Inv : Obj → Prop)
    (hstep : ∀ o ds, Inv o → Inv (sp.step o ds).1)
    (hfix : ∀ o, Inv o → sp.preSample o = o)
    (n m : Nat) (r : Run D A) (h0 : Inv (sp.preSample (ensureInit sp r).obj)) :
    sample sp (n + m) r = sample sp m (sample sp n r) ∧ Inv (sample sp n r).obj ∧
      (sample sp n r).initialized = true := by
  have hinit : (sampleLoop sp n { ensureInit sp r with obj := sp.preSample (ensureInit sp r).obj }).initialized = true := by
    rw [sampleLoop_initialized]; exact ensureInit_initialized sp r
  have hinv : Inv (sampleLoop sp n { ensureInit sp r with obj := sp.preSample (ensureInit sp r).obj }).obj :=
    sampleLoop_inv sp Inv hstep n _ h0
  refine ⟨?_, hinv, hinit⟩
  unfold sample
  simp only []
  rw [sampleLoop_add, ensureInit_of_initialized sp _ hinit, hfix _ hinv]

/-- **(2) generic, run level** — checkpoint at *every* position `p` of the sampling phase:
    `c = sample(p)` on the original sampler, `save_checkpoint`, `load_checkpoint` into any other
    sampler object `f` of the class (initialised or not), continue `f` with the stream where `c`
    stopped.  Then for every `m` the `m` new stored samples and acceptance records of the resumed
    sampler are exactly the entries `p+1 … p+m` of the uninterrupted run `sample(p+m)`, the streams
    end at the same place and the two objects agree on the state keys. -/
theorem resume_checkpoint {D A : Type} (sp : Spec D A) (Inv : Obj → Prop)
    (hcong : ∀ o o' ds, AgreeOn sp.stateKeys o o' →
      (sp.step o ds).2 = (sp.step o' ds).2 ∧ AgreeOn sp.stateKeys (sp.step o ds).1 (sp.step o' ds).1)
    (hpoint : "current_point" ∈ sp.stateKeys)
    (hstep : ∀ o ds, Inv o → Inv (sp.step o ds).1)
    (hfix : ∀ o, Inv o → sp.preSample o = o)
    (hInvS : ∀ o o', AgreeOn sp.stateKeys o o' → Inv o → Inv o')
    (r f : Run D A) (p : Nat) (h0 : Inv (sp.preSample (ensureInit sp r).obj)) :
    ResumesExactly sp r f p := by
  unfold ResumesExactly
  obtain ⟨_, hcInv, hcInit⟩ := sample_append_at sp Inv hstep hfix p 0 r h0
  generalize hc : sample sp p r = c at hcInv hcInit
  -- save: no re-initialisation
  have hsave : (saveCheckpoint sp c).2 = getState sp.stateKeys c.obj := by
    simp [saveCheckpoint, ensureInit_of_initialized sp c hcInit]
  obtain ⟨o', hload, hS, _⟩ := setState_getState sp.stateKeys c.obj (ensureInit sp f).obj
  refine ⟨{ ensureInit sp f with obj := o' }, ?_, rfl, ?_⟩
  · simp [loadCheckpoint, hsave, hload]
  intro m
  refine ⟨transitions sp.step m c.obj c.stream, transitions_length _ _ _ _, ?_⟩
  -- the uninterrupted run
  have hun : sample sp (p + m) r = sampleLoop sp m c := by
    rw [(sample_append_at sp Inv hstep hfix p m r h0).1, hc]
    unfold sample
    simp only [ensureInit_of_initialized sp c hcInit, hfix _ hcInv]
  -- the resumed run
  have hInv' : Inv o' := hInvS _ _ hS.symm hcInv
  have hres : sample sp m { ({ ensureInit sp f with obj := o' } : Run D A) with stream := c.stream } =
      sampleLoop sp m { ensureInit sp f with obj := o', stream := c.stream } := by
    have hi : ({ ({ ensureInit sp f with obj := o' } : Run D A) with stream := c.stream } : Run D A).initialized = true :=
      ensureInit_initialized sp f
    unfold sample
    simp only [ensureInit_of_initialized sp _ hi, hfix _ hInv']
  rw [hun, hres]
  obtain ⟨u1, u2⟩ := order_consecutive sp m c
  obtain ⟨v1, v2⟩ := order_consecutive sp m { ensureInit sp f with obj := o', stream := c.stream }
  have htr : transitions sp.step m o' c.stream = transitions sp.step m c.obj c.stream :=
    transitions_congr sp.step sp.stateKeys hcong hpoint m o' c.obj c.stream hS
  simp only [htr] at v1 v2
  obtain ⟨w1, w2⟩ := sampleLoop_congr sp sp.stateKeys hcong m
    { ensureInit sp f with obj := o', stream := c.stream } c hS rfl
  exact ⟨u1, u2, v1, v2, w2, w1⟩


/-! ## 1. MH -/

/-- **(1) MH** — `MH.step` reads `current_point`, `current_target_logd`, `scale` (all in `_STATE_KEYS` of the current source) and the
    configuration (the instance's parameters): two `MH` objects agreeing on the state keys make the
    same transition — acceptance record and draws consumed — and agree on the state keys afterwards,
    whatever their other attributes are. -/
theorem reads_subset_state_MH (logd : Vec → C02.XVal) (o o' : Obj) (ds : List (Vec × C02.XVal))
    (h : AgreeOn Gen.cls_MH.stateKeys o o') :
    ((mhStepSpec logd).step o ds).2 = ((mhStepSpec logd).step o' ds).2 ∧
      AgreeOn Gen.cls_MH.stateKeys ((mhStepSpec logd).step o ds).1 ((mhStepSpec logd).step o' ds).1 :=
  stepSpec_reads_subset_state (mhStepSpec logd) mh_hR o o' ds h

/-- **(2) MH, object level** — `resume_bisim` with its read/write hypotheses discharged by proof:
    `set_state(get_state(orig))` into any other `MH` object gives an object that makes exactly
    the transitions of `orig` from the same stream, for every number of steps. -/
theorem resume_bisim_MH (logd : Vec → C02.XVal) (orig fresh : Obj) :
    ∃ o', setState Gen.cls_MH.stateKeys (getState Gen.cls_MH.stateKeys orig) fresh = some o' ∧
      ∀ n ds, transitions (mhStepSpec logd).step n o' ds = transitions (mhStepSpec logd).step n orig ds :=
  stepSpec_resume_bisim (mhStepSpec logd) mhReads (fun _ h => h) mh_hR (hW_of_subset _ _ mh_hWR)
    (by show "current_point" ∈ Gen.cls_MH.stateKeys; decide) orig fresh

/-- **(2) MH, run level** — checkpoint at every position `p` of the sampling phase
    (`sample(p); save_checkpoint`), `load_checkpoint` into any sampler `f` of the class (fresh or
    not), continue: the resumed chain is entry for entry the continuation of the uninterrupted
    one (`ResumesExactly`). -/
theorem resume_checkpoint_MH (logd : Vec → C02.XVal) (tune : Obj → List Bool → Nat → Nat → Obj) (r f : Run (Vec × C02.XVal) (Bool)) (p : Nat) :
    ResumesExactly (mhSpec logd tune) r f p :=
  resume_checkpoint (mhSpec logd tune) (fun _ => True) (reads_subset_state_MH logd)
    (by show "current_point" ∈ Gen.cls_MH.stateKeys; decide) (fun _ _ _ => trivial) (fun _ _ => rfl)
    (fun _ _ _ _ => trivial) r f p trivial

/-- **(3) MH** — `sample(n); sample(m)` equals `sample(n+m)` (attributes, stored samples,
    acceptance records, callback log, stream). -/
theorem sample_append_MH (logd : Vec → C02.XVal) (tune : Obj → List Bool → Nat → Nat → Obj) (n m : Nat) (r : Run (Vec × C02.XVal) (Bool)) :
    sample (mhSpec logd tune) (n + m) r = sample (mhSpec logd tune) m (sample (mhSpec logd tune) n r) :=
  sample_append (mhSpec logd tune) (fun _ => True) (fun _ => trivial) (fun _ _ _ => trivial) (fun _ _ => rfl) n m r

/-- **(4) MH** — the instance against the current Python source (`tableConsistent`): its reads and
    writes are reads/writes the AST translator reports for `MH.step`, every carried read of the
    source is a read of the instance or the configuration `["_target", "_proposal"]`, every write of the source is
    a write of the instance, the reads are `_STATE_KEYS`, the configuration is constructor-only. -/
theorem table_consistent_MH :
    tableConsistent Gen.cls_MH mhReads mhWrites ["_target", "_proposal"] = true := by decide

/-- **MH: the instance is `C02.mhStep`** — on an object holding the (encoded) record `x, logd, scale`,
    `step` consumes one draw `(xi, log u)`, returns the accept bit of `C02.mhStep .expMH` and leaves
    exactly that function's new state in `current_point`, `current_target_logd`, `scale`. -/
theorem MH_step_is_mhStep (logd : Vec → C02.XVal) (o : Obj) (x : Vec) (l : C02.XVal) (s : Vec)
    (hx : o.get "current_point" = encVec x) (hl : o.get "current_target_logd" = encX l)
    (hs : o.get "scale" = encVec s) (xi : Vec) (ell : C02.XVal) (rest : List (Vec × C02.XVal)) :
    ((mhStepSpec logd).step o ((xi, ell) :: rest)).2 = ((C02.mhStep .expMH logd ⟨x, l, [], s⟩ xi ell).2, rest) ∧
    ((mhStepSpec logd).step o ((xi, ell) :: rest)).1.get "current_point" = encVec (C02.mhStep .expMH logd ⟨x, l, [], s⟩ xi ell).1.x ∧
    ((mhStepSpec logd).step o ((xi, ell) :: rest)).1.get "current_target_logd" = encX (C02.mhStep .expMH logd ⟨x, l, [], s⟩ xi ell).1.logd ∧
    ((mhStepSpec logd).step o ((xi, ell) :: rest)).1.get "scale" = encVec (C02.mhStep .expMH logd ⟨x, l, [], s⟩ xi ell).1.scale :=
  mh_step_sim logd o x l s hx hl hs xi ell rest

/-- a concrete MH chain (standard normal target, `scale = 1/2`): accept, reject, accept at `u = 0`;
    and resuming it in a sampler whose state is different -/
example : transitions (mhStepSpec exLogd).step 3 (mhInit exLogd exCtor)
      [([1, 0], .fin (-1)), ([4, 0], .fin (-1)), ([0, -2], .neginf)] =
    [(encVec [1/2, 1], true), (encVec [1/2, 1], false), (encVec [1/2, 0], true)] := by decide +kernel
example := resume_bisim_MH exLogd (((mhStepSpec exLogd).step (mhInit exLogd exCtor) [([1, 0], .fin (-1))]).1) (mhInit exLogd exCtor)
example := resume_checkpoint_MH exLogd (fun o _ _ _ => o) (Run.fresh exCtor [([1, 0], .fin (-1)), ([4, 0], .fin (-1))]) (Run.fresh exCtor []) 1

/-! ## 2. PCN -/

/-- **(1) PCN** — `PCN.step` reads `current_point`, `current_likelihood_logd`, `scale` (all in `_STATE_KEYS` of the current source) and the
    configuration (the instance's parameters): two `PCN` objects agreeing on the state keys make the
    same transition — acceptance record and draws consumed — and agree on the state keys afterwards,
    whatever their other attributes are. -/
theorem reads_subset_state_PCN (loglik : Vec → C02.XVal) (sqrtf : Rat → Rat) (o o' : Obj) (ds : List (Vec × C02.XVal))
    (h : AgreeOn Gen.cls_PCN.stateKeys o o') :
    ((pcnStepSpec loglik sqrtf).step o ds).2 = ((pcnStepSpec loglik sqrtf).step o' ds).2 ∧
      AgreeOn Gen.cls_PCN.stateKeys ((pcnStepSpec loglik sqrtf).step o ds).1 ((pcnStepSpec loglik sqrtf).step o' ds).1 :=
  stepSpec_reads_subset_state (pcnStepSpec loglik sqrtf) pcn_hR o o' ds h

/-- **(2) PCN, object level** — `resume_bisim` with its read/write hypotheses discharged by proof:
    `set_state(get_state(orig))` into any other `PCN` object gives an object that makes exactly
    the transitions of `orig` from the same stream, for every number of steps. -/
theorem resume_bisim_PCN (loglik : Vec → C02.XVal) (sqrtf : Rat → Rat) (orig fresh : Obj) :
    ∃ o', setState Gen.cls_PCN.stateKeys (getState Gen.cls_PCN.stateKeys orig) fresh = some o' ∧
      ∀ n ds, transitions (pcnStepSpec loglik sqrtf).step n o' ds = transitions (pcnStepSpec loglik sqrtf).step n orig ds :=
  stepSpec_resume_bisim (pcnStepSpec loglik sqrtf) pcnReads (fun _ h => h) pcn_hR (hW_of_subset _ _ pcn_hWR)
    (by show "current_point" ∈ Gen.cls_PCN.stateKeys; decide) orig fresh

/-- **(2) PCN, run level** — checkpoint at every position `p` of the sampling phase
    (`sample(p); save_checkpoint`), `load_checkpoint` into any sampler `f` of the class (fresh or
    not), continue: the resumed chain is entry for entry the continuation of the uninterrupted
    one (`ResumesExactly`). -/
theorem resume_checkpoint_PCN (loglik : Vec → C02.XVal) (sqrtf : Rat → Rat) (tune : Obj → List Bool → Nat → Nat → Obj) (r f : Run (Vec × C02.XVal) (Bool)) (p : Nat) :
    ResumesExactly (pcnSpec loglik sqrtf tune) r f p :=
  resume_checkpoint (pcnSpec loglik sqrtf tune) (fun _ => True) (reads_subset_state_PCN loglik sqrtf)
    (by show "current_point" ∈ Gen.cls_PCN.stateKeys; decide) (fun _ _ _ => trivial) (fun _ _ => rfl)
    (fun _ _ _ _ => trivial) r f p trivial

/-- **(3) PCN** — `sample(n); sample(m)` equals `sample(n+m)` (attributes, stored samples,
    acceptance records, callback log, stream). -/
theorem sample_append_PCN (loglik : Vec → C02.XVal) (sqrtf : Rat → Rat) (tune : Obj → List Bool → Nat → Nat → Obj) (n m : Nat) (r : Run (Vec × C02.XVal) (Bool)) :
    sample (pcnSpec loglik sqrtf tune) (n + m) r = sample (pcnSpec loglik sqrtf tune) m (sample (pcnSpec loglik sqrtf tune) n r) :=
  sample_append (pcnSpec loglik sqrtf tune) (fun _ => True) (fun _ => trivial) (fun _ _ _ => trivial) (fun _ _ => rfl) n m r

/-- **(4) PCN** — the instance against the current Python source (`tableConsistent`): its reads and
    writes are reads/writes the AST translator reports for `PCN.step`, every carried read of the
    source is a read of the instance or the configuration `["_target"]`, every write of the source is
    a write of the instance, the reads are `_STATE_KEYS`, the configuration is constructor-only. -/
theorem table_consistent_PCN :
    tableConsistent Gen.cls_PCN pcnReads pcnWrites ["_target"] = true := by decide

/-- **PCN: the instance is `C02.pcnStep`** with `c = sqrtf (1 - scale²)` (`sqrtf` = the float
    `np.sqrt`), on the record `x, loglik, scale`. -/
theorem PCN_step_is_pcnStep (loglik : Vec → C02.XVal) (sqrtf : Rat → Rat) (o : Obj) (x : Vec) (l : C02.XVal) (s : Vec)
    (hx : o.get "current_point" = encVec x) (hl : o.get "current_likelihood_logd" = encX l)
    (hs : o.get "scale" = encVec s) (xi : Vec) (ell : C02.XVal) (rest : List (Vec × C02.XVal)) :
    ((pcnStepSpec loglik sqrtf).step o ((xi, ell) :: rest)).2 =
      ((C02.pcnStep .expPCN loglik (sqrtf (1 - s.headD 0 * s.headD 0)) ⟨x, l, [], s⟩ xi ell).2, rest) ∧
    ((pcnStepSpec loglik sqrtf).step o ((xi, ell) :: rest)).1.get "current_point" =
      encVec (C02.pcnStep .expPCN loglik (sqrtf (1 - s.headD 0 * s.headD 0)) ⟨x, l, [], s⟩ xi ell).1.x ∧
    ((pcnStepSpec loglik sqrtf).step o ((xi, ell) :: rest)).1.get "current_likelihood_logd" =
      encX (C02.pcnStep .expPCN loglik (sqrtf (1 - s.headD 0 * s.headD 0)) ⟨x, l, [], s⟩ xi ell).1.logd ∧
    ((pcnStepSpec loglik sqrtf).step o ((xi, ell) :: rest)).1.get "scale" = encVec s :=
  pcn_step_sim loglik sqrtf o x l s hx hl hs xi ell rest

example : transitions (pcnStepSpec exLogd exSqrt).step 3 (pcnInit exLogd exCtor)
      [([1, 0], .fin (-1)), ([4, 8], .fin (-1)), ([0, -2], .neginf)] =
    [(encVec [1/2, 7/8], true), (encVec [1/2, 7/8], false), (encVec [7/16, -15/64], true)] := by decide +kernel
example := resume_checkpoint_PCN exLogd exSqrt (fun o _ _ _ => o) (Run.fresh exCtor [([1, 0], .fin (-1)), ([4, 8], .fin (-1))]) (Run.fresh exCtor []) 1

/-! ## 3. MALA -/

/-- **(1) MALA** — `MALA.step` reads `current_point`, `current_target_logd`, `current_target_grad`, `scale` (all in `_STATE_KEYS` of the current source) and the
    configuration (the instance's parameters): two `MALA` objects agreeing on the state keys make the
    same transition — acceptance record and draws consumed — and agree on the state keys afterwards,
    whatever their other attributes are. -/
theorem reads_subset_state_MALA (logd : Vec → C02.XVal) (gradf : Vec → Vec) (sqrtf : Rat → Rat) (o o' : Obj) (ds : List (Vec × C02.XVal))
    (h : AgreeOn Gen.cls_MALA.stateKeys o o') :
    ((malaStepSpec logd gradf sqrtf).step o ds).2 = ((malaStepSpec logd gradf sqrtf).step o' ds).2 ∧
      AgreeOn Gen.cls_MALA.stateKeys ((malaStepSpec logd gradf sqrtf).step o ds).1 ((malaStepSpec logd gradf sqrtf).step o' ds).1 :=
  stepSpec_reads_subset_state (malaStepSpec logd gradf sqrtf) mala_hR o o' ds h

/-- **(2) MALA, object level** — `resume_bisim` with its read/write hypotheses discharged by proof:
    `set_state(get_state(orig))` into any other `MALA` object gives an object that makes exactly
    the transitions of `orig` from the same stream, for every number of steps. -/
theorem resume_bisim_MALA (logd : Vec → C02.XVal) (gradf : Vec → Vec) (sqrtf : Rat → Rat) (orig fresh : Obj) :
    ∃ o', setState Gen.cls_MALA.stateKeys (getState Gen.cls_MALA.stateKeys orig) fresh = some o' ∧
      ∀ n ds, transitions (malaStepSpec logd gradf sqrtf).step n o' ds = transitions (malaStepSpec logd gradf sqrtf).step n orig ds :=
  stepSpec_resume_bisim (malaStepSpec logd gradf sqrtf) malaReads (fun _ h => h) mala_hR (hW_of_subset _ _ mala_hWR)
    (by show "current_point" ∈ Gen.cls_MALA.stateKeys; decide) orig fresh

/-- **(2) MALA, run level** — checkpoint at every position `p` of the sampling phase
    (`sample(p); save_checkpoint`), `load_checkpoint` into any sampler `f` of the class (fresh or
    not), continue: the resumed chain is entry for entry the continuation of the uninterrupted
    one (`ResumesExactly`). -/
theorem resume_checkpoint_MALA (logd : Vec → C02.XVal) (gradf : Vec → Vec) (sqrtf : Rat → Rat) (r f : Run (Vec × C02.XVal) (Bool)) (p : Nat) :
    ResumesExactly (malaSpec logd gradf sqrtf) r f p :=
  resume_checkpoint (malaSpec logd gradf sqrtf) (fun _ => True) (reads_subset_state_MALA logd gradf sqrtf)
    (by show "current_point" ∈ Gen.cls_MALA.stateKeys; decide) (fun _ _ _ => trivial) (fun _ _ => rfl)
    (fun _ _ _ _ => trivial) r f p trivial

/-- **(3) MALA** — `sample(n); sample(m)` equals `sample(n+m)` (attributes, stored samples,
    acceptance records, callback log, stream). -/
theorem sample_append_MALA (logd : Vec → C02.XVal) (gradf : Vec → Vec) (sqrtf : Rat → Rat) (n m : Nat) (r : Run (Vec × C02.XVal) (Bool)) :
    sample (malaSpec logd gradf sqrtf) (n + m) r = sample (malaSpec logd gradf sqrtf) m (sample (malaSpec logd gradf sqrtf) n r) :=
  sample_append (malaSpec logd gradf sqrtf) (fun _ => True) (fun _ => trivial) (fun _ _ _ => trivial) (fun _ _ => rfl) n m r

/-- **(4) MALA** — the instance against the current Python source (`tableConsistent`): its reads and
    writes are reads/writes the AST translator reports for `MALA.step`, every carried read of the
    source is a read of the instance or the configuration `["_target"]`, every write of the source is
    a write of the instance, the reads are `_STATE_KEYS`, the configuration is constructor-only. -/
theorem table_consistent_MALA :
    tableConsistent Gen.cls_MALA malaReads malaWrites ["_target"] = true := by decide

/-- **MALA: the instance is `C02.malaStep`** with `sigma = sqrtf scale`, on the record
    `x, logd, grad, scale`. -/
theorem MALA_step_is_malaStep (logd : Vec → C02.XVal) (gradf : Vec → Vec) (sqrtf : Rat → Rat) (o : Obj)
    (x : Vec) (l : C02.XVal) (g s : Vec)
    (hx : o.get "current_point" = encVec x) (hl : o.get "current_target_logd" = encX l)
    (hg : o.get "current_target_grad" = encVec g)
    (hs : o.get "scale" = encVec s) (z : Vec) (ell : C02.XVal) (rest : List (Vec × C02.XVal)) :
    ((malaStepSpec logd gradf sqrtf).step o ((z, ell) :: rest)).2 =
      ((C02.malaStep .expMALA logd gradf (sqrtf (s.headD 0)) ⟨x, l, g, s⟩ z ell).2, rest) ∧
    ((malaStepSpec logd gradf sqrtf).step o ((z, ell) :: rest)).1.get "current_point" =
      encVec (C02.malaStep .expMALA logd gradf (sqrtf (s.headD 0)) ⟨x, l, g, s⟩ z ell).1.x ∧
    ((malaStepSpec logd gradf sqrtf).step o ((z, ell) :: rest)).1.get "current_target_logd" =
      encX (C02.malaStep .expMALA logd gradf (sqrtf (s.headD 0)) ⟨x, l, g, s⟩ z ell).1.logd ∧
    ((malaStepSpec logd gradf sqrtf).step o ((z, ell) :: rest)).1.get "current_target_grad" =
      encVec (C02.malaStep .expMALA logd gradf (sqrtf (s.headD 0)) ⟨x, l, g, s⟩ z ell).1.grad ∧
    ((malaStepSpec logd gradf sqrtf).step o ((z, ell) :: rest)).1.get "scale" = encVec s :=
  mala_step_sim logd gradf sqrtf o x l g s hx hl hg hs z ell rest

example : transitions (malaStepSpec exLogd exGrad exSqrt).step 3 (ulaInit exLogd exGrad exCtorMala)
      [([1, 0], .fin (-1)), ([8, 8], .fin (-1)), ([2, 0], .neginf)] =
    [(encVec [1/2, 7/8], true), (encVec [1/2, 7/8], false), (encVec [23/16, 49/64], true)] := by decide +kernel
example := resume_checkpoint_MALA exLogd exGrad exSqrt (Run.fresh exCtorMala [([1, 0], .fin (-1)), ([8, 8], .fin (-1))]) (Run.fresh exCtorMala []) 1

/-! ## 4. ULA -/

/-- **(1) ULA** — `ULA.step` reads `current_point`, `current_target_grad`, `scale` (all in `_STATE_KEYS` of the current source) and the
    configuration (the instance's parameters): two `ULA` objects agreeing on the state keys make the
    same transition — acceptance record and draws consumed — and agree on the state keys afterwards,
    whatever their other attributes are.
    (`current_target_logd` is assigned on acceptance but never read.) -/
theorem reads_subset_state_ULA (logd : Vec → C02.XVal) (gradf : Vec → Vec) (sqrtf : Rat → Rat) (o o' : Obj) (ds : List (Vec))
    (h : AgreeOn Gen.cls_ULA.stateKeys o o') :
    ((ulaStepSpec logd gradf sqrtf).step o ds).2 = ((ulaStepSpec logd gradf sqrtf).step o' ds).2 ∧
      AgreeOn Gen.cls_ULA.stateKeys ((ulaStepSpec logd gradf sqrtf).step o ds).1 ((ulaStepSpec logd gradf sqrtf).step o' ds).1 :=
  stepSpec_reads_subset_state (ulaStepSpec logd gradf sqrtf) ula_hR o o' ds h

/-- **(2) ULA, object level** — `resume_bisim` with its read/write hypotheses discharged by proof:
    `set_state(get_state(orig))` into any other `ULA` object gives an object that makes exactly
    the transitions of `orig` from the same stream, for every number of steps. -/
theorem resume_bisim_ULA (logd : Vec → C02.XVal) (gradf : Vec → Vec) (sqrtf : Rat → Rat) (orig fresh : Obj) :
    ∃ o', setState Gen.cls_ULA.stateKeys (getState Gen.cls_ULA.stateKeys orig) fresh = some o' ∧
      ∀ n ds, transitions (ulaStepSpec logd gradf sqrtf).step n o' ds = transitions (ulaStepSpec logd gradf sqrtf).step n orig ds :=
  stepSpec_resume_bisim (ulaStepSpec logd gradf sqrtf) ulaR ula_hRR ula_hRS (hW_of_subset _ _ ula_hWR)
    (by show "current_point" ∈ Gen.cls_ULA.stateKeys; decide) orig fresh

/-- **(2) ULA, run level** — checkpoint at every position `p` of the sampling phase
    (`sample(p); save_checkpoint`), `load_checkpoint` into any sampler `f` of the class (fresh or
    not), continue: the resumed chain is entry for entry the continuation of the uninterrupted
    one (`ResumesExactly`). -/
theorem resume_checkpoint_ULA (logd : Vec → C02.XVal) (gradf : Vec → Vec) (sqrtf : Rat → Rat) (r f : Run (Vec) (Bool)) (p : Nat) :
    ResumesExactly (ulaSpec logd gradf sqrtf) r f p :=
  resume_checkpoint (ulaSpec logd gradf sqrtf) (fun _ => True) (reads_subset_state_ULA logd gradf sqrtf)
    (by show "current_point" ∈ Gen.cls_ULA.stateKeys; decide) (fun _ _ _ => trivial) (fun _ _ => rfl)
    (fun _ _ _ _ => trivial) r f p trivial

/-- **(3) ULA** — `sample(n); sample(m)` equals `sample(n+m)` (attributes, stored samples,
    acceptance records, callback log, stream). -/
theorem sample_append_ULA (logd : Vec → C02.XVal) (gradf : Vec → Vec) (sqrtf : Rat → Rat) (n m : Nat) (r : Run (Vec) (Bool)) :
    sample (ulaSpec logd gradf sqrtf) (n + m) r = sample (ulaSpec logd gradf sqrtf) m (sample (ulaSpec logd gradf sqrtf) n r) :=
  sample_append (ulaSpec logd gradf sqrtf) (fun _ => True) (fun _ => trivial) (fun _ _ _ => trivial) (fun _ _ => rfl) n m r

/-- **(4) ULA** — the instance against the current Python source (`tableConsistent`): its reads and
    writes are reads/writes the AST translator reports for `ULA.step`, every carried read of the
    source is a read of the instance or the configuration `["_target"]`, every write of the source is
    a write of the instance, the reads are `_STATE_KEYS`, the configuration is constructor-only. -/
theorem table_consistent_ULA :
    tableConsistent Gen.cls_ULA ulaReads ulaWrites ["_target"] = true := by decide

/-- **ULA: the instance is `ulaStep`** (the MALA proposal `C02.malaPropose`, accepted unless the value
    at the proposal is NaN/±inf), on the record `x, grad, scale`; `current_target_logd` is assigned
    on acceptance only. -/
theorem ULA_step_is_ulaStep (logd : Vec → C02.XVal) (gradf : Vec → Vec) (sqrtf : Rat → Rat) (o : Obj)
    (x g s : Vec)
    (hx : o.get "current_point" = encVec x) (hg : o.get "current_target_grad" = encVec g)
    (hs : o.get "scale" = encVec s) (z : Vec) (rest : List Vec) :
    ((ulaStepSpec logd gradf sqrtf).step o (z :: rest)).2 =
      ((ulaStep logd gradf (sqrtf (s.headD 0)) ⟨x, .nan, g, s⟩ z).2, rest) ∧
    ((ulaStepSpec logd gradf sqrtf).step o (z :: rest)).1.get "current_point" =
      encVec (ulaStep logd gradf (sqrtf (s.headD 0)) ⟨x, .nan, g, s⟩ z).1.x ∧
    ((ulaStepSpec logd gradf sqrtf).step o (z :: rest)).1.get "current_target_grad" =
      encVec (ulaStep logd gradf (sqrtf (s.headD 0)) ⟨x, .nan, g, s⟩ z).1.grad ∧
    ((ulaStepSpec logd gradf sqrtf).step o (z :: rest)).1.get "current_target_logd" =
      (if (ulaStep logd gradf (sqrtf (s.headD 0)) ⟨x, .nan, g, s⟩ z).2
        then encX (ulaStep logd gradf (sqrtf (s.headD 0)) ⟨x, .nan, g, s⟩ z).1.logd
        else o.get "current_target_logd") ∧
    ((ulaStepSpec logd gradf sqrtf).step o (z :: rest)).1.get "scale" = encVec s :=
  ula_step_sim logd gradf sqrtf o x g s hx hg hs z rest

/-- **ULA is MALA without the Metropolis test**: `ulaStep` is `C02.malaStep .expMALA` at
    `log u = -inf` (so the C02 theorems about `malaStep` — proposal, finiteness guard — apply). -/
theorem ulaStep_eq_malaStep (logd : Vec → C02.XVal) (gradf : Vec → Vec) (sigma : Rat) (st : C02.St) (z : Vec) :
    ulaStep logd gradf sigma st z = C02.malaStep .expMALA logd gradf sigma st z .neginf :=
  ulaStep_eq logd gradf sigma st z

example : transitions (ulaStepSpec exLogd exGrad exSqrt).step 2 (ulaInit exLogd exGrad exCtorMala) [[1, 0], [8, 8]] =
    [(encVec [1/2, 7/8], true), (encVec [71/16, 305/64], true)] := by decide +kernel
example := resume_checkpoint_ULA exLogd exGrad exSqrt (Run.fresh exCtorMala [[1, 0], [8, 8]]) (Run.fresh exCtorMala []) 1

/-! ## 5. CWMH -/

/-- **(1) CWMH** — `CWMH.step` reads `current_point`, `current_target_logd`, `_scale` (all in `_STATE_KEYS` of the current source) and the
    configuration (the instance's parameters): two `CWMH` objects agreeing on the state keys make the
    same transition — acceptance record and draws consumed — and agree on the state keys afterwards,
    whatever their other attributes are. -/
theorem reads_subset_state_CWMH (logd : Vec → C02.XVal) (o o' : Obj) (ds : List (Vec × List C02.XVal))
    (h : AgreeOn Gen.cls_CWMH.stateKeys o o') :
    ((cwStepSpec logd).step o ds).2 = ((cwStepSpec logd).step o' ds).2 ∧
      AgreeOn Gen.cls_CWMH.stateKeys ((cwStepSpec logd).step o ds).1 ((cwStepSpec logd).step o' ds).1 :=
  stepSpec_reads_subset_state (cwStepSpec logd) cw_hR o o' ds h

/-- **(2) CWMH, object level** — `resume_bisim` with its read/write hypotheses discharged by proof:
    `set_state(get_state(orig))` into any other `CWMH` object gives an object that makes exactly
    the transitions of `orig` from the same stream, for every number of steps. -/
theorem resume_bisim_CWMH (logd : Vec → C02.XVal) (orig fresh : Obj) :
    ∃ o', setState Gen.cls_CWMH.stateKeys (getState Gen.cls_CWMH.stateKeys orig) fresh = some o' ∧
      ∀ n ds, transitions (cwStepSpec logd).step n o' ds = transitions (cwStepSpec logd).step n orig ds :=
  stepSpec_resume_bisim (cwStepSpec logd) cwReads (fun _ h => h) cw_hR (hW_of_subset _ _ cw_hWR)
    (by show "current_point" ∈ Gen.cls_CWMH.stateKeys; decide) orig fresh

/-- **(2) CWMH, run level** — checkpoint at every position `p` of the sampling phase
    (`sample(p); save_checkpoint`), `load_checkpoint` into any sampler `f` of the class (fresh or
    not), continue: the resumed chain is entry for entry the continuation of the uninterrupted
    one (`ResumesExactly`). -/
theorem resume_checkpoint_CWMH (logd : Vec → C02.XVal) (tune : Obj → List (List Bool) → Nat → Nat → Obj) (r f : Run (Vec × List C02.XVal) (List Bool)) (p : Nat) :
    ResumesExactly (cwSpec logd tune) r f p :=
  resume_checkpoint (cwSpec logd tune) (fun _ => True) (reads_subset_state_CWMH logd)
    (by show "current_point" ∈ Gen.cls_CWMH.stateKeys; decide) (fun _ _ _ => trivial) (fun _ _ => rfl)
    (fun _ _ _ _ => trivial) r f p trivial

/-- **(3) CWMH** — `sample(n); sample(m)` equals `sample(n+m)` (attributes, stored samples,
    acceptance records, callback log, stream). -/
theorem sample_append_CWMH (logd : Vec → C02.XVal) (tune : Obj → List (List Bool) → Nat → Nat → Obj) (n m : Nat) (r : Run (Vec × List C02.XVal) (List Bool)) :
    sample (cwSpec logd tune) (n + m) r = sample (cwSpec logd tune) m (sample (cwSpec logd tune) n r) :=
  sample_append (cwSpec logd tune) (fun _ => True) (fun _ => trivial) (fun _ _ _ => trivial) (fun _ _ => rfl) n m r

/-- **(4) CWMH** — the instance against the current Python source (`tableConsistent`): its reads and
    writes are reads/writes the AST translator reports for `CWMH.step`, every carried read of the
    source is a read of the instance or the configuration `["_target", "_proposal"]`, every write of the source is
    a write of the instance, the reads are `_STATE_KEYS`, the configuration is constructor-only. -/
theorem table_consistent_CWMH :
    tableConsistent Gen.cls_CWMH cwReads cwWrites ["_target", "_proposal"] = true := by decide

/-- **CWMH: the instance is `C02.cwStep`** (the whole component sweep), on the record
    `x, logd, scale`; the acceptance record is the vector of per-component flags. -/
theorem CWMH_step_is_cwStep (logd : Vec → C02.XVal) (o : Obj) (x : Vec) (l : C02.XVal) (s : Vec)
    (hx : o.get "current_point" = encVec x) (hl : o.get "current_target_logd" = encX l)
    (hs : o.get "_scale" = encVec s) (z : Vec) (ells : List C02.XVal) (rest : List (Vec × List C02.XVal)) :
    ((cwStepSpec logd).step o ((z, ells) :: rest)).2 =
      ((C02.cwStep .expCWMH (fun _ p => logd p) ⟨x, l, [], s⟩ z ells).2.1, rest) ∧
    ((cwStepSpec logd).step o ((z, ells) :: rest)).1.get "current_point" =
      encVec (C02.cwStep .expCWMH (fun _ p => logd p) ⟨x, l, [], s⟩ z ells).1.x ∧
    ((cwStepSpec logd).step o ((z, ells) :: rest)).1.get "current_target_logd" =
      encX (C02.cwStep .expCWMH (fun _ p => logd p) ⟨x, l, [], s⟩ z ells).1.logd ∧
    ((cwStepSpec logd).step o ((z, ells) :: rest)).1.get "_scale" =
      encVec (C02.cwStep .expCWMH (fun _ p => logd p) ⟨x, l, [], s⟩ z ells).1.scale :=
  cw_step_sim logd o x l s hx hl hs z ells rest

/-- a concrete CWMH chain: first sweep accepts component 0 and rejects component 1 -/
example : transitions (cwStepSpec exLogd).step 2 (cwInit exLogd exCtor)
      [([1, 4], [.fin (-1), .fin (-1)]), ([0, -2], [.neginf, .neginf])] =
    [(encVec [1/2, 1], [true, false]), (encVec [1/2, 0], [true, true])] := by decide +kernel
example := resume_checkpoint_CWMH exLogd (fun o _ _ _ => o) (Run.fresh exCtor [([1, 4], [.fin (-1), .fin (-1)])]) (Run.fresh exCtor []) 1

/-! ## 6. NUTS -/

/-- **(1) NUTS** — `NUTS.step` reads `_epsilon`, `_epsilon_bar`, `_max_depth`, `current_point`,
    `current_target_grad`, `current_target_logd` (all in `_STATE_KEYS` of the current source) and the
    configuration (`target`): two `NUTS` objects agreeing on the state keys make the same transition
    (same tree, same number of draws consumed, same acceptance) and agree on the state keys
    afterwards — whatever `_num_tree_node`, `_current_alpha_ratio`, `_mu`, … hold. -/
theorem reads_subset_state_NUTS (cfg : NutsCfg) (o o' : Obj) (ds : List Rat)
    (h : AgreeOn Gen.cls_NUTS.stateKeys o o') :
    ((nutsStepSpec cfg).step o ds).2 = ((nutsStepSpec cfg).step o' ds).2 ∧
      AgreeOn Gen.cls_NUTS.stateKeys ((nutsStepSpec cfg).step o ds).1 ((nutsStepSpec cfg).step o' ds).1 :=
  stepSpec_reads_subset_state (nutsStepSpec cfg) nuts_hR o o' ds h

/-- **(2) NUTS, object level** — `resume_bisim` with its hypotheses discharged by proof (the three
    attributes that are written but not read — `_current_alpha_ratio`, `_epsilon`,
    `_num_tree_node` — are assigned by every call). -/
theorem resume_bisim_NUTS (cfg : NutsCfg) (orig fresh : Obj) :
    ∃ o', setState Gen.cls_NUTS.stateKeys (getState Gen.cls_NUTS.stateKeys orig) fresh = some o' ∧
      ∀ n ds, transitions (nutsStepSpec cfg).step n o' ds = transitions (nutsStepSpec cfg).step n orig ds :=
  stepSpec_resume_bisim (nutsStepSpec cfg) nutsReads (fun _ h => h) nuts_hR (nuts_hW cfg)
    (by show "current_point" ∈ Gen.cls_NUTS.stateKeys; decide) orig fresh

/-- **(2) NUTS, run level** — checkpoint at every position `p` of the sampling phase and resume in
    any other NUTS sampler `f` (fresh, warmed up, …): the resumed chain continues the uninterrupted
    one entry for entry.  Hypothesis: when `sample` starts on `r`, the step size is a number or
    `_epsilon_bar` is already set (true after `initialize`, see `resume_checkpoint_NUTS_fresh`). -/
theorem resume_checkpoint_NUTS (cfg : NutsCfg) (r f : Run Rat Bool) (p : Nat)
    (h : (ensureInit (nutsSpec cfg) r).obj.get "_epsilon" ≠ .unset ∨
         (ensureInit (nutsSpec cfg) r).obj.get "_epsilon_bar" ≠ .unset) :
    ResumesExactly (nutsSpec cfg) r f p :=
  resume_checkpoint (nutsSpec cfg) nutsInv (reads_subset_state_NUTS cfg)
    (by show "current_point" ∈ Gen.cls_NUTS.stateKeys; decide) (nuts_inv_step cfg)
    nuts_preSample_fix nuts_inv_agree r f p (nuts_preSample_inv _ h)

/-- … in particular for a sampler that `sample` itself initialises. -/
theorem resume_checkpoint_NUTS_fresh (cfg : NutsCfg) (ctor : Obj) (ds : List Rat) (f : Run Rat Bool) (p : Nat) :
    ResumesExactly (nutsSpec cfg) (Run.fresh ctor ds) f p :=
  resume_checkpoint_NUTS cfg _ f p (Or.inl (by
    simp only [ensureInit, Run.fresh, initializeRun, nutsSpec, StepSpec.toSpec]
    exact nutsInit_epsilon cfg ctor))

/-- **(3) NUTS** — `sample(n); sample(m)` equals `sample(n+m)`: the second `_pre_sample` finds
    `_epsilon_bar` set and does nothing. -/
theorem sample_append_NUTS (cfg : NutsCfg) (n m : Nat) (r : Run Rat Bool)
    (h : (ensureInit (nutsSpec cfg) r).obj.get "_epsilon" ≠ .unset ∨
         (ensureInit (nutsSpec cfg) r).obj.get "_epsilon_bar" ≠ .unset) :
    sample (nutsSpec cfg) (n + m) r = sample (nutsSpec cfg) m (sample (nutsSpec cfg) n r) :=
  (sample_append_at (nutsSpec cfg) nutsInv (nuts_inv_step cfg) nuts_preSample_fix n m r
    (nuts_preSample_inv _ h)).1

theorem sample_append_NUTS_fresh (cfg : NutsCfg) (n m : Nat) (ctor : Obj) (ds : List Rat) :
    sample (nutsSpec cfg) (n + m) (Run.fresh ctor ds) =
      sample (nutsSpec cfg) m (sample (nutsSpec cfg) n (Run.fresh ctor ds)) :=
  sample_append_NUTS cfg n m _ (Or.inl (by
    simp only [ensureInit, Run.fresh, initializeRun, nutsSpec, StepSpec.toSpec]
    exact nutsInit_epsilon cfg ctor))

/-- **(4) NUTS** — `step` as for the other classes; in addition `tune`, `_pre_sample`, `_pre_warmup`:
    the instance's `tune` reads/writes what the source's `tune` reads/writes (`_epsilon` is read by
    the source only after it assigned it), and `_pre_sample`/`_pre_warmup` touch `_epsilon`,
    `_epsilon_bar` only. -/
theorem table_consistent_NUTS :
    tableConsistent Gen.cls_NUTS nutsReads nutsWrites ["_target"] = true ∧
    (∀ k, k ∈ nutsTuneReads → k ∈ Gen.cls_NUTS.tuneReads) ∧
    (∀ k, k ∈ Gen.cls_NUTS.tuneReads → k ∈ nutsTuneReads ∨ k ∈ nutsTuneWrites) ∧
    (∀ k, k ∈ nutsTuneWrites ↔ k ∈ Gen.cls_NUTS.tuneWrites) ∧
    Gen.cls_NUTS.preSampleCarried = ["_epsilon", "_epsilon_bar"] ∧
    Gen.cls_NUTS.preSampleWrites = ["_epsilon_bar"] ∧ Gen.cls_NUTS.preWarmupWrites = ["_epsilon_bar"] := by
  refine ⟨by decide, by decide, by decide, ?_, rfl, rfl, rfl⟩
  intro k
  simp only [nutsTuneWrites, Gen.cls_NUTS]

/-- **NUTS: the instance is `C08.nutsStep`** — on an object holding the (encoded) step size `eps`,
    depth bound, point, cached gradient and finite cached log-density, `step` draws the momentum
    (`dim` numbers) and the slice variable (one `Exp(1)` number) from the stream, runs exactly the
    `C08.nutsStep` call of `Driver/C08.lean` (`nutsLoop`: `Ham = logd − ½ r·r`, `log_u = Ham − e`,
    the experimental interface's finiteness guard) on the rest, returns its `acc` and remaining
    stream, installs its `cur` (point and caches), stores the node count and the acceptance
    statistic of the last doubling, and hands `_epsilon_bar` over to `_epsilon`. -/
theorem NUTS_step_is_nutsStep (cfg : NutsCfg) (o : Obj) (eps : Rat) (eb : Val) (md : Nat) (x g : Vec) (l0 : Rat)
    (he : o.get "_epsilon" = encQ eps) (heb : o.get "_epsilon_bar" = eb)
    (hmd : o.get "_max_depth" = .int md) (hx : o.get "current_point" = encVec x)
    (hg : o.get "current_target_grad" = encVec g) (hl : o.get "current_target_logd" = encR (.fin l0))
    (ds : List Rat) :
    ((nutsStepSpec cfg).step o ds).2 = ((nutsLoop cfg eps md x g l0 ds).2.acc, (nutsLoop cfg eps md x g l0 ds).2.us) ∧
    ((nutsStepSpec cfg).step o ds).1.get "current_point" = encVec (nutsLoop cfg eps md x g l0 ds).2.cur.x ∧
    ((nutsStepSpec cfg).step o ds).1.get "current_target_grad" = encVec (nutsLoop cfg eps md x g l0 ds).2.cur.grad ∧
    ((nutsStepSpec cfg).step o ds).1.get "current_target_logd" = encR (nutsLoop cfg eps md x g l0 ds).2.cur.logd ∧
    ((nutsStepSpec cfg).step o ds).1.get "_epsilon" = eb ∧
    ((nutsStepSpec cfg).step o ds).1.get "_epsilon_bar" = eb ∧
    ((nutsStepSpec cfg).step o ds).1.get "_num_tree_node" = .int (nutsLoop cfg eps md x g l0 ds).2.nodes ∧
    ((nutsStepSpec cfg).step o ds).1.get "_current_alpha_ratio" =
      encR (cfg.alpha (nutsLoop cfg eps md x g l0 ds).1 (nutsLoop cfg eps md x g l0 ds).2.last) :=
  nuts_step_sim cfg o eps eb md x g l0 he heb hmd hx hg hl ds

/-- the cached log-density stays finite: with the experimental interface's guard a transition
    from a finite cached value ends at a finite cached value (so the finite-start branch of the
    instance is the one taken along the whole chain) -/
theorem NUTS_logd_stays_finite (cfg : NutsCfg) (eps : Rat) (md : Nat) (x g : Vec) (l0 : Rat) (ds : List Rat) :
    (nutsLoop cfg eps md x g l0 ds).2.cur.logd.isFinite = true :=
  nutsStep_guard _ (fun z : C08.PS => z.logd.isFinite) md _ _ rfl

/-- a concrete NUTS chain (1-D standard normal, `max_depth = 1`, `step_size = 1/2`): two
    transitions consuming 7 and 6 draws -/
example : transitions (nutsStepSpec exCfg).step 2 (nutsPreSample (nutsInit exCfg exNutsCtor)) exStream =
    [(encVec [11/8], true), (encVec [869/1024], true)] := by decide +kernel
example := resume_checkpoint_NUTS_fresh exCfg exNutsCtor exStream (Run.fresh exNutsCtor []) 1
example := sample_append_NUTS_fresh exCfg 1 1 exNutsCtor exStream

/-! ## 7. NUTS: step-size hand-over, `tune`, and resuming in the warm-up phase -/

/-- **`self._epsilon = self._epsilon_bar`** at the end of every `step`, for every object and stream:
    afterwards `_epsilon` holds what `_epsilon_bar` held, and `_epsilon_bar` is unchanged. -/
theorem nuts_epsilon_handover (cfg : NutsCfg) (o : Obj) (ds : List Rat) :
    ((nutsStepSpec cfg).step o ds).1.get "_epsilon" = o.get "_epsilon_bar" ∧
    ((nutsStepSpec cfg).step o ds).1.get "_epsilon_bar" = o.get "_epsilon_bar" := by
  refine ⟨?_, (nutsStepSpec cfg).step_frame o ds "_epsilon_bar" (by show "_epsilon_bar" ∉ nutsWrites; decide)⟩
  simp only [StepSpec.step, nutsStepSpec, nutsReads, nutsWrites, List.map]
  obtain ⟨a, n, p, q, r, hsh⟩ := nutsKern_shape cfg (o.get "_epsilon") (o.get "_epsilon_bar") (o.get "_max_depth")
    (o.get "current_point") (o.get "current_target_grad") (o.get "current_target_logd") ds
  rw [hsh]
  rcases p with _ | p <;> rcases q with _ | q <;> rcases r with _ | r <;>
    simp [collect, applyWrites, get_set]

/-- **the sampling phase runs at the fixed step size `_epsilon_bar`**: along `sample`'s loop
    `_epsilon_bar` never changes, and from the second transition on `_epsilon` equals it (the
    first transition after a warm-up still uses the last `_epsilon` set by `tune`, as in the code). -/
theorem nuts_sampling_stepsize (cfg : NutsCfg) (n : Nat) (r : Run Rat Bool) :
    (sampleLoop (nutsSpec cfg) n r).obj.get "_epsilon_bar" = r.obj.get "_epsilon_bar" ∧
    (1 ≤ n → (sampleLoop (nutsSpec cfg) n r).obj.get "_epsilon" = r.obj.get "_epsilon_bar") := by
  induction n generalizing r with
  | zero => exact ⟨rfl, fun h => absurd h (by omega)⟩
  | succ k ih =>
    simp only [sampleLoop]
    obtain ⟨h1, h2⟩ := ih (oneStep (nutsSpec cfg) r)
    have hs := nuts_epsilon_handover cfg r.obj r.stream
    have ho : (oneStep (nutsSpec cfg) r).obj = ((nutsStepSpec cfg).step r.obj r.stream).1 := rfl
    rw [ho] at h1 h2
    refine ⟨by rw [h1, hs.2], fun _ => ?_⟩
    by_cases hk : 1 ≤ k
    · rw [h2 hk, hs.2]
    · have : k = 0 := by omega
      subst this
      simp only [sampleLoop]
      rw [ho, hs.1]

/-- **Resuming in the warm-up phase** — `tune` (dual averaging) reads `_H_bar`, `_epsilon_bar`
    (state keys), `_current_alpha_ratio`, `_mu`, `_opt_acc_rate` (not state keys).
    `_current_alpha_ratio` is harmless inside `warmup`: every `step` assigns it before `tune`
    reads it, so the loop never carries it across a checkpoint.  `_mu` (set once by
    `_initialize` from the initial step size) and `_opt_acc_rate` (constructor) are carried.
    Hence: if the sampler that loads the checkpoint has the same `_mu` and `_opt_acc_rate` as the
    original, then `warmup(Nb, tune_freq)` on the loaded sampler and on the original produce the
    same `Nb` new samples and acceptance records, consume the same draws and end in objects
    agreeing on the state keys, `_mu`, `_opt_acc_rate` — for every `Nb`, `tune_freq`, stream. -/
theorem nuts_warmup_resume (cfg : NutsCfg) (orig fresh : Obj)
    (hC : AgreeOn ["_mu", "_opt_acc_rate"] fresh orig) :
    ∃ o', setState Gen.cls_NUTS.stateKeys (getState Gen.cls_NUTS.stateKeys orig) fresh = some o' ∧
      ∀ (a b : Run Rat Bool), a.obj = orig → b.obj = o' → a.stream = b.stream →
        a.initialized = true → b.initialized = true → ∀ (nb : Nat) (tf : Rat),
        ∃ tail : List (Val × Bool), tail.length = nb ∧
          (warmup (nutsSpec cfg) nb tf a).samples = a.samples ++ tail.map Prod.fst ∧
          (warmup (nutsSpec cfg) nb tf b).samples = b.samples ++ tail.map Prod.fst ∧
          (warmup (nutsSpec cfg) nb tf a).acc = a.acc ++ tail.map Prod.snd ∧
          (warmup (nutsSpec cfg) nb tf b).acc = b.acc ++ tail.map Prod.snd ∧
          (warmup (nutsSpec cfg) nb tf a).stream = (warmup (nutsSpec cfg) nb tf b).stream ∧
          AgreeOn nutsWarmKeys (warmup (nutsSpec cfg) nb tf a).obj (warmup (nutsSpec cfg) nb tf b).obj := by
  obtain ⟨o', hload, hS, hrest⟩ := setState_getState Gen.cls_NUTS.stateKeys orig fresh
  refine ⟨o', hload, ?_⟩
  have hK : AgreeOn nutsWarmKeys orig o' := by
    intro k hk
    by_cases hs : k ∈ Gen.cls_NUTS.stateKeys
    · exact (hS k hs).symm
    · rw [hrest k hs]
      have : k ∈ ["_mu", "_opt_acc_rate"] := by
        simp only [nutsWarmKeys, List.mem_cons] at hk
        rcases hk with h | h | h
        · simp [h]
        · simp [h]
        · exact absurd h hs
      exact (hC k this).symm
  intro a b ha hb hst hai hbi nb tf
  unfold warmup
  simp only [ensureInit_of_initialized _ a hai, ensureInit_of_initialized _ b hbi]
  have hpre : AgreeOn nutsWarmKeys ((nutsSpec cfg).preWarmup a.obj) ((nutsSpec cfg).preWarmup b.obj) := by
    rw [ha, hb]; exact nutsPreWarmup_congr orig o' hK
  obtain ⟨i1, i2, tail, hl, f1, f2, f3, f4⟩ := nuts_warmLoop_congr cfg (tuneInterval tf nb) nb 0
    { a with obj := (nutsSpec cfg).preWarmup a.obj } { b with obj := (nutsSpec cfg).preWarmup b.obj } hpre hst
  exact ⟨tail, hl, f1, f2, f3, f4, i2, i1⟩

/-- **`tune` called directly on a loaded sampler reads a stale `_current_alpha_ratio`**: `orig` has
    made one transition (statistic `1/2`), the fresh sampler has `NaN` from `_initialize`;
    `_current_alpha_ratio` is not a state key, so after `set_state(get_state(orig))` a direct
    `tune(…)` gives a different `_H_bar`.  (Inside `warmup` this cannot happen, see
    `nuts_warmup_resume`.) -/
theorem nuts_tune_counterexample :
    let fresh : Obj := nutsPreWarmup (nutsInit exCfg exNutsCtor)
    let orig : Obj := ((nutsStepSpec exCfg).step fresh exStream).1
    ∃ o', setState Gen.cls_NUTS.stateKeys (getState Gen.cls_NUTS.stateKeys orig) fresh = some o' ∧
      (nutsTune exCfg o' [] 1 0).get "_H_bar" ≠ (nutsTune exCfg orig [] 1 0).get "_H_bar" := by
  refine ⟨_, rfl, ?_⟩
  decide +kernel

/-- **Warm-up is not resumable from the state keys alone**: two NUTS objects with the same state
    keys and the same configuration but different `_mu` — what `_initialize` computes from the
    initial step size, which `_FindGoodEpsilon` derives from a random momentum when
    `step_size=None` — warm up differently from the same stream: after `set_state(get_state(orig))`
    the second stored sample of `warmup` differs.  (The property is about the sampling phase,
    where `tune` is never called; there `resume_checkpoint_NUTS` holds without any such
    condition.) -/
theorem nuts_warmup_counterexample :
    let orig : Obj := nutsPreWarmup (nutsInit exCfg exNutsCtor)
    let fresh : Obj := orig.set "_mu" (encQ 2)
    ∃ o', setState Gen.cls_NUTS.stateKeys (getState Gen.cls_NUTS.stateKeys orig) fresh = some o' ∧
      (warmLoop (nutsSpec exCfg) 1 2 0 { (Run.fresh orig exStream : Run Rat Bool) with initialized := true }).samples ≠
      (warmLoop (nutsSpec exCfg) 1 2 0 { (Run.fresh o' exStream : Run Rat Bool) with initialized := true }).samples := by
  refine ⟨_, rfl, ?_⟩
  decide +kernel

/-- non-vacuity of `nuts_warmup_resume`: a fresh sampler of the same configuration (given
    `step_size`) has the same `_mu`, `_opt_acc_rate` -/
example := nuts_warmup_resume exCfg (((nutsStepSpec exCfg).step (nutsPreWarmup (nutsInit exCfg exNutsCtor)) exStream).1)
  (nutsInit exCfg exNutsCtor) (by unfold AgreeOn; decide +kernel)

end CuqiVerif.C14
