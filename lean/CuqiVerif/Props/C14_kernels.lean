import CuqiVerif.Props.C14
import CuqiVerif.Proofs.C14_kernels

/-!
# C14 — the transition kernels of MH, PCN, MALA, ULA, CWMH and NUTS inside the C14 model

`Props/C14.lean` proves checkpoint/resume (`resume_bisim`) under read/write hypotheses about
`step` that, for the library's classes, were discharged only by the AST tables and the bitwise
oracle.  Here the hypotheses are discharged **by proof** for six classes, whose `step` is built
(in `Proofs/C14_kernels.lean`) from the executable step functions that `Driver/C02.lean` and
`Driver/C08.lean` run against the implementation (`C02.mhStep`, `pcnStep`, `malaStep`, `cwStep`,
`C08.nutsStep`), reading their inputs from the attribute map and writing their outputs back.

* §0  generic: any `StepSpec` whose reads are state keys resumes exactly (object level, via
      `resume_bisim`; run level, through `save_checkpoint`/`load_checkpoint`/`sample`).
* §1–§6  per class: `reads_subset_state_X`, `resume_bisim_X`, `resume_checkpoint_X`,
      `sample_append_X`, `table_consistent_X` (the instance's read/write sets against the sets the
      AST translator extracts from the current source), `X_step_is_…` (the instance *is* the
      C02/C08 step on the decoded record).
* §7  NUTS: the `_epsilon`/`_epsilon_bar` hand-over, `tune`, and what resume means in warm-up.
-/
namespace CuqiVerif.C14

/-! ## 0. generic -/

/-- **(1) generic** — a `StepSpec` whose reads are all state keys: two sampler objects that agree
    on the state keys make the same transition (acceptance record, draws consumed) and agree on the
    state keys afterwards — whatever their other attributes are. -/
theorem stepSpec_reads_subset_state {D A : Type} (s : StepSpec D A)
    (hR : ∀ k, k ∈ s.reads → k ∈ s.stateKeys) (o o' : Obj) (ds : List D)
    (h : AgreeOn s.stateKeys o o') :
    (s.step o ds).2 = (s.step o' ds).2 ∧ AgreeOn s.stateKeys (s.step o ds).1 (s.step o' ds).1 :=
  s.step_congr s.stateKeys hR o o' ds h

/-- **(2) generic, object level** — the hypotheses `hdep`, `hframe`, `hcover` of `resume_bisim` hold
    for a `StepSpec` with `R = reads`, `W = writes`, `C = ∅`: after `set_state(get_state(orig))` *any*
    object (of the same configuration, which lives in the instance's parameters) makes exactly the
    transitions of `orig` from the same stream, for every number of steps. -/
theorem stepSpec_resume_bisim {D A : Type} (s : StepSpec D A)
    (hR : ∀ k, k ∈ s.reads → k ∈ s.stateKeys)
    (hW : ∀ (o : Obj) (ds : List D) k, k ∈ s.writes →
      k ∈ s.reads ∨ ∃ v, (k, v) ∈ collect s.writes (s.kern (s.reads.map o.get) ds).1)
    (hpoint : "current_point" ∈ s.stateKeys) (orig fresh : Obj) :
    ∃ o', setState s.stateKeys (getState s.stateKeys orig) fresh = some o' ∧
      ∀ n ds, transitions s.step n o' ds = transitions s.step n orig ds :=
  resume_bisim s.step s.reads s.writes s.stateKeys [] (s.hdep hW)
    (fun o ds k hk => s.step_frame o ds k hk) (fun k hk => Or.inl (hR k hk)) hpoint orig fresh
    (fun k hk => by simp at hk)

/-- `sample(n+m) = sample(n); sample(m)` when the `_pre_sample` invariant holds at the start of
    this particular run (variant of `sample_append` that does not ask `_pre_sample` to establish
    the invariant from every object). -/
theorem sample_append_at {D A : Type} (sp : Spec D A) (Inv : Obj → Prop)
    (hstep : ∀ o ds, Inv o → Inv (sp.step o ds).1)
    (hfix : ∀ o, Inv o → sp.preSample o = o)
    (n m : Nat) (r : Run D A) (h0 : Inv (sp.preSample (ensureInit sp r).obj)) :
    sample sp (n + m) r = sample sp m (sample sp n r) ∧ Inv (sample sp n r).obj ∧
      (sample sp n r).initialized = true := by
  have hinit : (sampleLoop sp n { ensureInit sp r with obj := sp.preSample (ensureInit sp r).obj }).initialized = true := by
    rw [sampleLoop_initialized]; exact ensureInit_initialized sp r
  have hinv : Inv (sampleLoop sp n { ensureInit sp r with obj := sp.preSample (ensureInit sp r).obj }).obj :=
    sampleLoop_inv sp Inv hstep n _ h0
  refine ⟨?_, hinv, hinit⟩
  unfold sample
  simp only []
  rw [sampleLoop_add, ensureInit_of_initialized sp _ hinit, hfix _ hinv]

/-- **(2) generic, run level** — checkpoint at *every* position `p` of the sampling phase:
    `c = sample(p)` on the original sampler, `save_checkpoint`, `load_checkpoint` into any other
    sampler object `f` of the class (initialised or not), continue `f` with the stream where `c`
    stopped.  Then for every `m` the `m` new stored samples and acceptance records of the resumed
    sampler are exactly the entries `p+1 … p+m` of the uninterrupted run `sample(p+m)`, the streams
    end at the same place and the two objects agree on the state keys. -/
theorem resume_checkpoint {D A : Type} (sp : Spec D A) (Inv : Obj → Prop)
    (hcong : ∀ o o' ds, AgreeOn sp.stateKeys o o' →
      (sp.step o ds).2 = (sp.step o' ds).2 ∧ AgreeOn sp.stateKeys (sp.step o ds).1 (sp.step o' ds).1)
    (hpoint : "current_point" ∈ sp.stateKeys)
    (hstep : ∀ o ds, Inv o → Inv (sp.step o ds).1)
    (hfix : ∀ o, Inv o → sp.preSample o = o)
    (hInvS : ∀ o o', AgreeOn sp.stateKeys o o' → Inv o → Inv o')
    (r f : Run D A) (p : Nat) (h0 : Inv (sp.preSample (ensureInit sp r).obj)) :
    ∃ f', loadCheckpoint sp (saveCheckpoint sp (sample sp p r)).2 f = some f' ∧
      f'.samples = (ensureInit sp f).samples ∧
      ∀ m, ∃ tail : List (Val × A), tail.length = m ∧
        (sample sp (p + m) r).samples = (sample sp p r).samples ++ tail.map Prod.fst ∧
        (sample sp (p + m) r).acc = (sample sp p r).acc ++ tail.map Prod.snd ∧
        (sample sp m { f' with stream := (sample sp p r).stream }).samples = f'.samples ++ tail.map Prod.fst ∧
        (sample sp m { f' with stream := (sample sp p r).stream }).acc = f'.acc ++ tail.map Prod.snd ∧
        (sample sp m { f' with stream := (sample sp p r).stream }).stream = (sample sp (p + m) r).stream ∧
        AgreeOn sp.stateKeys (sample sp m { f' with stream := (sample sp p r).stream }).obj
          (sample sp (p + m) r).obj := by
  obtain ⟨_, hcInv, hcInit⟩ := sample_append_at sp Inv hstep hfix p 0 r h0
  generalize hc : sample sp p r = c at hcInv hcInit
  -- save: no re-initialisation
  have hsave : (saveCheckpoint sp c).2 = getState sp.stateKeys c.obj := by
    simp [saveCheckpoint, ensureInit_of_initialized sp c hcInit]
  obtain ⟨o', hload, hS, _⟩ := setState_getState sp.stateKeys c.obj (ensureInit sp f).obj
  refine ⟨{ ensureInit sp f with obj := o' }, ?_, rfl, ?_⟩
  · simp [loadCheckpoint, hsave, hload]
  intro m
  refine ⟨transitions sp.step m c.obj c.stream, transitions_length _ _ _ _, ?_⟩
  -- the uninterrupted run
  have hun : sample sp (p + m) r = sampleLoop sp m c := by
    rw [(sample_append_at sp Inv hstep hfix p m r h0).1, hc]
    unfold sample
    simp only [ensureInit_of_initialized sp c hcInit, hfix _ hcInv]
  -- the resumed run
  have hInv' : Inv o' := hInvS _ _ hS.symm hcInv
  have hres : sample sp m { ({ ensureInit sp f with obj := o' } : Run D A) with stream := c.stream } =
      sampleLoop sp m { ensureInit sp f with obj := o', stream := c.stream } := by
    have hi : ({ ({ ensureInit sp f with obj := o' } : Run D A) with stream := c.stream } : Run D A).initialized = true :=
      ensureInit_initialized sp f
    unfold sample
    simp only [ensureInit_of_initialized sp _ hi, hfix _ hInv']
  rw [hun, hres]
  obtain ⟨u1, u2⟩ := order_consecutive sp m c
  obtain ⟨v1, v2⟩ := order_consecutive sp m { ensureInit sp f with obj := o', stream := c.stream }
  have htr : transitions sp.step m o' c.stream = transitions sp.step m c.obj c.stream :=
    transitions_congr sp.step sp.stateKeys hcong hpoint m o' c.obj c.stream hS
  simp only [htr] at v1 v2
  obtain ⟨w1, w2⟩ := sampleLoop_congr sp sp.stateKeys hcong m
    { ensureInit sp f with obj := o', stream := c.stream } c hS rfl
  exact ⟨u1, u2, v1, v2, w2, w1⟩

/-! ## 1. MH -/

/-- **(1)** `MH.step` reads `current_point`, `current_target_logd`, `scale` (all in `_STATE_KEYS` of
    the current source) and the configuration (`target`, `proposal`): two `MH` objects agreeing on
    the state keys make the same transition and agree on the state keys afterwards. -/
theorem reads_subset_state_MH (logd : Vec → C02.XVal) (o o' : Obj) (ds : List (Vec × C02.XVal))
    (h : AgreeOn Gen.cls_MH.stateKeys o o') :
    ((mhStepSpec logd).step o ds).2 = ((mhStepSpec logd).step o' ds).2 ∧
      AgreeOn Gen.cls_MH.stateKeys ((mhStepSpec logd).step o ds).1 ((mhStepSpec logd).step o' ds).1 :=
  stepSpec_reads_subset_state (mhStepSpec logd)
    (by show ∀ k, k ∈ mhReads → k ∈ Gen.cls_MH.stateKeys; decide) o o' ds h

end CuqiVerif.C14
