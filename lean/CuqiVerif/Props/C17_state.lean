import CuqiVerif.Model.C17_state
import Mathlib.Data.List.Basic

/-!
# C17 — `BayesianProblem` accessors and setters as a state machine: all call histories
-/

set_option linter.unusedVariables false
set_option linter.unusedSimpArgs false

namespace CuqiVerif.C17

/-- the prior / likelihood an operation installs -/
def POp.priorOf : POp → Option Nat
  | .setPrior p => some p
  | _ => none

def POp.likOf : POp → Option (Nat × Nat × Nat)
  | .setLik l d m => some (l, d, m)
  | _ => none

/-- **components_after_history.**  For EVERY history of `tp.prior = …`, `tp.likelihood = …` and
    `set_data(…)` calls on a constructed test problem: the prior handed out is the last one assigned
    (the constructor's if none was), likelihood / data / model — hence `get_components()` — are those
    of the last likelihood assigned, together (never the model of one likelihood with the data of
    another), and every `set_data` is refused without changing anything. -/
theorem components_after_history (s : PState) (ops : List POp) :
    (s.run ops).1.prior = ((ops.filterMap POp.priorOf).getLast?).getD s.prior ∧
    ((s.run ops).1.lik, (s.run ops).1.likData, (s.run ops).1.likModel)
      = ((ops.filterMap POp.likOf).getLast?).getD (s.lik, s.likData, s.likModel) ∧
    (s.run ops).1.components =
      ((((ops.filterMap POp.likOf).getLast?).getD (s.lik, s.likData, s.likModel)).2.2,
       (((ops.filterMap POp.likOf).getLast?).getD (s.lik, s.likData, s.likModel)).2.1) ∧
    (s.run ops).2 = ops.count .setData := by
  induction ops generalizing s with
  | nil => simp [PState.run, PState.components]
  | cons op ops ih =>
    cases op with
    | setPrior p =>
      have := ih { s with prior := p }
      simp only [PState.run, PState.step, List.filterMap_cons, POp.priorOf, POp.likOf, List.getLast?_cons]
      simpa [List.count_cons] using this
    | setLik l d m =>
      have := ih { lik := l, likData := d, likModel := m, prior := s.prior }
      simp only [PState.run, PState.step, List.filterMap_cons, POp.priorOf, POp.likOf, List.getLast?_cons]
      simpa [List.count_cons] using this
    | setData =>
      have := ih s
      simp only [PState.run, PState.step, List.filterMap_cons, POp.priorOf, POp.likOf]
      simpa [List.count_cons] using this

example : ((PState.mk 0 1 2 3).run [.setPrior 7, .setData, .setLik 4 5 6, .setPrior 8]).1 = PState.mk 4 5 6 8 := by decide

end CuqiVerif.C17
