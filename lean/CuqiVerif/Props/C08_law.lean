import CuqiVerif.Proofs.C08_law

/-!
# C08 — the law of the model's randomised doubling loop is the orbit-level kernel `Orb.P`

This file closes gap (a) stated at the end of `Props/C08_orbit.lean`.

* `Rnd α` (defined in `Proofs/C08_law.lean`) is a randomised computation over uniform draws: a finite
  decision tree whose nodes `test p k` pop one draw `u` and continue with `k (u < p)`.  It has a
  deterministic interpretation `Rnd.run` on a concrete draw script (the model's `popU`) and a
  probabilistic one (`Rnd.E`, `Rnd.outcomes`): each test yields `true` with weight `p`, `false` with
  weight `1 - p`, independently per draw — a finitely supported distribution with rational weights.
* `buildTreeD`, `loopBodyD`, `loopD`, `nutsStepD` are `Model/C08.lean`'s `buildTree`, `loopBody`,
  `loop`, `nutsStep` written in that monad (each test on a popped draw replaced by `Rnd.draw`).

(i)   **Simulation**: running them on a script *is* the executable model (`*_simulates`); the result is
      an outcome of the distribution whose weight is the product of the branch weights, and that
      product is the Lebesgue volume of the box of draw vectors taking the same path.
(ii)  **The law of `buildTreeD`**: deterministic skeleton, candidate distributed by the model's `wts`,
      hence uniform over the in-slice leaves.
(iii) **The law of the final state of `nutsStepD` is `Orb.P (max_depth + 1)`**, so that
      `nuts_orbit_reversible` / `nuts_orbit_invariant` become statements about the model's own
      randomised loop (`nutsStepD_reversible`, `nutsStepD_invariant`).
-/

namespace CuqiVerif.C08
open Finset

/-- a concrete reversible context used in the examples: translation on `ℤ`, slice = even points of
    `[-6, 6]`, U-turn reported for intervals of length ≥ 6 -/
def lawCtx : Ctx ℤ where
  step := fun v z => z + v
  ham := fun z => if z % 2 = 0 ∧ -6 ≤ z ∧ z ≤ 6 then XR.fin 0 else XR.fin (-5)
  noUturn := fun a b => decide (b - a < 6)
  logu := -1
  ham0 := 0

lemma lawCtx_inv : StepInverse lawCtx := ⟨fun z => by simp [lawCtx], fun z => by simp [lawCtx]⟩

lemma lawCtx_pt (k : ℤ) : pt lawCtx 0 k = k := by
  induction k using Int.induction_on with
  | zero => rfl
  | succ n ih => rw [← pt_succ lawCtx lawCtx_inv, ih]; rfl
  | pred n ih => rw [← pt_pred lawCtx lawCtx_inv, ih]; simp [lawCtx]; ring

lemma lawCtx_inj : Function.Injective (pt lawCtx 0) := fun a b h => by
  rwa [lawCtx_pt, lawCtx_pt] at h

/-! ## the probabilistic semantics -/

/-- **The probabilistic interpretation is a finitely supported distribution with rational weights.**
    `Rnd.E d f` is the weighted sum of `f` over the explicit finite list `Rnd.outcomes d` of
    (outcome, weight) pairs (one per path); the weights sum to `1`; and if all thresholds are
    probabilities (`Rnd.Valid`) every weight is non-negative. -/
theorem law_is_distribution {α : Type} (d : Rnd α) (f : α → ℚ) :
    d.E f = (d.outcomes.map (fun aw => aw.2 * f aw.1)).sum ∧ d.E (fun _ => 1) = 1 ∧
      (d.Valid → ∀ aw ∈ d.outcomes, 0 ≤ aw.2) :=
  ⟨d.E_eq_outcomes f, d.E_const 1, d.outcomes_weight_nonneg⟩

example : (Rnd.draw (1 / 3)).outcomes = [(true, 1 / 3 * 1), (false, (1 - 1 / 3) * 1)] := rfl

/-- **Independent Bernoulli choices.**  A draw tested against the threshold `p` yields `true` with
    weight `p` and `false` with weight `1 - p`; sequencing multiplies weights (the choices of
    different draws are independent): `E (d >>= k) g = E d (fun a => E (k a) g)`. -/
theorem law_monad {α β : Type} (p : ℚ) (g : Bool → ℚ) (d : Rnd α) (k : α → Rnd β) (g' : β → ℚ) (a : α)
    (f : α → ℚ) :
    (Rnd.draw p).E g = p * g true + (1 - p) * g false ∧
      (d.bind k).E g' = d.E (fun a => (k a).E g') ∧ (Rnd.ret a).E f = f a :=
  ⟨Rnd.E_draw p g, Rnd.E_bind d k g', rfl⟩

example : ((Rnd.draw (1 / 2)).bind fun b => (Rnd.draw (1 / 3)).bind fun b' => Rnd.ret (b && b')).E
    (fun x => if x then 1 else 0) = 1 / 6 := by
  simp only [Rnd.E_bind, Rnd.E_draw, Rnd.E_ret]; norm_num

/-! ## (i) simulation: the executable model is the deterministic interpretation -/

/-- **Every test the model performs on a popped draw is a threshold test `u < p` with a rational
    probability `p`**: in-tree `rand() < n2/max(1,n1+n2)` (`takeSecond`), top level
    `rand()*n < n' and rand() < 1` ⇔ `u < min(1, n'/n)` (for `n > 0`, which always holds in the loop),
    direction `u < 1/2` (literally so in `loopBody`); all thresholds lie in `[0, 1]`. -/
theorem model_tests_are_thresholds (u : ℚ) (n1 n2 n n' : ℕ) (hn : 0 < n) :
    takeSecond u n1 n2 = decide (u < secondProb n1 n2) ∧
      (decide (u * (n : ℚ) < (n' : ℚ)) && decide (u < 1)) = decide (u < topProb n n') ∧
      (0 ≤ secondProb n1 n2 ∧ secondProb n1 n2 ≤ 1) ∧ (0 ≤ topProb n n' ∧ topProb n n' ≤ 1) :=
  ⟨takeSecond_eq u n1 n2, topProb_test u n n' hn, secondProb_mem n1 n2, topProb_mem n n'⟩

example : takeSecond (1 / 4) 1 1 = decide ((1 / 4 : ℚ) < secondProb 1 1) :=
  (model_tests_are_thresholds (1 / 4) 1 1 3 2 (by norm_num)).1

section Sim
variable {Z : Type}

/-- **Simulation of `_BuildTree`.**  For every concrete draw script, running the randomised tree
    recursion `buildTreeD` deterministically (each Bernoulli choice decided by the next draw of the
    script) gives exactly the executable model's tree *and* its left-over draws. -/
theorem buildTreeD_simulates (c : Ctx Z) (v : Int) (j : ℕ) (z : Z) (us : List Rat) :
    (buildTreeD c v j z).run us = buildTree c v j z us :=
  buildTreeD_run c v j z us

example : (buildTreeD lawCtx 1 2 0).run [1 / 4, 3 / 4, 1 / 8] = buildTree lawCtx 1 2 0 [1 / 4, 3 / 4, 1 / 8] :=
  buildTreeD_simulates _ _ _ _ _

/-- **Simulation of one iteration of the doubling loop** (`n > 0` always holds in `nutsStep`: it
    starts at `1` and only grows); the state's `us` field is overwritten with the left-over draws. -/
theorem loopBodyD_simulates (c : Ctx Z) (guard : Z → Bool) (st : Loop Z) (hn : 0 < st.n) :
    setUs ((loopBodyD c guard st).run st.us) = loopBody c guard st :=
  loopBodyD_run c guard st hn

example : setUs ((loopBodyD lawCtx (fun _ => true) (loopInit 0 [1 / 4, 3 / 4])).run [1 / 4, 3 / 4])
    = loopBody lawCtx (fun _ => true) (loopInit 0 [1 / 4, 3 / 4]) :=
  loopBodyD_simulates _ _ _ (by decide)

/-- **Simulation of a whole transition.**  For every draw script the executable `nutsStep` is the
    deterministic run of the randomised transition `nutsStepD` (no hypothesis at all). -/
theorem nutsStepD_simulates (c : Ctx Z) (guard : Z → Bool) (md : ℕ) (z0 : Z) (us : List Rat) :
    nutsStep c guard md z0 us = setUs ((nutsStepD c guard md z0).run us) := by
  rw [nutsStep_eq, ← loopD_run c guard md (md + 1) (loopInit z0 us) Nat.one_pos]
  exact loopD_us c guard md (md + 1) (loopInit z0 []) us us

example : nutsStep lawCtx (fun _ => true) 2 0 [1 / 4, 3 / 4, 1 / 8, 7 / 8, 1 / 2]
    = setUs ((nutsStepD lawCtx (fun _ => true) 2 0).run [1 / 4, 3 / 4, 1 / 8, 7 / 8, 1 / 2]) :=
  nutsStepD_simulates _ _ _ _ _

/-- **All thresholds met by the randomised tree / transition are probabilities** (in `[0,1]`), so
    all weights of the law are non-negative. -/
theorem nutsStepD_thresholds_valid (c : Ctx Z) (guard : Z → Bool) (md : ℕ) (z0 : Z) (v : Int) (j : ℕ) (z : Z) :
    (nutsStepD c guard md z0).Valid ∧ (buildTreeD c v j z).Valid :=
  ⟨loopD_valid c guard md _ _, buildTreeD_valid c v j z⟩

example : (nutsStepD lawCtx (fun _ => true) 2 0).Valid := (nutsStepD_thresholds_valid _ _ _ _ 1 0 0).1

/-- **The executed result lies in the support, with the weight of its path.**  For every draw
    script the state returned by the executable `nutsStep` (up to its left-over-draws field) is one
    of the outcomes of `nutsStepD`, obtained by taking at each test the branch the concrete draw
    takes; its listed weight is the product of the branch weights (`p` for `u < p`, `1 - p`
    otherwise) along that path. -/
theorem nutsStep_result_in_support (c : Ctx Z) (guard : Z → Bool) (md : ℕ) (z0 : Z) (us : List Rat) :
    ∃ st', (st', (nutsStepD c guard md z0).pathW us) ∈ (nutsStepD c guard md z0).outcomes ∧
      nutsStep c guard md z0 us = { st' with us := ((nutsStepD c guard md z0).run us).2 } ∧
      (nutsStepD c guard md z0).pathW us = (((nutsStepD c guard md z0).trace us).map Rnd.branchW).prod :=
  ⟨_, Rnd.run_mem_outcomes _ us, nutsStepD_simulates c guard md z0 us, rfl⟩

example : ∃ st', (st', (nutsStepD lawCtx (fun _ => true) 1 0).pathW [1 / 4, 3 / 4])
      ∈ (nutsStepD lawCtx (fun _ => true) 1 0).outcomes ∧
    nutsStep lawCtx (fun _ => true) 1 0 [1 / 4, 3 / 4]
      = { st' with us := ((nutsStepD lawCtx (fun _ => true) 1 0).run [1 / 4, 3 / 4]).2 } :=
  let ⟨st', h1, h2, _⟩ := nutsStep_result_in_support lawCtx (fun _ => true) 1 0 [1 / 4, 3 / 4]
  ⟨st', h1, h2⟩

end Sim

/-- **Only the sides of the thresholds matter.**  A second script leads through the same path of a
    randomised computation as `us` iff each of its draws falls on the same side of the threshold met
    at that position; it then produces the same result. -/
theorem same_sides_same_result {α : Type} (d : Rnd α) (us us' : List ℚ) :
    (d.trace us' = d.trace us ↔
      ∀ k : Fin (d.trace us).length, sideOK ((d.trace us).get k) ((us'.getD k (1 / 2) : ℚ) : ℝ)) ∧
    (d.trace us' = d.trace us → (d.run us').1 = (d.run us).1) :=
  ⟨(trace_eq_iff_follows d us us').trans (follows_iff _ us'), d.run_eq_of_trace_eq us' us⟩

example : ((nutsStepD lawCtx (fun _ => true) 0 0).run [1 / 4, 3 / 4]).1
    = ((nutsStepD lawCtx (fun _ => true) 0 0).run [1 / 8, 7 / 8]).1 :=
  (same_sides_same_result _ _ _).2 (by decide +kernel)

/-- **The weight of one branch is the Lebesgue measure of the draws taking it**: for a threshold
    `p ∈ [0,1]` the draws `u ∈ [0,1)` with `u < p` have measure `p`, those with `u ≥ p` measure `1 - p`. -/
theorem branch_weight_is_volume (p : ℚ) (b : Bool) (h0 : 0 ≤ p) (h1 : p ≤ 1) :
    MeasureTheory.volume {u : ℝ | 0 ≤ u ∧ u < 1 ∧ sideOK (p, b) u}
      = ENNReal.ofReal ((Rnd.branchW (p, b) : ℚ) : ℝ) := by
  rw [side_set (p, b) h0 h1, Real.volume_Ico, branchW_eq]

example : MeasureTheory.volume {u : ℝ | 0 ≤ u ∧ u < 1 ∧ sideOK (1 / 3, false) u}
    = ENNReal.ofReal ((Rnd.branchW (1 / 3, false) : ℚ) : ℝ) :=
  branch_weight_is_volume _ _ (by norm_num) (by norm_num)

/-- **The weight of a path is the Lebesgue measure of the draw vectors taking it.**  Let `π` be the
    path (thresholds and sides) the script `us` takes through a computation with valid thresholds.
    The draw vectors `x ∈ [0,1)^{|π|}` that take the same path (`same_sides_same_result`) form a box
    whose Lebesgue volume is the path weight `Rnd.pathW d us` listed in `Rnd.outcomes d`. -/
theorem path_weight_is_volume {α : Type} (d : Rnd α) (hv : d.Valid) (us : List ℚ) :
    MeasureTheory.volume {x : Fin (d.trace us).length → ℝ |
        ∀ k, 0 ≤ x k ∧ x k < 1 ∧ sideOK ((d.trace us).get k) (x k)}
      = ENNReal.ofReal ((d.pathW us : ℚ) : ℝ) :=
  box_volume (d.trace us) (trace_valid d hv us)

example : MeasureTheory.volume {x : Fin ((nutsStepD lawCtx (fun _ => true) 1 0).trace [1 / 4, 3 / 4]).length → ℝ |
      ∀ k, 0 ≤ x k ∧ x k < 1 ∧ sideOK (((nutsStepD lawCtx (fun _ => true) 1 0).trace [1 / 4, 3 / 4]).get k) (x k)}
    = ENNReal.ofReal (((nutsStepD lawCtx (fun _ => true) 1 0).pathW [1 / 4, 3 / 4] : ℚ) : ℝ) :=
  path_weight_is_volume _ (nutsStepD_thresholds_valid _ _ _ _ 1 0 0).1 _

/-- **The probabilistic semantics is the push-forward of i.i.d. uniform draws.**  Interpret a
    randomised computation with valid thresholds on a vector `x ∈ [0,1)^n` of real draws
    (`Rnd.runR`; `n` at least the maximal number `Rnd.depth` of draws consumed).  The set of draw
    vectors whose result satisfies `P` is measurable and its Lebesgue measure — the probability of
    the event under `n` independent `U[0,1)` draws — is `Rnd.pr d P`, the weight the rational
    semantics assigns.  (Induction over the tests with Fubini on `[0,1) × [0,1)^{n-1}`.) -/
theorem law_is_pushforward_of_uniform_draws {α : Type} (d : Rnd α) (hv : d.Valid) (P : α → Prop)
    [DecidablePred P] (n : ℕ) (hn : d.depth ≤ n) :
    MeasurableSet {x : Fin n → ℝ | x ∈ cube n ∧ P (d.runR n x)} ∧
      MeasureTheory.volume {x : Fin n → ℝ | x ∈ cube n ∧ P (d.runR n x)}
        = ENNReal.ofReal ((d.pr P : ℚ) : ℝ) :=
  runR_law d hv P n hn

example : MeasureTheory.volume {x : Fin 5 → ℝ | x ∈ cube 5 ∧
      ((nutsStepD lawCtx (fun _ => true) 1 0).runR 5 x).cur = 2}
    = ENNReal.ofReal (((nutsStepD lawCtx (fun _ => true) 1 0).pr (fun st => st.cur = 2) : ℚ) : ℝ) :=
  (law_is_pushforward_of_uniform_draws _ (nutsStepD_thresholds_valid lawCtx (fun _ => true) 1 0 1 0 0).1
    (fun st => st.cur = 2) 5 (by decide +kernel)).2

/-- **On rational draw scripts the real-draw interpretation is the script interpretation** — and
    hence, for `nutsStepD`, the executable model (`nutsStepD_simulates`). -/
theorem runR_agrees_with_run {α : Type} (d : Rnd α) (us : List ℚ) :
    (d.run us).1 = d.runR us.length (fun i => ((us.get i : ℚ) : ℝ)) :=
  run_runR d us

example : (nutsStep lawCtx (fun _ => true) 1 0 [1 / 4, 3 / 4, 1 / 8]).cur
    = ((nutsStepD lawCtx (fun _ => true) 1 0).runR 3
        (fun i => (([1 / 4, 3 / 4, 1 / 8] : List ℚ).get i : ℝ))).cur := by
  rw [nutsStepD_simulates]
  show ((nutsStepD lawCtx (fun _ => true) 1 0).run [1 / 4, 3 / 4, 1 / 8]).1.cur = _
  rw [runR_agrees_with_run]; rfl

/-! ## (ii) the law of `buildTreeD` -/
section TreeLaw
variable {Z : Type}

/-- **The law of the randomised `_BuildTree`: deterministic skeleton, candidate distributed by `wts`.**
    Take the tree `t` the executable model returns for *any* draw script `us`.  Every outcome of
    `buildTreeD` is `t` with some visited leaf as candidate, and marginalising over the in-tree
    Bernoulli choices the candidate is the `k`-th visited leaf with weight `t.wts[k]` — the field
    `wts` the model computes.  (In particular all fields other than `cand` do not depend on the draws.) -/
theorem buildTreeD_law (c : Ctx Z) (v : Int) (j : ℕ) (z : Z) (us : List Rat) (g : Tree Z → ℚ) :
    (buildTreeD c v j z).E g =
      wsum (buildTree c v j z us).1.leaves (buildTree c v j z us).1.wts
        (fun y => g ((buildTree c v j z us).1.setCand y)) :=
  buildTreeD_E c v j z us g

example : (buildTreeD lawCtx 1 2 0).E (fun t => if t.cand = 4 then 1 else 0) = 1 / 2 := by
  rw [buildTreeD_law lawCtx 1 2 0 []]; decide +kernel

/-- **Progressive sub-sampling is uniform — as a statement about the randomised recursion.**  When
    `n' > 0`, the expectation of any `g` under `buildTreeD` is the average of `g` over the trees
    whose candidate is a visited in-slice leaf: every in-slice leaf is returned with probability
    `1/n'`, every other leaf with probability `0` (`buildTreeD_law` + `progressive_uniform`). -/
theorem buildTreeD_uniform (c : Ctx Z) (v : Int) (j : ℕ) (z : Z) (us : List Rat) (g : Tree Z → ℚ)
    (hn : 0 < (buildTree c v j z us).1.n) :
    (buildTreeD c v j z).E g = (1 / ((buildTree c v j z us).1.n : ℚ)) *
      (((buildTree c v j z us).1.leaves.filter (inSlice c)).map
        (fun y => g ((buildTree c v j z us).1.setCand y))).sum := by
  rw [buildTreeD_E c v j z us g]
  exact wsum_uniform c _ _ _ (progressive_uniform c v j z us hn) _

example : (buildTreeD lawCtx 1 2 0).E (fun t => if t.cand = 2 then 1 else 0) = 1 / 2 := by
  rw [buildTreeD_uniform lawCtx 1 2 0 [] _ (by decide +kernel)]; decide +kernel

end TreeLaw

/-! ## (iii) the law of the final state of `nutsStepD` is `Orb.P` -/

/-- a small trajectory for the examples: in-slice = indices in `[-3, 4]` other than `1` -/
def exOrbL : Orb where
  S := fun k => decide (-3 ≤ k ∧ k ≤ 4 ∧ k ≠ 1)
  nd := fun k => decide (-6 ≤ k ∧ k ≤ 7)
  ut := fun j a => decide (j < 3 ∨ (-5 ≤ a ∧ a ≤ -2))
  g := fun _ => true

/-- **Duality between the forward law `Orb.walk` and the value function `Orb.val`** of the
    orbit-level loop: integrating a test function `h` against the law of the final index equals
    integrating the expected final value `Orb.val h` against the law of the current index. -/
theorem orbit_value_duality (o : Orb) (h : ℤ → ℚ) (r : ℕ) (st : OSt) (W : Finset ℤ)
    (hW : Finset.Ico (st.lo + 2 ^ st.j - 2 ^ (st.j + r)) (st.lo + 2 ^ (st.j + r)) ⊆ W)
    (hm : ∑ k ∈ W, st.dist k = 1) :
    ∑ k ∈ W, o.walk r st k * h k = ∑ i ∈ W, st.dist i * o.val h r st.lo st.j st.s i :=
  o.walk_val h r st W hW hm

example : ∑ k ∈ Finset.Ico (-20 : ℤ) 20, exOrbL.walk 3 (oinit 0) k * (fun k => (k : ℚ)) k
    = ∑ i ∈ Finset.Ico (-20 : ℤ) 20, (oinit 0).dist i * exOrbL.val (fun k => (k : ℚ)) 3 0 0 true i :=
  orbit_value_duality exOrbL _ 3 (oinit 0) _
    (by apply Finset.Ico_subset_Ico <;> norm_num [oinit])
    (by simp only [oinit]; rw [Finset.sum_ite_eq']; simp)

section LoopLaw
variable {Z : Type}

/-- **The randomised loop of the model computes the orbit-level value function.**  From any loop
    state satisfying the loop invariant (visited indices `[lo, hi]`, ends `z_lo`, `z_hi`, `n` = in-slice
    count) with current point `z_i`, the expectation of `h(final point)` under the model's `loopD`
    — fair coin, `buildTreeD`, Bernoulli(`min(1,n'/n)`) test, guard — is `Orb.val` of the trajectory. -/
theorem loopD_value (c : Ctx Z) (hinv : StepInverse c) (guard : Z → Bool) (z0 : Z) (md : ℕ) (h : Z → ℚ)
    (fuel : ℕ) (st : Loop Z) (lo i : ℤ) (hj : st.j + fuel = md + 1)
    (hI : st.s = true → ∃ hi, LoopInv c z0 st lo hi) (hcur : st.cur = pt c z0 i) :
    (loopD c guard md fuel st).E (fun st' => h st'.cur)
      = (orbOf c guard z0).val (fun k => h (pt c z0 k)) fuel lo st.j st.s i :=
  loopD_val c hinv guard z0 md h fuel st lo i hj hI hcur

example : (loopD lawCtx (fun _ => true) 2 3 (loopInit 0 [])).E (fun st' => (st'.cur : ℚ))
    = (orbOf lawCtx (fun _ => true) 0).val (fun k => ((pt lawCtx 0 k : ℤ) : ℚ)) 3 0 0 true 0 :=
  loopD_value lawCtx lawCtx_inv _ 0 2 (fun z => (z : ℚ)) 3 _ 0 0 rfl
    (fun _ => ⟨0, loopInit_inv lawCtx 0 [] (by decide)⟩) rfl

/-- **The law of the final state of the model's randomised transition is the orbit-level kernel.**
    Start `nutsStepD` at the in-slice orbit point `z_{i0}` of a reversible integrator.  For every
    test function `h` the expectation of `h(next state)` is `Σ_k Orb.P (max_depth+1) i0 k · h(z_k)`:
    the next state is distributed as the push-forward of `Orb.P (max_depth+1) i0 ·` under `k ↦ z_k`
    (`W` any window containing the reachable indices).  `Orb.P` is the kernel that
    `nuts_orbit_reversible` / `nuts_orbit_invariant` are about. -/
theorem nutsStepD_law (c : Ctx Z) (hinv : StepInverse c) (guard : Z → Bool) (z0 : Z) (md : ℕ) (h : Z → ℚ)
    (i0 : ℤ) (h0 : inSlice c (pt c z0 i0) = true) (W : Finset ℤ)
    (hW : Finset.Ico (i0 + 1 - 2 ^ (md + 1)) (i0 + 2 ^ (md + 1)) ⊆ W) :
    (nutsStepD c guard md (pt c z0 i0)).E (fun st => h st.cur)
      = ∑ k ∈ W, (orbOf c guard z0).P (md + 1) i0 k * h (pt c z0 k) :=
  nutsStepD_law_from c hinv guard z0 md h i0 h0 W hW

example : (nutsStepD lawCtx (fun _ => true) 2 (pt lawCtx 0 2)).E (fun st => (st.cur : ℚ))
    = ∑ k ∈ Finset.Ico (-10 : ℤ) 12, (orbOf lawCtx (fun _ => true) 0).P 3 2 k * ((pt lawCtx 0 k : ℤ) : ℚ) :=
  nutsStepD_law lawCtx lawCtx_inv _ 0 2 (fun z => (z : ℚ)) 2 (by rw [lawCtx_pt]; decide) _
    (by apply Finset.Ico_subset_Ico <;> norm_num)

variable [DecidableEq Z]

/-- **Transition probabilities of the model.**  On an aperiodic trajectory (`k ↦ z_k` injective) the
    probability that the model's randomised transition started at `z_i` ends at `z_k` is exactly
    `Orb.P (max_depth+1) i k`. -/
theorem nutsStepD_transition_prob (c : Ctx Z) (hinv : StepInverse c) (guard : Z → Bool) (z0 : Z) (md : ℕ)
    (hinj : Function.Injective (pt c z0)) (i k : ℤ) (hi : inSlice c (pt c z0 i) = true) :
    (nutsStepD c guard md (pt c z0 i)).pr (fun st => st.cur = pt c z0 k)
      = (orbOf c guard z0).P (md + 1) i k :=
  nutsStepD_prob c hinv guard z0 md hinj i k hi

example : (nutsStepD lawCtx (fun _ => true) 2 (pt lawCtx 0 2)).pr (fun st => st.cur = pt lawCtx 0 4)
    = (orbOf lawCtx (fun _ => true) 0).P 3 2 4 :=
  nutsStepD_transition_prob lawCtx lawCtx_inv _ 0 2 lawCtx_inj 2 4 (by rw [lawCtx_pt]; decide)

/-- **Detailed balance of the model's own randomised transition.**  For a reversible integrator, an
    aperiodic trajectory, `Δ_max > 0` and admissible (in-slice, guard-passing) points `z_i, z_k`:
    `P(z_i → z_k) = P(z_k → z_i)` under independent uniform draws. -/
theorem nutsStepD_reversible (c : Ctx Z) (hinv : StepInverse c) (guard : Z → Bool) (z0 : Z) (md : ℕ)
    (hinj : Function.Injective (pt c z0)) (hd : 0 < c.deltaMax) (i k : ℤ)
    (hSi : inSlice c (pt c z0 i) = true) (hgi : guard (pt c z0 i) = true)
    (hSk : inSlice c (pt c z0 k) = true) (hgk : guard (pt c z0 k) = true) :
    (nutsStepD c guard md (pt c z0 i)).pr (fun st => st.cur = pt c z0 k)
      = (nutsStepD c guard md (pt c z0 k)).pr (fun st => st.cur = pt c z0 i) := by
  rw [nutsStepD_transition_prob c hinv guard z0 md hinj i k hSi,
    nutsStepD_transition_prob c hinv guard z0 md hinj k i hSk]
  exact (orbOf c guard z0).P_sym (fun x hx => inSlice_notDiverged c hd _ hx) (md + 1) i k hSi hgi hSk hgk

example : (nutsStepD lawCtx (fun _ => true) 2 (pt lawCtx 0 2)).pr (fun st => st.cur = pt lawCtx 0 4)
    = (nutsStepD lawCtx (fun _ => true) 2 (pt lawCtx 0 4)).pr (fun st => st.cur = pt lawCtx 0 2) :=
  nutsStepD_reversible lawCtx lawCtx_inv _ 0 2 lawCtx_inj (by decide +kernel) 2 4
    (by rw [lawCtx_pt]; decide) rfl (by rw [lawCtx_pt]; decide) rfl

/-- **The model's randomised transition leaves the uniform distribution on the admissible points of
    a trajectory invariant.**  Put the same weight on every in-slice, guard-passing point `z_i` of
    the trajectory and run the model's transition `nutsStepD` (independent uniform draws) from each;
    the total weight arriving at an admissible point `z_k` is again that weight (stated after
    cancelling it; `W` any finite window containing the indices from which `z_k` is reachable).
    This is `nuts_orbit_invariant` as a statement about the model's own loop. -/
theorem nutsStepD_invariant (c : Ctx Z) (hinv : StepInverse c) (guard : Z → Bool) (z0 : Z) (md : ℕ)
    (hinj : Function.Injective (pt c z0)) (hd : 0 < c.deltaMax) (k : ℤ)
    (hSk : inSlice c (pt c z0 k) = true) (hgk : guard (pt c z0 k) = true) (W : Finset ℤ)
    (hW : Finset.Ico (k + 1 - 2 ^ (md + 1)) (k + 2 ^ (md + 1)) ⊆ W) :
    ∑ i ∈ W.filter (fun i => inSlice c (pt c z0 i) = true ∧ guard (pt c z0 i) = true),
      (nutsStepD c guard md (pt c z0 i)).pr (fun st => st.cur = pt c z0 k) = 1 := by
  have h1 : ∀ i ∈ W.filter (fun i => inSlice c (pt c z0 i) = true ∧ guard (pt c z0 i) = true),
      (nutsStepD c guard md (pt c z0 i)).pr (fun st => st.cur = pt c z0 k)
        = (orbOf c guard z0).P (md + 1) i k := by
    intro i hi
    rw [Finset.mem_filter] at hi
    exact nutsStepD_transition_prob c hinv guard z0 md hinj i k hi.2.1
  rw [Finset.sum_congr rfl h1]
  exact (orbOf c guard z0).P_invariant (fun x hx => inSlice_notDiverged c hd _ hx) (md + 1) k hSk hgk W hW

example : ∑ i ∈ (Finset.Ico (-20 : ℤ) 20).filter
      (fun i => inSlice lawCtx (pt lawCtx 0 i) = true ∧ (fun _ : ℤ => true) (pt lawCtx 0 i) = true),
    (nutsStepD lawCtx (fun _ => true) 2 (pt lawCtx 0 i)).pr (fun st => st.cur = pt lawCtx 0 4) = 1 :=
  nutsStepD_invariant lawCtx lawCtx_inv _ 0 2 lawCtx_inj (by decide +kernel) 4
    (by rw [lawCtx_pt]; decide) rfl _ (by apply Finset.Ico_subset_Ico <;> norm_num)

/-- **Transition probabilities of the model under i.i.d. uniform draws — the measure-level statement.**
    For a reversible integrator and an aperiodic trajectory, the Lebesgue measure of the draw vectors
    `x ∈ [0,1)^n` (any `n` ≥ the maximal number of draws) on which the model's transition started
    at the in-slice point `z_i` ends at `z_k` is `Orb.P (max_depth+1) i k`; on rational vectors the
    transition run on `x` is the executable `nutsStep` on the script `x` (`runR_agrees_with_run`). -/
theorem nutsStep_law_under_uniform_draws (c : Ctx Z) (hinv : StepInverse c) (guard : Z → Bool) (z0 : Z)
    (md : ℕ) (hinj : Function.Injective (pt c z0)) (i k : ℤ) (hi : inSlice c (pt c z0 i) = true) (n : ℕ)
    (hn : (nutsStepD c guard md (pt c z0 i)).depth ≤ n) :
    MeasureTheory.volume {x : Fin n → ℝ | x ∈ cube n ∧
        ((nutsStepD c guard md (pt c z0 i)).runR n x).cur = pt c z0 k}
      = ENNReal.ofReal (((orbOf c guard z0).P (md + 1) i k : ℚ) : ℝ) ∧
    ∀ us : List ℚ, (nutsStep c guard md (pt c z0 i) us).cur
      = ((nutsStepD c guard md (pt c z0 i)).runR us.length (fun j => ((us.get j : ℚ) : ℝ))).cur := by
  constructor
  · rw [(runR_law (nutsStepD c guard md (pt c z0 i))
        (nutsStepD_thresholds_valid c guard md (pt c z0 i) 1 0 z0).1 (fun st => st.cur = pt c z0 k) n hn).2,
      nutsStepD_transition_prob c hinv guard z0 md hinj i k hi]
  · intro us
    rw [nutsStepD_simulates]
    show ((nutsStepD c guard md (pt c z0 i)).run us).1.cur = _
    rw [run_runR]

example : MeasureTheory.volume {x : Fin 40 → ℝ | x ∈ cube 40 ∧
      ((nutsStepD lawCtx (fun _ => true) 2 (pt lawCtx 0 2)).runR 40 x).cur = pt lawCtx 0 4}
    = ENNReal.ofReal (((orbOf lawCtx (fun _ => true) 0).P 3 2 4 : ℚ) : ℝ) :=
  (nutsStep_law_under_uniform_draws lawCtx lawCtx_inv _ 0 2 lawCtx_inj 2 4 (by rw [lawCtx_pt]; decide) 40
    (by rw [lawCtx_pt]; decide +kernel)).1

end LoopLaw

/-
  ## Remaining gap after this file

  Gap (a) of `Props/C08_orbit.lean` is closed: the executable model is the deterministic
  interpretation of `nutsStepD` on a draw script (`nutsStepD_simulates`), the probabilistic
  interpretation of the *same* term is the push-forward of i.i.d. `U[0,1)` draws
  (`law_is_pushforward_of_uniform_draws`, `path_weight_is_volume`), and the resulting law of the
  final state is `Orb.P` (`nutsStepD_law`, `nutsStep_law_under_uniform_draws`).  Not covered:

  * periodic trajectories (`k ↦ z_k` not injective): `nutsStepD_law` (the law tested against any
    function of the final state) holds for them; the point-probability corollaries
    (`nutsStepD_transition_prob`, `_reversible`, `_invariant`, `nutsStep_law_under_uniform_draws`)
    assume an aperiodic trajectory;
  * draws are modelled as reals in `[0,1)` / exact rationals, not as the 53-bit floats of
    `np.random.rand()`;
  * gap (b) (orbit → phase space, invariance of π on ℝⁿ) and (c) (dual averaging) are unchanged.
-/

end CuqiVerif.C08
