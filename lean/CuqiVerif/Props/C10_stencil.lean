import CuqiVerif.Model.C10_stencil
import CuqiVerif.Props.C10

/-!
# C10 — the stencil evaluation of the GMRF quadratic forms is the matrix evaluation (session-3 extension)

`Model/C10_stencil.lean` evaluates `‖D v‖²` for the GMRF difference operators by stencils, in `O(dim)`
operations, so that the driver can follow the code to the sizes where `GMRF.__init__` switches code path
(`dim > MAX_DIM_INV`).  The theorems here show, **for every order, boundary condition, physical dimension,
grid size and data**, that this is the same rational number as the matrix evaluation `gmrfQuad` of
`Model/C10.lean` — hence every theorem about `gmrfQuad` (`gmrf_zero_exact`, `gmrf_nonzero_bc_not_exact`,
`gmrf_used_eq_target_add`, the law-level statements) is a theorem about what the driver op `gmrfs` prints.
Built on the stencil theorems of `Props/C20.lean`.
-/

open Finset

namespace CuqiVerif.C10
open CuqiVerif.C20 (BC FMat)

/-- **Every row of every 1-D operator, every size:** the stencil is the matrix row applied to `x`. -/
theorem stencil1_eq (order : ℕ) (bc : BC) (n : ℕ) (x : ℕ → ℚ) (i : ℕ) :
    stencil1 order bc n x i = applyQ (C20.diffOp order bc n) x i := by
  rw [applyQ_eq_apply]
  unfold stencil1
  split
  · exact (C20.firstOrder_none_apply n x i).symm
  · exact (C20.firstOrder_zero_apply n x i).symm
  · split_ifs with h
    · exact (C20.firstOrder_periodic_apply n h.1 x i h.2).symm
    · rw [applyQ_eq_apply]
  · exact (C20.firstOrder_neumann_apply n x i).symm
  · exact (C20.secondOrder_zero_apply n x i).symm
  · split_ifs with h
    · exact (C20.secondOrder_periodic_apply n h.1 x i h.2).symm
    · rw [applyQ_eq_apply]
  · exact (C20.secondOrder_neumann_apply n x i).symm
  · rw [applyQ_eq_apply]

example : stencil1 2 .zero 3 (fun j => ((j : ℚ) + 1) ^ 2) 2 = applyQ (C20.diffOp 2 .zero 3) (fun j => ((j : ℚ) + 1) ^ 2) 2 :=
  stencil1_eq 2 .zero 3 _ 2

/-- `‖D x‖²` by stencils is `normSqD` of the matrix -/
theorem stencilNormSq1_eq (order : ℕ) (bc : BC) (n : ℕ) (x : ℕ → ℚ) :
    stencilNormSq1 order bc n x = normSqD (C20.diffOp order bc n) x := by
  unfold stencilNormSq1 normSqD
  congr 1
  funext k
  rw [stencil1_eq]

example : stencilNormSq1 1 .periodic 4 (fun j => (j : ℚ)) = normSqD (C20.diffOp 1 .periodic 4) (fun j => (j : ℚ)) :=
  stencilNormSq1_eq 1 .periodic 4 _

/-- **The 2-D operator `vstack([kron(I, D), kron(D, I)])` of any 1-D operator `D` with `n` columns, any `n`:**
    `‖D₂ v‖²` is the sum of `‖D · ‖²` over the `n` rows and the `n` columns of the image. -/
theorem normSqD_lift2D (D : FMat) (n : ℕ) (hc : D.cols = n) (v : ℕ → ℚ) :
    normSqD (C20.lift2D D n) v
      = ∑ a ∈ range n, normSqD D (fun c => v (a * n + c)) + ∑ b ∈ range n, normSqD D (fun c => v (c * n + b)) := by
  rw [normSqD_eq, show (C20.lift2D D n).rows = n * D.rows + D.rows * n from rfl, Finset.sum_range_add,
    C20.sum_range_mul_block, C20.sum_range_mul_block]
  congr 1
  · refine Finset.sum_congr rfl fun a ha => ?_
    rw [normSqD_eq]
    refine Finset.sum_congr rfl fun r hr => ?_
    rw [C20.lift2D_apply_top D n v a r (Finset.mem_range.1 ha) (Finset.mem_range.1 hr), hc]
  · rw [Finset.sum_comm]
    refine Finset.sum_congr rfl fun b hb => ?_
    rw [normSqD_eq]
    refine Finset.sum_congr rfl fun r _ => ?_
    rw [C20.lift2D_apply_bottom D n v r b (Finset.mem_range.1 hb)]

example : normSqD (C20.lift2D (C20.diffOp 1 .zero 2) 2) (fun j => (j : ℚ))
    = ∑ a ∈ range 2, normSqD (C20.diffOp 1 .zero 2) (fun c => ((a * 2 + c : ℕ) : ℚ))
      + ∑ b ∈ range 2, normSqD (C20.diffOp 1 .zero 2) (fun c => ((c * 2 + b : ℕ) : ℚ)) :=
  normSqD_lift2D _ 2 rfl _

lemma diffOp_cols (order : ℕ) (bc : BC) (n : ℕ) (hbc : bc = .zero ∨ bc = .periodic ∨ bc = .neumann) :
    (C20.diffOp order bc n).cols = n := by
  rcases hbc with h | h | h <;> subst h <;> unfold C20.diffOp <;> split <;> rfl

/-- **The stencil evaluation is the matrix evaluation**, 1-D and 2-D, every order, the three boundary
    conditions GMRF accepts, every grid size, every vector. -/
theorem stencilNormSq_eq (order : ℕ) (bc : BC) (pd n : ℕ) (v : ℕ → ℚ)
    (hbc : bc = .zero ∨ bc = .periodic ∨ bc = .neumann) :
    stencilNormSq order bc pd n v = normSqD (gmrfOp order bc pd n) v := by
  unfold stencilNormSq gmrfOp
  split_ifs with h
  · unfold C20.diffOp2D stencilNormSq2
    rw [normSqD_lift2D _ n (diffOp_cols order bc n hbc), sumTo_eq_sum, sumTo_eq_sum]
    congr 1 <;> exact Finset.sum_congr rfl fun a _ => stencilNormSq1_eq _ _ _ _
  · exact stencilNormSq1_eq _ _ _ _

example : stencilNormSq 2 .neumann 2 3 (fun j => (j : ℚ)) = normSqD (gmrfOp 2 .neumann 2 3) (fun j => (j : ℚ)) :=
  stencilNormSq_eq 2 .neumann 2 3 _ (Or.inr (Or.inr rfl))

/-- the array-backed residual is the list-backed one (numpy broadcasting of a length-1 operand included) -/
theorem devA_eq (ax b : List ℚ) : devA ax b = dev ax b := by
  funext i
  simp [devA, dev, bget, Array.getD_eq_getD_getElem?, List.getD_eq_getElem?_getD]

example : devA [1] [3, 4] 1 = dev [1] [3, 4] 1 := by rw [devA_eq]

/-- **What the driver op `gmrfs` evaluates is `gmrfQuad`** (all three fields: the form the sampler uses, the
    form of the GMRF's own density, the reported rank) — every order, boundary condition, 1-D / 2-D, size, data. -/
theorem gmrfQuadFast_eq (order : ℕ) (bc : BC) (pd n : ℕ) (c1 : ℚ) (mean b : List ℚ)
    (hbc : bc = .zero ∨ bc = .periodic ∨ bc = .neumann) :
    gmrfQuadFast order bc pd n c1 mean b = gmrfQuad order bc pd n c1 mean b := by
  unfold gmrfQuadFast gmrfQuad
  simp only [devA_eq, stencilNormSq_eq order bc pd n _ hbc]

example : gmrfQuadFast 1 .zero 2 2 1 [0, 0, 0, 0] [1, 2, 0, 5] = gmrfQuad 1 .zero 2 2 1 [0, 0, 0, 0] [1, 2, 0, 5] :=
  gmrfQuadFast_eq 1 .zero 2 2 1 _ _ (Or.inl rfl)

/-- consequently, at every size — in particular beyond `MAX_DIM_INV`, where the tie now reaches — the zero
    boundary GMRF is sampled exactly according to the model the driver runs … -/
theorem gmrfFast_zero_exact (order pd n : ℕ) (c1 : ℚ) (mean b : List ℚ) (α β : ℚ)
    (hb : b.length = gmrfDim pd n) :
    (outcome false (gmrfQuadFast order .zero pd n c1 mean b) b α β).exact = true := by
  rw [gmrfQuadFast_eq _ _ _ _ _ _ _ (Or.inl rfl)]
  exact gmrf_zero_exact order pd n c1 mean b α β hb

example : (outcome false (gmrfQuadFast 2 .zero 1 4 1 [0, 0, 0, 0] [1, 2, 0, 5]) [1, 2, 0, 5] 2 3).exact = true :=
  gmrfFast_zero_exact 2 1 4 1 _ _ 2 3 rfl

/-- … and the periodic / Neumann GMRF never is (the listed finding, same statement for the fast evaluation). -/
theorem gmrfFast_nonzero_bc_not_exact (order : ℕ) (bc : BC) (pd n : ℕ) (c1 : ℚ) (mean b : List ℚ) (α β : ℚ)
    (hbc : bc = .periodic ∨ bc = .neumann) (hb : b.length = gmrfDim pd n) (hd : 0 < gmrfDim pd n) :
    (outcome false (gmrfQuadFast order bc pd n c1 mean b) b α β).exact = false := by
  rw [gmrfQuadFast_eq _ _ _ _ _ _ _ (Or.inr hbc)]
  exact gmrf_nonzero_bc_not_exact order bc pd n c1 mean b α β (by rcases hbc with h | h <;> simp [h]) hb hd

example : (outcome false (gmrfQuadFast 1 .periodic 1 5 1 [0, 0, 0, 0, 0] [0, 1, 2, 3, 4]) [0, 1, 2, 3, 4] 2 3).exact = false :=
  gmrfFast_nonzero_bc_not_exact 1 .periodic 1 5 1 _ _ 2 3 (Or.inl rfl) rfl (by decide)

/-! ## glue: `GMRF.__init__` refusals and the `GMRF.prec` setter -/

/-- what `GMRF.__init__` accepts: order 0, 1, 2; zero / periodic / Neumann boundary; more than one parameter -/
theorem gmrfAccepts_iff (order : ℕ) (bc : BC) (pd n : ℕ) :
    gmrfAccepts order bc pd n = true ↔
      order ≤ 2 ∧ (bc = .zero ∨ bc = .periodic ∨ bc = .neumann) ∧ 1 < gmrfDim pd n := by
  unfold gmrfAccepts
  cases bc <;> simp

example : gmrfAccepts 2 .neumann 2 3 = true :=
  (gmrfAccepts_iff 2 .neumann 2 3).2 ⟨le_rfl, Or.inr (Or.inr rfl), by decide⟩

/-- **A vector valued GMRF precision is never sampled:** whatever its entries (in particular `d·ones(n)` and in-band
    weights, which pass the entry-wise identity probe of the experimental validator, `identityCheck_weights_iff`), the
    `prec` setter refuses every array that does not have exactly one element — the refusal happens at the first step
    (`likelihood.distribution(np.array([1]))`), before anything is drawn. -/
theorem gmrfPrecOf_eq_some_iff (v : List ℚ) (c : ℚ) : gmrfPrecOf v = some c ↔ v = [c] := by
  unfold gmrfPrecOf
  split <;> simp_all

theorem gmrfPrecOf_vector_refused (v : List ℚ) (h : v.length ≠ 1) : gmrfPrecOf v = none := by
  unfold gmrfPrecOf
  split
  · simp at h
  · rfl

example : gmrfPrecOf [1, 1, 1] = none := gmrfPrecOf_vector_refused _ (by decide)
example : gmrfPrecOf [3 / 2] = some (3 / 2) := (gmrfPrecOf_eq_some_iff _ _).2 rfl

end CuqiVerif.C10
