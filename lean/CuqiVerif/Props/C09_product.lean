import CuqiVerif.Model.C09
import CuqiVerif.Proofs.C09
import CuqiVerif.Props.C09
import CuqiVerif.Proofs.C09_kernel
import CuqiVerif.Props.C09_kernel
import CuqiVerif.Proofs.C09_product
import Mathlib.Probability.Kernel.Invariance
import Mathlib.Probability.Kernel.Composition.MeasureCompProd
import Mathlib.Probability.ProductMeasure

/-!
# C09 — Gibbs on general product spaces: the two-block statement, randomised block samplers, and
# the finite-state theorem as an instance

`Props/C09_kernel.lean` proves invariance of the Gibbs sweep on general measurable product spaces
(`gibbs_invariant_kernel` and its two-block form) and identifies the kernel sweep `sweepK` with the
executable `sweep` of `Model/C09.lean` for *deterministic* transition functions.  This file adds

1. the two-block statement in the textbook form (`π` on `X × Y`, `π = π_X ⊗ₘ κ`): redrawing `y` from
   `κ x` leaves `π` invariant; so does any Metropolis-within-Gibbs update whose kernel leaves
   `κ x` invariant for every `x`; and so does any schedule of such updates (order, repetitions
   per block, number of sweeps);
2. the step left open in `Props/C09_kernel.lean` ("NOT PROVED" block at its end): for *randomised*
   block samplers — transition functions `Ψ n u tgt v` of a seed `u`, the conditioning dictionary
   handed and the current point — the law of the block values the executable model computes,
   when the seeds are i.i.d., **is** the kernel sweep `sweepK` started at the current values
   (`sweepK_eq_law_of_model_sweep`, `iterK_sweepK_eq_law_of_model_run`, legacy:
   `sweepK_eq_law_of_legacy_sweep`); two stored states of one run are related by the kernel
   (`model_run_two_time_law`); the driving stream always exists (`rdriven_stream_exists`); hence a
   run of the model started in `π` ends in `π` (`model_run_preserves_joint`,
   `hybridGibbs_constructed_run_preserves_joint`);
3. the dictionary between the finite-state theorem `gibbs_invariant_fintype` (weights and
   transition matrices, `Props/C09.lean`) and the kernel theorem: for weights in `ℝ≥0` the former
   is derived from `gibbs_invariant_kernel` (`gibbs_invariant_fintype_of_kernel`).

All definitions used are in `Proofs/C09_kernel.lean` / `Proofs/C09_product.lean` with docstrings.
The theorems of parts 2 are about the definitions the driver runs (`sweep`, `sampleN`, `construct`,
`lsweep` of `Model/C09.lean`); parts 1 and 3 are about the generic kernels of which the model's
scheduling is an instance (`hybridGibbs_sweep_invariant`).
-/
namespace CuqiVerif.C09

open MeasureTheory ProbabilityTheory

set_option linter.unusedSectionVars false

/-! ## two blocks `X × Y`, `π = π_X ⊗ₘ κ` -/

section two
variable {X Y : Type*} [MeasurableSpace X] [MeasurableSpace Y]

/-- **The Gibbs block update on `X × Y`.**  `π` a measure on `X × Y`, `κ` a Markov kernel that is a
    conditional distribution of the second block given the first: `π = π_X ⊗ₘ κ` (`π_X = π.fst` the
    marginal).  The block update "keep `x`, redraw `y ~ κ x`" (what `HybridGibbs.step` does for a
    block with an exact sampler — Conjugate, Direct, LinearRTO) leaves `π` invariant. -/
theorem gibbs_redraw_snd_invariant (π : Measure (X × Y)) [SFinite π] (κ : Kernel X Y)
    [IsMarkovKernel κ] (hπ : π = π.fst ⊗ₘ κ) :
    Kernel.Invariant (sndK (κ.comap Prod.fst measurable_fst)) π := by
  have h := invariant_sndK π.fst κ (κ.comap Prod.fst measurable_fst)
    (Filter.Eventually.of_forall fun a => by
      rw [Kernel.Invariant]
      ext s hs
      rw [Measure.bind_apply hs (Kernel.aemeasurable _)]
      simp [Kernel.comap_apply])
  rwa [← hπ] at h

/-- **Metropolis-within-Gibbs on `X × Y`.**  Same `π = π_X ⊗ₘ κ`; the second block is updated by any
    Markov kernel `k` (it sees the whole current state `(x, y)`) that, for every value `x` of the
    other block, leaves the conditional `κ x` invariant — e.g. an MH/NUTS/MALA step targeting
    `π(dy | x)`.  Then the block update leaves `π` invariant. -/
theorem metropolis_within_gibbs_snd_invariant (π : Measure (X × Y)) [SFinite π] (κ : Kernel X Y)
    [IsSFiniteKernel κ] (hπ : π = π.fst ⊗ₘ κ) (k : Kernel (X × Y) Y) [IsSFiniteKernel k]
    (hk : ∀ x, Kernel.Invariant (k.comap (Prod.mk x) measurable_prodMk_left) (κ x)) :
    Kernel.Invariant (sndK k) π := by
  have h := invariant_sndK π.fst κ k (Filter.Eventually.of_forall hk)
  rwa [← hπ] at h

/-- the same for the first block, `π.map swap = π_Y ⊗ₘ η` -/
theorem metropolis_within_gibbs_fst_invariant (π : Measure (X × Y)) [SFinite π] (η : Kernel Y X)
    [IsSFiniteKernel η] (hπ : π.map Prod.swap = π.snd ⊗ₘ η) (k : Kernel (X × Y) X)
    [IsSFiniteKernel k]
    (hk : ∀ y, Kernel.Invariant (k.comap (fun x => (x, y)) measurable_prodMk_right) (η y)) :
    Kernel.Invariant (fstK k) π := by
  have h := invariant_fstK π.snd η k (Filter.Eventually.of_forall hk)
  rwa [← hπ, Measure.map_map measurable_swap measurable_swap, Prod.swap_swap_eq, Measure.map_id]
    at h

/-- **Any schedule of block updates on `X × Y`.**  Both disintegrations given, each block updated by
    a kernel that leaves the conditional invariant for every value of the other block: every
    composition of the two block updates — any order `order` (`false` = first block, `true` =
    second; repetitions allowed), any number `steps` of repetitions per block
    (`num_sampling_steps`), any number `nsweeps` of sweeps — leaves `π` invariant. -/
theorem hybrid_gibbs_two_block_invariant (π : Measure (X × Y)) [SFinite π]
    (κ : Kernel X Y) [IsSFiniteKernel κ] (η : Kernel Y X) [IsSFiniteKernel η]
    (hκ : π = π.fst ⊗ₘ κ) (hη : π.map Prod.swap = π.snd ⊗ₘ η)
    (kX : Kernel (X × Y) X) [IsSFiniteKernel kX] (kY : Kernel (X × Y) Y) [IsSFiniteKernel kY]
    (hkX : ∀ y, Kernel.Invariant (kX.comap (fun x => (x, y)) measurable_prodMk_right) (η y))
    (hkY : ∀ x, Kernel.Invariant (kY.comap (Prod.mk x) measurable_prodMk_left) (κ x))
    (order : List Bool) (steps : Bool → ℕ) (nsweeps : ℕ) :
    Kernel.Invariant (iterK (sweepOf (twoK kX kY) steps order) nsweeps) π :=
  gibbs_two_block_invariant π κ η hκ.symm hη.symm kX kY (Filter.Eventually.of_forall hkX)
    (Filter.Eventually.of_forall hkY) order steps nsweeps

/-- the hypotheses are satisfiable for every probability measure on `ℝ × ℝ` (the conditionals are
    Mathlib's `condKernel`); first block by exact draws, second block by a sampler that never
    moves (an always-rejecting Metropolis step): order second-first-first, 3 resp. 2 repetitions -/
example (π : Measure (ℝ × ℝ)) [IsProbabilityMeasure π] :
    Kernel.Invariant (iterK (sweepOf
      (twoK ((π.map Prod.swap).condKernel.comap Prod.snd measurable_snd)
        (Kernel.deterministic Prod.snd measurable_snd))
      (fun b => if b then 3 else 2) [true, false, false]) 4) π := by
  refine hybrid_gibbs_two_block_invariant π π.condKernel (π.map Prod.swap).condKernel
    (π.disintegrate π.condKernel).symm ?_ _ _ (fun y => ?_) (fun x => ?_) _ _ _
  · have := (π.map Prod.swap).disintegrate (π.map Prod.swap).condKernel
    rw [Measure.fst_map_swap] at this
    exact this.symm
  · rw [Kernel.Invariant]
    ext s hs
    rw [Measure.bind_apply hs (Kernel.aemeasurable _)]
    simp [Kernel.comap_apply]
  · have : ((Kernel.deterministic Prod.snd measurable_snd : Kernel (ℝ × ℝ) ℝ).comap (Prod.mk x)
        measurable_prodMk_left : Kernel ℝ ℝ) = Kernel.id := by
      ext a : 1
      rw [Kernel.comap_apply, Kernel.deterministic_apply, Kernel.id_apply]
    rw [this]
    exact invariant_id _

example (π : Measure (ℝ × ℝ)) [IsProbabilityMeasure π] :
    Kernel.Invariant (sndK (π.condKernel.comap Prod.fst measurable_fst)) π :=
  gibbs_redraw_snd_invariant π π.condKernel (π.disintegrate π.condKernel).symm

/-- `metropolis_within_gibbs_snd_invariant` with a sampler that never moves, any `π` on `ℝ × ℝ` -/
example (π : Measure (ℝ × ℝ)) [IsProbabilityMeasure π] :
    Kernel.Invariant (sndK (Kernel.deterministic Prod.snd measurable_snd)) π := by
  refine metropolis_within_gibbs_snd_invariant π π.condKernel (π.disintegrate π.condKernel).symm _
    (fun x => ?_)
  have : ((Kernel.deterministic Prod.snd measurable_snd : Kernel (ℝ × ℝ) ℝ).comap (Prod.mk x)
      measurable_prodMk_left : Kernel ℝ ℝ) = Kernel.id := by
    ext a : 1
    rw [Kernel.comap_apply, Kernel.deterministic_apply, Kernel.id_apply]
  rw [this]
  exact invariant_id _

/-- `metropolis_within_gibbs_fst_invariant` with exact draws of the first block -/
example (π : Measure (ℝ × ℝ)) [IsProbabilityMeasure π] :
    Kernel.Invariant (fstK ((π.map Prod.swap).condKernel.comap Prod.snd measurable_snd)) π := by
  refine metropolis_within_gibbs_fst_invariant π (π.map Prod.swap).condKernel ?_ _ (fun y => ?_)
  · have := (π.map Prod.swap).disintegrate (π.map Prod.swap).condKernel
    rw [Measure.fst_map_swap] at this
    exact this.symm
  · rw [Kernel.Invariant]
    ext s hs
    rw [Measure.bind_apply hs (Kernel.aemeasurable _)]
    simp [Kernel.comap_apply]

end two

/-! ## i.i.d. seeds and seed-consuming programs -/

section programs
variable {Ω : Type*} [MeasurableSpace Ω] {X : Type*} [MeasurableSpace X]

/-- **Splitting an i.i.d. stream.**  `iid P` is the law of an i.i.d. stream of seeds `ℕ → Ω`
    (Mathlib's `Measure.infinitePi`) — the model's view of numpy's global RNG.  Its first seed is
    `~ P` and independent of the rest of the stream, which is again i.i.d.: the one measure-theoretic
    fact about the RNG the identification below rests on. -/
theorem iid_head_tail (P : Measure Ω) [IsProbabilityMeasure P] :
    (iid P).map (fun ω => (ω 0, fun n => ω (n + 1))) = P.prod (iid P) :=
  iid_map_split P

/-- **Programs compose like kernels.**  `Realises P F K`: the seed-consuming program `F` (state and
    remaining seeds in, state and remaining seeds out), started with i.i.d. seeds, produces a
    state `~ K x` that is independent of the remaining seeds, and those are again i.i.d.  If the
    program of every block realises the block's kernel, the *sweep program* — the fold over the
    block list `l` with `steps i` runs of block `i`'s program, the shape of `HybridGibbs.step` —
    realises the sweep kernel `sweepOf`, and `nsweeps` runs of it realise `nsweeps` sweeps.  (The
    Fubini step: push-forward of a product measure under a `T`-fold composition = `T`-fold kernel
    composition.) -/
theorem sweep_program_realises_sweepOf {ι : Type*} (P : Measure Ω) [IsProbabilityMeasure P]
    (F : ι → X × (ℕ → Ω) → X × (ℕ → Ω)) (K : ι → Kernel X X) [∀ i, IsMarkovKernel (K i)]
    (h : ∀ i, Realises P (F i) (K i)) (steps : ι → ℕ) (l : List ι) (nsweeps : ℕ) :
    Realises P (sweepProg F steps l)^[nsweeps] (iterK (sweepOf K steps l) nsweeps) :=
  realises_iterate P (realises_sweepOf P F K h steps l) nsweeps

/-- **One randomised transition realises its kernel**: the program "apply `f` with the first seed,
    pass on the rest of the stream" realises `randKer P f : x ↦ law of f (u, x)`, `u ~ P`.  Every
    Markov kernel on a standard Borel space is of this form. -/
theorem random_transition_realises (P : Measure Ω) [IsProbabilityMeasure P] (f : Ω × X → X)
    (hf : Measurable f) :
    Realises P (fun p : X × (ℕ → Ω) => (f (p.2 0, p.1), fun n => p.2 (n + 1))) (randKer P f) :=
  realises_step P f hf

/-- **Law of the state after a program**, the stream read from any position `p` on: `K x`. -/
theorem program_law (P : Measure Ω) [IsProbabilityMeasure P] {F : X × (ℕ → Ω) → X × (ℕ → Ω)}
    {K : Kernel X X} [IsMarkovKernel K] (h : Realises P F K) (x : X) (p : ℕ) :
    (iid P).map (fun ω => (F (x, fun n => ω (p + n))).1) = K x :=
  realises_law_drop P h x p

/-- satisfiable: a random walk on `ℝ` with two kinds of steps (`x + u` and `x - 2u`), the first
    kind three times per sweep, five sweeps, any step distribution -/
example (P : Measure ℝ) [IsProbabilityMeasure P] :
    let f : Bool → ℝ × ℝ → ℝ := fun b q => if b then q.2 + q.1 else q.2 - 2 * q.1
    ∀ x : ℝ,
    (iid P).map (fun ω => ((sweepProg (fun b (p : ℝ × (ℕ → ℝ)) => (f b (p.2 0, p.1), seedTail p.2))
        (fun b => if b then 3 else 1) [true, false])^[5] (x, fun n => ω (0 + n))).1)
      = iterK (sweepOf (fun b => randKer P (f b)) (fun b => if b then 3 else 1) [true, false]) 5 x := by
  intro f x
  have hf : ∀ b, Measurable (f b) := by
    intro b
    cases b
    · exact (measurable_snd.sub (measurable_fst.const_mul 2) : Measurable fun q : ℝ × ℝ => q.2 - 2 * q.1)
    · exact (measurable_snd.add measurable_fst : Measurable fun q : ℝ × ℝ => q.2 + q.1)
  have : ∀ b, IsMarkovKernel (randKer P (f b)) := fun b => isMarkov_randKer P _ (hf b)
  exact program_law P (sweep_program_realises_sweepOf P _ _
    (fun b => random_transition_realises P (f b) (hf b)) _ _ 5) x 0

end programs

/-! ## randomised block samplers: the law of the model's sweep is the kernel sweep -/

section model
variable {Ω : Type*} [MeasurableSpace Ω] {N V : Type} [DecidableEq N] [MeasurableSpace V]

/-- **The law of the model's sweep is the kernel sweep** (the statement left open at the end of
    `Props/C09_kernel.lean`).  `Ψ n u tgt v` is the transition function of block `n`'s sampler:
    seed `u`, target with conditioning dictionary `tgt` (= `others names cur n`, what `_set_target`
    builds), current point `v`.  For every seed stream `ω` the model is fed a stream `ds ω` of
    transitions in which the transition at stream position `p` is the one `Ψ` prescribes with
    seed `ω p` (`RDrivenSweep`, stated on the model's own `startSmp`, `blockUpdate`); `Sync g` is the
    model invariant `sync_construct`/`sync_sampleN`.  Then, with i.i.d. seeds, the block values after
    the executable `sweep` are distributed as the kernel sweep `sweepK` — same `names` (order),
    same `nsteps` (`num_sampling_steps`), block `n` updated by `blockK n` of the draw kernel
    `x ↦ law of Ψ n u (others names x n) (x n)` — started at the current values `g.cur`.
    So the invariance theorems about `sweepK` (`gibbs_invariant_kernel`, `hybridGibbs_sweep_invariant`)
    are statements about the law of what the model (and, by the tie, `HybridGibbs.step`) computes. -/
theorem sweepK_eq_law_of_model_sweep (P : Measure Ω) [IsProbabilityMeasure P]
    (Ψ : N → Ω → List (N × V) → V → V) (g : HG N V)
    (hΨ : ∀ n, Measurable (rdraw Ψ g.names n)) (hs : Sync g)
    (ds : (ℕ → Ω) → Nat → Draw V) (hd : ∀ ω, RDrivenSweep Ψ ω (ds ω) g.names g) :
    (iid P).map (fun ω => (sweep (ds ω) g).cur)
      = sweepK (α := fun _ => V) (fun n => randKer P (rdraw Ψ g.names n)) g.nsteps g.names g.cur := by
  have := isMarkov_sweepK_randKer P Ψ g.names hΨ g.nsteps g.names
  have e : (fun ω => (sweep (ds ω) g).cur)
      = fun ω => (rsweepFn Ψ g.names g.nsteps g.names (g.cur, seedDrop g.pos ω)).1 := by
    funext ω
    rw [sweepL_of_rdriven Ψ ω (ds ω) g.names g hs (hd ω), sweep_eq_sweepL]
  rw [e]
  exact realises_law_drop P (realises_rsweepFn P Ψ g.names hΨ g.nsteps g.names) g.cur g.pos

/-- **… and `k` sweeps of the kernel are the law of the model's `sampleN · k`** (`sample(k)` /
    `warmup(k)` as far as the block values go). -/
theorem iterK_sweepK_eq_law_of_model_run (P : Measure Ω) [IsProbabilityMeasure P]
    (Ψ : N → Ω → List (N × V) → V → V) (k : Nat) (g : HG N V)
    (hΨ : ∀ n, Measurable (rdraw Ψ g.names n)) (hs : Sync g)
    (ds : (ℕ → Ω) → Nat → Draw V) (hd : ∀ ω, RDrivenRun Ψ ω (ds ω) k g) :
    (iid P).map (fun ω => (sampleN (ds ω) k g).cur)
      = iterK (sweepK (α := fun _ => V) (fun n => randKer P (rdraw Ψ g.names n)) g.nsteps g.names)
          k g.cur := by
  have := isMarkov_sweepK_randKer P Ψ g.names hΨ g.nsteps g.names
  have e : (fun ω => (sampleN (ds ω) k g).cur)
      = fun ω => ((rsweepFn Ψ g.names g.nsteps g.names)^[k] (g.cur, seedDrop g.pos ω)).1 := by
    funext ω
    rw [sampleN_of_rdriven Ψ ω (ds ω) k g hs (hd ω)]
  rw [e]
  exact realises_law_drop P
    (realises_iterate P (realises_rsweepFn P Ψ g.names hΨ g.nsteps g.names) k) g.cur g.pos

/-- **A run of the model started in `π` ends in `π`.**  `G x` is the model state with block values
    `x` (same `names`, `nsteps`; e.g. `construct names nsteps x flags`); the initial values are drawn
    from `π`, the seeds are i.i.d. and independent of them.  If `π` disintegrates over the other
    blocks for every block name and every block sampler — the draw kernel of `Ψ n` — leaves that
    conditional invariant (`CondInvariantK`; the subject of C02/C06/C08/C10), then the block values
    after `sample(k)` *of the executable model* are again distributed as `π`. -/
theorem model_run_preserves_joint (P : Measure Ω) [IsProbabilityMeasure P]
    (Ψ : N → Ω → List (N × V) → V → V) (k : Nat) (names : List N) (nsteps : N → ℕ)
    (G : (N → V) → HG N V) (hG : ∀ x, (G x).names = names ∧ (G x).nsteps = nsteps ∧ (G x).cur = x)
    (hΨ : ∀ n, Measurable (rdraw Ψ names n)) (hs : ∀ x, Sync (G x))
    (ds : (N → V) → (ℕ → Ω) → Nat → Draw V) (hd : ∀ x ω, RDrivenRun Ψ ω (ds x ω) k (G x))
    (π : Measure (N → V)) [SFinite π]
    (κ : ∀ n, Kernel (Rest (fun _ : N => V) n) V) [∀ n, IsSFiniteKernel (κ n)]
    (hdis : ∀ n ∈ names, IsFullConditional π n (κ n))
    (hk : ∀ n ∈ names, CondInvariantK π n (κ n) (randKer P (rdraw Ψ names n))) :
    π.bind (fun x => (iid P).map (fun ω => (sampleN (ds x ω) k (G x)).cur)) = π := by
  have hM : ∀ n, IsSFiniteKernel (randKer P (rdraw Ψ names n)) := fun n => by
    have := isMarkov_randKer P _ (hΨ n)
    infer_instance
  have e : (fun x => (iid P).map (fun ω => (sampleN (ds x ω) k (G x)).cur))
      = ⇑(iterK (sweepK (α := fun _ => V) (fun n => randKer P (rdraw Ψ names n)) nsteps names) k) := by
    funext x
    obtain ⟨h1, h2, h3⟩ := hG x
    have := iterK_sweepK_eq_law_of_model_run P Ψ k (G x) (by rw [h1]; exact hΨ) (hs x) (ds x) (hd x)
    rw [h1, h2, h3] at this
    exact this
  rw [e]
  exact gibbs_invariant_kernel (α := fun _ => V) π κ _ names hdis hk nsteps k

/-! ### a concrete randomised run: accept/reject sampler with coin-flip seeds -/

/-- accept/reject sampler of the example: with seed `true` the block moves to `v + Σ others`, with
    seed `false` the proposal is rejected and it stays -/
def pexΨ : Fin 2 → Bool → List (Fin 2 × ℕ) → ℕ → ℕ :=
  fun _ u tgt v => if u then v + (tgt.map (·.2)).sum else v

/-- the stream of transitions fed to the model for the seeds `ω` (state `kexG` of
    `Props/C09_kernel.lean`: blocks `[0, 1]` at `(1, 1)`, `num_sampling_steps = {0: 2}`); the
    acceptance flag of transition `p` is the seed `ω p` -/
def pexDs (ω : ℕ → Bool) : Nat → Draw ℕ :=
  let a := if ω 0 then 2 else 1
  let b := if ω 1 then a + 1 else a
  fun p => match p with
    | 0 => ⟨2, ω 0⟩
    | 1 => ⟨a + 1, ω 1⟩
    | 2 => ⟨1 + b, ω 2⟩
    | _ => ⟨0, false⟩

lemma pex_driven (ω : ℕ → Bool) : RDrivenSweep pexΨ ω (pexDs ω) kexG.names kexG := by
  cases h0 : ω 0 <;> cases h1 : ω 1 <;> cases h2 : ω 2 <;>
  simp [RDrivenSweep, RDrivenSteps, kexG, construct, pexΨ, pexDs, Draw.next, startSmp, others,
    blockUpdate, stepLoop, Smp.prologue, Smp.initialize, Smp.step, upd, h0, h1, h2]

/-- the hypotheses of `sweepK_eq_law_of_model_sweep` are satisfiable: for every coin `P`, the law
    of the model's sweep fed with `pexDs` is the kernel sweep of the accept/reject samplers -/
example (P : Measure Bool) [IsProbabilityMeasure P] :
    (iid P).map (fun ω => (sweep (pexDs ω) kexG).cur)
      = sweepK (α := fun _ => ℕ) (fun n => randKer P (rdraw pexΨ kexG.names n)) kexG.nsteps
          kexG.names kexG.cur :=
  sweepK_eq_law_of_model_sweep P pexΨ kexG (fun _ => measurable_of_countable _)
    (sync_construct _ _ _ _) pexDs pex_driven

/-- … and of `iterK_sweepK_eq_law_of_model_run` (one sweep of `sampleN`) -/
example (P : Measure Bool) [IsProbabilityMeasure P] :
    (iid P).map (fun ω => (sampleN (pexDs ω) 1 kexG).cur)
      = iterK (sweepK (α := fun _ => ℕ) (fun n => randKer P (rdraw pexΨ kexG.names n)) kexG.nsteps
          kexG.names) 1 kexG.cur :=
  iterK_sweepK_eq_law_of_model_run P pexΨ 1 kexG (fun _ => measurable_of_countable _)
    (sync_construct _ _ _ _) pexDs (fun ω => ⟨pex_driven ω, trivial⟩)

/-! ### the samplers always drive the model: the hypothesis `RDrivenRun` is satisfiable for every `Ψ` -/

/-- **Every family of randomised samplers drives the model.**  For all transition functions `Ψ`,
    every model state `g` and every number of sweeps there is, for every seed stream `ω`, a stream
    of transitions in which the transition at position `p` is the one `Ψ` prescribes with seed
    `ω p` for the block being updated, the target it is handed and its current point — the
    stream the real samplers would produce.  (`v0` is only used for the positions never read.) -/
theorem rdriven_stream_exists (Ψ : N → Ω → List (N × V) → V → V) (k : Nat) (g : HG N V) (v0 : V) :
    ∃ ds : (ℕ → Ω) → Nat → Draw V, ∀ ω, RDrivenRun Ψ ω (ds ω) k g :=
  ⟨fun ω => (rdrivenRun_exists Ψ ω k g v0).choose, fun ω => (rdrivenRun_exists Ψ ω k g v0).choose_spec⟩

/-- **The law of `sample(k)` of the model driven by the samplers is `k` kernel sweeps** — the
    statement without side hypotheses on the stream: for measurable `Ψ`, every synchronised model
    state and every `k` there *is* a way to feed the model with the samplers' transitions, and
    for it the block values after `sampleN · k` are distributed as `iterK (sweepK …) k g.cur`. -/
theorem hybridGibbs_run_law (P : Measure Ω) [IsProbabilityMeasure P]
    (Ψ : N → Ω → List (N × V) → V → V) (k : Nat) (g : HG N V) (v0 : V)
    (hΨ : ∀ n, Measurable (rdraw Ψ g.names n)) (hs : Sync g) :
    ∃ ds : (ℕ → Ω) → Nat → Draw V, (∀ ω, RDrivenRun Ψ ω (ds ω) k g) ∧
      (iid P).map (fun ω => (sampleN (ds ω) k g).cur)
        = iterK (sweepK (α := fun _ => V) (fun n => randKer P (rdraw Ψ g.names n)) g.nsteps g.names)
            k g.cur := by
  obtain ⟨ds, hd⟩ := rdriven_stream_exists (Ω := Ω) Ψ k g v0
  exact ⟨ds, hd, iterK_sweepK_eq_law_of_model_run P Ψ k g hΨ hs ds hd⟩

example (P : Measure Bool) [IsProbabilityMeasure P] :
    ∃ ds : (ℕ → Bool) → Nat → Draw ℕ, (∀ ω, RDrivenRun pexΨ ω (ds ω) 7 kexG) ∧
      (iid P).map (fun ω => (sampleN (ds ω) 7 kexG).cur)
        = iterK (sweepK (α := fun _ => ℕ) (fun n => randKer P (rdraw pexΨ kexG.names n))
            kexG.nsteps kexG.names) 7 kexG.cur :=
  hybridGibbs_run_law P pexΨ 7 kexG 0 (fun _ => measurable_of_countable _) (sync_construct _ _ _ _)

/-- the hypotheses of `model_run_preserves_joint` are satisfiable for every probability measure
    `π` on `ℝ²` (conditionals: `condKernel`): samplers whose proposals are always rejected
    (`Ψ … v = v`, every transition `⟨0, rejected⟩`), two sweeps from `construct`ed states -/
example (P : Measure Bool) [IsProbabilityMeasure P] (π : Measure (Fin 2 → ℝ))
    [IsProbabilityMeasure π] :
    π.bind (fun x => (iid P).map (fun _ : ℕ → Bool =>
      (sampleN (fun _ => (⟨0, false⟩ : Draw ℝ)) 2
        (construct [0, 1] (fun _ => none) x (fun _ => (false, true, true)))).cur)) = π := by
  have hΨ : ∀ n : Fin 2, Measurable
      (rdraw (fun _ (_ : Bool) (_ : List (Fin 2 × ℝ)) (v : ℝ) => v) [0, 1] n) :=
    fun n => (measurable_pi_apply n).comp measurable_snd
  refine model_run_preserves_joint P (fun _ _ _ v => v) 2 [0, 1] (fun _ => 1)
    (fun x => construct [0, 1] (fun _ => none) x (fun _ => (false, true, true)))
    (fun x => ⟨rfl, rfl, rfl⟩) hΨ (fun x => sync_construct _ _ _ _)
    (fun _ _ => fun _ => (⟨0, false⟩ : Draw ℝ)) (fun x ω => ?_) π
    (fun n => (π.map (split (α := fun _ => ℝ) n)).condKernel)
    (fun n _ => isFullConditional_condKernel (α := fun _ => ℝ) π n) (fun n _ => ?_)
  · simp [RDrivenRun, RDrivenSweep, RDrivenSteps, construct, Draw.next, startSmp, others,
      blockUpdate, stepLoop, Smp.prologue, Smp.initialize, Smp.step, upd, sweep, store]
  · have : randKer P (rdraw (fun _ (_ : Bool) (_ : List (Fin 2 × ℝ)) (v : ℝ) => v) [0, 1] n)
        = Kernel.deterministic (fun x : Fin 2 → ℝ => x n) (measurable_pi_apply n) := by
      ext x : 1
      rw [randKer_apply P _ (hΨ n), Kernel.deterministic_apply]
      show P.map (fun _ => x n) = _
      rw [Measure.map_const, measure_univ, one_smul]
    rw [this]
    exact stay_sampler_condInvariantK (α := fun _ => ℝ) π n _

/-- **The stored chain is a Markov chain with the sweep kernel: two-time laws.**  Same setting; the
    block values after `a` sweeps and after `a + b` sweeps of one run of the executable model
    (both are stored tuples: `stored_is_post_sweep`) are jointly distributed as
    `K^a (g.cur, ·) ⊗ₘ K^b`, `K` the kernel sweep: given the state after `a` sweeps, the later
    state is drawn from `K^b` of it, independently of how that state was reached. -/
theorem model_run_two_time_law (P : Measure Ω) [IsProbabilityMeasure P]
    (Ψ : N → Ω → List (N × V) → V → V) (a b : Nat) (g : HG N V)
    (hΨ : ∀ n, Measurable (rdraw Ψ g.names n)) (hs : Sync g)
    (ds : (ℕ → Ω) → Nat → Draw V) (hd : ∀ ω, RDrivenRun Ψ ω (ds ω) (a + b) g) :
    (iid P).map (fun ω => ((sampleN (ds ω) a g).cur, (sampleN (ds ω) (a + b) g).cur))
      = (iterK (sweepK (α := fun _ => V) (fun n => randKer P (rdraw Ψ g.names n)) g.nsteps g.names)
            a g.cur)
          ⊗ₘ (iterK (sweepK (α := fun _ => V) (fun n => randKer P (rdraw Ψ g.names n)) g.nsteps
            g.names) b) := by
  have := isMarkov_sweepK_randKer P Ψ g.names hΨ g.nsteps g.names
  have hR := realises_rsweepFn P Ψ g.names hΨ g.nsteps g.names
  have e : (fun ω => ((sampleN (ds ω) a g).cur, (sampleN (ds ω) (a + b) g).cur))
      = fun ω => (((rsweepFn Ψ g.names g.nsteps g.names)^[a] (g.cur, seedDrop g.pos ω)).1,
          ((rsweepFn Ψ g.names g.nsteps g.names)^[b]
            ((rsweepFn Ψ g.names g.nsteps g.names)^[a] (g.cur, seedDrop g.pos ω))).1) := by
    funext ω
    rw [← Function.iterate_add_apply, Nat.add_comm b a,
      sampleN_of_rdriven Ψ ω (ds ω) (a + b) g hs (hd ω),
      sampleN_of_rdriven Ψ ω (ds ω) a g hs (rdrivenRun_prefix Ψ ω (ds ω) a b g (hd ω))]
  rw [e]
  exact realises_pair_drop P (realises_iterate P hR a) (realises_iterate P hR b) g.cur g.pos

example (P : Measure Bool) [IsProbabilityMeasure P] :
    ∃ ds : (ℕ → Bool) → Nat → Draw ℕ,
      (iid P).map (fun ω => ((sampleN (ds ω) 3 kexG).cur, (sampleN (ds ω) (3 + 4) kexG).cur))
        = (iterK (sweepK (α := fun _ => ℕ) (fun n => randKer P (rdraw pexΨ kexG.names n))
            kexG.nsteps kexG.names) 3 kexG.cur)
          ⊗ₘ (iterK (sweepK (α := fun _ => ℕ) (fun n => randKer P (rdraw pexΨ kexG.names n))
            kexG.nsteps kexG.names) 4) := by
  obtain ⟨ds, hd⟩ := rdriven_stream_exists (Ω := Bool) pexΨ (3 + 4) kexG 0
  exact ⟨ds, model_run_two_time_law P pexΨ 3 4 kexG (fun _ => measurable_of_countable _)
    (sync_construct _ _ _ _) ds hd⟩

/-- **The chain of stored states is the Markov chain with the sweep kernel: all finite-dimensional
    laws.**  `chainProb K [A₁, …, A_k] x = ∫_{A₁} K(x, dx₁) ∫_{A₂} K(x₁, dx₂) … ∫_{A_k} K(x_{k-1}, dx_k)`.
    For measurable `A₁, …, A_k`, the probability — over i.i.d. seeds — that the block values after
    the 1st, 2nd, …, `k`-th sweep of one run of the executable model (the stored tuples,
    `stored_is_post_sweep`) lie in `A₁, …, A_k` is `chainProb (sweepK …) [A₁, …, A_k] g.cur`.  Boxes
    determine the joint law, so the stored samples *are* a Markov chain with transition kernel
    `sweepK` started at the initial values. -/
theorem model_run_chain_law (P : Measure Ω) [IsProbabilityMeasure P]
    (Ψ : N → Ω → List (N × V) → V → V) (g : HG N V)
    (hΨ : ∀ n, Measurable (rdraw Ψ g.names n)) (hs : Sync g)
    (As : List (Set (N → V))) (hAs : ∀ A ∈ As, MeasurableSet A)
    (ds : (ℕ → Ω) → Nat → Draw V) (hd : ∀ ω, RDrivenRun Ψ ω (ds ω) As.length g) :
    iid P {ω | ∀ j (hj : j < As.length), (sampleN (ds ω) (j + 1) g).cur ∈ As[j]}
      = chainProb (sweepK (α := fun _ => V) (fun n => randKer P (rdraw Ψ g.names n)) g.nsteps
          g.names) As g.cur := by
  have := isMarkov_sweepK_randKer P Ψ g.names hΨ g.nsteps g.names
  have hR := realises_rsweepFn P Ψ g.names hΨ g.nsteps g.names
  have e : {ω | ∀ j (hj : j < As.length), (sampleN (ds ω) (j + 1) g).cur ∈ As[j]}
      = {ω | chainEvent (rsweepFn Ψ g.names g.nsteps g.names) Prod.fst As
          (g.cur, seedDrop g.pos ω)} := by
    ext ω
    simp only [Set.mem_ofPred_eq, chainEvent_iff]
    refine forall_congr' fun j => forall_congr' fun hj => ?_
    have hpre : RDrivenRun Ψ ω (ds ω) (j + 1) g := by
      have hlen : As.length = (j + 1) + (As.length - (j + 1)) := by omega
      have h := hd ω
      rw [hlen] at h
      exact rdrivenRun_prefix Ψ ω (ds ω) _ _ g h
    rw [sampleN_of_rdriven Ψ ω (ds ω) (j + 1) g hs hpre]
  rw [e]
  exact realises_chain_drop P hR As hAs g.cur g.pos

/-- satisfiable: the accept/reject samplers on `kexG`, three sweeps, events "block 0 is even",
    "block 1 ≥ 2", "everything" -/
example (P : Measure Bool) [IsProbabilityMeasure P] :
    ∃ ds : (ℕ → Bool) → Nat → Draw ℕ,
      iid P {ω | ∀ j (hj : j < 3), (sampleN (ds ω) (j + 1) kexG).cur ∈
          [{x : Fin 2 → ℕ | x 0 % 2 = 0}, {x | 2 ≤ x 1}, Set.univ][j]}
        = chainProb (sweepK (α := fun _ => ℕ) (fun n => randKer P (rdraw pexΨ kexG.names n))
            kexG.nsteps kexG.names)
            [{x : Fin 2 → ℕ | x 0 % 2 = 0}, {x | 2 ≤ x 1}, Set.univ] kexG.cur := by
  obtain ⟨ds, hd⟩ := rdriven_stream_exists (Ω := Bool) pexΨ 3 kexG 0
  exact ⟨ds, model_run_chain_law P pexΨ kexG (fun _ => measurable_of_countable _)
    (sync_construct _ _ _ _) [{x : Fin 2 → ℕ | x 0 % 2 = 0}, {x | 2 ≤ x 1}, Set.univ]
    (fun A _ => MeasurableSet.of_discrete) ds hd⟩

/-- **`HybridGibbs` as constructed, started in `π`, ends in `π`.**  The model state is the one
    `construct` builds (`__init__`: any `par_names` order `names`, any `num_sampling_steps`
    dictionary — missing keys default to 1, negative counts to 0 —, any sampler kinds `flags`),
    with the initial block values `x ~ π`; the block samplers are the randomised transition
    functions `Ψ`, driven by i.i.d. seeds independent of `x`.  If every block sampler leaves the
    full conditional it is handed invariant, there is a feeding of the model by the samplers'
    transitions, and for it the block values after `sample(k)` are distributed as `π`. -/
theorem hybridGibbs_constructed_run_preserves_joint (P : Measure Ω) [IsProbabilityMeasure P]
    (Ψ : N → Ω → List (N × V) → V → V) (k : Nat) (names : List N) (nsteps : N → Option Int)
    (flags : N → Bool × Bool × Bool) (v0 : V) (hΨ : ∀ n, Measurable (rdraw Ψ names n))
    (π : Measure (N → V)) [SFinite π]
    (κ : ∀ n, Kernel (Rest (fun _ : N => V) n) V) [∀ n, IsSFiniteKernel (κ n)]
    (hdis : ∀ n ∈ names, IsFullConditional π n (κ n))
    (hk : ∀ n ∈ names, CondInvariantK π n (κ n) (randKer P (rdraw Ψ names n))) :
    ∃ ds : (N → V) → (ℕ → Ω) → Nat → Draw V,
      (∀ x ω, RDrivenRun Ψ ω (ds x ω) k (construct names nsteps x flags)) ∧
      π.bind (fun x => (iid P).map
        (fun ω => (sampleN (ds x ω) k (construct names nsteps x flags)).cur)) = π := by
  have hex : ∀ x : N → V, ∃ ds : (ℕ → Ω) → Nat → Draw V,
      ∀ ω, RDrivenRun Ψ ω (ds ω) k (construct names nsteps x flags) :=
    fun x => rdriven_stream_exists Ψ k _ v0
  choose ds hds using hex
  exact ⟨ds, hds, model_run_preserves_joint P Ψ k names
    (construct names nsteps (fun _ => v0) flags).nsteps (fun x => construct names nsteps x flags)
    (fun x => ⟨rfl, rfl, rfl⟩) hΨ (fun x => sync_construct _ _ _ _) ds hds π κ hdis hk⟩

/-- **A randomised sampler that draws exactly from the conditional satisfies `CondInvariantK`.**
    If for every state `x` the law of the draw `Ψ n u (others names x n) (x n)`, `u ~ P`, is the
    conditional `κ` of block `n` at the other blocks' current values — what Conjugate, Direct,
    LinearRTO promise, with `u` the normal/gamma variates they consume — then the hypothesis `hk`
    of `model_run_preserves_joint` holds for block `n`. -/
theorem exact_rand_sampler_condInvariantK (P : Measure Ω) [IsProbabilityMeasure P]
    (Ψ : N → Ω → List (N × V) → V → V) (names : List N) (n : N)
    (hΨ : Measurable (rdraw Ψ names n)) (π : Measure (N → V))
    (κ : Kernel (Rest (fun _ : N => V) n) V) [IsMarkovKernel κ]
    (hex : ∀ x, P.map (fun u => rdraw Ψ names n (u, x)) = κ (rest (α := fun _ => V) n x)) :
    CondInvariantK π n κ (randKer P (rdraw Ψ names n)) := by
  have : randKer P (rdraw Ψ names n) = exactK (α := fun _ => V) n κ := by
    ext x : 1
    rw [randKer_apply P _ hΨ, hex x, exactK, Kernel.comap_apply]
  rw [this]
  exact condInvariantK_exactK (α := fun _ => V) π n κ

/-- satisfiable: independent blocks — the conditional is the constant kernel `P`, the sampler
    returns its seed -/
example (P : Measure ℝ) [IsProbabilityMeasure P] (π : Measure (Fin 2 → ℝ)) (n : Fin 2) :
    CondInvariantK π n (Kernel.const _ P)
      (randKer P (rdraw (fun _ (u : ℝ) (_ : List (Fin 2 × ℝ)) (_ : ℝ) => u) [0, 1] n)) :=
  exact_rand_sampler_condInvariantK P _ [0, 1] n measurable_fst π (Kernel.const _ P)
    (fun x => by
      rw [Kernel.const_apply]
      show P.map (fun u => u) = P
      exact Measure.map_id)

/-! ### legacy `Gibbs` -/

/-- **The law of the legacy sweep** (`lsweep`: every block once, a fresh sampler per block, one
    transition — `legacy_block`): with i.i.d. seeds it is the kernel sweep with step count 1,
    started at the current values. -/
theorem sweepK_eq_law_of_legacy_sweep (P : Measure Ω) [IsProbabilityMeasure P]
    (Ψ : N → Ω → List (N × V) → V → V) (names : List N) (st : LSt N V)
    (hΨ : ∀ n, Measurable (rdraw Ψ names n))
    (ds : (ℕ → Ω) → Nat → V) (hd : ∀ ω, RLDrivenSweep Ψ ω (ds ω) names names st) :
    (iid P).map (fun ω => (lsweep (ds ω) names st).1)
      = sweepK (α := fun _ => V) (fun n => randKer P (rdraw Ψ names n)) (fun _ => 1) names st.1 := by
  have := isMarkov_sweepK_randKer P Ψ names hΨ (fun _ => 1) names
  have e : (fun ω => (lsweep (ds ω) names st).1)
      = fun ω => (rsweepFn Ψ names (fun _ => 1) names (st.1, seedDrop st.2.1 ω)).1 := by
    funext ω
    rw [lsweepL_of_rdriven Ψ ω (ds ω) names names st (hd ω), lsweep_eq_lsweepL]
  rw [e]
  exact realises_law_drop P (realises_rsweepFn P Ψ names hΨ (fun _ => 1) names) st.1 st.2.1

/-- … and the driving stream always exists -/
theorem legacy_rdriven_stream_exists (Ψ : N → Ω → List (N × V) → V → V) (names : List N)
    (st : LSt N V) (v0 : V) :
    ∃ ds : (ℕ → Ω) → Nat → V, ∀ ω, RLDrivenSweep Ψ ω (ds ω) names names st :=
  ⟨fun ω => (rldrivenSweep_exists Ψ ω names names st v0).choose,
    fun ω => (rldrivenSweep_exists Ψ ω names names st v0).choose_spec⟩

/-- satisfiable: the accept/reject samplers `pexΨ`, blocks `[0, 1]` at `(1, 1)` -/
example (P : Measure Bool) [IsProbabilityMeasure P] :
    ∃ ds : (ℕ → Bool) → Nat → ℕ,
      (iid P).map (fun ω => (lsweep (ds ω) [0, 1] ((fun _ => 1), 0, [])).1)
        = sweepK (α := fun _ => ℕ) (fun n => randKer P (rdraw pexΨ [0, 1] n)) (fun _ => 1) [0, 1]
            (fun _ => 1) := by
  obtain ⟨ds, hd⟩ := legacy_rdriven_stream_exists (Ω := Bool) pexΨ [0, 1] ((fun _ => 1), 0, []) 0
  exact ⟨ds, sweepK_eq_law_of_legacy_sweep P pexΨ [0, 1] _ (fun _ => measurable_of_countable _) ds hd⟩

end model

/-! ## finite product spaces: `gibbs_invariant_fintype` is the finite instance of `gibbs_invariant_kernel` -/

section finite
open scoped ENNReal NNReal
variable {ι : Type} [DecidableEq ι] [Fintype ι] {α : ι → Type} [∀ i, Fintype (α i)]
  [∀ i, DecidableEq (α i)] [∀ i, MeasurableSpace (α i)] [∀ i, MeasurableSingletonClass (α i)]

/-- **Dictionary, invariance**: on a finite discrete space, a weight `π : X → ℝ≥0` is invariant
    under the transition matrix `K` (`Invariant` of `Props/C09.lean`: `∑ x, π x * K x y = π y`) iff
    the measure with weights `π` is invariant under the kernel with weights `K` (Mathlib's
    `Kernel.Invariant`). -/
theorem fintype_invariant_iff_kernel_invariant {X : Type} [Fintype X] [MeasurableSpace X]
    [MeasurableSingletonClass X] (π : X → ℝ≥0) (K : X → X → ℝ≥0) :
    Kernel.Invariant (wKernel K) (wMeasure π) ↔ Invariant π K :=
  kernel_invariant_iff π K

/-- **Dictionary, block update**: the transition matrix `blockKernel i k` of `Props/C09.lean` is the
    kernel block update `blockK i` of the draw kernel of `k`. -/
theorem blockKernel_eq_blockK (i : ι) (k : (∀ j, α j) → α i → α i → ℝ≥0) :
    wKernel (blockKernel i k) = blockK i (wKernel (drawWeights i k)) :=
  wKernel_blockKernel i k

/-- **Dictionary, sweep**: the matrix sweep `sweepKernel` of `Props/C09.lean` (a recursion over the
    block list, matrix products and powers) is the kernel sweep `sweepK` (the fold of
    `Model/C09.lean: sweep`, kernel compositions). -/
theorem sweepKernel_eq_sweepK (ks : ∀ i, (∀ j, α j) → α i → α i → ℝ≥0) (steps : ι → ℕ)
    (l : List ι) :
    wKernel (sweepKernel ks steps l) = sweepK (fun i => wKernel (drawWeights i (ks i))) steps l :=
  wKernel_sweepKernel ks steps l

/-- **Dictionary, hypotheses**: for a finite weight `π` the normalised conditional weights are a
    full conditional in the sense of `IsFullConditional` (the disintegration exists and is
    explicit), and the finite-state hypothesis `CondInvariant` gives the kernel hypothesis
    `CondInvariantK`. -/
theorem fintype_hypotheses_give_kernel_hypotheses (π : (∀ j, α j) → ℝ≥0) (i : ι)
    (k : (∀ j, α j) → α i → α i → ℝ≥0) (hk : CondInvariant π i k) :
    IsFullConditional (wMeasure π) i (wKernel (condWeights π i)) ∧
      CondInvariantK (wMeasure π) i (wKernel (condWeights π i)) (wKernel (drawWeights i k)) :=
  ⟨isFullConditional_wMeasure π i, condInvariantK_of_condInvariant π i k hk⟩

/-- **`gibbs_invariant_fintype` (weights in `ℝ≥0`) as an instance of `gibbs_invariant_kernel`**: the
    proof goes through the general-state-space theorem and the dictionary above, not through the
    finite sums of `Props/C09.lean`. -/
theorem gibbs_invariant_fintype_of_kernel (π : (∀ j, α j) → ℝ≥0)
    (ks : ∀ i, (∀ j, α j) → α i → α i → ℝ≥0) (steps : ι → ℕ) (l : List ι)
    (hk : ∀ i ∈ l, CondInvariant π i (ks i)) : Invariant π (sweepKernel ks steps l) := by
  have h := gibbs_invariant_kernel (wMeasure π) (fun i => wKernel (condWeights π i))
    (fun i => wKernel (drawWeights i (ks i))) l (fun i _ => isFullConditional_wMeasure π i)
    (fun i hi => condInvariantK_of_condInvariant π i (ks i) (hk i hi)) steps 1
  rw [iterK, iterK, Kernel.comp_id, ← wKernel_sweepKernel, kernel_invariant_iff] at h
  exact h

/-- the two-binary-block example of `Props/C09.lean` (correlated weight, exact block samplers, two
    transitions per block), now through the kernel theorem -/
example :
    let π : (Bool → Bool) → ℝ≥0 := fun x => if x true = x false then 2 else 1
    Invariant π (sweepKernel (α := fun _ => Bool)
      (fun i c _ b => π (Function.update c i b) / ∑ a, π (Function.update c i a)) (fun _ => 2)
      [true, false]) := by
  intro π
  have hpos : ∀ x, (0 : ℝ≥0) < π x := by intro x; simp only [π]; split <;> norm_num
  refine gibbs_invariant_fintype_of_kernel π _ _ _ (fun i _ c b => ?_)
  have hne : ∑ a, π (Function.update c i a) ≠ 0 :=
    (Finset.sum_pos (fun a _ => hpos _) Finset.univ_nonempty).ne'
  rw [← Finset.sum_mul, mul_div_assoc', mul_comm, mul_div_assoc, div_self hne, mul_one]

end finite

/-! ## end to end: exact Gibbs on two correlated bits, run by the executable model -/

section endToEnd
open scoped ENNReal NNReal

/-- **End to end on two correlated bits**: joint weights 2 (equal) / 1 (different), exact block
    samplers driven by uniform seeds in `Fin 3`, block 0 twice per sweep, five sweeps from
    `construct`ed states: there is a feeding of the model by the samplers, and for it the
    executable model's `sample(5)` started in the joint ends in the joint. -/
example :
    let P := wMeasure (fun _ : Fin 3 => (1 / 3 : ℝ≥0))
    let G := fun x : Fin 2 → Bool =>
      construct [0, 1] (fun n => if n = 0 then some 2 else none) x (fun _ => (false, true, true))
    ∃ ds : (Fin 2 → Bool) → (ℕ → Fin 3) → Nat → Draw Bool,
      (∀ x ω, RDrivenRun cexΨ ω (ds x ω) 5 (G x)) ∧
      (wMeasure cexW).bind (fun x => (iid P).map (fun ω => (sampleN (ds x ω) 5 (G x)).cur))
        = wMeasure cexW := by
  intro P G
  have hM : ∀ n : Fin 2, IsMarkovKernel (wKernel (condWeights cexW n)) :=
    fun n => isMarkov_condWeights cexW n (cex_fibre_pos n)
  exact hybridGibbs_constructed_run_preserves_joint P cexΨ 5 [0, 1] _ _ false
    (fun _ => measurable_of_countable _) (wMeasure cexW)
    (fun n => wKernel (condWeights cexW n)) (fun n _ => isFullConditional_wMeasure cexW n)
    (fun n _ => exact_rand_sampler_condInvariantK P cexΨ [0, 1] n (measurable_of_countable _) _ _
      (cex_hex n))

end endToEnd

end CuqiVerif.C09
