import CuqiVerif.Props.C19
import CuqiVerif.Proofs.C19_full

/-!
# C19 — full-strength theorems (second pass)

Every statement is about the executable definitions of `Model/C19.lean` that the driver runs
(`sorted`, `mean`, `variance`, `median`, `percentile`, `ciLevels`, `Samples.stat/computeCi/ciWidth/
burnthin/funvals/essInput/rhatInput`, `jointBurnthin`, `pySlice`, `dictOfZip`) over `ℚ` = the `Rat`
the driver computes with, for every chain length, dimension and sample value.  Vocabulary added
here (Proofs/C19_full): `defaultNames name n` (the text of `Geometry.variables`' default, = the driver's
`defaultVars` for `name = "v"`), `Samples.affine a b` (entrywise `a·x + b`, = what `funvals` stores under
the driver's `Conv.affine a b` geometry: `funvals_affine_geometry`).

1. order statistics: `sorted_is_the_sorted_permutation`, `percentile_order_statistic`,
   `stats_permutation_invariant`, `samples_stats_permutation_invariant`, `percentile_zero_is_min`,
   `percentile_hundred_is_max`, `ci_within_range`, `ci_nested`, `ciWidth_monotone`.
2. affine equivariance: `mean_variance_affine`, `percentile_affine_nonneg`, `percentile_affine_nonpos`
   (lower/upper swap), `samples_affine_equivariant`, `funvals_affine_geometry`.
3. thinning and statistics: `burnthin_stat_index_set`, `joint_burnthin_stat_index_set`,
   `joint_burnthin_compose`.
4. ESS / R-hat without `_partial`: `defaultNames_nodup`, `dictOfZip_eq_zip_iff`,
   `essInput_each_variable_iff`, `essInput_each_variable`, `rhatInput_each_variable_iff`,
   `rhatInput_each_variable`, `ess_rhat_parameters_default_names`.
5. pinned behaviour outside the property's domain: `burnthin_zero_step`, `burnthin_negative_burn`,
   `burnthin_negative_step`, `burnthin_negative_burn_negative_step`, `ciLevels_neg`,
   `computeCi_neg_level`, `computeCi_negative_level_inverts`.
-/

namespace CuqiVerif.C19
open List

/-! ## 1. statistics as order statistics -/

/-- **The model's `sorted` is *the* sorted chain**: it is a permutation of the chain, it is
    non-decreasing, and every non-decreasing permutation of the chain equals it.  (So "the sorted
    chain" in the theorems below does not depend on the sorting algorithm — `np.sort`, merge sort,
    … all give this list.) -/
theorem sorted_is_the_sorted_permutation (xs : List ℚ) :
    (sorted xs).Perm xs ∧ (sorted xs).Pairwise (· ≤ ·) ∧
      ∀ l : List ℚ, l.Perm xs → l.Pairwise (· ≤ ·) → l = sorted xs :=
  ⟨sorted_perm xs, sorted_pairwise xs, fun l hp hs => (sorted_unique xs l hp hs).symm⟩

example : sorted [3, 1, 2, 7] = [1, 2, 3, 7] :=
  ((sorted_is_the_sorted_permutation _).2.2 [1, 2, 3, 7] (by decide) (by norm_num)).symm

/-- **percentile_order_statistic** — `np.percentile(chain, q)` (method `linear`) as an order
    statistic.  For a chain of `N ≥ 1` samples, `l` *any* non-decreasing rearrangement of it and a
    level `q ∈ [0, 100]`, with `k = ⌊q/100·(N−1)⌋` and `frac = q/100·(N−1) − k`:
    `k ≤ N−1`, `0 ≤ frac < 1`, and the percentile is `l[k] + frac·(l[k+1] − l[k])` (numpy clips the
    index `k+1` to `N−1`; the clip matters only for `q = 100`, where `frac = 0`).  (For `N = 0` the
    statement is about the model only: numpy returns `nan` there, which is not modelled.) -/
theorem percentile_order_statistic (xs l : List ℚ) (hp : l.Perm xs)
    (hs : l.Pairwise (· ≤ ·)) (q : ℚ) (h0 : 0 ≤ q) (h100 : q ≤ 100) :
    ∃ k : ℕ, (k : ℤ) = ⌊q / 100 * ((xs.length - 1 : ℕ) : ℚ)⌋ ∧ k ≤ xs.length - 1 ∧
      0 ≤ q / 100 * ((xs.length - 1 : ℕ) : ℚ) - k ∧ q / 100 * ((xs.length - 1 : ℕ) : ℚ) - k < 1 ∧
      percentile xs q = l.getD k 0
        + (q / 100 * ((xs.length - 1 : ℕ) : ℚ) - k) * (l.getD (min (k + 1) (xs.length - 1)) 0 - l.getD k 0) ∧
      (k + 1 < xs.length → percentile xs q = l.getD k 0
        + (q / 100 * ((xs.length - 1 : ℕ) : ℚ) - k) * (l.getD (k + 1) 0 - l.getD k 0)) ∧
      (k + 1 = xs.length → percentile xs q = l.getD k 0) := by
  have hl : sorted xs = l := sorted_unique xs l hp hs
  have hlen : (sorted xs).length = xs.length := sorted_length xs
  obtain ⟨hv0, hvle⟩ := vindex_bounds xs.length q h0 h100
  set v : ℚ := ((xs.length - 1 : ℕ) : ℚ) * (q / 100) with hv
  have hvc : q / 100 * ((xs.length - 1 : ℕ) : ℚ) = v := by rw [hv]; ring
  obtain ⟨hb1, hb2⟩ := floor_toNat_bounds v hv0
  have hk := floor_toNat_le v hv0 _ hvle
  have hperc : percentile xs q = l.getD v.floor.toNat 0
      + (v - (v.floor.toNat : ℚ)) * (l.getD (min (v.floor.toNat + 1) (xs.length - 1)) 0 - l.getD v.floor.toNat 0) := by
    unfold percentile interp
    simp only [hl, hp.length_eq]
    rw [← hv]
    ring
  refine ⟨v.floor.toNat, ?_, hk, ?_, ?_, ?_, ?_, ?_⟩
  · rw [hvc]
    exact Int.toNat_of_nonneg (Int.floor_nonneg.mpr hv0)
  · rw [hvc]; linarith
  · rw [hvc]; linarith
  · rw [hvc]; exact hperc
  · intro hlt
    rw [hvc, hperc, min_eq_left (by omega)]
  · intro heq
    have e : ((xs.length - 1 : ℕ) : ℚ) = (v.floor.toNat : ℚ) := by
      congr 1; omega
    have : v - (v.floor.toNat : ℚ) = 0 := by
      have : v ≤ (v.floor.toNat : ℚ) := e ▸ hvle
      linarith
    rw [hperc, this, zero_mul, add_zero]

example : percentile [3, 1, 2, 7] 40 = 2 + (1 / 5) * (3 - 2) := by
  obtain ⟨k, hk, -, -, -, -, h, -⟩ := percentile_order_statistic [3, 1, 2, 7] [1, 2, 3, 7]
    (by decide) (by norm_num) 40 (by norm_num) (by norm_num)
  have hk1 : k = 1 := by
    have : ⌊(40 : ℚ) / 100 * (([3, 1, 2, 7] : List ℚ).length - 1 : ℕ)⌋ = 1 := by
      rw [Int.floor_eq_iff]; norm_num
    omega
  subst hk1
  have := h (by simp)
  rw [this]; norm_num

/-- **stats_permutation_invariant** (one chain): mean, variance, median and every percentile —
    hence both ends of every credibility interval — depend on the *multiset* of samples only:
    reordering the chain does not change them. -/
theorem stats_permutation_invariant (xs ys : List ℚ) (h : xs.Perm ys) :
    mean xs = mean ys ∧ variance xs = variance ys ∧ median xs = median ys ∧
      (∀ q, percentile xs q = percentile ys q) ∧ sorted xs = sorted ys := by
  have hs : sorted xs = sorted ys := sorted_congr h
  have hm : mean xs = mean ys := by unfold mean; rw [h.sum_eq, h.length_eq]
  refine ⟨hm, ?_, ?_, ?_, hs⟩
  · unfold variance
    rw [hm]
    unfold mean
    rw [(h.map _).sum_eq, List.length_map, List.length_map, h.length_eq]
  · unfold median; rw [hs]
  · intro q; unfold percentile; rw [hs]

example : variance [3, 1, 2, 7] = variance [7, 3, 2, 1] ∧ percentile [3, 1, 2, 7] 95 = percentile [7, 3, 2, 1] 95 :=
  have h := stats_permutation_invariant [3, 1, 2, 7] [7, 3, 2, 1] (by decide)
  ⟨h.2.1, h.2.2.2.1 95⟩

/-- **stats_permutation_invariant on a Samples object**: if the stored samples of `s₂` are those of
    `s₁` in another order (same coordinate shape), every reduction over the sample axis agrees:
    `mean`, `variance`, `median`, `compute_ci(p)` and `ci_width(p)` for every `p` (refusals included).
    More generally every per-chain statistic `f` that is permutation invariant gives the same
    `stat f`. -/
theorem samples_stats_permutation_invariant (s₁ s₂ : Samples) (hc : s₁.cols.Perm s₂.cols)
    (hsh : s₁.shape = s₂.shape) :
    (∀ f : List ℚ → ℚ, (∀ xs ys : List ℚ, xs.Perm ys → f xs = f ys) → s₁.stat f = s₂.stat f) ∧
    s₁.stat mean = s₂.stat mean ∧ s₁.stat variance = s₂.stat variance ∧ s₁.stat median = s₂.stat median ∧
    (∀ p, s₁.computeCi p = s₂.computeCi p) ∧ (∀ p, s₁.ciWidth p = s₂.ciWidth p) := by
  have hgen : ∀ f : List ℚ → ℚ, (∀ xs ys : List ℚ, xs.Perm ys → f xs = f ys) → s₁.stat f = s₂.stat f := by
    intro f hf
    unfold Samples.stat Samples.dim
    rw [hsh]
    apply List.map_congr_left
    intro k _
    exact hf _ _ (hc.map _)
  have hci : ∀ p, s₁.computeCi p = s₂.computeCi p := by
    intro p
    unfold Samples.computeCi
    cases ciLevels p with
    | error e => rfl
    | ok lu =>
      obtain ⟨lb, ub⟩ := lu
      show Except.ok _ = Except.ok _
      rw [hgen (percentile · lb) (fun xs ys h => (stats_permutation_invariant xs ys h).2.2.2.1 lb),
        hgen (percentile · ub) (fun xs ys h => (stats_permutation_invariant xs ys h).2.2.2.1 ub)]
  refine ⟨hgen, hgen _ (fun xs ys h => (stats_permutation_invariant xs ys h).1),
    hgen _ (fun xs ys h => (stats_permutation_invariant xs ys h).2.1),
    hgen _ (fun xs ys h => (stats_permutation_invariant xs ys h).2.2.1), hci, ?_⟩
  intro p
  unfold Samples.ciWidth
  rw [hci p]

example : exS.stat median = { exS with cols := exS.cols.reverse }.stat median :=
  (samples_stats_permutation_invariant exS { exS with cols := exS.cols.reverse }
    (List.reverse_perm _).symm rfl).2.2.2.1

/-- **The 0-th percentile is the minimum of the chain**: it is a sample of the chain and no sample
    is below it. -/
theorem percentile_zero_is_min (xs : List ℚ) (hne : xs ≠ []) :
    percentile xs 0 ∈ xs ∧ ∀ x ∈ xs, percentile xs 0 ≤ x := by
  rw [percentile_zero]
  exact ⟨sorted_head_mem xs hne, sorted_head_le xs⟩

/-- **The 100-th percentile is the maximum of the chain**. -/
theorem percentile_hundred_is_max (xs : List ℚ) (hne : xs ≠ []) :
    percentile xs 100 ∈ xs ∧ ∀ x ∈ xs, x ≤ percentile xs 100 := by
  rw [percentile_hundred]
  exact ⟨sorted_last_mem xs hne, le_sorted_last xs⟩

example : percentile [3, 1, 2, 7] 0 = 1 ∧ percentile [3, 1, 2, 7] 100 = 7 := by
  constructor
  · have h := percentile_zero_is_min [3, 1, 2, 7] (by simp)
    have h1 := h.2 1 (by simp)
    have h2 := h.1
    simp only [List.mem_cons, List.not_mem_nil, or_false] at h2
    rcases h2 with h2 | h2 | h2 | h2 <;> linarith
  · have h := percentile_hundred_is_max [3, 1, 2, 7] (by simp)
    have h1 := h.2 7 (by simp)
    have h2 := h.1
    simp only [List.mem_cons, List.not_mem_nil, or_false] at h2
    rcases h2 with h2 | h2 | h2 | h2 <;> linarith

/-- **min ≤ lower ≤ median ≤ upper ≤ max** for every chain with at least one sample and every
    credibility level in `[0, 100]` (`min`/`max` = the 0-th/100-th percentile, see
    `percentile_zero_is_min`, `percentile_hundred_is_max`; in particular every sample-independent
    bound on the chain bounds the interval). -/
theorem ci_within_range (xs : List ℚ) (hne : xs ≠ []) (p : ℚ) (h0 : 0 ≤ p) (h100 : p ≤ 100) :
    percentile xs 0 ≤ percentile xs ((100 - p) / 2) ∧
    percentile xs ((100 - p) / 2) ≤ median xs ∧
    median xs ≤ percentile xs (100 - (100 - p) / 2) ∧
    percentile xs (100 - (100 - p) / 2) ≤ percentile xs 100 := by
  obtain ⟨h1, h2⟩ := ci_brackets_median xs hne p h0 h100
  refine ⟨?_, h1, h2, ?_⟩
  · apply percentile_monotone <;> linarith
  · apply percentile_monotone <;> linarith

example : percentile [3, 1, 2, 7] 0 ≤ percentile [3, 1, 2, 7] ((100 - 95) / 2) :=
  (ci_within_range [3, 1, 2, 7] (by simp) 95 (by norm_num) (by norm_num)).1

/-- **Credibility intervals are nested**: raising the level from `p₁` to `p₂` (both in `[0,100]`)
    moves the lower bound down and the upper bound up, so `ci_width` is monotone in the level;
    it is `0` at level 0 and `max − min` at level 100. -/
theorem ci_nested (xs : List ℚ) (p₁ p₂ : ℚ) (h0 : 0 ≤ p₁) (h12 : p₁ ≤ p₂) (h100 : p₂ ≤ 100) :
    percentile xs ((100 - p₂) / 2) ≤ percentile xs ((100 - p₁) / 2) ∧
    percentile xs (100 - (100 - p₁) / 2) ≤ percentile xs (100 - (100 - p₂) / 2) ∧
    percentile xs (100 - (100 - p₁) / 2) - percentile xs ((100 - p₁) / 2)
      ≤ percentile xs (100 - (100 - p₂) / 2) - percentile xs ((100 - p₂) / 2) ∧
    percentile xs (100 - (100 - 0) / 2) - percentile xs ((100 - 0) / 2) = 0 ∧
    percentile xs (100 - (100 - 100) / 2) - percentile xs ((100 - 100) / 2)
      = percentile xs 100 - percentile xs 0 := by
  have a : percentile xs ((100 - p₂) / 2) ≤ percentile xs ((100 - p₁) / 2) := by
    apply percentile_monotone <;> linarith
  have b : percentile xs (100 - (100 - p₁) / 2) ≤ percentile xs (100 - (100 - p₂) / 2) := by
    apply percentile_monotone <;> linarith
  refine ⟨a, b, by linarith, ?_, ?_⟩
  · norm_num
  · norm_num

example : percentile [3, 1, 2, 7] ((100 - 95) / 2) ≤ percentile [3, 1, 2, 7] ((100 - 68) / 2) :=
  (ci_nested [3, 1, 2, 7] 68 95 (by norm_num) (by norm_num) (by norm_num)).1

/-- **`ci_width` on a Samples object is monotone in the credibility level**: for levels
    `0 ≤ p₁ ≤ p₂ ≤ 100` both calls succeed, return one width per coordinate, and at every
    coordinate the width at `p₁` is at most the width at `p₂`. -/
theorem ciWidth_monotone (s : Samples) (p₁ p₂ : ℚ) (h0 : 0 ≤ p₁) (h12 : p₁ ≤ p₂) (h100 : p₂ ≤ 100) :
    ∃ w₁ w₂, s.ciWidth p₁ = .ok w₁ ∧ s.ciWidth p₂ = .ok w₂ ∧ w₁.length = s.dim ∧ w₂.length = s.dim ∧
      ∀ k, k < s.dim → ∃ a b, w₁[k]? = some a ∧ w₂[k]? = some b ∧ a ≤ b := by
  refine ⟨_, _, ciWidth_eq s p₁ h0 (by linarith), ciWidth_eq s p₂ (by linarith) h100, by simp, by simp, ?_⟩
  intro k hk
  refine ⟨_, _, by simp [hk], by simp [hk], (ci_nested (s.chain k) p₁ p₂ h0 h12 h100).2.2.1⟩

example : ∃ w₁ w₂, exS.ciWidth 68 = .ok w₁ ∧ exS.ciWidth 95 = .ok w₂ ∧ w₁.length = 2 :=
  let ⟨w₁, w₂, h1, h2, h3, _, _⟩ := ciWidth_monotone exS 68 95 (by norm_num) (by norm_num) (by norm_num)
  ⟨w₁, w₂, h1, h2, h3⟩

/-! ## 2. affine equivariance -/

/-- **mean and variance under `x ↦ a·x + b`** (any slope `a`, any sign): the mean is mapped by the
    same affine map, the variance is multiplied by `a²` (for every chain, the empty one included). -/
theorem mean_variance_affine (xs : List ℚ) (a b : ℚ) :
    (xs ≠ [] → mean (xs.map (fun x => a * x + b)) = a * mean xs + b) ∧
    variance (xs.map (fun x => a * x + b)) = a * a * variance xs :=
  ⟨fun hne => mean_map_affine xs hne a b, variance_map_affine xs a b⟩

example : variance (([3, 1, 2, 7] : List ℚ).map (fun x => -2 * x + 5)) = (-2) * (-2) * variance [3, 1, 2, 7] :=
  (mean_variance_affine _ _ _).2

/-- **percentiles under `x ↦ a·x + b`, `a ≥ 0`**: every percentile (level in `[0,100]`), hence the
    median and both ends of every credibility interval, is mapped by the same affine map. -/
theorem percentile_affine_nonneg (xs : List ℚ) (hne : xs ≠ []) (a b : ℚ) (ha : 0 ≤ a) :
    (∀ q, 0 ≤ q → q ≤ 100 → percentile (xs.map (fun x => a * x + b)) q = a * percentile xs q + b) ∧
    median (xs.map (fun x => a * x + b)) = a * median xs + b := by
  have hne' : xs.map (fun x => a * x + b) ≠ [] := by simpa using hne
  refine ⟨fun q h0 h100 => percentile_map_affine_nonneg xs hne a b q ha h0 h100, ?_⟩
  rw [median_eq_percentile_50 _ hne', median_eq_percentile_50 _ hne,
    percentile_map_affine_nonneg xs hne a b 50 ha (by norm_num) (by norm_num)]

example : median (([3, 1, 2, 7] : List ℚ).map (fun x => 2 * x + 5)) = 2 * median [3, 1, 2, 7] + 5 :=
  (percentile_affine_nonneg [3, 1, 2, 7] (by simp) 2 5 (by norm_num)).2

/-- **percentiles under `x ↦ a·x + b`, `a ≤ 0`: lower and upper swap**: the `q`-th percentile of the
    mapped chain is the affine image of the `(100−q)`-th percentile of the chain; the median is
    mapped to the affine image of the median; for a credibility level `p` the lower bound of the mapped
    chain is the image of the upper bound and vice versa. -/
theorem percentile_affine_nonpos (xs : List ℚ) (hne : xs ≠ []) (a b : ℚ) (ha : a ≤ 0) :
    (∀ q, 0 ≤ q → q ≤ 100 →
      percentile (xs.map (fun x => a * x + b)) q = a * percentile xs (100 - q) + b) ∧
    median (xs.map (fun x => a * x + b)) = a * median xs + b ∧
    (∀ p, 0 ≤ p → p ≤ 100 →
      percentile (xs.map (fun x => a * x + b)) ((100 - p) / 2) = a * percentile xs (100 - (100 - p) / 2) + b ∧
      percentile (xs.map (fun x => a * x + b)) (100 - (100 - p) / 2) = a * percentile xs ((100 - p) / 2) + b) := by
  have hne' : xs.map (fun x => a * x + b) ≠ [] := by simpa using hne
  refine ⟨fun q h0 h100 => percentile_map_affine_nonpos xs hne a b q ha h0 h100, ?_, ?_⟩
  · rw [median_eq_percentile_50 _ hne', median_eq_percentile_50 _ hne,
      percentile_map_affine_nonpos xs hne a b 50 ha (by norm_num) (by norm_num)]
    norm_num
  · intro p h0 h100
    constructor
    · exact percentile_map_affine_nonpos xs hne a b _ ha (by linarith) (by linarith)
    · rw [percentile_map_affine_nonpos xs hne a b _ ha (by linarith) (by linarith)]
      congr 3
      ring

example : percentile (([3, 1, 2, 7] : List ℚ).map (fun x => -2 * x + 5)) (5 / 2)
    = -2 * percentile [3, 1, 2, 7] (100 - 5 / 2) + 5 :=
  (percentile_affine_nonpos [3, 1, 2, 7] (by simp) (-2) 5 (by norm_num)).1 _ (by norm_num) (by norm_num)

/-- **Affine equivariance on a Samples object** (a well-formed array: every stored sample has
    `prod shape` entries; at least one sample).  Mapping every entry by `x ↦ a·x + b` maps `mean` and
    `median` by the same map at every coordinate and multiplies `variance` by `a²`; for a level
    `p ∈ [0,100]`, `compute_ci` returns the images of (lower, upper) when `a ≥ 0` and the images of
    (upper, lower) — swapped — when `a ≤ 0`. -/
theorem samples_affine_equivariant (s : Samples) (hwf : ∀ c ∈ s.cols, c.length = s.dim)
    (hN : s.cols ≠ []) (a b : ℚ) :
    (s.affine a b).stat mean = (s.stat mean).map (fun m => a * m + b) ∧
    (s.affine a b).stat variance = (s.stat variance).map (fun v => a * a * v) ∧
    (s.affine a b).stat median = (s.stat median).map (fun m => a * m + b) ∧
    (∀ p lo up, 0 ≤ p → p ≤ 100 → s.computeCi p = .ok (lo, up) →
      (0 ≤ a → (s.affine a b).computeCi p
        = .ok (lo.map (fun m => a * m + b), up.map (fun m => a * m + b))) ∧
      (a ≤ 0 → (s.affine a b).computeCi p
        = .ok (up.map (fun m => a * m + b), lo.map (fun m => a * m + b)))) := by
  refine ⟨stat_affine s hwf hN a b mean mean _ (fun xs hne => mean_map_affine xs hne a b),
    stat_affine s hwf hN a b variance variance _ (fun xs _ => variance_map_affine xs a b), ?_, ?_⟩
  · apply stat_affine s hwf hN a b median median
    intro xs hne
    rcases le_total 0 a with ha | ha
    · exact (percentile_affine_nonneg xs hne a b ha).2
    · exact (percentile_affine_nonpos xs hne a b ha).2.1
  · intro p lo up h0 h100 hci
    unfold Samples.computeCi at hci ⊢
    rw [ciLevels_ok p h0 h100] at hci ⊢
    have hci' : (s.stat (percentile · ((100 - p) / 2)), s.stat (percentile · (100 - (100 - p) / 2))) = (lo, up) :=
      Except.ok.inj hci
    obtain ⟨rfl, rfl⟩ := Prod.mk.inj hci'
    constructor
    · intro ha
      show Except.ok _ = Except.ok _
      rw [stat_affine s hwf hN a b (percentile · ((100 - p) / 2)) (percentile · ((100 - p) / 2)) (fun m => a * m + b)
          (fun xs hne => (percentile_affine_nonneg xs hne a b ha).1 _ (by linarith) (by linarith)),
        stat_affine s hwf hN a b (percentile · (100 - (100 - p) / 2)) (percentile · (100 - (100 - p) / 2)) (fun m => a * m + b)
          (fun xs hne => (percentile_affine_nonneg xs hne a b ha).1 _ (by linarith) (by linarith))]
    · intro ha
      show Except.ok _ = Except.ok _
      have hg1 : ∀ xs : List ℚ, xs ≠ [] →
          percentile (xs.map (fun x => a * x + b)) ((100 - p) / 2)
            = a * percentile xs (100 - (100 - p) / 2) + b :=
        fun xs hne => ((percentile_affine_nonpos xs hne a b ha).2.2 p h0 h100).1
      have hg2 : ∀ xs : List ℚ, xs ≠ [] →
          percentile (xs.map (fun x => a * x + b)) (100 - (100 - p) / 2)
            = a * percentile xs ((100 - p) / 2) + b :=
        fun xs hne => ((percentile_affine_nonpos xs hne a b ha).2.2 p h0 h100).2
      rw [stat_affine s hwf hN a b (percentile · ((100 - p) / 2)) (percentile · (100 - (100 - p) / 2))
          (fun m => a * m + b) hg1,
        stat_affine s hwf hN a b (percentile · (100 - (100 - p) / 2)) (percentile · ((100 - p) / 2))
          (fun m => a * m + b) hg2]

example : (exS.affine (-2) 5).stat mean = (exS.stat mean).map (fun m => -2 * m + 5) :=
  (samples_affine_equivariant exS (by decide) (by decide) (-2) 5).1

/-- the driver's affine mapped geometry really produces `Samples.affine`: `funvals` of parameter
    samples under a geometry whose `par2fun` is `Conv.affine a b` stores `a·x + b` entrywise. -/
theorem funvals_affine_geometry (s : Samples) (a b : ℚ) (hp : s.isPar = true)
    (hg : s.geom.par2fun = (Conv.affine a b).apply) :
    ∃ f, s.funvals = .ok f ∧ f.cols = (s.affine a b).cols := by
  have hm : ∀ cols : List (List ℚ), mapE (Conv.affine a b).apply cols
      = .ok (cols.map (fun c => c.map (fun x => a * x + b))) := by
    intro cols
    rw [mapE_ok_iff_map]
    simp [Conv.apply, Function.comp_def]
  unfold Samples.funvals
  simp only [hp, Bool.not_true, Bool.false_and, Bool.false_eq_true, if_false, if_true, hg]
  rw [hm]
  exact ⟨_, rfl, rfl⟩

example : ∃ f, ({ exS with geom := { exGeom with par2fun := (Conv.affine 2 1).apply } } : Samples).funvals = .ok f
    ∧ f.cols = (exS.affine 2 1).cols :=
  funvals_affine_geometry _ 2 1 rfl rfl

/-! ## 3. thinning and statistics -/

/-- **The thinned chain is the chain read at the index set `{b + i·t : i < ⌈(N−b)/t⌉}`**: after
    `burnthin(b, t)` (`t ≥ 1`) the chain of every coordinate `k` is
    `[chain_k[b], chain_k[b+t], chain_k[b+2t], …]`, so *every* statistic of the thinned object is that
    statistic of this list, and in particular the mean is the mean over the index set
    (both as a list sum and as a `Finset` sum). -/
theorem burnthin_stat_index_set (s s' : Samples) (b t : ℕ) (ht : 1 ≤ t) (h : s.burnthin b t = .ok s') :
    b < s.Ns ∧ 0 < (s.Ns - b + t - 1) / t ∧
    (∀ k, s'.chain k = (List.range ((s.Ns - b + t - 1) / t)).map (fun i => (s.chain k).getD (b + i * t) 0)) ∧
    (∀ (f : List ℚ → ℚ), s'.stat f = (List.range s.dim).map (fun k =>
        f ((List.range ((s.Ns - b + t - 1) / t)).map (fun i => (s.chain k).getD (b + i * t) 0)))) ∧
    (∀ k, mean (s'.chain k)
        = (∑ i ∈ Finset.range ((s.Ns - b + t - 1) / t), (s.chain k).getD (b + i * t) 0)
            / (((s.Ns - b + t - 1) / t : ℕ) : ℚ)) := by
  have hb : b < s.Ns := by
    by_contra hb
    obtain ⟨e, he⟩ := (burnthin_refuses_iff s b t ht).mpr (by omega)
    rw [he] at h; cases h
  have hlen : ∀ k, (s.chain k).length = s.Ns := by intro k; simp [Samples.chain, Samples.Ns]
  have hchain : ∀ k, s'.chain k
      = (List.range ((s.Ns - b + t - 1) / t)).map (fun i => (s.chain k).getD (b + i * t) 0) := by
    intro k
    rw [burnthin_chain s s' b t ht h k, natSlice_eq_map_range _ b t ht 0, hlen]
  have hdim : s'.dim = s.dim := by
    have := (burnthin_flags_preserved s s' b t h).2.2.2
    unfold Samples.dim; rw [this]
  refine ⟨hb, ?_, hchain, ?_, ?_⟩
  · have : 0 * t < s.Ns - b := by omega
    exact (lt_ceilDiv_iff _ _ 0 ht).mpr this
  · intro f
    unfold Samples.stat
    rw [hdim]
    apply List.map_congr_left
    intro k _
    rw [hchain k]
  · intro k
    rw [hchain k]
    unfold mean
    rw [list_sum_map_range_eq_finset]
    simp

example : ∃ s', exS.burnthin 1 2 = .ok s' ∧
    mean (s'.chain 1) = (∑ i ∈ Finset.range 2, (exS.chain 1).getD (1 + i * 2) 0) / 2 := by
  obtain ⟨s', hs'⟩ : ∃ s', exS.burnthin 1 2 = .ok s' := ⟨_, burnthin_ok exS 1 2 (by norm_num) (by decide)⟩
  exact ⟨s', hs', by simpa [Samples.Ns, exS] using (burnthin_stat_index_set exS s' 1 2 (by norm_num) hs').2.2.2.2 1⟩

/-- **Thinning a JointSamples object, then statistics**: member `j` of the result has the key of
    member `j` of the source and is that member's own `burnthin(b, t)`; its chains are the member's
    chains read at `{b + i·t}` (the index set is computed from *that member's* `Ns`), and its mean is
    the mean over that index set. -/
theorem joint_burnthin_stat_index_set (js js' : List (String × Samples)) (b t : ℕ) (ht : 1 ≤ t)
    (h : jointBurnthin js b t = .ok js') (j : ℕ) (key : String) (s : Samples) (hj : js[j]? = some (key, s)) :
    ∃ s', js'[j]? = some (key, s') ∧ s.burnthin b t = .ok s' ∧
      (∀ k, s'.chain k = (List.range ((s.Ns - b + t - 1) / t)).map (fun i => (s.chain k).getD (b + i * t) 0)) ∧
      (∀ k, mean (s'.chain k)
        = (∑ i ∈ Finset.range ((s.Ns - b + t - 1) / t), (s.chain k).getD (b + i * t) 0)
            / (((s.Ns - b + t - 1) / t : ℕ) : ℚ)) := by
  have hf := (joint_is_memberwise js js' b t).mp h
  obtain ⟨kv', hkv', hkey, hbt⟩ := forall₂_getElem? hf j (key, s) hj
  obtain ⟨key', s'⟩ := kv'
  simp only at hkey hbt
  subst hkey
  obtain ⟨-, -, hc, -, hm⟩ := burnthin_stat_index_set s s' b t ht hbt
  exact ⟨s', hkv', hbt, hc, hm⟩

lemma exJoint_ok : ∃ s', exS.burnthin 1 2 = .ok s' ∧
    jointBurnthin [("x", exS), ("y", exS)] 1 2 = .ok [("x", s'), ("y", s')] := by
  obtain ⟨s', hs'⟩ : ∃ s', exS.burnthin 1 2 = .ok s' := ⟨_, burnthin_ok exS 1 2 (by norm_num) (by decide)⟩
  exact ⟨s', hs', (joint_is_memberwise _ _ _ _).mpr
    (List.Forall₂.cons ⟨rfl, hs'⟩ (List.Forall₂.cons ⟨rfl, hs'⟩ List.Forall₂.nil))⟩

example : ∃ s', exS.burnthin 1 2 = .ok s' ∧
    mean (s'.chain 0) = (∑ i ∈ Finset.range ((exS.Ns - 1 + 2 - 1) / 2), (exS.chain 0).getD (1 + i * 2) 0)
            / (((exS.Ns - 1 + 2 - 1) / 2 : ℕ) : ℚ) := by
  obtain ⟨s', hs', hj⟩ := exJoint_ok
  obtain ⟨s'', -, h2, -, h4⟩ := joint_burnthin_stat_index_set _ _ 1 2 (by norm_num) hj 1 "y" exS rfl
  exact ⟨s'', h2, h4 0⟩

/-- **Composition of thinnings on a JointSamples object** (refusals included): thinning a thinned
    joint object is one joint thinning with burn-in `b₁ + b₂·t₁` and step `t₁·t₂`. -/
theorem joint_burnthin_compose (js js₁ : List (String × Samples)) (b₁ t₁ b₂ t₂ : ℕ) (h₁ : 1 ≤ t₁)
    (h₂ : 1 ≤ t₂) (h : jointBurnthin js b₁ t₁ = .ok js₁) :
    jointBurnthin js₁ b₂ t₂ = jointBurnthin js ((b₁ + b₂ * t₁ : ℕ) : ℤ) ((t₁ * t₂ : ℕ) : ℤ) := by
  have hf := (joint_is_memberwise js js₁ b₁ t₁).mp h
  clear h
  unfold jointBurnthin
  induction hf with
  | nil => rfl
  | @cons kv kv₁ l l₁ hhead _ ih =>
    obtain ⟨hkey, hb⟩ := hhead
    have hc := burnthin_compose kv.2 kv₁.2 b₁ t₁ b₂ t₂ h₁ h₂ hb
    simp only [mapE]
    rw [ih, hc, hkey]

example : ∃ js₁, jointBurnthin [("x", exS), ("y", exS)] 1 2 = .ok js₁ ∧
    jointBurnthin js₁ 1 1 = jointBurnthin [("x", exS), ("y", exS)] ((1 + 1 * 2 : ℕ) : ℤ) ((2 * 1 : ℕ) : ℤ) := by
  obtain ⟨s', -, hj⟩ := exJoint_ok
  exact ⟨_, hj, joint_burnthin_compose _ _ 1 2 1 1 (by norm_num) (by norm_num) hj⟩

/-! ## 4. ESS / R-hat plumbing at full strength -/


/-- **defaultNames_nodup**: the default variable names of a geometry
    (`[name + str(i) for i in range(n)]`, or `[name]` for `n = 1`; `name = "v"` unless the geometry
    sets `_variable_name`) are pairwise distinct, for every `n` and every prefix — decimal
    representation of naturals is injective (`Nat.repr_injective`). -/
theorem defaultNames_nodup (name : String) (n : ℕ) :
    (defaultNames name n).Nodup ∧ (defaultNames name n).length = n := by
  refine ⟨?_, defaultNames_length name n⟩
  unfold defaultNames
  split
  · exact List.nodup_singleton _
  · exact List.nodup_range.map (fun i j h => name_append_inj name i j h)

example : defaultNames "v" 3 = ["v0", "v1", "v2"] ∧ defaultNames "v" 1 = ["v"] := by decide

/-- **`dict(zip(names, rows))` keeps every pair in order *iff* the names are distinct** (at least as
    many rows as names).  `dictOfZip_nodup` is the `←` direction. -/
theorem dictOfZip_eq_zip_iff {β : Type} (ks : List String) (vs : List β) (hl : ks.length ≤ vs.length) :
    dictOfZip ks vs = ks.zip vs ↔ ks.Nodup := by
  constructor
  · intro h
    have := dictOfZip_keys_nodup ks vs
    rw [h, List.map_fst_zip hl] at this
    exact this
  · exact dictOfZip_nodup ks vs

example : dictOfZip ["a", "b"] [1, 2] = [("a", 1), ("b", 2)] :=
  (dictOfZip_eq_zip_iff ["a", "b"] [1, 2] (by simp)).mpr (by decide)

/-- **ESS, exact characterisation** (vector-form samples whose array has as many rows as the
    geometry dimension in the current representation): `compute_ess` hands arviz the items
    `(name k, chain of coordinate k)`, `k = 0 … dim−1`, in order — each variable's chain, unpermuted —
    *if and only if* there are at least `dim` names and the first `dim` names are pairwise
    distinct.  (Too few names ⇒ `IndexError`; a repeated name ⇒ an item is lost: findings 1.) -/
theorem essInput_each_variable_iff (s : Samples) (hv : s.isVec = true) (hd : s.geometryDim = s.dim) :
    s.essInput = .ok ((List.range s.dim).map (fun k => (s.geom.varNames.getD k "", s.chain k)))
      ↔ s.dim ≤ s.geom.varNames.length ∧ (s.geom.varNames.take s.dim).Nodup := by
  unfold Samples.essInput Samples.toArviz
  simp only [hv, Bool.not_true, Bool.false_eq_true, if_false, Option.getD_none, hd]
  by_cases hlen : s.dim ≤ s.geom.varNames.length
  · have h1 : (List.range s.dim).any (fun i => decide (i ≥ s.geom.varNames.length)) = false := by
      rw [List.any_eq_false]; intro i hi; rw [List.mem_range] at hi; simp; omega
    have h2 : (List.range s.dim).any (fun i => decide (i ≥ s.dim)) = false := by
      rw [List.any_eq_false]; intro i hi; rw [List.mem_range] at hi; simp; omega
    rw [h1, h2]
    simp only [Bool.false_eq_true, if_false, hlen, true_and]
    have hz : (List.range s.dim).map (fun k => (s.geom.varNames.getD k "", s.chain k))
        = ((List.range s.dim).map (fun i => s.geom.varNames.getD i "")).zip ((List.range s.dim).map s.chain) := by
      rw [List.zip_map']
    rw [hz, ← range_map_getD_eq_take _ _ hlen]
    constructor
    · intro h
      exact (dictOfZip_eq_zip_iff _ _ (by simp)).mp (Except.ok.inj h)
    · intro h
      rw [(dictOfZip_eq_zip_iff _ _ (by simp)).mpr h]
  · have h1 : (List.range s.dim).any (fun i => decide (i ≥ s.geom.varNames.length)) = true := by
      rw [List.any_eq_true]
      exact ⟨s.geom.varNames.length, List.mem_range.mpr (by omega), by simp⟩
    rw [h1]
    simp only [if_true, hlen, false_and, iff_false]
    intro h; cases h

/-- the characterisation decides the known finding: `exDup` (`Discrete(['a','a','b'])`) does *not*
    deliver each variable's chain, `exS` does -/
example : ¬ (exDup.essInput = .ok ((List.range exDup.dim).map (fun k => (exDup.geom.varNames.getD k "", exDup.chain k)))) := by
  rw [essInput_each_variable_iff exDup rfl (by decide)]
  decide

/-- **ESS with default variable names (no `_partial`)**: for *every* geometry whose variable names
    are the defaults (`defaultNames name par_dim`, every shipped geometry unless the user passed a
    list of names), vector-form samples with `geometryDim = dim ≤ par_dim` rows: item `k` handed to
    `arviz.ess` is `(name k, chain of coordinate k)` — no distinctness hypothesis is needed. -/
theorem essInput_each_variable (s : Samples) (name : String) (hv : s.isVec = true)
    (hnames : s.geom.varNames = defaultNames name s.geom.parDim)
    (hd : s.geometryDim = s.dim) (hlen : s.dim ≤ s.geom.parDim) :
    s.essInput = .ok ((List.range s.dim).map (fun k => (s.geom.varNames.getD k "", s.chain k))) := by
  rw [essInput_each_variable_iff s hv hd, hnames]
  exact ⟨by rw [(defaultNames_nodup _ _).2]; exact hlen,
    (defaultNames_nodup _ _).1.sublist (List.take_sublist _ _)⟩

example : exS.essInput = .ok [("v0", [0, 1, 2, 3, 4]), ("v1", [10, 11, 12, 13, 14])] := by
  have := essInput_each_variable exS "v" rfl (by decide) (by decide) (by decide)
  rw [this]; decide

/-- **R-hat, exact characterisation** (the call's own preconditions hold: same geometry tag, 1-D
    coordinate shape, equal shapes and lengths; as many rows as the geometry dimension): the
    dictionary handed to `arviz.rhat` is `(name k, [chain k of self, chain k of every other object])`,
    `k = 0 … dim−1`, in order, and entry `k` of the result is written from item `k`, *if and only if*
    there are at least `dim` names and the first `dim` of them are pairwise distinct. -/
theorem rhatInput_each_variable_iff (s : Samples) (chains : List Samples)
    (hgeom : ∀ c ∈ chains, c.geom.tag = s.geom.tag) (hsh : s.shape.length = 1)
    (hch : ∀ c ∈ chains, c.shape = s.shape ∧ c.Ns = s.Ns) (hd : s.geometryDim = s.dim) :
    s.rhatInput chains = .ok
      ((List.range s.dim).map (fun k => (s.geom.varNames.getD k "", s.chain k :: chains.map (fun c => c.chain k))),
       (List.range s.dim).map some)
      ↔ s.dim ≤ s.geom.varNames.length ∧ (s.geom.varNames.take s.dim).Nodup := by
  unfold Samples.rhatInput
  have h1 : chains.any (fun c => c.geom.tag != s.geom.tag) = false := by
    rw [List.any_eq_false]; intro c hc; simp [hgeom c hc]
  have h2 : (s.shape.length != 1) = false := by simp [hsh]
  have h3 : chains.any (fun c => c.shape != s.shape || c.Ns != s.Ns) = false := by
    rw [List.any_eq_false]; intro c hc; simp [(hch c hc).1, (hch c hc).2]
  simp only [h1, h2, h3, Bool.false_eq_true, if_false, hd]
  set rows := (List.range s.dim).map (fun k => s.chain k :: chains.map (fun c => c.chain k)) with hrows
  have hrl : rows.length = s.dim := by simp [hrows]
  have hexp : ∀ (_ : s.dim ≤ s.geom.varNames.length),
      (List.range s.dim).map (fun k => (s.geom.varNames.getD k "", s.chain k :: chains.map (fun c => c.chain k)))
        = (s.geom.varNames.take s.dim).zip rows := by
    intro hlen
    rw [← range_map_getD_eq_take _ _ hlen, hrows, List.zip_map']
  have htake : dictOfZip s.geom.varNames rows = dictOfZip (s.geom.varNames.take s.dim) rows := by
    rw [dictOfZip_take, hrl]
  constructor
  · intro h
    split at h
    · cases h
    · have hdict := (Prod.mk.inj (Except.ok.inj h)).1
      have hlen : s.dim ≤ s.geom.varNames.length := by
        have := dictOfZip_length_le s.geom.varNames rows
        rw [hdict] at this
        simpa using this
      refine ⟨hlen, ?_⟩
      rw [hexp hlen, htake] at hdict
      exact (dictOfZip_eq_zip_iff _ _ (by simp [hrl, hlen])).mp hdict
  · rintro ⟨hlen, hnd⟩
    have hdict : dictOfZip s.geom.varNames rows = (s.geom.varNames.take s.dim).zip rows := by
      rw [htake]
      exact (dictOfZip_eq_zip_iff _ _ (by simp [hrl, hlen])).mpr hnd
    rw [hdict, hexp hlen]
    have hl : ((s.geom.varNames.take s.dim).zip rows).length = s.dim := by simp [hrl, hlen]
    simp only [hl, lt_irrefl, if_false]
    congr 2
    apply List.map_congr_left
    intro i hi
    rw [List.mem_range] at hi
    simp [hi]

example : ¬ (exDup.rhatInput [exDup] = .ok
      ((List.range exDup.dim).map (fun k => (exDup.geom.varNames.getD k "", exDup.chain k :: [exDup].map (fun c => c.chain k))),
       (List.range exDup.dim).map some)) := by
  rw [rhatInput_each_variable_iff exDup [exDup] (by simp) (by decide) (by simp) (by decide)]
  decide

/-- **R-hat with default variable names (no `_partial`)**: for every geometry with default names,
    `par_dim` rows (parameter samples, or function values of a geometry with
    `funvec_dim = par_dim`): item `k` is (name `k`, the chains of coordinate `k`, `self` first) and
    entry `k` of the returned array is written from item `k`. -/
theorem rhatInput_each_variable (s : Samples) (chains : List Samples) (name : String)
    (hgeom : ∀ c ∈ chains, c.geom.tag = s.geom.tag) (hsh : s.shape.length = 1)
    (hch : ∀ c ∈ chains, c.shape = s.shape ∧ c.Ns = s.Ns)
    (hnames : s.geom.varNames = defaultNames name s.geom.parDim)
    (hd : s.geometryDim = s.dim) (hlen : s.dim ≤ s.geom.parDim) :
    s.rhatInput chains = .ok
      ((List.range s.dim).map (fun k => (s.geom.varNames.getD k "", s.chain k :: chains.map (fun c => c.chain k))),
       (List.range s.dim).map some) := by
  rw [rhatInput_each_variable_iff s chains hgeom hsh hch hd, hnames]
  exact ⟨by rw [(defaultNames_nodup _ _).2]; exact hlen,
    (defaultNames_nodup _ _).1.sublist (List.take_sublist _ _)⟩

example : ∃ d, exS.rhatInput [exS] = .ok (d, [some 0, some 1]) :=
  ⟨_, rhatInput_each_variable exS [exS] "v" (by simp) (by decide) (by simp) rfl (by decide) (by decide)⟩

/-- **Parameter samples under any geometry with default names**: `is_par`, vector form, the array
    has `par_dim` rows.  Both `compute_ess` and `compute_rhat` (given the latter's own preconditions)
    hand every variable's chain(s) to arviz under its own name, in order — unconditionally in the
    names. -/
theorem ess_rhat_parameters_default_names (s : Samples) (chains : List Samples) (name : String)
    (hp : s.isPar = true) (hv : s.isVec = true) (hdim : s.dim = s.geom.parDim)
    (hnames : s.geom.varNames = defaultNames name s.geom.parDim)
    (hgeom : ∀ c ∈ chains, c.geom.tag = s.geom.tag) (hsh : s.shape.length = 1)
    (hch : ∀ c ∈ chains, c.shape = s.shape ∧ c.Ns = s.Ns) :
    s.essInput = .ok ((List.range s.dim).map (fun k => (s.geom.varNames.getD k "", s.chain k))) ∧
    s.rhatInput chains = .ok
      ((List.range s.dim).map (fun k => (s.geom.varNames.getD k "", s.chain k :: chains.map (fun c => c.chain k))),
       (List.range s.dim).map some) := by
  have hd : s.geometryDim = s.dim := by unfold Samples.geometryDim; rw [if_pos hp, hdim]
  exact ⟨essInput_each_variable s name hv hnames hd (le_of_eq hdim),
    rhatInput_each_variable s chains name hgeom hsh hch hnames hd (le_of_eq hdim)⟩

example : exS.isPar = true ∧ exS.dim = exS.geom.parDim ∧ exS.geom.varNames = defaultNames "v" exS.geom.parDim := by
  decide

/-! ## 5. outside the property's domain: what the code returns for negative burn-in / thinning /
      credibility levels (pinned, not endorsed) -/

/-- `burnthin(Nb, 0)`: `ValueError` for every `Nb` (either `Nb ≥ Ns`, or "slice step cannot be zero"). -/
theorem burnthin_zero_step (s : Samples) (b : ℤ) : s.burnthin b 0 = .error "ValueError" := by
  unfold Samples.burnthin
  split
  · rfl
  · have : pySlice s.cols b 0 = none := by unfold pySlice sliceIdx; simp
    rw [this]

example : exS.burnthin 2 0 = .error "ValueError" := burnthin_zero_step exS 2

/-- **Negative burn-in** `burnthin(-m, t)`, `m ≥ 1`, `t ≥ 1`: the `Nb ≥ Ns` guard never fires; Python
    slicing starts at `max(Ns − m, 0)`: the result holds stored samples `Ns−m, Ns−m+t, …` —
    `⌈min(m, Ns)/t⌉` of them; with `t = 1` these are the last `min(m, Ns)` samples (`burnthin(-2)` keeps
    the last two).  Never a refusal, even on an empty object. -/
theorem burnthin_negative_burn (s : Samples) (m t : ℕ) (hm : 1 ≤ m) (ht : 1 ≤ t) :
    s.burnthin (-(m : ℤ)) t = .ok { s with cols := natSlice s.cols (s.Ns - m) t } ∧
    (natSlice s.cols (s.Ns - m) t).length = (min m s.Ns + t - 1) / t ∧
    (∀ i, (natSlice s.cols (s.Ns - m) t)[i]? = s.cols[s.Ns - m + i * t]?) ∧
    natSlice s.cols (s.Ns - m) 1 = s.cols.drop (s.Ns - m) := by
  refine ⟨?_, ?_, fun i => natSlice_getElem? _ _ _ ht i, ?_⟩
  · unfold Samples.burnthin
    have : ¬ (-(m : ℤ) ≥ (s.Ns : ℤ)) := by omega
    rw [if_neg this, pySlice_negstart _ _ _ hm ht]
    rfl
  · rw [natSlice_length _ _ _ ht]
    unfold Samples.Ns
    congr 2
    omega
  · apply List.ext_getElem?
    intro i
    rw [natSlice_getElem? _ _ _ (le_refl 1), List.getElem?_drop, Nat.mul_one]

example : ∃ s', exS.burnthin (-2) 1 = .ok s' ∧ s'.cols = [[3, 13], [4, 14]] :=
  ⟨_, (burnthin_negative_burn exS 2 1 (by norm_num) (by norm_num)).1, by decide⟩

/-- **Negative thinning with a non-negative burn-in** `burnthin(b, -u)`, `b ≥ 0`, `u ≥ 1`: refused iff
    `b ≥ Ns` (the guard); otherwise the chain is walked *backwards* from sample `b`:
    `[cols[b], cols[b−u], cols[b−2u], …]`, `⌊b/u⌋ + 1` samples (so `burnthin(0, -1)` keeps sample 0 only). -/
theorem burnthin_negative_step (s : Samples) (b u : ℕ) (hu : 1 ≤ u) :
    s.burnthin (b : ℤ) (-(u : ℤ)) =
      if s.Ns ≤ b then .error "ValueError"
      else .ok { s with cols := (List.range (b / u + 1)).map (fun i => s.cols.getD (b - i * u) []) } := by
  by_cases hb : s.Ns ≤ b
  · rw [if_pos hb]
    exact burnthin_error_of_ge s _ _ (by omega)
  · rw [if_neg hb]
    unfold Samples.burnthin
    have h1 : ¬ ((b : ℤ) ≥ (s.Ns : ℤ)) := by omega
    have hne : s.cols ≠ [] := by
      intro h; unfold Samples.Ns at hb; rw [h] at hb; simp at hb
    have hmin : min b (s.cols.length - 1) = b := by unfold Samples.Ns at hb; omega
    rw [if_neg h1, pySlice_negstep s.cols [] b u hu, if_neg hne, hmin]

example : ∃ s', exS.burnthin 3 (-2) = .ok s' ∧ s'.cols = [[3, 13], [1, 11]] := by
  refine ⟨_, by rw [show ((3 : ℤ) = ((3 : ℕ) : ℤ)) from rfl, show ((-2 : ℤ) = -((2 : ℕ) : ℤ)) from rfl,
    burnthin_negative_step exS 3 2 (by norm_num)]; rfl, by decide⟩

/-- **Negative burn-in and negative thinning** `burnthin(-m, -u)`, `m, u ≥ 1`: never refused; empty
    if `m > Ns`, otherwise walk backwards from sample `Ns − m`.  In particular `burnthin(-1, -1)`
    returns the whole chain *reversed*. -/
theorem burnthin_negative_burn_negative_step (s : Samples) (m u : ℕ) (hm : 1 ≤ m) (hu : 1 ≤ u) :
    s.burnthin (-(m : ℤ)) (-(u : ℤ)) = .ok { s with cols :=
      (if s.Ns < m then []
       else (List.range ((s.Ns - m) / u + 1)).map (fun i => s.cols.getD (s.Ns - m - i * u) [])) } ∧
    s.burnthin (-1) (-1) = .ok { s with cols := s.cols.reverse } := by
  have key : ∀ (m u : ℕ), 1 ≤ m → 1 ≤ u → s.burnthin (-(m : ℤ)) (-(u : ℤ)) = .ok { s with cols :=
      (if s.Ns < m then []
       else (List.range ((s.Ns - m) / u + 1)).map (fun i => s.cols.getD (s.Ns - m - i * u) [])) } := by
    intro m u hm hu
    unfold Samples.burnthin
    have h1 : ¬ (-(m : ℤ) ≥ (s.Ns : ℤ)) := by omega
    rw [if_neg h1, pySlice_negstart_negstep s.cols [] m u hm hu]
    unfold Samples.Ns
    by_cases hlt : s.cols.length < m
    · simp only [hlt, if_true]
    · simp only [hlt, if_false]
  refine ⟨key m u hm hu, ?_⟩
  have := key 1 1 (le_refl 1) (le_refl 1)
  rw [show (-(1 : ℤ) = -((1 : ℕ) : ℤ)) from rfl, this]
  congr 2
  by_cases h0 : s.Ns < 1
  · have : s.cols = [] := by
      unfold Samples.Ns at h0
      exact List.length_eq_zero_iff.mp (by omega)
    rw [if_pos h0, this]; rfl
  · rw [if_neg h0]
    unfold Samples.Ns at h0 ⊢
    have e : (s.cols.length - 1) / 1 + 1 = s.cols.length := by rw [Nat.div_one]; omega
    rw [e]
    simp only [Nat.mul_one]
    exact map_range_getD_reverse s.cols []

example : ∃ s', exS.burnthin (-1) (-1) = .ok s' ∧ s'.cols = [[4, 14], [3, 13], [2, 12], [1, 11], [0, 10]] :=
  ⟨_, (burnthin_negative_burn_negative_step exS 1 1 (le_refl 1) (le_refl 1)).2, by decide⟩

/-- **`compute_ci(-p)` is `compute_ci(p)` with the two percentile levels swapped** — for every `p`
    (refusals included: both refuse iff `|p| > 100`). -/
theorem ciLevels_neg (p : ℚ) : ciLevels (-p) = (ciLevels p).map Prod.swap := by
  unfold ciLevels
  have e1 : (100 - -p) / 2 = 100 - (100 - p) / 2 := by ring
  have e2 : 100 - (100 - (100 - p) / 2) = (100 - p) / 2 := by ring
  simp only [e1, e2]
  by_cases h : 0 ≤ (100 - p) / 2 ∧ (100 - p) / 2 ≤ 100 ∧ 0 ≤ 100 - (100 - p) / 2 ∧ 100 - (100 - p) / 2 ≤ 100
  · have h' : 0 ≤ 100 - (100 - p) / 2 ∧ 100 - (100 - p) / 2 ≤ 100 ∧ 0 ≤ (100 - p) / 2 ∧ (100 - p) / 2 ≤ 100 :=
      ⟨h.2.2.1, h.2.2.2, h.1, h.2.1⟩
    rw [if_pos h, if_pos h']; rfl
  · have h' : ¬ (0 ≤ 100 - (100 - p) / 2 ∧ 100 - (100 - p) / 2 ≤ 100 ∧ 0 ≤ (100 - p) / 2 ∧ (100 - p) / 2 ≤ 100) :=
      fun h' => h ⟨h'.2.2.1, h'.2.2.2, h'.1, h'.2.1⟩
    rw [if_neg h, if_neg h']; rfl

example : ciLevels (-95) = .ok (195 / 2, 5 / 2) := by
  rw [ciLevels_neg, ciLevels_ok 95 (by norm_num) (by norm_num)]
  show Except.ok _ = Except.ok _
  norm_num [Prod.swap]

/-- **Negative credibility level on a Samples object**: `compute_ci(-p)` returns the pair of
    `compute_ci(p)` *swapped* (first component = the upper bounds), and `ci_width(-p) = −ci_width(p)`
    entrywise — for every `p`, refusals included. -/
theorem computeCi_neg_level (s : Samples) (p : ℚ) :
    s.computeCi (-p) = (s.computeCi p).map Prod.swap ∧
    s.ciWidth (-p) = (s.ciWidth p).map (List.map (fun x => -x)) := by
  have h1 : s.computeCi (-p) = (s.computeCi p).map Prod.swap := by
    unfold Samples.computeCi
    rw [ciLevels_neg]
    cases ciLevels p with
    | error e => rfl
    | ok lu => rfl
  refine ⟨h1, ?_⟩
  unfold Samples.ciWidth
  rw [h1]
  cases s.computeCi p with
  | error e => rfl
  | ok lu =>
    obtain ⟨lo, up⟩ := lu
    show Except.ok _ = Except.ok _
    rw [zipWith_sub_swap]

example : exS.ciWidth (-95) = (exS.ciWidth 95).map (List.map (fun x => -x)) := (computeCi_neg_level exS 95).2

/-- **A level in `[-100, 0)` is accepted and yields "lower" ≥ "upper"**: for `p ∈ [0, 100]` the call
    `compute_ci(-p)` succeeds, its first component (documented as the lower bounds) is the *upper*
    bounds of `compute_ci(p)` and its second component the lower bounds; so at every coordinate
    returned-lower ≥ returned-upper, and `ci_width(-p) ≤ 0`. -/
theorem computeCi_negative_level_inverts (s : Samples) (hN : s.cols ≠ []) (p : ℚ) (h0 : 0 ≤ p) (h100 : p ≤ 100) :
    ∃ lo up w, s.computeCi p = .ok (lo, up) ∧ s.computeCi (-p) = .ok (up, lo) ∧
      s.ciWidth (-p) = .ok w ∧
      ∀ k, k < s.dim → ∃ l u, lo[k]? = some l ∧ up[k]? = some u ∧ l ≤ u ∧ w[k]? = some (l - u) ∧ l - u ≤ 0 := by
  obtain ⟨lo, up, w, hci, hw, -, -, hk⟩ := computeCi_spec s hN p h0 h100
  refine ⟨lo, up, w.map (fun x => -x), hci, ?_, ?_, ?_⟩
  · rw [(computeCi_neg_level s p).1, hci]; rfl
  · rw [(computeCi_neg_level s p).2, hw]; rfl
  · intro k hkd
    obtain ⟨l, m, u, h1, -, h3, h4, h5, h6, h7⟩ := hk k hkd
    refine ⟨l, u, h1, h3, by linarith, ?_, by linarith⟩
    rw [List.getElem?_map, h6]
    simp

example : ∃ lo up, exS.computeCi 95 = .ok (lo, up) ∧ exS.computeCi (-95) = .ok (up, lo) :=
  let ⟨lo, up, _, h1, h2, _⟩ := computeCi_negative_level_inverts exS (by decide) 95 (by norm_num) (by norm_num)
  ⟨lo, up, h1, h2⟩

/-!
## What is still open (kept visible, not stated as theorems)

* `defaultNames "v" n = Driver.defaultVars n` is a textual identity (the driver is not imported by
  theorem files); that the *shipped* geometries use exactly these defaults is read off
  `cuqi/geometry/_geometry.py` l. 72-97 and tied by the differential check (item 5 of the tie), not proved.
* `samples_affine_equivariant` assumes a well-formed array (`∀ c ∈ cols, c.length = dim`): the model
  pads missing entries with `0` (`getD k 0`), which an affine map with `b ≠ 0` does not preserve.
* Percentile levels outside `[0, 100]` are refused by the code (`ciLevels`); the order-statistic
  characterisation is stated for `q ∈ [0, 100]` only.  Floating-point rounding of numpy's
  `lerp` is outside the exact-arithmetic model (validated at 1e-11 by the tie).
* ESS / R-hat for *function-value* samples with `funvec_dim > par_dim` (finding 3) have more rows
  than names (`dim ≤ #names` fails); `essInput_each_variable_iff` / `rhatInput_each_variable_iff` then
  say that the expected dictionary is *not* produced (`IndexError`, resp. a truncated dictionary).
-/

end CuqiVerif.C19
