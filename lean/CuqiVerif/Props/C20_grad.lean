import CuqiVerif.Proofs.C20_eval
import Mathlib.Analysis.Calculus.Deriv.Pow
import Mathlib.Analysis.Calculus.Deriv.Add
import Mathlib.Analysis.Calculus.Deriv.Mul

/-!
# C20 — the Gaussian gradient is the derivative of the Gaussian log-density (`Model/C20_eval.lean`)
-/
open Finset

namespace CuqiVerif.C20

/-- `D (d + t h) = D d + t · D h` -/
lemma apply_line (D : FMat) (d h : ℕ → ℝ) (t : ℝ) (k : ℕ) :
    apply D (fun j => d j + t * h j) k = apply D d k + t * apply D h k := by
  unfold apply
  rw [Finset.mul_sum, ← Finset.sum_add_distrib]
  exact Finset.sum_congr rfl fun j _ => by ring

/-- **`GMRF._gradient` is the derivative of `GMRF.logpdf` along every direction:** with the
    quadratic part `−½·prec·dᵀ(DᵀD)d` of `gmrfForm` (`d = x − mean`; rank and log-determinant terms do
    not depend on `x`), the derivative of `t ↦ −½·prec·q(d + t h)` at `t = 0` is
    `Σ_j g_j h_j` with `g_j = −prec·(DᵀD d)_j` — the real-number reading of `gmrfGrad`. -/
theorem gmrfGrad_hasDerivAt (D : FMat) (prec : ℝ) (d h : ℕ → ℝ) :
    HasDerivAt
      (fun t : ℝ => -(1 / 2) * (prec * ∑ i ∈ range D.cols,
          (d i + t * h i) * apply (gram D) (fun j => d j + t * h j) i))
      (∑ j ∈ range D.cols, (-(prec * apply (gram D) d j)) * h j) 0 := by
  have hq : ∀ t : ℝ, ∑ i ∈ range D.cols, (d i + t * h i) * apply (gram D) (fun j => d j + t * h j) i
      = ∑ k ∈ range D.rows, (apply D d k + t * apply D h k) ^ 2 := fun t => by
    rw [gram_quadratic_form D (fun j => d j + t * h j)]
    exact Finset.sum_congr rfl fun k _ => by rw [apply_line]
  have hg : ∑ j ∈ range D.cols, (-(prec * apply (gram D) d j)) * h j
      = -(1 / 2) * (prec * ∑ k ∈ range D.rows, 2 * (apply D d k + 0 * apply D h k) ^ (2 - 1) * (apply D h k)) := by
    simp only [gram_apply, zero_mul, add_zero, Nat.add_one_sub_one, pow_one]
    have : ∑ j ∈ range D.cols, (∑ k ∈ range D.rows, (D.e k j : ℝ) * apply D d k) * h j
        = ∑ k ∈ range D.rows, apply D d k * apply D h k := by
      simp only [Finset.sum_mul]
      rw [Finset.sum_comm]
      refine Finset.sum_congr rfl fun k _ => ?_
      unfold apply
      rw [Finset.mul_sum]
      exact Finset.sum_congr rfl fun j _ => by ring
    have h2 : ∑ j ∈ range D.cols, -(prec * ∑ k ∈ range D.rows, (D.e k j : ℝ) * apply D d k) * h j
        = -prec * ∑ j ∈ range D.cols, (∑ k ∈ range D.rows, (D.e k j : ℝ) * apply D d k) * h j := by
      rw [Finset.mul_sum]; exact Finset.sum_congr rfl fun j _ => by ring
    rw [h2, this]
    have h3 : ∑ k ∈ range D.rows, 2 * apply D d k * apply D h k
        = 2 * ∑ k ∈ range D.rows, apply D d k * apply D h k := by
      rw [Finset.mul_sum]; exact Finset.sum_congr rfl fun k _ => by ring
    rw [h3]; ring
  rw [hg]
  simp only [hq]
  refine HasDerivAt.const_mul _ (HasDerivAt.const_mul _ ?_)
  refine HasDerivAt.fun_sum fun k _ => ?_
  have := ((hasDerivAt_id (0 : ℝ)).mul_const (apply D h k)).const_add (apply D d k)
  have h2 := this.fun_pow 2
  simpa using h2

example (prec : ℝ) (d h : ℕ → ℝ) :
    HasDerivAt (fun t : ℝ => -(1 / 2) * (prec * ∑ i ∈ range (firstOrder .neumann 3).cols,
        (d i + t * h i) * apply (gram (firstOrder .neumann 3)) (fun j => d j + t * h j) i))
      (∑ j ∈ range (firstOrder .neumann 3).cols, (-(prec * apply (gram (firstOrder .neumann 3)) d j)) * h j) 0 :=
  gmrfGrad_hasDerivAt _ prec d h

end CuqiVerif.C20
