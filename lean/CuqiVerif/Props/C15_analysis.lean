import CuqiVerif.Props.C15
import CuqiVerif.Proofs.C15_analysis
import CuqiVerif.Props.C05_law
import Mathlib.LinearAlgebra.Matrix.PosDef
import Mathlib.Algebra.Order.Star.Real
import Mathlib.LinearAlgebra.Matrix.Rank
import Mathlib.LinearAlgebra.AffineSpace.AffineSubspace.Basic
import Mathlib.Analysis.Calculus.FDeriv.Basic
import Mathlib.Analysis.Calculus.Gradient.Basic
import Mathlib.Analysis.InnerProductSpace.PiL2
import Mathlib.Analysis.Convex.Function
import Mathlib.Order.Filter.Extr
import Mathlib.Tactic.Positivity

/-!
# C15 — analysis theorems (stretch): `Matrix.PosDef`, calculus, ML

The first pass (`Props/C15.lean`) proved the maximiser statements over an arbitrary ordered field
with explicit definiteness hypotheses and an algebraic "derivative".  Here the same objects —
`logPost`, `gradPost`, `curv` (Proofs/C15: the un-normalised Gaussian log-posterior, its gradient,
its curvature on Mathlib matrices), `mapDirect` (Model/C15: the executable transcription of
`BayesianProblem.MAP`, instantiated at `R = ℝ`; the driver runs the *same definition* at `R = ℚ`) —
are treated over `ℝ` with Mathlib's `Matrix.PosDef`, `HasFDerivAt`, `HasGradientAt`,
`StrictConcaveOn`, `IsMaxOn`:

1. covariances positive definite ⇒ `H = AᵀCe⁻¹A + Cx⁻¹` positive definite ⇒ invertible; the
   maximiser theorems with `PosDef`/`PosSemidef` hypotheses only;
2. `gradPost` *is* the gradient; strict concavity; unique critical point = information-form point =
   Tarantola point = what `mapDirect` returns = the global maximiser;
3. the direct sampler fed with a genuinely standard normal `ξ` (law `stdNormalVec` of `Props/C05_law`):
   the draw `x_map + L ξ` has law `N(x_map, L Lᵀ)`, mean `x_map`, covariance `L Lᵀ`; with `L Lᵀ = H⁻¹`
   the draws have exactly the posterior law;
4. ML: maximisers of the Gaussian likelihood = solutions of the weighted normal equations; unique
   weighted-least-squares point for full column rank; an affine subspace `x* + ker A` (non-unique)
   for rank-deficient `A`.

New notation (Proofs/C15_analysis): `precH A We Wx = AᵀWeA + Wx`, `rhsInfo = AᵀWe b + Wx x0`,
`infoPoint = H⁻¹ rhs`, `dotCLM g = (d ↦ d·g)`, `logLik`/`gradLik` (likelihood only),
`ofM` (a Mathlib matrix read as an entry function of the model).
-/
open Finset Matrix

set_option linter.unusedSectionVars false
set_option linter.unusedVariables false

namespace CuqiVerif.C15

/-! ## 1. positive definite covariances -/

section posdef
variable {m n : ℕ}

/-- **postPrec_posDef.**  "The covariances are positive definite" is all that is needed: then the
    precisions `Ce⁻¹`, `Cx⁻¹` are genuine two-sided inverses and positive definite, the posterior
    precision `H = AᵀCe⁻¹A + Cx⁻¹` (the matrix `_sampleMapCholesky` inverts and factorises) is
    positive definite, hence invertible, and so is the data-space matrix `A Cx Aᵀ + Ce` that `MAP`
    hands to `np.linalg.solve` (it is never exactly singular) — for every `A` of any rank. -/
theorem postPrec_posDef (A : Matrix (Fin m) (Fin n) ℝ) {Ce : Matrix (Fin m) (Fin m) ℝ}
    {Cx : Matrix (Fin n) (Fin n) ℝ} (hCe : Ce.PosDef) (hCx : Cx.PosDef) :
    (Ce⁻¹ * Ce = 1 ∧ Cx⁻¹ * Cx = 1 ∧ Ce⁻¹.PosDef ∧ Cx⁻¹.PosDef) ∧
    ((precH A Ce⁻¹ Cx⁻¹).PosDef ∧ IsUnit (precH A Ce⁻¹ Cx⁻¹) ∧
      (precH A Ce⁻¹ Cx⁻¹)⁻¹ * precH A Ce⁻¹ Cx⁻¹ = 1) ∧
    ((A * Cx * Aᵀ + Ce).PosDef ∧ IsUnit (A * Cx * Aᵀ + Ce)) := by
  have hH := precH_posDef A hCe.inv.posSemidef hCx.inv
  have hS := sysm_posDef A hCe hCx.posSemidef
  exact ⟨⟨posDef_inv_mul_self hCe, posDef_inv_mul_self hCx, hCe.inv, hCx.inv⟩,
    ⟨hH, hH.isUnit, posDef_inv_mul_self hH⟩, hS, hS.isUnit⟩

example : (!![2, 1; 1, 2] : Matrix (Fin 2) (Fin 2) ℝ).PosDef ∧ (1 : Matrix (Fin 3) (Fin 3) ℝ).PosDef :=
  ⟨posDef_example, Matrix.PosDef.one⟩

/-- **gaussian_post_maximiser_posDef** (`gaussian_post_maximiser` with Mathlib's definiteness).
    Noise precision `We ⪰ 0`, prior precision `Wx ≻ 0` (as `Matrix.PosSemidef` / `Matrix.PosDef`):
    a stationary point of the Gaussian log-posterior is its unique global maximiser.  Symmetry and
    the sign conditions of the first-pass theorem are discharged from the two hypotheses. -/
theorem gaussian_post_maximiser_posDef (A : Matrix (Fin m) (Fin n) ℝ) {We : Matrix (Fin m) (Fin m) ℝ}
    {Wx : Matrix (Fin n) (Fin n) ℝ} (hWe : We.PosSemidef) (hWx : Wx.PosDef)
    (x0 : Fin n → ℝ) (b : Fin m → ℝ) (xh : Fin n → ℝ) (hstat : gradPost A We Wx x0 b xh = 0) :
    (∀ x, logPost A We Wx x0 b x ≤ logPost A We Wx x0 b xh) ∧
    (∀ x, logPost A We Wx x0 b x = logPost A We Wx x0 b xh → x = xh) :=
  gaussian_post_maximiser A We Wx (posSemidef_transpose_eq hWe) (posDef_transpose_eq hWx)
    (posSemidef_quad_nonneg hWe) (fun d hd => posDef_quad_pos hWx d hd) x0 b xh hstat

example : (0 : Matrix (Fin 3) (Fin 3) ℝ).PosSemidef ∧ (!![2, 1; 1, 2] : Matrix (Fin 2) (Fin 2) ℝ).PosDef :=
  ⟨Matrix.PosSemidef.zero, posDef_example⟩

/-- **gaussian_post_stationary_of_max_posDef.**  Conversely, with positive (semi)definite
    precisions, a global maximiser (`IsMaxOn … univ`) of the log-posterior has vanishing gradient. -/
theorem gaussian_post_stationary_of_max_posDef (A : Matrix (Fin m) (Fin n) ℝ)
    {We : Matrix (Fin m) (Fin m) ℝ} {Wx : Matrix (Fin n) (Fin n) ℝ}
    (hWe : We.PosSemidef) (hWx : Wx.PosDef) (x0 : Fin n → ℝ) (b : Fin m → ℝ) (xh : Fin n → ℝ)
    (hmax : IsMaxOn (logPost A We Wx x0 b) Set.univ xh) :
    gradPost A We Wx x0 b xh = 0 :=
  gaussian_post_stationary_of_max A We Wx (posSemidef_transpose_eq hWe) (posDef_transpose_eq hWx)
    x0 b xh (fun x => hmax (Set.mem_univ x))

example : IsMaxOn (logPost (1 : Matrix (Fin 2) (Fin 2) ℝ) 1 1 0 0) Set.univ 0 := by
  intro x _
  have := (gaussian_post_maximiser_posDef (1 : Matrix (Fin 2) (Fin 2) ℝ) Matrix.PosSemidef.one
    Matrix.PosDef.one 0 0 0 (by simp [gradPost])).1 x
  exact this

/-- **gaussian_post_mode_posDef_cov.**  Everything from "the covariances are positive definite":
    the information-form point `H⁻¹(AᵀCe⁻¹b + Cx⁻¹x0)` is a stationary point, the unique global
    maximiser of the posterior density, and equals Tarantola's data-space formula
    `x0 + Cx Aᵀ (A Cx Aᵀ + Ce)⁻¹ (b − A x0)` that `BayesianProblem.MAP` evaluates (with genuine
    Mathlib inverses on both sides — no certificates left as hypotheses). -/
theorem gaussian_post_mode_posDef_cov (A : Matrix (Fin m) (Fin n) ℝ) {Ce : Matrix (Fin m) (Fin m) ℝ}
    {Cx : Matrix (Fin n) (Fin n) ℝ} (hCe : Ce.PosDef) (hCx : Cx.PosDef)
    (x0 : Fin n → ℝ) (b : Fin m → ℝ) :
    let xh := infoPoint A Ce⁻¹ Cx⁻¹ x0 b
    gradPost A Ce⁻¹ Cx⁻¹ x0 b xh = 0 ∧
    (∀ x, logPost A Ce⁻¹ Cx⁻¹ x0 b x ≤ logPost A Ce⁻¹ Cx⁻¹ x0 b xh) ∧
    (∀ x, logPost A Ce⁻¹ Cx⁻¹ x0 b x = logPost A Ce⁻¹ Cx⁻¹ x0 b xh → x = xh) ∧
    xh = x0 + Cx *ᵥ (Aᵀ *ᵥ ((A * Cx * Aᵀ + Ce)⁻¹ *ᵥ (b - A *ᵥ x0))) := by
  intro xh
  have hWe := hCe.inv.posSemidef
  have hWx := hCx.inv
  have hstat : gradPost A Ce⁻¹ Cx⁻¹ x0 b xh = 0 := (gradPost_eq_zero_iff A hWe hWx x0 b xh).mpr rfl
  obtain ⟨h1, h2⟩ := gaussian_post_maximiser_posDef A hWe hWx x0 b xh hstat
  refine ⟨hstat, h1, h2, ?_⟩
  have hS := sysm_posDef A hCe hCx.posSemidef
  have hs : (A * Cx * Aᵀ + Ce) *ᵥ ((A * Cx * Aᵀ + Ce)⁻¹ *ᵥ (b - A *ᵥ x0)) = b - A *ᵥ x0 := by
    rw [Matrix.mulVec_mulVec, posDef_mul_inv_self hS, Matrix.one_mulVec]
  have hH := precH_posDef A hWe hWx
  exact (tarantola_eq_information_form A Ce Ce⁻¹ Cx Cx⁻¹ (precH A Ce⁻¹ Cx⁻¹)⁻¹ x0 b _
    (posDef_inv_mul_self hCe) (posDef_inv_mul_self hCx) (posDef_inv_mul_self hH) hs).symm

example : (!![2, 1; 1, 2] : Matrix (Fin 2) (Fin 2) ℝ).PosDef := posDef_example

end posdef

/-! ## 2. calculus: `gradPost` is the gradient; strict concavity; the maximiser -/

section calculus
variable {m n : ℕ}

/-- **logPost_hasFDerivAt.**  On `Fin n → ℝ` the Gaussian log-posterior
    `x ↦ −½ (b−Ax)ᵀWe(b−Ax) − ½ (x−x0)ᵀWx(x−x0)` (symmetric precisions) is Fréchet differentiable
    at every point with derivative `d ↦ d · gradPost x`, `gradPost x = AᵀWe(b−Ax) − Wx(x−x0)` —
    the vector `−gradfunc` of the optimisation route and the row residual `normalResidual` of the
    executable model. -/
theorem logPost_hasFDerivAt (A : Matrix (Fin m) (Fin n) ℝ) (We : Matrix (Fin m) (Fin m) ℝ)
    (Wx : Matrix (Fin n) (Fin n) ℝ) (hWe : Weᵀ = We) (hWx : Wxᵀ = Wx)
    (x0 : Fin n → ℝ) (b : Fin m → ℝ) (x : Fin n → ℝ) :
    HasFDerivAt (logPost A We Wx x0 b) (dotCLM (gradPost A We Wx x0 b x)) x :=
  hasFDerivAt_of_quad_expansion _ x _ (precH A We Wx) fun d => by
    rw [logPost_expand A We Wx hWe hWx, curv_eq_precH]

example : HasFDerivAt (logPost (!![1, 0; 0, 1; 1, 1] : Matrix (Fin 3) (Fin 2) ℝ) 1 1 0 ![1, 2, 3])
    (dotCLM (gradPost (!![1, 0; 0, 1; 1, 1] : Matrix (Fin 3) (Fin 2) ℝ) 1 1 0 ![1, 2, 3] ![1, 1])) ![1, 1] :=
  logPost_hasFDerivAt _ _ _ (by simp) (by simp) _ _ _

/-- **logPost_hasGradientAt.**  The same on `EuclideanSpace ℝ (Fin n)`: the gradient (Riesz
    representative for the Euclidean inner product) of the log-posterior at `x` is the coded
    `gradPost x`. -/
theorem logPost_hasGradientAt (A : Matrix (Fin m) (Fin n) ℝ) (We : Matrix (Fin m) (Fin m) ℝ)
    (Wx : Matrix (Fin n) (Fin n) ℝ) (hWe : Weᵀ = We) (hWx : Wxᵀ = Wx)
    (x0 : Fin n → ℝ) (b : Fin m → ℝ) (x : EuclideanSpace ℝ (Fin n)) :
    HasGradientAt (fun y : EuclideanSpace ℝ (Fin n) => logPost A We Wx x0 b y.ofLp)
      (WithLp.toLp 2 (gradPost A We Wx x0 b x.ofLp)) x :=
  hasGradientAt_of_hasFDerivAt_pi _ x _ (logPost_hasFDerivAt A We Wx hWe hWx x0 b x.ofLp)

example : (!![2, 1; 1, 2] : Matrix (Fin 2) (Fin 2) ℝ)ᵀ = !![2, 1; 1, 2] :=
  posDef_transpose_eq posDef_example

/-- **logPost_strictConcaveOn.**  With `We ⪰ 0`, `Wx ≻ 0` the log-posterior is strictly concave on
    the whole space (exactly: it exceeds the chord by `a c/2 · (x−y)ᵀH(x−y)`). -/
theorem logPost_strictConcaveOn (A : Matrix (Fin m) (Fin n) ℝ) {We : Matrix (Fin m) (Fin m) ℝ}
    {Wx : Matrix (Fin n) (Fin n) ℝ} (hWe : We.PosSemidef) (hWx : Wx.PosDef)
    (x0 : Fin n → ℝ) (b : Fin m → ℝ) :
    StrictConcaveOn ℝ Set.univ (logPost A We Wx x0 b) := by
  refine ⟨convex_univ, fun x _ y _ hxy a c ha hc hac => ?_⟩
  rw [logPost_convex_comb A We Wx (posSemidef_transpose_eq hWe) (posDef_transpose_eq hWx) x0 b x y a c hac,
    smul_eq_mul, smul_eq_mul]
  have h1 : 0 < curv A We Wx (x - y) := by
    rw [curv_eq_precH]
    exact posDef_quad_pos (precH_posDef A hWe hWx) _ (sub_ne_zero.mpr hxy)
  have h2 : 0 < a * c / 2 * curv A We Wx (x - y) := by positivity
  linarith

example : StrictConcaveOn ℝ Set.univ
    (logPost (!![1, 1; 1, 1] : Matrix (Fin 2) (Fin 2) ℝ) 1 !![2, 1; 1, 2] 0 ![1, 0]) :=
  logPost_strictConcaveOn _ Matrix.PosSemidef.one posDef_example _ _

/-- **logPost_critical_point_unique.**  The log-posterior has exactly one critical point: its
    Fréchet derivative (equivalently `gradPost`) vanishes at `x` iff `x` is the information-form
    point `H⁻¹(AᵀWe b + Wx x0)`. -/
theorem logPost_critical_point_unique (A : Matrix (Fin m) (Fin n) ℝ) {We : Matrix (Fin m) (Fin m) ℝ}
    {Wx : Matrix (Fin n) (Fin n) ℝ} (hWe : We.PosSemidef) (hWx : Wx.PosDef)
    (x0 : Fin n → ℝ) (b : Fin m → ℝ) (x : Fin n → ℝ) :
    (fderiv ℝ (logPost A We Wx x0 b) x = 0 ↔ x = infoPoint A We Wx x0 b) ∧
    (gradPost A We Wx x0 b x = 0 ↔ x = infoPoint A We Wx x0 b) := by
  have hd := logPost_hasFDerivAt A We Wx (posSemidef_transpose_eq hWe) (posDef_transpose_eq hWx) x0 b x
  rw [hd.fderiv, dotCLM_eq_zero_iff]
  exact ⟨gradPost_eq_zero_iff A hWe hWx x0 b x, gradPost_eq_zero_iff A hWe hWx x0 b x⟩

example : (1 : Matrix (Fin 2) (Fin 2) ℝ).PosSemidef := Matrix.PosSemidef.one

/-- **logPost_isMaxOn.**  The information-form point is the global maximiser of the log-posterior
    (`IsMaxOn … univ`), and the only one. -/
theorem logPost_isMaxOn (A : Matrix (Fin m) (Fin n) ℝ) {We : Matrix (Fin m) (Fin m) ℝ}
    {Wx : Matrix (Fin n) (Fin n) ℝ} (hWe : We.PosSemidef) (hWx : Wx.PosDef)
    (x0 : Fin n → ℝ) (b : Fin m → ℝ) :
    IsMaxOn (logPost A We Wx x0 b) Set.univ (infoPoint A We Wx x0 b) ∧
    ∀ x, IsMaxOn (logPost A We Wx x0 b) Set.univ x → x = infoPoint A We Wx x0 b := by
  have hstat := (gradPost_eq_zero_iff A hWe hWx x0 b _).mpr rfl
  obtain ⟨h1, h2⟩ := gaussian_post_maximiser_posDef A hWe hWx x0 b _ hstat
  refine ⟨fun x _ => h1 x, fun x hx => ?_⟩
  exact (gradPost_eq_zero_iff A hWe hWx x0 b x).mp
    (gaussian_post_stationary_of_max_posDef A hWe hWx x0 b x hx)

example : (!![2, 1; 1, 2] : Matrix (Fin 2) (Fin 2) ℝ).PosDef := posDef_example

end calculus

/-! ## 2b. the executable closed form returns that maximiser -/

section tie

/-- **mapDirect_returns_of_posDef** (the hypothesis "the closed form returned" is satisfiable in
    every positive definite instance).  If the expanded noise covariance is positive definite and
    the expanded prior covariance positive semidefinite, the data-space system `A Cx Aᵀ + Ce` is
    positive definite, so an exact linear solve exists and passes the certificate check inside
    `NArr.solve`: with that solver the transcription of `MAP` returns a point (no `LinAlgError`,
    no `ValueError`), for every `A`, `x0`, `b`.  (Concrete instance: the `example` after
    `mapDirect_is_posterior_mode`, a 2×1 problem with a noise covariance *vector*.) -/
theorem mapDirect_returns_of_posDef [DecidableEq ℝ] (m n : ℕ) (Af : ℕ → ℕ → ℝ) (Ce Cx : NArr ℝ)
    (CeF CxF : ℕ → ℕ → ℝ) (x0 b : ℕ → ℝ)
    (hCe : diagIfVec (expandScalar Ce m) = .m m m CeF) (hCx : diagIfVec (expandScalar Cx n) = .m n n CxF)
    (hCeP : (toM m m CeF).PosDef) (hCxP : (toM n n CxF).PosSemidef) :
    ∃ slv r, mapDirect slv (.m m n Af) m n (some Ce) (some Cx) (.v n x0) (.v m b) = .ok r := by
  have hS : (toM m m (sysMat n Af CxF CeF)).PosDef := by
    rw [toM_sysMat]; exact sysm_posDef _ hCeP hCxP
  let sv : Fin m → ℝ := (toM m m (sysMat n Af CxF CeF))⁻¹ *ᵥ (toV m b - toM m n Af *ᵥ toV n x0)
  let s : ℕ → ℝ := fun i => if h : i < m then sv ⟨i, h⟩ else 0
  have hsv : toV m s = sv := by funext i; simp [toV, s]
  have hsol : ∀ i, i < m → mvec m (sysMat n Af CxF CeF) s i = b i - mvec n Af x0 i := by
    intro i hi
    have h1 : toV m (mvec m (sysMat n Af CxF CeF) s) = toV m b - toM m n Af *ᵥ toV n x0 := by
      rw [toV_mvec, hsv, Matrix.mulVec_mulVec, posDef_mul_inv_self hS, Matrix.one_mulVec]
    have := congrFun h1 ⟨i, hi⟩
    rw [← toV_mvec] at this
    simpa [toV] using this
  refine ⟨constSolver s, ?_⟩
  unfold mapDirect
  simp only [getCov, hCe, hCx, NArr.matmul, NArr.T, NArr.add, NArr.sub, NArr.zipB, bdim_self,
    ↓reduceIte, bind, Except.bind, NArr.solve, constSolver, ne_eq, not_true_eq_false]
  have hall : ((List.range m).all fun i =>
      decide ((sumTo m fun k =>
          ((sumTo n fun k_1 => (sumTo n fun k => Af (bidx m i) k * CxF k k_1) * Af (bidx m k) k_1) +
              CeF (bidx m i) (bidx m k)) * s k) =
        b (bidx m i) - sumTo n fun k => Af (bidx m i) k * x0 k)) = true := by
    rw [List.all_eq_true]
    intro i hi
    have hi' := List.mem_range.mp hi
    simp only [decide_eq_true_eq, bidx_lt hi']
    have h2 := hsol i hi'
    simp only [mvec, sysMat] at h2
    rw [← h2]
    exact sumTo_congr _ _ _ fun k hk => by simp only [bidx_lt hk]
  rw [if_pos hall]
  simp only [↓reduceIte, bdim_self]
  exact ⟨_, rfl⟩

/-- **mapDirect_is_posterior_mode** (ties 1–2 to the executable model, via
    `mapDirect_normal_equations`).  Run the transcription of `BayesianProblem.MAP` over `ℝ` (any
    decision procedure for equality, any linear solver).  If the covariances it works with — after
    the scalar / 1-D-vector expansion — are positive definite matrices, then whatever it returns is
    the information-form point `H⁻¹(AᵀCe⁻¹b + Cx⁻¹x0)`; the log-posterior has gradient `0` there
    (`HasGradientAt` on `EuclideanSpace`), it is the global maximiser (`IsMaxOn`) and the only one.
    No inverse, symmetry or sign hypothesis is left: they follow from `PosDef`. -/
theorem mapDirect_is_posterior_mode [DecidableEq ℝ] (slv : Solver ℝ) (m n : ℕ) (Af : ℕ → ℕ → ℝ)
    (Ce Cx : NArr ℝ) (CeF CxF : ℕ → ℕ → ℝ) (x0 b : ℕ → ℝ) (r : NArr ℝ)
    (hCe : diagIfVec (expandScalar Ce m) = .m m m CeF) (hCx : diagIfVec (expandScalar Cx n) = .m n n CxF)
    (hCeP : (toM m m CeF).PosDef) (hCxP : (toM n n CxF).PosDef)
    (h : mapDirect slv (.m m n Af) m n (some Ce) (some Cx) (.v n x0) (.v m b) = .ok r) :
    ∃ x, r = .v n x ∧
      toV n x = infoPoint (toM m n Af) (toM m m CeF)⁻¹ (toM n n CxF)⁻¹ (toV n x0) (toV m b) ∧
      HasGradientAt (fun y : EuclideanSpace ℝ (Fin n) =>
          logPost (toM m n Af) (toM m m CeF)⁻¹ (toM n n CxF)⁻¹ (toV n x0) (toV m b) y.ofLp)
        0 (WithLp.toLp 2 (toV n x)) ∧
      IsMaxOn (logPost (toM m n Af) (toM m m CeF)⁻¹ (toM n n CxF)⁻¹ (toV n x0) (toV m b)) Set.univ (toV n x) ∧
      ∀ y, IsMaxOn (logPost (toM m n Af) (toM m m CeF)⁻¹ (toM n n CxF)⁻¹ (toV n x0) (toV m b)) Set.univ y
        → y = toV n x := by
  have hWe := hCeP.inv.posSemidef
  have hWx := hCxP.inv
  obtain ⟨x, rfl, hres⟩ := mapDirect_normal_equations slv m n Af Ce Cx CeF CxF
    (ofM (toM m m CeF)⁻¹) (ofM (toM n n CxF)⁻¹) x0 b r hCe hCx
    (leftInverse_entries CeF _ (posDef_inv_mul_self hCeP))
    (leftInverse_entries CxF _ (posDef_inv_mul_self hCxP)) h
  have hgrad : gradPost (toM m n Af) (toM m m CeF)⁻¹ (toM n n CxF)⁻¹ (toV n x0) (toV m b) (toV n x) = 0 := by
    have := toV_normalResidual m n Af (ofM (toM m m CeF)⁻¹) (ofM (toM n n CxF)⁻¹) x0 b x
    rw [toM_ofM, toM_ofM] at this
    unfold gradPost
    rw [← this]
    funext j
    exact hres j j.isLt
  have hpt := (gradPost_eq_zero_iff _ hWe hWx _ _ _).mp hgrad
  have hmax := logPost_isMaxOn (toM m n Af) hWe hWx (toV n x0) (toV m b)
  refine ⟨x, rfl, hpt, ?_, ?_, ?_⟩
  · have hg := logPost_hasGradientAt (toM m n Af) (toM m m CeF)⁻¹ (toM n n CxF)⁻¹
      (posSemidef_transpose_eq hWe) (posDef_transpose_eq hWx) (toV n x0) (toV m b) (WithLp.toLp 2 (toV n x))
    simp only [hgrad, WithLp.toLp_zero] at hg
    exact hg
  · rw [hpt]; exact hmax.1
  · intro y hy; rw [hpt]; exact hmax.2 y hy

example [DecidableEq ℝ] : ∃ slv r x,
    mapDirect slv (.m 2 1 fun i _ => if i = 0 then (1:ℝ) else 0) 2 1 (some (.v 2 fun _ => 1)) (some (.s 1))
      (.v 1 fun _ => 0) (.v 2 fun i => if i = 0 then 2 else 1) = .ok r ∧ r = .v 1 x ∧
    IsMaxOn (logPost (toM 2 1 fun i _ => if i = 0 then (1:ℝ) else 0)
        (toM 2 2 fun i j => if i = j then (1:ℝ) else 0)⁻¹ (toM 1 1 fun i j => 1 * if i = j then (1:ℝ) else 0)⁻¹
        (toV 1 fun _ => 0) (toV 2 fun i => if i = 0 then 2 else 1)) Set.univ (toV 1 x) := by
  have h1 : toM 2 2 (fun i j => if i = j then (1:ℝ) else 0) = 1 := (toM_eq_one_iff 2 _).mpr fun _ _ _ _ => rfl
  have h2 : toM 1 1 (fun i j => 1 * if i = j then (1:ℝ) else 0) = 1 :=
    (toM_eq_one_iff 1 _).mpr fun _ _ _ _ => by simp
  have hP1 : (toM 2 2 (fun i j => if i = j then (1:ℝ) else 0)).PosDef := h1 ▸ Matrix.PosDef.one
  have hP2 : (toM 1 1 (fun i j => 1 * if i = j then (1:ℝ) else 0)).PosDef := h2 ▸ Matrix.PosDef.one
  obtain ⟨slv, r, h⟩ := mapDirect_returns_of_posDef 2 1 (fun i _ => if i = 0 then (1:ℝ) else 0)
    (.v 2 fun _ => 1) (.s 1) _ _ (fun _ => 0) (fun i => if i = 0 then 2 else 1) rfl rfl hP1 hP2.posSemidef
  obtain ⟨x, hx, -, -, hmax, -⟩ := mapDirect_is_posterior_mode slv 2 1 _ _ _ _ _ _ _ r rfl rfl hP1 hP2 h
  exact ⟨slv, r, x, h, hx, hmax⟩

end tie

/-! ## 3. the direct sampler under the standard normal law -/

section sampler
open MeasureTheory ProbabilityTheory CuqiVerif.C05 WithLp
variable {n : ℕ}

/-- **direct_draw_law** (uses `Props/C05_law`: the Gaussian push-forward).  Feed the model's `draw`
    (`x_map + L@np.random.randn(n)` of `_sampleMapCholesky`) with a standard normal vector
    (`stdNormalVec` = law of `randn(n)`): the law of the draw is the affine image law
    `gaussDrawLaw x_map L`, i.e. the multivariate Gaussian `N(x_map, L Lᵀ)` — for every square `L`. -/
theorem direct_draw_law (xmap : ℕ → ℝ) (L : ℕ → ℕ → ℝ) :
    (stdNormalVec (Fin n)).map (fun ξ => toV n (draw n xmap L (ofV ξ)))
      = gaussDrawLaw (toV n xmap) (toM n n L) ∧
    ((stdNormalVec (Fin n)).map (fun ξ => toV n (draw n xmap L (ofV ξ)))).map (toLp 2)
      = multivariateGaussian (toLp 2 (toV n xmap)) (toM n n L * (toM n n L)ᵀ) := by
  have h : (fun ξ : Fin n → ℝ => toV n (draw n xmap L (ofV ξ)))
      = fun ξ => toV n xmap + toM n n L *ᵥ ξ := funext fun ξ => toV_draw xmap L ξ
  rw [h]
  exact ⟨rfl, gauss_draw_law_eq_multivariateGaussian _ _⟩

example : (stdNormalVec (Fin 2)).map (fun ξ => toV 2 (draw 2 (fun _ => 1) (fun i j => if j ≤ i then 1 else 0) (ofV ξ)))
    = gaussDrawLaw (toV 2 fun _ => 1) (toM 2 2 fun i j => if j ≤ i then 1 else 0) :=
  (direct_draw_law _ _).1

/-- **direct_draw_moments_stdNormal** (`direct_draw_moments` for the genuine standard normal law
    instead of a finitely supported law with matching moments).  Under `ξ ~ N(0, I)` the draw
    `x_map + L ξ` of the model has mean `x_map` and covariance `Σ_k L_ik L_jk = (L Lᵀ)_ij` — the same
    right-hand sides as `direct_draw_moments`, now as Bochner integrals against `stdNormalVec`. -/
theorem direct_draw_moments_stdNormal (xmap : ℕ → ℝ) (L : ℕ → ℕ → ℝ) (i j : Fin n) :
    ∫ ξ, draw n xmap L (ofV ξ) i ∂(stdNormalVec (Fin n)) = xmap i ∧
    ∫ ξ, (draw n xmap L (ofV ξ) i - xmap i) * (draw n xmap L (ofV ξ) j - xmap j) ∂(stdNormalVec (Fin n))
      = sumTo n (fun k => L i k * L j k) := by
  have hm : Measurable (fun ξ : Fin n → ℝ => toV n xmap + toM n n L *ᵥ ξ) := measurable_affine _ _
  have hdraw : ∀ (ξ : Fin n → ℝ) (k : Fin n), draw n xmap L (ofV ξ) k = (toV n xmap + toM n n L *ᵥ ξ) k :=
    fun ξ k => congrFun (toV_draw xmap L ξ) k
  have hmean : ∀ k : Fin n, ∫ x, x k ∂(gaussDrawLaw (toV n xmap) (toM n n L)) = xmap k :=
    fun k => gauss_draw_mean _ _ k
  constructor
  · simp only [hdraw]
    have := hmean i
    rw [gaussDrawLaw, integral_map hm.aemeasurable
      (measurable_pi_apply i).aestronglyMeasurable] at this
    exact this
  · simp only [hdraw]
    have hc := gauss_draw_cov_entry (toV n xmap) (toM n n L) i j
    rw [covariance, hmean i, hmean j, gaussDrawLaw, toM_mul_transpose_apply] at hc
    have hint := integral_map (μ := stdNormalVec (Fin n)) hm.aemeasurable
      (f := fun ω : Fin n → ℝ => (ω i - xmap i) * (ω j - xmap j))
      (((measurable_pi_apply i).sub_const _).mul ((measurable_pi_apply j).sub_const _)).aestronglyMeasurable
    rw [← hc, hint]

example : ∫ ξ, draw 2 (fun _ => 1) (fun i j => if j ≤ i then 1 else 0) (ofV ξ) (0 : Fin 2) ∂(stdNormalVec (Fin 2)) = 1 :=
  (direct_draw_moments_stdNormal _ _ 0 0).1

/-- **direct_draw_posterior_law.**  Positive definite covariances, centre `x_map` = the
    information-form point (what `mapDirect` returns, `mapDirect_is_posterior_mode`) and a factor with
    `L Lᵀ = H⁻¹`, `H = AᵀCe⁻¹A + Cx⁻¹` (what `cholesky(inv(H))` delivers — leaf data): the direct
    draws are distributed exactly as the Gaussian posterior `N(H⁻¹(AᵀCe⁻¹b + Cx⁻¹x0), H⁻¹)`; their
    centre maximises the posterior density, their mean is the posterior mean and their covariance
    is `H⁻¹`. -/
theorem direct_draw_posterior_law {m : ℕ} (A : Matrix (Fin m) (Fin n) ℝ) {Ce : Matrix (Fin m) (Fin m) ℝ}
    {Cx : Matrix (Fin n) (Fin n) ℝ} (hCe : Ce.PosDef) (hCx : Cx.PosDef)
    (x0 : Fin n → ℝ) (b : Fin m → ℝ) (xmap : ℕ → ℝ) (L : ℕ → ℕ → ℝ)
    (hx : toV n xmap = infoPoint A Ce⁻¹ Cx⁻¹ x0 b)
    (hL : toM n n L * (toM n n L)ᵀ = (precH A Ce⁻¹ Cx⁻¹)⁻¹) :
    ((stdNormalVec (Fin n)).map (fun ξ => toV n (draw n xmap L (ofV ξ)))).map (toLp 2)
      = multivariateGaussian (toLp 2 (infoPoint A Ce⁻¹ Cx⁻¹ x0 b)) (precH A Ce⁻¹ Cx⁻¹)⁻¹ ∧
    (∀ y, logPost A Ce⁻¹ Cx⁻¹ x0 b y ≤ logPost A Ce⁻¹ Cx⁻¹ x0 b (toV n xmap)) ∧
    ∀ i j : Fin n,
      ∫ ξ, draw n xmap L (ofV ξ) i ∂(stdNormalVec (Fin n)) = infoPoint A Ce⁻¹ Cx⁻¹ x0 b i ∧
      ∫ ξ, (draw n xmap L (ofV ξ) i - xmap i) * (draw n xmap L (ofV ξ) j - xmap j) ∂(stdNormalVec (Fin n))
        = (precH A Ce⁻¹ Cx⁻¹)⁻¹ i j := by
  refine ⟨?_, ?_, fun i j => ?_⟩
  · rw [(direct_draw_law xmap L).2, hx, hL]
  · rw [hx]
    exact fun y => (logPost_isMaxOn A hCe.inv.posSemidef hCx.inv x0 b).1 (Set.mem_univ y)
  · obtain ⟨h1, h2⟩ := direct_draw_moments_stdNormal xmap L i j
    rw [h1, h2, ← toM_mul_transpose_apply, hL, ← hx]
    exact ⟨rfl, rfl⟩

example : ∃ (xmap : ℕ → ℝ) (L : ℕ → ℕ → ℝ),
    toV 1 xmap = infoPoint (!![1; 1; 1] : Matrix (Fin 3) (Fin 1) ℝ) 1⁻¹ 1⁻¹ 0 ![1, 2, 3] ∧
    toM 1 1 L * (toM 1 1 L)ᵀ = (precH (!![1; 1; 1] : Matrix (Fin 3) (Fin 1) ℝ) 1⁻¹ 1⁻¹)⁻¹ := by
  have hH : precH (!![1; 1; 1] : Matrix (Fin 3) (Fin 1) ℝ) 1⁻¹ 1⁻¹ = !![4] := by
    ext i j
    fin_cases i; fin_cases j
    simp [precH, Matrix.mul_apply, Fin.sum_univ_three]
    norm_num
  have hinv : (!![4] : Matrix (Fin 1) (Fin 1) ℝ)⁻¹ = !![1/4] := by
    apply Matrix.inv_eq_right_inv
    ext i j
    fin_cases i; fin_cases j
    simp [Matrix.mul_apply]
  refine ⟨ofV (infoPoint (!![1; 1; 1] : Matrix (Fin 3) (Fin 1) ℝ) 1⁻¹ 1⁻¹ 0 ![1, 2, 3]),
    fun _ _ => 1/2, toV_ofV _, ?_⟩
  rw [hH, hinv]
  ext i j
  fin_cases i; fin_cases j
  simp [Matrix.mul_apply, toM]
  norm_num

end sampler

/-! ## 4. ML: the Gaussian likelihood -/

section ml
variable {m n : ℕ}

/-- **logLik_hasGradientAt.**  The Gaussian log-likelihood `x ↦ −½ (b−Ax)ᵀWe(b−Ax)` of a linear
    model (what `ML` maximises; `= logPost` with `Wx = 0`) has gradient `AᵀWe(b − Ax)`. -/
theorem logLik_hasGradientAt (A : Matrix (Fin m) (Fin n) ℝ) (We : Matrix (Fin m) (Fin m) ℝ)
    (hWe : Weᵀ = We) (b : Fin m → ℝ) (x : EuclideanSpace ℝ (Fin n)) :
    HasGradientAt (fun y : EuclideanSpace ℝ (Fin n) => logLik A We b y.ofLp)
      (WithLp.toLp 2 (gradLik A We b x.ofLp)) x := by
  rw [logLik_eq_logPost, gradLik_eq_gradPost]
  exact logPost_hasGradientAt A We 0 hWe (by simp) 0 b x

example : (1 : Matrix (Fin 3) (Fin 3) ℝ)ᵀ = 1 := by simp

/-- **ml_maximiser_iff_normal_equations.**  For a positive semidefinite noise precision, `x`
    maximises the likelihood over the whole space iff it solves the weighted normal equations
    `AᵀWeA x = AᵀWe b` (weighted least squares) — for `A` of any rank. -/
theorem ml_maximiser_iff_normal_equations (A : Matrix (Fin m) (Fin n) ℝ) {We : Matrix (Fin m) (Fin m) ℝ}
    (hWe : We.PosSemidef) (b : Fin m → ℝ) (x : Fin n → ℝ) :
    IsMaxOn (logLik A We b) Set.univ x ↔ (Aᵀ * We * A) *ᵥ x = Aᵀ *ᵥ (We *ᵥ b) := by
  have hs := posSemidef_transpose_eq hWe
  have h0 : (0 : Matrix (Fin n) (Fin n) ℝ)ᵀ = 0 := by simp
  rw [← gradLik_eq_zero_iff, logLik_eq_logPost, gradLik_eq_gradPost]
  constructor
  · intro hmax
    exact gaussian_post_stationary_of_max A We 0 hs h0 0 b x (fun y => hmax (Set.mem_univ y))
  · intro hstat y _
    have := logPost_expand A We 0 hs h0 0 b x (y - x)
    rw [hstat, dotProduct_zero, add_zero, add_sub_cancel] at this
    have hc : 0 ≤ curv A We 0 (y - x) := by
      unfold curv
      simp only [Matrix.zero_mulVec, dotProduct_zero, add_zero]
      exact posSemidef_quad_nonneg hWe _
    show logPost A We 0 0 b y ≤ logPost A We 0 0 b x
    rw [this]
    linarith

example : (!![2, 1; 1, 2] : Matrix (Fin 2) (Fin 2) ℝ).PosSemidef := posDef_example.posSemidef

/-- **ml_full_column_rank.**  Full column rank (`rank A = n`, equivalently `x ↦ A x` injective)
    and a positive definite noise precision: `AᵀWeA` is positive definite and the likelihood has
    exactly one maximiser, the weighted least-squares solution `(AᵀWeA)⁻¹AᵀWe b`. -/
theorem ml_full_column_rank (A : Matrix (Fin m) (Fin n) ℝ) {We : Matrix (Fin m) (Fin m) ℝ}
    (hWe : We.PosDef) (hA : A.rank = n) (b : Fin m → ℝ) :
    Function.Injective A.mulVec ∧ (Aᵀ * We * A).PosDef ∧
    (Aᵀ * We * A) *ᵥ ((Aᵀ * We * A)⁻¹ *ᵥ (Aᵀ *ᵥ (We *ᵥ b))) = Aᵀ *ᵥ (We *ᵥ b) ∧
    IsMaxOn (logLik A We b) Set.univ ((Aᵀ * We * A)⁻¹ *ᵥ (Aᵀ *ᵥ (We *ᵥ b))) ∧
    ∀ x, IsMaxOn (logLik A We b) Set.univ x → x = (Aᵀ * We * A)⁻¹ *ᵥ (Aᵀ *ᵥ (We *ᵥ b)) := by
  have hinj := (rank_eq_iff_mulVec_injective A).mp hA
  have hM : (Aᵀ * We * A).PosDef := by
    have := hWe.conjTranspose_mul_mul_same (B := A) hinj
    rwa [Matrix.conjTranspose_eq_transpose_of_trivial] at this
  have hsol : (Aᵀ * We * A) *ᵥ ((Aᵀ * We * A)⁻¹ *ᵥ (Aᵀ *ᵥ (We *ᵥ b))) = Aᵀ *ᵥ (We *ᵥ b) := by
    rw [Matrix.mulVec_mulVec, posDef_mul_inv_self hM, Matrix.one_mulVec]
  refine ⟨hinj, hM, hsol, (ml_maximiser_iff_normal_equations A hWe.posSemidef b _).mpr hsol, ?_⟩
  intro x hx
  have := (ml_maximiser_iff_normal_equations A hWe.posSemidef b x).mp hx
  rw [← this, Matrix.mulVec_mulVec, posDef_inv_mul_self hM, Matrix.one_mulVec]

example : (!![1, 0; 0, 1; 1, 1] : Matrix (Fin 3) (Fin 2) ℝ).rank = 2 := by
  rw [rank_eq_iff_mulVec_injective]
  intro x y h
  have h0 := congrFun h 0
  have h1 := congrFun h 1
  simp [Matrix.mulVec, dotProduct, Fin.sum_univ_two] at h0 h1
  funext i; fin_cases i <;> simp [h0, h1]

/-- **ml_maximisers_affine.**  For *every* `A` (rank-deficient included) and positive definite
    noise precision the likelihood has a maximiser, and the set of all maximisers is an affine
    subspace whose direction is the null space of `A`: `x* + ker A`. -/
theorem ml_maximisers_affine (A : Matrix (Fin m) (Fin n) ℝ) {We : Matrix (Fin m) (Fin m) ℝ}
    (hWe : We.PosDef) (b : Fin m → ℝ) :
    ∃ S : AffineSubspace ℝ (Fin n → ℝ),
      (S : Set (Fin n → ℝ)) = {x | IsMaxOn (logLik A We b) Set.univ x} ∧
      (S : Set (Fin n → ℝ)).Nonempty ∧
      S.direction = LinearMap.ker A.mulVecLin := by
  obtain ⟨xs, hxs⟩ := normal_equations_consistent A hWe b
  refine ⟨AffineSubspace.mk' xs (LinearMap.ker A.mulVecLin), ?_, ⟨xs, AffineSubspace.self_mem_mk' _ _⟩,
    AffineSubspace.direction_mk' _ _⟩
  ext x
  simp only [SetLike.mem_coe, AffineSubspace.mem_mk', LinearMap.mem_ker, Matrix.mulVecLin_apply,
    Set.mem_ofPred_eq, vsub_eq_sub]
  rw [ml_maximiser_iff_normal_equations A hWe.posSemidef b x, ← AtWA_mulVec_eq_zero_iff A hWe,
    Matrix.mulVec_sub, hxs, sub_eq_zero]

example : (1 : Matrix (Fin 2) (Fin 2) ℝ).PosDef := Matrix.PosDef.one

/-- **ml_rank_deficient_nonunique.**  If `A` does not have full column rank, "the" likelihood
    maximiser is not unique: maximisers exist, and from each one the whole line through it along a
    non-zero null vector of `A` consists of maximisers.  (`ML` then returns *a* maximiser at best.) -/
theorem ml_rank_deficient_nonunique (A : Matrix (Fin m) (Fin n) ℝ) {We : Matrix (Fin m) (Fin m) ℝ}
    (hWe : We.PosDef) (hA : A.rank ≠ n) (b : Fin m → ℝ) :
    (∃ x, IsMaxOn (logLik A We b) Set.univ x) ∧
    ∃ z, z ≠ 0 ∧ A *ᵥ z = 0 ∧
      ∀ x, IsMaxOn (logLik A We b) Set.univ x →
        (∀ t : ℝ, IsMaxOn (logLik A We b) Set.univ (x + t • z)) ∧ x + z ≠ x := by
  obtain ⟨xs, hxs⟩ := normal_equations_consistent A hWe b
  obtain ⟨z, hz, hAz⟩ := exists_null_of_not_injective A
    (fun h => hA ((rank_eq_iff_mulVec_injective A).mpr h))
  refine ⟨⟨xs, (ml_maximiser_iff_normal_equations A hWe.posSemidef b xs).mpr hxs⟩, z, hz, hAz, ?_⟩
  intro x hx
  refine ⟨fun t => ?_, fun h => hz (by simpa using h)⟩
  rw [ml_maximiser_iff_normal_equations A hWe.posSemidef b] at hx ⊢
  rw [Matrix.mulVec_add, Matrix.mulVec_smul, (AtWA_mulVec_eq_zero_iff A hWe z).mpr hAz, smul_zero,
    add_zero, hx]

example : (!![1, 1; 1, 1] : Matrix (Fin 2) (Fin 2) ℝ).rank ≠ 2 := by
  rw [Ne, rank_eq_iff_mulVec_injective]
  intro h
  have := @h ![1, -1] 0 (by ext i; fin_cases i <;> simp [Matrix.mulVec, dotProduct, Fin.sum_univ_two])
  have := congrFun this 0
  simp at this

end ml

end CuqiVerif.C15
