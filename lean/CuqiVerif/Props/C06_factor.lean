import CuqiVerif.Model.C06_factor
import CuqiVerif.Proofs.C06_factor
import CuqiVerif.Props.C06

/-!
# C06 — the square-root precision a `Gaussian` hands to the samplers (session 3)

Statements about `sqrtprecOf` of `Model/C06_factor.lean` — the executable transcription of
`Gaussian.cov/prec/sqrtcov/sqrtprec = value` (`get_sqrtprec_from_*`, dense input) that the driver
runs on `ℚ` (`factor` op) and the harness ties to `Gaussian(...).sqrtprec`.  Here for every field
`K` carrying a decidable `<` (only used by the model to reject negative roots / pivots; no order
axioms are needed), every dimension, every input array and **whatever the root / inverse oracles
`rt`, `inv` return** (their answers are checked by the model).

`IsPrec n isCov S Λ` (Proofs): `Λ` is the precision of the Gaussian whose specification stands for
the matrix `S` — `Λ S = I` if `S` is a covariance, `Λ = S` if it is a precision.  `specMat true`
is the matrix the specification stands for as the code reads it, `specMat false` as documented
(`Model/C06.lean`).  They close the item "the square-root factors `LᵢᵀLᵢ = Λᵢ` remain leaf data"
of docs/C06.md for every input whose roots are rational; for the others the harness checks the
same relation in floats against the matrix the driver reports.
-/
open Finset

set_option linter.unusedSectionVars false
set_option linter.unusedVariables false

namespace CuqiVerif.C06

variable {K : Type} [Field K] [LT K] [DecidableEq K] [DecidableLT K]

lemma branchOf_diagonal (x : Arr K) (h : branchOf x = .ok .diagonal) : x.rows = x.cols ∧ x.isDiag = true := by
  unfold branchOf at h
  split_ifs at h with h1 h2 h3 h4
  all_goals first | exact ⟨not_not.mp h3, h4⟩ | simp at h

/-- **sqrtprecOf_is_sqrt_precision.**  Whenever a setter of `Gaussian` stores a square-root
    precision `L` (scalar, vector, diagonal or full parameter; any of the four kinds; any
    dimension), `LᵀL` is the precision matrix of the Gaussian the parameter stands for *as the
    code reads it* — i.e. the hypotheses `hL` / `hP` of `rto_objective_is_posterior` hold for the
    factors `LinearRTO` and `UGLA` receive. -/
theorem sqrtprecOf_is_sqrt_precision (rt : K → Option K) (inv : ℕ → Mat K → Option (Mat K))
    (dim : ℕ) (k : Kind) (x : Arr K) (b : Branch) (sz : ℕ) (L : Mat K)
    (h : sqrtprecOf rt inv dim k x = .ok b sz L) :
    IsPrec sz k.isCov (specMat true sz k (x.shapeIn k b)) (gram sz L) := by
  unfold sqrtprecOf at h
  split at h
  · cases h
  · -- scalar branch
    split at h
    · rename_i hrow
      split at h
      · obtain ⟨hb, hs, d, hL, hd⟩ := facDiag_spec rt k _ b _ sz _ L h
        subst hb hs hL
        refine isPrec_diag _ _ _ d (fun i => kindDiag k (x.a 0 i)) (fun i j _ _ => ?_) hd
        simp only [Arr.shapeIn]
        rw [if_pos hrow]
        exact specMat_vector_diag (K := K) _ _ _ _ _
      · cases h
    · rename_i hrow
      obtain ⟨hb, hs, d, hL, hd⟩ := facDiag_spec rt k _ b _ sz _ L h
      subst hb hs hL
      refine isPrec_diag _ _ _ d (fun _ => kindDiag k (x.a 0 0)) (fun i j _ _ => ?_) hd
      simp only [Arr.shapeIn, hrow, if_false]
      exact specMat_scalar_diag (K := K) _ _ _ _ _
  · -- vector branch
    split at h
    · cases h
    · obtain ⟨hb, hs, d, hL, hd⟩ := facDiag_spec rt k _ b _ sz _ L h
      subst hb hs hL
      refine isPrec_diag _ _ _ d (fun i => kindDiag k (x.a i 0)) (fun i j _ _ => ?_) hd
      exact specMat_vector_diag (K := K) _ _ _ _ _
  · -- diagonal-matrix branch
    rename_i hbr
    obtain ⟨hsq, hdiag⟩ := branchOf_diagonal x hbr
    obtain ⟨hb, hs, d, hL, hd⟩ := facDiag_spec rt k _ b _ sz _ L h
    subst hb hs hL
    refine isPrec_diag _ _ _ d (fun i => kindDiag k (x.a i i)) (fun i j hi hj => ?_) hd
    exact specMat_matrix_diag _ k x.a
      (fun i j hi hj hne => isDiag_spec x hdiag i j hi (hsq ▸ hj) hne) i j hi hj
  · -- full branch
    obtain ⟨hb, hs, hp⟩ := facFull_spec rt inv k _ _ b sz L h
    subst hb hs
    exact hp

/-- the hypothesis is satisfiable: `Gaussian(np.zeros(3), cov=4)` stores `sqrtprec = ½·I₃` -/
example : ∃ L, sqrtprecOf (R := ℚ) (fun _ => some (1/2)) (fun _ _ => none) 3 .cov
    { twoD := true, rows := 1, cols := 1, a := fun _ _ => 4 } = Fac.ok .scalar 3 L := by
  norm_num [sqrtprecOf, branchOf, Arr.size, facDiag, diagEntries, diagEntry, rootChecked]

/-- **sqrtprecOf_is_sqrt_documented_precision.**  … and that is the *documented* precision for
    every kind and shape except a `sqrtcov` given as a full matrix (the known convention defect,
    `sqrtcov_code_ne_doc_counterexample`). -/
theorem sqrtprecOf_is_sqrt_documented_precision (rt : K → Option K) (inv : ℕ → Mat K → Option (Mat K))
    (dim : ℕ) (k : Kind) (x : Arr K) (b : Branch) (sz : ℕ) (L : Mat K)
    (h : sqrtprecOf rt inv dim k x = .ok b sz L)
    (hk : k ≠ .sqrtcov ∨ (∀ A, x.shapeIn k b ≠ .matrix A)) :
    IsPrec sz k.isCov (specMat false sz k (x.shapeIn k b)) (gram sz L) := by
  rw [← specMat_code_eq_doc sz k _ hk]
  exact sqrtprecOf_is_sqrt_precision rt inv dim k x b sz L h

example : (Kind.cov ≠ .sqrtcov ∨ ∀ A : Mat ℚ, (Shape.scalar (4 : ℚ)) ≠ .matrix A) := Or.inl (by decide)

/-- **rto_objective_is_posterior_of_specs.**  The chain from the specifications to the posterior:
    if every likelihood factor and the prior factor of a `LinearRTO` problem are what `Gaussian`
    stores for some parameter (`sqrtprecOf … = ok`), then the least-squares objective of the stacked
    system is `−2 log posterior` with precisions `Λᵢ`, `P` that **are** the precisions of the
    specified Gaussians (`IsPrec … (specMat true …)`): no assumption on the factors is left. -/
theorem rto_objective_is_posterior_of_specs (rt : K → Option K) (inv : ℕ → Mat K → Option (Mat K))
    (P : Problem K) (mu : Vec K)
    (kl : Lik K → Kind) (xl : Lik K → Arr K) (bl : Lik K → Branch)
    (hl : ∀ l ∈ P.liks, sqrtprecOf rt inv l.m (kl l) (xl l) = .ok (bl l) l.m l.L)
    (kp : Kind) (xp : Arr K) (bp : Branch)
    (hp : sqrtprecOf rt inv P.n kp xp = .ok bp P.n P.prior.L2) (hpp : P.prior.p = P.n)
    (hmu : ∀ i, i < P.prior.p → P.prior.L2mu i = mulVec P.n P.prior.L2 mu i) (x : Vec K) :
    (sumTo (rowsM P) (fun i => (Mfwd P x i - bTilde P i) ^ 2)
        = neg2logpost P.n P.liks (fun l => gram l.m l.L) (gram P.n P.prior.L2) mu x)
    ∧ (∀ l ∈ P.liks, IsPrec l.m (kl l).isCov (specMat true l.m (kl l) ((xl l).shapeIn (kl l) (bl l))) (gram l.m l.L))
    ∧ IsPrec P.n kp.isCov (specMat true P.n kp (xp.shapeIn kp bp)) (gram P.n P.prior.L2) := by
  refine ⟨?_, fun l hlm => sqrtprecOf_is_sqrt_precision rt inv _ _ _ _ _ _ (hl l hlm),
    sqrtprecOf_is_sqrt_precision rt inv _ _ _ _ _ _ hp⟩
  exact rto_objective_is_posterior P _ _ mu (fun _ _ _ _ _ _ => rfl) (fun i j _ _ => by rw [hpp]) hmu x

/-- **sqrtprecOf_refuses_nonsymmetric.**  A full (non-diagonal, square, ≥ 2 rows) `cov` or `prec`
    matrix that is not symmetric is refused with `ValueError`, whatever the oracles. -/
theorem sqrtprecOf_refuses_nonsymmetric (rt : K → Option K) (inv : ℕ → Mat K → Option (Mat K))
    (dim : ℕ) (k : Kind) (hk : k = .cov ∨ k = .prec) (x : Arr K)
    (hbr : branchOf x = .ok .full) (hns : symmetricArr x.rows x.a = false) :
    sqrtprecOf rt inv dim k x = .err .valueError := by
  unfold sqrtprecOf
  rw [hbr]
  rcases hk with rfl | rfl <;> simp [facFull, hns]

example : branchOf (R := ℚ) { twoD := true, rows := 2, cols := 2, a := fun i j => if i = 0 ∧ j = 1 then 1 else 3 } = .ok .full
    ∧ symmetricArr (R := ℚ) 2 (fun i j => if i = 0 ∧ j = 1 then 1 else 3) = false := by
  constructor <;> decide +kernel

/-- **whichKind_exactly_one.**  `Gaussian.__init__` accepts the matrix arguments iff at most one is
    given, and then the distribution is specified by exactly that one (complete table of the 16
    combinations). -/
theorem whichKind_exactly_one (c p sc sp : Bool) :
    (whichKind c p sc sp = .ok (some .cov) ↔ (c ∧ !p ∧ !sc ∧ !sp)) ∧
    (whichKind c p sc sp = .ok (some .prec) ↔ (!c ∧ p ∧ !sc ∧ !sp)) ∧
    (whichKind c p sc sp = .ok (some .sqrtcov) ↔ (!c ∧ !p ∧ sc ∧ !sp)) ∧
    (whichKind c p sc sp = .ok (some .sqrtprec) ↔ (!c ∧ !p ∧ !sc ∧ sp)) ∧
    (whichKind c p sc sp = .ok none ↔ (!c ∧ !p ∧ !sc ∧ !sp)) := by
  cases c <;> cases p <;> cases sc <;> cases sp <;> decide

end CuqiVerif.C06
