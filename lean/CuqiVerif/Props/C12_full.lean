import CuqiVerif.Props.C12
import CuqiVerif.Proofs.C12_full
import CuqiVerif.Model.C18

/-!
# C12 — full-strength theorems (second pass)

All statements are about the definitions of `Model/C12.lean` that the driver executes (`applyOne`,
`gradientOne`, `gradient`, `checkGradient`, `toFun`, `toPar`, `geomEq`, `pdeModel`), for an arbitrary
carrier of numbers, arbitrary geometry maps and arbitrary user callables (which may raise).
Vocabulary (`RepKind`, `FuncLikeE`, `GradLikeE`, `ParTagOK`, `wrapTag`, `funTag`) and the conversion
lemmas are in `Proofs/C12_full.lean`.

1. `forward_representation_invariant` (no `_partial`): the side conditions `SelfOK` / `CrossOK` are only
   required for CUQIarray inputs, and `forward_representation_invariant_iff` shows that they are
   *exactly* what the code needs; `selfOK_iff`, `crossOK_iff`, `driver_selfOK_iff`, `driver_crossOK_iff`,
   `forward_representation_invariant_driver` decide them for the geometry pairs the driver builds.
2. `gradient_direction_representation_invariant_partial`: 4 × 4 representations of direction and point
   (general callables; `_partial`: `GeomGradSafe` excludes the stale flag, finding 2).
3. `gradient_representation_invariant_driver_kinds`: the same for the tag-rule callables of the
   driver, under the exact negation of the stale-flag patterns; counterexamples for the rest.
4. `gradient_refused_iff`, `gradient_returns_iff_partial`: one iff for refusal.
5. `pde_forward_composed`: `forward = fun2par_R ∘ observe ∘ solve ∘ assemble ∘ par2fun_D`.
-/

namespace CuqiVerif.C12

variable {α β : Type}

/-! ## 1. forward, full strength -/

/-- **Forward is representation-invariant (full strength).**  For every in-scope representation `k`
    of the parameter vector `x` (plain parameters / plain function values flagged `is_par=False` /
    CUQIarray of the domain geometry in either representation with any `is_par` argument) and every
    user function — which may raise, `F₀ : α → Except Err β` — `forward` returns
    `F₀ (par2fun_D x)` followed by `fun2par_R`, wrapped like the input (CUQIarray flagged parameters
    on the range geometry iff the input was a CUQIarray), and raises what `F₀` / `fun2par_R` raise.
    The geometry-comparison conditions are needed for CUQIarray inputs *only*; for plain arrays the
    statement is unconditional.  `forward_representation_invariant_iff` shows that they cannot be
    weakened. -/
theorem forward_representation_invariant (D : Geom α) (R : Geom β)
    (func : Val α → Except Err (Val β)) (F₀ : α → Except Err β) (hf : FuncLikeE func F₀)
    (k : RepKind) (hs : k.isArr = true → SelfOK D) (hc : k.isArr = true → CrossOK D.gid R) (x : α) :
    applyOne func R D (k.val D x) k.flag
      = F₀ (D.p2f x) >>= fun w => outOf R w (wrapTag k.isArr R.gid) := by
  unfold applyOne
  rw [toFun_rep D x k hs, ok_bind, rep_isSome]
  rcases hf ⟨D.p2f x, funTag k.isArr D.gid⟩ with ⟨e, h1, h2⟩ | ⟨w, t, h1, h2, ht⟩
  · simp only at h1
    rw [h1, h2]; rfl
  · simp only at h1 ht
    rw [h1, h2, ok_bind, ok_bind]
    cases hk : k.isArr
    · have : t = none := by simpa [funTag, hk] using ht
      subst this
      rw [toPar_fun_plain]; rfl
    · have ht' : t = none ∨ t = some ⟨false, D.gid⟩ := by simpa [funTag, hk] using ht
      rcases ht' with rfl | rfl
      · rw [toPar_fun_plain]; rfl
      · rw [toPar_fun_cross R D.gid (hc hk)]; rfl

/-- non-vacuity: a raising forward function (`F₀` refuses negative function values), a shifting
    domain geometry, a scaling range geometry, all four representations -/
example :
    let D : Geom Int := { gid := 0, p2f := fun p => p + 1, f2p := fun f => pure (f - 1), identityType := false, grad := none, parDim := 1 }
    let R : Geom Int := { gid := 1, p2f := fun p => 2 * p, f2p := fun f => pure (f / 2), identityType := false, grad := none, parDim := 1 }
    let func : Val Int → Except Err (Val Int) := fun v => if v.data < 0 then throw .valueError else pure (lift1 true (fun f => 4 * f) v)
    applyOne func R D (RepKind.val D 3 (.arrFun true)) (RepKind.flag (.arrFun true)) = .ok ⟨8, some ⟨true, 1⟩⟩
    ∧ applyOne func R D (RepKind.val D 3 .plainFun) (RepKind.flag .plainFun) = .ok ⟨8, none⟩
    ∧ applyOne func R D (RepKind.val D (-3) (.arrPar false)) (RepKind.flag (.arrPar false)) = .error .valueError := by
  refine ⟨by rfl, by rfl, by rfl⟩

/-- the total-function case in the vocabulary of `Props/C12.lean` -/
theorem forward_representation_invariant_total (D : Geom α) (R : Geom β)
    (func : Val α → Except Err (Val β)) (F₀ : α → β) (hf : FuncLike func F₀)
    (k : RepKind) (hs : k.isArr = true → SelfOK D) (hc : k.isArr = true → CrossOK D.gid R) (x : α) :
    applyOne func R D (k.val D x) k.flag = outOf R (F₀ (D.p2f x)) (wrapTag k.isArr R.gid) :=
  forward_representation_invariant D R func _ hf.toE k hs hc x

example : FuncLike (fun v : Val Int => (pure (lift1 true (fun f => 4 * f) v) : Except Err (Val Int))) (fun f => 4 * f) :=
  fun v => ⟨v.tag, rfl, Or.inr rfl⟩

/-- `SelfOK` is decided by the table of raising comparisons. -/
theorem selfOK_iff (G : Geom α) : SelfOK G ↔ G.eqRaises.lookup G.gid = none := selfOK_iff' G

/-- `CrossOK` is decided by the two tables: the comparison does not raise, and the geometry is the
    same object or every entry that says "equal" carries the same `fun2par`. -/
theorem crossOK_iff (g : Nat) (G : Geom α) :
    CrossOK g G ↔ G.eqRaises.lookup g = none
      ∧ (g = G.gid ∨ ∀ m, G.eqTrue.lookup g = some m → m.f2p = G.f2p) := crossOK_iff' g G

example : CrossOK 0 ({ gid := 1, p2f := id, f2p := pure, identityType := true, grad := none, parDim := 1,
                       eqTrue := [(0, ⟨id, pure⟩)] } : Geom Int) := by
  rw [crossOK_iff]
  refine ⟨rfl, Or.inr ?_⟩
  intro m hm
  simp [List.lookup] at hm
  subst hm; rfl

example : ¬ SelfOK ({ gid := 1, p2f := id, f2p := pure, identityType := true, grad := none, parDim := 1,
                      eqRaises := [(1, Err.keyError)] } : Geom Int) := by
  rw [selfOK_iff]; decide

/-- **The side conditions are exactly what the code needs.**  Provided `fun2par_R` succeeds on at
    least one array (otherwise `forward` never returns), the full-strength statement holds for
    every user function, every representation and every parameter vector **iff** the domain
    geometry compares equal to itself without raising and its comparison with the range geometry
    neither raises nor equates geometries with different `fun2par`. -/
theorem forward_representation_invariant_iff [Nonempty α] (D : Geom α) (R : Geom β)
    (hR : ∃ w p, R.f2p w = .ok p) :
    (∀ (func : Val α → Except Err (Val β)) (F₀ : α → β), FuncLike func F₀ → ∀ (k : RepKind) (x : α),
        applyOne func R D (k.val D x) k.flag = outOf R (F₀ (D.p2f x)) (wrapTag k.isArr R.gid))
    ↔ SelfOK D ∧ CrossOK D.gid R := by
  constructor
  · intro h
    obtain ⟨w0, p0, hw0⟩ := hR
    obtain ⟨x0⟩ := ‹Nonempty α›
    -- the probing functions: constant numbers, subclass handed down
    have hprobe : ∀ w : β, FuncLike (fun v : Val α => (Except.ok ⟨w, v.tag⟩ : Except Err (Val β))) (fun _ => w) :=
      fun w v => ⟨v.tag, rfl, Or.inr rfl⟩
    have hself : SelfOK D := by
      rw [selfOK_iff']
      have h1 := h _ _ (hprobe w0) (.arrPar true) x0
      cases hl : D.eqRaises.lookup D.gid with
      | none => rfl
      | some e =>
        simp [applyOne, RepKind.val, RepKind.flag, toFun, geomEq, hl, outOf, hw0, RepKind.isArr, wrapTag] at h1
    refine ⟨hself, ?_⟩
    have hw : ∀ w, toPar R ⟨w, some ⟨false, D.gid⟩⟩ true false = outOf R w (some ⟨true, R.gid⟩) := by
      intro w
      have h1 := h _ _ (hprobe w) (.arrPar true) x0
      unfold applyOne at h1
      rw [toFun_rep D x0 _ (fun _ => hself)] at h1
      simpa [funTag, RepKind.isArr, wrapTag, RepKind.val] using h1
    cases hg : geomEq ⟨false, D.gid⟩ R with
    | error e =>
      have := hw w0
      simp [toPar, hg, outOf, hw0] at this
    | ok o =>
      refine ⟨o, fun b => hg, ?_⟩
      intro m hm
      subst hm
      funext w
      have := hw w
      simp only [toPar, hg, ok_bind, arrParameters, Bool.false_eq_true, if_false, outOf] at this
      cases h1 : m.f2p w <;> cases h2 : R.f2p w <;> simp [h1, h2] at this ⊢ <;> exact this
  · rintro ⟨hs, hc⟩ func F₀ hf k x
    exact forward_representation_invariant_total D R func F₀ hf k (fun _ => hs) (fun _ => hc) x

example : ∃ w p, ({ gid := 1, p2f := fun p => 2 * p, f2p := fun f => pure (f / 2), identityType := false,
                    grad := none, parDim := 1 } : Geom Int).f2p w = .ok p := ⟨4, 2, rfl⟩

/-! ### the geometry pairs of the driver

`Driver/C12.lean` builds every geometry (`id`, `perm`, `lin`, `map`: arbitrary maps) with empty
comparison tables (`Fresh`) and then installs the measured value of `D == R` / `R == D`
(`withEqr`, one letter each: True / False / raises IndexError / raises KeyError).  `setEq` is that
update, for an arbitrary carrier (the driver runs it on `List Rat`). -/

/-- measured value of one comparison `O == G` (left operand: the array's geometry `O`) -/
inductive EqCode | T | F | I | K
  deriving DecidableEq, Repr

/-- `upd` of `withEqr` in `Driver/C12.lean` -/
def setEq (G O : Geom α) : EqCode → Geom α
  | .T => { G with eqTrue := [(O.gid, O.maps)] }
  | .F => G
  | .I => { G with eqRaises := [(O.gid, Err.indexError)] }
  | .K => { G with eqRaises := [(O.gid, Err.keyError)] }

/-- what `parseGeom` of the driver produces, for all four geometry kinds -/
def Fresh (G : Geom α) : Prop := G.eqTrue = [] ∧ G.eqRaises = []

@[simp] lemma setEq_gid (G O : Geom α) (c : EqCode) : (setEq G O c).gid = G.gid := by cases c <;> rfl
@[simp] lemma setEq_p2f (G O : Geom α) (c : EqCode) : (setEq G O c).p2f = G.p2f := by cases c <;> rfl
@[simp] lemma setEq_f2p (G O : Geom α) (c : EqCode) : (setEq G O c).f2p = G.f2p := by cases c <;> rfl

/-- **When is a driver geometry self-comparable?**  Always, unless the *same* object is used as
    domain and range geometry and its comparison was recorded as raising. -/
theorem driver_selfOK_iff (G O : Geom α) (hG : Fresh G) (c : EqCode) :
    SelfOK (setEq G O c) ↔ (O.gid = G.gid → c = .T ∨ c = .F) := by
  rw [selfOK_iff']
  obtain ⟨h1, h2⟩ := hG
  cases c
  · simp [setEq, h2]
  · simp [setEq, h2]
  · by_cases h : G.gid = O.gid
    · simp [setEq, h]
    · have h' : ¬ O.gid = G.gid := fun h' => h h'.symm
      have hb : (G.gid == O.gid) = false := by simp [h]
      simp [setEq, List.lookup, hb, h']
  · by_cases h : G.gid = O.gid
    · simp [setEq, h]
    · have h' : ¬ O.gid = G.gid := fun h' => h h'.symm
      have hb : (G.gid == O.gid) = false := by simp [h]
      simp [setEq, List.lookup, hb, h']

/-- **When is the comparison domain-geometry == range-geometry well behaved for a driver pair?**
    Exactly when it was measured `False`, or measured `True` and the two geometries are the same
    object or have the same `fun2par`.  (`I`/`K`: finding 3, `T` with different `fun2par`: finding 4.) -/
theorem driver_crossOK_iff (D R : Geom α) (hR : Fresh R) (c : EqCode) :
    CrossOK D.gid (setEq R D c) ↔ c = .F ∨ (c = .T ∧ (D.gid = R.gid ∨ D.f2p = R.f2p)) := by
  rw [crossOK_iff']
  obtain ⟨h1, h2⟩ := hR
  cases c
  · simp [setEq, h2, Geom.maps]
  · simp [setEq, h1, h2]
  · simp [setEq]
  · simp [setEq]

example : Fresh ({ gid := 1, p2f := id, f2p := pure, identityType := true, grad := none, parDim := 1 } : Geom Int) :=
  ⟨rfl, rfl⟩

/-- **Forward on the driver's geometry pairs: full strength exactly where the code allows it.**
    For the pair `(D, R)` the driver builds from two fresh geometries (any of the four kinds, any
    maps) and the measured codes `a` (`D == R`) and `b` (`R == D`), the full-strength invariance
    holds for all user functions, representations and parameter vectors **iff**
    `a = F`, or `a = T` with the same object / the same `fun2par` (and, when one object is used for
    both geometries, its self-comparison does not raise).  All other code combinations are the
    inputs of `forward_geometry_eq_raises_counterexample` / `forward_loose_eq_counterexample`. -/
theorem forward_representation_invariant_driver [Nonempty α] (D₀ R₀ : Geom α) (hD : Fresh D₀) (hR : Fresh R₀)
    (a b : EqCode) (hf2p : ∃ w p, R₀.f2p w = .ok p) :
    (∀ (func : Val α → Except Err (Val α)) (F₀ : α → α), FuncLike func F₀ → ∀ (k : RepKind) (x : α),
        applyOne func (setEq R₀ D₀ a) (setEq D₀ R₀ b) (k.val D₀ x) k.flag
          = outOf R₀ (F₀ (D₀.p2f x)) (wrapTag k.isArr R₀.gid))
    ↔ (R₀.gid = D₀.gid → b = .T ∨ b = .F) ∧ (a = .F ∨ (a = .T ∧ (D₀.gid = R₀.gid ∨ D₀.f2p = R₀.f2p))) := by
  have hval : ∀ (k : RepKind) (x : α), k.val (setEq D₀ R₀ b) x = k.val D₀ x := by
    intro k x; cases k <;> simp [RepKind.val]
  have hout : ∀ w t, outOf (setEq R₀ D₀ a) w t = outOf R₀ w t := by
    intro w t; simp [outOf]
  have key := forward_representation_invariant_iff (setEq D₀ R₀ b) (setEq R₀ D₀ a) (by simpa using hf2p)
  simp only [hval, hout, setEq_gid, setEq_p2f] at key
  rw [key, driver_selfOK_iff D₀ R₀ hD b, driver_crossOK_iff D₀ R₀ hR a]


/-- non-vacuity: two identity geometries with `D == R` measured `True` (same `fun2par`) and `R == D`
    measured as raising `KeyError` — the forward statement holds for every user function -/
example (func : Val Int → Except Err (Val Int)) (F₀ : Int → Int) (hf : FuncLike func F₀) (k : RepKind) (x : Int) :
    let D₀ : Geom Int := { gid := 0, p2f := id, f2p := pure, identityType := true, grad := none, parDim := 1 }
    let R₀ : Geom Int := { gid := 1, p2f := id, f2p := pure, identityType := true, grad := none, parDim := 1 }
    applyOne func (setEq R₀ D₀ .T) (setEq D₀ R₀ .K) (k.val D₀ x) k.flag
      = outOf R₀ (F₀ (D₀.p2f x)) (wrapTag k.isArr R₀.gid) := by
  intro D₀ R₀
  exact (forward_representation_invariant_driver D₀ R₀ ⟨rfl, rfl⟩ ⟨rfl, rfl⟩ .T .K ⟨0, 0, rfl⟩).2
    ⟨by decide, Or.inr ⟨rfl, Or.inr rfl⟩⟩ func F₀ hf k x

/-! ## 2. gradient: every representation of direction *and* linearisation point -/

/-
  FULL STATEMENT (not provable — false for the code as it is):

    «theorem» gradient_direction_representation_invariant  … same binders as the `_partial` one below …
        (hgg : GeomGradMatches m.domainGeom gg₀)          -- instead of `GeomGradSafe`
        : (r >>= fun v => pure v.data) = gradDataE … ∧ (kd.isArr = true → ∀ v, r = .ok v → v.tag = …)

  i.e. for *every* geometry `gradient` attribute whose result is plain or inherits the subclass of either
  argument.  Missing: when the geometry's `gradient` hands down the subclass of its first argument and
  that argument carries the `is_par=False` flag of a CUQIarray of (a geometry comparing equal to) the
  domain geometry, the final `_2par(grad, is_par=True)` trusts the stale flag and applies `fun2par` to
  the parameter-space gradient (`gradient_stale_flag_counterexample` in `Props/C12.lean`, finding 2).
  Proved instead: the statement under `GeomGradSafe` for arbitrary callables (below, `_partial`), and in
  §3 for the tag-rule callables of the driver under the exact negation of the stale patterns
  (`gradient_representation_invariant_driver_kinds`, not `_partial`).
-/

/-- **The gradient does not depend on how direction and point are handed over.**  In a formable
    configuration, for each of the 4 × 4 in-scope representations — direction `d` as plain
    parameters of the range geometry, as plain function values `par2fun_R d` with
    `is_direction_par=False`, as CUQIarray of the range geometry in either representation (any flag
    argument); point `x` likewise on the domain geometry — the numbers returned are `gradDataE`:
    the user's direction-Jacobian product `g₀ (par2fun_R d) (par2fun_D x)`, then the geometry's
    `gradient` at the *parameter* `x` if it has one, else `fun2par_D`; every exception of `g₀` /
    `fun2par_D` is passed on.  When the direction is a CUQIarray the result is a CUQIarray flagged
    parameters on the *domain* geometry.
    Hypotheses, each only where the code needs it: `SelfOK` of a geometry only when the
    corresponding argument is a CUQIarray; the round trip `fun2par_D (par2fun_D x) = x` only for the
    function-value forms of the point; `CrossOK range domain` only for a CUQIarray direction on an
    identity-like domain (the gradient may inherit the direction's subclass and is then compared
    with the domain geometry — finding 3 for gradients); `GeomGradSafe` excludes the stale flag
    (finding 2; `gradient_representation_invariant_driver_kinds` weakens it to the exact pattern). -/
theorem gradient_direction_representation_invariant_partial (m : ModelObj α β)
    (gf : Val β → Val α → Except Err (Val α)) (g₀ : β → α → Except Err α)
    (hgf : m.gradientFunc = some gf) (hG : GradLikeE gf g₀) (hF : Formable m)
    (gg₀ : Option (α → α → α))
    (hgg : match m.domainGeom.grad, gg₀ with
           | some gg, some gg₀ => GeomGradSafe gg gg₀
           | none, none => True
           | _, _ => False)
    (kd kw : RepKind) (d : β) (x : α)
    (hsR : kd.isArr = true → SelfOK m.rangeGeom) (hsD : kw.isArr = true → SelfOK m.domainGeom)
    (hc : kd.isArr = true → m.domainGeom.grad = none → CrossOK m.rangeGeom.gid m.domainGeom)
    (hrt : kw.isFun = true → m.domainGeom.f2p (m.domainGeom.p2f x) = .ok x) :
    let r := gradientOne m (kd.val m.rangeGeom d) (kw.val m.domainGeom x) kd.flag kw.flag
    (r >>= fun v => pure v.data) = gradDataE m.domainGeom m.rangeGeom g₀ gg₀ d x
    ∧ (kd.isArr = true → ∀ v, r = .ok v → v.tag = some ⟨true, m.domainGeom.gid⟩) := by
  intro r
  have hgg' : GeomGradMatches m.domainGeom gg₀ := by
    unfold GeomGradMatches
    cases hgr : m.domainGeom.grad <;> cases gg₀ <;> simp only [hgr] at hgg ⊢
    exact hgg.like
  have hpath : ∀ gg, m.domainGeom.grad = some gg → ∀ w t,
      gf ⟨m.rangeGeom.p2f d, funTag kd.isArr m.rangeGeom.gid⟩
         ⟨m.domainGeom.p2f x, funTag kw.isArr m.domainGeom.gid⟩ = .ok ⟨w, t⟩ →
      ParTagOK m.domainGeom (gg ⟨w, t⟩ ⟨x, wrapTag kw.isArr m.domainGeom.gid⟩).tag := by
    intro gg hgr w t _
    simp only [hgr] at hgg
    cases gg₀ with
    | none => exact hgg.elim
    | some gg0 =>
      obtain ⟨-, htag⟩ := hgg ⟨w, t⟩ ⟨x, wrapTag kw.isArr m.domainGeom.gid⟩
      rcases htag with h | h
      · rw [h]; exact parTagOK_none _
      · rw [h]
        cases hk : kw.isArr
        · exact parTagOK_none _
        · exact parTagOK_self _ (hsD hk)
  obtain ⟨t, h1, h2⟩ := gradientOne_reps_value m gf g₀ hgf hG hF gg₀ hgg' kd kw d x hsR hsD hrt
    (fun hgr hk _ => hc hk hgr) hpath
  obtain ⟨h3, h4⟩ := data_of_tagged _ _ t h1
  exact ⟨h3, fun hk v hv => (h4 v hv).trans (h2 hk)⟩

/-- non-vacuity: squaring domain geometry with the exact chain-rule `gradient` (inheriting from the
    parameter), `F = 3·`, tag-propagating gradient function; direction and point as CUQIarrays of
    function values: `2·x·(3·d) = 2·5·18 = 180`, wrapped on the domain geometry; and a raising
    gradient function is passed through -/
example :
    let D : Geom Int := { gid := 0, p2f := fun p => p * p, f2p := fun f => pure (f / 5), identityType := false,
                          grad := some (lift2 .arg2 (fun g x => 2 * x * g)), parDim := 1 }
    let R : Geom Int := { gid := 1, p2f := id, f2p := pure, identityType := true, grad := none, parDim := 1 }
    let m : ModelObj Int Int := { forwardFunc := fun v => pure (lift1 true (fun f => 3 * f) v),
                                  gradientFunc := some (fun d w => pure (lift2 .arg2 (fun d _ => 3 * d) d w)),
                                  rangeGeom := R, domainGeom := D, nonDefaultArgs := ["x"] }
    gradientOne m (RepKind.val R 6 (.arrFun true)) (RepKind.val D 5 (.arrFun false)) true false
        = .ok ⟨180, some ⟨true, 0⟩⟩
    ∧ gradientOne m (RepKind.val R 6 .plainPar) (RepKind.val D 5 .plainPar) true true = .ok ⟨180, none⟩
    ∧ gradDataE D R (fun d _ => .ok (3 * d)) (some (fun g x => 2 * x * g)) 6 5 = .ok 180 := by
  refine ⟨by rfl, by rfl, by rfl⟩

/-- **Any two representations give the same numbers** (corollary, in the form of the property
    text): with the hypotheses of `gradient_direction_representation_invariant_partial` for both pairs of
    representations, the two calls return the same numbers or raise the same exception. -/
theorem gradient_representations_agree_partial (m : ModelObj α β)
    (gf : Val β → Val α → Except Err (Val α)) (g₀ : β → α → Except Err α)
    (hgf : m.gradientFunc = some gf) (hG : GradLikeE gf g₀) (hF : Formable m)
    (gg₀ : Option (α → α → α))
    (hgg : match m.domainGeom.grad, gg₀ with
           | some gg, some gg₀ => GeomGradSafe gg gg₀
           | none, none => True
           | _, _ => False)
    (d : β) (x : α) (hsR : SelfOK m.rangeGeom) (hsD : SelfOK m.domainGeom)
    (hc : m.domainGeom.grad = none → CrossOK m.rangeGeom.gid m.domainGeom)
    (hrt : m.domainGeom.f2p (m.domainGeom.p2f x) = .ok x) (kd kw kd' kw' : RepKind) :
    (gradientOne m (kd.val m.rangeGeom d) (kw.val m.domainGeom x) kd.flag kw.flag >>= fun v => pure v.data)
      = (gradientOne m (kd'.val m.rangeGeom d) (kw'.val m.domainGeom x) kd'.flag kw'.flag >>= fun v => pure v.data) := by
  rw [(gradient_direction_representation_invariant_partial m gf g₀ hgf hG hF gg₀ hgg kd kw d x
        (fun _ => hsR) (fun _ => hsD) (fun _ => hc) (fun _ => hrt)).1,
      (gradient_direction_representation_invariant_partial m gf g₀ hgf hG hF gg₀ hgg kd' kw' d x
        (fun _ => hsR) (fun _ => hsD) (fun _ => hc) (fun _ => hrt)).1]

example : SelfOK ({ gid := 1, p2f := id, f2p := pure, identityType := true, grad := none, parDim := 1 } : Geom Int) :=
  selfOK_of_noRaise _ rfl

/-- **Defect (geometry comparison raises, gradient).**  Identity-like domain; the gradient inherits
    the subclass of a CUQIarray direction (as `direction @ jacobian(wrt)` does) and the comparison
    range-geometry == domain-geometry raises (`Discrete(3)` vs `Discrete(4)`): the plain direction
    works, the same direction as CUQIarray of the range geometry makes `gradient` raise. -/
theorem gradient_direction_geometry_eq_raises_counterexample :
    let D : Geom Int := { gid := 0, p2f := id, f2p := pure, identityType := true, grad := none, parDim := 1,
                          eqRaises := [(1, Err.indexError)] }
    let R : Geom Int := { gid := 1, p2f := id, f2p := pure, identityType := true, grad := none, parDim := 1 }
    let m : ModelObj Int Int := { forwardFunc := fun v => pure (lift1 true (fun f => 2 * f) v),
                                  gradientFunc := some (fun d w => pure (lift2 .arg1 (fun d _ => 2 * d) d w)),
                                  rangeGeom := R, domainGeom := D, nonDefaultArgs := ["x"] }
    gradientOne m ⟨6, none⟩ ⟨5, none⟩ true true = .ok ⟨12, none⟩
    ∧ gradientOne m ⟨6, some ⟨true, 1⟩⟩ ⟨5, none⟩ true true = .error Err.indexError := by
  refine ⟨by rfl, by rfl⟩

/-! ## 3. gradient on the callables of the driver: exactly where the code allows it

Every gradient function the driver builds (`gen` with `jac` / `gs` / `gd` / `gw`, `linmat`, `linfun`,
`pde` / `heat` with any `PdeGrad`) acts on the numbers by some `g₀` and tags its result by one
`TagRule`; every geometry `gradient` attribute is `lift2 rgg gg₀` (`chs` / `chd` / `chx`). -/

/-- **Full-strength gradient statement for all tag-rule combinations except the stale-flag
    patterns.**  Same conclusion as `gradient_direction_representation_invariant_partial`, for a gradient
    function with tag rule `rg` and a geometry `gradient` with tag rule `rgg`, *without* `GeomGradSafe`.
    What remains excluded is exactly:
    * `hstale_wrt` — geometry `gradient` inheriting from its first argument (`chd`), gradient function
      inheriting from `wrt` (`gw`), point given as CUQIarray: finding 2, `gradient_stale_flag_counterexample`;
    * `hstale_dir` — `chd`, gradient function inheriting from the direction (`jac`, `gd`, linear
      models), direction given as CUQIarray: the tag of the direction reaches the final
      `_2par(…, is_par=True)`; required: its comparison with the domain geometry does not raise and,
      if "equal", the range geometry's `fun2par` is the identity (`ParTagOK`);
    * `hcross` — identity-like domain, gradient inheriting from a CUQIarray direction: `CrossOK`
      (`gradient_direction_geometry_eq_raises_counterexample`). -/
theorem gradient_representation_invariant_driver_kinds (m : ModelObj α β)
    (gf : Val β → Val α → Except Err (Val α)) (g₀ : β → α → Except Err α) (rg rgg : TagRule)
    (hgf : m.gradientFunc = some gf)
    (hrule : ∀ a b, gf a b = g₀ a.data b.data >>= fun w => pure ⟨w, ruleTag rg a.tag b.tag⟩)
    (gg₀ : Option (α → α → α)) (hgrad : m.domainGeom.grad = gg₀.map (fun f => lift2 rgg f))
    (hF : Formable m) (kd kw : RepKind) (d : β) (x : α)
    (hsR : kd.isArr = true → SelfOK m.rangeGeom) (hsD : kw.isArr = true → SelfOK m.domainGeom)
    (hrt : kw.isFun = true → m.domainGeom.f2p (m.domainGeom.p2f x) = .ok x)
    (hcross : gg₀ = none → rg = .arg1 → kd.isArr = true → CrossOK m.rangeGeom.gid m.domainGeom)
    (hstale_wrt : gg₀.isSome = true → rgg = .arg1 → rg = .arg2 → kw.isArr = false)
    (hstale_dir : gg₀.isSome = true → rgg = .arg1 → rg = .arg1 → kd.isArr = true →
      ParTagOK m.domainGeom (some ⟨false, m.rangeGeom.gid⟩)) :
    let r := gradientOne m (kd.val m.rangeGeom d) (kw.val m.domainGeom x) kd.flag kw.flag
    (r >>= fun v => pure v.data) = gradDataE m.domainGeom m.rangeGeom g₀ gg₀ d x
    ∧ (kd.isArr = true → ∀ v, r = .ok v → v.tag = some ⟨true, m.domainGeom.gid⟩) := by
  intro r
  have hG : GradLikeE gf g₀ := by
    intro a b
    rw [hrule a b]
    cases hg : g₀ a.data b.data with
    | error e => exact Or.inl ⟨e, rfl, rfl⟩
    | ok w => exact Or.inr ⟨w, _, rfl, rfl, by cases rg <;> simp [ruleTag]⟩
  have hgg' : GeomGradMatches m.domainGeom gg₀ := by
    unfold GeomGradMatches
    cases gg₀ with
    | none => simp [hgrad]
    | some gg0 =>
      simp only [hgrad, Option.map_some]
      intro a b
      rw [lift2_eq]
      exact ⟨rfl, by cases rgg <;> simp [ruleTag]⟩
  have htag : ∀ w t, gf ⟨m.rangeGeom.p2f d, funTag kd.isArr m.rangeGeom.gid⟩
         ⟨m.domainGeom.p2f x, funTag kw.isArr m.domainGeom.gid⟩ = .ok ⟨w, t⟩ →
      t = ruleTag rg (funTag kd.isArr m.rangeGeom.gid) (funTag kw.isArr m.domainGeom.gid) := by
    intro w t h
    rw [hrule] at h
    cases hg : g₀ (m.rangeGeom.p2f d) (m.domainGeom.p2f x) with
    | error e => simp [hg] at h
    | ok w' => simp [hg] at h; exact h.2.symm
  have hpath : ∀ gg, m.domainGeom.grad = some gg → ∀ w t,
      gf ⟨m.rangeGeom.p2f d, funTag kd.isArr m.rangeGeom.gid⟩
         ⟨m.domainGeom.p2f x, funTag kw.isArr m.domainGeom.gid⟩ = .ok ⟨w, t⟩ →
      ParTagOK m.domainGeom (gg ⟨w, t⟩ ⟨x, wrapTag kw.isArr m.domainGeom.gid⟩).tag := by
    intro gg hgr w t hw
    have ht := htag w t hw
    cases gg₀ with
    | none => simp [hgrad] at hgr
    | some gg0 =>
      have hgg : gg = lift2 rgg gg0 := by
        rw [hgrad] at hgr; simpa using hgr.symm
      subst hgg
      rw [lift2_eq]
      have hwrap : ParTagOK m.domainGeom (wrapTag kw.isArr m.domainGeom.gid) := by
        cases hk : kw.isArr
        · exact parTagOK_none _
        · exact parTagOK_self _ (hsD hk)
      cases rgg with
      | strip => exact parTagOK_none _
      | arg2 => exact hwrap
      | arg1 =>
        show ParTagOK m.domainGeom t
        rw [ht]
        cases rg with
        | strip => exact parTagOK_none _
        | arg1 =>
          show ParTagOK m.domainGeom (funTag kd.isArr m.rangeGeom.gid)
          cases hk : kd.isArr
          · exact parTagOK_none _
          · exact hstale_dir rfl rfl rfl hk
        | arg2 =>
          show ParTagOK m.domainGeom (funTag kw.isArr m.domainGeom.gid)
          have hk := hstale_wrt rfl rfl rfl
          rw [hk]
          exact parTagOK_none _
  have hcross' : m.domainGeom.grad = none → kd.isArr = true →
      (∃ w, gf ⟨m.rangeGeom.p2f d, funTag kd.isArr m.rangeGeom.gid⟩
               ⟨m.domainGeom.p2f x, funTag kw.isArr m.domainGeom.gid⟩
             = .ok ⟨w, some ⟨false, m.rangeGeom.gid⟩⟩) → CrossOK m.rangeGeom.gid m.domainGeom := by
    intro hgr hk ⟨w, hw⟩
    have ht := htag w _ hw
    have hgg0 : gg₀ = none := by
      cases gg₀ with
      | none => rfl
      | some _ => simp [hgrad] at hgr
    cases rg with
    | strip => simp [ruleTag] at ht
    | arg1 => exact hcross hgg0 rfl hk
    | arg2 =>
      cases hkw : kw.isArr
      · simp [ruleTag, funTag, hkw] at ht
      · simp only [ruleTag, funTag, hkw, if_true, Option.some.injEq, Tag.mk.injEq, true_and] at ht
        rw [ht]
        exact ⟨some m.domainGeom.maps, hsD hkw, fun m' hm' => by cases hm'; rfl⟩
  obtain ⟨t, h1, h2⟩ := gradientOne_reps_value m gf g₀ hgf hG hF gg₀ hgg' kd kw d x hsR hsD hrt hcross' hpath
  obtain ⟨h3, h4⟩ := data_of_tagged _ _ t h1
  exact ⟨h3, fun hk v hv => (h4 v hv).trans (h2 hk)⟩

/-- the constructors of `Model/C12.lean` produce gradient functions of that form:
    `jacobian=` wrapper and matrix-backed `LinearModel` (rule `arg1`), a PDE without gradient support
    (`g₀` always raises `NotImplementedError`, any rule) -/
example (n : Nat) (jac : List Int → List (List Int)) (a b : Val (List Int)) :
    (pure (jacobianWrapper n jac a b) : Except Err (Val (List Int)))
      = (Except.ok (vecMat n a.data (jac b.data)) >>= fun w => pure ⟨w, ruleTag .arg1 a.tag b.tag⟩) := rfl

example (A At : List (List Int)) (R D : Geom (List Int)) :
    (linearFromMatrix A At R D).gradientFunc
      = some (fun a b => (Except.ok (mulVec At a.data) >>= fun w => pure ⟨w, ruleTag .arg1 a.tag b.tag⟩)) := rfl

example (so : Val (List Int) → Except Err (Val (List Int))) (R D : Geom (List Int)) (rg : TagRule) :
    (pdeModel so .nothing R D).gradientFunc
      = some (fun a b => ((Except.error Err.notImplemented : Except Err (List Int)) >>= fun w =>
                pure ⟨w, ruleTag rg a.tag b.tag⟩)) := rfl

/-- the `chd` / `jac` combination with a CUQIarray direction whose geometry is unrelated to the
    domain geometry is *not* a stale-flag pattern: `hstale_dir` holds -/
example : ParTagOK ({ gid := 0, p2f := fun p => 2 * p, f2p := fun f => pure (f / 2), identityType := false,
                      grad := some (lift2 .arg1 (fun g _ => 2 * g)), parDim := 1 } : Geom Int) (some ⟨false, 1⟩) := by
  intro tg h; cases h
  exact ⟨none, rfl, fun own h => by cases h⟩

/-- **When is `hstale_dir` satisfied on a driver pair?**  For two distinct fresh geometry objects and
    the measured code `b` of `R == D` (left operand: the direction's geometry): exactly when it was
    measured `False`, or `True` with the range geometry's `fun2par` being the identity (flat
    identity-like range geometries).  `I` / `K`: finding 3 for gradients. -/
theorem driver_parTagOK_iff (D₀ R₀ : Geom α) (hD : Fresh D₀) (hne : R₀.gid ≠ D₀.gid) (b : EqCode) :
    ParTagOK (setEq D₀ R₀ b) (some ⟨false, R₀.gid⟩) ↔ b = .F ∨ (b = .T ∧ ∀ v, R₀.f2p v = .ok v) := by
  obtain ⟨h1, h2⟩ := hD
  unfold ParTagOK
  constructor
  · intro h
    obtain ⟨o, ho, hp⟩ := h _ rfl
    cases b with
    | F => exact Or.inl rfl
    | T =>
      have : o = some R₀.maps := by
        simp [geomEq, setEq, h2, hne] at ho
        exact ho.symm
      rcases hp R₀.maps this with h | h
      · cases h
      · exact Or.inr ⟨rfl, h⟩
    | I => simp [geomEq, setEq] at ho
    | K => simp [geomEq, setEq] at ho
  · rintro (rfl | ⟨rfl, hv⟩) tg htg <;> cases htg
    · exact ⟨none, by simp [geomEq, setEq, h1, h2, hne], fun own h => by cases h⟩
    · exact ⟨some R₀.maps, by simp [geomEq, setEq, h2, hne],
        fun own h => by cases h; exact Or.inr hv⟩

example : ∀ v : Int, ({ gid := 1, p2f := id, f2p := pure, identityType := true, grad := none, parDim := 1 } : Geom Int).f2p v
    = .ok v := fun _ => rfl

/-! ## 4. refusal: one iff -/

/-- **Everything `Model.gradient` needs in order to return the value `v`**, in the order of the
    code: neither argument is a `Samples` object; `wrt` can be converted to parameters (`_2par`:
    geometry comparison does not raise, `fun2par` defined); the three configuration checks
    (`Formable`: gradient function present, identity-type range geometry, domain geometry
    identity-type or with `gradient`); `_2fun` of `wrt` and of `direction` (geometry comparisons do
    not raise); the user's gradient function returns; the final `_2par` (after the geometry's
    `gradient` if it has one) returns `v`. -/
def GradientFormed (m : ModelObj α β) (dir : GArg β) (wrt : GArg α) (idp iwp : Bool) (v : Val α) : Prop :=
  ∃ d w, dir = .one d ∧ wrt = .one w
    ∧ ∃ wp, toPar m.domainGeom w false iwp = .ok wp
    ∧ Formable m
    ∧ ∃ gf, m.gradientFunc = some gf
    ∧ ∃ wf, toFun m.domainGeom w iwp = .ok wf
    ∧ ∃ df, toFun m.rangeGeom d idp = .ok df
    ∧ ∃ g, gf df wf = .ok g
    ∧ (match m.domainGeom.grad with
       | some gg => toPar m.domainGeom (gg g wp) d.tag.isSome true
       | none => toPar m.domainGeom g d.tag.isSome false) = .ok v

/-- **Refusal as one iff.**  For every model, every geometry (any maps, any comparison tables), every
    representation of direction and point including `Samples` objects and arrays of foreign
    geometries, and both flags: `gradient` returns the value `v` **iff** the gradient can be formed
    (`GradientFormed`); in every other case it raises (or is the one call form outside the model).
    Composes `checkGradient_ok_iff`, `gradient_refused_not_formable`, `gradient_refused_samples`,
    `gradient_refused_no_fun2par`. -/
theorem gradient_refused_iff (m : ModelObj α β) (dir : GArg β) (wrt : GArg α) (idp iwp : Bool) (v : Val α) :
    gradient m dir wrt idp iwp = some (.ok v) ↔ GradientFormed m dir wrt idp iwp v := by
  constructor
  · intro h
    cases dir with
    | samples => exact absurd rfl (gradient_refused_samples m _ wrt idp iwp (Or.inl rfl) _ v h)
    | one d =>
      cases wrt with
      | samples => exact absurd rfl (gradient_refused_samples m _ _ idp iwp (Or.inr rfl) _ v h)
      | one w =>
        have h' : gradientOne m d w idp iwp = .ok v := by
          simpa [gradient] using h
        unfold gradientOne at h'
        obtain ⟨wp, h1, h'⟩ := bind_eq_ok h'
        obtain ⟨u, h2, h'⟩ := bind_eq_ok h'
        have hF := ((checkGradient_ok_iff m false false).1 h2).1
        cases hg : m.gradientFunc with
        | none => simp [hg] at h'
        | some gf =>
          simp only [hg] at h'
          obtain ⟨wf, h3, h'⟩ := bind_eq_ok h'
          obtain ⟨df, h4, h'⟩ := bind_eq_ok h'
          obtain ⟨g, h5, h'⟩ := bind_eq_ok h'
          exact ⟨d, w, rfl, rfl, wp, h1, hF, gf, hg, wf, h3, df, h4, g, h5, h'⟩
  · rintro ⟨d, w, rfl, rfl, wp, h1, hF, gf, hg, wf, h3, df, h4, g, h5, h6⟩
    show some (gradientOne m d w idp iwp) = some (.ok v)
    rw [gradientOne_formable m gf hg hF, h1, ok_bind, h3, ok_bind, h4, ok_bind, h5, ok_bind]
    exact congrArg some h6

/-- non-vacuity of `GradientFormed`, and a refusal -/
example :
    let G : Geom Int := { gid := 1, p2f := id, f2p := pure, identityType := true, grad := none, parDim := 1 }
    let m : ModelObj Int Int := { forwardFunc := fun v => pure v,
                                  gradientFunc := some (fun d w => pure (lift2 .arg1 (fun d _ => 2 * d) d w)),
                                  rangeGeom := G, domainGeom := G, nonDefaultArgs := ["x"] }
    gradient m (.one ⟨3, none⟩) (.one ⟨5, none⟩) true true = some (.ok ⟨6, none⟩)
    ∧ gradient m .samples (.one ⟨5, none⟩) true true = some (.error Err.valueError) := by
  refine ⟨by rfl, by rfl⟩

/-- **Which exception a refusal raises.**  Once the linearisation point has been converted
    (`_2par` returned): a non-formable configuration raises `NotImplementedError`; a `Samples` object
    as direction raises `ValueError` — unless the model has no gradient function at all, which is
    checked first (`NotImplementedError`). -/
theorem gradient_refusal_class (m : ModelObj α β) (w : Val α) (iwp : Bool) (wp : Val α)
    (hwp : toPar m.domainGeom w false iwp = .ok wp) (idp : Bool) :
    (¬ Formable m → ∀ d, gradientOne m d w idp iwp = .error Err.notImplemented)
    ∧ gradient m .samples (.one w) idp iwp
        = some (.error (if m.gradientFunc.isNone then Err.notImplemented else Err.valueError)) := by
  constructor
  · intro hF d
    unfold gradientOne
    rw [hwp, ok_bind]
    unfold Formable at hF
    unfold checkGradient
    cases hg : m.gradientFunc <;> cases h2 : m.rangeGeom.identityType <;>
      cases h3 : m.domainGeom.grad <;> cases h4 : m.domainGeom.identityType <;> simp_all
  · show some _ = some _
    rw [hwp, ok_bind]
    unfold checkGradient
    cases hg : m.gradientFunc <;> simp

example :
    let G : Geom Int := { gid := 1, p2f := id, f2p := pure, identityType := false, grad := none, parDim := 1 }
    let m : ModelObj Int Int := { forwardFunc := fun v => pure v,
                                  gradientFunc := some (fun d w => pure (lift2 .arg1 (fun d _ => 2 * d) d w)),
                                  rangeGeom := G, domainGeom := G, nonDefaultArgs := ["x"] }
    gradientOne m ⟨3, none⟩ ⟨5, none⟩ true true = .error Err.notImplemented := by rfl

/-- **Refusal for the in-scope representations, in terms of the numbers only.**  With user callables
    acting on the numbers by `g₀` (may raise) and `gg₀`, well-behaved geometry comparisons and a
    `fun2par_D` that inverts `par2fun_D` at `x` whenever it returns, `gradient` returns a value for
    the representations `kd` of the direction and `kw` of the point **iff** the configuration is
    formable, `fun2par_D (par2fun_D x)` is defined if the point is given as function values, and
    `gradDataE` — gradient function, then `fun2par_D` / geometry `gradient` — is defined. -/
theorem gradient_returns_iff_partial (m : ModelObj α β) (g₀ : β → α → Except Err α)
    (hG : ∀ gf, m.gradientFunc = some gf → GradLikeE gf g₀)
    (gg₀ : Option (α → α → α))
    (hgg : match m.domainGeom.grad, gg₀ with
           | some gg, some gg₀ => GeomGradSafe gg gg₀
           | none, none => True
           | _, _ => False)
    (kd kw : RepKind) (d : β) (x : α)
    (hsR : kd.isArr = true → SelfOK m.rangeGeom) (hsD : kw.isArr = true → SelfOK m.domainGeom)
    (hc : kd.isArr = true → m.domainGeom.grad = none → CrossOK m.rangeGeom.gid m.domainGeom)
    (hrt : kw.isFun = true → ∀ p, m.domainGeom.f2p (m.domainGeom.p2f x) = .ok p → p = x) :
    (∃ v, gradient m (.one (kd.val m.rangeGeom d)) (.one (kw.val m.domainGeom x)) kd.flag kw.flag = some (.ok v))
    ↔ Formable m ∧ (kw.isFun = true → ∃ p, m.domainGeom.f2p (m.domainGeom.p2f x) = .ok p)
        ∧ ∃ p, gradDataE m.domainGeom m.rangeGeom g₀ gg₀ d x = .ok p := by
  have hgrad : gradient m (.one (kd.val m.rangeGeom d)) (.one (kw.val m.domainGeom x)) kd.flag kw.flag
      = some (gradientOne m (kd.val m.rangeGeom d) (kw.val m.domainGeom x) kd.flag kw.flag) := rfl
  rw [hgrad]
  constructor
  · rintro ⟨v, hv⟩
    have hv : gradientOne m (kd.val m.rangeGeom d) (kw.val m.domainGeom x) kd.flag kw.flag = .ok v := by
      simpa using hv
    have hF : Formable m := by
      by_contra hn
      exact gradient_refused_not_formable m hn _ _ _ _ v hv
    have hfun : kw.isFun = true → ∃ p, m.domainGeom.f2p (m.domainGeom.p2f x) = .ok p := by
      intro hk
      cases he : m.domainGeom.f2p (m.domainGeom.p2f x) with
      | ok p => exact ⟨p, rfl⟩
      | error e =>
        unfold gradientOne at hv
        rw [toPar_rep_error _ x kw hsD hk e he] at hv
        cases hv
    have hrt' : kw.isFun = true → m.domainGeom.f2p (m.domainGeom.p2f x) = .ok x := by
      intro hk
      obtain ⟨p, hp⟩ := hfun hk
      rw [hp, hrt hk p hp]
    obtain ⟨gf, hgf⟩ : ∃ gf, m.gradientFunc = some gf := by
      cases hg : m.gradientFunc with
      | none => simp [Formable, hg] at hF
      | some gf => exact ⟨gf, rfl⟩
    have key := (gradient_direction_representation_invariant_partial m gf g₀ hgf (hG gf hgf) hF gg₀ hgg kd kw d x
      hsR hsD hc hrt').1
    rw [hv] at key
    exact ⟨hF, hfun, v.data, key.symm⟩
  · rintro ⟨hF, hfun, p, hp⟩
    have hrt' : kw.isFun = true → m.domainGeom.f2p (m.domainGeom.p2f x) = .ok x := by
      intro hk
      obtain ⟨q, hq⟩ := hfun hk
      rw [hq, hrt hk q hq]
    obtain ⟨gf, hgf⟩ : ∃ gf, m.gradientFunc = some gf := by
      cases hg : m.gradientFunc with
      | none => simp [Formable, hg] at hF
      | some gf => exact ⟨gf, rfl⟩
    have key := (gradient_direction_representation_invariant_partial m gf g₀ hgf (hG gf hgf) hF gg₀ hgg kd kw d x
      hsR hsD hc hrt').1
    rw [hp] at key
    cases hr : gradientOne m (kd.val m.rangeGeom d) (kw.val m.domainGeom x) kd.flag kw.flag with
    | error e => rw [hr] at key; cases key
    | ok v => exact ⟨v, rfl⟩

/-- non-vacuity: a mapped domain geometry without inverse map refuses function values as point -/
example :
    let D : Geom Int := { gid := 0, p2f := fun p => p * p, f2p := fun _ => throw .valueError, identityType := false,
                          grad := some (lift2 .arg2 (fun g x => 2 * x * g)), parDim := 1 }
    let R : Geom Int := { gid := 1, p2f := id, f2p := pure, identityType := true, grad := none, parDim := 1 }
    let m : ModelObj Int Int := { forwardFunc := fun v => pure v,
                                  gradientFunc := some (fun d w => pure (lift2 .arg1 (fun d _ => d) d w)),
                                  rangeGeom := R, domainGeom := D, nonDefaultArgs := ["x"] }
    gradient m (.one (RepKind.val R 6 .plainPar)) (.one (RepKind.val D 5 .plainFun)) true false
        = some (.error .valueError)
    ∧ gradient m (.one (RepKind.val R 6 .plainPar)) (.one (RepKind.val D 5 .plainPar)) true true
        = some (.ok ⟨60, none⟩) := by
  refine ⟨by rfl, by rfl⟩


/-! ## 5. PDE-based models: `forward = fun2par_R ∘ observe ∘ solve ∘ assemble ∘ par2fun_D`

The PDE layer is the one of `Model/C18.lean` (imported read-only): a `C18.PDEObj` with
`solveFor p` = `assemble(p)` followed by `solve()` and `observe`; `C18.pdeModelForward` is
`PDEModel._forward_func` on numbers.  Its exception classes are mapped into this model's by an
arbitrary `em`. -/

section pde
variable {S I : Type}

/-- `PDEModel._forward_func` as the callable `Model._apply_func` sees it: `C18.pdeModelForward` on the
    numbers; the result is a plain array (`keep = false`: `scipy.linalg.solve` and the observation
    operators return plain arrays) or inherits the subclass of the argument -/
def pdeForwardFunc (pde : C18.PDEObj α S β I) (em : C18.Err → Err) (keep : Bool) : Val α → Except Err (Val β) :=
  fun v => match C18.pdeModelForward pde v.data with
    | .error e => .error (em e)
    | .ok o => .ok ⟨o, if keep then v.tag else none⟩

/-- observe ∘ (solve ∘ assemble) on function values, `info` dropped, exception classes mapped -/
def pdePipeline (pde : C18.PDEObj α S β I) (em : C18.Err → Err) (f : α) : Except Err β :=
  match pde.solveFor f with
  | .error e => .error (em e)
  | .ok (sol, _) =>
    match pde.observe sol with
    | .error e => .error (em e)
    | .ok o => .ok o

lemma pdeForwardFunc_like (pde : C18.PDEObj α S β I) (em : C18.Err → Err) (keep : Bool) :
    FuncLikeE (pdeForwardFunc pde em keep) (pdePipeline pde em) := by
  intro v
  unfold pdeForwardFunc pdePipeline C18.pdeModelForward
  cases h : pde.solveFor v.data with
  | error e => exact Or.inl ⟨em e, rfl, rfl⟩
  | ok r =>
    obtain ⟨sol, info⟩ := r
    cases h2 : pde.observe sol with
    | error e => exact Or.inl ⟨em e, by simp [h2], by simp [h2]⟩
    | ok o =>
      refine Or.inr ⟨o, if keep then v.tag else none, by simp [h2], by simp [h2], ?_⟩
      cases keep <;> simp

/-- **PDE-based forward models, composed and representation-invariant.**  For every PDE object,
    every in-scope representation `k` of the parameter vector `x` and either subclass behaviour:
    `forward` = `par2fun_D`, then assemble + solve (`solveFor`), then `observe`, then `fun2par_R`,
    wrapped like the input; an exception of the PDE layer (not assembled, solver failure,
    interpolation refusal, …) is passed on with its (mapped) class for every representation alike. -/
theorem pde_forward_composed (D : Geom α) (R : Geom β) (pde : C18.PDEObj α S β I) (em : C18.Err → Err)
    (keep : Bool) (k : RepKind) (hs : k.isArr = true → SelfOK D) (hc : k.isArr = true → CrossOK D.gid R) (x : α) :
    applyOne (pdeForwardFunc pde em keep) R D (k.val D x) k.flag
      = pdePipeline pde em (D.p2f x) >>= fun o => outOf R o (wrapTag k.isArr R.gid) :=
  forward_representation_invariant D R _ _ (pdeForwardFunc_like pde em keep) k hs hc x

/-- a steady-state PDE object built from `C18.Steady`: `solveFor p = (assemble p).solve()` -/
def steadyPDE {P Rg O : Type} (s : C18.Steady P Rg I) (obs : C18.Vec Rg → Except C18.Err O) :
    C18.PDEObj P (C18.Vec Rg) O I :=
  { solveFor := fun p => (s.assemble p).solve, observe := obs }

/-- **`SteadyStateLinearPDE`-based model, all four stages explicit.**  `forward` on any in-scope
    representation of `x` assembles the form at `par2fun_D x` (whatever was assembled before),
    hands operator and right-hand side to the linear solver (`_solve_linear_system`: `info` dropped),
    observes the solution and applies `fun2par_R`. -/
theorem pde_forward_composed_steady {Rg : Type} (D : Geom α) (R : Geom β) (s : C18.Steady α Rg I)
    (obs : C18.Vec Rg → Except C18.Err β) (em : C18.Err → Err)
    (keep : Bool) (k : RepKind) (hs : k.isArr = true → SelfOK D) (hc : k.isArr = true → CrossOK D.gid R) (x : α) :
    applyOne (pdeForwardFunc (steadyPDE s obs) em keep) R D (k.val D x) k.flag
      = match C18.unpack (s.solver (s.form (D.p2f x)).op (s.form (D.p2f x)).rhs) with
        | .error e => .error (em e)
        | .ok (u, _) =>
          match obs u with
          | .error e => .error (em e)
          | .ok o => outOf R o (wrapTag k.isArr R.gid) := by
  rw [pde_forward_composed D R _ em keep k hs hc x]
  unfold pdePipeline steadyPDE C18.Steady.solve C18.Steady.assemble
  dsimp only
  cases C18.unpack (s.solver (s.form (D.p2f x)).op (s.form (D.p2f x)).rhs) with
  | error e => rfl
  | ok r =>
    obtain ⟨u, info⟩ := r
    dsimp only
    cases obs u <;> rfl

/-- non-vacuity: a 1 × 1 "Poisson" problem `(2 + f) u = 6`, observation `u ↦ 10 u`, a solver returning
    `(u, info)`; shifting domain geometry, halving range geometry: `x = 0 ↦ f = 1 ↦ u = 2 ↦ 20 ↦ 10`,
    for the plain parameter and for the CUQIarray of function values; a raising solver is passed on -/
example :
    let D : Geom Int := { gid := 0, p2f := fun p => p + 1, f2p := fun f => pure (f - 1), identityType := false, grad := none, parDim := 1 }
    let R : Geom Int := { gid := 1, p2f := fun p => 2 * p, f2p := fun f => pure (f / 2), identityType := false, grad := none, parDim := 1 }
    let s : C18.Steady Int Int Nat := { form := fun f => ⟨fun _ _ => 2 + f, fun _ => 6⟩,
                                        solver := fun A b => if A 0 0 = 0 then .raised else .tuple (fun _ => b 0 / A 0 0) [7] }
    let obs : C18.Vec Int → Except C18.Err Int := fun u => .ok (10 * u 0)
    let em : C18.Err → Err := fun _ => Err.valueError
    applyOne (pdeForwardFunc (steadyPDE s obs) em false) R D (RepKind.val D 0 .plainPar) true = .ok ⟨10, none⟩
    ∧ applyOne (pdeForwardFunc (steadyPDE s obs) em false) R D (RepKind.val D 0 (.arrFun true)) true
        = .ok ⟨10, some ⟨true, 1⟩⟩
    ∧ applyOne (pdeForwardFunc (steadyPDE s obs) em false) R D (RepKind.val D (-3) (.arrPar true)) true
        = .error Err.valueError := by
  refine ⟨by rfl, by rfl, by rfl⟩

end pde

section pdeModelObj
variable {K : Type} [Add K] [Mul K] [OfNat K 0] {S I : Type}

/-- **The same at the level of `Model.forward` for the object `PDEModel.__init__` builds**
    (`pdeModel` of `Model/C12.lean`, carrier `List K`; the driver runs `K = Rat`): called with one
    positional argument in any in-scope representation, whatever gradient support the PDE has. -/
theorem pde_model_forward_composed (D R : Geom (List K)) (pde : C18.PDEObj (List K) S (List K) I)
    (em : C18.Err → Err) (keep : Bool) (pg : PdeGrad K) (k : RepKind)
    (hs : k.isArr = true → SelfOK D) (hc : k.isArr = true → CrossOK D.gid R) (x : List K) :
    forward (pdeModel (pdeForwardFunc pde em keep) pg R D) 1 [] (.data (.one (k.val D x))) k.flag
      = (pdePipeline pde em (D.p2f x) >>= fun o => outOf R o (wrapTag k.isArr R.gid)) >>= fun y =>
          pure (.data (.one y)) := by
  have hp : parseArgs ["x"] 1 [] = .ok ["x"] := by rfl
  simp only [forward, pdeModel, hp, ok_bind, applyFunc]
  rw [pde_forward_composed D R pde em keep k hs hc x]
  simp only [bind_assoc, pure_bind]

/-- **A PDE without `gradient_wrt_parameter` / `jacobian_wrt_parameter` never yields a gradient**, for
    any representation of direction and point (the refusal happens inside `_gradient_func`, i.e.
    after the geometry checks) — an instance of `gradient_refused_iff`. -/
theorem pde_gradient_unsupported_refused (so : Val (List K) → Except Err (Val (List K))) (D R : Geom (List K))
    (dir : GArg (List K)) (wrt : GArg (List K)) (idp iwp : Bool) (v : Val (List K)) :
    gradient (pdeModel so .nothing R D) dir wrt idp iwp ≠ some (.ok v) := by
  intro h
  obtain ⟨d, w, -, -, wp, -, -, gf, hgf, wf, -, df, -, g, hg, -⟩ := (gradient_refused_iff _ _ _ _ _ _).1 h
  have : gf = fun _ _ => throw Err.notImplemented := by
    simp only [pdeModel, Option.some.injEq] at hgf
    exact hgf.symm
  subst this
  cases hg

/-- **A PDE with `jacobian_wrt_parameter`**: the gradient function of the model is
    `direction @ jacobian(wrt)` with the tag rule of the direction, so
    `gradient_representation_invariant_driver_kinds` applies with `rg = arg1`. -/
theorem pde_gradient_jacobian_rule (so : Val (List K) → Except Err (Val (List K))) (D R : Geom (List K))
    (n : Nat) (jac : List K → List (List K)) :
    ∃ gf, (pdeModel so (.jacobianWrtParameter n jac) R D).gradientFunc = some gf
      ∧ ∀ a b, gf a b = (Except.ok (vecMat n a.data (jac b.data)) >>= fun w => pure ⟨w, ruleTag .arg1 a.tag b.tag⟩) :=
  ⟨_, rfl, fun _ _ => rfl⟩

example : gradient (pdeModel (fun v => pure v) (.nothing : PdeGrad Int)
            { gid := 1, p2f := id, f2p := pure, identityType := true, grad := none, parDim := 1 }
            { gid := 0, p2f := id, f2p := pure, identityType := true, grad := none, parDim := 1 })
          (.one ⟨[1], none⟩) (.one ⟨[2], none⟩) true true = some (.error Err.notImplemented) := by rfl

end pdeModelObj

end CuqiVerif.C12
