import CuqiVerif.Model.C07_legacy
import CuqiVerif.Props.C07

/-!
# C07 — legacy circulant matrices (`Deconvolution1D(use_legacy=True)`) and non-square PSFs (session 3, pass 3)

Theorems about the executable definitions of `CuqiVerif/Model/C07_legacy.lean` (driver ops `legacy`, `projshape`).
-/
set_option linter.unusedSectionVars false
set_option linter.unusedVariables false

namespace CuqiVerif.C07

variable {R : Type} [CommRing R]

/-- index arithmetic of `toeplitz(hflip, h)`: for `i < j < dim` the entry `(i,j)` reads `h[j−i]`, the entry `(j,i)` reads `h[dim−(j−i)]` -/
theorem circulant_entries (dim : ℕ) (h : ℕ → R) (i j : ℕ) (hij : i < j) (hj : j < dim) :
    (circulant dim h).e i j = h (j - i) ∧ (circulant dim h).e j i = h (dim - (j - i)) ∧ (circulant dim h).e i i = h 0 := by
  refine ⟨?_, ?_, ?_⟩
  · show h ((j + dim - i) % dim) = _
    have : j + dim - i = (j - i) + dim := by omega
    rw [this, Nat.add_mod_right, Nat.mod_eq_of_lt (by omega)]
  · show h ((i + dim - j) % dim) = _
    rw [Nat.mod_eq_of_lt (by omega)]
    congr 1; omega
  · show h ((i + dim - i) % dim) = _
    have : i + dim - i = dim := by omega
    rw [this, Nat.mod_self]

example : (circulant 4 (fun k => ((k : ℕ) : ℤ))).e 1 3 = 2 := (circulant_entries 4 _ 1 3 (by omega) (by omega)).1

/-- the mirror extension of the named legacy PSFs (`dim` even) is symmetric: `h[dim − k] = h[k]` -/
theorem legacyH_mirror (m : ℕ) (h0 : ℕ → R) (k : ℕ) (hk0 : 0 < k) (hk : k < 2 * m) :
    legacyH (2 * m) h0 (2 * m - k) = legacyH (2 * m) h0 k := by
  unfold legacyH
  have hm : 2 * m / 2 = m := by omega
  rw [hm]
  by_cases h1 : k ≤ m
  · by_cases h2 : 2 * m - k ≤ m
    · have : k = m := by omega
      subst this
      simp only [h1, h2, if_true]; congr 1; omega
    · simp only [h1, h2, if_true, if_false]; congr 1; omega
  · have h2 : 2 * m - k ≤ m := by omega
    simp only [h1, h2, if_true, if_false]

/-- **The named legacy matrices (`gauss`, `sinc`/`prolate`, `vonMises`) are symmetric** — every even `dim`, every profile
    (`PSF_param`): `A[i,j] = A[j,i]`, so forward and adjoint of the legacy model are the same map. -/
theorem legacy_named_symmetric (m : ℕ) (h0 : ℕ → R) (i j : ℕ) (hi : i < 2 * m) (hj : j < 2 * m) :
    (circulant (2 * m) (legacyH (2 * m) h0)).e i j = (circulant (2 * m) (legacyH (2 * m) h0)).e j i := by
  rcases Nat.lt_trichotomy i j with hlt | heq | hgt
  · obtain ⟨e1, e2, -⟩ := circulant_entries (2 * m) (legacyH (2 * m) h0) i j hlt hj
    rw [e1, e2, legacyH_mirror m h0 (j - i) (by omega) (by omega)]
  · rw [heq]
  · obtain ⟨e1, e2, -⟩ := circulant_entries (2 * m) (legacyH (2 * m) h0) j i hgt hi
    rw [e1, e2, legacyH_mirror m h0 (i - j) (by omega) (by omega)]

example : (circulant 4 (legacyH 4 (fun k => ((k : ℕ) : ℤ) + 1))).e 0 3 = (circulant 4 (legacyH 4 (fun k => ((k : ℕ) : ℤ) + 1))).e 3 0 :=
  legacy_named_symmetric 2 _ 0 3 (by omega) (by omega)

/-- **`Deconvolution1D(use_legacy=True)`: whenever the constructor succeeds the adjoint identity holds**, for named and custom
    PSFs alike (matrix-backed on `Continuous1D` geometries) — stated about `legacyMatrix`, the transcription of the option
    handling the driver runs. -/
theorem legacy_adjoint (bc : String) (sg : Bool) (dim : ℕ) (nameL : Option String) (plen : ℕ) (v : ℕ → ℚ) (A : LMat ℚ)
    (hok : legacyMatrix bc sg dim nameL plen v = some A) (x y : ℕ → ℚ) :
    ip dim ((LinModel.ofMatrix A (Geom.ident dim) (Geom.ident dim)).fwdPar x) y
      = ip dim x ((LinModel.ofMatrix A (Geom.ident dim) (Geom.ident dim)).adjPar y) := by
  have hshape : A.rows = dim ∧ A.cols = dim := by
    unfold legacyMatrix at hok
    split at hok
    · cases hok
    · split at hok
      · split at hok
        · cases hok
        · cases hok; exact ⟨rfl, rfl⟩
      · split at hok
        · cases hok
        · cases hok; exact ⟨rfl, rfl⟩
  exact adjoint_matrixBacked A (Geom.ident dim) (Geom.ident dim)
    (by constructor <;> first | rfl | exact hshape.1 | exact hshape.2 | exact hshape.1.symm | exact hshape.2.symm)
    (ident_orthogonal dim) (ident_orthogonal dim) x y

example : ∃ A, legacyMatrix "periodic" false 4 none 4 (fun k => (k : ℚ)) = some A := ⟨_, rfl⟩

/-- **Negative result (not demanded by C07; the custom legacy matrix is a general circulant).**  A custom PSF gives a
    non-symmetric stored matrix: `PSF = [1,2,3,4]` → `A[0,1] = 4`, `A[1,0] = 2`. -/
theorem legacy_custom_counterexample :
    (circulant 4 (legacyHCustom 4 (fun k => ((k : ℕ) : ℤ) + 1))).e 0 1 ≠ (circulant 4 (legacyHCustom 4 (fun k => ((k : ℕ) : ℤ) + 1))).e 1 0 := by
  decide

/-- **A user-supplied PSF yields an operator from `n × n` images to `n × n` images iff it is square** (`s1, s2 ≥ 1`): for a
    non-square PSF `_proj_forward_2D` returns a larger array along the shorter PSF axis, and `Deconvolution2D.__init__`
    raises when it generates the data. -/
theorem projOutShape_square_iff (n s1 s2 : ℕ) (h1 : 1 ≤ s1) (h2 : 1 ≤ s2) :
    projOutShape n s1 s2 = (n, n) ↔ s1 = s2 := by
  unfold projOutShape
  simp only [Prod.mk.injEq]
  rcases Nat.le_total s1 s2 with h | h
  · rw [max_eq_right h]
    split <;> constructor <;> intro hh <;> omega
  · rw [max_eq_left h]
    split <;> constructor <;> intro hh <;> omega

example : projOutShape 4 3 5 = (6, 4) := by decide

end CuqiVerif.C07
