import CuqiVerif.Model.C04_eig
import Mathlib.Algebra.Order.Field.Rat
import Mathlib.Algebra.Order.Ring.Abs
import Mathlib.Algebra.Order.Field.Basic
import Mathlib.Tactic.Ring
import Mathlib.Tactic.Linarith
import Mathlib.Tactic.Positivity
import Mathlib.Tactic.NormNum

/-!
# C04 — `eigvalsh_to_eps` and the rank-deficient part of the eigen-decomposition branches

About the executable definitions of `Model/C04_eig.lean` (`eigEps`, `eigKept`, `eigRank`, `eigPdet`, `eigPinvWeights`,
`eigRefuses`) that `Driver/C04.lean` runs for the op `gausseig`.

* The tolerance is purely relative: scaling the spectrum by `s > 0` scales the tolerance by `s` (`eigEps_scale`), hence the
  set of kept eigenvalues, the rank and the pseudo-inverse pattern do not depend on the overall scale of the matrix
  (`eigKept_scale`, `eigRank_scale`) — the statement a tolerance with an absolute floor violates.
* A well-conditioned positive spectrum (every eigenvalue above `cond · max`) is kept entirely: rank = dimension,
  pseudo-determinant = determinant (`eigKept_wellconditioned`): the eigen branch then is the determinant branch.
* On an accepted spectrum the pseudo-inverse weights are exactly the reciprocals of the KEPT eigenvalues and 0 elsewhere
  (`eigPinvWeights_eq_kept`): rank, pseudo-determinant and pseudo-inverse refer to the same set of eigen-directions, so the
  assembled value `-½(rank·log 2π + log pdet) - ½ Σ_kept (qᵢ·z)²/λᵢ` is the log of `Π_kept N(qᵢ·z; 0, λᵢ)`, the documented
  degenerate Gaussian density in the coordinates of the range (the product form is `gauss_diag_exp_logpdf` of
  `Props/C04_norm.lean`, instantiated at the kept eigenvalues).
-/
namespace CuqiVerif.C04

lemma absQ_eq_abs (q : ℚ) : absQ q = |q| := by
  unfold absQ
  split_ifs with h
  · exact (abs_of_neg h).symm
  · exact (abs_of_nonneg (not_lt.mp h)).symm

lemma eigCond_pos : 0 < eigCond := by unfold eigCond; norm_num

lemma maxAbs_fold_scale (s : ℚ) (hs : 0 ≤ s) (l : List ℚ) (a : ℚ) :
    (l.map (s * ·)).foldl (fun m x => max m (absQ x)) (s * a) = s * l.foldl (fun m x => max m (absQ x)) a := by
  induction l generalizing a with
  | nil => simp
  | cons x t ih =>
    simp only [List.map_cons, List.foldl_cons]
    have : max (s * a) (absQ (s * x)) = s * max a (absQ x) := by
      rw [absQ_eq_abs, absQ_eq_abs, abs_mul, abs_of_nonneg hs, mul_max_of_nonneg _ _ hs]
    rw [this, ih]

lemma maxAbs_scale (s : ℚ) (hs : 0 ≤ s) (l : List ℚ) : maxAbs (l.map (s * ·)) = s * maxAbs l := by
  have := maxAbs_fold_scale s hs l 0
  simpa [maxAbs] using this

/-- **The tolerance is relative**: `eigvalsh_to_eps(s·spectrum) = s · eigvalsh_to_eps(spectrum)` for every `s ≥ 0`. -/
theorem eigEps_scale (s : ℚ) (hs : 0 ≤ s) (l : List ℚ) : eigEps (l.map (s * ·)) = s * eigEps l := by
  unfold eigEps
  rw [maxAbs_scale s hs l]; ring

example : eigEps ([3, 1].map ((1 / 1024 : ℚ) * ·)) = 1 / 1024 * eigEps [3, 1] := eigEps_scale _ (by norm_num) _

/-- **The kept eigenvalues of a scaled matrix are the scaled kept eigenvalues** (`s > 0`, any spectrum): which
    eigen-directions count as non-zero does not depend on the overall scale. -/
theorem eigKept_scale (s : ℚ) (hs : 0 < s) (l : List ℚ) : eigKept (l.map (s * ·)) = (eigKept l).map (s * ·) := by
  unfold eigKept
  rw [eigEps_scale s hs.le l, List.filter_map]
  congr 1
  apply List.filter_congr
  intro x _
  simp only [Function.comp, decide_eq_decide]
  constructor
  · intro h; exact lt_of_mul_lt_mul_left h hs.le
  · intro h; exact mul_lt_mul_of_pos_left h hs

/-- **Rank is scale invariant.** -/
theorem eigRank_scale (s : ℚ) (hs : 0 < s) (l : List ℚ) : eigRank (l.map (s * ·)) = eigRank l := by
  unfold eigRank; rw [eigKept_scale s hs l, List.length_map]

example : eigRank ([3, 1, 0].map ((1 / 1099511627776 : ℚ) * ·)) = eigRank [3, 1, 0] := eigRank_scale _ (by norm_num) _

/-- **A refusal is scale invariant** (`np.min(s) < -eps`). -/
theorem eigRefuses_scale (s : ℚ) (hs : 0 < s) (l : List ℚ) : eigRefuses (l.map (s * ·)) = eigRefuses l := by
  unfold eigRefuses
  rw [eigEps_scale s hs.le l, List.any_map]
  congr 1
  funext x
  simp only [Function.comp, decide_eq_decide]
  constructor
  · intro h
    have : s * x < s * (-(eigEps l)) := by linarith [h, mul_neg s (eigEps l)]
    exact lt_of_mul_lt_mul_left this hs.le
  · intro h
    have := mul_lt_mul_of_pos_left h hs
    linarith [this, mul_neg s (eigEps l)]

/-- **Well-conditioned spectrum ⇒ nothing is dropped**: if every eigenvalue exceeds `cond · max|λ|` (condition number
    below `1/cond ≈ 4.5e9`), the eigen branch keeps the whole spectrum: `rank = dim` and the pseudo-determinant is the
    product of all eigenvalues, i.e. the determinant. -/
theorem eigKept_wellconditioned (l : List ℚ) (h : ∀ x ∈ l, eigEps l < x) :
    eigKept l = l ∧ eigRank l = l.length ∧ eigPdet l = prodList l := by
  have hk : eigKept l = l := by
    unfold eigKept
    rw [List.filter_eq_self]
    intro x hx
    simpa using h x hx
  exact ⟨hk, by unfold eigRank; rw [hk], by unfold eigPdet; rw [hk]⟩

example : eigRank [3, 1, 2] = 3 := by
  have := (eigKept_wellconditioned [3, 1, 2] (by
    intro x hx
    have he : eigEps [3, 1, 2] = eigCond * 3 := by
      simp [eigEps, maxAbs, absQ]
      norm_num
    rw [he]; unfold eigCond
    simp at hx
    rcases hx with rfl | rfl | rfl <;> norm_num)).2.1
  simpa using this

/-- **Pseudo-inverse, rank and pseudo-determinant use the same eigen-directions.**  On a spectrum the branch accepts (no
    eigenvalue below `-eps`) the weights `s_pinv = [0 if abs(x) <= eps else 1/x]` are `1/λ` exactly on the kept eigenvalues
    (`λ > eps`, those counted by `rank` and multiplied in `logdet`) and 0 on the others. -/
theorem eigPinvWeights_eq_kept (l : List ℚ) (hacc : eigRefuses l = false) :
    eigPinvWeights l = l.map fun x => if eigEps l < x then 1 / x else 0 := by
  unfold eigPinvWeights
  apply List.map_congr_left
  intro x hx
  have hnr : ¬ x < -(eigEps l) := by
    unfold eigRefuses at hacc
    rw [List.any_eq_false] at hacc
    simpa using hacc x hx
  rw [absQ_eq_abs]
  by_cases hk : eigEps l < x
  · have : ¬ |x| ≤ eigEps l := by
      intro h'; exact absurd (lt_of_lt_of_le hk (le_trans (le_abs_self x) h')) (lt_irrefl _)
    simp [hk, this]
  · have : |x| ≤ eigEps l := abs_le.mpr ⟨not_lt.mp hnr, not_lt.mp hk⟩
    simp [hk, this]

example : eigPinvWeights [2, 0] = [1 / 2, 0] := by
  have he : eigEps [2, 0] = eigCond * 2 := by
    norm_num [eigEps, maxAbs, absQ]
  have hacc : eigRefuses [2, 0] = false := by
    simp only [eigRefuses, he, eigCond]; simp; norm_num
  rw [eigPinvWeights_eq_kept _ hacc, he]
  simp [eigCond]; norm_num

end CuqiVerif.C04
