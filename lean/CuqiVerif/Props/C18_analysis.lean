import CuqiVerif.Props.C18
import CuqiVerif.Proofs.C18_analysis
import Mathlib.Algebra.Order.Archimedean.Basic
import Mathlib.Algebra.Order.AbsoluteValue.Basic
import Mathlib.Tactic.Positivity
import Mathlib.LinearAlgebra.Matrix.Notation
import Mathlib.Tactic.FinCases

/-!
# C18 — analysis theorems (second pass)
-/
open Finset Matrix

set_option linter.unusedSectionVars false
set_option linter.unusedVariables false
set_option linter.unusedSimpArgs false

namespace CuqiVerif.C18

variable {R : Type} [CommRing R]

/-! ## 1. what "solves the discretised equations" means: closed forms and stability -/

/-- level `k` (column `k` of the array `solve()` returns) as a Mathlib vector of length `n` -/
def lvl (n : ℕ) (levels : List (Array R)) (k : ℕ) : Fin n → R := fun i => rd (levels.getD k #[]) i

/-- the grid is uniform with step `dt` -/
def UniformStep (ts : List R) (dt : R) : Prop :=
  ∀ k, k + 1 < ts.length → ts.getD (k + 1) 0 - ts.getD k 0 = dt

theorem euler_forward_closed_form {I : Type} (n : ℕ) (form : R → Form R)
    (solver : Mat R → Vec R → SolverRet (Vec R) I) (ts : List R) (levels : List (Array R))
    (info : Option (List I)) (h : solveTime n .forward form solver ts = .ok (levels, info))
    (dt : R) (hdt : UniformStep ts dt) (A : Matrix (Fin n) (Fin n) R) (b : Fin n → R)
    (hA : ∀ k, k + 1 < ts.length → ∀ i j : Fin n, (form (ts.getD k 0)).op i j = A i j)
    (hb : ∀ k, k + 1 < ts.length → ∀ i : Fin n, (form (ts.getD k 0)).src i = b i)
    (k : ℕ) (hk : k < ts.length) :
    lvl n levels k = ((1 + dt • A) ^ k) *ᵥ lvl n levels 0
      + ∑ j ∈ range k, ((1 + dt • A) ^ j) *ᵥ (dt • b) := by
  refine affine_rec_closed (1 + dt • A) (dt • b) (lvl n levels) (ts.length - 1) ?_ k (by omega)
  intro k hk
  have hk' : k + 1 < ts.length := by omega
  funext i
  have hrec := euler_forward_recurrence n form solver ts levels info h k hk' i i.isLt
  simp only [lvl]
  rw [hrec, hdt k hk', hb k hk' i]
  have : ∑ j ∈ range n, (form (ts.getD k 0)).op i j * rd (levels.getD k #[]) j
      = (A *ᵥ lvl n levels k) i := by
    rw [← Fin.sum_univ_eq_sum_range (fun j => (form (ts.getD k 0)).op i j * rd (levels.getD k #[]) j) n]
    simp only [Matrix.mulVec, dotProduct, lvl]
    exact Finset.sum_congr rfl fun j _ => by rw [hA k hk' i j]
  rw [this]
  simp only [Matrix.add_mulVec, Matrix.one_mulVec, Matrix.smul_mulVec, Pi.add_apply, Pi.smul_apply,
    smul_eq_mul, lvl]
  ring

/-- one backward step in matrix form: `(I − dt·A) u_{k+1} = u_k + dt·b` -/
lemma bwd_step_matrix {I : Type} (n : ℕ) (form : R → Form R)
    (solver : Mat R → Vec R → SolverRet (Vec R) I) (hs : SolverCorrect n solver) (ts : List R)
    (levels : List (Array R)) (info : Option (List I))
    (h : solveTime n .backward form solver ts = .ok (levels, info))
    (dt : R) (hdt : UniformStep ts dt) (A : Matrix (Fin n) (Fin n) R) (b : Fin n → R)
    (hA : ∀ k, k + 1 < ts.length → ∀ i j : Fin n, (form (ts.getD (k + 1) 0)).op i j = A i j)
    (hb : ∀ k, k + 1 < ts.length → ∀ i : Fin n, (form (ts.getD (k + 1) 0)).src i = b i)
    (k : ℕ) (hk' : k + 1 < ts.length) :
    (1 - dt • A) *ᵥ lvl n levels (k + 1) = lvl n levels k + dt • b := by
  funext i
  have hrec := euler_backward_recurrence n form solver hs ts levels info h k hk' i i.isLt
  rw [hdt k hk', hb k hk' i] at hrec
  have : ∑ j ∈ range n, (form (ts.getD (k + 1) 0)).op i j * rd (levels.getD (k + 1) #[]) j
      = (A *ᵥ lvl n levels (k + 1)) i := by
    rw [← Fin.sum_univ_eq_sum_range
      (fun j => (form (ts.getD (k + 1) 0)).op i j * rd (levels.getD (k + 1) #[]) j) n]
    simp only [Matrix.mulVec, dotProduct, lvl]
    exact Finset.sum_congr rfl fun j _ => by rw [hA k hk' i j]
  rw [this] at hrec
  simp only [Matrix.sub_mulVec, Matrix.one_mulVec, Matrix.smul_mulVec, Pi.add_apply, Pi.sub_apply,
    Pi.smul_apply, smul_eq_mul]
  simp only [lvl] at hrec ⊢
  linear_combination hrec

/-- **euler_backward_closed_form.**  Same setting, backward method with a correct linear solver
    (operator and source constant on the grid times `t_1, t_2, …` at which the backward loop
    assembles): `(I − dt·A)^k u_k = u_0 + Σ_{j<k} (I − dt·A)^j (dt·b)`.  No invertibility is assumed:
    this is what the certificate "the solver solves the system it is handed" gives. -/
theorem euler_backward_closed_form {I : Type} (n : ℕ) (form : R → Form R)
    (solver : Mat R → Vec R → SolverRet (Vec R) I) (hs : SolverCorrect n solver) (ts : List R)
    (levels : List (Array R)) (info : Option (List I))
    (h : solveTime n .backward form solver ts = .ok (levels, info))
    (dt : R) (hdt : UniformStep ts dt) (A : Matrix (Fin n) (Fin n) R) (b : Fin n → R)
    (hA : ∀ k, k + 1 < ts.length → ∀ i j : Fin n, (form (ts.getD (k + 1) 0)).op i j = A i j)
    (hb : ∀ k, k + 1 < ts.length → ∀ i : Fin n, (form (ts.getD (k + 1) 0)).src i = b i)
    (k : ℕ) (hk : k < ts.length) :
    ((1 - dt • A) ^ k) *ᵥ lvl n levels k = lvl n levels 0
      + ∑ j ∈ range k, ((1 - dt • A) ^ j) *ᵥ (dt • b) := by
  refine implicit_rec_closed (1 - dt • A) (dt • b) (lvl n levels) (ts.length - 1) ?_ k (by omega)
  intro k hk
  exact bwd_step_matrix n form solver hs ts levels info h dt hdt A b hA hb k (by omega)

/-- **euler_backward_closed_form_inv.**  If moreover `I − dt·A` is invertible (its determinant is a
    unit — over a field: non-zero), the levels themselves are
    `u_k = (I − dt·A)⁻ᵏ u_0 + Σ_{j<k} (I − dt·A)⁻⁽ʲ⁺¹⁾ (dt·b)`. -/
theorem euler_backward_closed_form_inv {I : Type} (n : ℕ) (form : R → Form R)
    (solver : Mat R → Vec R → SolverRet (Vec R) I) (hs : SolverCorrect n solver) (ts : List R)
    (levels : List (Array R)) (info : Option (List I))
    (h : solveTime n .backward form solver ts = .ok (levels, info))
    (dt : R) (hdt : UniformStep ts dt) (A : Matrix (Fin n) (Fin n) R) (b : Fin n → R)
    (hA : ∀ k, k + 1 < ts.length → ∀ i j : Fin n, (form (ts.getD (k + 1) 0)).op i j = A i j)
    (hb : ∀ k, k + 1 < ts.length → ∀ i : Fin n, (form (ts.getD (k + 1) 0)).src i = b i)
    (hdet : IsUnit (1 - dt • A).det) (k : ℕ) (hk : k < ts.length) :
    lvl n levels k = ((1 - dt • A)⁻¹ ^ k) *ᵥ lvl n levels 0
      + ∑ j ∈ range k, ((1 - dt • A)⁻¹ ^ (j + 1)) *ᵥ (dt • b) := by
  have key := affine_rec_closed (1 - dt • A)⁻¹ ((1 - dt • A)⁻¹ *ᵥ (dt • b)) (lvl n levels)
    (ts.length - 1) ?_ k (by omega)
  · rw [key]
    congr 1
    exact Finset.sum_congr rfl fun j _ => by rw [Matrix.mulVec_mulVec, ← pow_succ]
  · intro k hk
    have hstep := bwd_step_matrix n form solver hs ts levels info h dt hdt A b hA hb k (by omega)
    rw [← Matrix.mulVec_add, ← hstep, Matrix.mulVec_mulVec, Matrix.nonsing_inv_mul _ hdet,
      Matrix.one_mulVec]

/-! ### the scalar test equation `u' = λ u` -/

/-- the uniform time grid `t0, t0 + dt, …, t0 + N·dt` (`np.linspace(t0, t0 + N*dt, N + 1)`) -/
def uniformGrid (t0 dt : R) (N : ℕ) : List R := (List.range (N + 1)).map fun (k : ℕ) => t0 + (k : R) * dt

@[simp] lemma uniformGrid_length (t0 dt : R) (N : ℕ) : (uniformGrid t0 dt N).length = N + 1 := by
  simp [uniformGrid]

lemma uniformGrid_getD (t0 dt : R) (N k : ℕ) (hk : k ≤ N) :
    (uniformGrid t0 dt N).getD k 0 = t0 + (k : R) * dt := by
  unfold uniformGrid
  rw [List.getD_eq_getElem?_getD, List.getElem?_map, List.getElem?_range (by omega)]
  rfl

lemma uniformGrid_uniform (t0 dt : R) (N : ℕ) : UniformStep (uniformGrid t0 dt N) dt := by
  intro k hk
  simp only [uniformGrid_length] at hk
  rw [uniformGrid_getD _ _ _ _ (by omega), uniformGrid_getD _ _ _ _ (by omega)]
  push_cast
  ring

lemma uniformGrid_ne_nil (t0 dt : R) (N : ℕ) : uniformGrid t0 dt N ≠ [] := by
  intro h
  have := congrArg List.length h
  simp at this

/-- level 0 is the initial condition at the first grid time (grid given as a list, both methods) -/
lemma level_zero_ic {I : Type} (n : ℕ) (m : Method) (form : R → Form R)
    (solver : Mat R → Vec R → SolverRet (Vec R) I) (ts : List R) (levels : List (Array R))
    (info : Option (List I)) (h : solveTime n m form solver ts = .ok (levels, info))
    (i : ℕ) (hi : i < n) : rd (levels.getD 0 #[]) i = (form (ts.getD 0 0)).ic i := by
  cases ts with
  | nil => simp [solveTime] at h
  | cons t0 rest => simpa using level_zero_initial_condition n m form solver t0 rest levels info h i hi

/-- the forward method always returns (it never consults the solver) -/
lemma solveTime_forward_ok {I : Type} (n : ℕ) (form : R → Form R)
    (solver : Mat R → Vec R → SolverRet (Vec R) I) (ts : List R) (hts : ts ≠ []) :
    ∃ levels, solveTime n .forward form solver ts = .ok (levels, none) := by
  cases ts with
  | nil => exact absurd rfl hts
  | cons t0 rest => exact ⟨_, rfl⟩

/-- **forward_test_equation_levels.**  For the scalar test equation `u' = λ u` (`n = 1`, operator `λ`
    and zero source at the grid times) on a uniform grid the forward-Euler levels are
    `u_k = (1 + dt·λ)^k u_0` — the amplification factor of the textbook. -/
theorem forward_test_equation_levels {I : Type} (form : R → Form R)
    (solver : Mat R → Vec R → SolverRet (Vec R) I) (ts : List R) (levels : List (Array R))
    (info : Option (List I)) (h : solveTime 1 .forward form solver ts = .ok (levels, info))
    (dt lam : R) (hdt : UniformStep ts dt)
    (hlam : ∀ k, k + 1 < ts.length → (form (ts.getD k 0)).op 0 0 = lam)
    (hsrc : ∀ k, k + 1 < ts.length → (form (ts.getD k 0)).src 0 = 0)
    (k : ℕ) (hk : k < ts.length) :
    rd (levels.getD k #[]) 0 = (1 + dt * lam) ^ k * rd (levels.getD 0 #[]) 0 := by
  induction k with
  | zero => simp
  | succ k ih =>
    have hrec := euler_forward_recurrence 1 form solver ts levels info h k hk 0 (by norm_num)
    rw [hrec, Finset.sum_range_one, hdt k hk, hlam k hk, hsrc k hk, ih (by omega)]
    ring

/-- **backward_test_equation_levels.**  Same for the backward method with a correct solver:
    `(1 − dt·λ)^k u_k = u_0`. -/
theorem backward_test_equation_levels {I : Type} (form : R → Form R)
    (solver : Mat R → Vec R → SolverRet (Vec R) I) (hs : SolverCorrect 1 solver) (ts : List R)
    (levels : List (Array R)) (info : Option (List I))
    (h : solveTime 1 .backward form solver ts = .ok (levels, info))
    (dt lam : R) (hdt : UniformStep ts dt)
    (hlam : ∀ k, k + 1 < ts.length → (form (ts.getD (k + 1) 0)).op 0 0 = lam)
    (hsrc : ∀ k, k + 1 < ts.length → (form (ts.getD (k + 1) 0)).src 0 = 0)
    (k : ℕ) (hk : k < ts.length) :
    (1 - dt * lam) ^ k * rd (levels.getD k #[]) 0 = rd (levels.getD 0 #[]) 0 := by
  induction k with
  | zero => simp
  | succ k ih =>
    have hrec := euler_backward_recurrence 1 form solver hs ts levels info h k hk 0 (by norm_num)
    rw [Finset.sum_range_one, hdt k hk, hlam k hk, hsrc k hk] at hrec
    rw [← ih (by omega)]
    linear_combination (1 - dt * lam) ^ k * hrec

section ordered
variable {K : Type} [Field K] [LinearOrder K] [IsStrictOrderedRing K]

/-- **forward_euler_stable_of_amplification_le_one.**  `|1 + dt·λ| ≤ 1` ⇒ no forward-Euler level of
    the test equation exceeds the initial value in modulus (on any uniform grid with that step). -/
theorem forward_euler_stable_of_amplification_le_one {I : Type} (form : K → Form K)
    (solver : Mat K → Vec K → SolverRet (Vec K) I) (ts : List K) (levels : List (Array K))
    (info : Option (List I)) (h : solveTime 1 .forward form solver ts = .ok (levels, info))
    (dt lam : K) (hdt : UniformStep ts dt)
    (hlam : ∀ k, k + 1 < ts.length → (form (ts.getD k 0)).op 0 0 = lam)
    (hsrc : ∀ k, k + 1 < ts.length → (form (ts.getD k 0)).src 0 = 0)
    (hstab : |1 + dt * lam| ≤ 1) (k : ℕ) (hk : k < ts.length) :
    |rd (levels.getD k #[]) 0| ≤ |rd (levels.getD 0 #[]) 0| := by
  rw [forward_test_equation_levels form solver ts levels info h dt lam hdt hlam hsrc k hk, abs_mul,
    abs_pow]
  exact mul_le_of_le_one_left (abs_nonneg _) (pow_le_one₀ (abs_nonneg _) hstab)

/-- **forward_euler_stable_iff.**  The stability region of the coded forward method: for the test
    equation `u' = λ u`, `u(t0) = u0 ≠ 0`, stepped with a fixed `dt`, the levels stay bounded (over
    all grid lengths `N` and all levels) **iff** `|1 + dt·λ| ≤ 1`. -/
theorem forward_euler_stable_iff [Archimedean K] {I : Type} (form : K → Form K)
    (solver : Mat K → Vec K → SolverRet (Vec K) I) (t0 dt lam u0 : K) (hu0 : u0 ≠ 0)
    (hform : ∀ t, (form t).op 0 0 = lam ∧ (form t).src 0 = 0 ∧ (form t).ic 0 = u0) :
    (∃ C, ∀ N levels info, solveTime 1 .forward form solver (uniformGrid t0 dt N) = .ok (levels, info) →
        ∀ k, k ≤ N → |rd (levels.getD k #[]) 0| ≤ C) ↔ |1 + dt * lam| ≤ 1 := by
  have hlev : ∀ N levels info, solveTime 1 .forward form solver (uniformGrid t0 dt N) = .ok (levels, info) →
      ∀ k, k ≤ N → rd (levels.getD k #[]) 0 = (1 + dt * lam) ^ k * u0 := by
    intro N levels info h k hk
    have h0 : rd (levels.getD 0 #[]) 0 = u0 := by
      rw [level_zero_ic 1 _ form solver _ levels info h 0 (by norm_num)]
      exact (hform _).2.2
    rw [forward_test_equation_levels form solver _ levels info h dt lam (uniformGrid_uniform t0 dt N)
      (fun _ _ => (hform _).1) (fun _ _ => (hform _).2.1) k (by simp; omega), h0]
  constructor
  · rintro ⟨C, hC⟩
    by_contra hnot
    have hgt : 1 < |1 + dt * lam| := lt_of_not_ge hnot
    have hu0' : 0 < |u0| := abs_pos.mpr hu0
    obtain ⟨N, hN⟩ := pow_unbounded_of_one_lt (C / |u0|) hgt
    obtain ⟨levels, hl⟩ := solveTime_forward_ok 1 form solver _ (uniformGrid_ne_nil t0 dt N)
    have := hC N levels none hl N le_rfl
    rw [hlev N levels none hl N le_rfl, abs_mul, abs_pow] at this
    rw [div_lt_iff₀ hu0'] at hN
    exact absurd this (not_le.mpr hN)
  · intro hstab
    refine ⟨|u0|, fun N levels info h k hk => ?_⟩
    rw [hlev N levels info h k hk, abs_mul, abs_pow]
    exact mul_le_of_le_one_left (abs_nonneg _) (pow_le_one₀ (abs_nonneg _) hstab)

/-- **backward_euler_unconditionally_stable.**  For `λ ≤ 0` and *every* step `dt ≥ 0` (no restriction
    tying `dt` to `λ`) the backward-Euler levels of the test equation are non-increasing in modulus,
    hence bounded by the initial value — whatever correct linear solver is supplied. -/
theorem backward_euler_unconditionally_stable {I : Type} (form : K → Form K)
    (solver : Mat K → Vec K → SolverRet (Vec K) I) (hs : SolverCorrect 1 solver) (ts : List K)
    (levels : List (Array K)) (info : Option (List I))
    (h : solveTime 1 .backward form solver ts = .ok (levels, info))
    (dt lam : K) (hdt : UniformStep ts dt)
    (hlam : ∀ k, k + 1 < ts.length → (form (ts.getD (k + 1) 0)).op 0 0 = lam)
    (hsrc : ∀ k, k + 1 < ts.length → (form (ts.getD (k + 1) 0)).src 0 = 0)
    (hl : lam ≤ 0) (hpos : 0 ≤ dt) :
    (∀ k, k + 1 < ts.length → |rd (levels.getD (k + 1) #[]) 0| ≤ |rd (levels.getD k #[]) 0|)
    ∧ ∀ k, k < ts.length → |rd (levels.getD k #[]) 0| ≤ |rd (levels.getD 0 #[]) 0| := by
  have hge : 1 ≤ 1 - dt * lam := by nlinarith
  have hstep : ∀ k, k + 1 < ts.length → |rd (levels.getD (k + 1) #[]) 0| ≤ |rd (levels.getD k #[]) 0| := by
    intro k hk
    have hrec := euler_backward_recurrence 1 form solver hs ts levels info h k hk 0 (by norm_num)
    rw [Finset.sum_range_one, hdt k hk, hlam k hk, hsrc k hk] at hrec
    have : rd (levels.getD k #[]) 0 = (1 - dt * lam) * rd (levels.getD (k + 1) #[]) 0 := by
      linear_combination (-1 : K) * hrec
    rw [this, abs_mul, abs_of_nonneg (by linarith : (0 : K) ≤ 1 - dt * lam)]
    exact le_mul_of_one_le_left (abs_nonneg _) hge
  refine ⟨hstep, ?_⟩
  intro k
  induction k with
  | zero => intro _; exact le_rfl
  | succ k ih => intro hk; exact (hstep k hk).trans (ih (by omega))

end ordered

/-! ### non-vacuity of section 1 -/

lemma ok_of_isOk {ε α : Type} (e : Except ε α) (h : e.isOk = true) : ∃ a, e = .ok a := by
  cases e with
  | error _ => simp [Except.isOk, Except.toBool] at h
  | ok a => exact ⟨a, rfl⟩

/-- a 2-node heat-type system `u' = A u + b`, `A = [[-2,1],[1,-2]]`, `b = (1,0)`, `u(0) = (1,2)` -/
def heatA : Matrix (Fin 2) (Fin 2) ℚ := !![-2, 1; 1, -2]
def heatB : Fin 2 → ℚ := ![1, 0]
def heatForm (_ : ℚ) : Form ℚ := ⟨ofM heatA, ofV heatB, ofV ![1, 2]⟩

example : ∃ levels, solveTime 2 .forward heatForm divSolver (uniformGrid 0 (1/4) 3) = .ok (levels, none)
    ∧ ∀ k, k < 4 → lvl 2 levels k = ((1 + (1/4 : ℚ) • heatA) ^ k) *ᵥ lvl 2 levels 0
        + ∑ j ∈ range k, ((1 + (1/4 : ℚ) • heatA) ^ j) *ᵥ ((1/4 : ℚ) • heatB) := by
  obtain ⟨levels, h⟩ := solveTime_forward_ok 2 heatForm divSolver _ (uniformGrid_ne_nil 0 (1/4) 3)
  exact ⟨levels, h, fun k hk => euler_forward_closed_form 2 heatForm divSolver _ levels none h (1/4)
    (uniformGrid_uniform _ _ _) heatA heatB (fun _ _ i j => ofM_apply heatA i j)
    (fun _ _ i => ofV_apply heatB i) k (by simpa using hk)⟩

/-- the scalar decay equation `u' = -3u + 1`, `u(0) = 4` -/
def decayForm (_ : ℚ) : Form ℚ := ⟨fun _ _ => -3, fun _ => 1, fun _ => 4⟩

example : ∃ levels info, solveTime 1 .backward decayForm divSolver (uniformGrid 0 (1/2) 2) = .ok (levels, info)
    ∧ ∀ k, k < 3 → ((1 - (1/2 : ℚ) • (!![-3] : Matrix (Fin 1) (Fin 1) ℚ)) ^ k) *ᵥ lvl 1 levels k
        = lvl 1 levels 0 + ∑ j ∈ range k, ((1 - (1/2 : ℚ) • (!![-3] : Matrix (Fin 1) (Fin 1) ℚ)) ^ j) *ᵥ ((1/2 : ℚ) • ![1]) := by
  obtain ⟨⟨levels, info⟩, h⟩ := ok_of_isOk (solveTime 1 .backward decayForm divSolver (uniformGrid 0 (1/2) 2))
    (by norm_num [uniformGrid, List.range, List.range.loop, solveTime, bwdLevels, divSolver, unpack, bwdMat,
      bwdRhs, decayForm, eye, rd, tab, Except.isOk, Except.toBool])
  exact ⟨levels, info, h, fun k hk => euler_backward_closed_form 1 decayForm divSolver divSolver_correct _
    levels info h (1/2) (uniformGrid_uniform _ _ _) !![-3] ![1]
    (fun _ _ i j => by fin_cases i; fin_cases j; rfl) (fun _ _ i => by fin_cases i; rfl) k (by simpa using hk)⟩

/-- the test equation `u' = -3u`, `u(0) = 4`: `dt = 1/2` is inside the forward stability region
    (`|1 - 3/2| ≤ 1`), `dt = 1` is not (`|1 - 3| = 2`) -/
def testForm (_ : ℚ) : Form ℚ := ⟨fun _ _ => -3, fun _ => 0, fun _ => 4⟩

example : ∃ C, ∀ N levels info, solveTime 1 .forward testForm divSolver (uniformGrid 0 (1/2) N) = .ok (levels, info) →
    ∀ k, k ≤ N → |rd (levels.getD k #[]) 0| ≤ C :=
  (forward_euler_stable_iff testForm divSolver 0 (1/2) (-3) 4 (by norm_num) (fun _ => ⟨rfl, rfl, rfl⟩)).mpr
    (by norm_num [abs_le])

example : ¬ ∃ C, ∀ N levels info, solveTime 1 .forward testForm divSolver (uniformGrid 0 1 N) = .ok (levels, info) →
    ∀ k, k ≤ N → |rd (levels.getD k #[]) 0| ≤ C := by
  rw [forward_euler_stable_iff testForm divSolver 0 1 (-3) 4 (by norm_num) (fun _ => ⟨rfl, rfl, rfl⟩)]
  norm_num [abs_le]

/-! ## 5. `method` strings: the case-variant names

`Method.ofString` (Model/C18) validates with core `String.toLower`, which does not reduce by
`decide` on its own; through core's `String.toList_map` it becomes `List.map Char.toLower` on the
character list, which does.  The statements below are therefore about the model's own
`Method.ofString` (not about a re-implementation). -/

/-- lower-casing a string = lower-casing its character list (ASCII letters only, `Char.toLower`) -/
lemma toLower_eq_iff (s t : String) : s.toLower = t ↔ s.toList.map Char.toLower = t.toList := by
  rw [← String.toList_map]
  exact ⟨fun h => by rw [← h]; rfl, fun h => String.toList_injective h⟩

/-- **method_ofString_spec.**  Complete description of the `method` setter on *every* string: the two
    literals select the two loops; a string that is neither literal but whose ASCII lower-casing is
    one of them is accepted and stored verbatim (`otherCase`); every other string is refused
    (`ValueError`). -/
theorem method_ofString_spec (s : String) :
    (Method.ofString s = some .forward ↔ s = "forward_euler")
    ∧ (Method.ofString s = some .backward ↔ s = "backward_euler")
    ∧ (Method.ofString s = some .otherCase ↔ s ≠ "forward_euler" ∧ s ≠ "backward_euler" ∧
        (s.toList.map Char.toLower = "forward_euler".toList
          ∨ s.toList.map Char.toLower = "backward_euler".toList))
    ∧ (Method.ofString s = none ↔ s.toList.map Char.toLower ≠ "forward_euler".toList
          ∧ s.toList.map Char.toLower ≠ "backward_euler".toList) := by
  have hne : ("backward_euler" : String) ≠ "forward_euler" := by decide
  have hf : ("forward_euler" : String).toLower = "forward_euler" := (toLower_eq_iff _ _).mpr (by decide)
  have hb : ("backward_euler" : String).toLower = "backward_euler" := (toLower_eq_iff _ _).mpr (by decide)
  rw [← toLower_eq_iff s "forward_euler", ← toLower_eq_iff s "backward_euler"]
  unfold Method.ofString
  by_cases h1 : s = "forward_euler"
  · subst h1; simp [hf]
  · by_cases h2 : s = "backward_euler"
    · subst h2; simp [hne, hb]
    · by_cases h3 : s.toLower = "forward_euler" ∨ s.toLower = "backward_euler"
      · simp [h1, h2, h3]
        intro hP
        rcases h3 with h | h
        · exact absurd ((toLower_eq_iff _ _).mp h) hP
        · exact (toLower_eq_iff _ _).mp h
      · simp only [h1, h2, h3, if_false]
        rw [not_or] at h3
        simp [h3.1, h3.2]
        exact ⟨fun h => h3.1 ((toLower_eq_iff _ _).mpr h), fun h => h3.2 ((toLower_eq_iff _ _).mpr h)⟩

/-- **method_case_variant_refused.**  Any `method` string that differs from `'forward_euler'` /
    `'backward_euler'` only in the case of its letters passes the setter, and `solve()` then returns
    no value on any non-empty time grid: it dies on the unbound `info` (`UnboundLocalError`) — loud,
    never a wrong solution. -/
theorem method_case_variant_refused {I : Type} (s : String)
    (hcase : s.toList.map Char.toLower = "forward_euler".toList
      ∨ s.toList.map Char.toLower = "backward_euler".toList)
    (h1 : s ≠ "forward_euler") (h2 : s ≠ "backward_euler")
    (n : ℕ) (form : R → Form R) (solver : Mat R → Vec R → SolverRet (Vec R) I) (ts : List R) (hts : ts ≠ []) :
    ∃ m, Method.ofString s = some m ∧ solveTime n m form solver ts = .error .unboundLocal :=
  ⟨.otherCase, (method_ofString_spec s).2.2.1.mpr ⟨h1, h2, hcase⟩,
    (unbound_info_refusals n form solver (0 : R) ts).2 hts⟩

/-- concrete case variants (and strings that are refused outright) -/
theorem method_case_variant_instances :
    Method.ofString "Forward_Euler" = some .otherCase
    ∧ Method.ofString "BACKWARD_EULER" = some .otherCase
    ∧ Method.ofString "backward_Euler" = some .otherCase
    ∧ Method.ofString "forward euler" = none
    ∧ Method.ofString "crank_nicolson" = none
    ∧ Method.ofString "" = none := by
  refine ⟨?_, ?_, ?_, ?_, ?_, ?_⟩
  · exact (method_ofString_spec _).2.2.1.mpr ⟨by decide, by decide, by decide⟩
  · exact (method_ofString_spec _).2.2.1.mpr ⟨by decide, by decide, by decide⟩
  · exact (method_ofString_spec _).2.2.1.mpr ⟨by decide, by decide, by decide⟩
  · exact (method_ofString_spec _).2.2.2.mpr ⟨by decide, by decide⟩
  · exact (method_ofString_spec _).2.2.2.mpr ⟨by decide, by decide⟩
  · exact (method_ofString_spec _).2.2.2.mpr ⟨by decide, by decide⟩

example : ∃ m, Method.ofString "Forward_Euler" = some m
    ∧ solveTime 1 m decayForm divSolver [0, 1/2, 2] = .error .unboundLocal :=
  method_case_variant_refused "Forward_Euler" (by decide) (by decide) (by decide) 1 decayForm divSolver _
    (by simp)

end CuqiVerif.C18
