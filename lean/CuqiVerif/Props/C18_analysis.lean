import CuqiVerif.Props.C18
import CuqiVerif.Proofs.C18_analysis
import Mathlib.Algebra.Order.Archimedean.Basic
import Mathlib.Algebra.Order.AbsoluteValue.Basic
import Mathlib.Tactic.Positivity
import Mathlib.LinearAlgebra.Matrix.Notation
import Mathlib.Tactic.FinCases
import Mathlib.Analysis.SpecialFunctions.Complex.LogBounds

/-!
# C18 — analysis theorems (second pass)

The first pass (`Props/C18.lean`) proved the one-step relations of the two time loops, the
steady certificate, the observation branches and the `PDEModel` dispatch.  This file says what those
mean, about the **same executable definitions** of `Model/C18.lean` (`solveTime`, `Steady.solve`,
`observeTime`, `observeSteady`, `pdeModelForward`, `gradientFunc`, `Method.ofString`; the driver
runs them at `R = Rat`, the theorems hold for every commutative ring / ordered field / over `ℝ` as
stated):

1. closed forms of the levels for constant-coefficient linear systems on uniform grids
   (`(I + dt A)^k`, `(I − dt A)^k` as Mathlib matrix powers), the scalar test equation: amplification
   factors, the forward stability region `|1 + dt λ| ≤ 1` (an *iff*), unconditional stability of the
   backward method for `λ ≤ 0`;
2. linear PDE forms (operator independent of the parameter, source / initial condition / right-hand
   side linear in it) give levels, steady solutions and whole `PDEModel.forward` pipelines that are
   linear in the parameter; the Jacobian is the pipeline applied to the unit vectors;
3. the sensitivity formula `du/ds = A⁻¹(b' − A' u)` for `Steady.solve` over `ℝ` by implicit
   differentiation (differentiability of `u` is proved), for linear observations, and "what
   `_gradient_func` returns is the derivative" for a Jacobian supplied column-wise in this way;
4. the time-dependent pipeline of `PDEModel.forward` spelled out; `time_obs='final'` ↦ last level index;
   observed column `b` = level index of `time_obs[b]`; `time_obs='all'` ↦ column `j` = level `j`;
5. the `method` setter on every string (through core's `String.toList_map`, so about the model's
   own `Method.ofString`), case variants are accepted and then refused loudly by `solve`;
6. convergence of both methods to `u0·e^{λT}` for the test equation as the grid is refined (`ℝ`).

New notation: `toM n A`, `toV n v` (Proofs/C18_analysis: leading block of a model matrix / vector as a
Mathlib `Matrix (Fin n) (Fin n) R` / `Fin n → R`; `ofM`, `ofV` the converse), `lvl n levels k` (level
`k` as a Mathlib vector), `uniformGrid t0 dt N`, `LinearInParam`, `Nonsing`, `levelOf`, `steadyPDE` /
`timePDE` / `levelsToRows` / `vecL` (the driver's `pipes` / `pipet` objects, `levelsToU`, `vecL` for an
arbitrary ring).
-/
open Finset Matrix

set_option linter.unusedSectionVars false
set_option linter.unusedVariables false
set_option linter.unusedSimpArgs false
set_option autoImplicit false

namespace CuqiVerif.C18

variable {R : Type} [CommRing R]

/-! ## 1. what "solves the discretised equations" means: closed forms and stability -/

/-- level `k` (column `k` of the array `solve()` returns) as a Mathlib vector of length `n` -/
def lvl (n : ℕ) (levels : List (Array R)) (k : ℕ) : Fin n → R := fun i => rd (levels.getD k #[]) i

/-- the grid is uniform with step `dt` -/
def UniformStep (ts : List R) (dt : R) : Prop :=
  ∀ k, k + 1 < ts.length → ts.getD (k + 1) 0 - ts.getD k 0 = dt

/-- **euler_forward_closed_form.**  What "solves the discretised equations" means for a linear system
    `u' = A u + b` with constant `A`, `b` (the form returns the same operator and source at the grid
    times at which the forward loop assembles) on a uniform grid with step `dt`: the stored levels of
    the model's `solveTime … forward` are the textbook closed form
    `u_k = (I + dt·A)^k u_0 + Σ_{j<k} (I + dt·A)^j (dt·b)` (Mathlib matrices; `lvl n levels k` is column
    `k` of the returned array), with `u_0` the form's initial condition (`level_zero_initial_condition`). -/
theorem euler_forward_closed_form {I : Type} (n : ℕ) (form : R → Form R)
    (solver : Mat R → Vec R → SolverRet (Vec R) I) (ts : List R) (levels : List (Array R))
    (info : Option (List I)) (h : solveTime n .forward form solver ts = .ok (levels, info))
    (dt : R) (hdt : UniformStep ts dt) (A : Matrix (Fin n) (Fin n) R) (b : Fin n → R)
    (hA : ∀ k, k + 1 < ts.length → ∀ i j : Fin n, (form (ts.getD k 0)).op i j = A i j)
    (hb : ∀ k, k + 1 < ts.length → ∀ i : Fin n, (form (ts.getD k 0)).src i = b i)
    (k : ℕ) (hk : k < ts.length) :
    lvl n levels k = ((1 + dt • A) ^ k) *ᵥ lvl n levels 0
      + ∑ j ∈ range k, ((1 + dt • A) ^ j) *ᵥ (dt • b) := by
  refine affine_rec_closed (1 + dt • A) (dt • b) (lvl n levels) (ts.length - 1) ?_ k (by omega)
  intro k hk
  have hk' : k + 1 < ts.length := by omega
  funext i
  have hrec := euler_forward_recurrence n form solver ts levels info h k hk' i i.isLt
  simp only [lvl]
  rw [hrec, hdt k hk', hb k hk' i]
  have : ∑ j ∈ range n, (form (ts.getD k 0)).op i j * rd (levels.getD k #[]) j
      = (A *ᵥ lvl n levels k) i := by
    rw [← Fin.sum_univ_eq_sum_range (fun j => (form (ts.getD k 0)).op i j * rd (levels.getD k #[]) j) n]
    simp only [Matrix.mulVec, dotProduct, lvl]
    exact Finset.sum_congr rfl fun j _ => by rw [hA k hk' i j]
  rw [this]
  simp only [Matrix.add_mulVec, Matrix.one_mulVec, Matrix.smul_mulVec, Pi.add_apply, Pi.smul_apply,
    smul_eq_mul, lvl]
  ring

/-- one backward step in matrix form: `(I − dt·A) u_{k+1} = u_k + dt·b` -/
lemma bwd_step_matrix {I : Type} (n : ℕ) (form : R → Form R)
    (solver : Mat R → Vec R → SolverRet (Vec R) I) (hs : SolverCorrect n solver) (ts : List R)
    (levels : List (Array R)) (info : Option (List I))
    (h : solveTime n .backward form solver ts = .ok (levels, info))
    (dt : R) (hdt : UniformStep ts dt) (A : Matrix (Fin n) (Fin n) R) (b : Fin n → R)
    (hA : ∀ k, k + 1 < ts.length → ∀ i j : Fin n, (form (ts.getD (k + 1) 0)).op i j = A i j)
    (hb : ∀ k, k + 1 < ts.length → ∀ i : Fin n, (form (ts.getD (k + 1) 0)).src i = b i)
    (k : ℕ) (hk' : k + 1 < ts.length) :
    (1 - dt • A) *ᵥ lvl n levels (k + 1) = lvl n levels k + dt • b := by
  funext i
  have hrec := euler_backward_recurrence n form solver hs ts levels info h k hk' i i.isLt
  rw [hdt k hk', hb k hk' i] at hrec
  have : ∑ j ∈ range n, (form (ts.getD (k + 1) 0)).op i j * rd (levels.getD (k + 1) #[]) j
      = (A *ᵥ lvl n levels (k + 1)) i := by
    rw [← Fin.sum_univ_eq_sum_range
      (fun j => (form (ts.getD (k + 1) 0)).op i j * rd (levels.getD (k + 1) #[]) j) n]
    simp only [Matrix.mulVec, dotProduct, lvl]
    exact Finset.sum_congr rfl fun j _ => by rw [hA k hk' i j]
  rw [this] at hrec
  simp only [Matrix.sub_mulVec, Matrix.one_mulVec, Matrix.smul_mulVec, Pi.add_apply, Pi.sub_apply,
    Pi.smul_apply, smul_eq_mul]
  simp only [lvl] at hrec ⊢
  linear_combination hrec

/-- **euler_backward_closed_form.**  Same setting, backward method with a correct linear solver
    (operator and source constant on the grid times `t_1, t_2, …` at which the backward loop
    assembles): `(I − dt·A)^k u_k = u_0 + Σ_{j<k} (I − dt·A)^j (dt·b)`.  No invertibility is assumed:
    this is what the certificate "the solver solves the system it is handed" gives. -/
theorem euler_backward_closed_form {I : Type} (n : ℕ) (form : R → Form R)
    (solver : Mat R → Vec R → SolverRet (Vec R) I) (hs : SolverCorrect n solver) (ts : List R)
    (levels : List (Array R)) (info : Option (List I))
    (h : solveTime n .backward form solver ts = .ok (levels, info))
    (dt : R) (hdt : UniformStep ts dt) (A : Matrix (Fin n) (Fin n) R) (b : Fin n → R)
    (hA : ∀ k, k + 1 < ts.length → ∀ i j : Fin n, (form (ts.getD (k + 1) 0)).op i j = A i j)
    (hb : ∀ k, k + 1 < ts.length → ∀ i : Fin n, (form (ts.getD (k + 1) 0)).src i = b i)
    (k : ℕ) (hk : k < ts.length) :
    ((1 - dt • A) ^ k) *ᵥ lvl n levels k = lvl n levels 0
      + ∑ j ∈ range k, ((1 - dt • A) ^ j) *ᵥ (dt • b) := by
  refine implicit_rec_closed (1 - dt • A) (dt • b) (lvl n levels) (ts.length - 1) ?_ k (by omega)
  intro k hk
  exact bwd_step_matrix n form solver hs ts levels info h dt hdt A b hA hb k (by omega)

/-- **euler_backward_closed_form_inv.**  If moreover `I − dt·A` is invertible (its determinant is a
    unit — over a field: non-zero), the levels themselves are
    `u_k = (I − dt·A)⁻ᵏ u_0 + Σ_{j<k} (I − dt·A)⁻⁽ʲ⁺¹⁾ (dt·b)`. -/
theorem euler_backward_closed_form_inv {I : Type} (n : ℕ) (form : R → Form R)
    (solver : Mat R → Vec R → SolverRet (Vec R) I) (hs : SolverCorrect n solver) (ts : List R)
    (levels : List (Array R)) (info : Option (List I))
    (h : solveTime n .backward form solver ts = .ok (levels, info))
    (dt : R) (hdt : UniformStep ts dt) (A : Matrix (Fin n) (Fin n) R) (b : Fin n → R)
    (hA : ∀ k, k + 1 < ts.length → ∀ i j : Fin n, (form (ts.getD (k + 1) 0)).op i j = A i j)
    (hb : ∀ k, k + 1 < ts.length → ∀ i : Fin n, (form (ts.getD (k + 1) 0)).src i = b i)
    (hdet : IsUnit (1 - dt • A).det) (k : ℕ) (hk : k < ts.length) :
    lvl n levels k = ((1 - dt • A)⁻¹ ^ k) *ᵥ lvl n levels 0
      + ∑ j ∈ range k, ((1 - dt • A)⁻¹ ^ (j + 1)) *ᵥ (dt • b) := by
  have key := affine_rec_closed (1 - dt • A)⁻¹ ((1 - dt • A)⁻¹ *ᵥ (dt • b)) (lvl n levels)
    (ts.length - 1) ?_ k (by omega)
  · rw [key]
    congr 1
    exact Finset.sum_congr rfl fun j _ => by rw [Matrix.mulVec_mulVec, ← pow_succ]
  · intro k hk
    have hstep := bwd_step_matrix n form solver hs ts levels info h dt hdt A b hA hb k (by omega)
    rw [← Matrix.mulVec_add, ← hstep, Matrix.mulVec_mulVec, Matrix.nonsing_inv_mul _ hdet,
      Matrix.one_mulVec]

/-! ### the scalar test equation `u' = λ u` -/

/-- the uniform time grid `t0, t0 + dt, …, t0 + N·dt` (`np.linspace(t0, t0 + N*dt, N + 1)`) -/
def uniformGrid (t0 dt : R) (N : ℕ) : List R := (List.range (N + 1)).map fun (k : ℕ) => t0 + (k : R) * dt

@[simp] lemma uniformGrid_length (t0 dt : R) (N : ℕ) : (uniformGrid t0 dt N).length = N + 1 := by
  simp [uniformGrid]

lemma uniformGrid_getD (t0 dt : R) (N k : ℕ) (hk : k ≤ N) :
    (uniformGrid t0 dt N).getD k 0 = t0 + (k : R) * dt := by
  unfold uniformGrid
  rw [List.getD_eq_getElem?_getD, List.getElem?_map, List.getElem?_range (by omega)]
  rfl

lemma uniformGrid_uniform (t0 dt : R) (N : ℕ) : UniformStep (uniformGrid t0 dt N) dt := by
  intro k hk
  simp only [uniformGrid_length] at hk
  rw [uniformGrid_getD _ _ _ _ (by omega), uniformGrid_getD _ _ _ _ (by omega)]
  push_cast
  ring

lemma uniformGrid_ne_nil (t0 dt : R) (N : ℕ) : uniformGrid t0 dt N ≠ [] := by
  intro h
  have := congrArg List.length h
  simp at this

/-- level 0 is the initial condition at the first grid time (grid given as a list, both methods) -/
lemma level_zero_ic {I : Type} (n : ℕ) (m : Method) (form : R → Form R)
    (solver : Mat R → Vec R → SolverRet (Vec R) I) (ts : List R) (levels : List (Array R))
    (info : Option (List I)) (h : solveTime n m form solver ts = .ok (levels, info))
    (i : ℕ) (hi : i < n) : rd (levels.getD 0 #[]) i = (form (ts.getD 0 0)).ic i := by
  cases ts with
  | nil => simp [solveTime] at h
  | cons t0 rest => simpa using level_zero_initial_condition n m form solver t0 rest levels info h i hi

/-- the forward method always returns (it never consults the solver) -/
lemma solveTime_forward_ok {I : Type} (n : ℕ) (form : R → Form R)
    (solver : Mat R → Vec R → SolverRet (Vec R) I) (ts : List R) (hts : ts ≠ []) :
    ∃ levels, solveTime n .forward form solver ts = .ok (levels, none) := by
  cases ts with
  | nil => exact absurd rfl hts
  | cons t0 rest => exact ⟨_, rfl⟩

/-- **forward_test_equation_levels.**  For the scalar test equation `u' = λ u` (`n = 1`, operator `λ`
    and zero source at the grid times) on a uniform grid the forward-Euler levels are
    `u_k = (1 + dt·λ)^k u_0` — the amplification factor of the textbook. -/
theorem forward_test_equation_levels {I : Type} (form : R → Form R)
    (solver : Mat R → Vec R → SolverRet (Vec R) I) (ts : List R) (levels : List (Array R))
    (info : Option (List I)) (h : solveTime 1 .forward form solver ts = .ok (levels, info))
    (dt lam : R) (hdt : UniformStep ts dt)
    (hlam : ∀ k, k + 1 < ts.length → (form (ts.getD k 0)).op 0 0 = lam)
    (hsrc : ∀ k, k + 1 < ts.length → (form (ts.getD k 0)).src 0 = 0)
    (k : ℕ) (hk : k < ts.length) :
    rd (levels.getD k #[]) 0 = (1 + dt * lam) ^ k * rd (levels.getD 0 #[]) 0 := by
  induction k with
  | zero => simp
  | succ k ih =>
    have hrec := euler_forward_recurrence 1 form solver ts levels info h k hk 0 (by norm_num)
    rw [hrec, Finset.sum_range_one, hdt k hk, hlam k hk, hsrc k hk, ih (by omega)]
    ring

/-- **backward_test_equation_levels.**  Same for the backward method with a correct solver:
    `(1 − dt·λ)^k u_k = u_0`. -/
theorem backward_test_equation_levels {I : Type} (form : R → Form R)
    (solver : Mat R → Vec R → SolverRet (Vec R) I) (hs : SolverCorrect 1 solver) (ts : List R)
    (levels : List (Array R)) (info : Option (List I))
    (h : solveTime 1 .backward form solver ts = .ok (levels, info))
    (dt lam : R) (hdt : UniformStep ts dt)
    (hlam : ∀ k, k + 1 < ts.length → (form (ts.getD (k + 1) 0)).op 0 0 = lam)
    (hsrc : ∀ k, k + 1 < ts.length → (form (ts.getD (k + 1) 0)).src 0 = 0)
    (k : ℕ) (hk : k < ts.length) :
    (1 - dt * lam) ^ k * rd (levels.getD k #[]) 0 = rd (levels.getD 0 #[]) 0 := by
  induction k with
  | zero => simp
  | succ k ih =>
    have hrec := euler_backward_recurrence 1 form solver hs ts levels info h k hk 0 (by norm_num)
    rw [Finset.sum_range_one, hdt k hk, hlam k hk, hsrc k hk] at hrec
    rw [← ih (by omega)]
    linear_combination (1 - dt * lam) ^ k * hrec

section ordered
variable {K : Type} [Field K] [LinearOrder K] [IsStrictOrderedRing K]

/-- **forward_euler_stable_of_amplification_le_one.**  `|1 + dt·λ| ≤ 1` ⇒ no forward-Euler level of
    the test equation exceeds the initial value in modulus (on any uniform grid with that step). -/
theorem forward_euler_stable_of_amplification_le_one {I : Type} (form : K → Form K)
    (solver : Mat K → Vec K → SolverRet (Vec K) I) (ts : List K) (levels : List (Array K))
    (info : Option (List I)) (h : solveTime 1 .forward form solver ts = .ok (levels, info))
    (dt lam : K) (hdt : UniformStep ts dt)
    (hlam : ∀ k, k + 1 < ts.length → (form (ts.getD k 0)).op 0 0 = lam)
    (hsrc : ∀ k, k + 1 < ts.length → (form (ts.getD k 0)).src 0 = 0)
    (hstab : |1 + dt * lam| ≤ 1) (k : ℕ) (hk : k < ts.length) :
    |rd (levels.getD k #[]) 0| ≤ |rd (levels.getD 0 #[]) 0| := by
  rw [forward_test_equation_levels form solver ts levels info h dt lam hdt hlam hsrc k hk, abs_mul,
    abs_pow]
  exact mul_le_of_le_one_left (abs_nonneg _) (pow_le_one₀ (abs_nonneg _) hstab)

/-- **forward_euler_stable_iff.**  The stability region of the coded forward method: for the test
    equation `u' = λ u`, `u(t0) = u0 ≠ 0`, stepped with a fixed `dt`, the levels stay bounded (over
    all grid lengths `N` and all levels) **iff** `|1 + dt·λ| ≤ 1`. -/
theorem forward_euler_stable_iff [Archimedean K] {I : Type} (form : K → Form K)
    (solver : Mat K → Vec K → SolverRet (Vec K) I) (t0 dt lam u0 : K) (hu0 : u0 ≠ 0)
    (hform : ∀ t, (form t).op 0 0 = lam ∧ (form t).src 0 = 0 ∧ (form t).ic 0 = u0) :
    (∃ C, ∀ N levels info, solveTime 1 .forward form solver (uniformGrid t0 dt N) = .ok (levels, info) →
        ∀ k, k ≤ N → |rd (levels.getD k #[]) 0| ≤ C) ↔ |1 + dt * lam| ≤ 1 := by
  have hlev : ∀ N levels info, solveTime 1 .forward form solver (uniformGrid t0 dt N) = .ok (levels, info) →
      ∀ k, k ≤ N → rd (levels.getD k #[]) 0 = (1 + dt * lam) ^ k * u0 := by
    intro N levels info h k hk
    have h0 : rd (levels.getD 0 #[]) 0 = u0 := by
      rw [level_zero_ic 1 _ form solver _ levels info h 0 (by norm_num)]
      exact (hform _).2.2
    rw [forward_test_equation_levels form solver _ levels info h dt lam (uniformGrid_uniform t0 dt N)
      (fun _ _ => (hform _).1) (fun _ _ => (hform _).2.1) k (by simp; omega), h0]
  constructor
  · rintro ⟨C, hC⟩
    by_contra hnot
    have hgt : 1 < |1 + dt * lam| := lt_of_not_ge hnot
    have hu0' : 0 < |u0| := abs_pos.mpr hu0
    obtain ⟨N, hN⟩ := pow_unbounded_of_one_lt (C / |u0|) hgt
    obtain ⟨levels, hl⟩ := solveTime_forward_ok 1 form solver _ (uniformGrid_ne_nil t0 dt N)
    have := hC N levels none hl N le_rfl
    rw [hlev N levels none hl N le_rfl, abs_mul, abs_pow] at this
    rw [div_lt_iff₀ hu0'] at hN
    exact absurd this (not_le.mpr hN)
  · intro hstab
    refine ⟨|u0|, fun N levels info h k hk => ?_⟩
    rw [hlev N levels info h k hk, abs_mul, abs_pow]
    exact mul_le_of_le_one_left (abs_nonneg _) (pow_le_one₀ (abs_nonneg _) hstab)

/-- **backward_euler_unconditionally_stable.**  For `λ ≤ 0` and *every* step `dt ≥ 0` (no restriction
    tying `dt` to `λ`) the backward-Euler levels of the test equation are non-increasing in modulus,
    hence bounded by the initial value — whatever correct linear solver is supplied. -/
theorem backward_euler_unconditionally_stable {I : Type} (form : K → Form K)
    (solver : Mat K → Vec K → SolverRet (Vec K) I) (hs : SolverCorrect 1 solver) (ts : List K)
    (levels : List (Array K)) (info : Option (List I))
    (h : solveTime 1 .backward form solver ts = .ok (levels, info))
    (dt lam : K) (hdt : UniformStep ts dt)
    (hlam : ∀ k, k + 1 < ts.length → (form (ts.getD (k + 1) 0)).op 0 0 = lam)
    (hsrc : ∀ k, k + 1 < ts.length → (form (ts.getD (k + 1) 0)).src 0 = 0)
    (hl : lam ≤ 0) (hpos : 0 ≤ dt) :
    (∀ k, k + 1 < ts.length → |rd (levels.getD (k + 1) #[]) 0| ≤ |rd (levels.getD k #[]) 0|)
    ∧ ∀ k, k < ts.length → |rd (levels.getD k #[]) 0| ≤ |rd (levels.getD 0 #[]) 0| := by
  have hge : 1 ≤ 1 - dt * lam := by nlinarith
  have hstep : ∀ k, k + 1 < ts.length → |rd (levels.getD (k + 1) #[]) 0| ≤ |rd (levels.getD k #[]) 0| := by
    intro k hk
    have hrec := euler_backward_recurrence 1 form solver hs ts levels info h k hk 0 (by norm_num)
    rw [Finset.sum_range_one, hdt k hk, hlam k hk, hsrc k hk] at hrec
    have : rd (levels.getD k #[]) 0 = (1 - dt * lam) * rd (levels.getD (k + 1) #[]) 0 := by
      linear_combination (-1 : K) * hrec
    rw [this, abs_mul, abs_of_nonneg (by linarith : (0 : K) ≤ 1 - dt * lam)]
    exact le_mul_of_one_le_left (abs_nonneg _) hge
  refine ⟨hstep, ?_⟩
  intro k
  induction k with
  | zero => intro _; exact le_rfl
  | succ k ih => intro hk; exact (hstep k hk).trans (ih (by omega))

end ordered

/-! ### non-vacuity of section 1 -/

lemma ok_of_isOk {ε α : Type} (e : Except ε α) (h : e.isOk = true) : ∃ a, e = .ok a := by
  cases e with
  | error _ => simp [Except.isOk, Except.toBool] at h
  | ok a => exact ⟨a, rfl⟩

/-- a 2-node heat-type system `u' = A u + b`, `A = [[-2,1],[1,-2]]`, `b = (1,0)`, `u(0) = (1,2)` -/
def heatA : Matrix (Fin 2) (Fin 2) ℚ := !![-2, 1; 1, -2]
def heatB : Fin 2 → ℚ := ![1, 0]
def heatForm (_ : ℚ) : Form ℚ := ⟨ofM heatA, ofV heatB, ofV ![1, 2]⟩

example : ∃ levels, solveTime 2 .forward heatForm divSolver (uniformGrid 0 (1/4) 3) = .ok (levels, none)
    ∧ ∀ k, k < 4 → lvl 2 levels k = ((1 + (1/4 : ℚ) • heatA) ^ k) *ᵥ lvl 2 levels 0
        + ∑ j ∈ range k, ((1 + (1/4 : ℚ) • heatA) ^ j) *ᵥ ((1/4 : ℚ) • heatB) := by
  obtain ⟨levels, h⟩ := solveTime_forward_ok 2 heatForm divSolver _ (uniformGrid_ne_nil 0 (1/4) 3)
  exact ⟨levels, h, fun k hk => euler_forward_closed_form 2 heatForm divSolver _ levels none h (1/4)
    (uniformGrid_uniform _ _ _) heatA heatB (fun _ _ i j => ofM_apply heatA i j)
    (fun _ _ i => ofV_apply heatB i) k (by simpa using hk)⟩

/-- the scalar decay equation `u' = -3u + 1`, `u(0) = 4` -/
def decayForm (_ : ℚ) : Form ℚ := ⟨fun _ _ => -3, fun _ => 1, fun _ => 4⟩

example : ∃ levels info, solveTime 1 .backward decayForm divSolver (uniformGrid 0 (1/2) 2) = .ok (levels, info)
    ∧ ∀ k, k < 3 → ((1 - (1/2 : ℚ) • (!![-3] : Matrix (Fin 1) (Fin 1) ℚ)) ^ k) *ᵥ lvl 1 levels k
        = lvl 1 levels 0 + ∑ j ∈ range k, ((1 - (1/2 : ℚ) • (!![-3] : Matrix (Fin 1) (Fin 1) ℚ)) ^ j) *ᵥ ((1/2 : ℚ) • ![1]) := by
  obtain ⟨⟨levels, info⟩, h⟩ := ok_of_isOk (solveTime 1 .backward decayForm divSolver (uniformGrid 0 (1/2) 2))
    (by norm_num [uniformGrid, List.range, List.range.loop, solveTime, bwdLevels, divSolver, unpack, bwdMat,
      bwdRhs, decayForm, eye, rd, tab, Except.isOk, Except.toBool])
  exact ⟨levels, info, h, fun k hk => euler_backward_closed_form 1 decayForm divSolver divSolver_correct _
    levels info h (1/2) (uniformGrid_uniform _ _ _) !![-3] ![1]
    (fun _ _ i j => by fin_cases i; fin_cases j; rfl) (fun _ _ i => by fin_cases i; rfl) k (by simpa using hk)⟩

/-- the test equation `u' = -3u`, `u(0) = 4`: `dt = 1/2` is inside the forward stability region
    (`|1 - 3/2| ≤ 1`), `dt = 1` is not (`|1 - 3| = 2`) -/
def testForm (_ : ℚ) : Form ℚ := ⟨fun _ _ => -3, fun _ => 0, fun _ => 4⟩

example : ∃ C, ∀ N levels info, solveTime 1 .forward testForm divSolver (uniformGrid 0 (1/2) N) = .ok (levels, info) →
    ∀ k, k ≤ N → |rd (levels.getD k #[]) 0| ≤ C :=
  (forward_euler_stable_iff testForm divSolver 0 (1/2) (-3) 4 (by norm_num) (fun _ => ⟨rfl, rfl, rfl⟩)).mpr
    (by norm_num [abs_le])

example : ¬ ∃ C, ∀ N levels info, solveTime 1 .forward testForm divSolver (uniformGrid 0 1 N) = .ok (levels, info) →
    ∀ k, k ≤ N → |rd (levels.getD k #[]) 0| ≤ C := by
  rw [forward_euler_stable_iff testForm divSolver 0 1 (-3) 4 (by norm_num) (fun _ => ⟨rfl, rfl, rfl⟩)]
  norm_num [abs_le]

/-! ## 2. linearity: linear PDE forms give a linear model -/

section linear
variable {P : Type} [AddCommMonoid P] [Module R P]

/-- a **linear** time-dependent PDE form: the operator does not depend on the parameter; source and
    initial condition are linear in it (only the entries below `n`, the ones that are read, matter) -/
structure LinearInParam (n : ℕ) (formP : P → R → Form R) : Prop where
  op_indep : ∀ p q t i j, i < n → j < n → (formP p t).op i j = (formP q t).op i j
  src_lin : ∀ (c : R) p q t i, i < n → (formP (c • p + q) t).src i = c * (formP p t).src i + (formP q t).src i
  ic_lin : ∀ (c : R) p q t i, i < n → (formP (c • p + q) t).ic i = c * (formP p t).ic i + (formP q t).ic i

/-- the leading `n × n` system `M x = 0` has only the trivial solution (below `n`) -/
def Nonsing (n : ℕ) (M : Mat R) : Prop :=
  ∀ x : Vec R, (∀ i, i < n → ∑ j ∈ range n, M i j * x j = 0) → ∀ i, i < n → x i = 0

lemma sum_lincomb (n : ℕ) (Apq Ap Aq : ℕ → R) (c : R) (x a b : ℕ → R)
    (h1 : ∀ j, j < n → Apq j = Ap j) (h2 : ∀ j, j < n → Apq j = Aq j)
    (hx : ∀ j, j < n → x j = c * a j + b j) :
    ∑ j ∈ range n, Apq j * x j = c * ∑ j ∈ range n, Ap j * a j + ∑ j ∈ range n, Aq j * b j := by
  rw [Finset.mul_sum, ← Finset.sum_add_distrib]
  refine Finset.sum_congr rfl fun j hj => ?_
  have hj' := mem_range.mp hj
  rw [hx j hj', ← h1 j hj']
  have := h2 j hj'
  rw [h1 j hj'] at this
  rw [h1 j hj', ← this]
  ring

/-- **forward_levels_linear.**  For a linear form every stored forward-Euler level is a linear
    function of the parameter: `u_k(c·p + q) = c·u_k(p) + u_k(q)` — every grid, every dimension. -/
theorem forward_levels_linear {I : Type} (n : ℕ) (formP : P → R → Form R) (hlin : LinearInParam n formP)
    (solver : Mat R → Vec R → SolverRet (Vec R) I) (ts : List R) (c : R) (p q : P)
    (Lpq Lp Lq : List (Array R)) (i1 i2 i3 : Option (List I))
    (hpq : solveTime n .forward (formP (c • p + q)) solver ts = .ok (Lpq, i1))
    (hp : solveTime n .forward (formP p) solver ts = .ok (Lp, i2))
    (hq : solveTime n .forward (formP q) solver ts = .ok (Lq, i3))
    (k : ℕ) (hk : k < ts.length) (i : ℕ) (hi : i < n) :
    rd (Lpq.getD k #[]) i = c * rd (Lp.getD k #[]) i + rd (Lq.getD k #[]) i := by
  induction k generalizing i with
  | zero =>
    rw [level_zero_ic n _ _ solver ts Lpq i1 hpq i hi, level_zero_ic n _ _ solver ts Lp i2 hp i hi,
      level_zero_ic n _ _ solver ts Lq i3 hq i hi]
    exact hlin.ic_lin c p q _ i hi
  | succ k ih =>
    have ih' := fun j hj => ih (by omega) j hj
    rw [euler_forward_recurrence n _ solver ts Lpq i1 hpq k hk i hi,
      euler_forward_recurrence n _ solver ts Lp i2 hp k hk i hi,
      euler_forward_recurrence n _ solver ts Lq i3 hq k hk i hi,
      ih' i hi, hlin.src_lin c p q _ i hi,
      sum_lincomb n _ _ _ c _ _ _ (fun j hj => hlin.op_indep (c • p + q) p _ i j hi hj)
        (fun j hj => hlin.op_indep (c • p + q) q _ i j hi hj) ih']
    ring

/-- from `x = dt·A x` to the coded homogeneous backward system `(I − dt·A) x = 0` -/
lemma bwd_homogeneous (n : ℕ) (dt : R) (f : Form R) (x : Vec R)
    (hx : ∀ i, i < n → x i = dt * ∑ j ∈ range n, f.op i j * x j) (i : ℕ) (hi : i < n) :
    ∑ j ∈ range n, bwdMat dt f i j * x j = 0 := by
  have e : ∀ j ∈ range n, bwdMat dt f i j * x j = (if i = j then x j else 0) - dt * (f.op i j * x j) := by
    intro j _
    by_cases hij : i = j <;> simp [bwdMat, eye, hij] <;> ring
  rw [Finset.sum_congr rfl e, Finset.sum_sub_distrib, ← Finset.mul_sum]
  simp [hi]
  rw [← hx i hi, sub_self]

/-- **backward_levels_linear.**  Same for the backward method, with a correct linear solver and
    uniquely solvable step systems `I − Δt_k A(t_{k+1})` (otherwise "the" solution is not a function
    of the data and linearity is meaningless). -/
theorem backward_levels_linear {I : Type} (n : ℕ) (formP : P → R → Form R) (hlin : LinearInParam n formP)
    (solver : Mat R → Vec R → SolverRet (Vec R) I) (hs : SolverCorrect n solver) (ts : List R)
    (c : R) (p q : P)
    (hns : ∀ k, k + 1 < ts.length →
      Nonsing n (bwdMat (ts.getD (k + 1) 0 - ts.getD k 0) (formP p (ts.getD (k + 1) 0))))
    (Lpq Lp Lq : List (Array R)) (i1 i2 i3 : Option (List I))
    (hpq : solveTime n .backward (formP (c • p + q)) solver ts = .ok (Lpq, i1))
    (hp : solveTime n .backward (formP p) solver ts = .ok (Lp, i2))
    (hq : solveTime n .backward (formP q) solver ts = .ok (Lq, i3))
    (k : ℕ) (hk : k < ts.length) (i : ℕ) (hi : i < n) :
    rd (Lpq.getD k #[]) i = c * rd (Lp.getD k #[]) i + rd (Lq.getD k #[]) i := by
  induction k generalizing i with
  | zero =>
    rw [level_zero_ic n _ _ solver ts Lpq i1 hpq i hi, level_zero_ic n _ _ solver ts Lp i2 hp i hi,
      level_zero_ic n _ _ solver ts Lq i3 hq i hi]
    exact hlin.ic_lin c p q _ i hi
  | succ k ih =>
    have ih' := fun j hj => ih (by omega) j hj
    set w : Vec R := fun j => rd (Lpq.getD (k + 1) #[]) j - (c * rd (Lp.getD (k + 1) #[]) j + rd (Lq.getD (k + 1) #[]) j) with hw
    have hwz : ∀ i, i < n → w i = 0 := by
      refine hns k hk w (bwd_homogeneous n _ _ w ?_)
      intro i hi
      have e1 := euler_backward_recurrence n _ solver hs ts Lpq i1 hpq k hk i hi
      have e2 := euler_backward_recurrence n _ solver hs ts Lp i2 hp k hk i hi
      have e3 := euler_backward_recurrence n _ solver hs ts Lq i3 hq k hk i hi
      rw [hlin.src_lin c p q _ i hi] at e1
      have s1 : ∑ j ∈ range n, (formP p (ts.getD (k + 1) 0)).op i j * w j
          = ∑ j ∈ range n, (formP (c • p + q) (ts.getD (k + 1) 0)).op i j * rd (Lpq.getD (k + 1) #[]) j
            - (c * ∑ j ∈ range n, (formP p (ts.getD (k + 1) 0)).op i j * rd (Lp.getD (k + 1) #[]) j
              + ∑ j ∈ range n, (formP q (ts.getD (k + 1) 0)).op i j * rd (Lq.getD (k + 1) #[]) j) := by
        rw [Finset.mul_sum, ← Finset.sum_add_distrib, ← Finset.sum_sub_distrib]
        refine Finset.sum_congr rfl fun j hj => ?_
        have hj' := mem_range.mp hj
        rw [hlin.op_indep (c • p + q) p _ i j hi hj', hlin.op_indep q p _ i j hi hj', hw]
        ring
      rw [s1]
      simp only [hw]
      rw [e1, e2, e3, ih' i hi]
      ring
    have := hwz i hi
    simp only [hw] at this
    linear_combination this

/-! ### the Jacobian of a linear model is the pipeline applied to the unit vectors -/

/-- a functional on `R^d` that respects linear combinations is determined by its values on the unit
    vectors `e_k = Pi.single k 1` -/
lemma lin_functional_eq_sum {d : ℕ} (F : (Fin d → R) → R)
    (hF : ∀ (c : R) p q, F (c • p + q) = c * F p + F q) (p : Fin d → R) :
    F p = ∑ k, p k * F (Pi.single k 1) := by
  have h0 : F 0 = 0 := by
    have := hF 1 0 0
    simp only [one_smul, add_zero, one_mul] at this
    exact left_eq_add.mp this
  have key : ∀ s : Finset (Fin d), F (∑ k ∈ s, p k • Pi.single k (1 : R)) = ∑ k ∈ s, p k * F (Pi.single k 1) := by
    intro s
    induction s using Finset.induction_on with
    | empty => simpa using h0
    | insert a s ha ih => rw [Finset.sum_insert ha, Finset.sum_insert ha, hF, ih]
  have hp : p = ∑ k, p k • Pi.single k (1 : R) := by
    funext j
    simp [Finset.sum_apply, Pi.single_apply]
  conv_lhs => rw [hp]
  exact key _

/-- entry `i` of level `k` of a `solve()` result (`0` if the solve was refused) -/
def levelOf {I : Type} (r : Except Err (List (Array R) × Option (List I))) (k i : ℕ) : R :=
  match r with
  | .ok (l, _) => rd (l.getD k #[]) i
  | .error _ => 0

/-- **forward_levels_jacobian_unit_vectors.**  Linear form, parameter in `R^d`, forward method: every
    entry of every level is `Σ_j p_j · (that entry for the unit vector e_j)`; i.e. the Jacobian of the
    solution map is obtained by running the solver on the `d` unit vectors — which is how a
    `jacobian_wrt_parameter` of a linear `PDEModel` can be assembled (C07/C12: the model *is* the
    linear model with that matrix). -/
theorem forward_levels_jacobian_unit_vectors {I : Type} {d : ℕ} (n : ℕ) (formP : (Fin d → R) → R → Form R)
    (hlin : LinearInParam n formP) (solver : Mat R → Vec R → SolverRet (Vec R) I) (ts : List R)
    (hts : ts ≠ []) (p : Fin d → R) (k : ℕ) (hk : k < ts.length) (i : ℕ) (hi : i < n) :
    levelOf (solveTime n .forward (formP p) solver ts) k i
      = ∑ j, p j * levelOf (solveTime n .forward (formP (Pi.single j 1)) solver ts) k i := by
  refine lin_functional_eq_sum (fun p => levelOf (solveTime n .forward (formP p) solver ts) k i) ?_ p
  intro c p q
  obtain ⟨L1, h1⟩ := solveTime_forward_ok n (formP (c • p + q)) solver ts hts
  obtain ⟨L2, h2⟩ := solveTime_forward_ok n (formP p) solver ts hts
  obtain ⟨L3, h3⟩ := solveTime_forward_ok n (formP q) solver ts hts
  simp only [h1, h2, h3, levelOf]
  exact forward_levels_linear n formP hlin solver ts c p q L1 L2 L3 none none none h1 h2 h3 k hk i hi

/-- **backward_levels_jacobian_unit_vectors.**  Same for the backward method (correct solver, uniquely
    solvable step systems, no solve refused). -/
theorem backward_levels_jacobian_unit_vectors {I : Type} {d : ℕ} (n : ℕ) (formP : (Fin d → R) → R → Form R)
    (hlin : LinearInParam n formP) (solver : Mat R → Vec R → SolverRet (Vec R) I)
    (hs : SolverCorrect n solver) (ts : List R)
    (hns : ∀ p k, k + 1 < ts.length →
      Nonsing n (bwdMat (ts.getD (k + 1) 0 - ts.getD k 0) (formP p (ts.getD (k + 1) 0))))
    (hok : ∀ p, ∃ L info, solveTime n .backward (formP p) solver ts = .ok (L, info))
    (p : Fin d → R) (k : ℕ) (hk : k < ts.length) (i : ℕ) (hi : i < n) :
    levelOf (solveTime n .backward (formP p) solver ts) k i
      = ∑ j, p j * levelOf (solveTime n .backward (formP (Pi.single j 1)) solver ts) k i := by
  refine lin_functional_eq_sum (fun p => levelOf (solveTime n .backward (formP p) solver ts) k i) ?_ p
  intro c p q
  obtain ⟨L1, j1, h1⟩ := hok (c • p + q)
  obtain ⟨L2, j2, h2⟩ := hok p
  obtain ⟨L3, j3, h3⟩ := hok q
  simp only [h1, h2, h3, levelOf]
  exact backward_levels_linear n formP hlin solver hs ts c p q (hns p) L1 L2 L3 j1 j2 j3 h1 h2 h3 k hk i hi

/-! ### steady state -/

/-- **steady_solution_linear.**  Steady-state problem with an operator that does not depend on the
    parameter and a right-hand side linear in it, correct solver, non-singular operator: the solution
    is linear in the parameter. -/
theorem steady_solution_linear {I : Type} (n : ℕ) (st : Steady P R I) (hs : SolverCorrect n st.solver)
    (hop : ∀ p q i j, i < n → j < n → (st.form p).op i j = (st.form q).op i j)
    (hrhs : ∀ (c : R) p q i, i < n → (st.form (c • p + q)).rhs i = c * (st.form p).rhs i + (st.form q).rhs i)
    (c : R) (p q : P) (hns : Nonsing n (st.form p).op)
    (upq up uq : Vec R) (i1 i2 i3 : Option (List I))
    (hpq : (st.assemble (c • p + q)).solve = .ok (upq, i1))
    (hp : (st.assemble p).solve = .ok (up, i2)) (hq : (st.assemble q).solve = .ok (uq, i3))
    (i : ℕ) (hi : i < n) : upq i = c * up i + uq i := by
  have hz := hns (fun j => upq j - (c * up j + uq j)) ?_ i hi
  · linear_combination hz
  · intro i hi
    have e1 := steady_solves n st hs _ upq i1 hpq i hi
    have e2 := steady_solves n st hs _ up i2 hp i hi
    have e3 := steady_solves n st hs _ uq i3 hq i hi
    rw [hrhs c p q i hi] at e1
    have : ∑ j ∈ range n, (st.form p).op i j * (upq j - (c * up j + uq j))
        = ∑ j ∈ range n, (st.form (c • p + q)).op i j * upq j
          - (c * ∑ j ∈ range n, (st.form p).op i j * up j + ∑ j ∈ range n, (st.form q).op i j * uq j) := by
      rw [Finset.mul_sum, ← Finset.sum_add_distrib, ← Finset.sum_sub_distrib]
      refine Finset.sum_congr rfl fun j hj => ?_
      have hj' := mem_range.mp hj
      rw [hop (c • p + q) p i j hi hj', hop q p i j hi hj']
      ring
    rw [this, e1, e2, e3]
    ring

/-- the `SteadyStateLinearPDE` object inside a `PDEModel`, as the driver builds it (op `pipes`; this
    is that definition for an arbitrary ring and parameter type): the solution is handed to `observe`
    as the array of its first `n` entries -/
def steadyPDE {I : Type} [DecidableEq R] (n : ℕ) (st : Steady P R I) (g : Grids R)
    (interp : List R → List R → List R → Except Err (List R)) (om : ObsMap R) :
    PDEObj P (List R) (Arr R) I :=
  { solveFor := fun x => ((st.assemble x).solve).map fun r => (vecL n r.1, r.2)
    observe := fun u => observeSteady g u interp om }

/-- the steady pipeline of `PDEModel.forward`, spelled out -/
theorem steady_pipeline_spelled_out {I : Type} [DecidableEq R] (n : ℕ) (st : Steady P R I) (g : Grids R)
    (interp : List R → List R → List R → Except Err (List R)) (om : ObsMap R) (x : P) :
    pdeModelForward (steadyPDE n st g interp om) x =
      match unpack (st.solver (st.form x).op (st.form x).rhs) with
      | .error e => .error e
      | .ok (u, _) => observeSteady g (vecL n u) interp om := by
  simp only [pdeModelForward, steadyPDE, Steady.assemble, Steady.solve]
  cases unpack (st.solver (st.form x).op (st.form x).rhs) with
  | error e => rfl
  | ok r => rfl

lemma map_ldot_lincomb (M : List (List R)) (c : R) (a b : List R) (hab : a.length = b.length) :
    M.map (fun r => ldot r (List.zipWith (fun x y => c * x + y) a b))
      = List.zipWith (fun x y => c * x + y) (M.map fun r => ldot r a) (M.map fun r => ldot r b) := by
  induction M with
  | nil => rfl
  | cons r M ih => simp [ih, ldot_lincomb r c a b hab]

/-- **steady_pipeline_linear.**  `PDEModel.forward` of a linear steady-state PDE observed on the
    solution grid through a linear observation map `u ↦ M @ u` is a linear map of the parameter:
    `forward(c·p + q) = c·forward(p) + forward(q)`, entry by entry of the returned arrays. -/
theorem steady_pipeline_linear {I : Type} [DecidableEq R] (n : ℕ) (st : Steady P R I)
    (hs : SolverCorrect n st.solver)
    (hop : ∀ p q i j, i < n → j < n → (st.form p).op i j = (st.form q).op i j)
    (hrhs : ∀ (c : R) p q i, i < n → (st.form (c • p + q)).rhs i = c * (st.form p).rhs i + (st.form q).rhs i)
    (g : Grids R) (hg : g.equal = true) (interp : List R → List R → List R → Except Err (List R))
    (M : List (List R)) (hM : ∀ r ∈ M, r.length = n)
    (c : R) (p q : P) (hns : Nonsing n (st.form p).op)
    (hok : ∀ x, ∃ u info, (st.assemble x).solve = .ok (u, info)) :
    ∃ yp yq : List R,
      pdeModelForward (steadyPDE n st g interp (.left M)) p = .ok (.vec yp)
      ∧ pdeModelForward (steadyPDE n st g interp (.left M)) q = .ok (.vec yq)
      ∧ pdeModelForward (steadyPDE n st g interp (.left M)) (c • p + q)
          = .ok (.vec (List.zipWith (fun a b => c * a + b) yp yq))
      ∧ yp.length = M.length ∧ yq.length = M.length := by
  obtain ⟨upq, i1, hpq⟩ := hok (c • p + q)
  obtain ⟨up, i2, hp⟩ := hok p
  obtain ⟨uq, i3, hq⟩ := hok q
  have hall : ∀ u : Vec R, M.all (fun r => r.length == (vecL n u).length) = true := by
    intro u
    simp only [List.all_eq_true, vecL_length, beq_iff_eq]
    exact hM
  have hfw : ∀ x u info, (st.assemble x).solve = .ok (u, info) →
      pdeModelForward (steadyPDE n st g interp (.left M)) x = .ok (.vec (M.map fun r => ldot r (vecL n u))) := by
    intro x u info hx
    simp only [pdeModelForward, steadyPDE, hx, Except.map, observeSteady, hg, if_true, ObsMap.apply, hall]
  have hlinu : vecL n upq = List.zipWith (fun a b => c * a + b) (vecL n up) (vecL n uq) := by
    rw [← vecL_lincomb]
    exact vecL_congr n _ _ fun i hi =>
      steady_solution_linear n st hs hop hrhs c p q hns upq up uq i1 i2 i3 hpq hp hq i hi
  refine ⟨_, _, hfw p up i2 hp, hfw q uq i3 hq, ?_, by simp, by simp⟩
  rw [hfw _ upq i1 hpq, hlinu, map_ldot_lincomb M c _ _ (by simp)]

/-! ### non-vacuity of section 2 -/

/-- a linear heat-type form with parameter `p ∈ ℚ²`: fixed operator, source `p`, initial condition `2p` -/
def linHeatForm (p : Fin 2 → ℚ) (_ : ℚ) : Form ℚ := ⟨ofM heatA, ofV p, ofV fun i => 2 * p i⟩

lemma linHeatForm_linear : LinearInParam 2 linHeatForm where
  op_indep := fun _ _ _ _ _ _ _ => rfl
  src_lin := fun c p q t i hi => by simp [linHeatForm, ofV, hi]
  ic_lin := fun c p q t i hi => by simp [linHeatForm, ofV, hi]; ring

example (p : Fin 2 → ℚ) (k : ℕ) (hk : k < 4) (i : ℕ) (hi : i < 2) :
    levelOf (solveTime 2 .forward (linHeatForm p) divSolver (uniformGrid 0 (1/4) 3)) k i
      = ∑ j, p j * levelOf (solveTime 2 .forward (linHeatForm (Pi.single j 1)) divSolver (uniformGrid 0 (1/4) 3)) k i :=
  forward_levels_jacobian_unit_vectors 2 linHeatForm linHeatForm_linear divSolver _ (uniformGrid_ne_nil _ _ _) p k
    (by simpa using hk) i hi

/-- scalar linear decay form with parameter `p ∈ ℚ`: `u' = -3u + p`, `u(0) = p` -/
def linDecayForm (p : ℚ) (_ : ℚ) : Form ℚ := ⟨fun _ _ => -3, fun _ => p, fun _ => p⟩

lemma linDecayForm_linear : LinearInParam 1 linDecayForm where
  op_indep := fun _ _ _ _ _ _ _ => rfl
  src_lin := fun c p q t i hi => by simp [linDecayForm]
  ic_lin := fun c p q t i hi => by simp [linDecayForm]

lemma linDecay_ok (p : ℚ) : ∃ L info, solveTime 1 .backward (linDecayForm p) divSolver [0, 1/2, 2] = .ok (L, info) := by
  obtain ⟨⟨L, info⟩, h⟩ := ok_of_isOk (solveTime 1 .backward (linDecayForm p) divSolver [0, 1/2, 2])
    (by norm_num [solveTime, bwdLevels, divSolver, unpack, bwdMat, bwdRhs, linDecayForm, eye, rd, tab,
      Except.isOk, Except.toBool])
  exact ⟨L, info, h⟩

lemma nonsing_one (a : ℚ) (ha : a ≠ 0) (M : Mat ℚ) (hM : M 0 0 = a) : Nonsing 1 M := by
  intro x h i hi
  have hi0 : i = 0 := by omega
  subst hi0
  have := h 0 (by norm_num)
  simp only [Finset.sum_range_one, hM] at this
  exact (mul_eq_zero.mp this).resolve_left ha

example (c p q : ℚ) : ∃ L1 L2 L3 : List (Array ℚ), ∀ k, k < 3 →
    rd (L1.getD k #[]) 0 = c * rd (L2.getD k #[]) 0 + rd (L3.getD k #[]) 0 := by
  obtain ⟨L1, j1, h1⟩ := linDecay_ok (c • p + q)
  obtain ⟨L2, j2, h2⟩ := linDecay_ok p
  obtain ⟨L3, j3, h3⟩ := linDecay_ok q
  refine ⟨L1, L2, L3, fun k hk => backward_levels_linear 1 linDecayForm linDecayForm_linear divSolver
    divSolver_correct [0, 1/2, 2] c p q ?_ L1 L2 L3 j1 j2 j3 h1 h2 h3 k (by simpa using hk) 0 (by norm_num)⟩
  intro k hk
  have hk' : k = 0 ∨ k = 1 := by simp at hk; omega
  rcases hk' with rfl | rfl
  · exact nonsing_one (5/2) (by norm_num) _ (by norm_num [bwdMat, eye, linDecayForm])
  · exact nonsing_one (11/2) (by norm_num) _ (by norm_num [bwdMat, eye, linDecayForm])

/-- steady: `2u = 3p`, observed through `u ↦ 5u` on the solution grid -/
example (c p q : ℚ) :
    let st : Steady ℚ ℚ ℚ := { form := fun p => ⟨fun _ _ => 2, fun _ => 3 * p⟩, solver := divSolver }
    let g : Grids ℚ := Grids.init (some [0]) none
    ∃ yp yq : List ℚ,
      pdeModelForward (steadyPDE 1 st g (tableInterp1 []) (.left [[5]])) p = .ok (.vec yp)
      ∧ pdeModelForward (steadyPDE 1 st g (tableInterp1 []) (.left [[5]])) q = .ok (.vec yq)
      ∧ pdeModelForward (steadyPDE 1 st g (tableInterp1 []) (.left [[5]])) (c • p + q)
          = .ok (.vec (List.zipWith (fun a b => c * a + b) yp yq))
      ∧ yp.length = 1 ∧ yq.length = 1 := by
  intro st g
  exact steady_pipeline_linear 1 st divSolver_correct (fun _ _ _ _ _ _ => rfl)
    (fun c p q i hi => by simp [st]; ring) g (grid_obs_defaults_to_grid_sol _).2 _ [[5]] (by simp) c p q
    (nonsing_one 2 (by norm_num) _ rfl)
    (fun x => ⟨_, _, by simp [st, Steady.assemble, Steady.solve, divSolver, unpack]; exact ⟨rfl, rfl⟩⟩)

end linear

/-! ## 3. the gradient: sensitivity of the steady-state solution (implicit differentiation over ℝ)

`γ : ℝ → P` is any differentiable curve of parameters, e.g. `γ s = Function.update p i s` (the
`i`-th partial derivative at `s0 = p i`) or `γ s = p + s • d` (a directional derivative). -/

section sensitivity
open Filter Topology

/-- **steady_sensitivity.**  Let the steady-state object of the model (`Steady.assemble`, `Steady.solve`
    with a correct linear solver) return `u(s)` for the parameters `γ(s)`, `s` near `s0`; let the
    entries of the assembled operator `A(γ(s))` and right-hand side `b(γ(s))` be differentiable at
    `s0` with derivatives `A'`, `b'`, and `A(γ(s0))` be non-singular.  Then the solution is
    differentiable at `s0` (this is *proved*, not assumed) and
    `du/ds = A⁻¹ (b' − A' u)` — the sensitivity formula. -/
theorem steady_sensitivity {P I : Type} (n : ℕ) (st : Steady P ℝ I) (hs : SolverCorrect n st.solver)
    (γ : ℝ → P) (s0 : ℝ) (u : ℝ → Vec ℝ) (info : ℝ → Option (List I))
    (hsolve : ∀ᶠ s in 𝓝 s0, (st.assemble (γ s)).solve = .ok (u s, info s))
    (A' : Matrix (Fin n) (Fin n) ℝ) (b' : Fin n → ℝ)
    (hA : ∀ i j : Fin n, HasDerivAt (fun s => (st.form (γ s)).op i j) (A' i j) s0)
    (hb : ∀ i : Fin n, HasDerivAt (fun s => (st.form (γ s)).rhs i) (b' i) s0)
    (hdet : (toM n (st.form (γ s0)).op).det ≠ 0) (i : Fin n) :
    HasDerivAt (fun s => u s i)
      (((toM n (st.form (γ s0)).op)⁻¹ *ᵥ (b' - A' *ᵥ toV n (u s0))) i) s0 := by
  refine hasDerivAt_linear_solve (fun s => toM n (st.form (γ s)).op) (fun s => toV n (st.form (γ s)).rhs)
    (fun s => toV n (u s)) A' b' s0 hA hb ?_ hdet i
  filter_upwards [hsolve] with s hsol
  funext i
  rw [← sum_range_eq_mulVec]
  exact steady_solves n st hs (γ s) (u s) (info s) hsol i i.isLt

/-- **steady_observed_sensitivity.**  …hence every linear observation `y = M u` of the solution
    (restriction to nodes, `M @ u`, scaling) has derivative `M A⁻¹ (b' − A' u)`:
    "the derivative of the observed solution w.r.t. the parameter is obs(A⁻¹(∂b − ∂A u))". -/
theorem steady_observed_sensitivity {P I : Type} (n m : ℕ) (st : Steady P ℝ I)
    (hs : SolverCorrect n st.solver) (γ : ℝ → P) (s0 : ℝ) (u : ℝ → Vec ℝ) (info : ℝ → Option (List I))
    (hsolve : ∀ᶠ s in 𝓝 s0, (st.assemble (γ s)).solve = .ok (u s, info s))
    (A' : Matrix (Fin n) (Fin n) ℝ) (b' : Fin n → ℝ)
    (hA : ∀ i j : Fin n, HasDerivAt (fun s => (st.form (γ s)).op i j) (A' i j) s0)
    (hb : ∀ i : Fin n, HasDerivAt (fun s => (st.form (γ s)).rhs i) (b' i) s0)
    (hdet : (toM n (st.form (γ s0)).op).det ≠ 0) (M : Matrix (Fin m) (Fin n) ℝ) (i : Fin m) :
    HasDerivAt (fun s => (M *ᵥ toV n (u s)) i)
      ((M *ᵥ ((toM n (st.form (γ s0)).op)⁻¹ *ᵥ (b' - A' *ᵥ toV n (u s0)))) i) s0 := by
  simp only [Matrix.mulVec, dotProduct]
  refine HasDerivAt.fun_sum fun j _ => ?_
  exact (steady_sensitivity n st hs γ s0 u info hsolve A' b' hA hb hdet j).const_mul (M i j)

/-- **steady_gradient_is_derivative.**  Formal content of "`PDEModel.gradient` is the gradient of the
    assemble–solve–observe pipeline" for a Jacobian supplied through `jacobian_wrt_parameter`: if
    column `k` of the supplied `J` is the sensitivity `M A⁻¹(∂_k b − ∂_k A u)` along the `k`-th
    parameter curve, then entry `k` of what `_gradient_func` returns (`direction @ J`) **is** the
    derivative of `s ↦ ⟨direction, observed solution(γ(s))⟩` at `s0`. -/
theorem steady_gradient_is_derivative {P I : Type} (n m : ℕ) (st : Steady P ℝ I)
    (hs : SolverCorrect n st.solver) (γ : ℝ → P) (s0 : ℝ) (u : ℝ → Vec ℝ) (info : ℝ → Option (List I))
    (hsolve : ∀ᶠ s in 𝓝 s0, (st.assemble (γ s)).solve = .ok (u s, info s))
    (A' : Matrix (Fin n) (Fin n) ℝ) (b' : Fin n → ℝ)
    (hA : ∀ i j : Fin n, HasDerivAt (fun s => (st.form (γ s)).op i j) (A' i j) s0)
    (hb : ∀ i : Fin n, HasDerivAt (fun s => (st.form (γ s)).rhs i) (b' i) s0)
    (hdet : (toM n (st.form (γ s0)).op).det ≠ 0) (M : Matrix (Fin m) (Fin n) ℝ)
    (J : Vec ℝ → Mat ℝ) (wrt : Vec ℝ) (k : ℕ)
    (hJ : ∀ i : Fin m, J wrt i k = (M *ᵥ ((toM n (st.form (γ s0)).op)⁻¹ *ᵥ (b' - A' *ᵥ toV n (u s0)))) i)
    (dir : Vec ℝ) :
    ∃ g, gradientFunc m ⟨none, some J⟩ dir wrt = .ok g
      ∧ HasDerivAt (fun s => ∑ i : Fin m, dir i * (M *ᵥ toV n (u s)) i) (g k) s0 := by
  refine ⟨_, rfl, ?_⟩
  rw [vecMul_eq, ← Fin.sum_univ_eq_sum_range (fun i => dir i * J wrt i k) m]
  refine HasDerivAt.fun_sum fun i _ => ?_
  rw [hJ i]
  exact (steady_observed_sensitivity n m st hs γ s0 u info hsolve A' b' hA hb hdet M i).const_mul (dir i)

/-- a correct 1×1 solver over ℝ (the real-number twin of `divSolver`) -/
noncomputable def realDivSolver (A : Mat ℝ) (b : Vec ℝ) : SolverRet (Vec ℝ) ℝ :=
  if A 0 0 = 0 then .raised else .tuple (fun _ => b 0 / A 0 0) [b 0]

lemma realDivSolver_correct : SolverCorrect 1 realDivSolver := by
  intro A b x info h i hi
  have hi0 : i = 0 := by omega
  subst hi0
  unfold realDivSolver at h
  split at h
  · simp [unpack] at h
  · rename_i hA
    simp only [unpack, Except.ok.injEq, Prod.mk.injEq] at h
    obtain ⟨hx, _⟩ := h
    subst hx
    simp
    field_simp

/-- non-vacuity: `A(p) = p`, `b = 6`, so `u(p) = 6/p`; at `p = 2` the formula gives
    `A⁻¹(b' − A' u) = (1/2)(0 − 1·3) = −3/2 = d(6/p)/dp` -/
example : HasDerivAt (fun s : ℝ => (6 : ℝ) / s) (-3 / 2) 2 := by
  let st : Steady ℝ ℝ ℝ := { form := fun p => ⟨fun _ _ => p, fun _ => 6⟩, solver := realDivSolver }
  have hsolve : ∀ᶠ s in nhds (2 : ℝ), (st.assemble (id s)).solve = .ok ((fun _ => 6 / s : Vec ℝ), some [(6 : ℝ)]) := by
    have : ∀ᶠ s in nhds (2 : ℝ), s ≠ 0 := continuousAt_id.eventually_ne (by norm_num)
    filter_upwards [this] with s hs
    simp [st, Steady.assemble, Steady.solve, realDivSolver, unpack, hs]
  have h := steady_sensitivity 1 st realDivSolver_correct id 2 (fun s _ => 6 / s) (fun _ => some [6]) hsolve
    !![1] ![0] (fun i j => by simpa [st] using hasDerivAt_id' (2 : ℝ)) (fun i => by simpa [st] using hasDerivAt_const (2 : ℝ) (6 : ℝ))
    (by simp [st, toM, Matrix.det_fin_one]) 0
  convert h using 1
  simp [st, toM, toV, Matrix.mulVec, dotProduct, Matrix.inv_def, Matrix.det_fin_one, Matrix.adjugate_fin_one]
  norm_num

end sensitivity

/-! ## 4. the time-dependent pipeline of `PDEModel.forward`, spelled out -/

section timepipe
variable {P : Type} [DecidableEq R]

/-- levels (level `k` = column `k` of `u`) to the 2-D array `u` by rows (space) × columns (time) — the
    driver's `levelsToU` for an arbitrary ring -/
def levelsToRows (n : ℕ) (levels : List (Array R)) : List (List R) :=
  (List.range n).map fun i => levels.map fun u => rd u i

/-- the `TimeDependentLinearPDE` object inside a `PDEModel`, as the driver builds it (op `pipet`; this
    is that definition for an arbitrary ring and parameter type); `tobs` is the resolved `_time_obs` -/
def timePDE {I : Type} (n : ℕ) (m : Method) (formP : P → R → Form R)
    (solver : Mat R → Vec R → SolverRet (Vec R) I) (ts : List R) (g : Grids R) (tobs : List R)
    (interp : List R → List R → List (List R) → List R → List R → Except Err (List (List R)))
    (om : ObsMap R) : PDEObj P (List (List R)) (Arr R) I :=
  { solveFor := fun x => (solveTime n m (formP x) solver ts).map fun r => (levelsToRows n r.1, r.2)
    observe := fun U => observeTime g ts tobs U interp om }

/-- entry (node `i`, time index `j`) of the solution array is entry `i` of level `j` -/
lemma levelsToRows_entry (n : ℕ) (levels : List (Array R)) (i j : ℕ) (hi : i < n) (hj : j < levels.length) :
    ((levelsToRows n levels).getD i []).getD j 0 = rd (levels.getD j #[]) i := by
  simp [levelsToRows, List.getD_eq_getElem?_getD, hi, hj]

lemma lastCol_levelsToRows (n : ℕ) (levels : List (Array R)) (hl : levels ≠ []) :
    lastCol (levelsToRows n levels) = .ok (vecL n (rd (levels.getD (levels.length - 1) #[]))) := by
  obtain ⟨ys, y, rfl⟩ : ∃ ys y, levels = ys ++ [y] := ⟨_, _, (List.dropLast_append_getLast hl).symm⟩
  have hlast : (ys ++ [y]).getD ((ys ++ [y]).length - 1) #[] = y := by
    simp [List.getD_eq_getElem?_getD]
  rw [hlast]
  simp only [lastCol, levelsToRows, vecL]
  generalize List.range n = idx
  induction idx with
  | nil => rfl
  | cons a idx ih =>
    simp only [List.map_cons, List.mapM_cons, List.map_append, List.getLast?_append, List.getLast?_singleton,
      List.map_nil, Option.some_or] at ih ⊢
    rw [ih]
    rfl

/-- **time_pipeline_spelled_out.**  `PDEModel.forward(x)` for a time-dependent PDE is: assemble the
    parameter, run the time loop of the chosen method over the whole grid, drop `info`, lay the
    levels out as the space × time array, and hand that to `observe` (restriction/interpolation,
    observation map, `squeeze` iff one observation time); a refusal of the solve is passed on. -/
theorem time_pipeline_spelled_out {I : Type} (n : ℕ) (m : Method) (formP : P → R → Form R)
    (solver : Mat R → Vec R → SolverRet (Vec R) I) (ts : List R) (g : Grids R) (tobs : List R)
    (interp : List R → List R → List (List R) → List R → List R → Except Err (List (List R)))
    (om : ObsMap R) (x : P) :
    pdeModelForward (timePDE n m formP solver ts g tobs interp om) x =
      match solveTime n m (formP x) solver ts with
      | .error e => .error e
      | .ok (levels, _) => observeTime g ts tobs (levelsToRows n levels) interp om := by
  simp only [pdeModelForward, timePDE]
  cases solveTime n m (formP x) solver ts with
  | error e => rfl
  | ok r => rfl

/-- **time_pipeline_final_is_last_level.**  On the no-interpolation branch (`time_obs='final'` with
    equal grids) the restricted solution handed to the observation map is exactly the level with the
    last index, `u[:, len(time_steps) − 1]`. -/
theorem time_pipeline_final_is_last_level {I : Type} (n : ℕ) (m : Method) (form : R → Form R)
    (solver : Mat R → Vec R → SolverRet (Vec R) I) (ts : List R) (g : Grids R) (tobs : List R)
    (interp : List R → List R → List (List R) → List R → List R → Except Err (List (List R)))
    (levels : List (Array R)) (info : Option (List I))
    (hsolve : solveTime n m form solver ts = .ok (levels, info))
    (hb : branchTime g ts tobs 2 = .direct) :
    preObserveTime g ts tobs (levelsToRows n levels) interp
      = .ok (.vec (vecL n (rd (levels.getD (ts.length - 1) #[])))) := by
  have hlen := levels_length n m form solver ts levels info hsolve
  have hne : levels ≠ [] := by
    intro h0
    rw [h0] at hlen
    cases ts with
    | nil => simp [solveTime] at hsolve
    | cons a l => simp at hlen
  simp only [preObserveTime, hb, lastCol_levelsToRows n levels hne, hlen]
  rfl

/-- **time_pipeline_observed_column_is_level.**  On the interpolation branch (any interpolant that
    reproduces its data): if observation time number `b` is the grid time with index `j`
    (`time_obs[b] = time_steps[j]`) and observation node `a` is solution node `i`, then entry
    `(a, b)` of the pre-map observation is entry `i` of **level `j`** of the time loop — observed
    column `b` carries the level index of `time_obs[b]`, whatever the order or multiplicity of the
    requested times. -/
theorem time_pipeline_observed_column_is_level {I : Type} (n : ℕ) (m : Method) (form : R → Form R)
    (solver : Mat R → Vec R → SolverRet (Vec R) I) (ts : List R) (g : Grids R) (gs go : List R)
    (hs : g.sol = some gs) (ho : g.obs = some go) (tobs : List R)
    (interp : List R → List R → List (List R) → List R → List R → Except Err (List (List R)))
    (hI : Reproduces interp) (levels : List (Array R)) (info : Option (List I))
    (hsolve : solveTime n m form solver ts = .ok (levels, info))
    (hb : branchTime g ts tobs 2 = .interp) (arr : Arr R)
    (hpre : preObserveTime g ts tobs (levelsToRows n levels) interp = .ok arr) :
    ∃ W, arr = .mat W ∧ ∀ a b i j x t, go[a]? = some x → gs[i]? = some x → tobs[b]? = some t →
      ts[j]? = some t → i < n → (W.getD a []).getD b 0 = rd (levels.getD j #[]) i := by
  obtain ⟨W, hW, hrep⟩ := observe_coinciding g gs go hs ho ts tobs hb _ interp hI arr hpre
  refine ⟨W, hW, ?_⟩
  intro a b i j x t ha hi hb' hj hin
  have hjlt : j < levels.length := by
    rw [levels_length n m form solver ts levels info hsolve]
    by_contra hc
    simp [List.getElem?_eq_none (Nat.le_of_not_lt hc)] at hj
  rw [hrep a b i j x t ha hi hb' hj, levelsToRows_entry n levels i j hin hjlt]

/-- **time_obs_all_columns_are_levels.**  `time_obs='all'` (any case) resolves to the time grid itself,
    and then observed column `j` is level `j`, for every `j`: at an observation node that is
    solution node `i`, `W[a][j] = u_j[i]`. -/
theorem time_obs_all_columns_are_levels {I : Type} (n : ℕ) (m : Method) (form : R → Form R)
    (solver : Mat R → Vec R → SolverRet (Vec R) I) (ts : List R) (g : Grids R) (gs go : List R)
    (hs : g.sol = some gs) (ho : g.obs = some go)
    (interp : List R → List R → List (List R) → List R → List R → Except Err (List (List R)))
    (hI : Reproduces interp) (levels : List (Array R)) (info : Option (List I))
    (hsolve : solveTime n m form solver ts = .ok (levels, info)) :
    ∃ tobs, resolveTimeObs ts (.str "all") = .ok tobs ∧ tobs = ts ∧
      ∀ arr, branchTime g ts tobs 2 = .interp →
        preObserveTime g ts tobs (levelsToRows n levels) interp = .ok arr →
        ∃ W, arr = .mat W ∧ ∀ a i x j, go[a]? = some x → gs[i]? = some x → i < n → j < ts.length →
          (W.getD a []).getD j 0 = rd (levels.getD j #[]) i := by
  refine ⟨ts, by simp [resolveTimeObs], rfl, ?_⟩
  intro arr hb hpre
  obtain ⟨W, hW, hcol⟩ := time_pipeline_observed_column_is_level n m form solver ts g gs go hs ho ts interp hI
    levels info hsolve hb arr hpre
  refine ⟨W, hW, ?_⟩
  intro a i x j ha hi hin hj
  exact hcol a j i j x ts[j] ha hi (List.getElem?_eq_getElem hj) (List.getElem?_eq_getElem hj) hin

/-! ### non-vacuity of section 4 -/

/-- an interpolant satisfying `Reproduces` on *all* inputs: the driver's leaf-data interpolant,
    refusing grids with repeated nodes / times (as scipy does) -/
def guardedInterp (W : List (List R)) (gs steps : List R) (U : List (List R)) (go tobs : List R) :
    Except Err (List (List R)) :=
  if gs.Nodup ∧ steps.Nodup then tableInterp2 W gs steps U go tobs else .error .interpError

lemma guardedInterp_reproduces (W : List (List R)) : Reproduces (guardedInterp W) := by
  intro gs steps U go tobs V h
  unfold guardedInterp at h
  split at h
  · rename_i hn
    exact tableInterp2_reproduces W gs steps hn.1 hn.2 U go tobs V h
  · cases h

/-- two nodes `0, 1`, observation at node `1` only (so the grids differ and the interpolation branch is
    taken), `time_obs='all'` on the grid `0, 1/4, 1/2, 3/4`: entry `j` of the single observed row is
    entry 1 of level `j` of the forward loop -/
example : ∃ levels, solveTime 2 .forward heatForm divSolver (uniformGrid 0 (1/4) 3) = .ok (levels, none) ∧
    ∀ arr, preObserveTime (Grids.init (some [0, 1]) (some [1])) (uniformGrid 0 (1/4) 3) (uniformGrid 0 (1/4) 3)
        (levelsToRows 2 levels) (guardedInterp []) = .ok arr →
      ∃ W, arr = .mat W ∧ ∀ j, j < 4 → (W.getD 0 []).getD j 0 = rd (levels.getD j #[]) 1 := by
  obtain ⟨levels, h⟩ := solveTime_forward_ok 2 heatForm divSolver _ (uniformGrid_ne_nil 0 (1/4) 3)
  refine ⟨levels, h, fun arr hpre => ?_⟩
  obtain ⟨tobs, -, rfl, hall⟩ := time_obs_all_columns_are_levels 2 .forward heatForm divSolver
    (uniformGrid 0 (1/4) 3) (Grids.init (some [0, 1]) (some [1])) [0, 1] [1] rfl rfl (guardedInterp [])
    (guardedInterp_reproduces []) levels none h
  have hbr : branchTime (Grids.init (some [0, 1]) (some [1] : Option (List ℚ))) (uniformGrid 0 (1/4) 3)
      (uniformGrid 0 (1/4) 3) 2 = .interp := by
    simp [branchTime, Grids.init, Grids.setSol, Grids.setObs, compareGrid]
  obtain ⟨W, hW, hcol⟩ := hall arr hbr hpre
  exact ⟨W, hW, fun j hj => hcol 0 1 1 j rfl rfl (by norm_num) (by simpa using hj)⟩

/-- `time_obs='final'` on equal grids: the observed vector is the level of index `len(ts) − 1 = 3` -/
example : ∃ levels, solveTime 2 .forward heatForm divSolver (uniformGrid 0 (1/4) 3) = .ok (levels, none) ∧
    preObserveTime (Grids.init (some [0, 1]) none) (uniformGrid 0 (1/4) 3) [3/4]
        (levelsToRows 2 levels) (guardedInterp []) = .ok (.vec (vecL 2 (rd (levels.getD 3 #[])))) := by
  obtain ⟨levels, h⟩ := solveTime_forward_ok 2 heatForm divSolver _ (uniformGrid_ne_nil 0 (1/4) 3)
  refine ⟨levels, h, ?_⟩
  have hbr : branchTime (Grids.init (some [0, 1]) (none : Option (List ℚ))) (uniformGrid 0 (1/4) 3) [3/4] 2 = .direct := by
    rw [direct_branch_iff]
    refine ⟨(grid_obs_defaults_to_grid_sol _).2, ?_⟩
    rw [allFinal_iff]
    refine ⟨3/4, ?_, by simp⟩
    norm_num [uniformGrid, List.range, List.range.loop]
  simpa using time_pipeline_final_is_last_level 2 .forward heatForm divSolver (uniformGrid 0 (1/4) 3) _ [3/4]
    (guardedInterp []) levels none h hbr

end timepipe

/-! ### linearity of the whole time-dependent pipeline (no-interpolation branch, `u ↦ M @ u`) -/

section timelinear
variable {P : Type} [AddCommMonoid P] [Module R P] [DecidableEq R]

/-- the final `squeeze()` of `observe`: applied iff there is exactly one observation time -/
def finalSqueeze (tobs : List R) (b : Arr R) : Arr R := if tobs.length = 1 then squeeze b else b

/-- the pipeline on the no-interpolation branch with the observation map `u ↦ M @ u` -/
lemma time_pipeline_direct_left {I : Type} (n : ℕ) (m : Method) (formP : P → R → Form R)
    (solver : Mat R → Vec R → SolverRet (Vec R) I) (ts : List R) (g : Grids R) (tobs : List R)
    (interp : List R → List R → List (List R) → List R → List R → Except Err (List (List R)))
    (M : List (List R)) (hM : ∀ r ∈ M, r.length = n) (hb : branchTime g ts tobs 2 = .direct)
    (x : P) (levels : List (Array R)) (info : Option (List I))
    (hsolve : solveTime n m (formP x) solver ts = .ok (levels, info)) :
    pdeModelForward (timePDE n m formP solver ts g tobs interp (.left M)) x
      = .ok (finalSqueeze tobs (.vec (M.map fun r => ldot r (vecL n (rd (levels.getD (ts.length - 1) #[])))))) := by
  have hall : M.all (fun r => r.length == (vecL n (rd (levels.getD (ts.length - 1) #[]))).length) = true := by
    simp only [List.all_eq_true, vecL_length, beq_iff_eq]
    exact hM
  rw [time_pipeline_spelled_out, hsolve]
  simp only [observeTime, time_pipeline_final_is_last_level n m (formP x) solver ts g tobs interp levels info hsolve hb,
    ObsMap.apply, hall, if_true, finalSqueeze]

/-- **forward_time_pipeline_linear.**  `PDEModel.forward` of a linear time-dependent PDE (forward
    method, final-time observation on the solution grid, observation map `u ↦ M @ u`) is a linear map of
    the parameter: the returned arrays satisfy `forward(c·p + q) = c·forward(p) + forward(q)` entry by
    entry (`finalSqueeze` is the same final `squeeze()` in all three calls). -/
theorem forward_time_pipeline_linear {I : Type} (n : ℕ) (formP : P → R → Form R) (hlin : LinearInParam n formP)
    (solver : Mat R → Vec R → SolverRet (Vec R) I) (ts : List R) (hts : ts ≠ []) (g : Grids R) (tobs : List R)
    (interp : List R → List R → List (List R) → List R → List R → Except Err (List (List R)))
    (M : List (List R)) (hM : ∀ r ∈ M, r.length = n) (hb : branchTime g ts tobs 2 = .direct)
    (c : R) (p q : P) :
    ∃ yp yq : List R,
      pdeModelForward (timePDE n .forward formP solver ts g tobs interp (.left M)) p = .ok (finalSqueeze tobs (.vec yp))
      ∧ pdeModelForward (timePDE n .forward formP solver ts g tobs interp (.left M)) q = .ok (finalSqueeze tobs (.vec yq))
      ∧ pdeModelForward (timePDE n .forward formP solver ts g tobs interp (.left M)) (c • p + q)
          = .ok (finalSqueeze tobs (.vec (List.zipWith (fun a b => c * a + b) yp yq)))
      ∧ yp.length = M.length ∧ yq.length = M.length := by
  obtain ⟨L1, h1⟩ := solveTime_forward_ok n (formP (c • p + q)) solver ts hts
  obtain ⟨L2, h2⟩ := solveTime_forward_ok n (formP p) solver ts hts
  obtain ⟨L3, h3⟩ := solveTime_forward_ok n (formP q) solver ts hts
  have hpos : 0 < ts.length := List.length_pos_iff.mpr hts
  have hlinu : vecL n (rd (L1.getD (ts.length - 1) #[]))
      = List.zipWith (fun a b => c * a + b) (vecL n (rd (L2.getD (ts.length - 1) #[]))) (vecL n (rd (L3.getD (ts.length - 1) #[]))) := by
    rw [← vecL_lincomb]
    exact vecL_congr n _ _ fun i hi =>
      forward_levels_linear n formP hlin solver ts c p q L1 L2 L3 none none none h1 h2 h3 _ (by omega) i hi
  refine ⟨_, _, time_pipeline_direct_left n .forward formP solver ts g tobs interp M hM hb p L2 none h2,
    time_pipeline_direct_left n .forward formP solver ts g tobs interp M hM hb q L3 none h3, ?_, by simp, by simp⟩
  rw [time_pipeline_direct_left n .forward formP solver ts g tobs interp M hM hb _ L1 none h1, hlinu,
    map_ldot_lincomb M c _ _ (by simp)]

/-- **backward_time_pipeline_linear.**  Same for the backward method (correct solver, uniquely solvable
    step systems, the three solves accepted). -/
theorem backward_time_pipeline_linear {I : Type} (n : ℕ) (formP : P → R → Form R) (hlin : LinearInParam n formP)
    (solver : Mat R → Vec R → SolverRet (Vec R) I) (hs : SolverCorrect n solver) (ts : List R)
    (g : Grids R) (tobs : List R)
    (interp : List R → List R → List (List R) → List R → List R → Except Err (List (List R)))
    (M : List (List R)) (hM : ∀ r ∈ M, r.length = n) (hb : branchTime g ts tobs 2 = .direct)
    (c : R) (p q : P)
    (hns : ∀ k, k + 1 < ts.length →
      Nonsing n (bwdMat (ts.getD (k + 1) 0 - ts.getD k 0) (formP p (ts.getD (k + 1) 0))))
    (hok : ∀ x, ∃ L info, solveTime n .backward (formP x) solver ts = .ok (L, info)) :
    ∃ yp yq : List R,
      pdeModelForward (timePDE n .backward formP solver ts g tobs interp (.left M)) p = .ok (finalSqueeze tobs (.vec yp))
      ∧ pdeModelForward (timePDE n .backward formP solver ts g tobs interp (.left M)) q = .ok (finalSqueeze tobs (.vec yq))
      ∧ pdeModelForward (timePDE n .backward formP solver ts g tobs interp (.left M)) (c • p + q)
          = .ok (finalSqueeze tobs (.vec (List.zipWith (fun a b => c * a + b) yp yq)))
      ∧ yp.length = M.length ∧ yq.length = M.length := by
  obtain ⟨L1, j1, h1⟩ := hok (c • p + q)
  obtain ⟨L2, j2, h2⟩ := hok p
  obtain ⟨L3, j3, h3⟩ := hok q
  have hpos : 0 < ts.length := by
    cases ts with
    | nil => simp [solveTime] at h1
    | cons a l => simp
  have hlinu : vecL n (rd (L1.getD (ts.length - 1) #[]))
      = List.zipWith (fun a b => c * a + b) (vecL n (rd (L2.getD (ts.length - 1) #[]))) (vecL n (rd (L3.getD (ts.length - 1) #[]))) := by
    rw [← vecL_lincomb]
    exact vecL_congr n _ _ fun i hi =>
      backward_levels_linear n formP hlin solver hs ts c p q hns L1 L2 L3 j1 j2 j3 h1 h2 h3 _ (by omega) i hi
  refine ⟨_, _, time_pipeline_direct_left n .backward formP solver ts g tobs interp M hM hb p L2 j2 h2,
    time_pipeline_direct_left n .backward formP solver ts g tobs interp M hM hb q L3 j3 h3, ?_, by simp, by simp⟩
  rw [time_pipeline_direct_left n .backward formP solver ts g tobs interp M hM hb _ L1 j1 h1, hlinu,
    map_ldot_lincomb M c _ _ (by simp)]

example (c : ℚ) (p q : Fin 2 → ℚ) :
    let ts : List ℚ := uniformGrid 0 (1/4) 3
    let g : Grids ℚ := Grids.init (some [0, 1]) none
    let pde := timePDE 2 .forward linHeatForm divSolver ts g [3/4] (guardedInterp []) (.left [[1, 1], [0, 3]])
    ∃ yp yq : List ℚ,
      pdeModelForward pde p = .ok (finalSqueeze [3/4] (.vec yp))
      ∧ pdeModelForward pde q = .ok (finalSqueeze [3/4] (.vec yq))
      ∧ pdeModelForward pde (c • p + q) = .ok (finalSqueeze [3/4] (.vec (List.zipWith (fun a b => c * a + b) yp yq)))
      ∧ yp.length = 2 ∧ yq.length = 2 := by
  intro ts g pde
  have hbr : branchTime g ts [3/4] 2 = .direct := by
    rw [direct_branch_iff]
    refine ⟨(grid_obs_defaults_to_grid_sol _).2, ?_⟩
    rw [allFinal_iff]
    refine ⟨3/4, ?_, by simp⟩
    norm_num [ts, uniformGrid, List.range, List.range.loop]
  exact forward_time_pipeline_linear 2 linHeatForm linHeatForm_linear divSolver ts (uniformGrid_ne_nil _ _ _) g [3/4]
    (guardedInterp []) [[1, 1], [0, 3]] (by simp) hbr c p q

end timelinear

/-! ## 5. `method` strings: the case-variant names

`Method.ofString` (Model/C18) validates with core `String.toLower`, which does not reduce by
`decide` on its own; through core's `String.toList_map` it becomes `List.map Char.toLower` on the
character list, which does.  The statements below are therefore about the model's own
`Method.ofString` (not about a re-implementation). -/

/-- lower-casing a string = lower-casing its character list (ASCII letters only, `Char.toLower`) -/
lemma toLower_eq_iff (s t : String) : s.toLower = t ↔ s.toList.map Char.toLower = t.toList := by
  rw [← String.toList_map]
  exact ⟨fun h => by rw [← h]; rfl, fun h => String.toList_injective h⟩

/-- **method_ofString_spec.**  Complete description of the `method` setter on *every* string: the two
    literals select the two loops; a string that is neither literal but whose ASCII lower-casing is
    one of them is accepted and stored verbatim (`otherCase`); every other string is refused
    (`ValueError`). -/
theorem method_ofString_spec (s : String) :
    (Method.ofString s = some .forward ↔ s = "forward_euler")
    ∧ (Method.ofString s = some .backward ↔ s = "backward_euler")
    ∧ (Method.ofString s = some .otherCase ↔ s ≠ "forward_euler" ∧ s ≠ "backward_euler" ∧
        (s.toList.map Char.toLower = "forward_euler".toList
          ∨ s.toList.map Char.toLower = "backward_euler".toList))
    ∧ (Method.ofString s = none ↔ s.toList.map Char.toLower ≠ "forward_euler".toList
          ∧ s.toList.map Char.toLower ≠ "backward_euler".toList) := by
  have hne : ("backward_euler" : String) ≠ "forward_euler" := by decide
  have hf : ("forward_euler" : String).toLower = "forward_euler" := (toLower_eq_iff _ _).mpr (by decide)
  have hb : ("backward_euler" : String).toLower = "backward_euler" := (toLower_eq_iff _ _).mpr (by decide)
  rw [← toLower_eq_iff s "forward_euler", ← toLower_eq_iff s "backward_euler"]
  unfold Method.ofString
  by_cases h1 : s = "forward_euler"
  · subst h1; simp [hf]
  · by_cases h2 : s = "backward_euler"
    · subst h2; simp [hne, hb]
    · by_cases h3 : s.toLower = "forward_euler" ∨ s.toLower = "backward_euler"
      · simp [h1, h2, h3]
        intro hP
        rcases h3 with h | h
        · exact absurd ((toLower_eq_iff _ _).mp h) hP
        · exact (toLower_eq_iff _ _).mp h
      · simp only [h1, h2, h3, if_false]
        rw [not_or] at h3
        simp [h3.1, h3.2]
        exact ⟨fun h => h3.1 ((toLower_eq_iff _ _).mpr h), fun h => h3.2 ((toLower_eq_iff _ _).mpr h)⟩

/-- **method_case_variant_refused.**  Any `method` string that differs from `'forward_euler'` /
    `'backward_euler'` only in the case of its letters passes the setter, and `solve()` then returns
    no value on any non-empty time grid: it dies on the unbound `info` (`UnboundLocalError`) — loud,
    never a wrong solution. -/
theorem method_case_variant_refused {I : Type} (s : String)
    (hcase : s.toList.map Char.toLower = "forward_euler".toList
      ∨ s.toList.map Char.toLower = "backward_euler".toList)
    (h1 : s ≠ "forward_euler") (h2 : s ≠ "backward_euler")
    (n : ℕ) (form : R → Form R) (solver : Mat R → Vec R → SolverRet (Vec R) I) (ts : List R) (hts : ts ≠ []) :
    ∃ m, Method.ofString s = some m ∧ solveTime n m form solver ts = .error .unboundLocal :=
  ⟨.otherCase, (method_ofString_spec s).2.2.1.mpr ⟨h1, h2, hcase⟩,
    (unbound_info_refusals n form solver (0 : R) ts).2 hts⟩

/-- concrete case variants (and strings that are refused outright) -/
theorem method_case_variant_instances :
    Method.ofString "Forward_Euler" = some .otherCase
    ∧ Method.ofString "BACKWARD_EULER" = some .otherCase
    ∧ Method.ofString "backward_Euler" = some .otherCase
    ∧ Method.ofString "forward euler" = none
    ∧ Method.ofString "crank_nicolson" = none
    ∧ Method.ofString "" = none := by
  refine ⟨?_, ?_, ?_, ?_, ?_, ?_⟩
  · exact (method_ofString_spec _).2.2.1.mpr ⟨by decide, by decide, by decide⟩
  · exact (method_ofString_spec _).2.2.1.mpr ⟨by decide, by decide, by decide⟩
  · exact (method_ofString_spec _).2.2.1.mpr ⟨by decide, by decide, by decide⟩
  · exact (method_ofString_spec _).2.2.2.mpr ⟨by decide, by decide⟩
  · exact (method_ofString_spec _).2.2.2.mpr ⟨by decide, by decide⟩
  · exact (method_ofString_spec _).2.2.2.mpr ⟨by decide, by decide⟩

example : ∃ m, Method.ofString "Forward_Euler" = some m
    ∧ solveTime 1 m decayForm divSolver [0, 1/2, 2] = .error .unboundLocal :=
  method_case_variant_refused "Forward_Euler" (by decide) (by decide) (by decide) 1 decayForm divSolver _
    (by simp)

/-! ## 6. convergence to the ODE solution (scalar test equation, over ℝ)

What the closed forms are *for*: on the uniform grid of `N` steps over `[0, T]` the final level of
either method tends to the exact solution `u0·e^{λT}` of `u' = λu`, `u(0) = u0`, as `N → ∞`. -/

section convergence
open Filter Topology

/-- **forward_euler_converges.**  The last forward-Euler level on `np.linspace(0, T, N+1)` tends to
    `u0·exp(λT)` as the number of steps grows (any `λ`, `T`, `u0` in ℝ). -/
theorem forward_euler_converges {I : Type} (form : ℝ → Form ℝ)
    (solver : Mat ℝ → Vec ℝ → SolverRet (Vec ℝ) I) (lam u0 T : ℝ)
    (hform : ∀ t, (form t).op 0 0 = lam ∧ (form t).src 0 = 0 ∧ (form t).ic 0 = u0) :
    Tendsto (fun N : ℕ => levelOf (solveTime 1 .forward form solver (uniformGrid 0 (T / N) N)) N 0)
      atTop (𝓝 (u0 * Real.exp (lam * T))) := by
  have hval : ∀ N : ℕ, levelOf (solveTime 1 .forward form solver (uniformGrid 0 (T / N) N)) N 0
      = (1 + lam * T / N) ^ N * u0 := by
    intro N
    obtain ⟨L, hL⟩ := solveTime_forward_ok 1 form solver _ (uniformGrid_ne_nil (0 : ℝ) (T / N) N)
    simp only [hL, levelOf]
    rw [forward_test_equation_levels form solver _ L none hL (T / N) lam (uniformGrid_uniform _ _ _)
      (fun _ _ => (hform _).1) (fun _ _ => (hform _).2.1) N (by simp),
      level_zero_ic 1 _ form solver _ L none hL 0 (by norm_num), (hform _).2.2]
    congr 2
    ring
  simp only [hval]
  rw [mul_comm u0]
  exact (Real.tendsto_one_add_div_pow_exp (lam * T)).mul_const u0

/-- **backward_euler_converges.**  Same for the backward method with a correct solver (the solves
    being accepted from some `N` on; no sign condition on `λ`). -/
theorem backward_euler_converges {I : Type} (form : ℝ → Form ℝ)
    (solver : Mat ℝ → Vec ℝ → SolverRet (Vec ℝ) I) (hs : SolverCorrect 1 solver) (lam u0 T : ℝ)
    (hform : ∀ t, (form t).op 0 0 = lam ∧ (form t).src 0 = 0 ∧ (form t).ic 0 = u0)
    (hok : ∀ᶠ N : ℕ in atTop, ∃ L info, solveTime 1 .backward form solver (uniformGrid 0 (T / N) N) = .ok (L, info)) :
    Tendsto (fun N : ℕ => levelOf (solveTime 1 .backward form solver (uniformGrid 0 (T / N) N)) N 0)
      atTop (𝓝 (u0 * Real.exp (lam * T))) := by
  have hlim : Tendsto (fun N : ℕ => u0 / (1 + -(lam * T) / N) ^ N) atTop (𝓝 (u0 / Real.exp (-(lam * T)))) :=
    tendsto_const_nhds.div (Real.tendsto_one_add_div_pow_exp (-(lam * T))) (Real.exp_ne_zero _)
  have hgoal : u0 * Real.exp (lam * T) = u0 / Real.exp (-(lam * T)) := by
    rw [Real.exp_neg, div_inv_eq_mul]
  rw [hgoal]
  refine hlim.congr' ?_
  have hpos : ∀ᶠ N : ℕ in atTop, (1 + -(lam * T) / N) ^ N ≠ 0 := by
    have : ∀ᶠ N : ℕ in atTop, (0 : ℝ) < (1 + -(lam * T) / N) ^ N :=
      (Real.tendsto_one_add_div_pow_exp (-(lam * T))).eventually (lt_mem_nhds (Real.exp_pos _))
    exact this.mono fun N h => ne_of_gt h
  filter_upwards [hok, hpos] with N hN hne
  obtain ⟨L, info, hL⟩ := hN
  simp only [hL, levelOf]
  have h1 := backward_test_equation_levels form solver hs _ L info hL (T / N) lam (uniformGrid_uniform _ _ _)
    (fun _ _ => (hform _).1) (fun _ _ => (hform _).2.1) N (by simp)
  rw [level_zero_ic 1 _ form solver _ L info hL 0 (by norm_num), (hform _).2.2] at h1
  have h2 : (1 - T / N * lam : ℝ) = 1 + -(lam * T) / N := by ring
  rw [h2] at h1
  rw [div_eq_iff hne]
  linear_combination (-1 : ℝ) * h1

/-- the backward loop returns as soon as no step's solve is refused -/
lemma bwdLevels_ok {I : Type} (n : ℕ) (form : R → Form R) (solver : Mat R → Vec R → SolverRet (Vec R) I) :
    ∀ (rest : List R) (t : R) (u : Array R),
      (∀ k, k < rest.length → ∀ b, ∃ x info,
        unpack (solver (bwdMat ((t :: rest).getD (k + 1) 0 - (t :: rest).getD k 0) (form ((t :: rest).getD (k + 1) 0))) b)
          = .ok (x, info)) →
      ∃ steps, bwdLevels n form solver t u rest = .ok steps := by
  intro rest
  induction rest with
  | nil => intro t u _; exact ⟨[], rfl⟩
  | cons t' rest ih =>
    intro t u h
    obtain ⟨x, info, hx⟩ := h 0 (by simp) (bwdRhs (t' - t) (form t') (rd u))
    obtain ⟨tail, htail⟩ := ih t' (tab n x) (fun k hk b => by simpa using h (k + 1) (by simpa using hk) b)
    refine ⟨(tab n x, info) :: tail, ?_⟩
    simp only [bwdLevels]
    simp only [List.getD_cons_succ, List.getD_cons_zero] at hx
    rw [hx]
    simp only [htail]

/-- the backward method returns as soon as the grid has at least two levels and no step's solve is refused -/
lemma solveTime_backward_ok {I : Type} (n : ℕ) (form : R → Form R) (solver : Mat R → Vec R → SolverRet (Vec R) I)
    (ts : List R) (hlen : 2 ≤ ts.length)
    (h : ∀ k, k + 1 < ts.length → ∀ b, ∃ x info,
      unpack (solver (bwdMat (ts.getD (k + 1) 0 - ts.getD k 0) (form (ts.getD (k + 1) 0))) b) = .ok (x, info)) :
    ∃ L info, solveTime n .backward form solver ts = .ok (L, info) := by
  cases ts with
  | nil => simp at hlen
  | cons t0 rest =>
    obtain ⟨steps, hsteps⟩ := bwdLevels_ok n form solver rest t0 (tab n (form t0).ic)
      (fun k hk b => h k (by simpa using hk) b)
    have hl := bwdLevels_length n form solver rest t0 _ steps hsteps
    have hne : steps ≠ [] := by
      intro h0
      rw [h0] at hl
      simp at hlen hl
      omega
    obtain ⟨ys, y, rfl⟩ : ∃ ys y, steps = ys ++ [y] := ⟨_, _, (List.dropLast_append_getLast hne).symm⟩
    exact ⟨tab n (form t0).ic :: (ys ++ [y]).map (·.1), y.2, by simp [solveTime, hsteps]⟩

/-- the test equation `u' = -3u`, `u(0) = 4` over ℝ -/
noncomputable def testFormR (_ : ℝ) : Form ℝ := ⟨fun _ _ => -3, fun _ => 0, fun _ => 4⟩

example : Tendsto (fun N : ℕ => levelOf (solveTime 1 .forward testFormR realDivSolver (uniformGrid 0 ((1 : ℝ) / N) N)) N 0)
    atTop (𝓝 (4 * Real.exp (-3 * 1))) :=
  forward_euler_converges testFormR realDivSolver (-3) 4 1 (fun _ => ⟨rfl, rfl, rfl⟩)

example : Tendsto (fun N : ℕ => levelOf (solveTime 1 .backward testFormR realDivSolver (uniformGrid 0 ((1 : ℝ) / N) N)) N 0)
    atTop (𝓝 (4 * Real.exp (-3 * 1))) := by
  refine backward_euler_converges testFormR realDivSolver realDivSolver_correct (-3) 4 1 (fun _ => ⟨rfl, rfl, rfl⟩) ?_
  filter_upwards [eventually_ge_atTop 1] with N hN
  have hne : ((1 : ℝ) - 1 / N * (-3)) ≠ 0 := by
    have : (0 : ℝ) ≤ 1 / N := by positivity
    nlinarith
  refine solveTime_backward_ok 1 testFormR realDivSolver _ (by simp; omega) ?_
  intro k hk b
  rw [uniformGrid_uniform (0 : ℝ) (1 / N) N k hk]
  have hm : bwdMat ((1 : ℝ) / N) (testFormR ((uniformGrid (0 : ℝ) (1 / N) N).getD (k + 1) 0)) 0 0 ≠ 0 := by
    simpa [bwdMat, eye, testFormR] using hne
  simp only [realDivSolver, if_neg hm, unpack]
  exact ⟨_, _, rfl⟩

end convergence

end CuqiVerif.C18
