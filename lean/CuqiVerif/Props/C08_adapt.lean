import CuqiVerif.Model.C08Adapt
import Mathlib.Tactic.Ring
import Mathlib.Tactic.Linarith
import Mathlib.Tactic.FieldSimp
import Mathlib.Tactic.Positivity
import Mathlib.Algebra.BigOperators.Group.Finset.Basic
import Mathlib.Algebra.Order.BigOperators.Group.Finset
import Mathlib.Algebra.Order.Field.Basic
import Mathlib.Data.Rat.Defs
import Mathlib.Tactic.NormNum

/-!
# C08 — the step size produced by warm-up (`Model/C08Adapt.lean`)

The property quantifies over "any fixed step size … and the step size produced by warm-up".  The invariance
theorems (`Props/C08_orbit`, `C08_law`, `C08_phase`) are about a transition with ONE step size.  This file shows,
for the executable transcription of the step-size bookkeeping of both interfaces, that

* after warm-up nothing adapts: the first sampling transition uses the last adapted `ε`, every later one uses
  the averaged `ε̄`, whatever the chain does (`sampleExp_used`, `runLeg_used`); with a user step size and no
  warm-up every transition uses that step size (`sampleExp_fixed`) — so each sampling transition is a
  fixed-step-size transition and the invariance theorems apply to it;
* the running average `H̄` is the mean acceptance deficit `Σ(δ-αᵢ)/(k+t₀)` (`hbar_closed`,
  `warmupLeg_hbar`), bounded by `k/(k+t₀) < 1` (`hbar_bounded`), of the sign opposite to the excess acceptance
  (`hbar_nonpos_of_accept_high`, `tune_eps_ge_mu`), zero at equilibrium (`tune_equilibrium`);
* `log ε̄` is a convex combination of the adapted `log ε` (`tune_bar_between`), and the first update forgets the
  initial `ε̄ = 1` (`tune_first_forgets`);
* `_FindGoodEpsilon` returns a power of two (`findEps_pow_two`).

A quirk of the experimental schedule is recorded as a theorem, not a defect of the property: `step` ends with
`_epsilon = _epsilon_bar`, and `_pre_warmup` sets `ε̄ = 1`, so with a tuning interval ≥ 2 the second warm-up
transition runs with step size 1 whatever `_FindGoodEpsilon` returned (`warmupExp_second_step_unit`).
-/

namespace CuqiVerif.C08
open Finset

/-- `H̄` after the consecutive updates `1..m` started from `H̄ = 0` (`al k` = acceptance statistic of update `k`) -/
def hbarSeq (delta : Rat) (al : Nat → Rat) : Nat → Rat
  | 0 => 0
  | m + 1 => hbarNext delta (hbarSeq delta al m) (m + 1) (al (m + 1))

lemma hbarNext_mul (delta h : Rat) (k : Nat) (a : Rat) :
    hbarNext delta h k a * ((k : Rat) + 10) = h * ((k : Rat) + 10 - 1) + (delta - a) := by
  unfold hbarNext daT0
  have hk : ((k : Rat) + 10) ≠ 0 := by positivity
  field_simp

/-- the running average is the mean acceptance deficit: `H̄ₘ (m + t₀) = Σ_{k=1..m} (δ - αₖ)` -/
theorem hbar_closed (delta : Rat) (al : Nat → Rat) (m : Nat) :
    hbarSeq delta al m * ((m : Rat) + 10) = ∑ i ∈ range m, (delta - al (i + 1)) := by
  induction m with
  | zero => simp [hbarSeq]
  | succ m ih =>
    rw [hbarSeq, hbarNext_mul, sum_range_succ, ← ih]
    push_cast; ring

example : hbarSeq (3/5) (fun _ => 1/5) 2 = 1/15 := by
  norm_num [hbarSeq, hbarNext, daT0]

/-- with acceptance statistics in `[0,1]` and a target rate in `[0,1]`: `|H̄ₘ| ≤ m/(m+t₀) < 1` -/
theorem hbar_bounded (delta : Rat) (al : Nat → Rat) (m : Nat) (hd : 0 ≤ delta ∧ delta ≤ 1)
    (ha : ∀ k, 0 ≤ al k ∧ al k ≤ 1) :
    |hbarSeq delta al m| * ((m : Rat) + 10) ≤ m := by
  have hpos : (0 : Rat) ≤ (m : Rat) + 10 := by positivity
  rw [← abs_of_nonneg hpos, ← abs_mul, hbar_closed]
  calc |∑ i ∈ range m, (delta - al (i + 1))| ≤ ∑ i ∈ range m, |delta - al (i + 1)| := abs_sum_le_sum_abs _ _
    _ ≤ ∑ _i ∈ range m, (1 : Rat) := by
        apply sum_le_sum
        intro i _
        have := ha (i + 1)
        rw [abs_le]; constructor <;> linarith [hd.1, hd.2, this.1, this.2]
    _ = m := by simp

/-- acceptance always at least the target rate ⇒ `H̄ ≤ 0` -/
theorem hbar_nonpos_of_accept_high (delta : Rat) (al : Nat → Rat) (m : Nat) (h : ∀ k, delta ≤ al k) :
    hbarSeq delta al m ≤ 0 := by
  have hpos : (0 : Rat) < (m : Rat) + 10 := by positivity
  have hs : ∑ i ∈ range m, (delta - al (i + 1)) ≤ 0 :=
    sum_nonpos (fun i _ => by linarith [h (i + 1)])
  rw [← hbar_closed] at hs
  by_contra hc
  rw [not_le] at hc
  have := mul_pos hc hpos
  linarith

/-- acceptance always at most the target rate ⇒ `H̄ ≥ 0` -/
theorem hbar_nonneg_of_accept_low (delta : Rat) (al : Nat → Rat) (m : Nat) (h : ∀ k, al k ≤ delta) :
    0 ≤ hbarSeq delta al m := by
  have hpos : (0 : Rat) < (m : Rat) + 10 := by positivity
  have hs : 0 ≤ ∑ i ∈ range m, (delta - al (i + 1)) :=
    sum_nonneg (fun i _ => by linarith [h (i + 1)])
  rw [← hbar_closed] at hs
  by_contra hc
  rw [not_le] at hc
  have := mul_neg_of_neg_of_pos hc hpos
  linarith

/-- the adapted `log ε` moves against `H̄`: `H̄ ≤ 0` (too many acceptances) gives `ε ≥ e^μ`, and conversely -/
theorem tune_eps_ge_mu (s : DA) (k : Nat) (alpha sqrtk eta : Rat) (hs : 0 ≤ sqrtk)
    (hh : hbarNext s.delta s.hBar k alpha ≤ 0) : s.mu ≤ (s.tune k alpha sqrtk eta).lEps := by
  have hg : (0 : Rat) ≤ sqrtk / daGamma := div_nonneg hs (by norm_num [daGamma])
  have : (sqrtk / daGamma) * hbarNext s.delta s.hBar k alpha ≤ 0 := mul_nonpos_of_nonneg_of_nonpos hg hh
  simp only [DA.tune]; linarith

theorem tune_eps_le_mu (s : DA) (k : Nat) (alpha sqrtk eta : Rat) (hs : 0 ≤ sqrtk)
    (hh : 0 ≤ hbarNext s.delta s.hBar k alpha) : (s.tune k alpha sqrtk eta).lEps ≤ s.mu := by
  have hg : (0 : Rat) ≤ sqrtk / daGamma := div_nonneg hs (by norm_num [daGamma])
  have : 0 ≤ (sqrtk / daGamma) * hbarNext s.delta s.hBar k alpha := mul_nonneg hg hh
  simp only [DA.tune]; linarith

/-- equilibrium: acceptance exactly at the target rate from `H̄ = 0` leaves `ε = e^μ` -/
theorem tune_equilibrium (s : DA) (k : Nat) (sqrtk eta : Rat) (h0 : s.hBar = 0) :
    (s.tune k s.delta sqrtk eta).lEps = s.mu ∧ (s.tune k s.delta sqrtk eta).hBar = 0 := by
  simp [DA.tune, hbarNext, h0]

/-- `log ε̄` after an update lies between the new `log ε` and the old `log ε̄` (for `0 ≤ η ≤ 1`) -/
theorem tune_bar_between (s : DA) (k : Nat) (alpha sqrtk eta b : Rat) (hb : s.lBar = some b)
    (he : 0 ≤ eta ∧ eta ≤ 1) :
    ∃ nb, (s.tune k alpha sqrtk eta).lBar = some nb ∧
      min (s.tune k alpha sqrtk eta).lEps b ≤ nb ∧ nb ≤ max (s.tune k alpha sqrtk eta).lEps b := by
  refine ⟨_, rfl, ?_, ?_⟩ <;> simp only [DA.tune, hb, Option.getD_some]
  · rcases le_total (s.mu - sqrtk / daGamma * hbarNext s.delta s.hBar k alpha) b with h | h
    · rw [min_eq_left h]; nlinarith [he.1, he.2]
    · rw [min_eq_right h]; nlinarith [he.1, he.2]
  · rcases le_total (s.mu - sqrtk / daGamma * hbarNext s.delta s.hBar k alpha) b with h | h
    · rw [max_eq_right h]; nlinarith [he.1, he.2]
    · rw [max_eq_left h]; nlinarith [he.1, he.2]

/-- the first update (`η = 1^(-κ) = 1`) forgets the initial `ε̄ = 1`: afterwards `ε̄ = ε` -/
theorem tune_first_forgets (s : DA) (k : Nat) (alpha sqrtk : Rat) :
    (s.tune k alpha sqrtk 1).lBar = some (s.tune k alpha sqrtk 1).lEps := by
  simp [DA.tune]

/-! ## nothing adapts after warm-up -/

lemma iter_stepExp_some (b : Rat) : ∀ (n : Nat) (s : DA), s.lBar = some b → s.lEps = b →
    (iter DA.stepExp n s).used = s.used ++ List.replicate n b ∧ (iter DA.stepExp n s).lBar = some b ∧
    (iter DA.stepExp n s).lEps = b ∧ (iter DA.stepExp n s).hBar = s.hBar
  | 0, s, hb, he => by simp [iter, hb, he]
  | n + 1, s, hb, he => by
    have ih := iter_stepExp_some b n s.stepExp (by simp [DA.stepExp, hb]) (by simp [DA.stepExp, hb])
    simp only [iter]
    refine ⟨?_, ih.2.1, ih.2.2.1, ?_⟩
    · rw [ih.1]; simp [DA.stepExp, he, List.replicate_succ]
    · rw [ih.2.2.2]; simp [DA.stepExp]

/-- experimental `sample(N+1)` after a warm-up that left `(ε, ε̄)`: the first transition runs with `ε`, all the others
    with `ε̄`; `H̄` and `ε̄` never change again — the sequence of step sizes is fixed when warm-up ends -/
theorem sampleExp_used (s : DA) (b : Rat) (N : Nat) (hb : s.lBar = some b) :
    (sampleExp s (N + 1)).used = s.used ++ s.lEps :: List.replicate N b ∧
    (sampleExp s (N + 1)).lBar = some b ∧ (sampleExp s (N + 1)).hBar = s.hBar := by
  have hp : s.preSample = s := by cases s; simp_all [DA.preSample]
  simp only [sampleExp, hp, iter]
  have ih := iter_stepExp_some b N s.stepExp (by simp [DA.stepExp, hb]) (by simp [DA.stepExp, hb])
  refine ⟨?_, ih.2.1, ?_⟩
  · rw [ih.1]; simp [DA.stepExp]
  · rw [ih.2.2.2]; simp [DA.stepExp]

/-- no warm-up (`ε̄` unset), e.g. a user-supplied step size: every transition of `sample(N)` runs with that step size -/
theorem sampleExp_fixed (s : DA) (N : Nat) (hb : s.lBar = none) :
    (sampleExp s N).used = s.used ++ List.replicate N s.lEps := by
  have h := iter_stepExp_some s.lEps N s.preSample (by simp [DA.preSample, hb]) (by simp [DA.preSample])
  simpa [sampleExp, DA.preSample] using h.1

example : (sampleExp { (DA.init (-1) 2 (3/5)) with lBar := some (-2) } 3).used = [-1, -2, -2] := by
  decide +kernel

lemma iter_stepLeg (n : Nat) : ∀ (s : DA),
    (iter DA.stepLeg n s).used = s.used ++ List.replicate n s.lEps ∧ (iter DA.stepLeg n s).lEps = s.lEps ∧
    (iter DA.stepLeg n s).lBar = s.lBar ∧ (iter DA.stepLeg n s).hBar = s.hBar := by
  induction n with
  | zero => intro s; simp [iter]
  | succ n ih =>
    intro s
    have := ih s.stepLeg
    simp only [iter]
    refine ⟨?_, this.2.1, this.2.2.1, this.2.2.2⟩
    rw [this.1]; simp [DA.stepLeg, List.replicate_succ]

/-- legacy `sample(N, Nb)` with adaptation: after the `Nb` adapted transitions, the first sampling transition uses the
    last adapted `ε`, all later ones the averaged `ε̄` of the end of warm-up -/
theorem runLeg_used (s : DA) (Nb m : Nat) (al sq et : Nat → Rat) :
    let w := warmupLegFrom al sq et Nb 1 { s with lBar := some 0, hBar := 0 }
    (runLeg s Nb (m + 1) al sq et).used = w.used ++ w.lEps :: List.replicate m (w.lBar.getD w.lEps) := by
  intro w
  have h := iter_stepLeg m { w.stepLeg with lEps := w.stepLeg.lBar.getD w.stepLeg.lEps }
  simp only [runLeg]
  rw [h.1]
  simp [DA.stepLeg, w]

/-- legacy warm-up: `H̄ (Nb + t₀) = Σ_{k=1..Nb} (δ - αₖ)` for the state the model actually reaches -/
theorem warmupLeg_hbar (al sq et : Nat → Rat) : ∀ (n k : Nat) (s : DA), 1 ≤ k →
    (warmupLegFrom al sq et n k s).hBar * ((k + n : Nat) - 1 + 10 : Rat) =
      s.hBar * ((k : Rat) - 1 + 10) + ∑ i ∈ range n, (s.delta - al (k + i)) ∧
    (warmupLegFrom al sq et n k s).delta = s.delta
  | 0, k, s, _ => by simp [warmupLegFrom]
  | n + 1, k, s, hk => by
    have ih := warmupLeg_hbar al sq et n (k + 1) ((s.stepLeg).tune k (al k) (sq k) (et k)) (by omega)
    simp only [warmupLegFrom]
    have hd : ((s.stepLeg).tune k (al k) (sq k) (et k)).delta = s.delta := by simp [DA.tune, DA.stepLeg]
    have hh : ((s.stepLeg).tune k (al k) (sq k) (et k)).hBar = hbarNext s.delta s.hBar k (al k) := by
      simp [DA.tune, DA.stepLeg]
    refine ⟨?_, by rw [ih.2, hd]⟩
    have e1 : ((k + 1 + n : Nat) : Rat) = ((k + (n + 1) : Nat) : Rat) := by congr 1; omega
    rw [← e1, ih.1, hd, hh, sum_range_succ' (fun i => s.delta - al (k + i))]
    have := hbarNext_mul s.delta s.hBar k (al k)
    have e2 : ∀ i, k + 1 + i = k + (i + 1) := fun i => by omega
    simp only [e2, Nat.add_zero]
    push_cast
    linarith

/-! ## the experimental schedule's second warm-up transition -/

lemma warmupExpFrom_appends (interval : Nat) (al sq et : Nat → Rat) : ∀ (n idx : Nat) (t : DA),
    ∃ l, (warmupExpFrom interval al sq et n idx t).used = t.used ++ l
  | 0, _, t => ⟨[], by simp [warmupExpFrom]⟩
  | n + 1, idx, t => by
    simp only [warmupExpFrom]
    split
    · obtain ⟨l, hl⟩ := warmupExpFrom_appends interval al sq et n (idx + 1)
        ((t.stepExp).tune (idx / interval + 1) (al idx) (sq (idx / interval + 1)) (et (idx / interval + 1)))
      refine ⟨t.lEps :: l, ?_⟩
      rw [hl]; simp [DA.tune, DA.stepExp]
    · obtain ⟨l, hl⟩ := warmupExpFrom_appends interval al sq et n (idx + 1) t.stepExp
      refine ⟨t.lEps :: l, ?_⟩
      rw [hl]; simp [DA.stepExp]

/-- experimental interface, tuning interval ≥ 2, at least two warm-up transitions, no earlier warm-up: the second
    warm-up transition runs with `log ε = 0`, i.e. step size 1, independently of the initial step size. -/
theorem warmupExp_second_step_unit (s : DA) (Nb interval : Nat) (al sq et : Nat → Rat)
    (hn : s.lBar = none) (hi : 2 ≤ interval) :
    ((warmupExp s (Nb + 2) interval al sq et).used.drop s.used.length).take 2 = [s.lEps, 0] := by
  have h1 : (0 + 1) % interval ≠ 0 := by
    rw [Nat.mod_eq_of_lt (by omega)]; omega
  simp only [warmupExp, warmupExpFrom, h1, if_false]
  have ht1u : s.preWarmup.stepExp.used = s.used ++ [s.lEps] := by simp [DA.stepExp, DA.preWarmup]
  have ht1e : s.preWarmup.stepExp.lEps = 0 := by simp [DA.stepExp, DA.preWarmup, hn]
  split
  · obtain ⟨l, hl⟩ := warmupExpFrom_appends interval al sq et Nb (0 + 1 + 1)
      ((s.preWarmup.stepExp.stepExp).tune ((0 + 1) / interval + 1) (al (0 + 1)) (sq ((0 + 1) / interval + 1)) (et ((0 + 1) / interval + 1)))
    rw [hl]
    simp [DA.tune, DA.stepExp, DA.preWarmup, hn]
  · obtain ⟨l, hl⟩ := warmupExpFrom_appends interval al sq et Nb (0 + 1 + 1) s.preWarmup.stepExp.stepExp
    rw [hl]
    simp [DA.stepExp, DA.preWarmup, hn]

example : ((warmupExp (DA.init (-3) 2 (3/5)) 4 2 (fun _ => 1/2) (fun _ => 1) (fun _ => 1)).used.take 2) = [-3, 0] := by
  decide +kernel

/-! ## `_FindGoodEpsilon` returns a power of two -/

lemma halveInf_pow (t : Target) (x r : List Rat) (ham : Rat) : ∀ (fuel : Nat) (k e : Rat),
    (∃ z : ℤ, k = (2 : Rat) ^ z) → halveInf t x r ham fuel k = some e → ∃ z : ℤ, e = (2 : Rat) ^ z
  | 0, _, _, _, h => by simp [halveInf] at h
  | fuel + 1, k, e, ⟨z, hz⟩, h => by
    simp only [halveInf] at h
    split at h
    · exact halveInf_pow t x r ham fuel (k / 2) e ⟨z - 1, by rw [hz, zpow_sub_one₀ (by norm_num)]; ring⟩ h
    · exact halveInf_pow t x r ham fuel (k / 2) e ⟨z - 1, by rw [hz, zpow_sub_one₀ (by norm_num)]; ring⟩ h
    · cases h; exact ⟨z, hz⟩

lemma searchEps_pow (t : Target) (x r : List Rat) (ham log2 : Rat) (a : Int) : ∀ (fuel : Nat) (eps : Rat) (lr : XR) (e : Rat),
    (∃ z : ℤ, eps = (2 : Rat) ^ z) → searchEps t x r ham log2 a fuel eps lr = some e → ∃ z : ℤ, e = (2 : Rat) ^ z
  | 0, _, _, _, _, h => by simp [searchEps] at h
  | fuel + 1, eps, lr, e, ⟨z, hz⟩, h => by
    simp only [searchEps] at h
    split at h
    · refine searchEps_pow t x r ham log2 a fuel _ _ e ?_ h
      by_cases ha : a = 1
      · exact ⟨z + 1, by simp [ha, hz, zpow_add_one₀]; ring⟩
      · exact ⟨z - 1, by simp [ha, hz]; rw [zpow_sub_one₀ (by norm_num)]; ring⟩
    · cases h; exact ⟨z, hz⟩

/-- whatever the target, start point, momentum draw and fuel: a returned initial step size is `2^z` for an integer `z` -/
theorem findEps_pow_two (t : Target) (x r : List Rat) (log2 : Rat) (fuel : Nat) (e : Rat)
    (h : findEps t x r log2 fuel = some e) : ∃ z : ℤ, e = (2 : Rat) ^ z := by
  unfold findEps at h
  split at h
  · rename_i l0 _
    dsimp only at h
    cases hk : halveInf t x r (l0 - 1 / 2 * dotQ r r) fuel 1 with
    | none => rw [hk] at h; cases h
    | some k =>
      rw [hk] at h; dsimp only at h
      obtain ⟨z, hz⟩ := halveInf_pow t x r _ fuel 1 k ⟨0, by simp⟩ hk
      exact searchEps_pow t x r _ log2 _ fuel (k / 2) _ e ⟨z - 1, by rw [hz, zpow_sub_one₀ (by norm_num)]; ring⟩ h
  · simp at h

example : findEps { P := [[1]], b := [0], wall := none } [1] [1/2] (6931/10000) 40 = some 4 := by
  decide +kernel

end CuqiVerif.C08
